(* C12 - proofs about the search-list model (Core/Search.v). *)
From CAres.Base Require Import Outcome CInt.
From CAres.Gen Require Import Consts.
From CAres.Core Require Import Search.
From Coq Require Import NArith Lia.

(* ------------------------------------------------------------------------------------ *)
(* Candidate list                                                                        *)
(* ------------------------------------------------------------------------------------ *)

Lemma set_slot_mid (pre post : list (option name)) (x : option name) (v : name) :
  set_slot (pre ++ x :: post) (length pre) v = Ok (pre ++ Some v :: post).
Proof.
  unfold set_slot.
  assert (Nat.ltb (length pre) (length (pre ++ x :: post)) = true) as Hlt.
  { apply Nat.ltb_lt. rewrite app_length. simpl. lia. }
  rewrite Hlt.
  assert (firstn (length pre) (pre ++ x :: post) = pre) as Hf.
  { rewrite firstn_app, Nat.sub_diag, firstn_all. cbn [firstn]. apply app_nil_r. }
  assert (skipn (S (length pre)) (pre ++ x :: post) = post) as Hs.
  { rewrite skipn_app. rewrite skipn_all2 by lia.
    replace (S (length pre) - length pre)%nat with 1%nat by lia. reflexivity. }
  rewrite Hf, Hs. reflexivity.
Qed.

Lemma cat_domain_qualify nm d : cat_domain nm d = qualify nm d.
Proof. unfold cat_domain, qualify. destruct (name_eqb d [DOT]); reflexivity. Qed.

Lemma cat_loop_fills nm : forall doms pre k,
  cat_loop nm doms (pre ++ repeat None (length doms + k)) (length pre)
  = Ok (pre ++ map (fun d => Some (qualify nm d)) doms ++ repeat None k, (length pre + length doms)%nat).
Proof.
  induction doms as [|d r IH]; intros pre k.
  - simpl. rewrite Nat.add_0_r. reflexivity.
  - cbn [cat_loop length Nat.add repeat].
    rewrite set_slot_mid. cbn [bind].
    replace (pre ++ Some (cat_domain nm d) :: repeat None (length r + k))
      with ((pre ++ [Some (cat_domain nm d)]) ++ repeat None (length r + k))
      by (rewrite <- app_assoc; reflexivity).
    replace (S (length pre)) with (length (pre ++ [Some (cat_domain nm d)]))
      by (rewrite app_length; simpl; lia).
    rewrite IH. rewrite app_length. cbn [length map].
    rewrite <- app_assoc. cbn [app]. rewrite cat_domain_qualify.
    f_equal. f_equal. lia.
Qed.

Lemma label_cnt_minus_one nm :
  (if (0 <? name_label_cnt nm)%N then (name_label_cnt nm - 1)%N else name_label_cnt nm)
  = N.of_nat (count_dots nm).
Proof.
  unfold name_label_cnt.
  destruct (N.ltb_spec 0 (N.of_nat (count_dots nm) + 1)); lia.
Qed.

Lemma search_name_list_spec cfg nm env al :
  lookup_hostaliases (c_flags cfg) nm env = Ok al ->
  search_name_list cfg nm env = Ok (map Some (spec_candidates cfg al nm)).
Proof.
  intros Hal. unfold search_name_list. rewrite Hal. cbn [bind].
  destruct al as [a|]; [reflexivity|].
  unfold spec_candidates, search_eligible.
  destruct (ends_with_dot nm) eqn:Hdot; [reflexivity|].
  destruct (flag_set (c_flags cfg) ARES_FLAG_NOSEARCH) eqn:Hns; [reflexivity|].
  cbn [negb orb].
  rewrite label_cnt_minus_one.
  set (dots := N.of_nat (count_dots nm)).
  set (doms := c_domains cfg).
  destruct (N.leb_spec (c_ndots cfg) dots) as [Hle|Hgt].
  - (* as-is first *)
    assert ((dots <? c_ndots cfg)%N = false) as Hlt by (apply N.ltb_ge; exact Hle).
    rewrite Hlt.
    replace (length doms + 1)%nat with (S (length doms + 0)) by lia.
    cbn [repeat].
    pose proof (set_slot_mid [] (repeat None (length doms + 0)) None nm) as Hs.
    cbn [app length] in Hs. rewrite Hs. cbn [bind fst snd].
    pose proof (cat_loop_fills nm doms [Some nm] 0) as Hc.
    cbn [app length] in Hc. rewrite Hc. cbn [bind fst snd repeat].
    rewrite app_nil_r. cbn [map]. rewrite map_map. reflexivity.
  - (* as-is last *)
    assert ((dots <? c_ndots cfg)%N = true) as Hlt by (apply N.ltb_lt; exact Hgt).
    rewrite Hlt. cbn [bind fst snd].
    pose proof (cat_loop_fills nm doms [] 1) as Hc.
    cbn [app length Nat.add] in Hc. rewrite Hc. cbn [bind fst snd repeat].
    pose proof (set_slot_mid (map (fun d => Some (qualify nm d)) doms) [] None nm) as Hs.
    rewrite map_length in Hs. rewrite Hs. cbn [bind fst].
    rewrite map_app, map_map. reflexivity.
Qed.

Lemma search_name_list_alias_error cfg nm env s :
  lookup_hostaliases (c_flags cfg) nm env = Err s ->
  search_name_list cfg nm env = Err s.
Proof. intros H. unfold search_name_list. rewrite H. reflexivity. Qed.

(* what "a host alias applies" means in the model *)
Lemma lookup_hostaliases_some flags nm env a :
  lookup_hostaliases flags nm env = Ok (Some a) ->
  flag_set flags ARES_FLAG_NOALIASES = false /\ count_dots nm = 0%nat /\
  a <> [] /\ (length a <= 255)%nat /\ forallb is_hostnamech a = true.
Proof.
  unfold lookup_hostaliases.
  destruct (flag_set flags ARES_FLAG_NOALIASES); [discriminate|].
  destruct (existsb (N.eqb DOT) nm) eqn:Hex; [discriminate|].
  intros H. split; [reflexivity|]. split.
  { unfold count_dots. clear H. induction nm as [|c r IH]; [reflexivity|].
    cbn [existsb] in Hex. apply orb_false_iff in Hex. destruct Hex as [Hc Hr].
    cbn [filter]. rewrite Hc. apply IH. exact Hr. }
  destruct env as [[file|s|k]|]; try discriminate.
  2:{ destruct (Z.eqb s ARES_ENOTFOUND); discriminate. }
  injection H as H.
  induction (alias_lines file) as [|l r IH]; [discriminate|].
  cbn [alias_scan] in H.
  destruct (alias_scan_line nm l) as [a'|] eqn:Hl; [|apply IH; exact H].
  injection H as ->. clear IH.
  unfold alias_scan_line in Hl.
  destruct (span (fun c => negb (is_ws true c)) l) as [host rest].
  destruct (Nat.ltb 63 (length host)); [discriminate|].
  destruct (negb (forallb is_print host)); [discriminate|].
  destruct (negb (caseeq host nm)); [discriminate|].
  destruct (span (fun c => negb (is_ws true c)) (drop_while (is_ws true) rest)) as [fq tl].
  destruct (Nat.ltb_spec 255 (length fq)); [discriminate|].
  destruct (negb (forallb is_print fq)); [discriminate|].
  destruct fq as [|c fq']; [discriminate|]. cbn [is_nil] in Hl.
  destruct (forallb is_hostnamech (c :: fq')) eqn:Hh; [|discriminate].
  cbn [negb] in Hl. injection Hl as <-.
  split; [discriminate|]. split; [lia|exact Hh].
Qed.

(* ------------------------------------------------------------------------------------ *)
(* Stop rule: facts about the specification                                              *)
(* ------------------------------------------------------------------------------------ *)

Lemma first_stop_some names o : forall rest i k,
  first_stop names o i rest = Some k ->
  (i <= k < i + length rest)%nat /\ soft names k (o k) = false /\
  (forall j, (i <= j < k)%nat -> soft names j (o j) = true).
Proof.
  induction rest as [|c r IH]; intros i k H; [discriminate|].
  cbn [first_stop] in H.
  destruct (soft names i (o i)) eqn:Hs.
  - apply IH in H. destruct H as (Hr & Hk & Hall). cbn [length]. split; [lia|]. split; [exact Hk|].
    intros j Hj. destruct (Nat.eq_dec j i) as [->|Hne]; [exact Hs|]. apply Hall. lia.
  - injection H as <-. cbn [length]. split; [lia|]. split; [exact Hs|]. intros j Hj. lia.
Qed.

Lemma first_stop_none names o : forall rest i,
  first_stop names o i rest = None ->
  forall j, (i <= j < i + length rest)%nat -> soft names j (o j) = true.
Proof.
  induction rest as [|c r IH]; intros i H j Hj; [cbn [length] in Hj; lia|].
  cbn [first_stop] in H.
  destruct (soft names i (o i)) eqn:Hs; [|discriminate].
  destruct (Nat.eq_dec j i) as [->|Hne]; [exact Hs|].
  apply (IH (S i) H). cbn [length] in Hj. lia.
Qed.

Lemma existsb_seq_iff (p : nat -> bool) n :
  existsb p (seq 0 n) = true <-> exists i, (i < n)%nat /\ p i = true.
Proof.
  rewrite existsb_exists. split.
  - intros (i & Hi & Hp). apply in_seq in Hi. exists i. split; [lia|exact Hp].
  - intros (i & Hi & Hp). exists i. split; [apply in_seq; lia|exact Hp].
Qed.

Lemma spec_satisfies_stop_rule names o :
  names <> [] -> stop_rule names o (spec_queried names o) (spec_status names o).
Proof.
  intros Hne. unfold stop_rule, spec_queried, spec_status.
  destruct (first_stop names o 0 names) as [k|] eqn:Hf.
  - apply first_stop_some in Hf. destruct Hf as (Hr & Hk & Hall).
    exists k. split; [lia|]. split; [reflexivity|]. split.
    + intros i Hi. apply Hall. lia.
    + left. split; [exact Hk|reflexivity].
  - pose proof (first_stop_none names o names 0 Hf) as Hall.
    assert (length names <> 0)%nat as Hlen by (destruct names; [congruence|cbn; lia]).
    exists (pred (length names)). split; [lia|]. split.
    { replace (S (pred (length names))) with (length names) by lia. rewrite firstn_all. reflexivity. }
    split; [intros i Hi; apply Hall; lia|].
    right. split; [reflexivity|]. split; [apply Hall; lia|].
    destruct (existsb (fun i => Z.eqb (o i) ARES_ENODATA) (seq 0 (length names))) eqn:Hex.
    + left. apply existsb_seq_iff in Hex. destruct Hex as (i & Hi & Hp).
      split; [|reflexivity]. exists i. split; [exact Hi|]. apply Z.eqb_eq. exact Hp.
    + right. split; [|reflexivity]. intros i Hi Heq.
      assert (existsb (fun i => Z.eqb (o i) ARES_ENODATA) (seq 0 (length names)) = true) as Ht.
      { apply existsb_seq_iff. exists i. split; [exact Hi|]. apply Z.eqb_eq. exact Heq. }
      congruence.
Qed.

(* the rule determines the result uniquely, so it is a specification and not a loose bound *)
Lemma stop_rule_functional names o q1 f1 q2 f2 :
  stop_rule names o q1 f1 -> stop_rule names o q2 f2 -> q1 = q2 /\ f1 = f2.
Proof.
  intros (k1 & Hk1 & -> & Ha1 & Hc1) (k2 & Hk2 & -> & Ha2 & Hc2).
  assert (k1 = k2) as ->.
  { destruct (Nat.lt_trichotomy k1 k2) as [Hlt|[Heq|Hgt]]; [|exact Heq|].
    - specialize (Ha2 k1 Hlt). destruct Hc1 as [(Hs & _)|(Hl & _)]; [congruence|lia].
    - specialize (Ha1 k2 Hgt). destruct Hc2 as [(Hs & _)|(Hl & _)]; [congruence|lia]. }
  split; [reflexivity|].
  destruct Hc1 as [(Hs1 & ->)|(_ & Hs1 & Hd1)]; destruct Hc2 as [(Hs2 & ->)|(_ & Hs2 & Hd2)];
    try congruence.
  destruct Hd1 as [((i & Hi & He) & ->)|(Hn1 & ->)]; destruct Hd2 as [((j & Hj & He2) & ->)|(Hn2 & ->)];
    try reflexivity.
  - exfalso. exact (Hn2 i Hi He).
  - exfalso. exact (Hn1 j Hj He2).
Qed.

(* ------------------------------------------------------------------------------------ *)
(* Stop rule: the search_callback walk                                                   *)
(* ------------------------------------------------------------------------------------ *)

Lemma firstn_S_app {A} (pre : list A) c r : firstn (S (length pre)) (pre ++ c :: r) = pre ++ [c].
Proof.
  replace (S (length pre)) with (length pre + 1)%nat by lia.
  rewrite firstn_app_2. reflexivity.
Qed.

Lemma first_stop_cons names o i c r :
  first_stop names o i (c :: r) = if soft names i (o i) then first_stop names o (S i) r else Some i.
Proof. reflexivity. Qed.

Lemma label_cnt_single n : N.eqb (name_label_cnt n) 1%N = single_label n.
Proof.
  unfold name_label_cnt, single_label.
  destruct (count_dots n) as [|k].
  - reflexivity.
  - cbn [Nat.eqb]. apply N.eqb_neq. lia.
Qed.

(* status reported when every candidate was soft; [nd]: a no-data outcome was seen *)
Definition exhausted_status (fixed nd : bool) (last : Z) : Z :=
  if fixed then (if nd then ARES_ENODATA else last)
  else (if Z.eqb last ARES_ENOTFOUND && nd then ARES_ENODATA else last).

Definition nodata_in (o : nat -> Z) (i n : nat) : bool :=
  existsb (fun j => Z.eqb (o j) ARES_ENODATA) (seq i n).

Lemma search_callback_cont fixed names i c nd s :
  nth_error names i = Some c ->
  search_callback fixed {| sq_names := names; sq_next := S i; sq_nodata := nd |} s =
  if soft names i s then
    (let nd' := if Z.eqb s ARES_ENODATA then true else nd in
     match nth_error names (S i) with
     | Some n => Ok (SqSend {| sq_names := names; sq_next := S (S i); sq_nodata := nd' |} n)
     | None => Ok (SqEnd (exhausted_status fixed nd' s))
     end)
  else Ok (SqEnd s).
Proof.
  intros Hc. unfold search_callback, soft, last_sent. cbn [sq_names sq_next sq_nodata].
  rewrite Hc.
  set (nd' := if Z.eqb s ARES_ENODATA then true else nd).
  assert (forall b : bool, b = true ->
    (if negb b then Ok (SqEnd s)
     else if Nat.ltb (S i) (length names)
          then search_next {| sq_names := names; sq_next := S i; sq_nodata := nd' |}
          else if fixed then (if nd' then Ok (SqEnd ARES_ENODATA) else Ok (SqEnd s))
               else (if Z.eqb s ARES_ENOTFOUND && nd' then Ok (SqEnd ARES_ENODATA) else Ok (SqEnd s)))
    = match nth_error names (S i) with
      | Some n => Ok (SqSend {| sq_names := names; sq_next := S (S i); sq_nodata := nd' |} n)
      | None => Ok (SqEnd (exhausted_status fixed nd' s))
      end) as Hgo.
  { intros b ->. cbn [negb]. unfold search_next. cbn [sq_names sq_next sq_nodata].
    destruct (nth_error names (S i)) as [n|] eqn:Hn.
    - assert (S i < length names)%nat as Hlt by (apply nth_error_Some; congruence).
      apply Nat.ltb_lt in Hlt. rewrite Hlt. reflexivity.
    - apply nth_error_None in Hn. assert (Nat.ltb (S i) (length names) = false) as Hlt
        by (apply Nat.ltb_ge; exact Hn).
      rewrite Hlt. unfold exhausted_status. destruct fixed.
      + destruct nd'; reflexivity.
      + destruct (Z.eqb s ARES_ENOTFOUND && nd'); reflexivity. }
  destruct (Z.eqb s ARES_ENODATA || Z.eqb s ARES_ENOTFOUND) eqn:H1.
  - cbn [bind orb]. apply Hgo. reflexivity.
  - cbn [orb].
    destruct (Z.eqb s ARES_ESERVFAIL || Z.eqb s ARES_EREFUSED) eqn:H2.
    + cbn [bind andb]. rewrite label_cnt_single. destruct (single_label c) eqn:Hsl.
      * apply Hgo. reflexivity.
      * reflexivity.
    + reflexivity.
Qed.

Lemma nodata_in_cons o i n :
  nodata_in o i (S n) = (Z.eqb (o i) ARES_ENODATA || nodata_in o (S i) n).
Proof. reflexivity. Qed.

Lemma search_loop_correct fixed names o : forall rest pre c nd fuel,
  names = pre ++ c :: rest ->
  (length rest < fuel)%nat ->
  search_loop fixed fuel o {| sq_names := names; sq_next := S (length pre); sq_nodata := nd |}
              (rev (pre ++ [c]))
  = match first_stop names o (length pre) (c :: rest) with
    | Some k => Ok (firstn (S k) names, o k)
    | None => Ok (names, exhausted_status fixed (nd || nodata_in o (length pre) (S (length rest)))
                                          (o (pred (length names))))
    end.
Proof.
  induction rest as [|c' r IH]; intros pre c nd fuel Hn Hfuel.
  - destruct fuel as [|f]; [lia|]. cbn [search_loop sq_next pred].
    assert (nth_error names (length pre) = Some c) as Hc.
    { rewrite Hn. rewrite nth_error_app2 by lia. rewrite Nat.sub_diag. reflexivity. }
    rewrite (search_callback_cont fixed names (length pre) c nd _ Hc).
    assert (nth_error names (S (length pre)) = None) as Hnone.
    { apply nth_error_None. rewrite Hn, app_length. cbn. lia. }
    rewrite Hnone. cbn [first_stop].
    assert (pred (length names) = length pre) as Hp by (rewrite Hn, app_length; cbn; lia).
    destruct (soft names (length pre) (o (length pre))) eqn:Hs; cbn [bind].
    + rewrite rev_involutive. rewrite Hp. rewrite Hn at 1.
      f_equal. f_equal. cbn [length]. unfold nodata_in. cbn [seq existsb].
      rewrite orb_false_r.
      destruct (Z.eqb (o (length pre)) ARES_ENODATA); [rewrite orb_true_r|rewrite orb_false_r]; reflexivity.
    + rewrite rev_involutive. f_equal. f_equal.
      rewrite Hn. rewrite firstn_S_app. reflexivity.
  - destruct fuel as [|f]; [lia|]. cbn [search_loop sq_next pred].
    assert (nth_error names (length pre) = Some c) as Hc.
    { rewrite Hn. rewrite nth_error_app2 by lia. rewrite Nat.sub_diag. reflexivity. }
    rewrite (search_callback_cont fixed names (length pre) c nd _ Hc).
    assert (nth_error names (S (length pre)) = Some c') as Hc'.
    { rewrite Hn. rewrite nth_error_app2 by lia.
      replace (S (length pre) - length pre)%nat with 1%nat by lia. reflexivity. }
    rewrite Hc'. rewrite first_stop_cons.
    destruct (soft names (length pre) (o (length pre))) eqn:Hs; cbn [bind].
    + assert (names = (pre ++ [c]) ++ c' :: r) as Hn' by (rewrite <- app_assoc; exact Hn).
      assert (S (length pre) = length (pre ++ [c])) as Hl by (rewrite app_length; cbn; lia).
      rewrite Hl.
      replace (c' :: rev (pre ++ [c])) with (rev ((pre ++ [c]) ++ [c'])) by (rewrite rev_app_distr; reflexivity).
      cbn [length] in Hfuel.
      rewrite (IH (pre ++ [c]) c' _ f Hn' ltac:(lia)).
      rewrite <- Hl.
      destruct (first_stop names o (S (length pre)) (c' :: r)); [reflexivity|].
      f_equal. f_equal. f_equal.
      cbn [length]. rewrite (nodata_in_cons o (length pre) (S (length r))).
      destruct (Z.eqb (o (length pre)) ARES_ENODATA); cbn [orb]; [rewrite orb_true_r|]; reflexivity.
    + rewrite rev_involutive. f_equal. f_equal.
      rewrite Hn. rewrite firstn_S_app. reflexivity.
Qed.

(* status of the whole search in terms of the specification's pieces, for both code variants *)
Definition run_status (fixed : bool) (names : list name) (o : nat -> Z) : Z :=
  match first_stop names o 0 names with
  | Some k => o k
  | None => exhausted_status fixed (nodata_in o 0 (length names)) (o (pred (length names)))
  end.

Lemma search_run_correct fixed names o :
  names <> [] ->
  search_run fixed names o = Ok (spec_queried names o, run_status fixed names o).
Proof.
  intros Hne. destruct names as [|c rest]; [congruence|].
  unfold search_run, search_next. cbn [sq_names sq_next sq_nodata nth_error bind].
  pose proof (search_loop_correct fixed (c :: rest) o rest [] c false (length (c :: rest)) eq_refl) as H.
  cbn [length app rev] in H. cbn [length].
  rewrite H by lia. unfold spec_queried, run_status. cbn [length].
  destruct (first_stop (c :: rest) o 0 (c :: rest)); reflexivity.
Qed.

Lemma run_status_fixed names o : run_status true names o = spec_status names o.
Proof. reflexivity. Qed.

Lemma search_run_fixed names o :
  names <> [] ->
  search_run true names o = Ok (spec_queried names o, spec_status names o).
Proof. intros H. rewrite search_run_correct by exact H. rewrite run_status_fixed. reflexivity. Qed.

Lemma search_run_stop_rule names o :
  names <> [] ->
  exists queried final, search_run true names o = Ok (queried, final) /\ stop_rule names o queried final.
Proof.
  intros H. exists (spec_queried names o), (spec_status names o).
  split; [apply search_run_fixed; exact H|apply spec_satisfies_stop_rule; exact H].
Qed.

(* The pinned code (before fixes/C12-search-nodata-final.patch) differs only when every
   candidate was soft, the last one ended SERVFAIL/REFUSED (hence is a single label) and an
   earlier one had no data: it then reports the last status instead of no-data. *)
Lemma search_run_pinned names o :
  names <> [] ->
  search_run false names o = Ok (spec_queried names o, spec_status names o) \/
  (first_stop names o 0 names = None /\ nodata_in o 0 (length names) = true /\
   (o (pred (length names)) = ARES_ESERVFAIL \/ o (pred (length names)) = ARES_EREFUSED) /\
   search_run false names o = Ok (names, o (pred (length names))) /\
   spec_status names o = ARES_ENODATA).
Proof.
  intros Hne. rewrite search_run_correct by exact Hne.
  unfold run_status, spec_status, spec_queried, nodata_in.
  destruct (first_stop names o 0 names) as [k|] eqn:Hf; [left; reflexivity|].
  set (nd := existsb (fun j => Z.eqb (o j) ARES_ENODATA) (seq 0 (length names))).
  set (last := o (pred (length names))).
  unfold exhausted_status.
  destruct nd eqn:Hnd.
  2:{ left. rewrite andb_false_r. reflexivity. }
  rewrite andb_true_r.
  destruct (Z.eqb last ARES_ENOTFOUND) eqn:Hnf; [left; reflexivity|].
  destruct (Z.eqb last ARES_ENODATA) eqn:Hnod.
  { left. apply Z.eqb_eq in Hnod. rewrite Hnod. reflexivity. }
  right. split; [reflexivity|]. split; [reflexivity|].
  assert (length names <> 0)%nat as Hlen by (destruct names; [congruence|cbn; lia]).
  pose proof (first_stop_none names o names 0 Hf (pred (length names)) ltac:(lia)) as Hs.
  fold last in Hs. unfold soft in Hs. rewrite Hnod, Hnf in Hs. cbn [orb] in Hs.
  apply andb_true_iff in Hs. destruct Hs as (Hs & _).
  split; [|split; reflexivity].
  apply orb_true_iff in Hs. destruct Hs as [Hs|Hs]; apply Z.eqb_eq in Hs; [left|right]; exact Hs.
Qed.

(* concrete witness: name "h", ndots 1, one search domain "d": candidates "h.d", "h";
   "h.d" has no data, "h" gets SERVFAIL *)
Definition refute_names : list name := [[104; 46; 100]; [104]]%N.
Definition refute_outcomes (i : nat) : Z := match i with O => ARES_ENODATA | _ => ARES_ESERVFAIL end.

Lemma search_run_pinned_refuted :
  search_run false refute_names refute_outcomes = Ok (refute_names, ARES_ESERVFAIL) /\
  spec_status refute_names refute_outcomes = ARES_ENODATA /\
  ~ stop_rule refute_names refute_outcomes refute_names ARES_ESERVFAIL.
Proof.
  split; [vm_compute; reflexivity|]. split; [vm_compute; reflexivity|].
  intros Hbad.
  pose proof (spec_satisfies_stop_rule refute_names refute_outcomes ltac:(discriminate)) as Hgood.
  destruct (stop_rule_functional _ _ _ _ _ _ Hbad Hgood) as (_ & Hf).
  vm_compute in Hf. discriminate.
Qed.

(* ------------------------------------------------------------------------------------ *)
(* Stop rule: the ares_getaddrinfo walk                                                  *)
(* ------------------------------------------------------------------------------------ *)

Lemma ai_soft_step names i c nd oc :
  nth_error names i = Some c ->
  host_callback names (S i) nd oc =
  if soft names i (ai_status oc) then
    (let nd' := if Z.eqb (ai_status oc) ARES_ENODATA then S nd else nd in
     Ok (AiNext (if Nat.ltb 0 nd' then ARES_ENODATA else ai_status oc), nd'))
  else Ok (AiEnd (ai_status oc), nd).
Proof.
  intros Hc. unfold host_callback, soft, ai_status. rewrite Hc. rewrite label_cnt_single.
  destruct oc as [s a]. cbn [ao_status ao_addr].
  destruct (Z.eqb s ARES_SUCCESS) eqn:Hs.
  - apply Z.eqb_eq in Hs. subst s. destruct a; vm_compute; reflexivity.
  - cbn [andb].
    destruct (Z.eqb s ARES_EDESTRUCTION) eqn:H1.
    { apply Z.eqb_eq in H1. subst s. vm_compute. reflexivity. }
    destruct (Z.eqb s ARES_ECANCELLED) eqn:H2.
    { apply Z.eqb_eq in H2. subst s. vm_compute. reflexivity. }
    cbn [orb].
    replace (Z.eqb ARES_SUCCESS ARES_ENODATA) with false by reflexivity.
    rewrite orb_false_r.
    destruct (Z.eqb s ARES_ENODATA) eqn:H3.
    { rewrite orb_true_r. cbn [orb]. reflexivity. }
    destruct (Z.eqb s ARES_ENOTFOUND) eqn:H4.
    { cbn [orb]. reflexivity. }
    cbn [orb].
    destruct (Z.eqb s ARES_ESERVFAIL || Z.eqb s ARES_EREFUSED) eqn:H5.
    + cbn [andb]. destruct (single_label c); reflexivity.
    + reflexivity.
Qed.

Lemma ai_loop_correct names o : forall rest pre c nd fuel,
  names = pre ++ c :: rest ->
  (length rest < fuel)%nat ->
  ((0 <? nd)%nat = nodata_in (fun i => ai_status (o i)) 0 (length pre)) ->
  ai_loop fuel names o (S (length pre)) nd (rev (pre ++ [c]))
  = match first_stop names (fun i => ai_status (o i)) (length pre) (c :: rest) with
    | Some k => Ok (firstn (S k) names, ai_status (o k))
    | None => Ok (names, exhausted_status true (nodata_in (fun i => ai_status (o i)) 0 (length names))
                                          (ai_status (o (pred (length names)))))
    end.
Proof.
  set (o' := fun i => ai_status (o i)).
  assert (forall n, nodata_in o' 0 (S n) = (nodata_in o' 0 n || Z.eqb (o' n) ARES_ENODATA)) as Hsnoc.
  { intros n. unfold nodata_in. rewrite seq_S, existsb_app. cbn [existsb Nat.add]. rewrite orb_false_r. reflexivity. }
  induction rest as [|c' r IH]; intros pre c nd fuel Hn Hfuel Hnd.
  - destruct fuel as [|f]; [lia|]. cbn [ai_loop pred].
    assert (nth_error names (length pre) = Some c) as Hc.
    { rewrite Hn. rewrite nth_error_app2 by lia. rewrite Nat.sub_diag. reflexivity. }
    rewrite (ai_soft_step names (length pre) c nd _ Hc).
    assert (nth_error names (S (length pre)) = None) as Hnone.
    { apply nth_error_None. rewrite Hn, app_length. cbn. lia. }
    cbn [first_stop]. fold (o' (length pre)).
    assert (pred (length names) = length pre) as Hp by (rewrite Hn, app_length; cbn; lia).
    assert (length names = S (length pre)) as Hlen by (rewrite Hn, app_length; cbn; lia).
    destruct (soft names (length pre) (o' (length pre))) eqn:Hs; cbn [bind fst snd].
    + rewrite Hnone. rewrite rev_involutive. rewrite <- Hn. f_equal. f_equal.
      rewrite Hp, Hlen, Hsnoc, <- Hnd. unfold exhausted_status.
      destruct (Z.eqb (o' (length pre)) ARES_ENODATA) eqn:He.
      * rewrite orb_true_r. reflexivity.
      * rewrite orb_false_r. reflexivity.
    + rewrite rev_involutive. f_equal. f_equal.
      rewrite Hn. rewrite firstn_S_app. reflexivity.
  - destruct fuel as [|f]; [lia|]. cbn [ai_loop pred].
    assert (nth_error names (length pre) = Some c) as Hc.
    { rewrite Hn. rewrite nth_error_app2 by lia. rewrite Nat.sub_diag. reflexivity. }
    rewrite (ai_soft_step names (length pre) c nd _ Hc).
    assert (nth_error names (S (length pre)) = Some c') as Hc'.
    { rewrite Hn. rewrite nth_error_app2 by lia.
      replace (S (length pre) - length pre)%nat with 1%nat by lia. reflexivity. }
    rewrite first_stop_cons. fold (o' (length pre)).
    destruct (soft names (length pre) (o' (length pre))) eqn:Hs; cbn [bind fst snd].
    + rewrite Hc'.
      assert (names = (pre ++ [c]) ++ c' :: r) as Hn' by (rewrite <- app_assoc; exact Hn).
      assert (S (length pre) = length (pre ++ [c])) as Hl by (rewrite app_length; cbn; lia).
      rewrite Hl.
      replace (c' :: rev (pre ++ [c])) with (rev ((pre ++ [c]) ++ [c'])) by (rewrite rev_app_distr; reflexivity).
      cbn [length] in Hfuel.
      apply IH; [exact Hn'|lia|].
      rewrite <- Hl, Hsnoc, <- Hnd.
      destruct (Z.eqb (o' (length pre)) ARES_ENODATA); [rewrite orb_true_r|rewrite orb_false_r]; reflexivity.
    + rewrite rev_involutive. f_equal. f_equal.
      rewrite Hn. rewrite firstn_S_app. reflexivity.
Qed.

Lemma ai_run_correct names o :
  names <> [] ->
  ai_run names o = Ok (spec_queried names (fun i => ai_status (o i)),
                       spec_status names (fun i => ai_status (o i))).
Proof.
  intros Hne. destruct names as [|c rest]; [congruence|].
  unfold ai_run.
  pose proof (ai_loop_correct (c :: rest) o rest [] c 0 (length (c :: rest)) eq_refl) as H.
  cbn [length app rev] in H. cbn [length]. rewrite H; [|lia|reflexivity].
  unfold spec_queried, spec_status, exhausted_status, nodata_in.
  destruct (first_stop (c :: rest) (fun i => ai_status (o i)) 0 (c :: rest)); reflexivity.
Qed.

(* AF_UNSPEC, pinned code: the walk is the single-query walk over ai2_combine_pinned *)
Lemma host_callback2_combine_pinned names next nd f l :
  host_callback2 false names next nd f l = host_callback names next nd (ai2_combine_pinned f l).
Proof.
  unfold host_callback2, host_callback, ai2_combine_pinned. cbn [andb].
  destruct ((ao_status l =? ARES_EDESTRUCTION) || (ao_status l =? ARES_ECANCELLED))%Z eqn:Hc.
  - rewrite Hc. reflexivity.
  - destruct (has_addr f || has_addr l) eqn:Hn.
    + cbn [ao_status ao_addr]. reflexivity.
    + rewrite Hc. apply orb_false_iff in Hn. destruct Hn as (_ & Hl). unfold has_addr in Hl. rewrite Hl. reflexivity.
Qed.

Lemma ai2_loop_combine_pinned names o : forall fuel next nd sent,
  ai2_loop false fuel names o next nd sent
  = ai_loop fuel names (fun i => ai2_combine_pinned (fst (o i)) (snd (o i))) next nd sent.
Proof.
  induction fuel as [|f IH]; intros next nd sent; [reflexivity|].
  cbn [ai2_loop ai_loop]. rewrite host_callback2_combine_pinned.
  destruct (host_callback names next nd (ai2_combine_pinned (fst (o (Init.Nat.pred next))) (snd (o (Init.Nat.pred next))))) as [r| |];
    cbn [bind]; try reflexivity.
  destruct (fst r); [reflexivity|]. destruct (nth_error names next); [apply IH|reflexivity].
Qed.

Lemma ai2_run_pinned_correct names o :
  names <> [] ->
  ai2_run false names o = Ok (spec_queried names (fun i => ai_status (ai2_combine_pinned (fst (o i)) (snd (o i)))),
                              spec_status names (fun i => ai_status (ai2_combine_pinned (fst (o i)) (snd (o i))))).
Proof.
  intros Hne. rewrite <- (ai_run_correct names (fun i => ai2_combine_pinned (fst (o i)) (snd (o i))) Hne).
  unfold ai2_run, ai_run. destruct names as [|n r]; [reflexivity|]. apply ai2_loop_combine_pinned.
Qed.

(* AF_UNSPEC, patched code *)
Ltac zneq := repeat match goal with
  | H : ?a <> ?b |- _ => apply Z.eqb_neq in H
  end.
Ltac zsimp := repeat progress (cbn; repeat match goal with
  | H : Z.eqb ?a ?b = false |- context [Z.eqb ?a ?b] => rewrite H
  end).
Ltac zcase x K := destruct (Z.eq_dec x K) as [?|?]; [subst x|].

Lemma ai2_step names i c nd f l :
  nth_error names i = Some c ->
  let st := ai_status (ai2_combine (single_label c) f l) in
  let nd1 := if first_nodata f then S nd else nd in
  let nd' := if Z.eqb (ao_status l) ARES_ENODATA || (Z.eqb (ao_status l) ARES_SUCCESS && negb (ao_addr l)) then S nd1 else nd1 in
  (soft names i st = false -> exists k, host_callback2 true names (S i) nd f l = Ok (AiEnd st, k)) /\
  (soft names i st = true ->
     host_callback2 true names (S i) nd f l = Ok (AiNext (if (0 <? nd')%nat then ARES_ENODATA else st), nd') /\
     (0 <? nd')%nat = ((0 <? nd)%nat || Z.eqb st ARES_ENODATA)).
Proof.
  intros Hc. destruct f as [sf af]. destruct l as [sl al].
  unfold host_callback2, ai2_combine, has_addr, first_nodata, soft. unfold ai_status.
  cbn [ao_status ao_addr andb]. rewrite Hc. rewrite label_cnt_single.
  zcase sl ARES_SUCCESS; [|zcase sl ARES_EDESTRUCTION; [|zcase sl ARES_ECANCELLED; [|zcase sl ARES_ENODATA; [|zcase sl ARES_ENOTFOUND;
    [|zcase sl ARES_ESERVFAIL; [|zcase sl ARES_EREFUSED]]]]]];
  (zcase sf ARES_SUCCESS; [|zcase sf ARES_ENODATA]); zneq;
  destruct af; destruct al; destruct (single_label c);
  zsimp; (split; [intros Hs; first [discriminate|eexists; reflexivity]
               |intros Hs; first [discriminate|split; [reflexivity|destruct nd; reflexivity]]]).
Qed.

Lemma ai2_loop_correct names o : forall rest pre c nd fuel,
  names = pre ++ c :: rest ->
  (length rest < fuel)%nat ->
  ((0 <? nd)%nat = nodata_in (fun i => ai_status (ai2_combine (cand_single names i) (fst (o i)) (snd (o i)))) 0 (length pre)) ->
  ai2_loop true fuel names o (S (length pre)) nd (rev (pre ++ [c]))
  = match first_stop names (fun i => ai_status (ai2_combine (cand_single names i) (fst (o i)) (snd (o i)))) (length pre) (c :: rest) with
    | Some k => Ok (firstn (S k) names, ai_status (ai2_combine (cand_single names k) (fst (o k)) (snd (o k))))
    | None => Ok (names, exhausted_status true
                    (nodata_in (fun i => ai_status (ai2_combine (cand_single names i) (fst (o i)) (snd (o i)))) 0 (length names))
                    (ai_status (ai2_combine (cand_single names (pred (length names))) (fst (o (pred (length names)))) (snd (o (pred (length names)))))))
    end.
Proof.
  set (o' := fun i => ai_status (ai2_combine (cand_single names i) (fst (o i)) (snd (o i)))).
  assert (forall n, nodata_in o' 0 (S n) = (nodata_in o' 0 n || Z.eqb (o' n) ARES_ENODATA)) as Hsnoc.
  { intros n. unfold nodata_in. rewrite seq_S, existsb_app. cbn [existsb Nat.add]. rewrite orb_false_r. reflexivity. }
  induction rest as [|c' r IH]; intros pre c nd fuel Hn Hfuel Hnd.
  - destruct fuel as [|f]; [lia|]. cbn [ai2_loop pred].
    assert (nth_error names (length pre) = Some c) as Hc.
    { rewrite Hn. rewrite nth_error_app2 by lia. rewrite Nat.sub_diag. reflexivity. }
    destruct (ai2_step names (length pre) c nd (fst (o (length pre))) (snd (o (length pre))) Hc) as (Hend & Hnext).
    assert (cand_single names (length pre) = single_label c) as Hcs by (unfold cand_single; rewrite Hc; reflexivity).
    rewrite <- Hcs in Hend, Hnext. fold (o' (length pre)) in Hend, Hnext.
    assert (nth_error names (S (length pre)) = None) as Hnone.
    { apply nth_error_None. rewrite Hn, app_length. cbn. lia. }
    rewrite first_stop_cons.
    assert (pred (length names) = length pre) as Hp by (rewrite Hn, app_length; cbn; lia).
    assert (length names = S (length pre)) as Hlen by (rewrite Hn, app_length; cbn; lia).
    destruct (soft names (length pre) (o' (length pre))) eqn:Hs.
    + destruct (Hnext eq_refl) as (Hhc & Hpos). rewrite Hhc. cbn [bind fst snd]. rewrite Hnone.
      rewrite rev_involutive. rewrite <- Hn. cbn [first_stop]. f_equal. f_equal.
      rewrite Hp, Hlen, Hsnoc, <- Hnd. rewrite Hpos. unfold exhausted_status.
      destruct (Z.eqb (o' (length pre)) ARES_ENODATA) eqn:He.
      * rewrite orb_true_r. reflexivity.
      * rewrite orb_false_r. reflexivity.
    + destruct (Hend eq_refl) as (k & Hhc). rewrite Hhc. cbn [bind fst snd].
      rewrite rev_involutive. f_equal. f_equal. rewrite Hn. rewrite firstn_S_app. reflexivity.
  - destruct fuel as [|f]; [lia|]. cbn [ai2_loop pred].
    assert (nth_error names (length pre) = Some c) as Hc.
    { rewrite Hn. rewrite nth_error_app2 by lia. rewrite Nat.sub_diag. reflexivity. }
    destruct (ai2_step names (length pre) c nd (fst (o (length pre))) (snd (o (length pre))) Hc) as (Hend & Hnext).
    assert (cand_single names (length pre) = single_label c) as Hcs by (unfold cand_single; rewrite Hc; reflexivity).
    rewrite <- Hcs in Hend, Hnext. fold (o' (length pre)) in Hend, Hnext.
    assert (nth_error names (S (length pre)) = Some c') as Hc'.
    { rewrite Hn. rewrite nth_error_app2 by lia.
      replace (S (length pre) - length pre)%nat with 1%nat by lia. reflexivity. }
    rewrite first_stop_cons.
    destruct (soft names (length pre) (o' (length pre))) eqn:Hs.
    + destruct (Hnext eq_refl) as (Hhc & Hpos). rewrite Hhc. cbn [bind fst snd]. rewrite Hc'.
      assert (names = (pre ++ [c]) ++ c' :: r) as Hn' by (rewrite <- app_assoc; exact Hn).
      assert (S (length pre) = length (pre ++ [c])) as Hl by (rewrite app_length; cbn; lia).
      rewrite Hl.
      replace (c' :: rev (pre ++ [c])) with (rev ((pre ++ [c]) ++ [c'])) by (rewrite rev_app_distr; reflexivity).
      cbn [length] in Hfuel.
      apply IH; [exact Hn'|lia|].
      rewrite <- Hl, Hsnoc, <- Hnd. exact Hpos.
    + destruct (Hend eq_refl) as (k & Hhc). rewrite Hhc. cbn [bind fst snd].
      rewrite rev_involutive. f_equal. f_equal. rewrite Hn. rewrite firstn_S_app. reflexivity.
Qed.

Lemma ai2_run_correct names o :
  names <> [] ->
  ai2_run true names o =
  Ok (spec_queried names (fun i => ai_status (ai2_combine (cand_single names i) (fst (o i)) (snd (o i)))),
      spec_status names (fun i => ai_status (ai2_combine (cand_single names i) (fst (o i)) (snd (o i))))).
Proof.
  intros Hne. destruct names as [|c rest]; [congruence|].
  unfold ai2_run.
  pose proof (ai2_loop_correct (c :: rest) o rest [] c 0 (length (c :: rest)) eq_refl) as H.
  cbn [length app rev] in H. cbn [length]. rewrite H; [|lia|reflexivity].
  unfold spec_queried, spec_status, exhausted_status, nodata_in.
  destruct (first_stop (c :: rest) _ 0 (c :: rest)); reflexivity.
Qed.

(* witness: one single-label candidate "h", the A query says no data first, the AAAA query says
   not found last: the pinned code reports not-found, the rule (and the patched code) no-data *)
Definition unspec_outcomes (i : nat) : ai_outcome * ai_outcome :=
  ({| ao_status := ARES_ENODATA; ao_addr := false |}, {| ao_status := ARES_ENOTFOUND; ao_addr := false |}).

Lemma ai2_pinned_refuted :
  ai2_run false [[104%N]] unspec_outcomes = Ok ([[104%N]], ARES_ENOTFOUND) /\
  ai2_run true [[104%N]] unspec_outcomes = Ok ([[104%N]], ARES_ENODATA).
Proof. split; vm_compute; reflexivity. Qed.

(* ------------------------------------------------------------------------------------ *)
(* Non-vacuity: a non-trivial configuration exercising both positions of the as-is name   *)
(* ------------------------------------------------------------------------------------ *)
Definition ex_cfg : search_cfg :=
  {| c_flags := 0; c_ndots := 2; c_domains := [[97; 46; 98]; [46]]%N |}.     (* "a.b", "." *)

Example ex_candidates_last :
  search_name_list ex_cfg [119; 46; 120]%N None                               (* "w.x": 1 dot < 2 *)
  = Ok [Some [119; 46; 120; 46; 97; 46; 98]; Some [119; 46; 120; 46]; Some [119; 46; 120]]%N.
Proof. vm_compute. reflexivity. Qed.

Example ex_candidates_first :
  search_name_list ex_cfg [119; 46; 120; 46; 121]%N None                      (* "w.x.y": 2 dots *)
  = Ok [Some [119; 46; 120; 46; 121]; Some [119; 46; 120; 46; 121; 46; 97; 46; 98];
        Some [119; 46; 120; 46; 121; 46]]%N.
Proof. vm_compute. reflexivity. Qed.
