(* C17 - proofs about the cookie model (coq/Core/Cookie.v) against the monitor (CookieSpec.v). *)
From CAres.Base Require Import CInt.
From CAres.Gen Require Import Consts LeafFns.
From CAres.Core Require Import Cookie CookieSpec.
Local Open Scope Z_scope.
Ltac Zify.zify_post_hook ::= Z.div_mod_to_equations.

(* ------------------------------------------------------------------------------------ *)
(* Time predicates: lemmas about the GENERATED text                                       *)
(* ------------------------------------------------------------------------------------ *)
Definition tv_ok0 (t : tv) : Prop := 0 <= tv_sec t < 2 ^ 40 /\ 0 <= tv_usec t < 1000000.
Definition tv_ok (t : tv) : Prop := 1 <= tv_sec t < 2 ^ 40 /\ 0 <= tv_usec t < 1000000.

Lemma tv_ok_ok0 t : tv_ok t -> tv_ok0 t.
Proof. unfold tv_ok, tv_ok0; lia. Qed.

Lemma is_set_zero : timeval_is_set tv_zero = Ok false.
Proof. reflexivity. Qed.

(* holds for the repaired predicate (sec != 0 || usec != 0); with the original `&&` a
   timestamp with usec = 0 is "not set" and this lemma is false *)
Lemma is_set_ok t : tv_ok t -> timeval_is_set t = Ok true.
Proof.
  intros [Hs Hu]. unfold timeval_is_set, c_timeval_is_set.
  replace (tv_sec t =? 0) with false by (symmetry; apply Z.eqb_neq; lia).
  reflexivity.
Qed.

Lemma expired_spec t now ms :
  tv_ok0 t -> tv_ok0 now -> 0 <= ms < 2 ^ 31 ->
  timeval_expired t now ms = Ok (elapsed_ge t now ms).
Proof.
  intros [Hs Hu] [Hns Hnu] Hms.
  unfold timeval_expired, c_ares_timeval_diff, c_timeval_expired, elapsed_ge, us.
  assert (E40 : 2 ^ 40 = 1099511627776) by reflexivity.
  assert (E63 : 2 ^ 63 = 9223372036854775808) by reflexivity.
  assert (E32 : 2 ^ 32 = 4294967296) by reflexivity.
  assert (E31 : 2 ^ 31 = 2147483648) by reflexivity.
  rewrite (swrap_small 64 ms) by (try lia; change (2 ^ (64 - 1)) with (2 ^ 63); lia).
  set (ds := tv_sec now - tv_sec t).
  assert (Hds : - 2 ^ 40 < ds < 2 ^ 40) by (unfold ds; lia).
  replace ((- 2 ^ 63 <=? ds) && (ds <? 2 ^ 63)) with true
    by (symmetry; apply andb_true_intro; split; [apply Z.leb_le | apply Z.ltb_lt]; lia).
  cbn [guard bind].
  destruct (tv_usec now >? tv_usec t) eqn:Hgt.
  - apply Z.gtb_lt in Hgt.
    cbn [bind fst snd].
    rewrite (Z.mod_small (tv_usec now - tv_usec t)) by lia.
    replace ((- 2 ^ 63 <=? ds * 1000) && (ds * 1000 <? 2 ^ 63)) with true
      by (symmetry; apply andb_true_intro; split; [apply Z.leb_le | apply Z.ltb_lt]; lia).
    cbn [guard].
    set (q := (tv_usec now - tv_usec t) / 1000).
    assert (Hq : 0 <= q < 1000) by (unfold q; lia).
    replace ((- 2 ^ 63 <=? ds * 1000 + q) && (ds * 1000 + q <? 2 ^ 63)) with true
      by (symmetry; apply andb_true_intro; split; [apply Z.leb_le | apply Z.ltb_lt]; lia).
    cbn [guard].
    assert (Hiff : (ds * 1000 + q >=? ms) = (tv_sec now * 1000000 + tv_usec now - (tv_sec t * 1000000 + tv_usec t) >=? ms * 1000)).
    { unfold q, ds. destruct (Z.geb_spec (tv_sec now * 1000000 + tv_usec now - (tv_sec t * 1000000 + tv_usec t)) (ms * 1000));
        [apply Z.geb_le | rewrite Z.geb_leb; apply Z.leb_gt]; lia. }
    rewrite <- Hiff. destruct (ds * 1000 + q >=? ms); reflexivity.
  - assert (Hle : tv_usec now <= tv_usec t) by (rewrite Z.gtb_ltb in Hgt; apply Z.ltb_ge in Hgt; lia).
    replace ((- 2 ^ 63 <=? ds - 1) && (ds - 1 <? 2 ^ 63)) with true
      by (symmetry; apply andb_true_intro; split; [apply Z.leb_le | apply Z.ltb_lt]; lia).
    cbn [guard bind fst snd].
    rewrite (Z.mod_small (tv_usec now + 1000000)) by lia.
    rewrite (Z.mod_small (tv_usec now + 1000000 - tv_usec t)) by lia.
    replace ((- 2 ^ 63 <=? (ds - 1) * 1000) && ((ds - 1) * 1000 <? 2 ^ 63)) with true
      by (symmetry; apply andb_true_intro; split; [apply Z.leb_le | apply Z.ltb_lt]; lia).
    cbn [guard].
    set (q := (tv_usec now + 1000000 - tv_usec t) / 1000).
    assert (Hq : 0 <= q <= 1000) by (unfold q; lia).
    replace ((- 2 ^ 63 <=? (ds - 1) * 1000 + q) && ((ds - 1) * 1000 + q <? 2 ^ 63)) with true
      by (symmetry; apply andb_true_intro; split; [apply Z.leb_le | apply Z.ltb_lt]; lia).
    cbn [guard].
    assert (Hiff : ((ds - 1) * 1000 + q >=? ms) = (tv_sec now * 1000000 + tv_usec now - (tv_sec t * 1000000 + tv_usec t) >=? ms * 1000)).
    { unfold q, ds. destruct (Z.geb_spec (tv_sec now * 1000000 + tv_usec now - (tv_sec t * 1000000 + tv_usec t)) (ms * 1000));
        [apply Z.geb_le | rewrite Z.geb_leb; apply Z.leb_gt]; lia. }
    rewrite <- Hiff. destruct ((ds - 1) * 1000 + q >=? ms); reflexivity.
Qed.

(* ------------------------------------------------------------------------------------ *)
(* Small facts                                                                            *)
(* ------------------------------------------------------------------------------------ *)
Lemma bytes_eqb_refl a : bytes_eqb a a = true.
Proof. induction a as [|x a IH]; cbn; [reflexivity | rewrite Z.eqb_refl, IH; reflexivity]. Qed.

Lemma bytes_eqb_eq a : forall b, bytes_eqb a b = true -> a = b.
Proof.
  induction a as [|x a IH]; intros [|y b] H; cbn in H; try discriminate; auto.
  apply andb_prop in H as [H1 H2]. apply Z.eqb_eq in H1. f_equal; auto.
Qed.

Lemma bytes_eqb_sym a : forall b, bytes_eqb a b = bytes_eqb b a.
Proof.
  induction a as [|x a IH]; intros [|y b]; cbn; auto.
  rewrite IH, Z.eqb_sym. reflexivity.
Qed.

Lemma bytes_eqb_neq a b : bytes_eqb a b = false -> a <> b.
Proof. intros H E; subst. rewrite bytes_eqb_refl in H. discriminate. Qed.

Lemma firstn_app_exact {A} (a b : list A) n : length a = n -> firstn n (a ++ b) = a.
Proof. intros <-. rewrite firstn_app, Nat.sub_diag, firstn_all. cbn. apply app_nil_r. Qed.

Lemma skipn_app_exact {A} (a b : list A) n : length a = n -> skipn n (a ++ b) = b.
Proof. intros <-. rewrite skipn_app, Nat.sub_diag, skipn_all. reflexivity. Qed.

Definition ip_known (a : addr) : Prop :=
  (a_family a = AF_INET \/ a_family a = AF_INET6) /\ length (a_data a) = 16%nat.

Lemma addr_equal_refl a : ip_known a -> addr_equal a a = true.
Proof.
  intros [[H | H] _]; unfold addr_equal; rewrite Z.eqb_refl, H; cbn; apply bytes_eqb_refl.
Qed.

Lemma addr_equal_same a b : ip_known a -> addr_equal a b = addr_same a b.
Proof.
  intros [[H | H] _]; unfold addr_equal, addr_same; rewrite H;
    destruct (_ =? a_family b); reflexivity.
Qed.

Lemma addr_equal_zero a : ip_known a -> addr_equal a addr_zero = false.
Proof. intros [[H | H] _]; unfold addr_equal; rewrite H; reflexivity. Qed.

Lemma upd_same {A} (f : nat -> A) k v : upd f k v k = v.
Proof. unfold upd. rewrite Nat.eqb_refl. reflexivity. Qed.

Lemma upd_other {A} (f : nat -> A) k v x : x <> k -> upd f k v x = f x.
Proof. intros H. unfold upd. apply Nat.eqb_neq in H. rewrite H. reflexivity. Qed.

Lemma elapsed_self now ms : 0 < ms -> elapsed_ge now now ms = false.
Proof. intros H. unfold elapsed_ge. rewrite Z.sub_diag, Z.geb_leb. apply Z.leb_gt. lia. Qed.

(* ------------------------------------------------------------------------------------ *)
(* Well-formed events and the invariant tying the code-shaped state to the monitor        *)
(* ------------------------------------------------------------------------------------ *)
Definition wf_event (e : event) : Prop :=
  match e with
  | ENew _ _ _ => True
  | EApply _ _ ip now rnd => ip_known ip /\ tv_ok now /\ forall n, length (rnd n) = 8%nat
  | EValidate _ _ _ now => tv_ok now
  end.

Definition wf_cookie (c : cookie) : Prop :=
  length (ck_client c) = 8%nat /\ length (ck_server c) = 32%nat /\ (ck_server_len c <= 32)%nat.

(* all fields but state and unsupported_ts are zero (the record after ares_cookie_clear) *)
Definition cleared (c : cookie) : Prop :=
  c = mkCk (ck_state c) (repeat 0 8) tv_zero addr_zero (repeat 0 32) 0 (ck_unsup_ts c).

Record InvC (c : cookie) (g : ghost) : Prop := mkInvC {
  i_wf : wf_cookie c;
  i_sup : g_sup g = (ck_state c =? ARES_COOKIE_SUPPORTED);
  i_nocookie : ck_state c = ARES_COOKIE_SUPPORTED ->
               match g_nocookie g with
               | None => ck_unsup_ts c = tv_zero
               | Some t => ck_unsup_ts c = t /\ tv_ok t
               end;
  i_live : g_reset_ok g = false ->
           match g_last g with
           | None => c = cookie_zero
           | Some p =>
             (ck_state c = ARES_COOKIE_GENERATED \/ ck_state c = ARES_COOKIE_SUPPORTED) /\
             ck_client c = p /\ ck_client_ts c = g_since g /\ tv_ok (g_since g) /\
             ck_client_ip c = g_ip g /\ ip_known (g_ip g) /\
             firstn (ck_server_len c) (ck_server c) = g_server g
           end;
  i_reset : g_reset_ok g = true ->
            (ck_state c = ARES_COOKIE_UNSUPPORTED /\ cleared c /\ tv_ok (ck_unsup_ts c)) \/
            c = cookie_zero \/
            (ck_state c = ARES_COOKIE_SUPPORTED /\ ck_client_ip c = addr_zero /\ tv_ok0 (ck_client_ts c));
  i_initial : ck_state c = ARES_COOKIE_INITIAL -> c = cookie_zero;
  i_state : ck_state c = ARES_COOKIE_INITIAL \/ ck_state c = ARES_COOKIE_GENERATED \/
            ck_state c = ARES_COOKIE_SUPPORTED \/ ck_state c = ARES_COOKIE_UNSUPPORTED
}.

Record InvQ (qs : nat -> query) (g : ghost) : Prop := mkInvQ {
  i_req : forall q, g_req g q = q_req (qs q);
  i_reqlen : forall q c, q_sent (qs q) = true -> cookie_of (q_req (qs q)) = Some c -> 8 <= zlen c;
  i_nolast : g_last g = None -> forall q, q_sent (qs q) = true -> cookie_of (q_req (qs q)) = None;
  i_bad : forall q, g_bad g q = q_try (qs q) /\ 0 <= q_try (qs q) <= COOKIE_RESEND_MAX /\
                    q_tcp (qs q) = (COOKIE_RESEND_MAX <=? q_try (qs q)) /\
                    (q_tcp (qs q) = true -> q_sent (qs q) = true -> cookie_of (q_req (qs q)) = None)
}.

Definition Inv (s : sys) (g : ghost) : Prop := InvC (s_ck s) g /\ InvQ (s_q s) g.

Lemma inv_init : Inv sys_init ghost_init.
Proof.
  split; constructor; cbn; try (intros; discriminate); auto.
  - repeat split; cbn; lia.
  - intros q. repeat split; try reflexivity; unfold COOKIE_RESEND_MAX; lia.
Qed.

(* the query part of the invariant under the three kinds of change *)
Lemma invq_upd qs g g' q r t tcpf sentf :
  InvQ qs g ->
  (forall x, g_req g' x = upd (g_req g) q r x) -> (forall x, g_bad g' x = upd (g_bad g) q t x) ->
  (g_last g' = None -> g_last g = None) ->
  0 <= t <= COOKIE_RESEND_MAX -> tcpf = (COOKIE_RESEND_MAX <=? t) ->
  (sentf = true -> forall c, cookie_of r = Some c -> 8 <= zlen c /\ tcpf = false /\ g_last g' <> None) ->
  InvQ (upd qs q (mkQ r t tcpf sentf)) g'.
Proof.
  intros [Hreq Hlen Hnol Hbad] Eq Eb Hl Ht Htcp Hs.
  constructor.
  - intros x. rewrite Eq. unfold upd. destruct (Nat.eqb x q); [reflexivity | apply Hreq].
  - intros x c. unfold upd. destruct (Nat.eqb x q); cbn; [| apply Hlen].
    intros S C. destruct (Hs S c C) as [H _]. exact H.
  - intros L x. unfold upd. destruct (Nat.eqb x q); cbn; [| apply Hnol; auto].
    intros S. destruct (cookie_of r) eqn:C; [| reflexivity].
    destruct (Hs S l eq_refl) as (_ & _ & H). contradiction.
  - intros x. rewrite Eb. unfold upd. destruct (Nat.eqb x q); cbn; [| apply Hbad].
    repeat split; try lia; try assumption.
    intros T S. destruct (cookie_of r) eqn:C; [| reflexivity].
    destruct (Hs S l eq_refl) as (_ & H & _). congruence.
Qed.

(* ------------------------------------------------------------------------------------ *)
(* ares_cookie_apply                                                                      *)
(* ------------------------------------------------------------------------------------ *)
Definition fresh_ck (st : Z) (r : list Z) (now : tv) (ip : addr) (uts : tv) : cookie :=
  mkCk st r now ip (repeat 0 32) 0 uts.

Lemma generate_from_zero ip now rnd :
  ip_known ip ->
  apply_generate cookie_zero ip now rnd = Ok (fresh_ck ARES_COOKIE_GENERATED (rnd 0%nat) now ip tv_zero, 1%nat).
Proof.
  intros K. unfold apply_generate. cbn.
  rewrite (addr_equal_refl ip K). cbn. reflexivity.
Qed.

Lemma tail_from_zero ip now rnd :
  ip_known ip ->
  apply_tail cookie_zero ip now rnd =
  Ok (fresh_ck ARES_COOKIE_GENERATED (rnd 0%nat) now ip tv_zero, OptCookie (rnd 0%nat ++ []), ARES_SUCCESS, 1%nat).
Proof.
  intros K. unfold apply_tail. cbn -[apply_generate]. rewrite (generate_from_zero ip now rnd K). reflexivity.
Qed.

(* the monitor's verdict and next state when a freshly generated cookie (no server part) is sent
   and a rotation is justified *)
Lemma mon_apply_fresh g q ip now r :
  length r = 8%nat ->
  (g_reset_ok g || (g_sup g && match g_nocookie g with Some t => elapsed_ge t now COOKIE_REGRESSION_TIMEOUT_MS | None => false end)
   || is_none (g_last g) || negb (addr_same ip (g_ip g))
   || ((g_sup g && negb (g_sup g && match g_nocookie g with Some t => elapsed_ge t now COOKIE_REGRESSION_TIMEOUT_MS | None => false end))
       && elapsed_ge (g_since g) now COOKIE_CLIENT_TIMEOUT_MS)) = true ->
  mon_apply g q ip now false (OptCookie (r ++ [])) =
  (mkG (Some r) ip now false []
       (g_sup g && negb (g_sup g && match g_nocookie g with Some t => elapsed_ge t now COOKIE_REGRESSION_TIMEOUT_MS | None => false end))
       (if g_sup g && match g_nocookie g with Some t => elapsed_ge t now COOKIE_REGRESSION_TIMEOUT_MS | None => false end
        then None else g_nocookie g)
       (upd (g_req g) q (OptCookie (r ++ []))) (g_bad g), []).
Proof.
  intros L H. unfold mon_apply.
  rewrite app_nil_r.
  assert (Z8 : zlen r = 8) by (unfold zlen; rewrite L; reflexivity).
  rewrite Z8. cbn [Z.ltb Z.compare].
  rewrite (firstn_all2 r) by lia.
  rewrite (skipn_all2 r) by lia.
  set (regress := g_sup g && match g_nocookie g with Some t => elapsed_ge t now COOKIE_REGRESSION_TIMEOUT_MS | None => false end) in *.
  set (rot := g_reset_ok g || regress || is_none (g_last g) || negb (addr_same ip (g_ip g)) || (g_sup g && negb regress && elapsed_ge (g_since g) now COOKIE_CLIENT_TIMEOUT_MS)) in *.
  rewrite H. cbn [negb andb orb app bytes_eqb].
  rewrite andb_false_r. reflexivity.
Qed.

Lemma is_set_char t : t = tv_zero \/ tv_ok t -> timeval_is_set t = Ok (negb (tv_sec t =? 0)).
Proof.
  intros [-> | H]; [reflexivity |].
  rewrite (is_set_ok t H). destruct H as [H _].
  replace (tv_sec t =? 0) with false by (symmetry; apply Z.eqb_neq; lia). reflexivity.
Qed.

Definition ms_ok (ms : Z) : Prop := 0 < ms < 2 ^ 31.
Lemma reg_ok : ms_ok COOKIE_REGRESSION_TIMEOUT_MS. Proof. unfold ms_ok, COOKIE_REGRESSION_TIMEOUT_MS; lia. Qed.
Lemma day_ok : ms_ok COOKIE_CLIENT_TIMEOUT_MS. Proof. unfold ms_ok, COOKIE_CLIENT_TIMEOUT_MS; lia. Qed.

(* What ares_cookie_apply does on a UDP connection to a request that has an OPT RR: four outcomes *)
Definition apply_regress_b (ck : cookie) (now : tv) : bool :=
  (ck_state ck =? ARES_COOKIE_SUPPORTED) && negb (tv_sec (ck_unsup_ts ck) =? 0)
  && elapsed_ge (ck_unsup_ts ck) now COOKIE_REGRESSION_TIMEOUT_MS.

Lemma apply_udp_char ck rq ip now rnd :
  rq <> NoOpt -> ip_known ip -> tv_ok now -> wf_cookie ck ->
  (ck_state ck = ARES_COOKIE_SUPPORTED -> ck_unsup_ts ck = tv_zero \/ tv_ok (ck_unsup_ts ck)) ->
  (ck_state ck = ARES_COOKIE_UNSUPPORTED -> tv_ok (ck_unsup_ts ck)) ->
  (ck_state ck = ARES_COOKIE_SUPPORTED -> tv_ok0 (ck_client_ts ck)) ->
  (ck_state ck = ARES_COOKIE_INITIAL -> ck = cookie_zero) ->
  (ck_state ck = ARES_COOKIE_INITIAL \/ ck_state ck = ARES_COOKIE_GENERATED \/
   ck_state ck = ARES_COOKIE_SUPPORTED \/ ck_state ck = ARES_COOKIE_UNSUPPORTED) ->
  cookie_apply ck rq false ip now rnd = Ok (
    if apply_regress_b ck now || (ck_state ck =? ARES_COOKIE_INITIAL)
       || ((ck_state ck =? ARES_COOKIE_UNSUPPORTED) && elapsed_ge (ck_unsup_ts ck) now COOKIE_REGRESSION_TIMEOUT_MS)
    then (fresh_ck ARES_COOKIE_GENERATED (rnd 0%nat) now ip tv_zero, OptCookie (rnd 0%nat ++ []), ARES_SUCCESS, 1%nat)
    else if ck_state ck =? ARES_COOKIE_UNSUPPORTED then (ck, OptOnly, ARES_SUCCESS, 0%nat)
    else if negb (addr_equal ip (ck_client_ip ck))
            || ((ck_state ck =? ARES_COOKIE_SUPPORTED) && elapsed_ge (ck_client_ts ck) now COOKIE_CLIENT_TIMEOUT_MS)
    then (fresh_ck (ck_state ck) (rnd 0%nat) now ip (ck_unsup_ts ck), OptCookie (rnd 0%nat ++ []), ARES_SUCCESS, 1%nat)
    else (ck, OptCookie (ck_client ck ++ firstn (ck_server_len ck) (ck_server ck)), ARES_SUCCESS, 0%nat)).
Proof.
  intros N K T W Hsup Hun Hcts Hini Hst.
  pose proof (tv_ok_ok0 now T) as T0.
  pose proof reg_ok as [R1 R2]. pose proof day_ok as [D1 D2].
  destruct ck as [st cl cts cip sv sl uts]. cbn [ck_state ck_unsup_ts ck_client_ts ck_client_ip ck_client ck_server ck_server_len] in *.
  destruct W as (W1 & W2 & W3). cbn [ck_state ck_unsup_ts ck_client_ts ck_client_ip ck_client ck_server ck_server_len] in *.
  unfold cookie_apply, apply_regress_b.
  assert (Hrq : forall A (x y : A), match rq with NoOpt => x | _ => y end = y) by (intros; destruct rq; [contradiction | reflexivity | reflexivity]).
  rewrite Hrq. clear Hrq.
  (* the tail for a live (GENERATED / SUPPORTED) record *)
  assert (Hlive : forall st0, st0 = ARES_COOKIE_GENERATED \/ st0 = ARES_COOKIE_SUPPORTED ->
            (st0 = ARES_COOKIE_SUPPORTED -> tv_ok0 cts) ->
            apply_tail (mkCk st0 cl cts cip sv sl uts) ip now rnd =
            Ok (if negb (addr_equal ip cip) || ((st0 =? ARES_COOKIE_SUPPORTED) && elapsed_ge cts now COOKIE_CLIENT_TIMEOUT_MS)
                then (fresh_ck st0 (rnd 0%nat) now ip uts, OptCookie (rnd 0%nat ++ []), ARES_SUCCESS, 1%nat)
                else (mkCk st0 cl cts cip sv sl uts, OptCookie (cl ++ firstn sl sv), ARES_SUCCESS, 0%nat))).
  { intros st0 [-> | ->] Hc; unfold apply_tail, apply_generate;
      cbn -[addr_equal timeval_expired elapsed_ge Nat.leb firstn].
    - destruct (addr_equal ip cip); cbn -[Nat.leb firstn]; [| reflexivity].
      replace (Nat.leb sl 32) with true by (symmetry; apply Nat.leb_le; exact W3). reflexivity.
    - destruct (addr_equal ip cip); cbn -[timeval_expired elapsed_ge Nat.leb firstn].
      + rewrite (expired_spec cts now _ (Hc eq_refl) T0) by lia. cbn -[elapsed_ge Nat.leb firstn].
        destruct (elapsed_ge cts now COOKIE_CLIENT_TIMEOUT_MS); cbn -[Nat.leb firstn]; [reflexivity |].
        replace (Nat.leb sl 32) with true by (symmetry; apply Nat.leb_le; exact W3). reflexivity.
      + rewrite (expired_spec now now _ T0 T0) by lia. rewrite (elapsed_self now _ D1). cbn. reflexivity. }
  destruct Hst as [-> | [-> | [-> | ->]]].
  - (* INITIAL *)
    rewrite (Hini eq_refl). cbn -[apply_tail]. rewrite (tail_from_zero ip now rnd K). reflexivity.
  - (* GENERATED *)
    cbn -[apply_tail addr_equal elapsed_ge].
    rewrite (Hlive _ (or_introl eq_refl)) by (intros; discriminate). reflexivity.
  - (* SUPPORTED *)
    unfold apply_regress. cbn [ck_state ck_unsup_ts].
    change (ARES_COOKIE_SUPPORTED =? ARES_COOKIE_SUPPORTED) with true. cbn iota.
    rewrite (is_set_char uts (Hsup eq_refl)). cbn [bind andb].
    change (ARES_COOKIE_SUPPORTED =? ARES_COOKIE_INITIAL) with false.
    change (ARES_COOKIE_SUPPORTED =? ARES_COOKIE_UNSUPPORTED) with false. cbn [andb orb].
    assert (U0 : tv_ok0 uts) by (destruct (Hsup eq_refl) as [-> | H]; [unfold tv_ok0; cbn; lia | apply tv_ok_ok0; exact H]).
    destruct (negb (tv_sec uts =? 0)) eqn:Eset.
    + rewrite (expired_spec uts now _ U0 T0) by lia. cbn [bind].
      destruct (elapsed_ge uts now COOKIE_REGRESSION_TIMEOUT_MS) eqn:Ereg; cbn [orb].
      * rewrite (tail_from_zero ip now rnd K). reflexivity.
      * rewrite (Hlive _ (or_intror eq_refl) Hcts). reflexivity.
    + cbn [bind orb]. rewrite (Hlive _ (or_intror eq_refl) Hcts). reflexivity.
  - (* UNSUPPORTED *)
    unfold apply_regress. cbn [ck_state ck_unsup_ts].
    change (ARES_COOKIE_UNSUPPORTED =? ARES_COOKIE_SUPPORTED) with false. cbn iota. cbn [bind andb orb].
    change (ARES_COOKIE_UNSUPPORTED =? ARES_COOKIE_INITIAL) with false. cbn [andb orb].
    unfold apply_tail. cbn [ck_state ck_unsup_ts].
    change (ARES_COOKIE_UNSUPPORTED =? ARES_COOKIE_UNSUPPORTED) with true. cbn iota. cbn [andb].
    rewrite (expired_spec uts now _ (tv_ok_ok0 _ (Hun eq_refl)) T0) by lia. cbn [bind].
    destruct (elapsed_ge uts now COOKIE_REGRESSION_TIMEOUT_MS); cbn [negb].
    + cbn -[apply_generate]. rewrite (generate_from_zero ip now rnd K). reflexivity.
    + reflexivity.
Qed.

Lemma invc_fresh st r now ip uts sup' noc' greq gbad :
  length r = 8%nat -> tv_ok now -> ip_known ip ->
  (st = ARES_COOKIE_GENERATED \/ st = ARES_COOKIE_SUPPORTED) ->
  sup' = (st =? ARES_COOKIE_SUPPORTED) ->
  (st = ARES_COOKIE_SUPPORTED -> match noc' with None => uts = tv_zero | Some t => uts = t /\ tv_ok t end) ->
  InvC (fresh_ck st r now ip uts) (mkG (Some r) ip now false [] sup' noc' greq gbad).
Proof.
  intros L T K S E N. constructor; cbn.
  - unfold wf_cookie, fresh_ck; cbn. repeat split; [exact L | lia].
  - exact E.
  - exact N.
  - intros _. repeat match goal with |- _ /\ _ => split end; auto.
  - intros; discriminate.
  - intros H. destruct S as [S | S]; rewrite S in H; discriminate.
  - destruct S as [S | S]; auto.
Qed.

(* InvC only reads the cookie-related ghost fields *)
Lemma invc_ext c g g' :
  InvC c g -> g_last g' = g_last g -> g_ip g' = g_ip g -> g_since g' = g_since g ->
  g_reset_ok g' = g_reset_ok g -> g_server g' = g_server g -> g_sup g' = g_sup g ->
  g_nocookie g' = g_nocookie g -> InvC c g'.
Proof.
  intros [A B C D E F G] E1 E2 E3 E4 E5 E6 E7.
  constructor; rewrite ?E1, ?E2, ?E3, ?E4, ?E5, ?E6, ?E7; assumption.
Qed.

(* the cookie that is currently live is sent again *)
Lemma mon_apply_same g q ip now p :
  length p = 8%nat -> g_last g = Some p -> g_reset_ok g = false ->
  (g_sup g && match g_nocookie g with Some t => elapsed_ge t now COOKIE_REGRESSION_TIMEOUT_MS | None => false end) = false ->
  addr_same ip (g_ip g) = true ->
  (g_sup g && elapsed_ge (g_since g) now COOKIE_CLIENT_TIMEOUT_MS) = false ->
  mon_apply g q ip now false (OptCookie (p ++ g_server g)) =
  (mkG (g_last g) (g_ip g) (g_since g) false (g_server g) (g_sup g) (g_nocookie g)
       (upd (g_req g) q (OptCookie (p ++ g_server g))) (g_bad g), []).
Proof.
  intros L HL HR Hreg Hsame Haged. unfold mon_apply.
  assert (Z8 : zlen (p ++ g_server g) <? 8 = false).
  { apply Z.ltb_ge. unfold zlen. rewrite app_length, L. lia. }
  rewrite Z8.
  rewrite (firstn_app_exact p (g_server g) 8 L), (skipn_app_exact p (g_server g) 8 L).
  rewrite HL, HR, Hreg, Hsame. cbn [negb orb andb is_none].
  rewrite andb_true_r, Haged, bytes_eqb_refl. cbn [negb orb andb app].
  rewrite bytes_eqb_refl. reflexivity.
Qed.

Lemma step_apply s g q tcp ip now rnd :
  Inv s g -> ip_known ip -> tv_ok now -> (forall n, length (rnd n) = 8%nat) ->
  exists s' o, sys_step s (EApply q tcp ip now rnd) = Ok (s', o) /\
    snd (mon_step g (EApply q tcp ip now rnd) o) = [] /\
    Inv s' (fst (mon_step g (EApply q tcp ip now rnd) o)).
Proof.
  intros [HC HQ] K T R.
  cbn [sys_step]. set (qr := s_q s q). set (tcp' := tcp || q_tcp qr).
  destruct (i_bad _ _ HQ q) as (Bg & Bt & Btcp & Bnone). fold qr in Bg, Bt, Btcp, Bnone.
  (* the query part after a transmission with request r' *)
  assert (HQ' : forall r' g', (forall x, g_req g' x = upd (g_req g) q r' x) -> (forall x, g_bad g' x = g_bad g x) ->
                 (g_last g' = None -> g_last g = None) ->
                 (forall c, cookie_of r' = Some c -> 8 <= zlen c /\ q_tcp qr = false /\ g_last g' <> None) ->
                 InvQ (upd (s_q s) q (mkQ r' (q_try qr) (q_tcp qr) true)) g').
  { intros r' g' E1 E2 E3 E4. eapply (invq_upd (s_q s) g g' q r' (q_try qr) (q_tcp qr) true HQ E1); auto.
    intros x. rewrite E2. unfold upd. destruct (Nat.eqb x q) eqn:Ex; [apply Nat.eqb_eq in Ex; subst x; exact Bg | reflexivity]. }
  (* no cookie leaves: TCP, or no OPT RR *)
  assert (Hnone : forall r', cookie_of r' = None -> (tcp' = false -> r' = NoOpt) ->
            cookie_apply (s_ck s) (q_req qr) tcp' ip now rnd = Ok (s_ck s, r', ARES_SUCCESS, 0%nat) ->
            exists s' o, (do a <- cookie_apply (s_ck s) (q_req qr) tcp' ip now rnd;
                          let '(ck', r'0, st, n) := a in
                          Ok (mkSys ck' (upd (s_q s) q (mkQ r'0 (q_try qr) (q_tcp qr) true)), OApply tcp' st r'0 n)) = Ok (s', o) /\
              snd (mon_step g (EApply q tcp ip now rnd) o) = [] /\ Inv s' (fst (mon_step g (EApply q tcp ip now rnd) o))).
  { intros r' Hc Hno E. rewrite E. cbn [bind]. eexists. eexists. split; [reflexivity |].
    cbn [mon_step]. unfold mon_apply.
    destruct tcp'.
    - rewrite Hc. cbn. split; [reflexivity |]. split; cbn [s_ck s_q].
      + eapply invc_ext; [exact HC | reflexivity ..].
      + apply HQ'; cbn; auto. intros c Hc'. congruence.
    - rewrite (Hno eq_refl). cbn. split; [reflexivity |]. split; cbn [s_ck s_q].
      + eapply invc_ext; [exact HC | reflexivity ..].
      + apply HQ'; cbn; auto. intros c Hc'. discriminate. }
  assert (Hudp : q_req qr <> NoOpt -> tcp' = false ->
            exists s' o, (do a <- cookie_apply (s_ck s) (q_req qr) tcp' ip now rnd;
                          let '(ck', r'0, st, n) := a in
                          Ok (mkSys ck' (upd (s_q s) q (mkQ r'0 (q_try qr) (q_tcp qr) true)), OApply tcp' st r'0 n)) = Ok (s', o) /\
              snd (mon_step g (EApply q tcp ip now rnd) o) = [] /\ Inv s' (fst (mon_step g (EApply q tcp ip now rnd) o))).
  { intros Nn Eu. rewrite Eu.
    assert (Qtcp : q_tcp qr = false) by (unfold tcp' in Eu; apply orb_false_elim in Eu; tauto).
    destruct HC as [W Isup Inoc Ilive Ireset Iini Ist].
    set (ck := s_ck s) in *.
    assert (Hsup : ck_state ck = ARES_COOKIE_SUPPORTED -> ck_unsup_ts ck = tv_zero \/ tv_ok (ck_unsup_ts ck)).
    { intros S. specialize (Inoc S). destruct (g_nocookie g); [right; destruct Inoc as [-> ?]; assumption | left; assumption]. }
    assert (Hun : ck_state ck = ARES_COOKIE_UNSUPPORTED -> g_reset_ok g = true /\ tv_ok (ck_unsup_ts ck)).
    { intros S. destruct (g_reset_ok g) eqn:Er.
      - destruct (Ireset eq_refl) as [(_ & _ & H) | [H | (H & _)]]; [auto | rewrite H in S; discriminate | rewrite H in S; discriminate].
      - specialize (Ilive eq_refl). destruct (g_last g).
        + destruct Ilive as ([H | H] & _); rewrite H in S; discriminate.
        + rewrite Ilive in S; discriminate. }
    assert (Hcts : ck_state ck = ARES_COOKIE_SUPPORTED -> tv_ok0 (ck_client_ts ck)).
    { intros S. destruct (g_reset_ok g) eqn:Er.
      - destruct (Ireset eq_refl) as [(H & _) | [H | (_ & _ & H)]]; [rewrite H in S; discriminate | rewrite H in S; discriminate | exact H].
      - specialize (Ilive eq_refl). destruct (g_last g).
        + destruct Ilive as (_ & _ & -> & H & _). apply tv_ok_ok0; exact H.
        + rewrite Ilive in S; discriminate. }
    rewrite (apply_udp_char ck (q_req qr) ip now rnd Nn K T W Hsup (fun S => proj2 (Hun S)) Hcts Iini Ist).
    (* the monitor's regression test agrees with the code's *)
    assert (Hreg : (g_sup g && match g_nocookie g with Some t => elapsed_ge t now COOKIE_REGRESSION_TIMEOUT_MS | None => false end)
                   = apply_regress_b ck now).
    { unfold apply_regress_b. rewrite Isup. destruct (ck_state ck =? ARES_COOKIE_SUPPORTED) eqn:Es; [| reflexivity].
      apply Z.eqb_eq in Es. specialize (Inoc Es). cbn [andb]. destruct (g_nocookie g).
      - destruct Inoc as [-> [Hs _]]. replace (tv_sec t =? 0) with false by (symmetry; apply Z.eqb_neq; lia). reflexivity.
      - rewrite Inoc. reflexivity. }
    (* a live cookie exists exactly when no reset is pending *)
    assert (Hlivecase : g_reset_ok g = false -> ck_state ck <> ARES_COOKIE_INITIAL ->
              exists p, g_last g = Some p /\ ck_client ck = p /\ ck_client_ts ck = g_since g /\ tv_ok (g_since g) /\
                        ck_client_ip ck = g_ip g /\ ip_known (g_ip g) /\ firstn (ck_server_len ck) (ck_server ck) = g_server g).
    { intros Er Hn. specialize (Ilive Er). destruct (g_last g).
      - exists l. destruct Ilive as (_ & H). split; [reflexivity | exact H].
      - rewrite Ilive in Hn. exfalso. apply Hn. reflexivity. }
    cbn [bind].
    destruct (apply_regress_b ck now || (ck_state ck =? ARES_COOKIE_INITIAL)
              || ((ck_state ck =? ARES_COOKIE_UNSUPPORTED) && elapsed_ge (ck_unsup_ts ck) now COOKIE_REGRESSION_TIMEOUT_MS)) eqn:C1.
    - (* restart from a cleared record: fresh client cookie, state GENERATED *)
      eexists. eexists. split; [reflexivity |]. cbn [mon_step].
      assert (Hsup' : (g_sup g && negb (apply_regress_b ck now)) = (ARES_COOKIE_GENERATED =? ARES_COOKIE_SUPPORTED)).
      { change (ARES_COOKIE_GENERATED =? ARES_COOKIE_SUPPORTED) with false.
        destruct (apply_regress_b ck now) eqn:Eb; [apply andb_false_r |].
        rewrite Isup. cbn [orb] in C1. apply orb_true_iff in C1 as [C1 | C1].
        - apply Z.eqb_eq in C1. rewrite C1. reflexivity.
        - apply andb_true_iff in C1 as [C1 _]. apply Z.eqb_eq in C1. rewrite C1. reflexivity. }
      rewrite mon_apply_fresh; [| apply R |].
      + cbn [fst snd]. split; [reflexivity |]. rewrite Hreg. split; cbn [s_ck s_q].
        * apply invc_fresh; auto. intros; discriminate.
        * apply HQ'; cbn; auto; try discriminate.
          intros c Hc. inversion Hc; subst c. split; [| split; [exact Qtcp | discriminate]].
          unfold zlen. rewrite app_length, R. cbn. lia.
      + rewrite Hreg.
        destruct (apply_regress_b ck now) eqn:Eb; [rewrite orb_true_r; reflexivity |].
        cbn [orb] in C1. apply orb_true_iff in C1 as [C1 | C1].
        * apply Z.eqb_eq in C1. destruct (g_reset_ok g) eqn:Er; [reflexivity |].
          specialize (Ilive eq_refl). destruct (g_last g); [| reflexivity].
          destruct Ilive as ([H | H] & _); rewrite H in C1; discriminate.
        * apply andb_true_iff in C1 as [C1 _]. apply Z.eqb_eq in C1. destruct (Hun C1) as [-> _]. reflexivity.
    - apply orb_false_elim in C1 as [C1 C1c]. apply orb_false_elim in C1 as [C1a C1b].
      apply Z.eqb_neq in C1b.
      destruct (ck_state ck =? ARES_COOKIE_UNSUPPORTED) eqn:C2.
      + (* server known not to support cookies: no cookie is sent *)
        apply Z.eqb_eq in C2. destruct (Hun C2) as [Er _].
        eexists. eexists. split; [reflexivity |]. cbn [mon_step]. unfold mon_apply. rewrite Er. cbn [fst snd].
        split; [reflexivity |]. split; cbn [s_ck s_q].
        * eapply invc_ext; [constructor; eassumption | cbn; congruence ..].
        * apply HQ'; cbn; auto. intros c Hc. discriminate.
      + apply Z.eqb_neq in C2.
        assert (Slive : ck_state ck = ARES_COOKIE_GENERATED \/ ck_state ck = ARES_COOKIE_SUPPORTED)
          by (destruct Ist as [H | [H | [H | H]]]; [contradiction | auto | auto | contradiction]).
        destruct (negb (addr_equal ip (ck_client_ip ck))
                  || ((ck_state ck =? ARES_COOKIE_SUPPORTED) && elapsed_ge (ck_client_ts ck) now COOKIE_CLIENT_TIMEOUT_MS)) eqn:C3.
        * (* rotation: source address changed or client cookie too old *)
          eexists. eexists. split; [reflexivity |]. cbn [mon_step].
          rewrite mon_apply_fresh; [| apply R |].
          -- cbn [fst snd]. split; [reflexivity |]. rewrite Hreg, C1a. cbn [negb andb]. rewrite andb_true_r. split; cbn [s_ck s_q].
             ++ apply invc_fresh; auto.
             ++ apply HQ'; cbn; auto; try discriminate.
                intros c Hc. inversion Hc; subst c. split; [| split; [exact Qtcp | discriminate]].
                unfold zlen. rewrite app_length, R. cbn. lia.
          -- rewrite Hreg, C1a. cbn [negb andb orb]. rewrite andb_true_r.
             destruct (g_reset_ok g) eqn:Er; [reflexivity |]. cbn [orb].
             destruct (Hlivecase eq_refl C1b) as (p & HL & _ & Hts & _ & Hip & Hipk & _).
             rewrite HL. cbn [is_none orb]. rewrite <- Hip, <- Hts, <- (addr_equal_same ip _ K), Isup. exact C3.
        * (* the live cookie is sent again *)
          apply orb_false_elim in C3 as [C3a C3b]. apply negb_false_iff in C3a.
          assert (Er : g_reset_ok g = false).
          { destruct (g_reset_ok g) eqn:Er; [| reflexivity].
            destruct (Ireset eq_refl) as [(H & _) | [H | (_ & H & _)]]; [contradiction | | ].
            - rewrite H in C1b. exfalso; apply C1b; reflexivity.
            - rewrite H, (addr_equal_zero ip K) in C3a. discriminate. }
          destruct (Hlivecase Er C1b) as (p & HL & Hcl & Hts & Htsok & Hip & Hipk & Hsv).
          eexists. eexists. split; [reflexivity |]. cbn [mon_step].
          rewrite Hcl, Hsv.
          assert (Lp : length p = 8%nat) by (rewrite <- Hcl; apply W).
          rewrite (mon_apply_same g q ip now p Lp HL Er).
          -- cbn [fst snd]. split; [reflexivity |]. split; cbn [s_ck s_q].
             ++ eapply invc_ext; [constructor; eassumption | cbn; auto ..].
             ++ apply HQ'; cbn; auto.
                intros c Hc. inversion Hc; subst c. split; [| split; [exact Qtcp | rewrite HL; discriminate]].
                   unfold zlen. rewrite app_length, Lp. lia.
          -- rewrite Hreg. exact C1a.
          -- rewrite <- Hip, <- (addr_equal_same ip _ K). exact C3a.
          -- rewrite Isup, <- Hts. exact C3b. }
  destruct (q_req qr) eqn:Erq.
  - (* no OPT RR *) apply (Hnone NoOpt); auto.
  - (* OPT, no cookie yet *)
    destruct tcp' eqn:Etcp.
    + apply (Hnone OptOnly); auto. intros; discriminate.
    + apply Hudp; [discriminate | reflexivity].
  - destruct tcp' eqn:Etcp.
    + apply (Hnone OptOnly); auto. intros; discriminate.
    + apply Hudp; [discriminate | reflexivity].
Qed.

(* ------------------------------------------------------------------------------------ *)
(* new request                                                                            *)
(* ------------------------------------------------------------------------------------ *)
Lemma step_new s g q opt uc :
  Inv s g ->
  exists s' o, sys_step s (ENew q opt uc) = Ok (s', o) /\
    snd (mon_step g (ENew q opt uc) o) = [] /\ Inv s' (fst (mon_step g (ENew q opt uc) o)).
Proof.
  intros [HC HQ]. cbn [sys_step]. eexists. eexists. split; [reflexivity |].
  cbn [mon_step fst snd]. split; [reflexivity |]. split; cbn [s_ck s_q].
  - eapply invc_ext; [exact HC | reflexivity ..].
  - eapply (invq_upd (s_q s) g _ q (mk_req opt uc) 0 false false HQ); cbn; auto; try discriminate.
    unfold COOKIE_RESEND_MAX; lia.
Qed.

(* ------------------------------------------------------------------------------------ *)
(* ares_cookie_validate                                                                   *)
(* ------------------------------------------------------------------------------------ *)
Lemma invq_same qs g g' q :
  InvQ qs g -> q_sent (qs q) = true ->
  (forall x, g_req g' x = g_req g x) -> (forall x, g_bad g' x = g_bad g x) ->
  (g_last g' = None -> g_last g = None) ->
  InvQ (upd qs q (mkQ (q_req (qs q)) (q_try (qs q)) (q_tcp (qs q)) true)) g'.
Proof.
  intros HQ S E1 E2 E3.
  destruct (i_bad _ _ HQ q) as (Bg & Bt & Btcp & Bnone).
  eapply (invq_upd qs g g' q _ _ _ true HQ); auto.
  - intros x. rewrite E1. unfold upd. destruct (Nat.eqb x q) eqn:Ex; [| reflexivity].
    apply Nat.eqb_eq in Ex. subst x. apply (i_req _ _ HQ).
  - intros x. rewrite E2. unfold upd. destruct (Nat.eqb x q) eqn:Ex; [| reflexivity].
    apply Nat.eqb_eq in Ex. subst x. exact Bg.
  - intros _ c Hc. split; [exact (i_reqlen _ _ HQ q c S Hc) |]. split.
    + destruct (q_tcp (qs q)) eqn:Et; [| reflexivity]. rewrite (Bnone eq_refl S) in Hc. discriminate.
    + intros L. apply E3 in L. rewrite (i_nolast _ _ HQ L q S) in Hc. discriminate.
Qed.

Lemma lacking_ok ck g now :
  InvC ck g -> tv_ok now -> (g_reset_ok g = false -> g_last g <> None) ->
  exists ck2 st, validate_lacking ck now = Ok (ck2, st) /\
    snd (mon_nocookie g now (negb (st =? ARES_SUCCESS)) None) = [] /\
    InvC ck2 (fst (mon_nocookie g now (negb (st =? ARES_SUCCESS)) None)).
Proof.
  intros [W Isup Inoc Ilive Ireset Iini Ist] T HL.
  unfold validate_lacking, mon_nocookie. rewrite Isup.
  destruct (ck_state ck =? ARES_COOKIE_SUPPORTED) eqn:Es.
  - apply Z.eqb_eq in Es. specialize (Inoc Es).
    destruct (g_nocookie g) as [t |] eqn:En.
    + destruct Inoc as [Eu Tt]. rewrite Eu, (is_set_ok t Tt). cbn [bind].
      eexists. eexists. split; [reflexivity |]. cbn. split; [reflexivity |].
      constructor; cbn; auto.
      rewrite Es. reflexivity.
    + rewrite Inoc, is_set_zero. cbn [bind].
      eexists. eexists. split; [reflexivity |]. cbn. split; [reflexivity |].
      destruct ck as [st cl cts cip sv sl uts]. cbn in *. subst st.
      constructor; cbn; auto.
      * intros Er. specialize (Ilive Er). destruct (g_last g); [exact Ilive | discriminate Ilive].
      * intros Er. specialize (Ireset Er). destruct Ireset as [(H & _) | [H | H]]; [discriminate | discriminate | auto].
      * intros; discriminate.
  - destruct (ck_state ck =? ARES_COOKIE_GENERATED) eqn:Eg.
    + eexists. eexists. split; [reflexivity |]. cbn. split; [reflexivity |].
      constructor; cbn; try (intros; discriminate); auto.
      * repeat split; cbn; lia.
      * intros _. left. split; [reflexivity |]. split; [reflexivity | exact T].
    + eexists. eexists. split; [reflexivity |]. cbn. split; [reflexivity |].
      apply Z.eqb_neq in Es, Eg.
      constructor; cbn; auto; try (intros; contradiction); try (intros; discriminate).
      * apply Z.eqb_neq in Es. rewrite Es. reflexivity.
      * intros _. destruct (g_reset_ok g) eqn:Er; [apply Ireset; reflexivity |].
        specialize (Ilive eq_refl). specialize (HL eq_refl). destruct (g_last g); [| contradiction].
        destruct Ilive as ([H | H] & _); contradiction.
Qed.

Lemma skipn_zlen {A} (l : list A) n : zlen (skipn n l) = Z.max 0 (zlen l - Z.of_nat n).
Proof. unfold zlen. rewrite skipn_length. lia. Qed.

(* a response with a valid cookie that carries a server cookie *)
Lemma valid_ok ck g qc c :
  InvC ck g -> 8 < zlen c <= 40 -> (g_reset_ok g = false -> g_last g <> None) ->
  InvC (if bytes_eqb (ck_client (set_unsup (set_state ck ARES_COOKIE_SUPPORTED) tv_zero)) (firstn 8 qc)
        then set_server (set_unsup (set_state ck ARES_COOKIE_SUPPORTED) tv_zero) (skipn 8 c)
        else set_unsup (set_state ck ARES_COOKIE_SUPPORTED) tv_zero)
       (mkG (g_last g) (g_ip g) (g_since g) (g_reset_ok g)
            (if negb (g_reset_ok g) && match g_last g with Some p => bytes_eqb p (firstn 8 qc) | None => false end
             then skipn 8 c else g_server g) true None (g_req g) (g_bad g)).
Proof.
  intros [W Isup Inoc Ilive Ireset Iini Ist] Hc HL.
  destruct ck as [st cl cts cip sv sl uts]. unfold set_server, set_unsup, set_state.
  cbn [ck_client ck_state ck_client_ts ck_client_ip ck_server ck_server_len ck_unsup_ts] in *.
  destruct W as (W1 & W2 & W3). cbn in W1, W2, W3.
  assert (Ls : (length (skipn 8 c) <= 32)%nat) by (pose proof (skipn_zlen c 8) as H; unfold zlen in *; lia).
  assert (Hreset : g_reset_ok g = true ->
            ARES_COOKIE_SUPPORTED = ARES_COOKIE_SUPPORTED /\ cip = addr_zero /\ tv_ok0 cts).
  { intros Er. destruct (Ireset Er) as [(_ & H & _) | [H | (_ & H)]].
    - unfold cleared in H. cbn in H. inversion H. subst. repeat split; cbn; lia.
    - inversion H. subst. repeat split; cbn; lia.
    - split; [reflexivity | exact H]. }
  destruct (bytes_eqb cl (firstn 8 qc)) eqn:Ecur.
  - (* server cookie stored *)
    constructor; cbn [ck_state ck_client ck_client_ts ck_client_ip ck_server ck_server_len ck_unsup_ts
                      g_last g_ip g_since g_reset_ok g_server g_sup g_nocookie].
    + unfold wf_cookie. cbn [ck_client ck_server ck_server_len]. split; [exact W1 |]. split; [| exact Ls].
      rewrite app_length, !skipn_length. unfold zlen in Hc. lia.
    + reflexivity.
    + reflexivity.
    + intros Er. specialize (Ilive Er). specialize (HL Er). rewrite Er. cbn [negb andb].
      destruct (g_last g) as [p |]; [| contradiction].
      destruct Ilive as (_ & -> & H). rewrite Ecur.
      split; [right; reflexivity |]. split; [reflexivity |].
      destruct H as (A & B & C & D & _). repeat match goal with |- _ /\ _ => split end; auto.
      apply firstn_app_exact. reflexivity.
    + intros Er. right. right. apply Hreset. exact Er.
    + intros; discriminate.
    + auto.
  - constructor; cbn [ck_state ck_client ck_client_ts ck_client_ip ck_server ck_server_len ck_unsup_ts
                      g_last g_ip g_since g_reset_ok g_server g_sup g_nocookie].
    + repeat split; cbn; auto.
    + reflexivity.
    + reflexivity.
    + intros Er. specialize (Ilive Er). specialize (HL Er). rewrite Er. cbn [negb andb].
      destruct (g_last g) as [p |]; [| contradiction].
      destruct Ilive as (_ & -> & H). rewrite Ecur.
      split; [right; reflexivity |]. split; [reflexivity | exact H].
    + intros Er. right. right. apply Hreset. exact Er.
    + intros; discriminate.
    + auto.
Qed.

Lemma step_validate s g q rc0 rcode now :
  Inv s g -> tv_ok now ->
  exists s' o, sys_step s (EValidate q rc0 rcode now) = Ok (s', o) /\
    snd (mon_step g (EValidate q rc0 rcode now) o) = [] /\
    Inv s' (fst (mon_step g (EValidate q rc0 rcode now) o)).
Proof.
  intros [HC HQ] T. cbn [sys_step]. set (qr := s_q s q).
  destruct (q_sent qr) eqn:Es; cbn [negb].
  2:{ eexists. eexists. split; [reflexivity |]. cbn. split; [reflexivity |]. split; assumption. }
  destruct (i_bad _ _ HQ q) as (Bg & Bt & Btcp & Bnone). fold qr in Bg, Bt, Btcp, Bnone.
  pose proof (i_req _ _ HQ q) as Ereq. fold qr in Ereq.
  (* outcomes that leave the query untouched: status st, no requeue, cookie record ck', ghost g' *)
  assert (Hplain : forall X ck' st g',
            X = Ok (ck', qr, st, None) ->
            mon_validate g q rc0 rcode now st None (q_try qr) (q_tcp qr) = (g', []) ->
            InvC ck' g' -> (forall x, g_req g' x = g_req g x) -> (forall x, g_bad g' x = g_bad g x) ->
            (g_last g' = None -> g_last g = None) ->
            exists s' o, (do a <- X;
                          let '(ck'0, q', st0, rq) := a in
                          Ok (mkSys ck'0 (upd (s_q s) q (mkQ (q_req q') (q_try q') (q_tcp q') (match rq with Some _ => false | None => true end))),
                              OValidate st0 rq (q_try q') (q_tcp q'))) = Ok (s', o) /\
              snd (mon_step g (EValidate q rc0 rcode now) o) = [] /\
              Inv s' (fst (mon_step g (EValidate q rc0 rcode now) o))).
  { intros X ck' st g' E M C E1 E2 E3. rewrite E. cbn [bind]. eexists. eexists. split; [reflexivity |].
    cbn [mon_step]. rewrite M. cbn [fst snd]. split; [reflexivity |]. split; cbn [s_ck s_q]; [exact C |].
    exact (invq_same (s_q s) g g' q HQ Es E1 E2 E3). }
  assert (Hqc : forall qc, cookie_of (q_req qr) = Some qc -> 8 <= zlen qc /\ q_tcp qr = false /\ g_last g <> None).
  { intros qc Eqc. split; [exact (i_reqlen _ _ HQ q qc Es Eqc) |]. split.
    - destruct (q_tcp qr) eqn:Et; [| reflexivity]. rewrite (Bnone eq_refl Es) in Eqc. discriminate.
    - intros L. pose proof (i_nolast _ _ HQ L q Es) as X. fold qr in X. rewrite X in Eqc. discriminate. }
  unfold cookie_validate.
  destruct (norm_cookie rc0) as [c |] eqn:Erc.
  - (* response carries a cookie option *)
    destruct ((zlen c <? 8) || (zlen c >? 40)) eqn:Elen.
    + (* bad length *)
      eapply (Hplain _ (s_ck s) ARES_EBADRESP g); [reflexivity | | exact HC | auto ..].
      unfold mon_validate. rewrite Ereq, Erc.
      destruct (cookie_of (q_req qr)); [| reflexivity].
      replace ((8 <=? zlen c) && (zlen c <=? 40)) with false; [reflexivity |].
      symmetry. apply orb_true_iff in Elen as [H | H].
      * apply Z.ltb_lt in H. apply andb_false_iff. left. apply Z.leb_gt. exact H.
      * rewrite Z.gtb_ltb in H. apply Z.ltb_lt in H. apply andb_false_iff. right. apply Z.leb_gt. exact H.
    + apply orb_false_elim in Elen as [L1 L2]. apply Z.ltb_ge in L1. rewrite Z.gtb_ltb in L2. apply Z.ltb_ge in L2.
      destruct (cookie_of (q_req qr)) as [qc |] eqn:Eqc.
      2:{ eapply (Hplain _ (s_ck s) ARES_SUCCESS g); [reflexivity | | exact HC | auto ..].
          unfold mon_validate. rewrite Ereq, Erc, Eqc. reflexivity. }
      destruct (Hqc qc eq_refl) as (Lq & Qtcp & HLq).
      replace (8 <=? zlen qc) with true by (symmetry; apply Z.leb_le; exact Lq). cbn [guard bind].
      assert (L1b : (8 <=? zlen c) = true) by (apply Z.leb_le; exact L1).
      assert (L2b : (zlen c <=? 40) = true) by (apply Z.leb_le; exact L2).
      destruct (bytes_eqb (firstn 8 qc) (firstn 8 c)) eqn:Em; cbn [negb].
      2:{ (* wrong client part *)
          eapply (Hplain _ (s_ck s) ARES_EBADRESP g); [reflexivity | | exact HC | auto ..].
          unfold mon_validate. rewrite Ereq, Erc, Eqc, L1b, L2b, (bytes_eqb_sym (firstn 8 c) (firstn 8 qc)), Em. reflexivity. }
      rewrite Z.gtb_ltb.
      destruct (8 <? zlen c) eqn:Ehs.
      * (* server cookie present *)
        apply Z.ltb_lt in Ehs.
        replace (zlen c - 8 <=? 32) with true by (symmetry; apply Z.leb_le; lia).
        pose proof (valid_ok (s_ck s) g qc c HC (conj Ehs L2) (fun _ => HLq)) as HV.
        set (ck1 := if bytes_eqb (ck_client (set_unsup (set_state (s_ck s) ARES_COOKIE_SUPPORTED) tv_zero)) (firstn 8 qc)
                    then set_server (set_unsup (set_state (s_ck s) ARES_COOKIE_SUPPORTED) tv_zero) (skipn 8 c)
                    else set_unsup (set_state (s_ck s) ARES_COOKIE_SUPPORTED) tv_zero) in *.
        assert (Eck1 : (if bytes_eqb (ck_client (set_unsup (set_state (s_ck s) ARES_COOKIE_SUPPORTED) tv_zero)) (firstn 8 qc)
                        then guard true OutOfBounds (Ok (set_server (set_unsup (set_state (s_ck s) ARES_COOKIE_SUPPORTED) tv_zero) (skipn 8 c)))
                        else Ok (set_unsup (set_state (s_ck s) ARES_COOKIE_SUPPORTED) tv_zero)) = Ok ck1).
        { unfold ck1. destruct (bytes_eqb _ (firstn 8 qc)); reflexivity. }
        rewrite Eck1. cbn [bind].
        destruct (rcode =? ARES_RCODE_BADCOOKIE) eqn:Ebc.
        -- (* BADCOOKIE: resend *)
           eexists. eexists. split; [reflexivity |]. cbn [mon_step]. unfold mon_validate.
           rewrite Ereq, Erc, Eqc.
           rewrite L1b, L2b. cbn [andb].
           rewrite (bytes_eqb_sym (firstn 8 c) (firstn 8 qc)), Em. cbn [negb].
           replace (8 <? zlen c) with true by (symmetry; apply Z.ltb_lt; exact Ehs).
           rewrite Ebc. cbn [set_try q_try q_tcp q_req fst snd].
           assert (Ht : (q_try qr + 1) mod 2 ^ 64 = q_try qr + 1).
           { apply Z.mod_small. unfold COOKIE_RESEND_MAX in Bt. lia. }
           assert (Hlt : q_try qr < COOKIE_RESEND_MAX).
           { rewrite Qtcp in Btcp. symmetry in Btcp. apply Z.leb_gt in Btcp. exact Btcp. }
           rewrite Ht, Bg. rewrite Z.geb_leb.
           replace (q_try qr + 1 <=? COOKIE_RESEND_MAX) with true by (symmetry; apply Z.leb_le; lia).
           rewrite !Z.eqb_refl. rewrite Qtcp.
           assert (Hb : Bool.eqb (if COOKIE_RESEND_MAX <=? q_try qr + 1 then true else false) (COOKIE_RESEND_MAX <=? q_try qr + 1) = true)
             by (destruct (COOKIE_RESEND_MAX <=? q_try qr + 1); reflexivity).
           rewrite Hb. cbn. split; [reflexivity |]. split; cbn [s_ck s_q].
           ++ eapply invc_ext; [exact HV | reflexivity ..].
           ++ eapply (invq_upd (s_q s) g _ q (q_req qr) (q_try qr + 1) _ false HQ); cbn; auto; try discriminate.
              ** intros x. unfold upd. destruct (Nat.eqb x q) eqn:Ex; [| reflexivity].
                 apply Nat.eqb_eq in Ex. subst x. exact Ereq.
              ** lia.
              ** destruct (COOKIE_RESEND_MAX <=? q_try qr + 1); reflexivity.
        -- (* accepted *)
           replace (zlen c >? 8) with true by (symmetry; rewrite Z.gtb_ltb; apply Z.ltb_lt; exact Ehs).
           eapply (Hplain _ ck1 ARES_SUCCESS); [reflexivity | | exact HV | cbn; auto ..].
           unfold mon_validate. rewrite Ereq, Erc, Eqc, L1b, L2b, (bytes_eqb_sym (firstn 8 c) (firstn 8 qc)), Em. cbn [andb negb].
           replace (8 <? zlen c) with true by (symmetry; apply Z.ltb_lt; exact Ehs). rewrite Ebc. reflexivity.
      * (* client part only *)
        cbn [bind].
        destruct (rcode =? ARES_RCODE_BADCOOKIE) eqn:Ebc.
        -- eexists. eexists. split; [reflexivity |]. cbn [mon_step]. unfold mon_validate.
           rewrite Ereq, Erc, Eqc.
           rewrite L1b, L2b. cbn [andb].
           rewrite (bytes_eqb_sym (firstn 8 c) (firstn 8 qc)), Em. cbn [negb].
           rewrite Ehs, Ebc. cbn [set_try q_try q_tcp q_req fst snd].
           assert (Ht : (q_try qr + 1) mod 2 ^ 64 = q_try qr + 1).
           { apply Z.mod_small. unfold COOKIE_RESEND_MAX in Bt. lia. }
           assert (Hlt : q_try qr < COOKIE_RESEND_MAX).
           { rewrite Qtcp in Btcp. symmetry in Btcp. apply Z.leb_gt in Btcp. exact Btcp. }
           rewrite Ht, Bg. rewrite Z.geb_leb.
           replace (q_try qr + 1 <=? COOKIE_RESEND_MAX) with true by (symmetry; apply Z.leb_le; lia).
           rewrite !Z.eqb_refl. rewrite Qtcp.
           assert (Hb : Bool.eqb (if COOKIE_RESEND_MAX <=? q_try qr + 1 then true else false) (COOKIE_RESEND_MAX <=? q_try qr + 1) = true)
             by (destruct (COOKIE_RESEND_MAX <=? q_try qr + 1); reflexivity).
           rewrite Hb. cbn. split; [reflexivity |]. split; cbn [s_ck s_q].
           ++ eapply invc_ext; [exact HC | reflexivity ..].
           ++ eapply (invq_upd (s_q s) g _ q (q_req qr) (q_try qr + 1) _ false HQ); cbn; auto; try discriminate.
              ** intros x. unfold upd. destruct (Nat.eqb x q) eqn:Ex; [| reflexivity].
                 apply Nat.eqb_eq in Ex. subst x. exact Ereq.
              ** lia.
              ** destruct (COOKIE_RESEND_MAX <=? q_try qr + 1); reflexivity.
        -- replace (zlen c >? 8) with false by (symmetry; rewrite Z.gtb_ltb; exact Ehs).
           destruct (lacking_ok (s_ck s) g now HC T (fun _ => HLq)) as (ck2 & st & EL & ML & CL).
           rewrite EL. cbn [bind].
           destruct (mon_nocookie g now (negb (st =? ARES_SUCCESS)) None) as [g' v] eqn:EM. cbn [fst snd] in ML, CL. subst v.
           eexists. eexists. split; [reflexivity |]. cbn [mon_step]. unfold mon_validate.
           rewrite Ereq, Erc, Eqc.
           rewrite L1b, L2b. cbn [andb].
           rewrite (bytes_eqb_sym (firstn 8 c) (firstn 8 qc)), Em. cbn [negb].
           rewrite Ehs, Ebc, EM. cbn [fst snd]. split; [reflexivity |]. split; cbn [s_ck s_q]; [exact CL |].
           unfold mon_nocookie in EM.
           apply (invq_same (s_q s) g g' q HQ Es); destruct (g_sup g); inversion EM; subst g'; cbn; auto.
  - (* no cookie option in the response *)
    destruct (cookie_of (q_req qr)) as [qc |] eqn:Eqc.
    2:{ eapply (Hplain _ (s_ck s) ARES_SUCCESS g); [reflexivity | | exact HC | auto ..].
        unfold mon_validate. rewrite Ereq, Erc, Eqc. reflexivity. }
    destruct (Hqc qc eq_refl) as (Lq & Qtcp & HLq).
    cbn [bind].
    destruct (rcode =? ARES_RCODE_BADCOOKIE) eqn:Ebc.
    + eapply (Hplain _ (s_ck s) ARES_EBADRESP g); [reflexivity | | exact HC | auto ..].
      unfold mon_validate. rewrite Ereq, Erc, Eqc, Ebc. reflexivity.
    + change (0 >? 8) with false. cbn iota.
      destruct (lacking_ok (s_ck s) g now HC T (fun _ => HLq)) as (ck2 & st & EL & ML & CL).
      rewrite EL. cbn [bind].
      destruct (mon_nocookie g now (negb (st =? ARES_SUCCESS)) None) as [g' v] eqn:EM. cbn [fst snd] in ML, CL. subst v.
      eexists. eexists. split; [reflexivity |]. cbn [mon_step]. unfold mon_validate.
      rewrite Ereq, Erc, Eqc, Ebc, EM. cbn [fst snd]. split; [reflexivity |]. split; cbn [s_ck s_q]; [exact CL |].
      unfold mon_nocookie in EM.
      apply (invq_same (s_q s) g g' q HQ Es); destruct (g_sup g); inversion EM; subst g'; cbn; auto.
Qed.

(* ------------------------------------------------------------------------------------ *)
(* Histories                                                                              *)
(* ------------------------------------------------------------------------------------ *)
Lemma step_inv s g e :
  Inv s g -> wf_event e ->
  exists s' o, sys_step s e = Ok (s', o) /\ snd (mon_step g e o) = [] /\ Inv s' (fst (mon_step g e o)).
Proof.
  intros I W. destruct e as [q opt uc | q tcp ip now rnd | q rc rcode now].
  - apply step_new; assumption.
  - destruct W as (K & T & R). apply step_apply; assumption.
  - apply step_validate; assumption.
Qed.

Lemma run_clean evs : forall s g, Inv s g -> Forall wf_event evs -> run s g evs = Ok [].
Proof.
  induction evs as [| e rest IH]; intros s g I W; [reflexivity |].
  inversion W as [| ? ? We Wr]; subst.
  destruct (step_inv s g e I We) as (s' & o & E & V & I').
  cbn [run]. rewrite E. cbn [bind].
  destruct (mon_step g e o) as [g' v]. cbn [fst snd] in V, I'. subst v.
  rewrite (IH s' g' I' Wr). reflexivity.
Qed.

Lemma run_from_init evs : Forall wf_event evs -> run sys_init ghost_init evs = Ok [].
Proof. intros W. apply run_clean; [exact inv_init | exact W]. Qed.

(* the violations reported by [run] are exactly those of [judge] on the model's trace *)
Lemma run_exec_judge evs : forall s g vs,
  run s g evs = Ok vs -> exists os, exec s evs = Ok os /\ judge g evs os = vs.
Proof.
  induction evs as [| e rest IH]; intros s g vs H; cbn [run exec judge] in *.
  - inversion H. exists []. split; reflexivity.
  - destruct (sys_step s e) as [[s' o] | |]; cbn [bind] in *; try discriminate.
    destruct (mon_step g e o) as [g' v] eqn:EM.
    destruct (run s' g' rest) as [vs' | |] eqn:ER; cbn [bind] in *; try discriminate.
    inversion H; subst vs.
    destruct (IH s' g' vs' ER) as (os & E & J).
    exists (o :: os). rewrite E. cbn [bind]. split; [reflexivity |].
    cbn [judge]. rewrite EM, J. reflexivity.
Qed.

Theorem history_clean evs :
  Forall wf_event evs -> exists os, exec sys_init evs = Ok os /\ judge ghost_init evs os = [].
Proof. intros W. apply run_exec_judge. apply run_from_init. exact W. Qed.

(* ------------------------------------------------------------------------------------ *)
(* Explicit (monitor-free) corollaries                                                    *)
(* ------------------------------------------------------------------------------------ *)
Lemma apply_never_on_tcp : forall ck rq ip now rnd ck' rq' st n,
  cookie_apply ck rq true ip now rnd = Ok (ck', rq', st, n) -> cookie_of rq' = None /\ ck' = ck.
Proof.
  intros ck rq ip now rnd ck' rq' st n H. unfold cookie_apply in H.
  destruct rq; inversion H; subst; auto.
Qed.

Lemma exec_never_on_tcp evs : forall s os,
  exec s evs = Ok os -> forall st r n, In (OApply true st r n) os -> cookie_of r = None.
Proof.
  induction evs as [| e rest IH]; intros s os H st r n HIn; cbn [exec] in H.
  - inversion H; subst. contradiction.
  - destruct (sys_step s e) as [[s' o] | |] eqn:E; cbn [bind] in H; try discriminate.
    destruct (exec s' rest) as [os' | |] eqn:E'; cbn [bind] in H; try discriminate.
    inversion H; subst os. destruct HIn as [HIn | HIn]; [| eapply IH; eauto].
    subst o. destruct e as [q opt uc | q tcp ip now rnd | q rc rcode now]; cbn [sys_step] in E.
    + inversion E.
    + destruct (cookie_apply (s_ck s) (q_req (s_q s q)) (tcp || q_tcp (s_q s q)) ip now rnd) as [[[[ck' r'] st'] n'] | |] eqn:EA;
        cbn [bind] in E; try discriminate.
      inversion E; subst. rewrite H2 in EA. apply apply_never_on_tcp in EA. tauto.
    + destruct (negb (q_sent (s_q s q))); [inversion E |].
      destruct (cookie_validate (s_ck s) (s_q s q) rc rcode now) as [[[[ck' q'] st'] rq] | |]; cbn [bind] in E; inversion E.
Qed.

(* whenever ares_cookie_validate calls ares_requeue_query *)
Lemma validate_requeue ck q rc rcode now ck' q' st rq :
  cookie_validate ck q rc rcode now = Ok (ck', q', st, Some rq) ->
  rq = (ARES_SUCCESS, ARES_FALSE) /\ st = ARES_EBADRESP /\ rcode = ARES_RCODE_BADCOOKIE /\
  cookie_of (q_req q) <> None /\
  q_try q' = (q_try q + 1) mod 2 ^ 64 /\
  q_tcp q' = (if q_try q' >=? COOKIE_RESEND_MAX then true else q_tcp q) /\ q_req q' = q_req q.
Proof.
  unfold cookie_validate. intros H.
  destruct (match norm_cookie rc with Some _ => _ | None => false end); [discriminate |].
  destruct (cookie_of (q_req q)) as [qc |] eqn:Eqc; [| discriminate].
  destruct (match norm_cookie rc with Some c => _ | None => Ok false end) as [mism | |]; cbn [bind] in H; try discriminate.
  destruct mism; [discriminate |].
  destruct (match norm_cookie rc with Some c => _ | None => Ok ck end) as [ck1 | |]; cbn [bind] in H; try discriminate.
  destruct (rcode =? ARES_RCODE_BADCOOKIE) eqn:Ebc.
  - destruct (norm_cookie rc); [| discriminate]. inversion H; subst. cbn.
    apply Z.eqb_eq in Ebc. repeat split; auto. discriminate.
  - destruct (_ >? 8); [discriminate |].
    destruct (validate_lacking ck1 now) as [[ck2 st2] | |]; cbn [bind] in H; discriminate.
Qed.

Definition requeue_ok (o : obs) : Prop :=
  match o with
  | OValidate st (Some rq) try utcp =>
    rq = (ARES_SUCCESS, ARES_FALSE) /\ st = ARES_EBADRESP /\
    1 <= try <= COOKIE_RESEND_MAX /\ utcp = (COOKIE_RESEND_MAX <=? try)
  | _ => True
  end.

Lemma step_requeue_ok s g e s' o : Inv s g -> sys_step s e = Ok (s', o) -> requeue_ok o.
Proof.
  intros [HC HQ] E. destruct e as [q opt uc | q tcp ip now rnd | q rc rcode now]; cbn [sys_step] in E.
  - inversion E. exact I.
  - destruct (cookie_apply _ _ _ _ _ _) as [[[[ck' r'] st'] n'] | |]; cbn [bind] in E; inversion E. exact I.
  - destruct (q_sent (s_q s q)) eqn:Es; cbn [negb] in E; [| inversion E; exact I].
    destruct (cookie_validate (s_ck s) (s_q s q) rc rcode now) as [[[[ck' q'] st'] rq] | |] eqn:EV; cbn [bind] in E; try discriminate.
    inversion E; subst. destruct rq as [rq |]; [| exact I].
    destruct (validate_requeue _ _ _ _ _ _ _ _ _ EV) as (R1 & R2 & _ & R4 & R5 & R6 & _).
    destruct (i_bad _ _ HQ q) as (_ & Bt & Btcp & Bnone).
    assert (Qtcp : q_tcp (s_q s q) = false).
    { destruct (q_tcp (s_q s q)) eqn:Et; [| reflexivity]. exfalso. apply R4. apply Bnone; auto. }
    rewrite Qtcp in Btcp. symmetry in Btcp. apply Z.leb_gt in Btcp.
    assert (Ht : q_try q' = q_try (s_q s q) + 1).
    { rewrite R5. apply Z.mod_small. unfold COOKIE_RESEND_MAX in *. lia. }
    cbn. split; [exact R1 |]. split; [exact R2 |]. split; [lia |].
    rewrite R6, Qtcp, Z.geb_leb. destruct (COOKIE_RESEND_MAX <=? q_try q'); reflexivity.
Qed.

Lemma exec_requeue_ok evs : forall s g os,
  Inv s g -> Forall wf_event evs -> exec s evs = Ok os -> Forall requeue_ok os.
Proof.
  induction evs as [| e rest IH]; intros s g os I W H; cbn [exec] in H.
  - inversion H. constructor.
  - inversion W as [| ? ? We Wr]; subst.
    destruct (step_inv s g e I We) as (s' & o & E & _ & I').
    rewrite E in H. cbn [bind] in H.
    destruct (exec s' rest) as [os' | |] eqn:E'; cbn [bind] in H; try discriminate.
    inversion H; subst os. constructor.
    + exact (step_requeue_ok s g e s' o I E).
    + exact (IH s' _ os' I' Wr E').
Qed.

(* a server that never returns cookies: the monitor alone implies every response is accepted *)
Definition plain_response (e : event) : Prop :=
  match e with EValidate _ rc rcode _ => norm_cookie rc = None /\ rcode <> ARES_RCODE_BADCOOKIE | _ => True end.
Definition accepted (o : obs) : Prop :=
  match o with OValidate st rq _ _ => st = ARES_SUCCESS | _ => True end.
Definition obs_matches (e : event) (o : obs) : Prop :=
  match e, o with
  | ENew _ _ _, ONew _ | EApply _ _ _ _ _, OApply _ _ _ _ | EValidate _ _ _ _, OValidate _ _ _ _ | EValidate _ _ _ _, OIgnored => True
  | _, _ => False
  end.

Lemma step_matches s e s' o : sys_step s e = Ok (s', o) -> obs_matches e o.
Proof.
  intros E. destruct e as [q opt uc | q tcp ip now rnd | q rc rcode now]; cbn [sys_step] in E.
  - inversion E. exact I.
  - destruct (cookie_apply _ _ _ _ _ _) as [[[[ck' r'] st'] n'] | |]; cbn [bind] in E; inversion E. exact I.
  - destruct (negb (q_sent (s_q s q))); [inversion E; exact I |].
    destruct (cookie_validate _ _ _ _ _) as [[[[ck' q'] st'] rq] | |]; cbn [bind] in E; inversion E. exact I.
Qed.

Lemma exec_matches evs : forall s os, exec s evs = Ok os -> Forall2 obs_matches evs os.
Proof.
  induction evs as [| e rest IH]; intros s os H; cbn [exec] in H.
  - inversion H. constructor.
  - destruct (sys_step s e) as [[s' o] | |] eqn:E; cbn [bind] in H; try discriminate.
    destruct (exec s' rest) as [os' | |] eqn:E'; cbn [bind] in H; try discriminate.
    inversion H. constructor; [eapply step_matches; eauto | eapply IH; eauto].
Qed.

Lemma judge_usable evs : forall g os,
  Forall2 obs_matches evs os ->
  g_sup g = false -> Forall plain_response evs -> judge g evs os = [] -> Forall accepted os.
Proof.
  induction evs as [| e rest IH]; intros g os Hm Hs P J; inversion Hm as [| ? o ? os' Mo Mr]; subst; constructor.
  - cbn [judge] in J. destruct (mon_step g e o) as [g' v] eqn:EM.
    apply app_eq_nil in J as [-> J]. clear IH.
    inversion P as [| ? ? Pe Pr]; subst.
    destruct e as [q opt uc | q tcp ip now rnd | q rc rcode now]; destruct o; try exact I; try contradiction.
    cbn [mon_step] in EM. unfold mon_validate in EM. destruct Pe as [Pn Pb]. rewrite Pn in EM.
    apply Z.eqb_neq in Pb. rewrite Pb in EM. unfold mon_nocookie in EM. rewrite Hs in EM.
    cbn. destruct (st =? ARES_SUCCESS) eqn:Est; [apply Z.eqb_eq; exact Est |].
    cbn in EM. destruct (cookie_of (g_req g q)); inversion EM.
  - cbn [judge] in J. destruct (mon_step g e o) as [g' v] eqn:EM.
    apply app_eq_nil in J as [-> J].
    inversion P as [| ? ? Pe Pr]; subst.
    apply (IH g'); auto.
    destruct e as [q opt uc | q tcp ip now rnd | q rc rcode now]; destruct o; try contradiction; cbn [mon_step] in EM; try (inversion EM; subst; auto; fail).
    + unfold mon_apply in EM.
      destruct tcp0; [inversion EM; subst; exact Hs |].
      destruct r; try (inversion EM; subst; exact Hs).
      destruct (zlen c <? 8); [inversion EM; subst; exact Hs |].
      rewrite Hs in EM. cbn [andb] in EM.
      match type of EM with ((if ?b then _ else _), _) = _ => destruct b end; inversion EM; subst; reflexivity.
    + unfold mon_validate in EM. destruct Pe as [Pn Pb]. rewrite Pn in EM.
      apply Z.eqb_neq in Pb. rewrite Pb in EM. unfold mon_nocookie in EM. rewrite Hs in EM.
      destruct (cookie_of (g_req g q)); inversion EM; subst; auto.
Qed.

(* ------------------------------------------------------------------------------------ *)
(* Statements used by Properties_C17.v                                                    *)
(* ------------------------------------------------------------------------------------ *)
Lemma clean_kind k evs :
  Forall wf_event evs -> exists os, exec sys_init evs = Ok os /\ ~ In k (judge ghost_init evs os).
Proof.
  intros W. destruct (history_clean evs W) as (os & E & J). exists os. split; [exact E |]. rewrite J. intros [].
Qed.

Lemma never_on_tcp_all evs os :
  exec sys_init evs = Ok os -> forall st r n, In (OApply true st r n) os -> cookie_of r = None.
Proof. apply exec_never_on_tcp. Qed.

Lemma badcookie_bound_all evs :
  Forall wf_event evs -> exists os, exec sys_init evs = Ok os /\ Forall requeue_ok os.
Proof.
  intros W. destruct (history_clean evs W) as (os & E & _). exists os. split; [exact E |].
  exact (exec_requeue_ok evs sys_init ghost_init os inv_init W E).
Qed.

Lemma unsupported_usable_all evs :
  Forall wf_event evs -> Forall plain_response evs ->
  exists os, exec sys_init evs = Ok os /\ Forall accepted os.
Proof.
  intros W P. destruct (history_clean evs W) as (os & E & J). exists os. split; [exact E |].
  apply (judge_usable evs ghost_init os (exec_matches evs sys_init os E) eq_refl P J).
Qed.

Lemma badcookie_monitor_all evs :
  Forall wf_event evs -> exists os, exec sys_init evs = Ok os /\
    ~ In V_badcookie (judge ghost_init evs os) /\ ~ In V_badcookie_bound (judge ghost_init evs os).
Proof.
  intros W. destruct (history_clean evs W) as (os & E & J). exists os. rewrite J. repeat split; auto.
Qed.

(* a history on a clock aligned to whole seconds (usec = 0): learn support, lose it, recover after
   the regression period, fall back to "unsupported" *)
Definition ex_ip : addr := mkAddr AF_INET [192; 168; 0; 1; 0; 0; 0; 0; 0; 0; 0; 0; 0; 0; 0; 0].
Definition ex_rnd (b : Z) : nat -> list Z := fun _ => [b; 2; 3; 4; 5; 6; 7; 8].
Definition ex_srv : list Z := [161; 162; 163; 164; 165; 166; 167; 168].
Definition ex_history : list event :=
  [ EApply 0 false ex_ip (mkTv 1000 0) (ex_rnd 1);
    EValidate 0 (Some ([1; 2; 3; 4; 5; 6; 7; 8] ++ ex_srv)) 0 (mkTv 1000 500000);
    EApply 1 false ex_ip (mkTv 1001 0) (ex_rnd 9);
    EValidate 1 None 0 (mkTv 1002 0);
    EApply 2 false ex_ip (mkTv 1121 999999) (ex_rnd 10);
    EApply 2 false ex_ip (mkTv 1122 0) (ex_rnd 11);
    EValidate 2 None 0 (mkTv 1123 0);
    EApply 3 false ex_ip (mkTv 1124 0) (ex_rnd 12);
    EApply 3 true ex_ip (mkTv 1125 0) (ex_rnd 13) ].

Lemma ex_history_wf : Forall wf_event ex_history.
Proof.
  unfold ex_history.
  repeat (constructor; [cbn; unfold ip_known, tv_ok; cbn; repeat split; auto; try lia |]).
  constructor.
Qed.

Lemma ex_history_exec :
  exec sys_init ex_history = Ok
    [ OApply false ARES_SUCCESS (OptCookie [1; 2; 3; 4; 5; 6; 7; 8]) 1;
      OValidate ARES_SUCCESS None 0 false;
      OApply false ARES_SUCCESS (OptCookie ([1; 2; 3; 4; 5; 6; 7; 8] ++ ex_srv)) 0;
      OValidate ARES_EBADRESP None 0 false;
      OApply false ARES_SUCCESS (OptCookie ([1; 2; 3; 4; 5; 6; 7; 8] ++ ex_srv)) 0;
      OApply false ARES_SUCCESS (OptCookie [11; 2; 3; 4; 5; 6; 7; 8]) 1;
      OValidate ARES_SUCCESS None 0 false;
      OApply false ARES_SUCCESS OptOnly 0;
      OApply true ARES_SUCCESS OptOnly 0 ].
Proof. vm_compute. reflexivity. Qed.

(* source address unknown (AF_UNSPEC: the application's socket functions have no getsockname):
   the client cookie is regenerated on every transmission *)
Definition wf_event_any (e : event) : Prop :=
  match e with
  | EApply _ _ ip now rnd =>
    (a_family ip = AF_UNSPEC \/ a_family ip = AF_INET \/ a_family ip = AF_INET6) /\ length (a_data ip) = 16%nat /\
    tv_ok now /\ forall n, length (rnd n) = 8%nat
  | e => wf_event e
  end.

Definition unspec_history : list event :=
  [ EApply 0 false addr_zero (mkTv 1000 1) (fun n => [Z.of_nat n; 2; 3; 4; 5; 6; 7; 8]);
    EApply 0 false addr_zero (mkTv 1001 1) (fun n => [Z.of_nat n; 9; 9; 9; 9; 9; 9; 9]) ].

Lemma unspec_refuted :
  exists evs, Forall wf_event_any evs /\ run sys_init ghost_init evs = Ok [V_client_unstable].
Proof.
  exists unspec_history. split.
  - unfold unspec_history. repeat (constructor; [cbn; unfold tv_ok; cbn; repeat split; auto; try lia |]). constructor.
  - vm_compute. reflexivity.
Qed.
