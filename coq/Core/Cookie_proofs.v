(* C17 - proofs about the cookie model (coq/Core/Cookie.v) against the monitor (CookieSpec.v). *)
From CAres.Base Require Import CInt.
From CAres.Gen Require Import Consts LeafFns.
From CAres.Core Require Import Cookie CookieSpec.
Local Open Scope Z_scope.

Lemma apply_never_on_tcp : forall ck rq ip now rnd ck' rq' st n,
  cookie_apply ck rq true ip now rnd = Ok (ck', rq', st, n) -> cookie_of rq' = None /\ ck' = ck.
Proof.
  intros ck rq ip now rnd ck' rq' st n H. unfold cookie_apply in H.
  destruct rq; inversion H; subst; auto.
Qed.
