(* C01: conservation of request tokens in the fixed lifecycle model.

   Every token handed to an entry point is, at any time, exactly one of: delivered (its callback
   has been invoked), held by a linked query (through its callback closure), or carried by a
   function that is running (in a closure argument).  Tokens of requests that callbacks will
   make later (pending scripts) are all different from those.  TokInv s RC RF states this for
   state s, the requested tokens RC carried by the running functions and the not yet requested
   tokens RF carried by them. *)
From Coq Require Import List ZArith Lia Bool Arith Permutation.
Import ListNotations.
From CAres.Base Require Import Outcome.
From CAres.Gen Require Import Consts.
From CAres.Core Require Import LifecycleMonitor Lifecycle Lifecycle_inv.

Definition cb_toks (tr : list event) : list tok := flat_map (fun e => match e with EvCb t _ => [t] | _ => [] end) tr.
Definition req_toks (tr : list event) : list tok := flat_map (fun e => match e with EvReq t => [t] | _ => [] end) tr.
Definition deliv (s : state) : list tok := cb_toks (st_trace s).
Definition reqd (s : state) : list tok := req_toks (st_trace s).

Definition call_toks (c : call) : list tok :=
  match c with
  | ASync t _ | ASend t | ASendRaw t | AQuery t | AOQuery t _ | ASearch t _ | AOSearch t _
  | AGhba t _ | AGni t _ _ | AGai t _ _ _ _ | AGhbn t _ _ _ _ => [t]
  | ACancel | ANop => []
  end.
Definition calls_toks (l : list call) : list tok := flat_map call_toks l.
Definition futr (s : state) : list tok := flat_map (fun p => calls_toks (snd p)) (st_scripts s).

Definition qtoks (s : state) (qo : obj) : list tok :=
  match cell_of s qo with Some (CQuery q) => ctoks (q_cb q) | _ => [] end.
Definition held (s : state) : list tok := flat_map (qtoks s) (linked s).

(* the trace so far (stored reversed) satisfies at_most_once *)
Definition amo (s : state) : Prop := at_most_once (rev (st_trace s)).

Record TokInv (s : state) (RC RF : list tok) : Prop := {
  ti_nodup : NoDup (reqd s ++ futr s ++ RF);
  ti_perm : Permutation (reqd s) (deliv s ++ held s ++ RC);
  ti_amo : amo s;
  ti_keys : NoDup (map fst (st_scripts s));
  ti_live : forall e, In e (st_trace s) -> e <> EvDestroyEnd /\ e <> EvEnd   (* ares_destroy has not returned *)
}.

(* ---- counting ---- *)
Lemma count_req_rev tr t : count_req (rev tr) t = count_req tr t.
Proof.
  unfold count_req. induction tr as [|e tr IH]; simpl; auto.
  rewrite filter_app, app_length, IH. simpl.
  destruct (match e with EvReq t' => Nat.eqb t t' | _ => false end); simpl; lia.
Qed.
Lemma count_cb_rev tr t : count_cb (rev tr) t = count_cb tr t.
Proof.
  unfold count_cb. induction tr as [|e tr IH]; simpl; auto.
  rewrite filter_app, app_length, IH. simpl.
  destruct (match e with EvCb t' _ => Nat.eqb t t' | _ => false end); simpl; lia.
Qed.

Lemma count_req_in tr t : In t (req_toks tr) -> 1 <= count_req tr t.
Proof.
  unfold count_req, req_toks. induction tr as [|e tr IH]; simpl; [tauto|].
  intros H. apply in_app_or in H. destruct H as [H|H].
  - destruct e; simpl in H; try tauto. destruct H as [<-|[]]. rewrite Nat.eqb_refl. simpl. lia.
  - specialize (IH H). destruct (match e with EvReq t' => Nat.eqb t t' | _ => false end); simpl; lia.
Qed.
Lemma count_cb_notin tr t : ~ In t (cb_toks tr) -> count_cb tr t = 0.
Proof.
  unfold count_cb, cb_toks. induction tr as [|e tr IH]; simpl; auto.
  intros H. destruct e; simpl in *; try (apply IH; intros H'; apply H; auto).
  destruct (Nat.eqb t t0) eqn:E.
  - apply Nat.eqb_eq in E. subst. exfalso. apply H. left; auto.
  - simpl. apply IH. intros H'. apply H. right; auto.
Qed.

(* appending an event to a trace with at_most_once *)
Lemma amo_snoc_other tr e : (forall t st, e <> EvCb t st) -> at_most_once tr -> at_most_once (tr ++ [e]).
Proof.
  intros He H pre t st post E.
  destruct post as [|x post'] using rev_ind.
  - apply app_inj_tail in E. destruct E as [_ E]. exfalso. eapply He; eauto.
  - rewrite app_comm_cons, app_assoc in E. apply app_inj_tail in E. destruct E as [E _].
    eapply H; eauto.
Qed.

Lemma amo_snoc_cb tr t st : at_most_once tr -> count_cb tr t < count_req tr t -> at_most_once (tr ++ [EvCb t st]).
Proof.
  intros H Hc pre t' st' post E.
  destruct post as [|x post'] using rev_ind.
  - apply app_inj_tail in E. destruct E as [E1 E2]. inversion E2; subst. exact Hc.
  - rewrite app_comm_cons, app_assoc in E. apply app_inj_tail in E. destruct E as [E _].
    eapply H; eauto.
Qed.

(* ---- how the five token-moving steps change TokInv ---- *)
Lemma perm_nodup_app {A} (l l' r : list A) : Permutation l l' -> NoDup (l ++ r) -> NoDup (l' ++ r).
Proof. intros P H. eapply Permutation_NoDup; [|exact H]. apply Permutation_app_tail. exact P. Qed.

(* states with the same trace, scripts, linked queries and callbacks *)
Lemma tokinv_same s s' RC RF :
  st_trace s' = st_trace s -> st_scripts s' = st_scripts s -> held s' = held s ->
  TokInv s RC RF -> TokInv s' RC RF.
Proof.
  intros Et Es Eh [H1 H2 H3 H4 H5].
  assert (Er : reqd s' = reqd s) by (unfold reqd; rewrite Et; reflexivity).
  assert (Ed : deliv s' = deliv s) by (unfold deliv; rewrite Et; reflexivity).
  assert (Ef : futr s' = futr s) by (unfold futr; rewrite Es; reflexivity).
  constructor.
  - rewrite Er, Ef. exact H1.
  - rewrite Er, Ed, Eh. exact H2.
  - unfold amo. rewrite Et. exact H3.
  - rewrite Es. exact H4.
  - rewrite Et. exact H5.
Qed.

Lemma tokinv_perm s RC RC' RF RF' :
  Permutation RC RC' -> Permutation RF RF' -> TokInv s RC RF -> TokInv s RC' RF'.
Proof.
  intros P1 P2 [H1 H2 H3 H4 H5]. constructor; auto.
  - eapply Permutation_NoDup; [|exact H1]. apply Permutation_app_head. apply Permutation_app_head. exact P2.
  - rewrite H2. apply Permutation_app_head. apply Permutation_app_head. exact P1.
Qed.

(* emit (EvReq t): t moves from the unrequested carried tokens to the requested carried ones *)
Lemma tokinv_emit_req s t RC RF :
  TokInv s RC (t :: RF) -> TokInv (set_trace (EvReq t :: st_trace s) s) (t :: RC) RF.
Proof.
  intros [H1 H2 H3 H4 H5]. constructor; [| | |exact H4|].
  4: { simpl. intros e [<-|He]; [split; discriminate|auto]. }
  - unfold reqd, futr. simpl. fold (reqd s). fold (futr s).
    eapply Permutation_NoDup; [|exact H1].
    rewrite !app_assoc. symmetry. apply Permutation_cons_app. reflexivity.
  - unfold reqd, deliv, held. simpl. fold (reqd s). fold (deliv s).
    change (flat_map (qtoks (set_trace (EvReq t :: st_trace s) s)) (linked (set_trace (EvReq t :: st_trace s) s))) with (held s).
    rewrite H2. rewrite !app_assoc. apply Permutation_cons_app. reflexivity.
  - unfold amo. simpl. apply amo_snoc_other; auto. intros; discriminate.
Qed.

(* emit (EvCb t st): t moves from the requested carried tokens to the delivered ones *)
Lemma tokinv_emit_cb s t st RC RF :
  TokInv s (t :: RC) RF -> TokInv (set_trace (EvCb t st :: st_trace s) s) RC RF.
Proof.
  intros [H1 H2 H3 H4 H5]. constructor; [| | |exact H4|].
  4: { simpl. intros e [<-|He]; [split; discriminate|auto]. }
  - exact H1.
  - unfold reqd, deliv, held. simpl. fold (reqd s). fold (deliv s).
    change (flat_map (qtoks (set_trace (EvCb t st :: st_trace s) s)) (linked (set_trace (EvCb t st :: st_trace s) s))) with (held s).
    rewrite H2. rewrite !app_assoc. symmetry. apply Permutation_cons_app. reflexivity.
  - unfold amo. simpl. apply amo_snoc_cb; auto.
    rewrite count_cb_rev, count_req_rev.
    assert (Hn : NoDup (deliv s ++ held s ++ t :: RC)).
    { eapply Permutation_NoDup; [exact H2|]. apply NoDup_app_iff in H1. tauto. }
    assert (Hin : In t (reqd s)).
    { eapply Permutation_in; [symmetry; exact H2|]. apply in_or_app. right. apply in_or_app. right. left. reflexivity. }
    assert (Hnd : ~ In t (deliv s)).
    { apply NoDup_app_iff in Hn. destruct Hn as [_ [_ Hd]]. intros Hd'. apply (Hd _ Hd').
      apply in_or_app. right. left. reflexivity. }
    rewrite (count_cb_notin _ _ Hnd). pose proof (count_req_in _ _ Hin). lia.
Qed.

(* other events *)
Lemma tokinv_emit_other s e RC RF :
  (forall t, e <> EvReq t) -> (forall t st, e <> EvCb t st) -> e <> EvDestroyEnd -> e <> EvEnd ->
  TokInv s RC RF -> TokInv (set_trace (e :: st_trace s) s) RC RF.
Proof.
  intros He1 He2 He3 He4 [H1 H2 H3 H4 H5].
  assert (Er : reqd (set_trace (e :: st_trace s) s) = reqd s).
  { unfold reqd. simpl. destruct e; auto. exfalso. eapply He1; eauto. }
  assert (Ed : deliv (set_trace (e :: st_trace s) s) = deliv s).
  { unfold deliv. simpl. destruct e; auto. exfalso. eapply He2; eauto. }
  constructor; [| | |exact H4|].
  4: { simpl. intros e' [<-|He]; [split; auto|auto]. }
  - rewrite Er. exact H1.
  - rewrite Er, Ed. exact H2.
  - unfold amo. simpl. apply amo_snoc_other; auto.
Qed.

(* the tape does not matter *)
Lemma tokinv_set_tape s l RC RF : TokInv s RC RF -> TokInv (set_tape l s) RC RF.
Proof. apply tokinv_same; reflexivity. Qed.

(* scripts: removing the script of t moves its tokens to the carried unrequested ones *)
Lemma futr_remove_key t (scr : list (tok * list call)) l :
  NoDup (map fst scr) -> lookup t scr = Some l ->
  Permutation (flat_map (fun p => calls_toks (snd p)) scr)
              (calls_toks l ++ flat_map (fun p => calls_toks (snd p)) (remove_key t scr)).
Proof.
  induction scr as [|[t' l'] scr IH]; simpl; [discriminate|].
  intros Hn Hl. inversion Hn as [|? ? Hni Hn']; subst.
  destruct (Nat.eqb t t') eqn:E.
  - apply Nat.eqb_eq in E. subst t'. inversion Hl; subst l'.
    assert (Hrm : remove_key t scr = scr).
    { clear -Hni. induction scr as [|[a b] scr IH]; simpl; auto. simpl in Hni.
      destruct (Nat.eqb t a) eqn:E; [apply Nat.eqb_eq in E; subst; exfalso; apply Hni; left; auto|].
      f_equal. apply IH. intros H. apply Hni. right; auto. }
    rewrite Hrm. reflexivity.
  - simpl. rewrite (IH Hn' Hl). rewrite !app_assoc.
    apply Permutation_app_tail. apply Permutation_app_comm.
Qed.

Lemma remove_key_keys {A} t (l : list (nat * A)) : NoDup (map fst l) -> NoDup (map fst (remove_key t l)) /\ ~ In t (map fst (remove_key t l)).
Proof.
  induction l as [|[a b] l IH]; simpl; intros Hn.
  - split; [constructor|tauto].
  - inversion Hn as [|? ? Hni Hn']; subst. destruct (IH Hn') as [H1 H2].
    destruct (Nat.eqb t a) eqn:E; [auto|]. simpl. split.
    + constructor; auto. intros Hin. apply Hni.
      clear -Hin. induction l as [|[c d] l IHl]; simpl in *; auto.
      destruct (Nat.eqb t c); simpl in *; tauto.
    + intros [Hx|Hx]; [subst; rewrite Nat.eqb_refl in E; discriminate|auto].
Qed.

(* take_script: the script's tokens are now carried by the caller *)
Lemma tokinv_take_script t s RC RF :
  TokInv s RC RF ->
  exists sc s', take_script t s = Ok (sc, s') /\ TokInv s' RC (calls_toks sc ++ RF)
    /\ st_trace s' = st_trace s /\ held s' = held s.
Proof.
  intros [H1 H2 H3 H4 H5]. unfold take_script. destruct (lookup t (st_scripts s)) as [l|] eqn:E.
  - exists l, (set_scripts (remove_key t (st_scripts s)) s). split; [reflexivity|].
    split; [|split; reflexivity].
    pose proof (futr_remove_key t (st_scripts s) l H4 E) as P.
    constructor.
    + unfold futr at 1. simpl. change (req_toks (st_trace s)) with (reqd s).
      eapply Permutation_NoDup; [|exact H1].
      apply Permutation_app_head. unfold futr. rewrite P.
      rewrite <- !app_assoc. rewrite (app_assoc (calls_toks l)).
      rewrite (Permutation_app_comm (calls_toks l)). rewrite <- app_assoc. reflexivity.
    + exact H2.
    + exact H3.
    + simpl. apply remove_key_keys. exact H4.
    + exact H5.
  - exists [], s. split; [reflexivity|]. split; [|split; reflexivity]. constructor; auto.
Qed.

(* a callback closure of every live query cell is kept *)
Definition cb_pres (s s' : state) : Prop :=
  forall o q0, cell_of s o = Some (CQuery q0) -> exists q1, cell_of s' o = Some (CQuery q1) /\ q_cb q1 = q_cb q0.

Lemma held_cb_pres x s s' : InvX x s -> linked s' = linked s -> cb_pres s s' -> held s' = held s.
Proof.
  intros I El Hp. unfold held. rewrite El. apply flat_map_ext_in'. intros qo Hq.
  destruct (inv_query _ _ I _ Hq) as [q [Hc _]]. destruct (Hp _ _ Hc) as [q1 [Hc1 E]].
  unfold qtoks. rewrite Hc, Hc1, E. reflexivity.
Qed.

Lemma cb_pres_same s s' : (forall o q, cell_of s o = Some (CQuery q) -> cell_of s' o = Some (CQuery q)) -> cb_pres s s'.
Proof. intros H o q Hc. exists q. split; auto. Qed.

Lemma cb_pres_trans s1 s2 s3 : cb_pres s1 s2 -> cb_pres s2 s3 -> cb_pres s1 s3.
Proof.
  intros H1 H2 o q Hc. destruct (H1 _ _ Hc) as [q1 [Hc1 E1]]. destruct (H2 _ _ Hc1) as [q2 [Hc2 E2]].
  exists q2. split; auto. congruence.
Qed.

Lemma cb_pres_alloc c s : heap_ok s -> cb_pres s (alloc_st c s).
Proof.
  intros Hh. apply cb_pres_same. intros o q Hc. rewrite cell_alloc.
  pose proof (live_lt _ _ _ Hh Hc). destruct (Nat.eqb o (st_next s)) eqn:E; auto.
  apply Nat.eqb_eq in E. lia.
Qed.

Lemma cb_pres_free o s : (forall q, cell_of s o <> Some (CQuery q)) -> cb_pres s (free_st o s).
Proof.
  intros Hn. apply cb_pres_same. intros o' q Hc. rewrite cell_free.
  destruct (Nat.eqb o' o) eqn:E; auto. apply Nat.eqb_eq in E. subst. exfalso. eapply Hn; eauto.
Qed.

Lemma cb_pres_store_other o c s : (forall q, cell_of s o <> Some (CQuery q)) -> cb_pres s (store_st o c s).
Proof.
  intros Hn. apply cb_pres_same. intros o' q Hc. rewrite cell_store.
  destruct (Nat.eqb o' o) eqn:E; auto. apply Nat.eqb_eq in E. subst. exfalso. eapply Hn; eauto.
Qed.

Lemma cb_pres_store_query o q q' s : cell_of s o = Some (CQuery q) -> q_cb q' = q_cb q -> cb_pres s (store_st o (CQuery q') s).
Proof.
  intros Hq E o' q0 Hc. rewrite cell_store. destruct (Nat.eqb o' o) eqn:E'.
  - apply Nat.eqb_eq in E'. subst. rewrite Hq in Hc. inversion Hc; subst. exists q'. auto.
  - exists q0. auto.
Qed.

(* held after the two operations that move closures between the stack and the indexes *)
Lemma held_split (f : nat -> list tok) a l :
  NoDup l -> In a l -> Permutation (flat_map f l) (f a ++ flat_map f (remove_nat a l)).
Proof.
  intros Hn Hin. destruct (remove_nat_split _ _ Hn Hin) as [l1 [l2 [-> E]]]. rewrite E.
  apply perm_flat_map_insert.
Qed.

(* ---------------------------------------------------------------------------------- *)
(* TokInv across the composite state operations                                        *)
(* ---------------------------------------------------------------------------------- *)
Lemma strip_query qo o s q : cell_of s o = Some (CQuery q) -> option_map (strip qo) (cell_of s o) = Some (CQuery q).
Proof. intros H. rewrite H. reflexivity. Qed.

Lemma tokinv_remove_from_conn x s qo q RC RF :
  InvX x s -> (x = None \/ x = Some qo) -> In qo (linked s) -> cell_of s qo = Some (CQuery q) ->
  forall s', remove_from_conn qo s = Ok (tt, s') -> TokInv s RC RF -> TokInv s' RC RF.
Proof.
  intros I Hx Hl Hq s' E T.
  destruct (remove_from_conn_ok _ _ _ _ I Hx Hl Hq) as [s1 [E1 [I1 [F1 [El [_ [_ [_ [Etr [Esc [_ [_ [_ [_ Hc1]]]]]]]]]]]]]].
  rewrite E in E1. inversion E1; subst s1.
  apply (tokinv_same s s'); auto.
  apply (held_cb_pres x s s' I).
  - unfold linked. rewrite El. reflexivity.
  - intros o q0 Ho. rewrite Hc1. destruct (Nat.eqb o qo) eqn:Eo.
    + apply Nat.eqb_eq in Eo. subst. rewrite Hq in Ho. inversion Ho; subst. eexists. split; [reflexivity|reflexivity].
    + exists q0. rewrite Ho. auto.
Qed.

Lemma tokinv_detach x s qo q RC RF :
  InvX x s -> (x = None \/ x = Some qo) -> In qo (linked s) -> cell_of s qo = Some (CQuery q) ->
  forall s', detach_query qo s = Ok (tt, s') -> TokInv s RC RF -> TokInv s' (ctoks (q_cb q) ++ RC) RF.
Proof.
  intros I Hx Hl Hq s' E T.
  destruct (detach_query_ok _ _ _ _ I Hx Hl Hq) as [s1 [E1 [I1 [F1 [_ [_ [Etr [Esc [_ [Els [_ [_ [_ Hc1]]]]]]]]]]]]].
  rewrite E in E1. inversion E1; subst s1.
  assert (Ell : linked s' = remove_nat qo (linked s)).
  { unfold linked. rewrite Els. apply concat_map_remove. }
  assert (Hqt : forall o, o <> qo -> In o (linked s) -> qtoks s' o = qtoks s o).
  { intros o Hne Ho. destruct (inv_query _ _ I _ Ho) as [q0 [Hq0 _]]. unfold qtoks. rewrite Hc1.
    apply Nat.eqb_neq in Hne. rewrite Hne, Hq0. reflexivity. }
  assert (P : Permutation (held s) (ctoks (q_cb q) ++ held s')).
  { unfold held. rewrite (held_split (qtoks s) qo (linked s) (inv_nodup _ _ I) Hl).
    unfold qtoks at 1. rewrite Hq. apply Permutation_app_head. rewrite Ell.
    erewrite flat_map_ext_in'; [reflexivity|]. intros o Ho. apply in_remove_nat in Ho. destruct Ho as [Ho Hne].
    symmetry. apply Hqt; auto. }
  destruct T as [H1 H2 H3 H4 H5]. constructor.
  5: { rewrite Etr. exact H5. }
  - unfold reqd, futr. rewrite Etr, Esc. exact H1.
  - unfold reqd, deliv. rewrite Etr. fold (reqd s). fold (deliv s). rewrite H2.
    apply Permutation_app_head. rewrite P. rewrite <- !app_assoc.
    rewrite (app_assoc (ctoks (q_cb q))). rewrite (Permutation_app_comm (ctoks (q_cb q))). rewrite <- app_assoc. reflexivity.
  - unfold amo. rewrite Etr. exact H3.
  - rewrite Esc. exact H4.
Qed.

Lemma tokinv_new_query s k qid q0 RC RF :
  Inv s -> Own s (cobjs k) -> nohost k -> lookup qid (st_byqid s) = None ->
  q_cb q0 = k -> q_qid q0 = qid -> q_conn q0 = None ->
  let qo := st_next s in
  let s' := set_byqid ((qid, qo) :: st_byqid s) (set_lists (link_lists qo (st_lists s)) (alloc_st (CQuery q0) s)) in
  TokInv s (ctoks k ++ RC) RF -> TokInv s' RC RF.
Proof.
  intros I O Hn Lk Ecb Eqid Ec qo s' T.
  destruct (new_query_ok s k qid q0 I O Hn Lk Ecb Eqid Ec) as [I' [_ [Hl' [Hq' [Hsame [_ [_ [_ [l1 [l2 [E1 E2]]]]]]]]]]].
  fold qo in Hq', Hsame, E2, Hl'. fold s' in I', Hq', Hsame, E2, Hl'.
  assert (Hqt : forall o, In o (linked s) -> qtoks s' o = qtoks s o).
  { intros o Ho. destruct (inv_query _ _ I _ Ho) as [q1 [Hq1 _]]. unfold qtoks.
    rewrite Hsame; auto. intros ->. pose proof (live_lt _ _ _ (inv_heap _ _ I) Hq1). unfold qo in *. lia. }
  assert (P : Permutation (held s') (ctoks k ++ held s)).
  { unfold held. rewrite E2, E1. rewrite perm_flat_map_insert. unfold qtoks at 1. rewrite Hq', Ecb.
    apply Permutation_app_head. erewrite flat_map_ext_in'; [reflexivity|].
    intros o Ho. apply Hqt. rewrite E1. exact Ho. }
  destruct T as [H1 H2 H3 H4 H5]. constructor; auto.
  change (reqd s') with (reqd s). change (deliv s') with (deliv s). rewrite H2.
  apply Permutation_app_head. rewrite P. rewrite <- app_assoc.
  rewrite (app_assoc (held s)). rewrite (Permutation_app_comm (held s)). rewrite <- app_assoc. reflexivity.
Qed.

Lemma safe_both {A} (m : M A) s (Q1 Q2 : A -> state -> Prop) :
  safe m s Q1 -> safe m s Q2 -> safe m s (fun a s' => Q1 a s' /\ Q2 a s').
Proof. unfold safe. destruct (m s) as [[a s']| |]; auto. Qed.
