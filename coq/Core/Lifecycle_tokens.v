(* C01: conservation of request tokens in the fixed lifecycle model.

   Every token handed to an entry point is, at any time, exactly one of: delivered (its callback
   has been invoked), held by a linked query (through its callback closure), held by a shared
   host_query state (the callback of a getaddrinfo/gethostbyname request whose queries are
   outstanding), or carried by a function that is running (in a closure argument or in a
   host_query state it is working on).  Tokens of requests that callbacks will
   make later (pending scripts) are all different from those.  TokInv s RC RF states this for
   state s, the requested tokens RC carried by the running functions and the not yet requested
   tokens RF carried by them. *)
From Coq Require Import List ZArith Lia Bool Arith Permutation.
Import ListNotations.
From CAres.Base Require Import Outcome.
From CAres.Gen Require Import Consts.
From CAres.Core Require Import LifecycleMonitor Lifecycle Lifecycle_inv.

(* rearrangements of concatenations of token lists *)
Ltac perm_ac := apply (Permutation_count_occ Nat.eq_dec); let x := fresh "x" in intros x; rewrite ?count_occ_app; lia.

Definition cb_toks (tr : list event) : list tok := flat_map (fun e => match e with EvCb t _ => [t] | _ => [] end) tr.
Definition req_toks (tr : list event) : list tok := flat_map (fun e => match e with EvReq t => [t] | _ => [] end) tr.
Definition deliv (s : state) : list tok := cb_toks (st_trace s).
Definition reqd (s : state) : list tok := req_toks (st_trace s).

Definition call_toks (c : call) : list tok :=
  match c with
  | ASync t _ | ASend t | ASendRaw t | AQuery t | AOQuery t _ | ASearch t _ | AOSearch t _
  | AGhba t _ | AGni t _ _ | AGai t _ _ _ _ | AGhbn t _ _ _ _ => [t]
  | ACancel | ASetServers | ANop => []
  end.
Definition calls_toks (l : list call) : list tok := flat_map call_toks l.
Definition futr (s : state) : list tok := flat_map (fun p => calls_toks (snd p)) (st_scripts s).

Definition qtoks (s : state) (qo : obj) : list tok :=
  match cell_of s qo with Some (CQuery q) => ctoks (q_cb q) | _ => [] end.
Definition qheld (s : state) : list tok := flat_map (qtoks s) (linked s).
(* tokens of the application callbacks stored in shared host_query states *)
Definition htoks (s : state) (o : obj) : list tok :=
  match shared_at s o with Some h => ctoks (h_cb h) | None => [] end.
Definition hheld (s : state) : list tok := flat_map (htoks s) (seq 0 (st_next s)).
Definition held (s : state) : list tok := qheld s ++ hheld s.

(* the trace so far (stored reversed) satisfies at_most_once *)
Definition amo (s : state) : Prop := at_most_once (rev (st_trace s)).

Record TokInv (s : state) (RC RF : list tok) : Prop := {
  ti_nodup : NoDup (reqd s ++ futr s ++ RF);
  ti_perm : Permutation (reqd s) (deliv s ++ held s ++ RC);
  ti_amo : amo s;
  ti_keys : NoDup (map fst (st_scripts s));
  ti_live : forall e, In e (st_trace s) -> e <> EvDestroyEnd /\ e <> EvEnd   (* ares_destroy has not returned *)
}.

(* ---- counting ---- *)
Lemma count_req_rev tr t : count_req (rev tr) t = count_req tr t.
Proof.
  unfold count_req. induction tr as [|e tr IH]; simpl; auto.
  rewrite filter_app, app_length, IH. simpl.
  destruct (match e with EvReq t' => Nat.eqb t t' | _ => false end); simpl; lia.
Qed.
Lemma count_cb_rev tr t : count_cb (rev tr) t = count_cb tr t.
Proof.
  unfold count_cb. induction tr as [|e tr IH]; simpl; auto.
  rewrite filter_app, app_length, IH. simpl.
  destruct (match e with EvCb t' _ => Nat.eqb t t' | _ => false end); simpl; lia.
Qed.

Lemma count_req_in tr t : In t (req_toks tr) -> 1 <= count_req tr t.
Proof.
  unfold count_req, req_toks. induction tr as [|e tr IH]; simpl; [tauto|].
  intros H. apply in_app_or in H. destruct H as [H|H].
  - destruct e; simpl in H; try tauto. destruct H as [<-|[]]. rewrite Nat.eqb_refl. simpl. lia.
  - specialize (IH H). destruct (match e with EvReq t' => Nat.eqb t t' | _ => false end); simpl; lia.
Qed.
Lemma count_cb_notin tr t : ~ In t (cb_toks tr) -> count_cb tr t = 0.
Proof.
  unfold count_cb, cb_toks. induction tr as [|e tr IH]; simpl; auto.
  intros H. destruct e; simpl in *; try (apply IH; intros H'; apply H; auto).
  destruct (Nat.eqb t t0) eqn:E.
  - apply Nat.eqb_eq in E. subst. exfalso. apply H. left; auto.
  - simpl. apply IH. intros H'. apply H. right; auto.
Qed.

(* appending an event to a trace with at_most_once *)
Lemma amo_snoc_other tr e : (forall t st, e <> EvCb t st) -> at_most_once tr -> at_most_once (tr ++ [e]).
Proof.
  intros He H pre t st post E.
  destruct post as [|x post'] using rev_ind.
  - apply app_inj_tail in E. destruct E as [_ E]. exfalso. eapply He; eauto.
  - rewrite app_comm_cons, app_assoc in E. apply app_inj_tail in E. destruct E as [E _].
    eapply H; eauto.
Qed.

Lemma amo_snoc_cb tr t st : at_most_once tr -> count_cb tr t < count_req tr t -> at_most_once (tr ++ [EvCb t st]).
Proof.
  intros H Hc pre t' st' post E.
  destruct post as [|x post'] using rev_ind.
  - apply app_inj_tail in E. destruct E as [E1 E2]. inversion E2; subst. exact Hc.
  - rewrite app_comm_cons, app_assoc in E. apply app_inj_tail in E. destruct E as [E _].
    eapply H; eauto.
Qed.

(* ---- how the five token-moving steps change TokInv ---- *)
Lemma perm_nodup_app {A} (l l' r : list A) : Permutation l l' -> NoDup (l ++ r) -> NoDup (l' ++ r).
Proof. intros P H. eapply Permutation_NoDup; [|exact H]. apply Permutation_app_tail. exact P. Qed.

(* states with the same trace, scripts, linked queries and callbacks *)
Lemma tokinv_same s s' RC RF :
  st_trace s' = st_trace s -> st_scripts s' = st_scripts s -> held s' = held s ->
  TokInv s RC RF -> TokInv s' RC RF.
Proof.
  intros Et Es Eh [H1 H2 H3 H4 H5].
  assert (Er : reqd s' = reqd s) by (unfold reqd; rewrite Et; reflexivity).
  assert (Ed : deliv s' = deliv s) by (unfold deliv; rewrite Et; reflexivity).
  assert (Ef : futr s' = futr s) by (unfold futr; rewrite Es; reflexivity).
  constructor.
  - rewrite Er, Ef. exact H1.
  - rewrite Er, Ed, Eh. exact H2.
  - unfold amo. rewrite Et. exact H3.
  - rewrite Es. exact H4.
  - rewrite Et. exact H5.
Qed.

Lemma tokinv_perm s RC RC' RF RF' :
  Permutation RC RC' -> Permutation RF RF' -> TokInv s RC RF -> TokInv s RC' RF'.
Proof.
  intros P1 P2 [H1 H2 H3 H4 H5]. constructor; auto.
  - eapply Permutation_NoDup; [|exact H1]. apply Permutation_app_head. apply Permutation_app_head. exact P2.
  - rewrite H2. apply Permutation_app_head. apply Permutation_app_head. exact P1.
Qed.

(* emit (EvReq t): t moves from the unrequested carried tokens to the requested carried ones *)
Lemma tokinv_emit_req s t RC RF :
  TokInv s RC (t :: RF) -> TokInv (set_trace (EvReq t :: st_trace s) s) (t :: RC) RF.
Proof.
  intros [H1 H2 H3 H4 H5]. constructor; [| | |exact H4|].
  4: { simpl. intros e [<-|He]; [split; discriminate|auto]. }
  - unfold reqd, futr. simpl. fold (reqd s). fold (futr s).
    eapply Permutation_NoDup; [|exact H1].
    rewrite !app_assoc. symmetry. apply Permutation_cons_app. reflexivity.
  - unfold reqd, deliv. simpl. fold (reqd s). fold (deliv s).
    change (held (set_trace (EvReq t :: st_trace s) s)) with (held s).
    rewrite H2. rewrite !app_assoc. apply Permutation_cons_app. reflexivity.
  - unfold amo. simpl. apply amo_snoc_other; auto. intros; discriminate.
Qed.

(* emit (EvCb t st): t moves from the requested carried tokens to the delivered ones *)
Lemma tokinv_emit_cb s t st RC RF :
  TokInv s (t :: RC) RF -> TokInv (set_trace (EvCb t st :: st_trace s) s) RC RF.
Proof.
  intros [H1 H2 H3 H4 H5]. constructor; [| | |exact H4|].
  4: { simpl. intros e [<-|He]; [split; discriminate|auto]. }
  - exact H1.
  - unfold reqd, deliv. simpl. fold (reqd s). fold (deliv s).
    change (held (set_trace (EvCb t st :: st_trace s) s)) with (held s).
    rewrite H2. rewrite !app_assoc. symmetry. apply Permutation_cons_app. reflexivity.
  - unfold amo. simpl. apply amo_snoc_cb; auto.
    rewrite count_cb_rev, count_req_rev.
    assert (Hn : NoDup (deliv s ++ held s ++ t :: RC)).
    { eapply Permutation_NoDup; [exact H2|]. apply NoDup_app_iff in H1. tauto. }
    assert (Hin : In t (reqd s)).
    { eapply Permutation_in; [symmetry; exact H2|]. apply in_or_app. right. apply in_or_app. right. left. reflexivity. }
    assert (Hnd : ~ In t (deliv s)).
    { apply NoDup_app_iff in Hn. destruct Hn as [_ [_ Hd]]. intros Hd'. apply (Hd _ Hd').
      apply in_or_app. right. left. reflexivity. }
    rewrite (count_cb_notin _ _ Hnd). pose proof (count_req_in _ _ Hin). lia.
Qed.

(* other events *)
Lemma tokinv_emit_other s e RC RF :
  (forall t, e <> EvReq t) -> (forall t st, e <> EvCb t st) -> e <> EvDestroyEnd -> e <> EvEnd ->
  TokInv s RC RF -> TokInv (set_trace (e :: st_trace s) s) RC RF.
Proof.
  intros He1 He2 He3 He4 [H1 H2 H3 H4 H5].
  assert (Er : reqd (set_trace (e :: st_trace s) s) = reqd s).
  { unfold reqd. simpl. destruct e; auto. exfalso. eapply He1; eauto. }
  assert (Ed : deliv (set_trace (e :: st_trace s) s) = deliv s).
  { unfold deliv. simpl. destruct e; auto. exfalso. eapply He2; eauto. }
  constructor; [| | |exact H4|].
  4: { simpl. intros e' [<-|He]; [split; auto|auto]. }
  - rewrite Er. exact H1.
  - rewrite Er, Ed. exact H2.
  - unfold amo. simpl. apply amo_snoc_other; auto.
Qed.

(* the tape does not matter *)
Lemma tokinv_set_tape s l RC RF : TokInv s RC RF -> TokInv (set_tape l s) RC RF.
Proof. apply tokinv_same; reflexivity. Qed.

(* scripts: removing the script of t moves its tokens to the carried unrequested ones *)
Lemma futr_remove_key t (scr : list (tok * list call)) l :
  NoDup (map fst scr) -> lookup t scr = Some l ->
  Permutation (flat_map (fun p => calls_toks (snd p)) scr)
              (calls_toks l ++ flat_map (fun p => calls_toks (snd p)) (remove_key t scr)).
Proof.
  induction scr as [|[t' l'] scr IH]; simpl; [discriminate|].
  intros Hn Hl. inversion Hn as [|? ? Hni Hn']; subst.
  destruct (Nat.eqb t t') eqn:E.
  - apply Nat.eqb_eq in E. subst t'. inversion Hl; subst l'.
    assert (Hrm : remove_key t scr = scr).
    { clear -Hni. induction scr as [|[a b] scr IH]; simpl; auto. simpl in Hni.
      destruct (Nat.eqb t a) eqn:E; [apply Nat.eqb_eq in E; subst; exfalso; apply Hni; left; auto|].
      f_equal. apply IH. intros H. apply Hni. right; auto. }
    rewrite Hrm. reflexivity.
  - simpl. rewrite (IH Hn' Hl). rewrite !app_assoc.
    apply Permutation_app_tail. apply Permutation_app_comm.
Qed.

Lemma remove_key_keys {A} t (l : list (nat * A)) : NoDup (map fst l) -> NoDup (map fst (remove_key t l)) /\ ~ In t (map fst (remove_key t l)).
Proof.
  induction l as [|[a b] l IH]; simpl; intros Hn.
  - split; [constructor|tauto].
  - inversion Hn as [|? ? Hni Hn']; subst. destruct (IH Hn') as [H1 H2].
    destruct (Nat.eqb t a) eqn:E; [auto|]. simpl. split.
    + constructor; auto. intros Hin. apply Hni.
      clear -Hin. induction l as [|[c d] l IHl]; simpl in *; auto.
      destruct (Nat.eqb t c); simpl in *; tauto.
    + intros [Hx|Hx]; [subst; rewrite Nat.eqb_refl in E; discriminate|auto].
Qed.

(* take_script: the script's tokens are now carried by the caller *)
Lemma tokinv_take_script t s RC RF :
  TokInv s RC RF ->
  exists sc s', take_script t s = Ok (sc, s') /\ TokInv s' RC (calls_toks sc ++ RF)
    /\ st_trace s' = st_trace s /\ held s' = held s.
Proof.
  intros [H1 H2 H3 H4 H5]. unfold take_script. destruct (lookup t (st_scripts s)) as [l|] eqn:E.
  - exists l, (set_scripts (remove_key t (st_scripts s)) s). split; [reflexivity|].
    split; [|split; reflexivity].
    pose proof (futr_remove_key t (st_scripts s) l H4 E) as P.
    constructor.
    + unfold futr at 1. simpl. change (req_toks (st_trace s)) with (reqd s).
      eapply Permutation_NoDup; [|exact H1].
      apply Permutation_app_head. unfold futr. rewrite P.
      rewrite <- !app_assoc. rewrite (app_assoc (calls_toks l)).
      rewrite (Permutation_app_comm (calls_toks l)). rewrite <- app_assoc. reflexivity.
    + exact H2.
    + exact H3.
    + simpl. apply remove_key_keys. exact H4.
    + exact H5.
  - exists [], s. split; [reflexivity|]. split; [|split; reflexivity]. constructor; auto.
Qed.

(* shared host_query states unchanged => their tokens unchanged *)
Lemma hheld_same s s' :
  heap_ok s -> st_next s <= st_next s' -> (forall o, shared_at s' o = shared_at s o) -> hheld s' = hheld s.
Proof.
  intros Hh Hn Hs. unfold hheld.
  replace (st_next s') with (st_next s + (st_next s' - st_next s)) by lia.
  rewrite seq_app, flat_map_app. rewrite (flat_map_nil _ (seq (0 + st_next s) _)).
  - rewrite app_nil_r. apply flat_map_ext. intros o. unfold htoks. rewrite Hs. reflexivity.
  - intros o Ho. apply in_seq in Ho. unfold htoks. rewrite Hs.
    destruct (shared_at s o) as [h|] eqn:E; auto. pose proof (shared_lt _ _ _ Hh E). lia.
Qed.

Lemma hheld_upd s s' o :
  o < st_next s -> st_next s' = st_next s ->
  (forall o', o' <> o -> shared_at s' o' = shared_at s o') ->
  exists A B, hheld s = A ++ htoks s o ++ B /\ hheld s' = A ++ htoks s' o ++ B.
Proof.
  intros Ho En Hs.
  exists (flat_map (htoks s) (seq 0 o)), (flat_map (htoks s) (seq (S o) (st_next s - S o))).
  assert (Eseq : seq 0 (st_next s) = seq 0 o ++ o :: seq (S o) (st_next s - S o)).
  { replace (st_next s) with (o + S (st_next s - S o)) at 1 by lia. rewrite seq_app. reflexivity. }
  split.
  - unfold hheld. rewrite Eseq, flat_map_app. reflexivity.
  - unfold hheld. rewrite En, Eseq, flat_map_app. simpl. f_equal; [|f_equal].
    + apply flat_map_ext_in'. intros a Ha. apply in_seq in Ha. unfold htoks. rewrite Hs; auto. lia.
    + apply flat_map_ext_in'. intros a Ha. apply in_seq in Ha. unfold htoks. rewrite Hs; auto. lia.
Qed.

(* a callback closure of every live query cell is kept; the shared host_query states are the same *)
Definition cb_pres (s s' : state) : Prop :=
  (forall o q0, cell_of s o = Some (CQuery q0) -> exists q1, cell_of s' o = Some (CQuery q1) /\ q_cb q1 = q_cb q0)
  /\ (forall o, shared_at s' o = shared_at s o) /\ st_next s <= st_next s'.

Lemma held_cb_pres x s s' : InvX x s -> linked s' = linked s -> cb_pres s s' -> held s' = held s.
Proof.
  intros I El [Hp [Hs Hn]]. unfold held. f_equal.
  - unfold qheld. rewrite El. apply flat_map_ext_in'. intros qo Hq.
    destruct (inv_query _ _ I _ Hq) as [q Hc]. destruct (Hp _ _ Hc) as [q1 [Hc1 E]].
    unfold qtoks. rewrite Hc, Hc1, E. reflexivity.
  - apply hheld_same; auto. exact (inv_heap _ _ I).
Qed.

(* cells that differ at most in connections and the index fields of queries *)
Lemma cb_pres_sim s s' : st_next s <= st_next s' -> (forall o, cell_sim (cell_of s o) (cell_of s' o)) -> cb_pres s s'.
Proof.
  intros Hn Hs. destruct (sim_views _ _ Hs) as [Hha _]. split; [|split; [apply shared_of_host_at; exact Hha|exact Hn]].
  intros o q0 Hc. specialize (Hs o). rewrite Hc in Hs. unfold cell_sim in Hs.
  destruct (cell_of s' o) as [[q1|c1|h1|]|]; try destruct Hs. exists q1. auto.
Qed.

Lemma cb_pres_trans s1 s2 s3 : cb_pres s1 s2 -> cb_pres s2 s3 -> cb_pres s1 s3.
Proof.
  intros [H1 [G1 N1]] [H2 [G2 N2]]. split; [|split; [intros o; rewrite G2; apply G1|lia]].
  intros o q Hc. destruct (H1 _ _ Hc) as [q1 [Hc1 E1]]. destruct (H2 _ _ Hc1) as [q2 [Hc2 E2]].
  exists q2. split; auto. congruence.
Qed.

(* held after the two operations that move closures between the stack and the indexes *)
Lemma held_split (f : nat -> list tok) a l :
  NoDup l -> In a l -> Permutation (flat_map f l) (f a ++ flat_map f (remove_nat a l)).
Proof.
  intros Hn Hin. destruct (remove_nat_split _ _ Hn Hin) as [l1 [l2 [-> E]]]. rewrite E.
  apply perm_flat_map_insert.
Qed.

(* ---------------------------------------------------------------------------------- *)
(* TokInv across the composite state operations                                        *)
(* ---------------------------------------------------------------------------------- *)
Lemma strip_query qo o s q : cell_of s o = Some (CQuery q) -> option_map (strip qo) (cell_of s o) = Some (CQuery q).
Proof. intros H. rewrite H. reflexivity. Qed.

Lemma strip_sim s s1 qo q q1 : cell_of s qo = Some (CQuery q) -> q_cb q1 = q_cb q ->
  (forall o, cell_of s1 o = if Nat.eqb o qo then Some (CQuery q1) else option_map (strip qo) (cell_of s o)) ->
  forall o, cell_sim (cell_of s o) (cell_of s1 o).
Proof.
  intros Hq E Hc1 o. rewrite Hc1. destruct (Nat.eqb o qo) eqn:Eo.
  - apply Nat.eqb_eq in Eo. subst. rewrite Hq. exact E.
  - apply cell_sim_strip.
Qed.

Lemma tokinv_remove_from_conn x s qo q RC RF :
  InvX x s -> (x = None \/ x = Some qo) -> In qo (linked s) -> cell_of s qo = Some (CQuery q) ->
  forall s', remove_from_conn qo s = Ok (tt, s') -> TokInv s RC RF -> TokInv s' RC RF.
Proof.
  intros I Hx Hl Hq s' E T.
  destruct (remove_from_conn_ok _ _ _ _ I Hx Hl Hq) as [s1 [E1 [I1 [F1 [El [_ [_ [_ [Etr [Esc [_ [En [_ [_ Hc1]]]]]]]]]]]]]].
  rewrite E in E1. inversion E1; subst s1.
  apply (tokinv_same s s'); auto.
  apply (held_cb_pres x s s' I).
  - unfold linked. rewrite El. reflexivity.
  - apply cb_pres_sim; [rewrite En; lia|]. apply (strip_sim s s' qo q (set_q_conn None q)); auto.
Qed.

Lemma tokinv_detach x s qo q RC RF :
  InvX x s -> (x = None \/ x = Some qo) -> In qo (linked s) -> cell_of s qo = Some (CQuery q) ->
  forall s', detach_query qo s = Ok (tt, s') -> TokInv s RC RF -> TokInv s' (ctoks (q_cb q) ++ RC) RF.
Proof.
  intros I Hx Hl Hq s' E T.
  destruct (detach_query_ok _ _ _ _ I Hx Hl Hq) as [s1 [E1 [I1 [F1 [_ [_ [Etr [Esc [_ [Els [_ [_ [_ Hc1]]]]]]]]]]]]].
  rewrite E in E1. inversion E1; subst s1.
  assert (Ell : linked s' = remove_nat qo (linked s)).
  { unfold linked. rewrite Els. apply concat_map_remove. }
  assert (Hqt : forall o, o <> qo -> In o (linked s) -> qtoks s' o = qtoks s o).
  { intros o Hne Ho. destruct (inv_query _ _ I _ Ho) as [q0 Hq0]. unfold qtoks. rewrite Hc1.
    apply Nat.eqb_neq in Hne. rewrite Hne, Hq0. reflexivity. }
  assert (P : Permutation (qheld s) (ctoks (q_cb q) ++ qheld s')).
  { unfold qheld. rewrite (held_split (qtoks s) qo (linked s) (inv_nodup _ _ I) Hl).
    unfold qtoks at 1. rewrite Hq. apply Permutation_app_head. rewrite Ell.
    erewrite flat_map_ext_in'; [reflexivity|]. intros o Ho. apply in_remove_nat in Ho. destruct Ho as [Ho Hne].
    symmetry. apply Hqt; auto. }
  assert (Eh : hheld s' = hheld s).
  { apply hheld_same; [exact (inv_heap _ _ I)|rewrite (fd_next _ _ _ F1); lia|].
    apply shared_of_host_at. exact (fd_host _ _ _ F1). }
  destruct T as [H1 H2 H3 H4 H5]. constructor.
  5: { rewrite Etr. exact H5. }
  - unfold reqd, futr. rewrite Etr, Esc. exact H1.
  - unfold reqd, deliv. rewrite Etr. fold (reqd s). fold (deliv s). rewrite H2.
    apply Permutation_app_head. unfold held. rewrite Eh, P. perm_ac.
  - unfold amo. rewrite Etr. exact H3.
  - rewrite Esc. exact H4.
Qed.

Lemma tokinv_new_query s k qid q0 RC RF :
  Inv s -> Own s (cobjs k) -> GivenOk s (kbot k) -> lookup qid (st_byqid s) = None ->
  q_cb q0 = k -> q_qid q0 = qid -> q_conn q0 = None ->
  let qo := st_next s in
  let s' := set_byqid ((qid, qo) :: st_byqid s) (set_lists (link_lists qo (st_lists s)) (alloc_st (CQuery q0) s)) in
  TokInv s (ctoks k ++ RC) RF -> TokInv s' RC RF.
Proof.
  intros I O Hn Lk Ecb Eqid Ec qo s' T.
  destruct (new_query_ok s k qid q0 I O Hn Lk Ecb Eqid Ec) as [I' [_ [Hl' [Hq' [Hsame [_ [_ [_ [l1 [l2 [E1 E2]]]]]]]]]]].
  fold qo in Hq', Hsame, E2, Hl'. fold s' in I', Hq', Hsame, E2, Hl'.
  assert (Hqt : forall o, In o (linked s) -> qtoks s' o = qtoks s o).
  { intros o Ho. destruct (inv_query _ _ I _ Ho) as [q1 Hq1]. unfold qtoks.
    rewrite Hsame; auto. intros ->. pose proof (live_lt _ _ _ (inv_heap _ _ I) Hq1). unfold qo in *. lia. }
  assert (P : Permutation (qheld s') (ctoks k ++ qheld s)).
  { unfold qheld. rewrite E2, E1. rewrite perm_flat_map_insert. unfold qtoks at 1. rewrite Hq', Ecb.
    apply Permutation_app_head. erewrite flat_map_ext_in'; [reflexivity|].
    intros o Ho. apply Hqt. rewrite E1. exact Ho. }
  assert (Eh : hheld s' = hheld s).
  { apply hheld_same; [exact (inv_heap _ _ I)|simpl; lia|]. intros o. unfold shared_at.
    destruct (Nat.eq_dec o qo) as [->|Hne]; [|rewrite Hsame; auto].
    rewrite Hq'. destruct (cell_of s qo) as [c|] eqn:Ec0; auto.
    pose proof (live_lt _ _ _ (inv_heap _ _ I) Ec0). unfold qo in *. lia. }
  destruct T as [H1 H2 H3 H4 H5]. constructor; auto.
  change (reqd s') with (reqd s). change (deliv s') with (deliv s). rewrite H2.
  apply Permutation_app_head. unfold held. rewrite Eh, P. perm_ac.
Qed.

Lemma safe_both {A} (m : M A) s (Q1 Q2 : A -> state -> Prop) :
  safe m s Q1 -> safe m s Q2 -> safe m s (fun a s' => Q1 a s' /\ Q2 a s').
Proof. unfold safe. destruct (m s) as [[a s']| |]; auto. Qed.

(* ---------------------------------------------------------------------------------- *)
(* host_query cells                                                                    *)
(* ---------------------------------------------------------------------------------- *)
Lemma held_host_store x s o h h' :
  InvX x s -> cell_of s o = Some (CHost h) ->
  let s' := store_st o (CHost h') s in
  qheld s' = qheld s /\ exists A B, hheld s = A ++ htoks s o ++ B /\ hheld s' = A ++ htoks s' o ++ B.
Proof.
  intros I Hc s'.
  assert (Hsame : forall o', o' <> o -> cell_of s' o' = cell_of s o').
  { intros o' Hne. unfold s'. rewrite cell_store. apply Nat.eqb_neq in Hne. rewrite Hne. reflexivity. }
  split.
  - unfold qheld. change (linked s') with (linked s). apply flat_map_ext_in'. intros qo Hq.
    unfold qtoks. rewrite Hsame; auto. intros ->. destruct (inv_query _ _ I _ Hq) as [q Hq']. congruence.
  - apply hheld_upd; auto.
    + exact (live_lt _ _ _ (inv_heap _ _ I) Hc).
    + intros o' Hne. unfold shared_at. rewrite Hsame; auto.
Qed.

Lemma tokinv_host_store x s o h h' RC RC' RF :
  InvX x s -> cell_of s o = Some (CHost h) ->
  let s' := store_st o (CHost h') s in
  Permutation (htoks s o ++ RC) (htoks s' o ++ RC') ->
  TokInv s RC RF -> TokInv s' RC' RF.
Proof.
  intros I Hc s' P [H1 H2 H3 H4 H5].
  destruct (held_host_store x s o h h' I Hc) as [Eq [A [B [EA EB]]]]. fold s' in Eq, EB.
  constructor; auto.
  change (reqd s') with (reqd s). change (deliv s') with (deliv s). rewrite H2.
  apply Permutation_app_head. unfold held. rewrite Eq, EA, EB.
  transitivity (qheld s ++ A ++ B ++ (htoks s o ++ RC)); [perm_ac|]. rewrite P. perm_ac.
Qed.

Lemma tokinv_host_share x s o h h' RC RF :
  InvX x s -> cell_of s o = Some (CHost h) -> h_remaining h = 0 -> h_cb h' = h_cb h -> 0 < h_remaining h' ->
  TokInv s (ctoks (h_cb h) ++ RC) RF -> TokInv (store_st o (CHost h') s) RC RF.
Proof.
  intros I Hc Hz Ecb Hp. apply (tokinv_host_store x s o h h'); auto.
  assert (Hs' : shared_at (store_st o (CHost h') s) o = Some h').
  { apply shared_intro; auto. rewrite cell_store, Nat.eqb_refl. reflexivity. }
  unfold htoks. rewrite Hs'. unfold shared_at. rewrite Hc, Hz. simpl. rewrite Ecb. perm_ac.
Qed.

Lemma tokinv_host_unshare x s o h h' RC RF :
  InvX x s -> shared_at s o = Some h -> h_cb h' = h_cb h -> h_remaining h' = 0 ->
  TokInv s RC RF -> TokInv (store_st o (CHost h') s) (ctoks (h_cb h) ++ RC) RF.
Proof.
  intros I Hs Ecb Hz. destruct (shared_host _ _ _ Hs) as [Hc _]. apply (tokinv_host_store x s o h h'); auto.
  unfold htoks. rewrite Hs. unfold shared_at. rewrite cell_store, Nat.eqb_refl, Hz. simpl. reflexivity.
Qed.

Lemma tokinv_host_shared x s o h h' RC RF :
  InvX x s -> shared_at s o = Some h -> h_cb h' = h_cb h -> 0 < h_remaining h' ->
  TokInv s RC RF -> TokInv (store_st o (CHost h') s) RC RF.
Proof.
  intros I Hs Ecb Hp. destruct (shared_host _ _ _ Hs) as [Hc _]. apply (tokinv_host_store x s o h h'); auto.
  assert (Hs' : shared_at (store_st o (CHost h') s) o = Some h').
  { apply shared_intro; auto. rewrite cell_store, Nat.eqb_refl. reflexivity. }
  unfold htoks. rewrite Hs, Hs', Ecb. reflexivity.
Qed.

Lemma tokinv_host_excl x s o h h' RC RF :
  InvX x s -> cell_of s o = Some (CHost h) -> h_remaining h = 0 -> h_remaining h' = 0 ->
  TokInv s RC RF -> TokInv (store_st o (CHost h') s) RC RF.
Proof.
  intros I Hc Hz Hz'. apply (tokinv_host_store x s o h h'); auto.
  unfold htoks, shared_at. rewrite Hc, Hz, cell_store, Nat.eqb_refl, Hz'. reflexivity.
Qed.
