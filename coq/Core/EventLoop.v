(* Transition-system model of the built-in event thread against client threads
   (src/lib/event/ares_event_thread.c: loop  process_updates; t := ares_timeout; wait t;
    pending-write; ares_process_fds;   src/lib/ares_process.c: ares_send_query).

   Time is in milliseconds (Z).  [dl] is the multiset of deadlines of outstanding queries
   (channel->queries_by_timeout).  The OS is modelled by enabledness: a blocked thread MAY
   wake at any time (socket events, spurious wake-ups) and nothing forces it to, except the
   two assumptions stated as theorems' hypotheses: a signalled wake ends the wait, and a wait
   with timeout t ends by t.  The safety invariant is what makes those two assumptions
   sufficient for "no query outwaits its deadline".

   [rule d dl] is the wake rule of ares_send_query(): does enqueueing a query with deadline d
   while the outstanding deadlines are dl signal the event thread (in addition to the signal
   caused by a socket-interest change / pending TCP write, [interest_changed])?
     rule_pinned   = never                       (the pinned tree)
     rule_earliest = when d is earlier than every outstanding deadline   (the current code:
                     the new query is first in queries_by_timeout)
     rule_only     = only when nothing else is outstanding   (a plausible "optimisation") *)
From CAres.Base Require Export Outcome.
Local Open Scope Z_scope.

Inductive tstate := Running | Blocked (until : option Z).

Record est := mkE { e_now : Z; e_dl : list Z; e_th : tstate; e_wake : bool }.

Inductive eev :=
| Enqueue (d : Z) (interest_changed : bool) (* client thread: ares_send_query inserted deadline d *)
| Sleep                                     (* event thread: t := ares_timeout(); wait(t) *)
| WakeUp                                    (* event thread: wait returned (any reason) *)
| Process                                   (* event thread: ares_process_fds: expired queries handled *)
| Requeue (d : Z)                           (* event thread re-arms a query while running (retry) *)
| Remove (d : Z)                            (* a query completes / is cancelled: its deadline disappears *)
| Tick (dt : Z).                            (* time passes *)

Fixpoint min_dl (l : list Z) : option Z :=
  match l with
  | [] => None
  | d :: r => match min_dl r with None => Some d | Some m => Some (Z.min d m) end
  end.

Definition earliest (d : Z) (l : list Z) : bool := forallb (fun x => d <? x) l.

Fixpoint remove1 (d : Z) (l : list Z) : list Z :=
  match l with [] => [] | x :: r => if x =? d then r else x :: remove1 d r end.

(* the event thread's timeout computation: remaining ms to the first deadline, plus the 1 ms
   the code adds (timeout_ms = sec*1000 + usec/1000 + 1); None = wait without timeout *)
(* ... and the result is clamped to INT_MAX ms because the backends take an int *)
Definition wait_until (now : Z) (l : list Z) : option Z :=
  match min_dl l with
  | None => None
  | Some m => Some (Z.min (Z.max now m + 1) (now + 2147483647))
  end.

Definition wake_rule := Z -> list Z -> bool.
Definition rule_pinned : wake_rule := fun _ _ => false.
Definition rule_earliest : wake_rule := earliest.
Definition rule_only : wake_rule := fun _ l => match l with [] => true | _ => false end.

Definition estep (rule : wake_rule) (s : est) (e : eev) : option est :=
  match e with
  | Enqueue d ic =>
      if d <? e_now s then None
      else Some (mkE (e_now s) (d :: e_dl s) (e_th s)
                     (e_wake s || ic || rule d (e_dl s)))
  | Sleep =>
      match e_th s with
      | Running => Some (mkE (e_now s) (e_dl s) (Blocked (wait_until (e_now s) (e_dl s))) (e_wake s))
      | Blocked _ => None
      end
  | WakeUp =>
      match e_th s with
      | Blocked _ => Some (mkE (e_now s) (e_dl s) Running false)
      | Running => None
      end
  | Process =>
      match e_th s with
      | Running => Some (mkE (e_now s) (filter (fun d => e_now s <? d) (e_dl s)) Running (e_wake s))
      | Blocked _ => None
      end
  | Requeue d =>
      match e_th s with
      | Running => if d <? e_now s then None else Some (mkE (e_now s) (d :: e_dl s) Running (e_wake s))
      | Blocked _ => None
      end
  | Remove d => Some (mkE (e_now s) (remove1 d (e_dl s)) (e_th s) (e_wake s))
  | Tick dt => if dt <? 0 then None else Some (mkE (e_now s + dt) (e_dl s) (e_th s) (e_wake s))
  end.

Fixpoint erun (rule : wake_rule) (s : est) (tr : list eev) : option est :=
  match tr with
  | [] => Some s
  | e :: r => match estep rule s e with None => None | Some s' => erun rule s' r end
  end.

Definition einit : est := mkE 0 [] Running false.

(* Safety invariant: a blocked thread with no wake pending will time out no later than one
   millisecond after the earliest deadline (and sleeps without timeout only when no query is
   outstanding). *)
Definition einv (s : est) : Prop :=
  match e_th s with
  | Running => True
  | Blocked u =>
      e_wake s = true \/
      match u with
      | None => e_dl s = []
      | Some t => forall d, In d (e_dl s) -> t <= Z.max (e_now s) d + 1
      end
  end.

(* ------------------------------------------------------------------------------------ *)
(* Executable acceptor for implementation traces (hook events logged by the harness).     *)
(* tq: a client called the resolver at time t; tw: ares_event_thread_wake at t;           *)
(* twait: the thread starts waiting at t with timeout ms (None = unlimited);              *)
(* twoke: the wait returned at t.                                                         *)
(* thint: the timeout hint (sec, usec) ares_timeout() gave the event thread for the next wait. *)
Inductive tev :=
| TQuery (t : Z) | TWakeSig (t : Z) | TWait (t : Z) (ms : option Z) | TWoke (t : Z)
| THint (sec usec : Z).

(* The event thread's conversion of the hint to the backends' millisecond timeout
   (ares_event_thread(): timeout_ms = min(tv_sec*1000 + tv_usec/1000 + 1, INT_MAX)).  The backends take 0 as "no timeout": a pending deadline must never be
   converted to 0. *)
Definition INT_MAX : Z := 2147483647.
Definition ms_of_hint (sec usec : Z) : Z :=
  if sec >? INT_MAX / 1000 then INT_MAX
  else let ms := sec * 1000 + usec / 1000 + 1 in if ms >? INT_MAX then INT_MAX else ms.
Definition wait_ms_ok (ms : option Z) : bool :=
  match ms with Some m => (0 <? m) && (m <=? INT_MAX) | None => true end.

Record acc := mkA { a_blocked : option (option Z);   (* Some u = blocked until u *)
                    a_need : option Z;               (* a query at this time still needs the thread to wake *)
                    a_ok : bool;
                    a_hint : option (Z * Z);         (* hint logged for the next wait *)
                    a_conv : bool }.                 (* every wait's timeout was the conversion of its hint, and usable *)

(* [base]: first-attempt timeout of the configuration; [tol]: scheduling tolerance *)
Definition acc_step (base tol : Z) (a : acc) (e : tev) : acc :=
  match e with
  | TQuery t =>
      match a_blocked a with
      | Some None => mkA (a_blocked a) (Some t) (a_ok a) (a_hint a) (a_conv a)
      | Some (Some u) => if t + base + tol <? u then mkA (a_blocked a) (Some t) (a_ok a) (a_hint a) (a_conv a) else a
      | None => a
      end
  | TWakeSig _ => mkA (a_blocked a) None (a_ok a) (a_hint a) (a_conv a)
  | THint sec usec => mkA (a_blocked a) (a_need a) (a_ok a) (Some (sec, usec)) (a_conv a)
  | TWait t ms =>
      mkA (Some (match ms with None => None | Some m => Some (t + m) end)) None (a_ok a) None
          (a_conv a && wait_ms_ok ms &&
           match ms, a_hint a with
           | Some m, Some (sec, usec) => m =? ms_of_hint sec usec
           | _, _ => true                 (* no hint logged (older hook): nothing to compare *)
           end)
  | TWoke t =>
      match a_need a with
      | Some tq => mkA None None (a_ok a && (t <=? tq + base + tol)) (a_hint a) (a_conv a)
      | None => mkA None None (a_ok a) (a_hint a) (a_conv a)
      end
  end.

Definition acc_run (base tol : Z) (tr : list tev) : acc :=
  fold_left (acc_step base tol) tr (mkA None None true None true).

(* every wait of the trace used exactly the model's conversion of the hint it was computed
   from, and never the backends' "no timeout" value 0 while a deadline was pending *)
Definition trace_conversion_ok (tr : list tev) : bool := a_conv (acc_run 0 0 tr).

(* a trace is accepted when no query was left needing a wake-up: neither at a late wake-up nor
   at the end of the trace *)
Definition trace_accepts (base tol : Z) (tr : list tev) : bool :=
  let a := acc_run base tol tr in
  a_ok a && match a_need a with None => true | Some _ => false end.
