(* C01: the property's own oracle.

   A *lifecycle trace* is the projection of a history of a channel onto the events the property
   talks about: requests accepted by an entry point, completion callbacks, the brackets of the
   application's top-level ares_cancel() and of ares_destroy(), and the end of the history.
   The same event type is produced by the code-shaped model (Lifecycle.v) and by the
   implementation (simulator log, projected by ocaml/chan01_drv.ml).

   [callback_monitor] is the executable specification (extracted and run on the
   implementation's trace); [trace_ok] is its declarative reading, [monitor_ok_iff] shows they
   coincide, so that the theorems of Properties_C01.v ("every trace of the model satisfies
   trace_ok") and the FAIL verdicts of the check talk about the same predicate. *)
From Coq Require Import List ZArith Lia Bool Arith.
Import ListNotations.

Inductive event :=
| EvReq (t : nat)                 (* request with token t accepted by an entry point *)
| EvCb (t : nat) (st : Z)         (* completion callback for token t with ares status st *)
| EvCancelBegin                   (* top-level ares_cancel() entered (not from a callback) *)
| EvCancelEnd                     (* ... returned *)
| EvSetServers                    (* ares_set_servers*() ran (possibly from a callback) *)
| EvDestroyBegin
| EvDestroyEnd                    (* ares_destroy() returned *)
| EvEnd.                          (* end of the history (the channel has been destroyed) *)

Inductive viol :=
| VDup (t : nat)                  (* more callbacks than requests for t (twice, or never requested) *)
| VAfterDestroy (t : nat)         (* callback after ares_destroy() returned *)
| VIncompleteAtDestroy (t : nat)  (* t not completed when ares_destroy() returned / at the end *)
| VIncompleteAtCancel (t : nat)   (* t was pending when ares_cancel() was called and still is when it returns *)
| VWrongStatusAtCancel (t : nat) (st : Z)   (* t, pending when ares_cancel() was called, completed inside it with a status other than ARES_ECANCELLED *)
| VWrongStatusAtDestroy (t : nat) (st : Z). (* t, pending when ares_destroy() was called, completed inside it with a status other than ARES_EDESTRUCTION (or ARES_ECANCELLED) *)

Definition count_req (tr : list event) (t : nat) : nat :=
  length (filter (fun e => match e with EvReq t' => Nat.eqb t t' | _ => false end) tr).
Definition count_cb (tr : list event) (t : nat) : nat :=
  length (filter (fun e => match e with EvCb t' _ => Nat.eqb t t' | _ => false end) tr).
Definition req_tokens (tr : list event) : list nat :=
  flat_map (fun e => match e with EvReq t => [t] | _ => [] end) tr.
Definition is_destroy_end (e : event) : bool := match e with EvDestroyEnd => true | _ => false end.
Definition is_cancel_begin (e : event) : bool := match e with EvCancelBegin => true | _ => false end.
Definition is_set_servers (e : event) : bool := match e with EvSetServers => true | _ => false end.

(* position of the last EvCancelBegin in a prefix *)
Fixpoint last_cancel_begin (pre : list event) (i : nat) (acc : option nat) : option nat :=
  match pre with
  | [] => acc
  | e :: r => last_cancel_begin r (S i) (if is_cancel_begin e then Some i else acc)
  end.

Definition incomplete (pre : list event) (t : nat) : bool := negb (count_cb pre t =? count_req pre t).

(* what is wrong with the event at position i, if anything *)
Definition pos_check (tr : list event) (i : nat) : option viol :=
  let pre := firstn i tr in
  match nth_error tr i with
  | Some (EvCb t _) =>
      if existsb is_destroy_end pre then Some (VAfterDestroy t)
      else if count_cb pre t <? count_req pre t then None else Some (VDup t)
  | Some EvDestroyEnd | Some EvEnd =>
      match find (incomplete pre) (req_tokens pre) with
      | Some t => Some (VIncompleteAtDestroy t) | None => None end
  | Some EvCancelEnd =>
      match last_cancel_begin pre 0 None with
      | Some j =>
          let before := firstn j tr in
          match find (fun t => count_cb pre t <? count_req before t) (req_tokens before) with
          | Some t => Some (VIncompleteAtCancel t) | None => None end
      | None => None
      end
  | _ => None
  end.

Definition violations (tr : list event) : list viol :=
  flat_map (fun i => match pos_check tr i with Some v => [v] | None => [] end) (seq 0 (length tr)).

Inductive verdict := VOk | VBad (v : viol).

Definition callback_monitor (tr : list event) : verdict :=
  match violations tr with [] => VOk | v :: _ => VBad v end.

(* ------------------------------------------------------------------------------------- *)
(* Declarative reading                                                                    *)
(* ------------------------------------------------------------------------------------- *)

(* every callback is preceded by strictly more requests than callbacks for its token
   (never twice, never for an unknown token) and by no completed ares_destroy() *)
Definition at_most_once (tr : list event) : Prop :=
  forall pre t st post, tr = pre ++ EvCb t st :: post -> count_cb pre t < count_req pre t.
Definition none_after_destroy (tr : list event) : Prop :=
  forall pre t st post, tr = pre ++ EvCb t st :: post -> ~ In EvDestroyEnd pre.
(* when ares_destroy() has returned (and at the end of the history) every request made so far
   has had exactly as many callbacks as requests *)
Definition complete_at_destroy (tr : list event) : Prop :=
  forall pre e post, tr = pre ++ e :: post -> (e = EvDestroyEnd \/ e = EvEnd) ->
    forall t, In (EvReq t) pre -> count_cb pre t = count_req pre t.
(* when a top-level ares_cancel() returns, every request made before it was entered has been
   completed *)
Definition complete_at_cancel (tr : list event) : Prop :=
  forall before mid post, tr = before ++ EvCancelBegin :: mid ++ EvCancelEnd :: post ->
    ~ In EvCancelBegin mid ->
    forall t, In (EvReq t) before -> count_req before t <= count_cb (before ++ EvCancelBegin :: mid) t.

Definition trace_ok (tr : list event) : Prop :=
  at_most_once tr /\ none_after_destroy tr /\ complete_at_destroy tr /\ complete_at_cancel tr.

(* ------------------------------------------------------------------------------------- *)
(* The status with which a request ends when the application cancels / destroys           *)
(* ------------------------------------------------------------------------------------- *)
(* ARES_ECANCELLED = 24, ARES_EDESTRUCTION = 16 (coq/Gen/Consts.v; Lifecycle_status.v checks that) *)
Definition ST_CANCELLED : Z := 24%Z.
Definition ST_DESTRUCTION : Z := 16%Z.

Definition is_cancel_end (e : event) : bool := match e with EvCancelEnd => true | _ => false end.
Definition is_destroy_begin (e : event) : bool := match e with EvDestroyBegin => true | _ => false end.
Definition is_req_of (t : nat) (e : event) : bool := match e with EvReq t' => Nat.eqb t t' | _ => false end.
(* what takes a running ares_destroy() out of the documented use: a request or a server-list
   change made from a callback *)
Definition disturbs (e : event) : bool := match e with EvReq _ | EvSetServers => true | _ => false end.

(* position of the last event satisfying p *)
Fixpoint last_pos (p : event -> bool) (pre : list event) (i : nat) (acc : option nat) : option nat :=
  match pre with
  | [] => acc
  | e :: r => last_pos p r (S i) (if p e then Some i else acc)
  end.

(* a callback for t with status st after the events pre: inside a top-level ares_cancel() that
   has not returned, t requested before it, status not ARES_ECANCELLED *)
Definition cancel_bad (pre : list event) (t : nat) (st : Z) : bool :=
  match last_pos is_cancel_begin pre 0 None with
  | Some j => negb (existsb is_cancel_end (skipn j pre)) && existsb (is_req_of t) (firstn j pre)
              && negb (Z.eqb st ST_CANCELLED)
  | None => false
  end.

(* ... inside ares_destroy(), no request / server-list change made from a callback so far, t
   requested before it, status neither ARES_EDESTRUCTION nor (ares_cancel() from a callback)
   ARES_ECANCELLED *)
Definition destroy_bad (pre : list event) (t : nat) (st : Z) : bool :=
  match last_pos is_destroy_begin pre 0 None with
  | Some j => negb (existsb disturbs (skipn (S j) pre)) && existsb (is_req_of t) (firstn j pre)
              && negb (Z.eqb st ST_DESTRUCTION || Z.eqb st ST_CANCELLED)
  | None => false
  end.

Definition status_check (tr : list event) (i : nat) : option viol :=
  match nth_error tr i with
  | Some (EvCb t st) =>
      let pre := firstn i tr in
      if cancel_bad pre t st then Some (VWrongStatusAtCancel t st)
      else if destroy_bad pre t st then Some (VWrongStatusAtDestroy t st) else None
  | _ => None
  end.

Definition status_violations (tr : list event) : list viol :=
  flat_map (fun i => match status_check tr i with Some v => [v] | None => [] end) (seq 0 (length tr)).

Definition status_monitor (tr : list event) : verdict :=
  match status_violations tr with [] => VOk | v :: _ => VBad v end.

(* declarative reading *)
Definition status_at_cancel (tr : list event) : Prop :=
  forall before mid t st post, tr = before ++ EvCancelBegin :: mid ++ EvCb t st :: post ->
    ~ In EvCancelBegin mid -> ~ In EvCancelEnd mid -> In (EvReq t) before -> st = ST_CANCELLED.
Definition status_at_destroy (tr : list event) : Prop :=
  forall before mid t st post, tr = before ++ EvDestroyBegin :: mid ++ EvCb t st :: post ->
    ~ In EvDestroyBegin mid -> (forall e, In e mid -> disturbs e = false) -> In (EvReq t) before ->
    st = ST_DESTRUCTION \/ st = ST_CANCELLED.
Definition status_ok (tr : list event) : Prop := status_at_cancel tr /\ status_at_destroy tr.
