From CAres.Core Require Import Locks.
Local Open Scope nat_scope.

Section Run.
Variable progs : nat -> prog.
Hypothesis Hdisc : forall i, disciplined 0 (progs i) = true.

Definition linv (s : sys) : Prop :=
  (forall i, disciplined (fst (s i)) (snd (s i)) = true) /\
  (forall i j, fst (s i) > 0 -> fst (s j) > 0 -> i = j).

Lemma linv_initial : linv (initial progs).
Proof.
  split.
  - intros i. unfold initial; simpl. apply Hdisc.
  - intros i j Hi. unfold initial in Hi; simpl in Hi. lia.
Qed.

Lemma upd_same s i t : upd s i t i = t.
Proof. unfold upd. rewrite Nat.eqb_refl. reflexivity. Qed.

Lemma upd_other s i t j : j <> i -> upd s i t j = s j.
Proof. intros H. unfold upd. destruct (Nat.eqb_spec j i); [contradiction | reflexivity]. Qed.

Lemma linv_step s i s' : linv s -> step s i s' -> linv s'.
Proof.
  intros [Hd Hm] Hs. inversion Hs as [d r Hi Hfree | d r Hi | d f w r Hi]; subst s'.
  - (* Acq *)
    split.
    + intros k. destruct (Nat.eq_dec k i) as [->|Hk].
      * rewrite upd_same; simpl. specialize (Hd i). rewrite Hi in Hd; simpl in Hd. exact Hd.
      * rewrite upd_other by assumption. apply Hd.
    + intros a b Ha Hb.
      destruct (Nat.eq_dec a i) as [->|Hai]; destruct (Nat.eq_dec b i) as [->|Hbi]; auto.
      * rewrite upd_other in Hb by assumption. specialize (Hfree b Hbi). lia.
      * rewrite upd_other in Ha by assumption. specialize (Hfree a Hai). lia.
      * rewrite upd_other in Ha, Hb by assumption. auto.
  - (* Rel *)
    split.
    + intros k. destruct (Nat.eq_dec k i) as [->|Hk].
      * rewrite upd_same; simpl. specialize (Hd i). rewrite Hi in Hd; simpl in Hd. exact Hd.
      * rewrite upd_other by assumption. apply Hd.
    + intros a b Ha Hb.
      assert (Hio : fst (s i) > 0) by (rewrite Hi; simpl; lia).
      destruct (Nat.eq_dec a i) as [->|Hai]; destruct (Nat.eq_dec b i) as [->|Hbi]; auto.
      * rewrite upd_other in Hb by assumption. symmetry. apply Hm; assumption.
      * rewrite upd_other in Ha by assumption. apply Hm; assumption.
      * rewrite upd_other in Ha, Hb by assumption. auto.
  - (* Acc *)
    split.
    + intros k. destruct (Nat.eq_dec k i) as [->|Hk].
      * rewrite upd_same; simpl. specialize (Hd i). rewrite Hi in Hd; simpl in Hd.
        apply andb_prop in Hd. apply Hd.
      * rewrite upd_other by assumption. apply Hd.
    + intros a b Ha Hb.
      assert (Hfi : fst (upd s i (d, r) i) = fst (s i)) by (rewrite upd_same, Hi; reflexivity).
      destruct (Nat.eq_dec a i) as [->|Hai]; destruct (Nat.eq_dec b i) as [->|Hbi]; auto.
      * rewrite Hfi in Ha. rewrite upd_other in Hb by assumption. symmetry. apply Hm; assumption.
      * rewrite Hfi in Hb. rewrite upd_other in Ha by assumption. apply Hm; assumption.
      * rewrite upd_other in Ha, Hb by assumption. auto.
Qed.

Lemma linv_reach s : reach (initial progs) s -> linv s.
Proof.
  induction 1 as [|s i s' _ IH Hs]; [apply linv_initial | eapply linv_step; eassumption].
Qed.

(* no data race in any reachable state of any interleaving *)
Theorem no_race s : reach (initial progs) s -> ~ race s.
Proof.
  intros Hr [i [j [f [w1 [w2 [d1 [r1 [d2 [r2 [Hij [Hi [Hj _]]]]]]]]]]]].
  destruct (linv_reach s Hr) as [Hd Hm].
  pose proof (Hd i) as Di. rewrite Hi in Di; simpl in Di. apply andb_prop in Di. destruct Di as [Di _].
  pose proof (Hd j) as Dj. rewrite Hj in Dj; simpl in Dj. apply andb_prop in Dj. destruct Dj as [Dj _].
  apply Hij. apply Hm.
  - rewrite Hi; simpl. destruct d1; [discriminate | lia].
  - rewrite Hj; simpl. destruct d2; [discriminate | lia].
Qed.

(* no deadlock, for a finite set of n threads: whenever some thread has work left, some
   thread can take a step *)
Variable n : nat.
Hypothesis Hfin : forall i, n <= i -> progs i = [].

Lemma idle_reach s : reach (initial progs) s -> forall i, n <= i -> s i = (0, []).
Proof.
  induction 1 as [|s k s' _ IH Hs]; intros i Hi.
  - unfold initial. rewrite Hfin by assumption. reflexivity.
  - specialize (IH i Hi).
    inversion Hs as [d r Hk Hfree | d r Hk | d f w r Hk]; subst s';
      (destruct (Nat.eq_dec i k) as [->|Hne]; [rewrite IH in Hk; discriminate | rewrite upd_other by assumption; exact IH]).
Qed.

Lemma owner_or_free (s : sys) m : (exists j, j < m /\ fst (s j) > 0) \/ (forall j, j < m -> fst (s j) = 0).
Proof.
  induction m as [|m IH].
  - right. intros j Hj. lia.
  - destruct IH as [[j [Hj Hd]]|IH].
    + left. exists j. split; [lia | assumption].
    + destruct (fst (s m)) eqn:Em.
      * right. intros j Hj. destruct (Nat.eq_dec j m) as [->|Hne]; [assumption | apply IH; lia].
      * left. exists m. split; [lia | lia].
Qed.

Theorem no_deadlock s : reach (initial progs) s ->
  (exists i, unfinished s i) -> exists k, enabled s k.
Proof.
  intros Hr [i Hi]. destruct (linv_reach s Hr) as [Hd Hm].
  pose proof (idle_reach s Hr) as Hidle.
  destruct (owner_or_free s n) as [[o [Ho Hod]]|Hfree].
  - (* the owner can always proceed *)
    exists o. pose proof (Hd o) as Do. destruct (s o) as [d p] eqn:Eo. simpl in Hod, Do.
    destruct p as [|a r].
    + simpl in Do. destruct d; [lia | discriminate].
    + destruct a as [| |f w].
      * eexists. eapply step_acq; [eassumption|].
        intros j Hj. destruct (fst (s j)) eqn:Ej; [reflexivity|].
        exfalso. apply Hj. apply Hm; [rewrite Ej; lia | rewrite Eo; simpl; lia].
      * destruct d; [lia|]. eexists. eapply step_rel; eassumption.
      * eexists. eapply step_acc; eassumption.
  - (* nobody holds the lock: the unfinished thread i can proceed *)
    assert (Hall : forall j, fst (s j) = 0).
    { intros j. destruct (Nat.lt_ge_cases j n) as [Hlt|Hge]; [apply Hfree; assumption | rewrite Hidle by assumption; reflexivity]. }
    exists i. pose proof (Hd i) as Di. destruct (s i) as [d p] eqn:Ei.
    assert (d = 0) by (specialize (Hall i); rewrite Ei in Hall; exact Hall). subst d.
    unfold unfinished in Hi. rewrite Ei in Hi. simpl in Hi, Di.
    destruct p as [|a r]; [contradiction|].
    destruct a as [| |f w].
    + eexists. eapply step_acq; [eassumption|]. intros j _. apply Hall.
    + simpl in Di. discriminate.
    + simpl in Di. discriminate.
Qed.

End Run.

(* ares_queue_wait_empty returns success only when the queue is empty at the moment of return *)
Lemma wait_empty_success len obs l : wait_empty len obs = Some (true, l) -> l = 0.
Proof.
  revert len; induction obs as [|o r IH]; intros len H.
  - destruct len; simpl in H; [injection H as <-; reflexivity | discriminate].
  - destruct len as [|len]; simpl in H; [injection H as <-; reflexivity|].
    destruct o as [l'|]; [eapply IH; eassumption | discriminate].
Qed.

Lemma wait_empty_success_last len obs :
  wait_empty len obs = Some (true, 0) ->
  len = 0 \/ exists pre post, obs = pre ++ Woken 0 :: post.
Proof.
  revert len; induction obs as [|o r IH]; intros len H; destruct len as [|len]; simpl in H; auto; try discriminate.
  destruct o as [l|]; [|discriminate].
  destruct (IH l H) as [->|[pre [post ->]]].
  - right. exists [], r. reflexivity.
  - right. exists (Woken l :: pre), post. reflexivity.
Qed.

(* no lost wake-up: whenever the queue is empty no waiter is still blocked *)
Lemma wq_inv_step s e : (w_len s = 0 -> w_blocked s = []) -> (w_len (wstep true s e) = 0 -> w_blocked (wstep true s e) = []).
Proof.
  intros Hinv. destruct e as [|i|]; simpl.
  - discriminate.
  - destruct (w_len s) eqn:E; simpl; [rewrite E; exact Hinv | discriminate].
  - destruct (w_len s) as [|[|n]] eqn:E; simpl; [rewrite E; exact Hinv | reflexivity | discriminate].
Qed.

Theorem no_lost_wakeup tr : w_len (wrun true tr) = 0 -> w_blocked (wrun true tr) = [].
Proof.
  unfold wrun.
  assert (H : forall s, (w_len s = 0 -> w_blocked s = []) ->
                        w_len (fold_left (wstep true) tr s) = 0 -> w_blocked (fold_left (wstep true) tr s) = []).
  { induction tr as [|e r IH]; intros s Hs; simpl; [exact Hs|]. apply IH. apply wq_inv_step. exact Hs. }
  apply H. reflexivity.
Qed.

(* with a single-waiter signal instead of a broadcast a second waiter is lost *)
Theorem lost_wakeup_with_signal :
  exists tr, w_len (wrun false tr) = 0 /\ w_blocked (wrun false tr) <> [].
Proof. exists [WSubmit; WEnter 1; WEnter 2; WDone]. vm_compute. split; [reflexivity | discriminate]. Qed.
