(* C06: the retry machine transmits a bounded number of times and always terminates. *)
From CAres.Base Require Import CInt.
From CAres.Gen Require Import Consts.
From CAres.Core Require Import Time_proofs Retry Retry_inv.
Local Open Scope Z_scope.

Ltac Zify.zify_post_hook ::= Z.div_mod_to_equations.

Section Main.
  Variable cfg : config.
  Variables usevc0 has_opt0 no_retries0 : bool.
  Hypothesis strict : cfg_strict cfg = true.
  Hypothesis tries_pos : 1 <= cfg_tries cfg.
  Hypothesis smax_pos : 1 <= cfg_smax cfg.
  Hypothesis budget_fits : cfg_smax cfg * cfg_tries cfg < 2 ^ 64.

  Notation Inv := (Inv cfg usevc0 has_opt0).
  Notation Good := (Good cfg usevc0 has_opt0).
  Notation rank := (rank cfg usevc0 has_opt0).
  Notation input_ok := (input_ok cfg).

  Lemma good_refl q tx : Inv q tx -> Good q tx q [].
  Proof. intros H. split; [cbn; rewrite Z.add_0_r; exact H | left; reflexivity]. Qed.

  (* ---- one event ---- *)
  Lemma step_good q tx i ok q' outs :
    Inv q tx -> input_ok i -> step cfg q i = (ok, q', outs) -> Good q tx q' outs.
  Proof.
    intros H Hi E. unfold step in E. unfold Retry_inv.input_ok in Hi.
    destruct (q_ended q) as [st|] eqn:Een.
    - (* ended: only bookkeeping of the requeue array *)
      destruct i; try (injection E as <- <- <-; apply good_refl; exact H).
      destruct (q_queued q) as [|n] eqn:Eq; injection E as <- <- <-; [apply good_refl; exact H|].
      destruct q as [tc cc ut ho rc nr es cn qu sd en]. cbn in Een, Eq. subst en qu.
      unfold Retry_inv.Good, Retry_inv.rank, Retry_inv.Inv, set_queued in *. cbn in *.
      destruct H as (H1 & H2 & H3 & H4 & H5 & H6 & H7 & H8 & H9 & H10 & H11 & H12).
      rewrite Z.add_0_r.
      destruct (H11 ltac:(discriminate)) as [-> ->].
      split; [|right; lia].
      repeat split; try lia; try congruence; auto; try discriminate.
    - destruct (q_sending q) eqn:Esd.
      + destruct i; try (injection E as <- <- <-; apply good_refl; exact H). cbn in Hi.
        destruct (do_send cfg servers q o) as [q1 o1] eqn:Ed. injection E as <- <- <-.
        eapply do_send_inv; eauto.
      + destruct i; cbn in Hi.
        * injection E as <- <- <-. apply good_refl; exact H.
        * destruct (q_conn q) as [c|] eqn:Ec; [|injection E as <- <- <-; apply good_refl; exact H].
          destruct (requeue_query cfg servers q ARES_ETIMEOUT true false) as [q1 o1] eqn:Er.
          injection E as <- <- <-.
          eapply requeue_query_inv; eauto.
          unfold Retry_inv.Inv in H. destruct H as (_ & _ & _ & _ & _ & H6 & _).
          destruct (H6 c Ec) as (_ & _ & F & _). exact F.
        * destruct (q_conn q) as [c|] eqn:Ec; [|injection E as <- <- <-; apply good_refl; exact H].
          destruct (requeue_query cfg servers q status true false) as [q1 o1] eqn:Er.
          injection E as <- <- <-.
          eapply requeue_query_inv; eauto.
          unfold Retry_inv.Inv in H. destruct H as (_ & _ & _ & _ & _ & H6 & _).
          destruct (H6 c Ec) as (_ & _ & F & _). exact F.
        * rewrite strict in E. cbn [andb] in E.
          destruct (same_conn && match q_conn q with Some c => Bool.eqb c on_tcp | None => false end) eqn:Eon;
            cbn [negb] in E; [|injection E as <- <- <-; apply good_refl; exact H].
          apply andb_prop in Eon. destruct Eon as [_ Eon].
          destruct (q_conn q) as [c|] eqn:Ec; [|discriminate].
          apply Bool.eqb_prop in Eon. subst c.
          destruct (do_reply cfg servers q on_tcp k) as [q1 o1] eqn:Ed. injection E as <- <- <-.
          eapply do_reply_inv; eauto.
        * destruct (q_queued q) as [|n] eqn:Eq; injection E as <- <- <-; [apply good_refl; exact H|].
          destruct q as [tc cc ut ho rc nr es cn qu sd en]. cbn in Een, Eq, Esd. subst en qu sd.
          unfold Retry_inv.Good, Retry_inv.rank, Retry_inv.phase, Retry_inv.Inv, Retry_inv.credit, set_queued, set_sending in *.
          cbn -[e_used t_used Z.mul Z.add Z.sub] in *.
          destruct H as (H1 & H2 & H3 & H4 & H5 & H6 & H7 & H8 & H9 & H10 & H11 & H12).
          assert (n = O) as -> by lia.
          destruct cn as [c|]; [destruct (H6 c eq_refl) as (_ & _ & F & _); discriminate|].
          destruct (H10 eq_refl) as [_ H10b]. destruct (H10b eq_refl) as [Htx _].
          rewrite Z.add_0_r.
          split; [|right; lia].
          repeat split; try lia; try congruence; auto; try discriminate.
  Qed.

  Lemma count_tx_app a b : count_tx (a ++ b) = count_tx a + count_tx b.
  Proof. unfold count_tx. rewrite filter_app, app_length, Nat2Z.inj_add. reflexivity. Qed.

  Lemma count_tx_nonneg a : 0 <= count_tx a.
  Proof. unfold count_tx. lia. Qed.

  (* ---- any sequence of events ---- *)
  Lemma run_inv ins : forall q tx q' outs,
    Inv q tx -> Forall input_ok ins -> run cfg q ins = (q', outs) -> Inv q' (tx + count_tx outs).
  Proof.
    induction ins as [|i r IH]; intros q tx q' outs H Hok E; cbn [run] in E.
    - injection E as <- <-. cbn. rewrite Z.add_0_r. exact H.
    - inversion Hok as [|? ? Hi Hr]; subst.
      destruct (step cfg q i) as [[ok q1] o1] eqn:Es.
      destruct ok.
      + destruct (run cfg q1 r) as [q2 o2] eqn:Er. injection E as <- <-.
        destruct (step_good q tx i true q1 o1 H Hi Es) as [H1 _].
        rewrite count_tx_app, Z.add_assoc. eapply IH; eauto.
      + eapply IH; eauto.
  Qed.

  (* C06: whatever the servers, the network and the clock do, one query is transmitted at most
     servers x tries + 1 (EDNS downgrade) + 1 (TCP upgrade) + COOKIE_RESEND_MAX times *)
  Theorem transmissions_bounded ins :
    Forall input_ok ins ->
    count_tx (snd (run cfg (q_init usevc0 has_opt0 no_retries0) ins)) <= bound cfg.
  Proof.
    intros Hok. destruct (run cfg (q_init usevc0 has_opt0 no_retries0) ins) as [q' outs] eqn:E. cbn [snd].
    pose proof (run_inv ins _ 0 q' outs (inv_init cfg usevc0 has_opt0 no_retries0 tries_pos smax_pos) Hok E) as H.
    unfold Retry_inv.Inv in H. destruct H as (_ & _ & _ & _ & _ & _ & _ & _ & _ & _ & _ & H12). lia.
  Qed.

  (* ---- acceptor over implementation traces ---- *)
  Lemma output_eqb_tx a b : output_eqb a b = true ->
    (match a with OTx _ _ => true | _ => false end) = (match b with OTx _ _ => true | _ => false end).
  Proof. destruct a, b; cbn; intros; congruence. Qed.

  Lemma transmissions_cons_in i tr : transmissions (EvIn i :: tr) = transmissions tr.
  Proof. reflexivity. Qed.

  Lemma expect_tx outs : forall tr tr',
    expect outs tr = Some tr' -> transmissions tr = count_tx outs + transmissions tr'.
  Proof.
    induction outs as [|o r IH]; intros tr tr' E; cbn [expect] in E.
    - injection E as <-. cbn. lia.
    - destruct tr as [|[i|o'] tr0]; try discriminate.
      destruct (output_eqb o o') eqn:Eo; [|discriminate].
      specialize (IH _ _ E). apply output_eqb_tx in Eo.
      unfold transmissions, count_tx in *. cbn [filter]. rewrite <- Eo.
      destruct o; cbn [length]; lia.
  Qed.

  Lemma accepts_inv fuel : forall q tx tr,
    Inv q tx -> accepts_from cfg fuel q tr = true -> tx + transmissions tr <= bound cfg.
  Proof.
    induction fuel as [|fuel IH]; intros q tx tr H A; cbn [accepts_from] in A; [discriminate|].
    destruct tr as [|[i|o] tr'].
    - unfold Retry_inv.Inv in H. destruct H as (_ & _ & _ & _ & _ & _ & _ & _ & _ & _ & _ & H12).
      unfold transmissions. cbn. lia.
    - destruct (negb match servers_of i with Some s => (0 <=? s) && (s <=? cfg_smax cfg) | None => true end) eqn:Es;
        [discriminate|].
      destruct (step cfg q i) as [[ok q1] outs] eqn:Est.
      destruct ok; cbn [negb] in A; [|discriminate].
      destruct (expect outs tr') as [tr''|] eqn:Ex; [|discriminate].
      assert (input_ok i) as Hi.
      { unfold Retry_inv.input_ok. destruct (servers_of i); [|exact I].
        apply negb_false_iff in Es. apply andb_prop in Es. destruct Es as [E1 E2]. b2p. lia. }
      destruct (step_good q tx i true q1 outs H Hi Est) as [H1 _].
      specialize (IH q1 _ tr'' H1 A).
      rewrite transmissions_cons_in, (expect_tx outs tr' tr'' Ex). lia.
    - discriminate.
  Qed.

  (* an implementation trace accepted by the model has a bounded number of transmissions *)
  Theorem accepted_trace_bounded tr :
    retry_accepts cfg (q_init usevc0 has_opt0 no_retries0) tr = true -> transmissions tr <= bound cfg.
  Proof.
    intros A. unfold retry_accepts in A.
    pose proof (accepts_inv _ _ 0 tr (inv_init cfg usevc0 has_opt0 no_retries0 tries_pos smax_pos) A). lia.
  Qed.

  (* ---- termination ---- *)
  Lemma rank_nonneg q tx : Inv q tx -> 0 <= rank q.
  Proof.
    intros H. unfold Retry_inv.rank, Retry_inv.phase, Retry_inv.Inv, Retry_inv.credit in *.
    destruct H as (H1 & H2 & H3 & H4 & H5 & H6 & H7 & H8 & H9 & H10 & H11 & H12).
    pose proof (e_used_range cfg has_opt0 (q_has_opt q)). pose proof (t_used_range cfg usevc0 (q_using_tcp q)).
    unfold COOKIE_RESEND_MAX in *.
    destruct (q_ended q); [lia|]. specialize (H9 eq_refl).
    destruct (q_sending q); [lia|]. destruct (q_conn q); lia.
  Qed.

  (* number of events of a run that changed the state *)
  Fixpoint changes (q : qstate) (ins : list input) : Z :=
    match ins with
    | [] => 0
    | i :: r =>
        let '(ok, q', _) := step cfg q i in
        if ok then (if Z.eq_dec (rank q') (rank q) then 0 else 1) + changes q' r
        else changes q r
    end.

  Lemma changes_bounded ins : forall q tx,
    Inv q tx -> Forall input_ok ins -> changes q ins <= rank q.
  Proof.
    induction ins as [|i r IH]; intros q tx H Hok; cbn [changes].
    - eapply rank_nonneg; eauto.
    - inversion Hok as [|? ? Hi Hr]; subst.
      destruct (step cfg q i) as [[ok q1] o1] eqn:Es.
      destruct ok; [|eapply IH; eauto].
      destruct (step_good q tx i true q1 o1 H Hi Es) as [H1 Hrk].
      specialize (IH q1 _ H1 Hr).
      destruct (Z.eq_dec (rank q1) (rank q)) as [Eq|Ne]; [lia|].
      destruct Hrk as [->|Hlt]; [congruence | lia].
  Qed.

  Definition rank0 : Z := 3 * (cfg_smax cfg * cfg_tries cfg + 5) + 3.

  (* C06 termination, part 1: along ANY sequence of events at most rank0 of them change the
     state of the query - the machine cannot cycle; every event that re-sends, re-queues or
     fails the query strictly decreases [rank] *)
  Theorem state_changes_bounded ins :
    Forall input_ok ins -> changes (q_init usevc0 has_opt0 no_retries0) ins <= rank0.
  Proof.
    intros Hok.
    pose proof (changes_bounded ins _ 0 (inv_init cfg usevc0 has_opt0 no_retries0 tries_pos smax_pos) Hok) as H.
    assert (rank (q_init usevc0 has_opt0 no_retries0) <= rank0) as Hr.
    { unfold Retry_inv.rank, Retry_inv.phase, Retry_inv.credit, q_init, rank0.
      cbn -[Z.mul Z.add Z.sub e_used t_used].
      pose proof (e_used_range cfg has_opt0 has_opt0). pose proof (t_used_range cfg usevc0 usevc0). lia. }
    lia.
  Qed.

  (* part 2: a query that is outstanding always reacts to its deadline passing, and when its
     budget is used up (or it must not be retried) the failure completes it with a definite
     (non-success) status *)
  Theorem failure_when_exhausted_ends q tx c servers :
    Inv q tx -> q_ended q = None -> q_sending q = false -> q_conn q = Some c ->
    0 <= servers <= cfg_smax cfg ->
    (q_no_retries q = true \/ servers * cfg_tries cfg <= q_try_count q + 1) ->
    exists q' st, step cfg q (ITimeout servers) = (true, q', [ODone st]) /\
                  q_ended q' = Some st /\ st <> ARES_SUCCESS.
  Proof.
    intros H He Hsd Hc Hs Hex.
    destruct (max_tries_ok cfg tries_pos budget_fits servers Hs) as [Em _].
    unfold step. rewrite He, Hsd, Hc.
    unfold requeue_query. rewrite Em. cbv zeta.
    unfold Retry_inv.Inv in H. destruct H as (H1 & _ & _ & _ & _ & _ & _ & _ & H9 & _).
    specialize (H9 He). fold (cfg_smax cfg * cfg_tries cfg) in H9.
    assert ((q_try_count q + 1) mod 2 ^ 64 = q_try_count q + 1) as Emod by (apply Z.mod_small; pows; lia).
    cbn [set_conn q_try_count q_no_retries q_error_status]. rewrite Emod.
    assert (((q_try_count q + 1 <? servers * cfg_tries cfg) && negb (q_no_retries q)) = false) as G.
    { destruct Hex as [Hn|Hb]; [rewrite Hn; apply andb_false_r|].
      apply andb_false_iff. left. apply Z.ltb_ge. exact Hb. }
    cbn [q_no_retries q_try_count]. rewrite G.
    unfold end_query. eexists. eexists. split; [reflexivity|]. cbn [q_ended]. split; [reflexivity|].
    change (negb (ARES_ETIMEOUT =? ARES_SUCCESS)) with true. cbv iota.
    change (ARES_ETIMEOUT =? ARES_SUCCESS) with false. cbv iota. discriminate.
  Qed.

  (* a waiting query is never deaf to its timer: ITimeout is always accepted and changes it *)
  Theorem timeout_always_progresses q tx c servers :
    Inv q tx -> q_ended q = None -> q_sending q = false -> q_conn q = Some c ->
    0 <= servers <= cfg_smax cfg ->
    exists q' outs, step cfg q (ITimeout servers) = (true, q', outs) /\ rank q' < rank q.
  Proof.
    intros H He Hsd Hc Hs.
    destruct (step cfg q (ITimeout servers)) as [[ok q'] outs] eqn:Es.
    assert (ok = true) as ->.
    { unfold step in Es. rewrite He, Hsd, Hc in Es.
      destruct (requeue_query cfg servers q ARES_ETIMEOUT true false). injection Es as <- _ _. reflexivity. }
    exists q', outs. split; [reflexivity|].
    destruct (step_good q tx (ITimeout servers) true q' outs H Hs Es) as [_ [Eq|Hlt]]; [|exact Hlt].
    exfalso. subst q'. unfold step in Es. rewrite He, Hsd, Hc in Es.
    unfold requeue_query in Es. cbv zeta in Es.
    destruct ((_ <? _) && _) in Es.
    - injection Es as Es _. apply (f_equal q_sending) in Es. cbn in Es. congruence.
    - unfold end_query in Es. injection Es as Es _. apply (f_equal q_ended) in Es. cbn in Es. congruence.
  Qed.

  (* ---- the requeue array is always flushed when a read ends ---- *)
  Lemma reply_keeps_not_sending q servers on_tcp same r ok q' outs :
    q_sending q = false -> step cfg q (IReply servers on_tcp same r) = (ok, q', outs) -> q_sending q' = false.
  Proof.
    intros Hs E. unfold step in E. destruct (q_ended q) eqn:Ee.
    - injection E as _ <- _. exact Hs.
    - rewrite Hs in E.
      destruct (cfg_strict cfg && negb (same && match q_conn q with Some c => Bool.eqb c on_tcp | None => false end)).
      + injection E as _ <- _. exact Hs.
      + destruct (do_reply cfg servers q on_tcp r) as [q1 o1] eqn:Ed. injection E as _ <- _.
        unfold do_reply, requeue_query, append_requeue, end_query, set_queued, set_conn, set_sending in Ed.
        cbv zeta in Ed.
        repeat match type of Ed with
          | (if ?b then _ else _) = _ => destruct b
          | (match ?x with Some _ => _ | None => _ end) = _ => destruct x
          end; injection Ed as <- _; cbn; try reflexivity; exact Hs.
  Qed.

  (* the walk keeps the invariant; unless it re-queued the query through the connection
     error, the query is not inside ares_send_query afterwards *)
  Lemma read_walk_inv servers on_tcp this_conn (Hs : 0 <= servers <= cfg_smax cfg) items : forall q tx q' outs e,
    Inv q tx -> q_sending q = false ->
    read_walk cfg servers on_tcp this_conn q items = (q', outs, e) ->
    Inv q' (tx + count_tx outs) /\ (q_sending q' = true -> q_queued q' = O).
  Proof.
    induction items as [|it rest IH]; intros q tx q' outs e H Hsd E; cbn [read_walk] in E.
    - injection E as <- <- _. cbn. rewrite Z.add_0_r. split; [exact H|]. intros F. congruence.
    - destruct it as [r| |].
      + destruct (step cfg q (IReply servers on_tcp this_conn r)) as [[ok q1] o1] eqn:Es.
        destruct (read_walk cfg servers on_tcp this_conn q1 rest) as [[q2 o2] e2] eqn:Ew.
        injection E as <- <- _.
        destruct (step_good q tx (IReply servers on_tcp this_conn r) ok q1 o1 H Hs Es) as [H1 _].
        pose proof (reply_keeps_not_sending q servers on_tcp this_conn r ok q1 o1 Hsd Es) as Hsd1.
        rewrite count_tx_app, Z.add_assoc. eapply IH; eauto.
      + destruct (this_conn && match q_conn q with Some c => Bool.eqb c on_tcp | None => false end).
        * destruct (step cfg q (IConnClosed servers ARES_EBADRESP)) as [[ok q1] o1] eqn:Es.
          injection E as <- <- _.
          destruct (step_good q tx (IConnClosed servers ARES_EBADRESP) ok q1 o1 H Hs Es) as [H1 _]. split; [exact H1|].
          unfold Retry_inv.Inv in H1. destruct H1 as (_ & _ & _ & _ & _ & _ & H7 & _). exact H7.
        * injection E as <- <- _. cbn. rewrite Z.add_0_r. split; [exact H|]. congruence.
      + destruct (this_conn && match q_conn q with Some c => Bool.eqb c on_tcp | None => false end).
        * destruct (step cfg q (IConnClosed servers ARES_ECONNREFUSED)) as [[ok q1] o1] eqn:Es.
          injection E as <- <- _.
          destruct (step_good q tx (IConnClosed servers ARES_ECONNREFUSED) ok q1 o1 H Hs Es) as [H1 _]. split; [exact H1|].
          unfold Retry_inv.Inv in H1. destruct H1 as (_ & _ & _ & _ & _ & _ & H7 & _). exact H7.
        * injection E as <- <- _. cbn. rewrite Z.add_0_r. split; [exact H|]. congruence.
  Qed.

  (* C06: whatever the read contained and whatever happened to the connection, when
     read_answers returns the query is not left in the (destroyed) requeue array: it has been
     handed to ares_send_query, or completed, or is still outstanding on a connection *)
  Theorem read_batch_settles servers on_tcp this_conn q tx items q' outs :
    0 <= servers <= cfg_smax cfg ->
    Inv q tx -> q_sending q = false ->
    read_batch cfg true servers on_tcp this_conn q items = (q', outs) ->
    Inv q' (tx + count_tx outs) /\ settled q'.
  Proof.
    intros Hs H Hsd E. unfold read_batch in E.
    destruct (read_walk cfg servers on_tcp this_conn q items) as [[q1 o1] e] eqn:Ew.
    injection E as <- <-.
    destruct (read_walk_inv servers on_tcp this_conn Hs items q tx q1 o1 e H Hsd Ew) as [H1 Hq1].
    unfold read_flush. rewrite andb_false_r.
    destruct (q_queued q1) as [|n] eqn:Eq.
    - split; [exact H1|]. split; [exact Eq|].
      unfold Retry_inv.Inv in H1. destruct H1 as (_ & _ & _ & _ & _ & _ & _ & _ & _ & H10 & _).
      destruct (q_ended q1) eqn:Ee; [left; discriminate|]. right.
      destruct (H10 eq_refl) as [_ Hn]. destruct (q_conn q1) eqn:Ec; [right; discriminate|].
      destruct (Hn eq_refl) as [_ [Hsnd|Hqq]]; [left; exact Hsnd | congruence].
    - destruct (step cfg q1 IFlush) as [[ok q2] o2] eqn:Es.
      assert (q_sending q1 = false) as Hsd1.
      { destruct (q_sending q1) eqn:F; [|reflexivity]. specialize (Hq1 eq_refl). congruence. }
      destruct (step_good q1 _ IFlush ok q2 o2 H1 I Es) as [H2 _].
      assert (o2 = []) as ->.
      { unfold step in Es. rewrite Eq, Hsd1 in Es. destruct (q_ended q1); injection Es as _ _ <-; reflexivity. }
      cbn in H2. rewrite Z.add_0_r in H2. split; [exact H2|].
      assert (n = O) as ->.
      { unfold Retry_inv.Inv in H1. destruct H1 as (_ & _ & _ & _ & _ & _ & _ & H8 & _). lia. }
      unfold step in Es. rewrite Eq, Hsd1 in Es.
      destruct (q_ended q1) eqn:Ee; injection Es as _ <- ; unfold settled, set_queued, set_sending; cbn.
      + split; [reflexivity|]. left. rewrite Ee. discriminate.
      + split; [reflexivity|]. right. left. reflexivity.
  Qed.
End Main.

(* the variant that skips the flush on the error path: a query detached by SERVFAIL and followed,
   in the same read, by a message that does not parse is orphaned - no connection, no timer, not
   being sent, never completed *)
Theorem read_batch_without_flush_refuted :
  exists cfg q items q' outs,
    cfg_strict cfg = true /\ q_conn q = Some false /\ q_ended q = None /\
    read_batch cfg false 1 false true q items = (q', outs) /\ orphaned q' /\ q_queued q' = O /\
    (* while the real code re-sends it *)
    settled (fst (read_batch cfg true 1 false true q items)).
Proof.
  exists (Config 3 1 false false true).
  exists (fst (run (Config 3 1 false false true) (q_init false true false) [ISend 1 (SoWriteOk false)])).
  exists [BReply (RkErr ARES_ESERVFAIL); BMalformed].
  eexists. eexists. split; [reflexivity|]. split; [reflexivity|]. split; [reflexivity|].
  split; [vm_compute; reflexivity|].
  split; [repeat split|]. split; [reflexivity|].
  vm_compute. split; [reflexivity|]. right. left. reflexivity.
Qed.

(* ---- the pinned code (replies matched by id and question only): NOT bounded ---- *)
Definition pinned_cfg : config := Config 1 1 false false false.
Definition dup_tc_inputs (n : nat) : list input :=
  ISend 1 (SoWriteOk false) :: repeat (IReply 1 false true RkTC) n
  ++ flat_map (fun _ => [IFlush; ISend 1 (SoWriteOk false)]) (repeat tt n).

Theorem pinned_transmissions_refuted :
  exists ins, Forall (input_ok pinned_cfg) ins /\
    count_tx (snd (run pinned_cfg (q_init false true false) ins)) > bound pinned_cfg.
Proof.
  exists (dup_tc_inputs 8). split.
  - unfold dup_tc_inputs. repeat constructor; cbn; lia.
  - vm_compute. reflexivity.
Qed.

(* with the guard (strict) the same events give one TCP re-send *)
Example strict_same_inputs :
  count_tx (snd (run (Config 1 1 false false true) (q_init false true false) (dup_tc_inputs 8))) = 2.
Proof. vm_compute. reflexivity. Qed.

(* the hypotheses of the bound are satisfiable and the machine is not trivial: 1 server, 1 try,
   three BADCOOKIE re-sends (the third over TCP) and an EDNS downgrade: 5 transmissions of the
   6 allowed, then a timeout completes the query with ARES_ETIMEOUT *)
Example strict_near_bound :
  let cfg := Config 1 1 false false true in
  let ins := [ISend 1 (SoWriteOk true); IReply 1 false true RkBadCookie; IFlush;
              ISend 1 (SoWriteOk true); IReply 1 false true RkBadCookie; IFlush;
              ISend 1 (SoWriteOk true); IReply 1 false true RkBadCookie; IFlush;
              ISend 1 (SoWriteOk false); IReply 1 true true RkEdns; IFlush;
              ISend 1 (SoWriteOk false); ITimeout 1] in
  let r := run cfg (q_init false true false) ins in
  count_tx (snd r) = 5 /\ q_ended (fst r) = Some ARES_ETIMEOUT /\ bound cfg = 6.
Proof. vm_compute. repeat split. Qed.
