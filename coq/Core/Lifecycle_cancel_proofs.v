(* C01: the invariant of Lifecycle_cancel.v is kept by every function a callback can reach
   (third induction on fuel, on top of the structural specifications of Lifecycle_proofs.v). *)
From Coq Require Import List ZArith Lia Bool Arith Permutation.
Import ListNotations.
From CAres.Base Require Import Outcome.
From CAres.Gen Require Import Consts.
From CAres.Core Require Import LifecycleMonitor Lifecycle Lifecycle_inv Lifecycle_proofs Lifecycle_tokens Lifecycle_tokens_proofs Lifecycle_cancel.

Lemma lookup_in {A} t (l : list (nat * A)) c : lookup t l = Some c -> In (t, c) l.
Proof.
  induction l as [|[a b] l IH]; simpl; [discriminate|].
  destruct (Nat.eqb t a) eqn:E.
  - intros H. inversion H; subst. apply Nat.eqb_eq in E. subst. left. reflexivity.
  - intros H. right. apply IH. exact H.
Qed.

Lemma remove_key_incl {A} t (l : list (nat * A)) : incl (remove_key t l) l.
Proof.
  induction l as [|[a b] l IH]; simpl; [apply incl_refl|].
  destruct (Nat.eqb t a).
  - apply incl_tl. exact IH.
  - intros x [<-|Hx]; [left; reflexivity|right; apply IH; exact Hx].
Qed.

Section FixedC.
Variable cf : config.
Hypothesis Hfix : cf_fix cf = all_fixed.
Variable Old : list tok.
Variable T0 : list event.

Notation JJ := (J Old T0).
Notation NK := (newk Old).
Notation NT := (newt Old).
Notation OK := (okr Old).

Definition jpost {A} : A -> state -> Prop := fun _ s' => JJ s'.

Record Specs4 (f : nat) : Prop := {
  cp_invoke : forall k r s, Inv s -> Own s (cobjs k) -> GivenOk s (kbot k) -> JJ s -> OK s k r ->
      safe (invoke cf f k r) s jpost;
  cp_run_script : forall sc s, Inv s -> JJ s -> NT (calls_toks sc) -> safe (run_script cf f sc) s jpost;
  cp_api : forall c s, Inv s -> JJ s -> NT (call_toks c) -> safe (api cf f c) s jpost;
  cp_query_nolock : forall k qd s, Inv s -> Own s (cobjs k) -> GivenOk s (kbot k) -> QdOk qd k -> JJ s -> NK s k ->
      safe (query_nolock cf f k qd) s jpost;
  cp_send_nolock : forall k pr qd s, Inv s -> Own s (cobjs k) -> GivenOk s (kbot k) -> QdOk qd k -> JJ s -> NK s k ->
      safe (send_nolock cf f k pr qd) s jpost;
  cp_send_query : forall qo s, Inv s -> In qo (linked s) -> JJ s -> safe (send_query cf f qo) s jpost;
  cp_send_query_write : forall qo op s, Inv s -> In qo (linked s) -> JJ s -> safe (send_query_write cf f qo op) s jpost;
  cp_requeue_query : forall qo st inc df r s, InvX (Some qo) s -> In qo (linked s) -> JJ s ->
      safe (requeue_query cf f qo st inc df r) s jpost;
  cp_end_query : forall qo st r s, InvX (Some qo) s -> In qo (linked s) -> JJ s -> safe (end_query cf f qo st r) s jpost;
  cp_complete_query : forall qo r s, InvX (Some qo) s -> In qo (linked s) -> JJ s -> safe (complete_query cf f qo r) s jpost;
  cp_handle_conn_error : forall co cr st s c, Inv s -> cell_of s co = Some (CConn c) -> JJ s ->
      safe (handle_conn_error cf f co cr st) s jpost;
  cp_close_connection : forall co st s c, Inv s -> cell_of s co = Some (CConn c) -> JJ s ->
      safe (close_connection cf f co st) s jpost;
  cp_requeue_conn_queries : forall n co st s c, Inv s -> cell_of s co = Some (CConn c) -> ~ rooted s co -> JJ s ->
      safe (requeue_conn_queries cf f n co st) s jpost;
  cp_check_cleanup : forall s, Inv s -> JJ s -> safe (check_cleanup cf f) s jpost;
  cp_cleanup_loop : forall n s, Inv s -> JJ s -> safe (cleanup_loop cf f n) s jpost;
  cp_set_servers : forall s, Inv s -> JJ s -> safe (set_servers cf f) s jpost;
  cp_set_servers_loop : forall n s, Inv s -> JJ s -> safe (set_servers_loop cf f n) s jpost;
  cp_cancel : forall s, Inv s -> Jpre Old T0 s -> safe (cancel cf f) s jpost;
  cp_cancel_loop : forall n s, Inv s -> JJ s -> safe (cancel_loop_fixed cf f n) s jpost;
  cp_search_int : forall k names s, Inv s -> Own s (cobjs k) -> GivenOk s (kbot k) -> JJ s -> NK s k ->
      safe (search_int cf f k names) s jpost;
  cp_search_next : forall o k l nd s, Inv s -> Own s (o :: cobjs k) -> GivenOk s (kbot k) -> JJ s -> NK s k ->
      safe (search_next cf f o k l nd) s (fun r s' => JJ s' /\ (snd r = false -> NK s' k));
  cp_search_callback : forall o k cs l nd r s, Inv s -> Own s (o :: cobjs k) -> GivenOk s (kbot k) -> JJ s -> OK s k r ->
      safe (search_callback cf f o k cs l nd r) s jpost;
  cp_end_squery : forall o k r s, Inv s -> Own s (o :: cobjs k) -> GivenOk s (kbot k) -> JJ s -> OK s k r ->
      safe (end_squery cf f o k r) s jpost;
  cp_addr_next_lookup : forall o k l s, Inv s -> Own s (o :: cobjs k) -> GivenOk s (kbot k) -> JJ s -> NK s k ->
      safe (addr_next_lookup cf f o k l) s jpost;
  cp_addr_callback : forall o k l r s, Inv s -> Own s (o :: cobjs k) -> GivenOk s (kbot k) -> JJ s -> OK s k r ->
      safe (addr_callback cf f o k l r) s jpost;
  cp_end_aquery : forall o k r s, Inv s -> Own s (o :: cobjs k) -> GivenOk s (kbot k) -> JJ s -> OK s k r ->
      safe (end_aquery cf f o k r) s jpost;
  cp_host_next_lookup : forall o st s h, Inv s -> HOwn s o h -> JJ s -> NT (ctoks (h_cb h)) ->
      safe (host_next_lookup cf f o st) s jpost;
  cp_host_next_dns_lookup : forall o s h, Inv s -> HOwn s o h -> JJ s -> NT (ctoks (h_cb h)) ->
      safe (host_next_dns_lookup cf f o) s jpost;
  cp_host_callback : forall o r s, Inv s -> GivenOk s (Some o) -> JJ s -> OK s (KHost o) r ->
      safe (host_callback cf f o r) s jpost;
  cp_end_hquery : forall o st s h, Inv s -> HOwn s o h -> JJ s -> (NT (ctoks (h_cb h)) \/ st = ARES_ECANCELLED) ->
      safe (end_hquery cf f o st) s jpost
}.

Lemma specs4_O : Specs4 0.
Proof. constructor; intros; apply safe_fail. Qed.

Let S1 := all_specs cf Hfix.

Tactic Notation "both" uconstr(H1) uconstr(H2) := eapply safe_mono; [apply safe_both; [apply H1|apply H2]|].

(* ---- small steps ---- *)
Lemma J_core s s' : core_eq s s' -> st_scripts s' = st_scripts s -> st_trace s' = st_trace s -> JJ s -> JJ s'.
Proof. intros E Es Et Hj. eapply J_rel; [exact Hj|apply jrel_core; auto]. Qed.
Lemma J_tape s l : JJ s -> JJ (set_tape l s).
Proof. apply J_core; [apply core_eq_set_tape|reflexivity|reflexivity]. Qed.
Lemma J_emit s e : okev Old e -> JJ s -> JJ (set_trace (e :: st_trace s) s).
Proof. intros He Hj. eapply J_rel; [exact Hj|apply jrel_emit; exact He]. Qed.
Lemma NK_core s s' k : core_eq s s' -> NK s k -> NK s' k.
Proof. intros E [A B]. split; auto. intros o Ek h Hc. rewrite (ce_cell _ _ _ E) in Hc. exact (B o Ek h Hc). Qed.
Lemma OK_core s s' k r : core_eq s s' -> OK s k r -> OK s' k r.
Proof. intros E [H|H]; [left; eapply NK_core; eauto|right; exact H]. Qed.
Lemma NK_tape s l k : NK s k -> NK (set_tape l s) k.
Proof. apply NK_core. apply core_eq_set_tape. Qed.
Lemma OK_tape s l k r : OK s k r -> OK (set_tape l s) k r.
Proof. apply OK_core. apply core_eq_set_tape. Qed.
(* host cells unchanged *)
Lemma NK_hosts s s' k : (forall o h, cell_of s' o = Some (CHost h) -> cell_of s o = Some (CHost h)) -> NK s k -> NK s' k.
Proof. intros H [A B]. split; auto. intros o Ek h Hc. exact (B o Ek h (H _ _ Hc)). Qed.
Lemma NK_alloc s c k : (forall h, c <> CHost h) -> NK s k -> NK (alloc_st c s) k.
Proof.
  intros Hc. apply NK_hosts. intros o h H. rewrite cell_alloc in H. destruct (Nat.eqb o (st_next s)); auto.
  inversion H. subst. exfalso. eapply Hc; eauto.
Qed.
Lemma NK_free s o k : NK s k -> NK (free_st o s) k.
Proof. apply NK_hosts. intros o' h H. rewrite cell_free in H. destruct (Nat.eqb o' o); [discriminate|auto]. Qed.
Lemma OK_free s o k r : OK s k r -> OK (free_st o s) k r.
Proof. intros [H|H]; [left; apply NK_free; auto|right; exact H]. Qed.

Lemma J_take_script t s : JJ s ->
  forall sc s', take_script t s = Ok (sc, s') -> JJ s' /\ NT (calls_toks sc).
Proof.
  intros Hj sc s' H. unfold take_script in H. destruct (lookup t (st_scripts s)) as [l|] eqn:E; inversion H; subst.
  - split.
    + eapply J_rel; [exact Hj|]. constructor; auto.
      * intros o q H1. exists q. auto.
      * intros o h H1. left. exists h. auto.
      * unfold futr. simpl. intros x Hx. apply in_flat_map in Hx. destruct Hx as [p [Hp Hx]].
        apply in_flat_map. exists p. split; auto. eapply remove_key_incl; eauto.
      * exists []. split; [reflexivity|]. intros e [].
    + eapply newt_incl; [|exact (j_scr _ _ _ Hj)]. intros x Hx. unfold futr. apply in_flat_map.
      exists (t, sc). split; [apply lookup_in; exact E|exact Hx].
  - split; auto. apply newt_nil.
Qed.

(* the result a wrapper passes on *)
Definition wrap_res (w : wkind) (r : result) : result :=
  match w with
  | WQQuery => if zeqb (r_status r) ARES_SUCCESS
               then match r_rec r with Some (rc, an, _) => {| r_status := tostatus rc an; r_rec := r_rec r |} | None => r end
               else r
  | WNameinfo namereqd =>
      if zeqb (r_status r) ARES_SUCCESS then r
      else if zeqb (r_status r) ARES_ENOTFOUND && negb namereqd then res ARES_SUCCESS else res (r_status r)
  | _ => r end.

Lemma wrap_cres w r : cres r -> cres (wrap_res w r).
Proof. intros ->. destruct w; reflexivity. Qed.

(* ---- invoke ---- *)
Lemma invoke_cstep f : Specs4 f -> forall k r s, Inv s -> Own s (cobjs k) -> GivenOk s (kbot k) -> JJ s -> OK s k r ->
  safe (invoke cf (S f) k r) s jpost.
Proof.
  intros IH k r s I O Hn Hj Hok. destruct k as [t| |w o k'|o k' cs l nd|o k' l|o]; simpl.
  - (* KUser *)
    apply safe_bind. apply safe_emit.
    set (s1 := set_trace (EvCb t (r_status r) :: st_trace s) s).
    assert (E1 : core_eq s s1) by apply core_eq_set_trace.
    assert (I1 : Inv s1) by (apply (inv_core _ _ _ E1); auto).
    assert (J1 : JJ s1).
    { apply J_emit; [|exact Hj]. simpl. intros Hto. destruct Hok as [[Hnw _]|Hcr].
      - exfalso. apply (Hnw t); [left; reflexivity|exact Hto].
      - rewrite Hcr. reflexivity. }
    destruct (take_script_ok _ t s1 I1) as [sc [s2 [E2 [C2 I2]]]].
    destruct (J_take_script t s1 J1 sc s2 E2) as [J2 Hsc].
    apply safe_bind. eapply safe_of_run; [exact E2|].
    apply (cp_run_script _ IH); auto.
  - apply safe_ret. exact Hj.
  - (* KWrap *)
    simpl in O, Hn. destruct (own_cons _ _ _ O) as [Hc [Hr [Hni O']]].
    apply safe_bind. eapply safe_touch; [exact (inv_heap _ _ I)|exact Hc|].
    change (safe (invoke cf f k' (wrap_res w r) ;; free_obj o) s jpost).
    assert (Hok' : OK s k' (wrap_res w r)).
    { destruct Hok as [H|H]; [left; exact H|right; apply wrap_cres; exact H]. }
    apply safe_bind.
    both (sp_invoke _ _ (S1 f) k' (wrap_res w r) s I O' Hn) (cp_invoke _ IH k' (wrap_res w r) s I O' Hn Hj Hok').
    intros [] s1 [[I1 F1] J1].
    pose proof (fr_cell _ _ _ _ F1 _ _ Hc Hr Hni) as [Hc1 Hr1].
    eapply safe_free; [exact (inv_heap _ _ I1)|exact Hc1|].
    eapply J_rel; [exact J1|apply jrel_free].
  - simpl in O, Hn. apply (cp_search_callback _ IH); auto.
  - simpl in O, Hn. apply (cp_addr_callback _ IH); auto.
  - simpl in Hn. apply (cp_host_callback _ IH); auto.
Qed.

Lemma run_script_cstep f : Specs4 f -> forall sc s, Inv s -> JJ s -> NT (calls_toks sc) ->
  safe (run_script cf (S f) sc) s jpost.
Proof.
  intros IH sc s I Hj Hs. destruct sc as [|c rest]; simpl.
  - apply safe_ret. exact Hj.
  - simpl in Hs. apply safe_bind.
    both (sp_api _ _ (S1 f) c s I) (cp_api _ IH c s I Hj (newt_app_l _ _ _ Hs)).
    intros [] s1 [[I1 _] J1].
    apply (cp_run_script _ IH); auto. exact (newt_app_r _ _ _ Hs).
Qed.

Lemma end_squery_cstep f : Specs4 f -> forall o k r s, Inv s -> Own s (o :: cobjs k) -> GivenOk s (kbot k) -> JJ s -> OK s k r ->
  safe (end_squery cf (S f) o k r) s jpost.
Proof.
  intros IH o k r s I O Hn Hj Hok. simpl.
  destruct (own_cons _ _ _ O) as [Hc [Hr [Hni O']]].
  apply safe_bind. eapply safe_touch; [exact (inv_heap _ _ I)|exact Hc|].
  apply safe_bind.
  both (sp_invoke _ _ (S1 f) k r s I O' Hn) (cp_invoke _ IH k r s I O' Hn Hj Hok).
  intros [] s1 [[I1 F1] J1].
  pose proof (fr_cell _ _ _ _ F1 _ _ Hc Hr Hni) as [Hc1 Hr1].
  apply safe_bind. eapply safe_touch; [exact (inv_heap _ _ I1)|exact Hc1|].
  eapply safe_free; [exact (inv_heap _ _ I1)|exact Hc1|].
  eapply J_rel; [exact J1|apply jrel_free].
Qed.

Lemma end_aquery_cstep f : Specs4 f -> forall o k r s, Inv s -> Own s (o :: cobjs k) -> GivenOk s (kbot k) -> JJ s -> OK s k r ->
  safe (end_aquery cf (S f) o k r) s jpost.
Proof.
  intros IH o k r s I O Hn Hj Hok. simpl.
  destruct (own_cons _ _ _ O) as [Hc [Hr [Hni O']]].
  apply safe_bind. eapply safe_touch; [exact (inv_heap _ _ I)|exact Hc|].
  apply safe_bind.
  both (sp_invoke _ _ (S1 f) k r s I O' Hn) (cp_invoke _ IH k r s I O' Hn Hj Hok).
  intros [] s1 [[I1 F1] J1].
  pose proof (fr_cell _ _ _ _ F1 _ _ Hc Hr Hni) as [Hc1 Hr1].
  eapply safe_free; [exact (inv_heap _ _ I1)|exact Hc1|].
  eapply J_rel; [exact J1|apply jrel_free].
Qed.

Lemma complete_query_cstep f : Specs4 f -> forall qo r s, InvX (Some qo) s -> In qo (linked s) -> JJ s ->
  safe (complete_query cf (S f) qo r) s jpost.
Proof.
  intros IH qo r s I Hl Hj. simpl. rewrite (fx_unlink_true cf Hfix).
  destruct (inv_query _ _ I _ Hl) as [q Hq].
  destruct (detach_query_ok _ _ _ _ I (or_intror eq_refl) Hl Hq)
    as [s1 [E1 [I1 [F1 [_ [_ [Etr [Esc [_ [Els [Hq1 [Hr1 [O1 Hc1]]]]]]]]]]]]].
  assert (R1 : jrel Old s s1) by (eapply jrel_detach; eauto).
  pose proof (J_rel _ _ _ _ Hj R1) as J1.
  pose proof (fd_given _ _ _ F1) as Hg1.
  apply safe_bind. eapply safe_of_run; [exact E1|].
  apply safe_bind. eapply safe_get_query; [exact (inv_heap _ _ I1)|exact Hq1|].
  apply safe_bind. simpl.
  assert (Hok : OK s1 (q_cb q) (if q_cancelled q then res ARES_ECANCELLED else r)).
  { destruct (in_linked_split _ _ Hl) as [Hh|Ht].
    - destruct (j_head _ _ _ Hj qo q Hh Hq) as [A B]. left. eapply newk_rel; eauto.
    - rewrite (j_tail _ _ _ Hj qo q Ht Hq). right. reflexivity. }
  both (sp_invoke _ _ (S1 f) (q_cb q) _ s1 I1 O1 Hg1) (cp_invoke _ IH (q_cb q) _ s1 I1 O1 Hg1 J1 Hok).
  intros [] s2 [[I2 F2] J2].
  pose proof (fr_cell _ _ _ _ F2 _ _ Hq1 Hr1 (opaque_not_query _ _ _ _ O1 Hq1)) as [Hq2 Hr2].
  unfold release_query. eapply safe_free; [exact (inv_heap _ _ I2)|exact Hq2|].
  eapply J_rel; [exact J2|apply jrel_free].
Qed.

Lemma end_query_cstep f : Specs4 f -> forall qo st r s, InvX (Some qo) s -> In qo (linked s) -> JJ s ->
  safe (end_query cf (S f) qo st r) s jpost.
Proof.
  intros IH qo st r s I Hl Hj. simpl.
  destruct (inv_query _ _ I _ Hl) as [q Hq].
  apply safe_bind. eapply safe_get_query; [exact (inv_heap _ _ I)|exact Hq|].
  apply safe_bind. apply safe_pop. intros e rest Et.
  set (s1 := set_tape rest s).
  assert (E1 : core_eq s s1) by apply core_eq_set_tape.
  destruct e; try apply safe_fail.
  destruct (negb _); [apply safe_fail|].
  apply (cp_complete_query _ IH); [apply (inv_core _ _ _ E1); auto|rewrite (ce_linked _ _ E1); auto|apply J_tape; exact Hj].
Qed.

Lemma requeue_query_cstep f : Specs4 f -> forall qo st inc df r s, InvX (Some qo) s -> In qo (linked s) -> JJ s ->
  safe (requeue_query cf (S f) qo st inc df r) s jpost.
Proof.
  intros IH qo st inc df r s I Hl Hj. simpl.
  destruct (inv_query _ _ I _ Hl) as [q Hq].
  destruct (remove_from_conn_ok _ _ _ _ I (or_intror eq_refl) Hl Hq)
    as [s1 [E1 [I1 [F1 [El [_ [_ [_ [Etr [Esc [_ [_ [_ [_ Hc1]]]]]]]]]]]]]].
  assert (J1 : JJ s1).
  { eapply J_rel; [exact Hj|]. apply jrel_sim; auto. apply (strip_sim s s1 qo q (set_q_conn None q)); auto. }
  apply safe_bind. eapply safe_of_run; [exact E1|].
  assert (Hq1 : cell_of s1 qo = Some (CQuery (set_q_conn None q))) by (rewrite Hc1, Nat.eqb_refl; reflexivity).
  assert (Hl1 : In qo (linked s1)) by (unfold linked; rewrite El; exact Hl).
  apply safe_bind. eapply safe_get_query; [exact (inv_heap _ _ I1)|exact Hq1|].
  set (qa := if zeqb st ARES_SUCCESS then set_q_conn None q else set_q_err st (set_q_conn None q)).
  set (qb := if inc then set_q_try (S (q_try qa)) qa else qa).
  assert (Eb : q_cb qb = q_cb q /\ q_qid qb = q_qid q /\ q_conn qb = None /\ q_cancelled qb = q_cancelled q).
  { unfold qb, qa. destruct inc, (zeqb st ARES_SUCCESS); simpl; auto. }
  destruct Eb as [Eb1 [Eb2 [Eb3 Eb4]]].
  apply safe_bind. eapply safe_store; [exact (inv_heap _ _ I1)|exact Hq1|].
  destruct (store_query_misc_ok None s1 qo _ qb I1 Hq1 Eb1 Eb2 Eb3) as [I2 [F2 [_ [Ell2 [_ Hq2]]]]].
  assert (J2 : JJ (store_st qo (CQuery qb) s1)).
  { eapply J_rel; [exact J1|]. eapply jrel_store_query; eauto. }
  set (s2 := store_st qo (CQuery qb) s1) in *.
  assert (Hl2 : In qo (linked s2)) by (rewrite Ell2; exact Hl1).
  apply safe_bind. apply safe_get.
  destruct (Nat.ltb (q_try qb) (st_nservers s2 * cf_tries cf) && negb (q_noretry qb)).
  - destruct df.
    + apply safe_ret. exact J2.
    + apply (cp_send_query _ IH); auto.
  - apply safe_bind.
    eapply safe_mono; [apply (cp_end_query _ IH qo _ _ s2 (inv_weaken _ _ I2) Hl2 J2)|].
    intros [] s3 J3. apply safe_ret. exact J3.
Qed.

Lemma requeue_conn_queries_cstep f : Specs4 f -> forall n co st s c, Inv s -> cell_of s co = Some (CConn c) -> ~ rooted s co ->
  JJ s -> safe (requeue_conn_queries cf (S f) n co st) s jpost.
Proof.
  intros IH n co st s c I Hc Hr Hj. destruct n as [|n']; simpl; [apply safe_fail|].
  apply safe_bind. eapply safe_get_conn; [exact (inv_heap _ _ I)|exact Hc|].
  destruct (c_queries c) as [|qo rest] eqn:Eq.
  - apply safe_ret. exact Hj.
  - assert (Hqo : In qo (c_queries c)) by (rewrite Eq; left; auto).
    destruct (inv_connq _ _ I _ _ _ Hc Hqo) as [Hl _].
    apply safe_bind.
    both (sp_requeue_query _ _ (S1 f) qo st true false (res st) s (inv_weaken _ _ I) Hl)
         (cp_requeue_query _ IH qo st true false (res st) s (inv_weaken _ _ I) Hl Hj).
    intros z s1 [[I1 F1] J1].
    pose proof (fr_cell _ _ _ _ F1 _ _ Hc Hr (fun H => H)) as [c1 [Hc1 [Hr1 _]]].
    apply (cp_requeue_conn_queries _ IH n' co st s1 c1); auto.
Qed.

Lemma close_connection_cstep f : Specs4 f -> forall co st s c, Inv s -> cell_of s co = Some (CConn c) -> JJ s ->
  safe (close_connection cf (S f) co st) s jpost.
Proof.
  intros IH co st s c I Hc Hj. simpl.
  apply safe_bind. eapply safe_get_conn; [exact (inv_heap _ _ I)|exact Hc|].
  apply safe_bind. apply safe_modify.
  destruct (conns_remove_ok None s co I) as [I1 [F1 [Hn1 [Ech1 Ell1]]]].
  set (s1 := set_conns (remove_nat co (st_conns s)) s) in *.
  assert (J1 : JJ s1) by (eapply J_rel; [exact Hj|apply jrel_same; reflexivity]).
  assert (Hc1 : cell_of s1 co = Some (CConn c)) by exact Hc.
  assert (Hr1 : ~ rooted s1 co).
  { intros [H|[H|[H|H]]].
    - destruct (inv_query _ _ I1 _ H) as [q Hq]. rewrite Hc1 in Hq. discriminate.
    - exact (Hn1 H).
    - destruct (inv_chain _ _ I1) as [_ Hop]. rewrite (Hop _ H) in Hc1. discriminate.
    - destruct (hi_objs _ (inv_hosts _ _ I1)) as [_ Hop]. destruct (Hop _ H) as [Hop' _]. rewrite Hop' in Hc1. discriminate. }
  apply safe_bind.
  both (sp_requeue_conn_queries _ _ (S1 f) f co st s1 c I1 Hc1 Hr1) (cp_requeue_conn_queries _ IH f co st s1 c I1 Hc1 Hr1 J1).
  intros [] s2 [[I2 [F2 [c2 [Hc2 Eq2]]]] J2].
  apply safe_bind. eapply safe_get_conn; [exact (inv_heap _ _ I2)|exact Hc2|].
  apply safe_bind. apply safe_expect'; [right; right; eexists; reflexivity|].
  intros l3. set (s3 := set_tape l3 s2).
  assert (E3 : core_eq s2 s3) by apply core_eq_set_tape.
  assert (I3 : Inv s3) by (apply (inv_core _ _ _ E3); auto).
  assert (Hc3 : cell_of s3 co = Some (CConn c2)) by exact Hc2.
  assert (J3 : JJ s3) by (apply J_tape; exact J2).
  rewrite (fx_connread_true cf Hfix). simpl. destruct (c_reading c2).
  - eapply safe_store; [exact (inv_heap _ _ I3)|exact Hc3|].
    eapply J_rel; [exact J3|apply jrel_store_conn].
  - eapply safe_free; [exact (inv_heap _ _ I3)|exact Hc3|].
    eapply J_rel; [exact J3|apply jrel_free].
Qed.

Lemma handle_conn_error_cstep f : Specs4 f -> forall co cr st s c, Inv s -> cell_of s co = Some (CConn c) -> JJ s ->
  safe (handle_conn_error cf (S f) co cr st) s jpost.
Proof.
  intros IH co cr st s c I Hc Hj. simpl.
  apply safe_bind. eapply safe_get_conn; [exact (inv_heap _ _ I)|exact Hc|].
  assert (G : forall l, safe (let! e := pop in
                  match e with
                  | TX sock st' => if Nat.eqb sock (c_sock c) && zeqb st st' then close_connection cf f co st else fail EDESYNC
                  | _ => fail EDESYNC end) (set_tape l s) jpost).
  { intros l. apply safe_bind. apply safe_pop. intros e rest Et.
    destruct e; try apply safe_fail. destruct (Nat.eqb sock (c_sock c) && zeqb st st0); [|apply safe_fail].
    assert (E2 : core_eq s (set_tape rest (set_tape l s))) by (unfold core_eq; repeat split).
    apply (cp_close_connection _ IH co st _ c); [apply (inv_core _ _ _ E2); auto|exact Hc|].
    apply J_tape. apply J_tape. exact Hj. }
  destruct cr.
  - apply safe_bind. apply safe_expect'; [left; reflexivity|]. intros l. apply G.
  - apply safe_bind. apply safe_ret.
    replace s with (set_tape (st_tape s) s) by (destruct s; reflexivity). apply G.
Qed.

Lemma cleanup_loop_cstep f : Specs4 f -> forall n s, Inv s -> JJ s -> safe (cleanup_loop cf (S f) n) s jpost.
Proof.
  intros IH n s I Hj. destruct n as [|n']; simpl; [apply safe_fail|].
  apply safe_bind. apply safe_peek.
  destruct (hd_error (st_tape s)) as [e|]; [|apply safe_fail].
  destruct e; try apply safe_fail.
  - destruct (find_conn_by_sock_ok _ s sock I) as [r [E1 Hr]].
    apply safe_bind. eapply safe_of_run; [exact E1|].
    destruct r as [co|]; [|apply safe_fail].
    destruct (Hr _ eq_refl) as [Hin [c [Hc Hncl]]].
    apply safe_bind. eapply safe_get_conn; [exact (inv_heap _ _ I)|exact Hc|].
    destruct (c_queries c); [|apply safe_fail].
    apply safe_bind.
    both (sp_close_connection _ _ (S1 f) co ARES_SUCCESS s c I Hc) (cp_close_connection _ IH co ARES_SUCCESS s c I Hc Hj).
    intros [] s1 [[I1 _] J1]. apply (cp_cleanup_loop _ IH); auto.
  - apply safe_bind. apply safe_pop. intros e rest Et. apply safe_ret. apply J_tape. exact Hj.
Qed.

Lemma check_cleanup_cstep f : Specs4 f -> forall s, Inv s -> JJ s -> safe (check_cleanup cf (S f)) s jpost.
Proof.
  intros IH s I Hj. simpl. apply safe_bind. apply safe_pop. intros e rest Et.
  destruct e; try apply safe_fail.
  assert (E1 : core_eq s (set_tape rest s)) by apply core_eq_set_tape.
  apply (cp_cleanup_loop _ IH); [apply (inv_core _ _ _ E1); auto|apply J_tape; exact Hj].
Qed.

Lemma set_servers_loop_cstep f : Specs4 f -> forall n s, Inv s -> JJ s -> safe (set_servers_loop cf (S f) n) s jpost.
Proof.
  intros IH n s I Hj. destruct n as [|n']; simpl; [apply safe_fail|].
  apply safe_bind. apply safe_get.
  assert (G : forall co c, cell_of s co = Some (CConn c) ->
            safe (close_connection cf f co ARES_SUCCESS;; set_servers_loop cf f n') s jpost).
  { intros co c Hc. apply safe_bind.
    both (sp_close_connection _ _ (S1 f) co ARES_SUCCESS s c I Hc) (cp_close_connection _ IH co ARES_SUCCESS s c I Hc Hj).
    intros [] s1 [[I1 _] J1]. apply (cp_set_servers_loop _ IH); auto. }
  destruct (close_victim (st_tape s)) as [[|sock|qid]|]; [| | |apply safe_fail].
  - apply safe_bind. apply safe_pop. intros e rest Et. apply safe_ret. apply J_tape. exact Hj.
  - destruct (find_conn_by_sock_ok _ s sock I) as [r [E1 Hr]].
    apply safe_bind. eapply safe_of_run; [exact E1|].
    destruct r as [co|]; [|apply safe_fail].
    destruct (Hr _ eq_refl) as [Hin [c [Hc Hncl]]]. apply (G co c); auto.
  - destruct (lookup qid (st_byqid s)) as [qo|] eqn:Lk; [|apply safe_fail].
    destruct (inv_byqid _ _ I _ _ Lk) as [Hl _]. destruct (inv_query _ _ I _ Hl) as [q Hq].
    apply safe_bind. eapply safe_get_query; [exact (inv_heap _ _ I)|exact Hq|].
    destruct (q_conn q) as [co|]; [|apply safe_fail].
    destruct (memb co (st_conns s)) eqn:Mb; [|apply safe_fail].
    apply memb_In in Mb. destruct (inv_conns _ _ I) as [_ Hcc]. destruct (Hcc _ Mb) as [c [Hc _]].
    apply (G co c); auto.
Qed.

Lemma set_servers_cstep f : Specs4 f -> forall s, Inv s -> JJ s -> safe (set_servers cf (S f)) s jpost.
Proof.
  intros IH s I Hj. simpl. apply safe_bind. apply safe_pop. intros e rest Et.
  destruct e; try apply safe_fail.
  apply safe_bind. apply safe_modify.
  set (s1 := set_nservers n (set_tape rest s)).
  assert (E1 : core_eq s s1) by (eapply core_eq_trans; [apply core_eq_set_tape|apply core_eq_set_nservers]).
  apply (cp_set_servers_loop _ IH); [apply (inv_core _ _ _ E1); auto|].
  apply (J_core s); auto; reflexivity.
Qed.

Lemma cancel_loop_cstep f : Specs4 f -> forall n s, Inv s -> JJ s -> safe (cancel_loop_fixed cf (S f) n) s jpost.
Proof.
  intros IH n s I Hj. destruct n as [|n']; simpl; [apply safe_fail|].
  apply safe_bind. apply safe_get.
  destruct (st_lists s) as [|a [|[|qo l] r]] eqn:El; try (apply safe_ret; exact Hj).
  assert (Hl : In qo (linked s)).
  { unfold linked. rewrite El. simpl. apply in_or_app. right. left. reflexivity. }
  apply safe_bind.
  both (sp_complete_query _ _ (S1 f) qo (res ARES_ECANCELLED) s (inv_weaken _ _ I) Hl)
       (cp_complete_query _ IH qo (res ARES_ECANCELLED) s (inv_weaken _ _ I) Hl Hj).
  intros [] s1 [[I1 _] J1]. apply (cp_cancel_loop _ IH); auto.
Qed.

Lemma cancel_cstep f : Specs4 f -> forall s, Inv s -> Jpre Old T0 s -> safe (cancel cf (S f)) s jpost.
Proof.
  intros IH s I Hp. rewrite cancel_unfold. apply safe_bind. apply safe_get.
  assert (G : forall s1, Inv s1 -> JJ s1 -> safe (check_cleanup cf f) s1 jpost).
  { intros s1 I1 J1. apply (cp_check_cleanup _ IH); auto. }
  assert (J0 : heads s = [] -> JJ s).
  { intros Hh. destruct Hp as [A B C]. constructor; auto. rewrite Hh. intros qo q []. }
  destruct (st_lists s) as [|[|q0 l0] rest] eqn:El.
  - apply safe_bind. apply safe_ret. apply G; auto. apply J0. unfold heads. rewrite El. reflexivity.
  - apply safe_bind. apply safe_ret. apply G; auto. apply J0. unfold heads. rewrite El. reflexivity.
  - apply safe_bind. apply safe_bind. apply safe_modify.
    assert (Ec : concat ([] :: (q0 :: l0) :: rest) = linked s) by (unfold linked; rewrite El; reflexivity).
    destruct (lists_same_linked None s ([] :: (q0 :: l0) :: rest) Ec I) as [I1 [F1 _]].
    set (s1 := set_lists ([] :: (q0 :: l0) :: rest) s) in *.
    rewrite (fx_unlink_true cf Hfix), (fx_cancelmark_true cf Hfix).
    assert (Hin1 : incl (q0 :: l0) (linked s1)).
    { intros y Hy. unfold linked, s1. simpl. destruct Hy as [->|Hy]; [left; auto|right; apply in_or_app; left; exact Hy]. }
    apply safe_bind.
    eapply safe_mono; [apply safe_both; [apply (mark_cancelled_ok (q0 :: l0) _ I1 Hin1)|apply (mark_cancelled_J Old T0 (q0 :: l0) s1 I1)]|].
    + reflexivity.
    + intros y Hy. change (In y ((q0 :: l0) ++ concat rest)). apply in_or_app. left. exact Hy.
    + intros y q Ht Hn Hc. change (In y ((q0 :: l0) ++ concat rest)) in Ht. apply in_app_or in Ht. destruct Ht as [Ht|Ht]; [contradiction|].
      apply (jp_tail _ _ _ Hp y q); auto. unfold tails. rewrite El. exact Ht.
    + exact (jp_scr _ _ _ Hp).
    + exact (jp_tr _ _ _ Hp).
    + intros [] sm [[Im _] Jm].
      apply safe_bind.
      both (sp_cancel_loop _ _ (S1 f) f _ Im) (cp_cancel_loop _ IH f _ Im Jm).
      intros [] s2 [[I2 [F2 Hsh]] J2].
      apply safe_modify.
      set (ls2 := match st_lists s2 with a :: _ :: r => a :: r | x => x end).
      assert (Ec2 : concat ls2 = linked s2).
      { unfold ls2, linked. destruct (st_lists s2) as [|a [|[|qo l] r]]; auto. exfalso. eapply Hsh. reflexivity. }
      destruct (lists_same_linked None s2 ls2 Ec2 I2) as [I3 _].
      apply G; auto.
      eapply J_rel; [exact J2|]. constructor; auto.
      * unfold heads, ls2. simpl. destruct (st_lists s2) as [|a [|x r]]; auto.
      * unfold tails, ls2. simpl. destruct (st_lists s2) as [|a [|x r]]; auto. simpl. intros y Hy. apply in_or_app. right. exact Hy.
      * intros o q Hc. exists q. auto.
      * intros o h Hc. left. exists h. auto.
      * apply incl_refl.
      * exists []. split; [reflexivity|]. intros e [].
Qed.

(* ---- ares_send_query ---- *)
Lemma send_query_write_cstep f : Specs4 f -> forall qo op s, Inv s -> In qo (linked s) -> JJ s ->
  safe (send_query_write cf (S f) qo op) s jpost.
Proof.
  intros IH qo op s I Hl Hj. simpl.
  destruct (inv_query _ _ I _ Hl) as [q Hq].
  apply safe_bind. eapply safe_get_query; [exact (inv_heap _ _ I)|exact Hq|].
  apply safe_bind. apply safe_pop. intros e rest Et.
  destruct e; try apply safe_fail.
  destruct (negb (Nat.eqb qid (q_qid q))); [apply safe_fail|].
  set (s1 := set_tape rest s).
  assert (E1 : core_eq s s1) by apply core_eq_set_tape.
  assert (I1 : Inv s1) by (apply (inv_core _ _ _ E1); auto).
  assert (Hl1 : In qo (linked s1)) by (rewrite (ce_linked _ _ E1); exact Hl).
  assert (J1 : JJ s1) by (apply J_tape; exact Hj).
  assert (G : forall sA co cA, Inv sA -> In qo (linked sA) -> In co (st_conns sA) ->
            cell_of sA co = Some (CConn cA) -> c_closed cA = false -> JJ sA ->
            safe (let! _ := get_conn co in
                  let! e2 := peek in
                  let! wrc := match e2 with
                              | Some (TF s2 rc) => if Nat.eqb s2 sock then (let! _ := pop in ret rc) else ret ARES_SUCCESS
                              | _ => ret ARES_SUCCESS end in
                  if zeqb wrc ARES_SUCCESS
                  then attach_frag qo co tcp;;
                       (let! s0 := get in
                        (if probe_ahead (st_tape s0) then let! _ := send_nolock cf f KProbe true None in ret tt else ret tt));;
                       ret ARES_SUCCESS
                  else if zeqb wrc ARES_ENOMEM
                  then end_query cf f qo wrc (res wrc);; ret wrc
                  else if is_retryable wrc
                  then handle_conn_error cf f co true wrc;;
                       (if fx_revalidate (cf_fix cf)
                        then let! s0 := get in
                             match lookup (q_qid q) (st_byqid s0) with
                             | Some qo' => requeue_query cf f qo' wrc true false (res wrc)
                             | None => ret ARES_ECANCELLED end
                        else requeue_query cf f qo wrc true false (res wrc))
                  else expect_TS;; requeue_query cf f qo wrc true false (res wrc)) sA jpost).
  { intros sA co cA IA HlA HinA HcA HnclA JA.
    apply safe_bind. eapply safe_get_conn; [exact (inv_heap _ _ IA)|exact HcA|].
    apply safe_bind. apply safe_peek.
    assert (W : forall wrc l,
              safe (if zeqb wrc ARES_SUCCESS
                    then attach_frag qo co tcp;;
                         (let! s0 := get in
                          (if probe_ahead (st_tape s0) then let! _ := send_nolock cf f KProbe true None in ret tt else ret tt));;
                         ret ARES_SUCCESS
                    else if zeqb wrc ARES_ENOMEM
                    then end_query cf f qo wrc (res wrc);; ret wrc
                    else if is_retryable wrc
                    then handle_conn_error cf f co true wrc;;
                         (if fx_revalidate (cf_fix cf)
                          then let! s0 := get in
                               match lookup (q_qid q) (st_byqid s0) with
                               | Some qo' => requeue_query cf f qo' wrc true false (res wrc)
                               | None => ret ARES_ECANCELLED end
                          else requeue_query cf f qo wrc true false (res wrc))
                    else expect_TS;; requeue_query cf f qo wrc true false (res wrc)) (set_tape l sA) jpost).
    { intros wrc l. set (sB := set_tape l sA).
      assert (EB : core_eq sA sB) by apply core_eq_set_tape.
      assert (IB : Inv sB) by (apply (inv_core _ _ _ EB); auto).
      assert (HlB : In qo (linked sB)) by exact HlA.
      assert (HinB : In co (st_conns sB)) by exact HinA.
      assert (HcB : cell_of sB co = Some (CConn cA)) by exact HcA.
      assert (JB : JJ sB) by (apply J_tape; exact JA).
      destruct (zeqb wrc ARES_SUCCESS).
      - destruct (inv_query _ _ IB _ HlB) as [qB HqB].
        destruct (attach_run sB qo qB co cA tcp IB HlB HqB HinB HcB HnclA)
          as [sC [EC [IC [FC [EllC [_ [_ [EscC [_ [EtrC [_ [HsimC ElC]]]]]]]]]]]].
        assert (JC : JJ sC) by (eapply J_rel; [exact JB|apply jrel_sim; auto]).
        apply safe_bind. eapply safe_of_run; [exact EC|].
        apply safe_bind. apply safe_bind. apply safe_get.
        destruct (probe_ahead (st_tape sC)).
        + apply safe_bind.
          eapply safe_mono; [apply (cp_send_nolock _ IH KProbe true None sC IC (own_nil _) Logic.I Logic.I JC)|].
          { split; [apply newt_nil|intros o Ek; discriminate]. }
          intros z sD JD. apply safe_ret. apply safe_ret. exact JD.
        + apply safe_ret. apply safe_ret. exact JC.
      - destruct (zeqb wrc ARES_ENOMEM).
        + apply safe_bind. eapply safe_mono; [apply (cp_end_query _ IH qo wrc _ sB (inv_weaken _ _ IB) HlB JB)|].
          intros [] sC JC. apply safe_ret. exact JC.
        + destruct (is_retryable wrc).
          * apply safe_bind.
            both (sp_handle_conn_error _ _ (S1 f) co true wrc sB cA IB HcB) (cp_handle_conn_error _ IH co true wrc sB cA IB HcB JB).
            intros [] sC [[IC _] JC]. rewrite (fx_revalidate_true cf Hfix).
            apply safe_bind. apply safe_get.
            destruct (lookup (q_qid q) (st_byqid sC)) as [qo'|] eqn:Lk.
            -- destruct (inv_byqid _ _ IC _ _ Lk) as [Hl' _].
               apply (cp_requeue_query _ IH); auto. apply inv_weaken; exact IC.
            -- apply safe_ret. exact JC.
          * apply safe_bind. apply safe_expect'; [left; reflexivity|]. intros l2.
            assert (EC : core_eq sB (set_tape l2 sB)) by apply core_eq_set_tape.
            apply (cp_requeue_query _ IH); [apply inv_weaken; apply (inv_core _ _ _ EC); auto|exact HlB|apply J_tape; exact JB]. }
    assert (Eid : set_tape (st_tape sA) sA = sA) by (destruct sA; reflexivity).
    destruct (hd_error (st_tape sA)) as [e2|];
      [|apply safe_bind; apply safe_ret; rewrite <- Eid; apply W].
    destruct e2; try (apply safe_bind; apply safe_ret; rewrite <- Eid; apply W).
    destruct (Nat.eqb sock0 sock).
    - apply safe_bind. apply safe_bind. apply safe_pop. intros e3 rest3 Et3. apply safe_ret. apply W.
    - apply safe_bind. apply safe_ret. rewrite <- Eid. apply W. }
  destruct (find_conn_by_sock_ok _ s1 sock I1) as [ex [Ef Hex]].
  apply safe_bind. eapply safe_of_run; [exact Ef|].
  destruct ex as [co|]; destruct op; try (apply safe_bind; apply safe_fail).
  - destruct (Hex _ eq_refl) as [Hin [c [Hc Hncl]]].
    apply safe_bind. apply safe_ret. apply (G s1 co c); auto.
  - apply safe_bind. apply safe_bind. apply safe_alloc. apply safe_bind. apply safe_modify. apply safe_ret.
    set (c0 := {| c_sock := sock; c_tcp := tcp; c_queries := []; c_reading := false; c_closed := false |}).
    destruct (new_conn_ok None s1 c0 I1 eq_refl eq_refl) as [I2 [F2 [Hc2 [Hin2 [_ [Ell2 _]]]]]].
    eapply (G _ (st_next s1) c0); auto.
    eapply J_rel; [exact J1|]. eapply jrel_trans; [apply (jrel_alloc Old s1 (CConn c0)); exact Logic.I|].
    apply jrel_same; reflexivity.
Qed.

Lemma send_query_cstep f : Specs4 f -> forall qo s, Inv s -> In qo (linked s) -> JJ s ->
  safe (send_query cf (S f) qo) s jpost.
Proof.
  intros IH qo s I Hl Hj. simpl.
  destruct (inv_query _ _ I _ Hl) as [q Hq].
  apply safe_bind. eapply safe_get_query; [exact (inv_heap _ _ I)|exact Hq|].
  apply safe_bind. apply safe_get.
  destruct (Nat.eqb (st_nservers s) 0).
  { apply safe_bind. eapply safe_mono; [apply (cp_end_query _ IH qo _ _ s (inv_weaken _ _ I) Hl Hj)|].
    intros [] s2 J2. apply safe_ret. exact J2. }
  apply safe_bind. apply safe_peek.
  assert (Dflt : safe (send_query_write cf f qo false) s jpost) by (apply (cp_send_query_write _ IH); auto).
  destruct (hd_error (st_tape s)) as [e|]; [|exact Dflt].
  destruct e; try exact Dflt.
  apply safe_bind. apply safe_pop. intros e rest Et.
  set (s1 := set_tape rest s).
  assert (E1 : core_eq s s1) by apply core_eq_set_tape.
  assert (I1 : Inv s1) by (apply (inv_core _ _ _ E1); auto).
  assert (Hl1 : In qo (linked s1)) by exact Hl.
  assert (J1 : JJ s1) by (apply J_tape; exact Hj).
  destruct (zeqb rc ARES_SUCCESS).
  - apply (cp_send_query_write _ IH); auto.
  - destruct (is_retryable rc).
    + apply safe_bind. apply safe_expect'; [left; reflexivity|]. intros l2.
      assert (E2 : core_eq s1 (set_tape l2 s1)) by apply core_eq_set_tape.
      apply (cp_requeue_query _ IH); [apply inv_weaken; apply (inv_core _ _ _ E2); auto|exact Hl1|apply J_tape; exact J1].
    + apply safe_bind. eapply safe_mono; [apply (cp_end_query _ IH qo rc _ s1 (inv_weaken _ _ I1) Hl1 J1)|].
      intros [] s2 J2. apply safe_ret. exact J2.
Qed.

Lemma write_qid_J qd qid k s : Inv s -> QdOk qd k -> (forall o, kbot k = Some o -> exists h, shared_at s o = Some h) ->
  JJ s -> safe (write_qid qd qid) s jpost.
Proof.
  intros I Hqd Hk Hj. unfold write_qid. destruct qd as [[o aaaa]|]; [|apply safe_ret; exact Hj].
  simpl in Hqd. destruct (Hk _ Hqd) as [h Hs]. destruct (shared_host _ _ _ Hs) as [Hc Hp].
  unfold get_host. apply safe_bind. apply safe_bind. eapply safe_touch; [exact (inv_heap _ _ I)|exact Hc|].
  apply safe_ret. eapply safe_store; [exact (inv_heap _ _ I)|exact Hc|].
  eapply J_rel; [exact Hj|]. eapply jrel_store_host; [exact Hc|]. destruct aaaa; reflexivity.
Qed.

Lemma send_nolock_cstep f : Specs4 f -> forall k pr qd s, Inv s -> Own s (cobjs k) -> GivenOk s (kbot k) -> QdOk qd k ->
  JJ s -> NK s k -> safe (send_nolock cf (S f) k pr qd) s jpost.
Proof.
  intros IH k pr qd s I O Hn Hqd Hj Hk. rewrite send_nolock_unfold. rewrite (fx_qidearly_true cf Hfix). simpl negb. cbn [andb].
  apply safe_bind. apply gen_qid_ok'. intros qid l1 Lk1.
  set (s1 := set_tape l1 s).
  assert (E1 : core_eq s s1) by apply core_eq_set_tape.
  assert (G : forall cached l2,
            safe (match cached with
                  | Some r => invoke cf f k r;; ret (r_status r)
                  | None =>
                      let! e := pop in
                      match e with
                      | TD rc =>
                          if negb (zeqb rc ARES_SUCCESS)
                          then let st := if zeqb rc ARES_EBADRESP then ARES_EBADQUERY else rc in
                               invoke cf f k (res st);; ret st
                          else (if cf_dns0x20 cf
                                then let! e0 := peek in
                                     match e0 with Some (TN _) => let! _ := pop in ret tt | _ => ret tt end
                                else ret tt);;
                               (let! qo := alloc (CQuery {| q_qid := qid; q_cb := k; q_conn := None; q_try := 0;
                                                           q_noretry := pr; q_tcp := false; q_err := ARES_SUCCESS; q_cancelled := false |}) in
                                link_all qo;;
                                modify (fun s0 => set_byqid ((qid, qo) :: st_byqid s0) s0);;
                                write_qid qd qid;;
                                (let! st := send_query cf f qo in ret tt;; ret st))
                      | _ => fail EDESYNC end
                  end) (set_tape l2 s) jpost).
  { intros cached l2. set (s2 := set_tape l2 s).
    assert (E2 : core_eq s s2) by apply core_eq_set_tape.
    assert (I2 : Inv s2) by (apply (inv_core _ _ _ E2); auto).
    assert (O2 : Own s2 (cobjs k)) by (apply (own_core _ _ _ E2); auto).
    assert (Hn2 : GivenOk s2 (kbot k)) by (apply (given_core _ _ _ E2); auto).
    assert (J2 : JJ s2) by (apply J_tape; exact Hj).
    assert (K2 : NK s2 k) by (apply NK_tape; exact Hk).
    destruct cached as [r|].
    - apply safe_bind. eapply safe_mono; [apply (cp_invoke _ IH k r s2 I2 O2 Hn2 J2 (or_introl K2))|].
      intros [] s3 J3. apply safe_ret. exact J3.
    - apply safe_bind. apply safe_pop. intros e rest Et. destruct e; try apply safe_fail.
      set (s3 := set_tape rest s2).
      assert (E3 : core_eq s s3) by (unfold core_eq; repeat split).
      assert (I3 : Inv s3) by (apply (inv_core _ _ _ E3); auto).
      assert (O3 : Own s3 (cobjs k)) by (apply (own_core _ _ _ E3); auto).
      assert (Hn3 : GivenOk s3 (kbot k)) by (apply (given_core _ _ _ E3); auto).
      assert (J3 : JJ s3) by (apply J_tape; exact J2).
      assert (K3 : NK s3 k) by (apply NK_tape; exact K2).
      destruct (negb (zeqb rc ARES_SUCCESS)).
      + apply safe_bind. eapply safe_mono; [apply (cp_invoke _ IH k _ s3 I3 O3 Hn3 J3 (or_introl K3))|].
        intros [] s4 J4. apply safe_ret. exact J4.
      + assert (D : forall l4,
                  safe (let! qo := alloc (CQuery {| q_qid := qid; q_cb := k; q_conn := None; q_try := 0;
                                                    q_noretry := pr; q_tcp := false; q_err := ARES_SUCCESS; q_cancelled := false |}) in
                        link_all qo;;
                        modify (fun s0 => set_byqid ((qid, qo) :: st_byqid s0) s0);;
                        write_qid qd qid;;
                        (let! st := send_query cf f qo in ret tt;; ret st))
                       (set_tape l4 s) jpost).
        { intros l4. set (s4 := set_tape l4 s).
          assert (E4 : core_eq s s4) by apply core_eq_set_tape.
          assert (I4 : Inv s4) by (apply (inv_core _ _ _ E4); auto).
          assert (O4 : Own s4 (cobjs k)) by (apply (own_core _ _ _ E4); auto).
          assert (Hn4 : GivenOk s4 (kbot k)) by (apply (given_core _ _ _ E4); auto).
          assert (J4 : JJ s4) by (apply J_tape; exact Hj).
          assert (K4 : NK s4 k) by (apply NK_tape; exact Hk).
          set (q0 := {| q_qid := qid; q_cb := k; q_conn := None; q_try := 0; q_noretry := pr; q_tcp := false; q_err := ARES_SUCCESS; q_cancelled := false |}).
          destruct (new_query_ok s4 k qid q0 I4 O4 Hn4 Lk1 eq_refl eq_refl eq_refl) as [I5 [F5 [Hl5 [Hq5 _]]]].
          pose proof (J_new_query Old T0 s4 k qid q0 I4 J4 K4 eq_refl eq_refl) as J5.
          apply safe_bind. apply safe_alloc.
          apply safe_bind. eapply safe_of_run; [apply link_all_run|].
          apply safe_bind. apply safe_modify.
          assert (Hk5 : forall o, kbot k = Some o -> exists h, shared_at
                     (set_byqid ((qid, st_next s4) :: st_byqid (set_lists (link_lists (st_next s4) (st_lists s4)) (alloc_st (CQuery q0) s4)))
                        (set_lists (link_lists (st_next s4) (st_lists s4)) (alloc_st (CQuery q0) s4))) o = Some h).
          { intros o Ek. destruct (hi_ref _ (inv_hosts _ _ I5) _ o Hl5) as [h Hs]; eauto.
            unfold href. rewrite Hq5. exact Ek. }
          apply safe_bind.
          eapply safe_mono; [apply safe_both; [apply (write_qid_ok qd qid k _ I5 Hqd Hk5)|apply (write_qid_J qd qid k _ I5 Hqd Hk5 J5)]|].
          intros [] s6 [[I6 [F6 Ell6]] J6].
          apply safe_bind. eapply safe_mono; [apply (cp_send_query _ IH _ _ I6); [rewrite Ell6; exact Hl5|exact J6]|].
          intros z s7 J7. apply safe_bind. apply safe_ret. apply safe_ret. exact J7. }
        apply safe_bind.
        * destruct (cf_dns0x20 cf); [|apply safe_ret; apply (D rest)].
          apply safe_bind. apply safe_peek.
          destruct (hd_error (st_tape s3)) as [e0|]; [|apply safe_ret; apply (D rest)].
          destruct e0; try (apply safe_ret; apply (D rest)).
          apply safe_bind. apply safe_pop. intros e1 rest1 Et1. apply safe_ret. apply (D rest1). }
  apply safe_bind. apply safe_get.
  destruct (Nat.eqb (st_nservers s1) 0).
  { apply safe_bind.
    eapply safe_mono; [apply (cp_invoke _ IH k _ s1); [apply (inv_core _ _ _ E1); auto|apply (own_core _ _ _ E1); auto
                                                      |apply (given_core _ _ _ E1); auto|apply J_tape; exact Hj|left; apply NK_tape; exact Hk]|].
    intros [] s3 J3. apply safe_ret. exact J3. }
  destruct pr.
  - apply safe_bind. apply safe_ret. apply (G None l1).
  - apply safe_bind. apply safe_bind. apply safe_pop. intros e rest Et. destruct e; try apply safe_fail.
    destruct (zeqb rc ARES_ENOTFOUND); apply safe_ret.
    + apply (G None rest).
    + apply (G (Some {| r_status := rc; r_rec := if zeqb rc ARES_SUCCESS then Some (rcode, an, id) else None |}) rest).
Qed.

Lemma query_nolock_cstep f : Specs4 f -> forall k qd s, Inv s -> Own s (cobjs k) -> GivenOk s (kbot k) -> QdOk qd k ->
  JJ s -> NK s k -> safe (query_nolock cf (S f) k qd) s jpost.
Proof.
  intros IH k qd s I O Hn Hqd Hj Hk. simpl.
  apply safe_bind. apply safe_alloc.
  destruct (alloc_opaque_ok None s I) as [I1 _].
  apply (cp_send_nolock _ IH (KWrap WQQuery (st_next s) k) false qd _ I1 (own_alloc s _ I O) (given_alloc s _ I Hn) Hqd).
  - eapply J_rel; [exact Hj|apply jrel_alloc; exact Logic.I].
  - apply (NK_alloc s COpaque k); [discriminate|exact Hk].
Qed.

(* ---- search ---- *)
Lemma search_next_cstep f : Specs4 f -> forall o k l nd s, Inv s -> Own s (o :: cobjs k) -> GivenOk s (kbot k) ->
  JJ s -> NK s k ->
  safe (search_next cf (S f) o k l nd) s (fun r s' => JJ s' /\ (snd r = false -> NK s' k)).
Proof.
  intros IH o k l nd s I O Hn Hj Hk. simpl.
  destruct (own_cons _ _ _ O) as [Hc [Hr [Hni O']]].
  apply safe_bind. eapply safe_touch; [exact (inv_heap _ _ I)|exact Hc|].
  destruct l as [|cur l'].
  - apply safe_ret. simpl. split; auto.
  - apply safe_bind. apply safe_pop. intros e rest Et. destruct e; try apply safe_fail.
    set (s1 := set_tape rest s).
    assert (E1 : core_eq s s1) by apply core_eq_set_tape.
    assert (I1 : Inv s1) by (apply (inv_core _ _ _ E1); auto).
    assert (O1 : Own s1 (o :: cobjs k)) by (apply (own_core _ _ _ E1); auto).
    assert (Hn1 : GivenOk s1 (kbot k)) by (apply (given_core _ _ _ E1); auto).
    assert (J1 : JJ s1) by (apply J_tape; exact Hj).
    assert (K1 : NK s1 k) by (apply NK_tape; exact Hk).
    destruct (negb (zeqb rc ARES_SUCCESS)) eqn:Erc.
    + apply safe_ret. simpl. split; auto.
    + apply safe_bind.
      eapply safe_mono; [apply (cp_send_nolock _ IH (KSearch o k cur l' nd) false None s1 I1 O1 Hn1 Logic.I J1 K1)|].
      intros st s2 J2. apply safe_ret. rewrite (fx_search_true cf Hfix). simpl. split; [exact J2|discriminate].
Qed.

Lemma search_callback_cstep f : Specs4 f -> forall o k cs l nd r s, Inv s -> Own s (o :: cobjs k) -> GivenOk s (kbot k) ->
  JJ s -> OK s k r -> safe (search_callback cf (S f) o k cs l nd r) s jpost.
Proof.
  intros IH o k cs l nd r s I O Hn Hj Hok. simpl.
  destruct (own_cons _ _ _ O) as [Hc [Hr [Hni O']]].
  apply safe_bind. eapply safe_touch; [exact (inv_heap _ _ I)|exact Hc|].
  destruct Hok as [Hk|Hcr].
  - match goal with |- context [if negb ?b then _ else _] => destruct (negb b) end.
    + apply (cp_end_squery _ IH); auto. left; exact Hk.
    + destruct l as [|c0 l'].
      * match goal with |- context [if ?b then _ else _] => destruct b end; apply (cp_end_squery _ IH); auto; left; exact Hk.
      * apply safe_bind.
        both (sp_search_next _ _ (S1 f) o k (c0 :: l') _ s I O Hn) (cp_search_next _ IH o k (c0 :: l') _ s I O Hn Hj Hk).
        intros [st skip] s1 [[I1 F1] [J1 K1]]. simpl in F1, K1.
        destruct skip; simpl.
        -- rewrite andb_false_r. apply safe_ret. exact J1.
        -- destruct F1 as [F1 [O1 [Hn1 Est]]]. rewrite Est. simpl.
           apply (cp_end_squery _ IH); auto. left. apply K1. reflexivity.
  - (* the cancelled result is passed on *)
    unfold cres in Hcr. subst r.
    change (safe (end_squery cf f o k (res ARES_ECANCELLED)) s jpost).
    apply (cp_end_squery _ IH); auto. right. reflexivity.
Qed.

Lemma search_int_cstep f : Specs4 f -> forall k names s, Inv s -> Own s (cobjs k) -> GivenOk s (kbot k) ->
  JJ s -> NK s k -> safe (search_int cf (S f) k names) s jpost.
Proof.
  intros IH k names s I O Hn Hj Hk. simpl.
  apply safe_bind. apply safe_alloc.
  destruct (alloc_opaque_ok None s I) as [I1 [F1 _]].
  pose proof (own_alloc s _ I O) as O1. pose proof (given_alloc s _ I Hn) as Hn1.
  assert (J1 : JJ (alloc_st COpaque s)) by (eapply J_rel; [exact Hj|apply jrel_alloc; exact Logic.I]).
  assert (K1 : NK (alloc_st COpaque s) k) by (apply (NK_alloc s COpaque k); [discriminate|exact Hk]).
  set (o := st_next s) in *. set (s1 := alloc_st COpaque s) in *.
  apply safe_bind.
  both (sp_search_next _ _ (S1 f) o k names false s1 I1 O1 Hn1) (cp_search_next _ IH o k names false s1 I1 O1 Hn1 J1 K1).
  intros [st skip] s2 [[I2 F2] [J2 K2]]. simpl in F2, K2.
  destruct skip.
  - destruct (zeqb st ARES_SUCCESS).
    + apply safe_ret. exact J2.
    + apply safe_bind. apply safe_ret. apply safe_ret. exact J2.
  - destruct F2 as [F2 [O2a [Hn2 Est]]]. rewrite Est.
    destruct (own_cons _ _ _ O2a) as [Hc2 [Hr2 [Hni2 O2]]].
    apply safe_bind. apply safe_bind. eapply safe_touch; [exact (inv_heap _ _ I2)|exact Hc2|].
    apply safe_bind. eapply safe_free; [exact (inv_heap _ _ I2)|exact Hc2|].
    destruct (free_unrooted_ok None s2 o COpaque I2 Hc2 ltac:(discriminate) ltac:(discriminate) Hr2) as [I3 [F3 _]].
    assert (O3 : Own (free_st o s2) (cobjs k)).
    { apply (own_frame _ _ _ _ _ O2 F3). intros y Hy [<-|[]]. contradiction. }
    assert (Hn3 : GivenOk (free_st o s2) (kbot k)) by exact (given_frame _ _ _ _ Hn2 F3).
    assert (J3 : JJ (free_st o s2)) by (eapply J_rel; [exact J2|apply jrel_free]).
    eapply safe_mono; [apply (cp_invoke _ IH k _ _ I3 O3 Hn3 J3)|].
    + left. apply NK_free. apply K2. reflexivity.
    + intros [] s4 J4. apply safe_ret. exact J4.
Qed.

Lemma addr_next_lookup_cstep f : Specs4 f -> forall o k l s, Inv s -> Own s (o :: cobjs k) -> GivenOk s (kbot k) ->
  JJ s -> NK s k -> safe (addr_next_lookup cf (S f) o k l) s jpost.
Proof.
  intros IH o k l s I O Hn Hj Hk. simpl.
  destruct (own_cons _ _ _ O) as [Hc [Hr [Hni O']]].
  apply safe_bind. eapply safe_touch; [exact (inv_heap _ _ I)|exact Hc|].
  destruct l as [|[|] l'].
  - apply (cp_end_aquery _ IH); auto. left; exact Hk.
  - apply safe_bind.
    eapply safe_mono; [apply (cp_query_nolock _ IH (KAddr o k l') None s I O Hn Logic.I Hj Hk)|].
    intros z s1 J1. apply safe_ret. exact J1.
  - apply (cp_addr_next_lookup _ IH); auto.
Qed.

Lemma addr_callback_cstep f : Specs4 f -> forall o k l r s, Inv s -> Own s (o :: cobjs k) -> GivenOk s (kbot k) ->
  JJ s -> OK s k r -> safe (addr_callback cf (S f) o k l r) s jpost.
Proof.
  intros IH o k l r s I O Hn Hj Hok. simpl.
  destruct (own_cons _ _ _ O) as [Hc [Hr [Hni O']]].
  apply safe_bind. eapply safe_touch; [exact (inv_heap _ _ I)|exact Hc|].
  destruct Hok as [Hk|Hcr].
  - destruct (zeqb (r_status r) ARES_SUCCESS).
    + apply safe_bind. apply safe_pop. intros e rest Et. destruct e; try apply safe_fail.
      set (s1 := set_tape rest s).
      assert (E1 : core_eq s s1) by apply core_eq_set_tape.
      apply (cp_end_aquery _ IH o k (res rc) s1);
        [apply (inv_core _ _ _ E1); auto|apply (own_core _ _ _ E1); auto|apply (given_core _ _ _ E1); auto|apply J_tape; exact Hj
        |left; apply NK_tape; exact Hk].
    + destruct (zeqb (r_status r) ARES_EDESTRUCTION || zeqb (r_status r) ARES_ECANCELLED).
      * apply (cp_end_aquery _ IH); auto. left; exact Hk.
      * apply (cp_addr_next_lookup _ IH); auto.
  - unfold cres in Hcr. subst r.
    change (safe (end_aquery cf f o k (res ARES_ECANCELLED)) s jpost).
    apply (cp_end_aquery _ IH); auto. right. reflexivity.
Qed.

(* ---- ares_getaddrinfo.c ---- *)
Lemma end_hquery_cstep f : Specs4 f -> forall o st s h, Inv s -> HOwn s o h -> JJ s ->
  (NT (ctoks (h_cb h)) \/ st = ARES_ECANCELLED) -> safe (end_hquery cf (S f) o st) s jpost.
Proof.
  intros IH o st s h I HO Hj Hd. pose proof (hown_opaque _ _ _ HO) as Hni. destruct HO as [Hc [Hz [Hnh O]]]. simpl.
  apply safe_bind. eapply safe_get_host; [exact (inv_heap _ _ I)|exact Hc|].
  pose proof (nohost_kbot _ Hnh) as Ek.
  assert (Hg : GivenOk s (kbot (h_cb h))) by (rewrite Ek; exact Logic.I).
  assert (Hok : OK s (h_cb h) (res st)).
  { destruct Hd as [Hd|Hd]; [left; apply newk_nohost; auto|right; rewrite Hd; reflexivity]. }
  apply safe_bind.
  both (sp_invoke _ _ (S1 f) (h_cb h) (res st) s I O Hg) (cp_invoke _ IH (h_cb h) (res st) s I O Hg Hj Hok).
  intros [] s1 [[I1 F1] J1]. rewrite Ek in F1.
  destruct (fr_cell _ _ _ _ F1 _ _ Hc (host_unrooted _ _ _ _ I Hc) Hni Hz) as [Hc1 Hr1].
  eapply safe_free; [exact (inv_heap _ _ I1)|exact Hc1|].
  eapply J_rel; [exact J1|apply jrel_free].
Qed.

Lemma host_next_lookup_cstep f : Specs4 f -> forall o st s h, Inv s -> HOwn s o h -> JJ s -> NT (ctoks (h_cb h)) ->
  safe (host_next_lookup cf (S f) o st) s jpost.
Proof.
  intros IH o st s h I HO Hj Hnt. pose proof HO as [Hc [Hz [Hnh O]]]. simpl.
  apply safe_bind. eapply safe_get_host; [exact (inv_heap _ _ I)|exact Hc|].
  assert (G : forall rest, safe (store o (CHost (h_set_lookups rest h));; host_next_lookup cf f o st) s jpost).
  { intros rest. apply safe_bind. eapply safe_store; [exact (inv_heap _ _ I)|exact Hc|].
    destruct (hown_store s o h (h_set_lookups rest h) I HO eq_refl Hz) as [I1 [F1 HO1]].
    apply (cp_host_next_lookup _ IH o st _ _ I1 HO1); [|exact Hnt].
    eapply J_rel; [exact Hj|]. eapply jrel_store_host; [exact Hc|reflexivity]. }
  destruct (h_lookups h) as [|[|] rest].
  - apply (cp_end_hquery _ IH o st s h); auto.
  - destruct (negb (h_localhost h) && match h_names h with [] => false | _ :: _ => true end).
    + apply (cp_host_next_dns_lookup _ IH o s h); auto.
    + apply G.
  - destruct (h_localhost h).
    + apply (cp_end_hquery _ IH o ARES_SUCCESS s h); auto.
    + apply G.
Qed.

Lemma host_next_dns_lookup_cstep f : Specs4 f -> forall o s h, Inv s -> HOwn s o h -> JJ s -> NT (ctoks (h_cb h)) ->
  safe (host_next_dns_lookup cf (S f) o) s jpost.
Proof.
  intros IH o s h I HO Hj Hnt. pose proof HO as [Hc [Hz [Hnh O]]]. simpl.
  apply safe_bind. eapply safe_get_host; [exact (inv_heap _ _ I)|exact Hc|].
  set (n := if Nat.eqb (h_family h) 0 then 2 else 1).
  set (h1 := h_set_remaining (h_remaining h + n) (h_set_names (tl (h_names h)) (hd false (h_names h)) h)).
  assert (Er1 : h_remaining h1 = n) by (unfold h1; simpl; rewrite Hz; reflexivity).
  assert (Hn : n = 1 \/ n = 2) by (unfold n; destruct (Nat.eqb (h_family h) 0); auto).
  apply safe_bind. eapply safe_store; [exact (inv_heap _ _ I)|exact Hc|].
  destruct (store_host_share_ok None s o h h1 I Hc Hz O Hnh eq_refl ltac:(lia)) as [I1 [F1 [Hs1 [Hz1 _]]]].
  assert (J1 : JJ (store_st o (CHost h1) s)).
  { eapply J_rel; [exact Hj|]. eapply jrel_store_host; [exact Hc|reflexivity]. }
  set (s1 := store_st o (CHost h1) s) in *.
  assert (Hg1 : GivenOk s1 (Some o)) by (exists h1; split; auto; lia).
  destruct (shared_host _ _ _ Hs1) as [Hc1 _].
  assert (K1 : NK s1 (KHost o)).
  { split; [apply newt_nil|]. intros o' Ek. simpl in Ek. inversion Ek; subst o'. intros h' Hc'.
    rewrite Hc1 in Hc'. inversion Hc'; subst h'. exact Hnt. }
  apply safe_bind.
  both (sp_query_nolock _ _ (S1 f) (KHost o) (Some (o, Nat.eqb (h_family h) 6)) s1 I1 (own_nil _) Hg1 eq_refl)
       (cp_query_nolock _ IH (KHost o) (Some (o, Nat.eqb (h_family h) 6)) s1 I1 (own_nil _) Hg1 eq_refl J1 K1).
  intros z s2 [[I2 F2] J2]. simpl in F2.
  fold n. destruct (Nat.eqb n 2) eqn:En.
  - apply Nat.eqb_eq in En.
    pose proof (dns_second_given s1 s2 o h1 Hs1 Hz1 ltac:(lia) F2) as Hg2.
    assert (K2 : NK s2 (KHost o)).
    { split; [apply newt_nil|]. intros o' Ek. simpl in Ek. inversion Ek; subst o'. intros h' Hc'.
      destruct (hf_host _ _ _ (fr_hosts _ _ _ _ F2) _ _ Hs1) as [_ A2].
      { rewrite Hz1. simpl. rewrite Nat.eqb_refl. lia. }
      destruct (A2 _ Hc') as [_ [Ecb _]]. rewrite Ecb. exact Hnt. }
    apply safe_bind.
    eapply safe_mono; [apply (cp_query_nolock _ IH (KHost o) (Some (o, true)) s2 I2 (own_nil _) Hg2 eq_refl J2 K2)|].
    intros z3 s3 J3. apply safe_ret. exact J3.
  - apply safe_ret. exact J2.
Qed.

Lemma host_callback_cstep f : Specs4 f -> forall o r s, Inv s -> GivenOk s (Some o) -> JJ s -> OK s (KHost o) r ->
  safe (host_callback cf (S f) o r) s jpost.
Proof.
  intros IH o r s I [h [Hs Hlt]] Hj Hok. destruct (shared_host _ _ _ Hs) as [Hc Hp]. simpl.
  assert (Hd : NT (ctoks (h_cb h))
               \/ (zeqb (r_status r) ARES_EDESTRUCTION || zeqb (r_status r) ARES_ECANCELLED = true /\ r_status r = ARES_ECANCELLED)).
  { destruct Hok as [[_ Hk]|Hcr].
    - left. exact (Hk o eq_refl h Hc).
    - right. rewrite Hcr. split; reflexivity. }
  apply safe_bind. eapply safe_get_host; [exact (inv_heap _ _ I)|exact Hc|].
  apply safe_bind. eapply safe_store; [exact (inv_heap _ _ I)|exact Hc|].
  set (h1 := h_set_remaining (Init.Nat.pred (h_remaining h)) h).
  set (s1 := store_st o (CHost h1) s).
  assert (Ecb1 : h_cb h1 = h_cb h) by reflexivity.
  assert (Er1 : h_remaining h1 = Init.Nat.pred (h_remaining h)) by reflexivity.
  assert (J1 : JJ s1) by (eapply J_rel; [exact Hj|]; eapply jrel_store_host; [exact Hc|reflexivity]).
  assert (TPB : forall (Q : Z * bool * bool -> state -> Prop), (forall v l, Q v (set_tape l s1)) ->
            safe (if zeqb (r_status r) ARES_SUCCESS
                  then let! e := pop in
                       match e with
                       | TP rc nodes v4 v6 =>
                           if zeqb rc ARES_SUCCESS && negb (h_family h =? 0)
                           then ret (if if h_family h =? 4 then v4 else v6 then ARES_SUCCESS else ARES_ENODATA,
                                     if h_family h =? 4 then v4 else v6, if h_family h =? 4 then v4 else false)
                           else ret (rc, nodes, v4)
                       | _ => fail EDESYNC end
                  else ret (ARES_SUCCESS, h_nodes h, h_v4 h)) s1 Q).
  { intros Q HQ. destruct (zeqb (r_status r) ARES_SUCCESS).
    - apply safe_bind. apply safe_pop. intros e rest Et. destruct e; try apply safe_fail.
      destruct (zeqb rc ARES_SUCCESS && negb (h_family h =? 0)); apply safe_ret; apply HQ.
    - apply safe_ret. replace s1 with (set_tape (st_tape s1) s1) by (destruct s1; reflexivity). apply HQ. }
  apply safe_bind. apply TPB. intros [[ais nodes] v4] l2. set (s2 := set_tape l2 s1).
  assert (E2 : core_eq s1 s2) by apply core_eq_set_tape.
  assert (J2 : JJ s2) by (apply J_tape; exact J1).
  destruct (Init.Nat.pred (h_remaining h) =? 0) eqn:Erem.
  - apply Nat.eqb_eq in Erem.
    assert (Hr1 : h_remaining h = 1) by lia.
    assert (Hz0 : nrefs s o = 0) by lia.
    assert (Hz1 : h_remaining h1 = 0) by (rewrite Er1; exact Erem).
    destruct (store_host_unshare_ok None s o h h1 I Hs Hz0 Ecb1 Hz1) as [I1 [Hc1 [O1 [Hnh _]]]]. fold s1 in I1, Hc1, O1.
    assert (HO1 : HOwn s1 o h1) by (split; [exact Hc1|split; [exact Hz1|split; [rewrite Ecb1; exact Hnh|rewrite Ecb1; exact O1]]]).
    assert (I2 : Inv s2) by (apply (ce_inv _ _ _ E2); auto).
    pose proof (hown_core _ _ _ _ E2 HO1) as HO2. pose proof HO2 as [Hc2 _].
    remember (h_nomem h1 || zeqb (r_status r) ARES_ENOMEM || zeqb ais ARES_ENOMEM) as nm eqn:Enm.
    apply safe_bind. eapply safe_get_host; [exact (inv_heap _ _ I2)|exact Hc2|]. rewrite <- Enm.
    match goal with |- context [h_set_ai nodes v4 nm ?x h1] => remember x as nd eqn:End; clear End end.
    apply safe_bind. eapply safe_store; [exact (inv_heap _ _ I2)|exact Hc2|].
    destruct (hown_store s2 o h1 (h_set_ai nodes v4 nm nd h1) I2 HO2 eq_refl Hz1) as [I3 [F3 HO3]].
    assert (J3 : JJ (store_st o (CHost (h_set_ai nodes v4 nm nd h1)) s2)).
    { eapply J_rel; [exact J2|]. eapply jrel_store_host; [exact Hc2|reflexivity]. }
    set (h3 := h_set_ai nodes v4 nm nd h1) in *. set (s3 := store_st o (CHost h3) s2) in *.
    simpl negb. rewrite andb_false_r. apply safe_bind. apply safe_ret.
    assert (FinE : forall stx, (NT (ctoks (h_cb h)) \/ stx = ARES_ECANCELLED) -> safe (end_hquery cf f o stx) s3 jpost).
    { intros stx Hx. apply (cp_end_hquery _ IH o stx s3 h3 I3 HO3 J3). exact Hx. }
    pose proof HO3 as [Hc3 [Hz3 _]].
    destruct (zeqb (r_status r) ARES_EDESTRUCTION || zeqb (r_status r) ARES_ECANCELLED) eqn:Ecn.
    { apply FinE. destruct Hd as [Hd|[_ Hd]]; [left; exact Hd|right; exact Hd]. }
    assert (Hnt : NT (ctoks (h_cb h))) by (destruct Hd as [Hd|[Hd _]]; [exact Hd|discriminate]).
    destruct nm; [apply FinE; left; exact Hnt|].
    destruct (negb (zeqb ais ARES_SUCCESS) && negb (zeqb ais ARES_ENODATA)).
    { destruct (zeqb ais ARES_EBADRESP && nodes); apply FinE; left; exact Hnt. }
    destruct nodes; [apply FinE; left; exact Hnt|].
    destruct (zeqb (r_status r) ARES_ENOTFOUND || zeqb (r_status r) ARES_ENODATA || zeqb ais ARES_ENODATA).
    { apply safe_bind. eapply safe_get_host; [exact (inv_heap _ _ I3)|exact Hc3|].
      apply safe_bind. eapply safe_store; [exact (inv_heap _ _ I3)|exact Hc3|].
      match goal with |- context [store_st o (CHost ?hx) s3] =>
        destruct (hown_store s3 o h3 hx I3 HO3 eq_refl Hz3) as [I4 [F4 HO4]];
        assert (J4 : JJ (store_st o (CHost hx) s3)) by (eapply J_rel; [exact J3|]; eapply jrel_store_host; [exact Hc3|reflexivity])
      end.
      eapply (cp_host_next_lookup _ IH); eauto. }
    match goal with |- safe (if ?b then _ else _) _ _ => destruct b end.
    { apply safe_bind. eapply safe_get_host; [exact (inv_heap _ _ I3)|exact Hc3|].
      eapply (cp_host_next_lookup _ IH); eauto. }
    apply FinE. left; exact Hnt.
  - apply Nat.eqb_neq in Erem.
    assert (Hp1 : 0 < h_remaining h1) by (rewrite Er1; lia).
    destruct (store_host_shared_ok None s o h h1 (dg (Some o)) I Hs Ecb1 Hp1) as [I1 [F1 [Hs1 _]]].
    { rewrite Er1. simpl. rewrite Nat.eqb_refl. lia. }
    { intros o' Hne. simpl. apply Nat.eqb_neq in Hne. rewrite Hne. reflexivity. }
    { simpl. rewrite Nat.eqb_refl. lia. }
    fold s1 in I1, F1, Hs1.
    assert (I2 : Inv s2) by (apply (ce_inv _ _ _ E2); auto).
    assert (Hs2 : shared_at s2 o = Some h1) by (rewrite (ce_shared _ _ _ E2); exact Hs1).
    destruct (shared_host _ _ _ Hs2) as [Hc2 _].
    remember (h_nomem h1 || zeqb (r_status r) ARES_ENOMEM || zeqb ais ARES_ENOMEM) as nm eqn:Enm.
    apply safe_bind. eapply safe_get_host; [exact (inv_heap _ _ I2)|exact Hc2|]. rewrite <- Enm.
    match goal with |- context [h_set_ai nodes v4 nm ?x h1] => remember x as nd eqn:End; clear End end.
    apply safe_bind. eapply safe_store; [exact (inv_heap _ _ I2)|exact Hc2|].
    destruct (store_host_shared_ok None s2 o h1 (h_set_ai nodes v4 nm nd h1) (dg None) I2 Hs2 eq_refl Hp1) as [I3 [F3 _]].
    { simpl. lia. } { intros; reflexivity. }
    { simpl. pose proof (hi_cnt _ (inv_hosts _ _ I2) _ _ Hs2). lia. }
    assert (J3 : JJ (store_st o (CHost (h_set_ai nodes v4 nm nd h1)) s2)).
    { eapply J_rel; [exact J2|]. eapply jrel_store_host; [exact Hc2|reflexivity]. }
    set (s3 := store_st o (CHost (h_set_ai nodes v4 nm nd h1)) s2) in *.
    simpl negb.
    apply safe_bind.
    + match goal with |- context [if ?b then _ else ret tt] => destruct b end.
      * apply safe_bind. apply safe_get.
        match goal with |- context [lookup ?t (st_byqid s3)] => destruct (lookup t (st_byqid s3)) as [qo|] eqn:Lk end.
        -- destruct (inv_byqid _ _ I3 _ _ Lk) as [Hl _]. destruct (inv_query _ _ I3 _ Hl) as [q Hq].
           apply safe_bind. eapply safe_get_query; [exact (inv_heap _ _ I3)|exact Hq|].
           eapply safe_store; [exact (inv_heap _ _ I3)|exact Hq|].
           apply safe_ret. eapply J_rel; [exact J3|]. eapply jrel_store_query; [exact Hq|reflexivity|reflexivity].
        -- apply safe_ret. apply safe_ret. exact J3.
      * apply safe_ret. apply safe_ret. exact J3.
Qed.

(* ---- entry points ---- *)
Lemma NT_one t : NT [t] -> forall s, NK s (KUser t).
Proof. intros H s. apply newk_nohost; [exact Logic.I|exact H]. Qed.

Lemma api_cstep f : Specs4 f -> forall c s, Inv s -> JJ s -> NT (call_toks c) -> safe (api cf (S f) c) s jpost.
Proof.
  intros IH c s I Hj Hnt.
  assert (Em : forall t (m : M unit),
            (forall s1, core_eq s s1 -> st_scripts s1 = st_scripts s -> JJ s1 -> safe m s1 jpost) ->
            safe (emit (EvReq t) ;; m) s jpost).
  { intros t m Hm. apply safe_bind. apply safe_emit.
    apply Hm; [apply core_eq_set_trace|reflexivity|apply J_emit; [exact Logic.I|exact Hj]]. }
  destruct c; simpl; simpl in Hnt.
  - (* ASync *)
    apply Em. intros s1 E1 Es1 J1.
    apply (cp_invoke _ IH (KUser t) (res st) s1); [apply (inv_core _ _ _ E1); auto|apply own_nil|exact Logic.I|exact J1|left; apply NT_one; exact Hnt].
  - (* ASend *)
    apply Em. intros s1 E1 Es1 J1. apply safe_bind.
    eapply safe_mono; [apply (cp_send_nolock _ IH (KUser t) false None s1); [apply (inv_core _ _ _ E1); auto|apply own_nil|exact Logic.I|exact Logic.I|exact J1|apply NT_one; exact Hnt]|].
    intros z s2 J2. apply safe_ret. exact J2.
  - (* ASendRaw *)
    apply Em. intros s1 E1 Es1 J1.
    assert (I1 : Inv s1) by (apply (inv_core _ _ _ E1); auto).
    apply safe_bind. apply safe_alloc.
    destruct (alloc_opaque_ok None s1 I1) as [I2 _].
    apply safe_bind.
    eapply safe_mono; [apply (cp_send_nolock _ IH (KWrap WConv (st_next s1) (KUser t)) false None _ I2 (own_alloc s1 [] I1 (own_nil _)) Logic.I Logic.I)|].
    + eapply J_rel; [exact J1|apply jrel_alloc; exact Logic.I].
    + apply newk_nohost; [exact Logic.I|exact Hnt].
    + intros z s3 J3. apply safe_ret. exact J3.
  - (* AQuery *)
    apply Em. intros s1 E1 Es1 J1. apply safe_bind.
    eapply safe_mono; [apply (cp_query_nolock _ IH (KUser t) None s1); [apply (inv_core _ _ _ E1); auto|apply own_nil|exact Logic.I|exact Logic.I|exact J1|apply NT_one; exact Hnt]|].
    intros z s2 J2. apply safe_ret. exact J2.
  - (* AOQuery *)
    apply Em. intros s1 E1 Es1 J1.
    assert (I1 : Inv s1) by (apply (inv_core _ _ _ E1); auto).
    apply safe_bind. apply safe_alloc.
    destruct (alloc_opaque_ok None s1 I1) as [I2 _].
    pose proof (own_alloc s1 [] I1 (own_nil _)) as O2.
    assert (J2 : JJ (alloc_st COpaque s1)) by (eapply J_rel; [exact J1|apply jrel_alloc; exact Logic.I]).
    assert (K2 : NK (alloc_st COpaque s1) (KWrap WConv (st_next s1) (KUser t))) by (apply newk_nohost; [exact Logic.I|exact Hnt]).
    destruct (zeqb create_rc ARES_SUCCESS).
    + apply safe_bind.
      eapply safe_mono; [apply (cp_query_nolock _ IH (KWrap WConv (st_next s1) (KUser t)) None _ I2 O2 Logic.I Logic.I J2 K2)|].
      intros z s3 J3. apply safe_ret. exact J3.
    + apply (cp_invoke _ IH (KWrap WConv (st_next s1) (KUser t)) (res create_rc) _ I2 O2 Logic.I J2). left; exact K2.
  - (* ASearch *)
    apply Em. intros s1 E1 Es1 J1. apply safe_bind.
    eapply safe_mono; [apply (cp_search_int _ IH (KUser t) names s1); [apply (inv_core _ _ _ E1); auto|apply own_nil|exact Logic.I|exact J1|apply NT_one; exact Hnt]|].
    intros z s2 J2. apply safe_ret. exact J2.
  - (* AOSearch *)
    apply Em. intros s1 E1 Es1 J1.
    assert (I1 : Inv s1) by (apply (inv_core _ _ _ E1); auto).
    apply safe_bind. apply safe_alloc.
    destruct (alloc_opaque_ok None s1 I1) as [I2 _].
    apply safe_bind.
    eapply safe_mono; [apply (cp_search_int _ IH (KWrap WConv (st_next s1) (KUser t)) names _ I2 (own_alloc s1 [] I1 (own_nil _)) Logic.I)|].
    + eapply J_rel; [exact J1|apply jrel_alloc; exact Logic.I].
    + apply newk_nohost; [exact Logic.I|exact Hnt].
    + intros z s3 J3. apply safe_ret. exact J3.
  - (* AGhba *)
    apply Em. intros s1 E1 Es1 J1.
    assert (I1 : Inv s1) by (apply (inv_core _ _ _ E1); auto).
    apply safe_bind. apply safe_alloc.
    destruct (alloc_opaque_ok None s1 I1) as [I2 _].
    apply (cp_addr_next_lookup _ IH (st_next s1) (KUser t) lookups _ I2 (own_alloc s1 [] I1 (own_nil _)) Logic.I).
    + eapply J_rel; [exact J1|apply jrel_alloc; exact Logic.I].
    + apply NT_one; exact Hnt.
  - (* AGni *)
    apply Em. intros s1 E1 Es1 J1.
    assert (I1 : Inv s1) by (apply (inv_core _ _ _ E1); auto).
    apply safe_bind. apply safe_alloc.
    destruct (alloc_opaque_ok None s1 I1) as [I2 _].
    pose proof (own_alloc s1 [] I1 (own_nil _)) as O2.
    assert (J2 : JJ (alloc_st COpaque s1)) by (eapply J_rel; [exact J1|apply jrel_alloc; exact Logic.I]).
    set (w := st_next s1) in *. set (s2 := alloc_st COpaque s1) in *.
    apply safe_bind. apply safe_alloc.
    destruct (alloc_opaque_ok None s2 I2) as [I3 _].
    pose proof (own_alloc s2 [w] I2 O2) as O3.
    apply (cp_addr_next_lookup _ IH (st_next s2) (KWrap (WNameinfo namereqd) w (KUser t)) lookups _ I3 O3 Logic.I).
    + eapply J_rel; [exact J2|apply jrel_alloc; exact Logic.I].
    + apply newk_nohost; [exact Logic.I|exact Hnt].
  - (* AGai *)
    apply Em. intros s1 E1 Es1 J1.
    assert (I1 : Inv s1) by (apply (inv_core _ _ _ E1); auto).
    apply safe_bind. apply safe_alloc.
    set (h0 := mk_host (KUser t) names family lookups localhost).
    destruct (alloc_host_ok None s1 h0 I1 eq_refl) as [I2 [Hc2 _]].
    assert (HO2 : HOwn (alloc_st (CHost h0) s1) (st_next s1) h0).
    { split; [exact Hc2|]. split; [reflexivity|]. split; [exact Logic.I|apply own_nil]. }
    apply (cp_host_next_lookup _ IH (st_next s1) ARES_ECONNREFUSED _ h0 I2 HO2); [|exact Hnt].
    eapply J_rel; [exact J1|apply jrel_alloc; exact Hnt].
  - (* AGhbn *)
    apply Em. intros s1 E1 Es1 J1.
    assert (I1 : Inv s1) by (apply (inv_core _ _ _ E1); auto).
    apply safe_bind. apply safe_alloc.
    destruct (alloc_opaque_ok None s1 I1) as [I2 _].
    pose proof (own_alloc s1 [] I1 (own_nil _)) as O2.
    assert (J2 : JJ (alloc_st COpaque s1)) by (eapply J_rel; [exact J1|apply jrel_alloc; exact Logic.I]).
    set (w := st_next s1) in *. set (s2 := alloc_st COpaque s1) in *.
    apply safe_bind. apply safe_alloc.
    set (h0 := mk_host (KWrap WGhbn w (KUser t)) names family lookups localhost).
    destruct (alloc_host_ok None s2 h0 I2 eq_refl) as [I3 [Hc3 [Hsame3 [_ [Hrt3 _]]]]].
    assert (HO3 : HOwn (alloc_st (CHost h0) s2) (st_next s2) h0).
    { split; [exact Hc3|]. split; [reflexivity|]. split; [exact Logic.I|].
      apply (own_same s2); auto. intros y [<-|[]]. apply Hsame3.
      destruct (own_cons _ _ _ O2) as [Hcw _]. pose proof (live_lt _ _ _ (inv_heap _ _ I2) Hcw). lia. }
    apply (cp_host_next_lookup _ IH (st_next s2) ARES_ECONNREFUSED _ h0 I3 HO3); [|exact Hnt].
    eapply J_rel; [exact J2|apply jrel_alloc; exact Hnt].
  - (* ACancel *)
    apply (cp_cancel _ IH); auto. apply J_pre. exact Hj.
  - (* ASetServers *)
    apply safe_bind. apply safe_emit.
    assert (E1 : core_eq s (set_trace (EvSetServers :: st_trace s) s)) by apply core_eq_set_trace.
    apply (cp_set_servers _ IH); [apply (inv_core _ _ _ E1); auto|apply J_emit; [exact Logic.I|exact Hj]].
  - (* ANop *)
    apply safe_ret. exact Hj.
Qed.

Lemma specs4_S f : Specs4 f -> Specs4 (S f).
Proof.
  intros IH. constructor.
  - apply invoke_cstep; auto.
  - apply run_script_cstep; auto.
  - apply api_cstep; auto.
  - apply query_nolock_cstep; auto.
  - apply send_nolock_cstep; auto.
  - apply send_query_cstep; auto.
  - apply send_query_write_cstep; auto.
  - apply requeue_query_cstep; auto.
  - apply end_query_cstep; auto.
  - apply complete_query_cstep; auto.
  - apply handle_conn_error_cstep; auto.
  - apply close_connection_cstep; auto.
  - apply requeue_conn_queries_cstep; auto.
  - apply check_cleanup_cstep; auto.
  - apply cleanup_loop_cstep; auto.
  - apply set_servers_cstep; auto.
  - apply set_servers_loop_cstep; auto.
  - apply cancel_cstep; auto.
  - apply cancel_loop_cstep; auto.
  - apply search_int_cstep; auto.
  - apply search_next_cstep; auto.
  - apply search_callback_cstep; auto.
  - apply end_squery_cstep; auto.
  - apply addr_next_lookup_cstep; auto.
  - apply addr_callback_cstep; auto.
  - apply end_aquery_cstep; auto.
  - apply host_next_lookup_cstep; auto.
  - apply host_next_dns_lookup_cstep; auto.
  - apply host_callback_cstep; auto.
  - apply end_hquery_cstep; auto.
Qed.

Theorem all_specs4 : forall f, Specs4 f.
Proof. induction f; [apply specs4_O|apply specs4_S; auto]. Qed.

End FixedC.
