(* C08 - ares_servers_update(): the two statements Core/SrvUpdate_proofs.v left to the
   correspondence run.

   (1) ARES_FLAG_PRIMARY: the flush decision does not depend on the flag, and what the channel holds
       after the trim (ares_servers_trim_single) is exactly the first server of the new
       configuration, so [update_flushes_on_change] holds for both settings of the flag with
       [spec_seq_after] as the configured sequence.
   (2) no spurious flush: an edit that configures the sequence the channel already has (identical
       list, or a list that only repeats entries) leaves the servers untouched and does not flush.

   Both rest on one fact about [denotes]: the idx values of the servers are exactly the positions
   0 .. length C - 1 (pigeonhole over [NoDup (map s_key l)]). *)
From CAres.Base Require Import CInt.
From CAres.Core Require Import SrvUpdate SrvUpdate_proofs.
Local Open Scope Z_scope.

(* ---- idx values of a denoting list are a permutation of the positions ---- *)
Lemma nodup_map_transfer {A B D} (f : A -> B) (g : A -> D) (l : list A) :
  (forall x y, In x l -> In y l -> g x = g y -> f x = f y) ->
  NoDup (map f l) -> NoDup (map g l).
Proof.
  induction l as [| a l IH]; intros Hfg Hn; cbn in *; [constructor |].
  inversion Hn as [| ? ? Hnot Hn']; subst. constructor.
  - intros Hin. apply in_map_iff in Hin as (y & Hy & Hyl). apply Hnot.
    apply in_map_iff. exists y. split; [| exact Hyl].
    apply Hfg; [right; exact Hyl | left; reflexivity | exact Hy].
  - apply IH; [| exact Hn']. intros x y Hx Hy. apply Hfg; right; assumption.
Qed.

Lemma denotes_nodup_idx l C : denotes l C -> NoDup (map s_idx l).
Proof.
  intros (Nk & _ & P). apply (nodup_map_transfer s_key s_idx l); [| exact Nk].
  intros x y Hx Hy E. pose proof (P x Hx) as Px. pose proof (P y Hy) as Py.
  rewrite E in Px. rewrite Px in Py. inversion Py. reflexivity.
Qed.

Lemma denotes_idx_lt l C s : denotes l C -> In s l -> (s_idx s < length C)%nat.
Proof.
  intros (_ & _ & P) Hs. apply nth_error_Some. rewrite (P s Hs). discriminate.
Qed.

Lemma denotes_surj l C i : denotes l C -> (i < length C)%nat -> exists s, In s l /\ s_idx s = i.
Proof.
  intros D Hi. pose proof (denotes_nodup_idx l C D) as Nd.
  assert (Hincl : incl (seq 0 (length C)) (map s_idx l)).
  { apply NoDup_length_incl; [exact Nd | |].
    - rewrite seq_length, map_length. destruct D as (_ & L & _). rewrite L. apply Nat.le_refl.
    - intros j Hj. apply in_map_iff in Hj as (s & <- & Hs). apply in_seq.
      pose proof (denotes_idx_lt l C s D Hs). split; [apply Nat.le_0_l | exact H]. }
  assert (Hin : In i (map s_idx l)) by (apply Hincl; apply in_seq; split; [apply Nat.le_0_l | exact Hi]).
  apply in_map_iff in Hin as (s & Hs & Hl). exists s. split; [exact Hl | exact Hs].
Qed.

(* the server at a position is found by its key *)
Lemma denotes_find l C i k : denotes l C -> nth_error C i = Some k ->
  exists s, find_srv l k = Some s /\ s_idx s = i.
Proof.
  intros D Hn. assert (Hi : (i < length C)%nat) by (apply nth_error_Some; rewrite Hn; discriminate).
  destruct (denotes_surj l C i D Hi) as (s & Hs & Hidx).
  pose proof D as (Nk & _ & P). pose proof (P s Hs) as Ps. rewrite Hidx, Hn in Ps. assert (Hk : k = s_key s) by congruence.
  destruct (find_srv l k) as [s' |] eqn:F.
  - apply find_srv_some in F as [Hs' Hk']. exists s'. split; [reflexivity |].
    assert (s' = s) by (apply (nodup_key_inj l); auto; congruence). subst s'. exact Hidx.
  - exfalso. apply (find_srv_none l k F s Hs). symmetry. exact Hk.
Qed.

(* ---- (1) ARES_FLAG_PRIMARY ---- *)
Lemma servers_update_flag_irrelevant cu ct p cur new :
  snd (servers_update cu ct p cur new) = snd (servers_update cu ct false cur new).
Proof.
  unfold servers_update. destruct (upd_loop cur [] (map (resolve cu ct) new) 0%nat false) as [l1 ch1].
  destruct (remove_stale l1 (map (resolve cu ct) new)) as [l2 ch2]. reflexivity.
Qed.

Lemma servers_update_primary_trim cu ct cur new :
  fst (servers_update cu ct true cur new) = trim_single (fst (servers_update cu ct false cur new)).
Proof.
  unfold servers_update. destruct (upd_loop cur [] (map (resolve cu ct) new) 0%nat false) as [l1 ch1].
  destruct (remove_stale l1 (map (resolve cu ct) new)) as [l2 ch2]. reflexivity.
Qed.

Lemma min_idx_spec r : forall best,
  let m := min_idx r best in
  (m = best \/ In m r) /\ (s_idx m <= s_idx best)%nat /\ (forall s, In s r -> (s_idx m <= s_idx s)%nat).
Proof.
  induction r as [| x r IH]; intros best; cbn [min_idx].
  - split; [left; reflexivity |]. split; [apply Nat.le_refl | intros s []].
  - destruct (Nat.ltb_spec (s_idx x) (s_idx best)) as [L | L].
    + destruct (IH x) as (H1 & H2 & H3). split; [| split].
      * destruct H1 as [-> | H1]; right; [left; reflexivity | right; exact H1].
      * lia.
      * intros s [<- | Hs]; [exact H2 | apply H3; exact Hs].
    + destruct (IH best) as (H1 & H2 & H3). split; [| split].
      * destruct H1 as [-> | H1]; [left; reflexivity | right; right; exact H1].
      * exact H2.
      * intros s [<- | Hs]; [lia | apply H3; exact Hs].
Qed.

Lemma trim_single_denotes l N : denotes l N -> denotes (trim_single l) (firstn 1 N).
Proof.
  intros D. destruct l as [| s r].
  - destruct D as (_ & L & _). destruct N; [| discriminate]. cbn. split; [constructor |]. split; [reflexivity | intros s []].
  - cbn [trim_single]. pose proof (min_idx_spec r s) as (Hin & Hle & Hall). cbn zeta in *.
    set (m := min_idx r s) in *.
    assert (Hm : In m (s :: r)) by (destruct Hin as [-> | Hin]; [left; reflexivity | right; exact Hin]).
    assert (HN : (0 < length N)%nat).
    { destruct D as (_ & L & _). rewrite <- L. cbn. lia. }
    destruct (denotes_surj (s :: r) N 0%nat D HN) as (z & Hz & Hz0).
    assert (Hm0 : s_idx m = 0%nat).
    { destruct Hz as [<- | Hz]; [lia | pose proof (Hall z Hz); lia]. }
    destruct D as (_ & _ & P). pose proof (P m Hm) as Pm. rewrite Hm0 in Pm.
    destruct N as [| k N']; [discriminate |]. cbn in Pm. inversion Pm as [Hk]. cbn [firstn].
    split; [cbn; constructor; [intros [] | constructor] |]. split; [reflexivity |].
    intros x [<- | []]. rewrite Hm0. cbn. reflexivity.
Qed.

(* both settings of ARES_FLAG_PRIMARY: the channel afterwards holds exactly the configured sequence
   (the whole new list, or its first server), and if the cache is NOT flushed the new list - all
   of it, also with ARES_FLAG_PRIMARY - is the previous sequence, hence so is the configured one *)
Definition seq_kept (primary : bool) (C : list skey) : list skey := if primary then firstn 1 C else C.

Theorem update_flushes_on_change_any_flag cu ct primary cur C new cur' changed :
  denotes cur C ->
  servers_update cu ct primary cur new = (cur', changed) ->
  denotes cur' (spec_seq_after cu ct primary new) /\
  (changed = false -> dedupk [] (map (resolve cu ct) new) = C /\ spec_seq_after cu ct primary new = seq_kept primary C).
Proof.
  intros D H.
  destruct (servers_update cu ct false cur new) as [l0 ch0] eqn:E0.
  pose proof (update_flushes_on_change cu ct cur C new l0 ch0 D E0) as [D0 F0].
  pose proof (servers_update_flag_irrelevant cu ct primary cur new) as Hs. rewrite H, E0 in Hs. cbn in Hs. subst ch0.
  assert (Hseq : changed = false ->
                 dedupk [] (map (resolve cu ct) new) = C /\ spec_seq_after cu ct primary new = seq_kept primary C).
  { intros Hc. pose proof (F0 Hc) as HN. split; [exact HN |]. unfold spec_seq_after, seq_kept. rewrite HN. reflexivity. }
  split; [| exact Hseq].
  destruct primary.
  - pose proof (servers_update_primary_trim cu ct cur new) as Hf. rewrite H, E0 in Hf. cbn in Hf. subst cur'.
    unfold spec_seq_after. apply trim_single_denotes. exact D0.
  - rewrite E0 in H. inversion H; subst. exact D0.
Qed.

(* a channel that went through an ARES_FLAG_PRIMARY update holds at most one server; for such a
   channel "not flushed" means the configured sequence is literally the previous one *)
Corollary flush_on_list_change_any_flag cu ct primary cur C new cur' changed :
  denotes cur C -> (primary = true -> (length C <= 1)%nat) ->
  servers_update cu ct primary cur new = (cur', changed) ->
  spec_seq_after cu ct primary new <> C -> changed = true.
Proof.
  intros D Hl H Hn. destruct (update_flushes_on_change_any_flag cu ct primary cur C new cur' changed D H) as [_ Hc].
  destruct changed; [reflexivity | exfalso]. destruct (Hc eq_refl) as [_ Hs]. apply Hn. rewrite Hs.
  unfold seq_kept. destruct primary; [| reflexivity]. specialize (Hl eq_refl).
  destruct C as [| c [| c' C']]; [reflexivity | reflexivity | cbn in Hl; lia].
Qed.

(* ---- (2) no spurious flush ---- *)
(* the loop over a configuration that spells the sequence the channel already has changes nothing *)
Lemma loop_same cur C : denotes cur C -> NoDup C ->
  forall rest earlier E,
  (forall k, In k earlier <-> In k E) ->
  E ++ dedupk E rest = C ->
  upd_loop cur earlier rest (length E) false = (cur, false).
Proof.
  intros D NC. induction rest as [| k r IH]; intros earlier E Hm HC; cbn [upd_loop dedupk] in *; [reflexivity |].
  assert (Hex : existsb (keqb k) earlier = existsb (keqb k) E).
  { destruct (existsb (keqb k) E) eqn:X.
    - apply existsb_keqb. apply Hm. apply existsb_keqb. exact X.
    - destruct (existsb (keqb k) earlier) eqn:Y; [| reflexivity].
      apply existsb_keqb in Y. apply Hm in Y. apply existsb_keqb in Y. congruence. }
  rewrite Hex. destruct (existsb (keqb k) E) eqn:Ein.
  - apply IH; [| exact HC].
    intros x. split; [intros [<- | Hx]; [apply existsb_keqb; exact Ein | apply Hm; exact Hx] | intros Hx; right; apply Hm; exact Hx].
  - assert (Hnth : nth_error C (length E) = Some k).
    { rewrite <- HC. rewrite nth_error_app2 by apply Nat.le_refl. rewrite Nat.sub_diag. reflexivity. }
    destruct (denotes_find cur C (length E) k D Hnth) as (s & Hf & Hidx).
    rewrite Hf, Hidx, Nat.eqb_refl.
    replace (S (length E)) with (length (E ++ [k])) by (rewrite app_length; cbn; lia).
    apply IH.
    + intros x. rewrite in_app_iff. cbn. split; [intros [<- | Hx]; [right; left; reflexivity | left; apply Hm; exact Hx]
                                                | intros [Hx | [<- | []]]; [right; apply Hm; exact Hx | left; reflexivity]].
    + rewrite <- app_assoc. exact HC.
Qed.

Lemma filter_all {A} (p : A -> bool) l : (forall x, In x l -> p x = true) -> filter p l = l.
Proof.
  induction l as [| a l IH]; intros H; cbn; [reflexivity |].
  rewrite (H a (or_introl eq_refl)). f_equal. apply IH. intros x Hx. apply H. right. exact Hx.
Qed.

Lemma dedupk_nodup l : forall seen, NoDup (dedupk seen l).
Proof.
  induction l as [| k r IH]; intros seen; cbn; [constructor |].
  destruct (existsb (keqb k) seen) eqn:E; [apply IH |].
  constructor; [| apply IH]. intros Hin. apply dedupk_in in Hin as [_ Hn]. apply Hn. apply in_app_iff. right. left. reflexivity.
Qed.

(* an edit that configures the sequence the channel already has (the identical list, or one that
   only repeats entries of it) touches no server and does not flush the cache *)
Theorem no_spurious_flush cu ct cur C new :
  denotes cur C -> dedupk [] (map (resolve cu ct) new) = C ->
  servers_update cu ct false cur new = (cur, false).
Proof.
  intros D HC. unfold servers_update. set (ks := map (resolve cu ct) new) in *.
  assert (NC : NoDup C) by (rewrite <- HC; apply dedupk_nodup).
  pose proof (loop_same cur C D NC ks [] [] (fun k => conj (fun x => x) (fun x => x)) HC) as HL.
  cbn [length] in HL. rewrite HL.
  unfold remove_stale.
  assert (Hall : forall s, In s cur -> in_newconfig ks s = true).
  { intros s Hs. unfold in_newconfig. apply existsb_keqb.
    destruct D as (_ & _ & P). pose proof (P s Hs) as Ps. apply nth_error_In in Ps.
    rewrite <- HC in Ps. apply dedupk_in in Ps as [Ps _]. exact Ps. }
  rewrite (filter_all _ _ Hall). rewrite Nat.eqb_refl. reflexivity.
Qed.

(* the exact characterisation without ARES_FLAG_PRIMARY: flush <-> the configured sequence changed *)
Corollary flush_iff_list_changed cu ct cur C new :
  denotes cur C ->
  (snd (servers_update cu ct false cur new) = false <-> dedupk [] (map (resolve cu ct) new) = C).
Proof.
  intros D. split.
  - intros Hs. destruct (servers_update cu ct false cur new) as [l c] eqn:E. cbn in Hs. subst c.
    destruct (update_flushes_on_change cu ct cur C new l false D E) as [_ F]. apply F. reflexivity.
  - intros HC. rewrite (no_spurious_flush cu ct cur C new D HC). reflexivity.
Qed.

(* non-vacuity: a two-server channel, the same list again / with repeats keeps the cache; with
   ARES_FLAG_PRIMARY the channel is trimmed to the first server *)
Example more_examples :
  servers_update 0 0 false ex_cur [exA; exB] = (ex_cur, false) /\ servers_update 0 0 false ex_cur [exA; exA; exB; exA] = (ex_cur, false) /\ servers_update 0 0 true ex_cur [exB; exA] = ([mkSrv (2, 53, 53) 0], true) /\ servers_update 0 0 true [mkSrv (2, 53, 53) 0] [exB] = ([mkSrv (2, 53, 53) 0], false).
Proof. vm_compute. repeat split. Qed.
