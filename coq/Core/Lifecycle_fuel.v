(* C01: the fuel of the lifecycle model is a bound on the depth of nested calls.  This file
   defines a potential of a state (what is left to do: tape events, pending script calls,
   linked queries with the lookups their closures still hold, connections, host_query states)
   and shows how the primitive state operations change it.  Lifecycle_fuel_proofs.v shows that
   no function increases it and that a fuel proportional to it is never exhausted. *)
From Coq Require Import List ZArith Lia Bool Arith Permutation.
Import ListNotations.
From CAres.Base Require Import Outcome.
From CAres.Gen Require Import Consts.
From CAres.Core Require Import LifecycleMonitor Lifecycle Lifecycle_inv Lifecycle_proofs Lifecycle_tokens.

(* ---------------------------------------------------------------------------------- *)
(* safe3 m s Q: m does not run out of fuel from s, and if it completes Q holds          *)
(* ---------------------------------------------------------------------------------- *)
Definition safe3 {A} (m : M A) (s : state) (Q : A -> state -> Prop) : Prop :=
  match m s with Ok (a, s') => Q a s' | Err e => e <> OutOfFuel | UB _ => True end.

Lemma safe3_ret {A} (a : A) s (Q : A -> state -> Prop) : Q a s -> safe3 (ret a) s Q.
Proof. unfold safe3, ret. auto. Qed.
Lemma safe3_fail {A} e s (Q : A -> state -> Prop) : e <> OutOfFuel -> safe3 (fail e) s Q.
Proof. unfold safe3, fail. auto. Qed.
Lemma safe3_bind {A B} (m : M A) (f : A -> M B) s (Q : B -> state -> Prop) :
  safe3 m s (fun a s1 => safe3 (f a) s1 Q) -> safe3 (mbind m f) s Q.
Proof. unfold safe3, mbind. destruct (m s) as [[a s1]| |]; auto. Qed.
Lemma safe3_mono {A} (m : M A) s (Q Q' : A -> state -> Prop) :
  safe3 m s Q -> (forall a s', Q a s' -> Q' a s') -> safe3 m s Q'.
Proof. unfold safe3. destruct (m s) as [[a s1]| |]; auto. Qed.
Lemma safe3_get s (Q : state -> state -> Prop) : Q s s -> safe3 get s Q.
Proof. unfold safe3, get. auto. Qed.
Lemma safe3_modify f s (Q : unit -> state -> Prop) : Q tt (f s) -> safe3 (modify f) s Q.
Proof. unfold safe3, modify. auto. Qed.
Lemma safe3_peek s (Q : option tev -> state -> Prop) : Q (hd_error (st_tape s)) s -> safe3 peek s Q.
Proof. unfold safe3, peek. auto. Qed.
Lemma safe3_peek2 s (Q : option tev -> state -> Prop) : Q (hd_error (tl (st_tape s))) s -> safe3 peek2 s Q.
Proof. unfold safe3, peek2. auto. Qed.
Lemma safe3_pop s (Q : tev -> state -> Prop) :
  (forall e r, st_tape s = e :: r -> Q e (set_tape r s)) -> safe3 pop s Q.
Proof. unfold safe3, pop. destruct (st_tape s); auto. unfold EDESYNC, OutOfFuel. lia. Qed.
Lemma safe3_emit e s (Q : unit -> state -> Prop) : Q tt (set_trace (e :: st_trace s) s) -> safe3 (emit e) s Q.
Proof. unfold emit. apply safe3_modify. Qed.
Lemma safe3_of_run {A} (m : M A) s a s' (Q : A -> state -> Prop) : m s = Ok (a, s') -> Q a s' -> safe3 m s Q.
Proof. intros E HQ. unfold safe3. rewrite E. exact HQ. Qed.

(* the structural facts of Lifecycle_proofs.v (safe: no UB, postcondition) next to a safe3 statement *)
Lemma safe3_with {A} (m : M A) s (Q1 Q3 : A -> state -> Prop) :
  safe m s Q1 -> safe3 m s Q3 -> safe3 m s (fun a s' => Q1 a s' /\ Q3 a s').
Proof. unfold safe, safe3. destruct (m s) as [[a s']| |]; auto. Qed.

Lemma edesync_ne : EDESYNC <> OutOfFuel.
Proof. unfold EDESYNC, OutOfFuel. lia. Qed.
Lemma einternal_ne : EINTERNAL <> OutOfFuel.
Proof. unfold EINTERNAL, OutOfFuel. lia. Qed.
#[export] Hint Resolve edesync_ne einternal_ne : fuel.

Lemma safe3_touch s o c (Q : cell -> state -> Prop) :
  heap_ok s -> cell_of s o = Some c -> Q c s -> safe3 (touch o) s Q.
Proof. intros H Hc HQ. unfold safe3. rewrite (touch_run _ _ _ H Hc). exact HQ. Qed.
Lemma safe3_free s o c (Q : unit -> state -> Prop) :
  heap_ok s -> cell_of s o = Some c -> Q tt (free_st o s) -> safe3 (free_obj o) s Q.
Proof. intros H Hc HQ. unfold safe3. rewrite (free_run _ _ _ H Hc). exact HQ. Qed.
Lemma safe3_store s o c0 c (Q : unit -> state -> Prop) :
  heap_ok s -> cell_of s o = Some c0 -> Q tt (store_st o c s) -> safe3 (store o c) s Q.
Proof. intros H Hc HQ. unfold safe3. rewrite (store_run _ _ _ c H Hc). exact HQ. Qed.
Lemma safe3_alloc s c (Q : obj -> state -> Prop) : Q (st_next s) (alloc_st c s) -> safe3 (alloc c) s Q.
Proof. intros HQ. unfold safe3. rewrite alloc_run. exact HQ. Qed.
Lemma safe3_get_query s qo q (Q : query -> state -> Prop) :
  heap_ok s -> cell_of s qo = Some (CQuery q) -> Q q s -> safe3 (get_query qo) s Q.
Proof. intros H Hc HQ. unfold get_query, safe3, mbind. rewrite (touch_run _ _ _ H Hc). exact HQ. Qed.
Lemma safe3_get_conn s co c (Q : conn -> state -> Prop) :
  heap_ok s -> cell_of s co = Some (CConn c) -> Q c s -> safe3 (get_conn co) s Q.
Proof. intros H Hc HQ. unfold get_conn, safe3, mbind. rewrite (touch_run _ _ _ H Hc). exact HQ. Qed.
Lemma safe3_get_host s o h (Q : hostq -> state -> Prop) :
  heap_ok s -> cell_of s o = Some (CHost h) -> Q h s -> safe3 (get_host o) s Q.
Proof. intros H Hc HQ. unfold get_host, safe3, mbind. rewrite (touch_run _ _ _ H Hc). exact HQ. Qed.

(* ---------------------------------------------------------------------------------- *)
(* Sizes                                                                               *)
(* ---------------------------------------------------------------------------------- *)
(* obj and tok are names for nat: make the atoms syntactically equal before calling lia *)
Ltac nlia := unfold tok, obj in *; lia.

Definition KA := 8.    (* what one remaining search candidate / lookup may cost *)

Fixpoint csize (k : cbk) : nat :=
  match k with
  | KUser _ => 2
  | KProbe => 1
  | KHost _ => 2
  | KWrap _ _ k' => 2 + csize k'
  | KSearch _ k' _ lft _ => KA * S (length lft) + csize k'
  | KAddr _ k' lft => KA * S (length lft) + csize k'
  end.

Definition hsize (h : hostq) : nat := KA * KA * S (length (h_lookups h) + length (h_names h)) + csize (h_cb h).

Definition call_size (c : call) : nat :=
  match c with
  | ASearch _ names | AOSearch _ names => 20 + KA * S (length names)
  | AGhba _ l | AGni _ l _ => 20 + KA * S (length l)
  | AGai _ names _ lookups _ | AGhbn _ names _ lookups _ => 20 + KA * KA * S (length lookups + length names)
  | _ => 20
  end.
Definition calls_size (l : list call) : nat := list_sum (map (fun c => S (call_size c)) l).

Definition wT := 4.   (* a tape event pays for a linked query (1) and a connection (1) with room to spare *)

Definition qpot (s : state) (qo : nat) : nat :=
  match cell_of s qo with Some (CQuery q) => S (csize (q_cb q)) | _ => 0 end.
Definition qsum (s : state) : nat := list_sum (map (qpot s) (linked s)).
Definition hpot (s : state) (o : nat) : nat := match shared_at s o with Some h => hsize h | None => 0 end.
Definition hsum (s : state) : nat := list_sum (map (hpot s) (seq 0 (st_next s))).
Definition spot (s : state) : nat := list_sum (map (fun p => calls_size (snd p)) (st_scripts s)).

Definition pot (s : state) : nat :=
  wT * length (st_tape s) + spot s + qsum s + length (st_conns s) + hsum s.

(* ---------------------------------------------------------------------------------- *)
(* list_sum                                                                            *)
(* ---------------------------------------------------------------------------------- *)
Lemma list_sum_map_ext_in {X} (f g : X -> nat) l : (forall a, In a l -> f a = g a) -> list_sum (map f l) = list_sum (map g l).
Proof.
  induction l as [|a l IH]; simpl; intros H; [reflexivity|]. rewrite (H a (or_introl eq_refl)). f_equal. apply IH. intros b Hb. apply H. right; auto.
Qed.

Lemma list_sum_map_zero {X} (f : X -> nat) l : (forall a, In a l -> f a = 0) -> list_sum (map f l) = 0.
Proof. induction l as [|a l IH]; simpl; intros H; [reflexivity|]. rewrite (H a (or_introl eq_refl)). simpl. apply IH. intros b Hb. apply H. right; auto. Qed.

(* ---------------------------------------------------------------------------------- *)
(* Which state changes keep which part of the potential                                *)
(* ---------------------------------------------------------------------------------- *)
Lemma hsum_same s s' :
  heap_ok s -> st_next s <= st_next s' -> (forall o, shared_at s' o = shared_at s o) -> hsum s' = hsum s.
Proof.
  intros Hh Hn Hs. unfold hsum.
  replace (st_next s') with (st_next s + (st_next s' - st_next s)) by lia.
  rewrite seq_app, map_app, list_sum_app. rewrite (list_sum_map_zero _ (seq (0 + st_next s) _)).
  - rewrite Nat.add_0_r. apply list_sum_map_ext_in. intros o _. unfold hpot. rewrite Hs. reflexivity.
  - intros o Ho. apply in_seq in Ho. unfold hpot. rewrite Hs.
    destruct (shared_at s o) as [h|] eqn:E; auto. pose proof (shared_lt _ _ _ Hh E). lia.
Qed.

Lemma hsum_split (f : nat -> nat) n o : o < n ->
  list_sum (map f (seq 0 n)) = list_sum (map f (seq 0 o)) + f o + list_sum (map f (seq (S o) (n - S o))).
Proof.
  intros Ho. replace n with (o + S (n - S o)) at 1 by lia. rewrite seq_app, map_app, list_sum_app.
  change (0 + o) with o. rewrite <- cons_seq. simpl. lia.
Qed.

Lemma hsum_upd s s' o :
  o < st_next s -> st_next s' = st_next s ->
  (forall o', o' <> o -> shared_at s' o' = shared_at s o') ->
  hsum s' + hpot s o = hsum s + hpot s' o.
Proof.
  intros Ho En Hs. unfold hsum. rewrite En.
  rewrite (hsum_split (hpot s') _ o Ho), (hsum_split (hpot s) _ o Ho).
  rewrite (list_sum_map_ext_in (hpot s') (hpot s) (seq 0 o)).
  2:{ intros a Ha. apply in_seq in Ha. unfold hpot. rewrite Hs; auto. lia. }
  rewrite (list_sum_map_ext_in (hpot s') (hpot s) (seq (S o) (st_next s - S o))).
  2:{ intros a Ha. apply in_seq in Ha. unfold hpot. rewrite Hs; auto. lia. }
  lia.
Qed.

Lemma pot_cb_pres x s s' : InvX x s -> linked s' = linked s -> cb_pres s s' -> qsum s' = qsum s /\ hsum s' = hsum s.
Proof.
  intros I El [Hp [Hs Hn]]. split.
  - unfold qsum. rewrite El. apply list_sum_map_ext_in. intros qo Hq.
    destruct (inv_query _ _ I _ Hq) as [q Hc]. destruct (Hp _ _ Hc) as [q1 [Hc1 E]].
    unfold qpot. rewrite Hc, Hc1, E. reflexivity.
  - apply hsum_same; auto. exact (inv_heap _ _ I).
Qed.

(* states that agree on cells, lists, connections and scripts up to the tape *)
Lemma pot_core s s' : core_eq s s' -> st_scripts s' = st_scripts s -> length (st_tape s') = length (st_tape s) -> pot s' = pot s.
Proof.
  intros E Es Et. unfold pot, spot, qsum, hsum, qpot, hpot, shared_at. rewrite Es, Et.
  rewrite (ce_linked _ _ E), (ce_conns _ _ E). destruct E as [En [Ec _]].
  unfold cell_of. rewrite Ec, En. reflexivity.
Qed.

Lemma pot_tape_eq s l : pot (set_tape l s) + wT * length (st_tape s) = pot s + wT * length l.
Proof.
  unfold pot. change (spot (set_tape l s)) with (spot s). change (qsum (set_tape l s)) with (qsum s).
  change (hsum (set_tape l s)) with (hsum s). change (st_conns (set_tape l s)) with (st_conns s).
  change (st_tape (set_tape l s)) with l. lia.
Qed.

Lemma pot_set_tape s e r : st_tape s = e :: r -> pot (set_tape r s) + wT = pot s.
Proof. intros Et. pose proof (pot_tape_eq s r) as H. rewrite Et in H. simpl length in H. lia. Qed.

Lemma pot_set_tape_le s l : length l <= length (st_tape s) -> pot (set_tape l s) <= pot s.
Proof. intros H. pose proof (pot_tape_eq s l) as E. unfold wT in *. lia. Qed.

Lemma pot_set_trace s l : pot (set_trace l s) = pot s.
Proof. reflexivity. Qed.
Lemma pot_set_nservers s n : pot (set_nservers n s) = pot s.
Proof. reflexivity. Qed.
Lemma pot_set_destroying s b : pot (set_destroying b s) = pot s.
Proof. reflexivity. Qed.

(* ---------------------------------------------------------------------------------- *)
(* The composite state operations                                                      *)
(* ---------------------------------------------------------------------------------- *)
Lemma pot_struct x s s' :
  InvX x s -> st_tape s' = st_tape s -> st_scripts s' = st_scripts s -> st_conns s' = st_conns s ->
  linked s' = linked s -> cb_pres s s' -> pot s' = pot s.
Proof.
  intros I Et Es Ec El Hp. destruct (pot_cb_pres x s s' I El Hp) as [Eq Eh].
  unfold pot, spot. rewrite Et, Es, Ec, Eq, Eh. reflexivity.
Qed.

Lemma pot_same_cells x s s' :
  InvX x s -> st_tape s' = st_tape s -> st_scripts s' = st_scripts s -> st_conns s' = st_conns s ->
  linked s' = linked s -> st_next s <= st_next s' ->
  (forall qo, In qo (linked s) -> cell_of s' qo = cell_of s qo) ->
  (forall o, shared_at s' o = shared_at s o) -> pot s' = pot s.
Proof.
  intros I Et Es Ec El Hn Hq Hs.
  assert (Eq : qsum s' = qsum s).
  { unfold qsum. rewrite El. apply list_sum_map_ext_in. intros qo Hin. unfold qpot. rewrite Hq; auto. }
  assert (Eh : hsum s' = hsum s) by (apply hsum_same; auto; exact (inv_heap _ _ I)).
  unfold pot, spot. rewrite Et, Es, Ec, Eq, Eh. reflexivity.
Qed.

Definition nonshared (c : cell) : Prop := match c with CHost h => h_remaining h = 0 | _ => True end.
Lemma nonshared_at s o c : cell_of s o = Some c -> nonshared c -> shared_at s o = None.
Proof. intros Hc Hn. unfold shared_at. rewrite Hc. destruct c; auto. simpl in Hn. rewrite Hn. reflexivity. Qed.

Lemma shared_upd s s' o :
  (forall o', o' <> o -> cell_of s' o' = cell_of s o') -> shared_at s o = None -> shared_at s' o = None ->
  forall o', shared_at s' o' = shared_at s o'.
Proof.
  intros H H1 H2 o'. destruct (Nat.eq_dec o' o) as [->|Hne]; [congruence|]. unfold shared_at. rewrite H; auto.
Qed.

Lemma pot_alloc x s c : InvX x s -> nonshared c -> pot (alloc_st c s) = pot s.
Proof.
  intros I Hc. assert (Hfresh : cell_of s (st_next s) = None) by (eapply fresh_dead; eauto).
  apply (pot_same_cells x); auto.
  - simpl. nlia.
  - intros qo Hq. destruct (inv_query _ _ I _ Hq) as [q Hq']. rewrite cell_alloc.
    destruct (Nat.eqb qo (st_next s)) eqn:E; auto. apply Nat.eqb_eq in E. subst. congruence.
  - apply (shared_upd s _ (st_next s)).
    + intros o' Hne. rewrite cell_alloc. apply Nat.eqb_neq in Hne. rewrite Hne. reflexivity.
    + unfold shared_at. rewrite Hfresh. reflexivity.
    + apply (nonshared_at _ _ c); auto. rewrite cell_alloc, Nat.eqb_refl. reflexivity.
Qed.

Lemma pot_free x s o c : InvX x s -> cell_of s o = Some c -> nonshared c -> ~ In o (linked s) -> pot (free_st o s) = pot s.
Proof.
  intros I Hc Hns Hn. apply (pot_same_cells x); auto.
  - intros qo Hq. rewrite cell_free. destruct (Nat.eqb qo o) eqn:E; auto. apply Nat.eqb_eq in E. subst. contradiction.
  - apply (shared_upd s _ o).
    + intros o' Hne. rewrite cell_free. apply Nat.eqb_neq in Hne. rewrite Hne. reflexivity.
    + eapply nonshared_at; eauto.
    + unfold shared_at. rewrite cell_free, Nat.eqb_refl. reflexivity.
Qed.

Lemma pot_store_unlinked x s o c0 c :
  InvX x s -> cell_of s o = Some c0 -> nonshared c0 -> nonshared c -> ~ In o (linked s) -> pot (store_st o c s) = pot s.
Proof.
  intros I Hc Hn0 Hn1 Hn. apply (pot_same_cells x); auto.
  - intros qo Hq. rewrite cell_store. destruct (Nat.eqb qo o) eqn:E; auto. apply Nat.eqb_eq in E. subst. contradiction.
  - apply (shared_upd s _ o).
    + intros o' Hne. rewrite cell_store. apply Nat.eqb_neq in Hne. rewrite Hne. reflexivity.
    + eapply nonshared_at; eauto.
    + apply (nonshared_at _ _ c); auto. rewrite cell_store, Nat.eqb_refl. reflexivity.
Qed.

Lemma pot_store_query x s o q q' :
  InvX x s -> cell_of s o = Some (CQuery q) -> q_cb q' = q_cb q -> pot (store_st o (CQuery q') s) = pot s.
Proof.
  intros I Hq E. apply (pot_struct x); auto. split; [|split; [|simpl; nlia]].
  - intros o' q0 Hc. rewrite cell_store. destruct (Nat.eqb o' o) eqn:E'.
    + apply Nat.eqb_eq in E'. subst. rewrite Hq in Hc. inversion Hc; subst. eauto.
    + eauto.
  - intros o'. unfold shared_at. rewrite cell_store. destruct (Nat.eqb o' o) eqn:E'; auto.
    apply Nat.eqb_eq in E'. subst. rewrite Hq. reflexivity.
Qed.

Lemma pot_remove_from_conn x s qo q s' :
  InvX x s -> (x = None \/ x = Some qo) -> In qo (linked s) -> cell_of s qo = Some (CQuery q) ->
  remove_from_conn qo s = Ok (tt, s') -> pot s' = pot s.
Proof.
  intros I Hx Hl Hq E.
  destruct (remove_from_conn_ok _ _ _ _ I Hx Hl Hq) as [s1 [E1 [I1 [F1 [El [_ [Ec [Etp [Etr [Esc [_ [En [_ [_ Hc1]]]]]]]]]]]]]].
  rewrite E in E1. inversion E1; subst s1.
  apply (pot_struct x); auto.
  - unfold linked. rewrite El. reflexivity.
  - apply cb_pres_sim; [rewrite En; nlia|]. apply (strip_sim s s' qo q (set_q_conn None q)); auto.
Qed.

Lemma list_sum_remove (f : nat -> nat) a l : NoDup l -> In a l ->
  list_sum (map f l) = f a + list_sum (map f (remove_nat a l)).
Proof.
  intros Hn Hin. destruct (remove_nat_split _ _ Hn Hin) as [l1 [l2 [-> E]]]. rewrite E.
  rewrite !map_app, !list_sum_app. simpl. nlia.
Qed.

Lemma pot_detach x s qo q s' :
  InvX x s -> (x = None \/ x = Some qo) -> In qo (linked s) -> cell_of s qo = Some (CQuery q) ->
  detach_query qo s = Ok (tt, s') -> pot s' + S (csize (q_cb q)) = pot s.
Proof.
  intros I Hx Hl Hq E.
  destruct (detach_query_ok _ _ _ _ I Hx Hl Hq) as [s1 [E1 [I1 [F1 [Ec [Etp [Etr [Esc [_ [Els [_ [_ [_ Hc1]]]]]]]]]]]]].
  rewrite E in E1. inversion E1; subst s1.
  assert (Ell : linked s' = remove_nat qo (linked s)).
  { unfold linked. rewrite Els. apply concat_map_remove. }
  assert (Hqp : forall o, o <> qo -> In o (linked s) -> qpot s' o = qpot s o).
  { intros o Hne Ho. destruct (inv_query _ _ I _ Ho) as [q0 Hq0]. unfold qpot. rewrite Hc1.
    apply Nat.eqb_neq in Hne. rewrite Hne, Hq0. reflexivity. }
  assert (Eq : qsum s = S (csize (q_cb q)) + qsum s').
  { unfold qsum. rewrite (list_sum_remove (qpot s) qo (linked s) (inv_nodup _ _ I) Hl).
    unfold qpot at 1. rewrite Hq. f_equal. rewrite Ell. apply list_sum_map_ext_in.
    intros o Ho. apply in_remove_nat in Ho. destruct Ho as [Ho Hne]. symmetry. apply Hqp; auto. }
  assert (Eh : hsum s' = hsum s).
  { apply hsum_same; [exact (inv_heap _ _ I)|rewrite (fd_next _ _ _ F1); nlia|].
    apply shared_of_host_at. exact (fd_host _ _ _ F1). }
  unfold pot, spot. rewrite Etp, Esc, Ec, Eh, Eq. nlia.
Qed.

Lemma pot_new_query s k qid q0 :
  Inv s -> Own s (cobjs k) -> GivenOk s (kbot k) -> lookup qid (st_byqid s) = None ->
  q_cb q0 = k -> q_qid q0 = qid -> q_conn q0 = None ->
  let qo := st_next s in
  let s' := set_byqid ((qid, qo) :: st_byqid s) (set_lists (link_lists qo (st_lists s)) (alloc_st (CQuery q0) s)) in
  pot s' = pot s + S (csize k).
Proof.
  intros I O Hn Lk Ecb Eqid Ec qo s'.
  destruct (new_query_ok s k qid q0 I O Hn Lk Ecb Eqid Ec) as [I' [_ [Hl' [Hq' [Hsame [_ [_ [_ [l1 [l2 [E1 E2]]]]]]]]]]].
  fold qo in Hq', Hsame, E2, Hl'. fold s' in I', Hq', Hsame, E2, Hl'.
  assert (Hqp : forall o, In o (linked s) -> qpot s' o = qpot s o).
  { intros o Ho. destruct (inv_query _ _ I _ Ho) as [q1 Hq1]. unfold qpot.
    rewrite Hsame; auto. intros ->. pose proof (live_lt _ _ _ (inv_heap _ _ I) Hq1). unfold qo in *. nlia. }
  assert (Eq : qsum s' = S (csize k) + qsum s).
  { unfold qsum. rewrite E2, E1. rewrite !map_app, !list_sum_app. simpl. unfold qpot at 2. rewrite Hq', Ecb.
    assert (G1 : list_sum (map (qpot s') l1) = list_sum (map (qpot s) l1)).
    { apply list_sum_map_ext_in. intros o Ho. apply Hqp. rewrite E1. apply in_or_app; auto. }
    assert (G2 : list_sum (map (qpot s') l2) = list_sum (map (qpot s) l2)).
    { apply list_sum_map_ext_in. intros o Ho. apply Hqp. rewrite E1. apply in_or_app; auto. }
    unfold obj in *. rewrite G1, G2. nlia. }
  assert (Eh : hsum s' = hsum s).
  { apply hsum_same; [exact (inv_heap _ _ I)|simpl; nlia|]. intros o. unfold shared_at.
    destruct (Nat.eq_dec o qo) as [->|Hne]; [|rewrite Hsame; auto].
    rewrite Hq'. destruct (cell_of s qo) as [c|] eqn:Ec0; auto.
    pose proof (live_lt _ _ _ (inv_heap _ _ I) Ec0). unfold qo in *. nlia. }
  unfold pot. change (spot s') with (spot s). change (st_tape s') with (st_tape s). change (st_conns s') with (st_conns s).
  rewrite Eq, Eh. nlia.
Qed.

Lemma pot_attach s qo q co c tcp s' :
  Inv s -> In qo (linked s) -> cell_of s qo = Some (CQuery q) ->
  In co (st_conns s) -> cell_of s co = Some (CConn c) -> c_closed c = false ->
  attach_frag qo co tcp s = Ok (tt, s') -> pot s' = pot s.
Proof.
  intros I Hl Hq Hin Hc Hncl E.
  destruct (attach_run s qo q co c tcp I Hl Hq Hin Hc Hncl) as [s1 [E1 [I1 [F1 [Ell [Eco [Etp [Esc [_ [_ [_ [Hsim _]]]]]]]]]]]].
  rewrite E in E1. inversion E1; subst s1.
  apply (pot_struct None); auto. apply cb_pres_sim; [exact (fr_next _ _ _ _ F1)|exact Hsim].
Qed.

Lemma pot_new_conn x s c0 :
  InvX x s ->
  pot (set_conns (st_conns s ++ [st_next s]) (alloc_st (CConn c0) s)) = pot s + 1.
Proof.
  intros I. set (s1 := alloc_st (CConn c0) s).
  assert (E1 : pot s1 = pot s) by (apply (pot_alloc x); auto; exact Logic.I).
  unfold pot in *. change (spot (set_conns _ s1)) with (spot s1). change (qsum (set_conns _ s1)) with (qsum s1).
  change (hsum (set_conns _ s1)) with (hsum s1). change (st_tape (set_conns _ s1)) with (st_tape s1).
  change (st_conns (set_conns (st_conns s ++ [st_next s]) s1)) with (st_conns s ++ [st_next s]).
  change (st_conns s1) with (st_conns s) in E1. change (st_tape s1) with (st_tape s) in *. rewrite app_length. cbn [length]. nlia.
Qed.

Lemma remove_nat_length o l : length (remove_nat o l) <= length l.
Proof. unfold remove_nat. induction l as [|a l IH]; simpl; auto. destruct (negb (Nat.eqb o a)); simpl; nlia. Qed.

Lemma pot_conns_remove s co : pot (set_conns (remove_nat co (st_conns s)) s) <= pot s.
Proof.
  unfold pot. change (spot (set_conns _ s)) with (spot s). change (qsum (set_conns _ s)) with (qsum s).
  change (hsum (set_conns _ s)) with (hsum s). change (st_tape (set_conns _ s)) with (st_tape s).
  change (st_conns (set_conns (remove_nat co (st_conns s)) s)) with (remove_nat co (st_conns s)).
  pose proof (remove_nat_length co (st_conns s)). nlia.
Qed.

Lemma pot_set_lists s ls : concat ls = linked s -> pot (set_lists ls s) = pot s.
Proof.
  intros E. unfold pot. change (spot (set_lists ls s)) with (spot s). change (hsum (set_lists ls s)) with (hsum s).
  change (st_tape (set_lists ls s)) with (st_tape s). change (st_conns (set_lists ls s)) with (st_conns s).
  assert (Eq : qsum (set_lists ls s) = qsum s).
  { unfold qsum. change (linked (set_lists ls s)) with (concat ls). rewrite E. reflexivity. }
  rewrite Eq. reflexivity.
Qed.

(* scripts *)
Lemma spot_remove_key t (scr : list (tok * list call)) l :
  lookup t scr = Some l ->
  list_sum (map (fun p => calls_size (snd p)) (remove_key t scr)) + calls_size l
  <= list_sum (map (fun p => calls_size (snd p)) scr).
Proof.
  induction scr as [|[t' l'] scr IH]; simpl; [discriminate|].
  destruct (Nat.eqb t t') eqn:E.
  - intros H. inversion H; subst l'.
    assert (G : forall sc : list (tok * list call), list_sum (map (fun p => calls_size (snd p)) (remove_key t sc))
                <= list_sum (map (fun p => calls_size (snd p)) sc)).
    { induction sc as [|[a b] sc IHs]; simpl; auto. destruct (Nat.eqb t a); simpl; nlia. }
    specialize (G scr). nlia.
  - intros H. simpl. specialize (IH H). nlia.
Qed.

Lemma pot_take_script t s sc s' : take_script t s = Ok (sc, s') -> pot s' + calls_size sc <= pot s /\ core_eq s s'.
Proof.
  unfold take_script. destruct (lookup t (st_scripts s)) as [l|] eqn:E; intros H; inversion H; subst.
  - split; [|apply core_eq_set_scripts].
    unfold pot. change (qsum (set_scripts _ s)) with (qsum s). change (hsum (set_scripts _ s)) with (hsum s).
    change (st_tape (set_scripts _ s)) with (st_tape s). change (st_conns (set_scripts _ s)) with (st_conns s).
    unfold spot. simpl. pose proof (spot_remove_key t (st_scripts s) sc E). nlia.
  - split; [|apply core_eq_refl]. unfold calls_size. simpl. nlia.
Qed.

Lemma calls_size_app l1 l2 : calls_size (l1 ++ l2) = calls_size l1 + calls_size l2.
Proof. unfold calls_size. rewrite map_app, list_sum_app. reflexivity. Qed.

Lemma pot_add_script t c s : pot (add_script t c s) <= pot s + S (call_size c).
Proof.
  unfold add_script. destruct (delivered t s); [nlia|].
  unfold pot. change (qsum (set_scripts _ s)) with (qsum s). change (hsum (set_scripts _ s)) with (hsum s).
  change (st_tape (set_scripts _ s)) with (st_tape s). change (st_conns (set_scripts _ s)) with (st_conns s).
  unfold spot. simpl.
  destruct (lookup t (st_scripts s)) as [l|] eqn:E.
  - pose proof (spot_remove_key t (st_scripts s) l E). rewrite calls_size_app. unfold calls_size at 2. simpl. nlia.
  - assert (G : forall sc : list (tok * list call), list_sum (map (fun p => calls_size (snd p)) (remove_key t sc))
                <= list_sum (map (fun p => calls_size (snd p)) sc)).
    { induction sc as [|[a b] sc IHs]; simpl; auto. destruct (Nat.eqb t a); simpl; nlia. }
    specialize (G (st_scripts s)). unfold calls_size at 1. simpl. nlia.
Qed.

(* host_query cells *)
Lemma pot_host_store x s o h h' :
  InvX x s -> cell_of s o = Some (CHost h) ->
  let s' := store_st o (CHost h') s in
  pot s' + hpot s o = pot s + hpot s' o.
Proof.
  intros I Hc s'.
  assert (Hsame : forall o', o' <> o -> cell_of s' o' = cell_of s o').
  { intros o' Hne. unfold s'. rewrite cell_store. apply Nat.eqb_neq in Hne. rewrite Hne. reflexivity. }
  assert (Eq : qsum s' = qsum s).
  { unfold qsum. change (linked s') with (linked s). apply list_sum_map_ext_in. intros qo Hq.
    unfold qpot. rewrite Hsame; auto. intros ->. destruct (inv_query _ _ I _ Hq) as [q Hq']. congruence. }
  assert (Eh : hsum s' + hpot s o = hsum s + hpot s' o).
  { apply hsum_upd; auto.
    - exact (live_lt _ _ _ (inv_heap _ _ I) Hc).
    - intros o' Hne. unfold shared_at. rewrite Hsame; auto. }
  unfold pot. change (spot s') with (spot s). change (st_tape s') with (st_tape s). change (st_conns s') with (st_conns s).
  rewrite Eq. nlia.
Qed.
