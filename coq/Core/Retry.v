(* The per-query retry machine of c-ares (C06): ares_send_query / ares_requeue_query /
   process_answer (TC, EDNS downgrade, error rcodes) / ares_cookie_validate (BADCOOKIE) /
   process_timeouts / ares_close_connection / read_answers' requeue array, for ONE query, as a
   deterministic transition function over the events the environment (network, clock, server
   list, socket layer) can produce.  Same checks in the same order as the C code.

   State (struct ares_query fields): try_count, cookie_try_count, using_tcp, no_retries,
   error_status, conn; plus what the retry logic reads from the request record (has an OPT RR,
   carries a cookie) and the control position (inside ares_send_query / entries in
   read_answers' requeue array / ended).

   cfg_strict selects how a reply is matched to the query:
     false = pinned code: any reply whose id and question match is processed, whatever
             connection it arrived on and even while the query is already waiting in the
             requeue array;
     true  = with fixes/C06-stale-reply.patch: the reply must arrive on the connection the
             query is outstanding on (query->conn == conn). *)
From CAres.Base Require Import CInt.
From CAres.Gen Require Import Consts.
Local Open Scope Z_scope.

Record config := Config {
  cfg_tries : Z;            (* channel->tries *)
  cfg_smax : Z;             (* largest server count during the life of the query *)
  cfg_nocheckresp : bool;   (* ARES_FLAG_NOCHECKRESP *)
  cfg_igntc : bool;         (* ARES_FLAG_IGNTC *)
  cfg_strict : bool
}.

Record qstate := QState {
  q_try_count : Z;
  q_cookie_try_count : Z;
  q_using_tcp : bool;
  q_has_opt : bool;           (* query->query has an OPT RR *)
  q_req_cookie : bool;        (* query->query carries a cookie (set by ares_cookie_apply at send) *)
  q_no_retries : bool;
  q_error_status : Z;
  q_conn : option bool;       (* query->conn: Some is_tcp while outstanding on a connection *)
  q_queued : nat;             (* entries for this query in read_answers' requeue array *)
  q_sending : bool;           (* inside ares_send_query, before the outcome of open/write is known *)
  q_ended : option Z          (* Some status once end_query ran (callback called) *)
}.

(* ares_send_nolock: fresh query about to be passed to ares_send_query *)
Definition q_init (usevc has_opt no_retries : bool) : qstate :=
  QState 0 0 usevc has_opt false no_retries ARES_SUCCESS None O true None.

Inductive send_outcome :=
| SoNoServer                         (* no server to pick: end_query ENOSERVER *)
| SoOpenRetry (status : Z)           (* ares_open_connection: ECONNREFUSED / EBADFAMILY *)
| SoOpenFatal (status : Z)           (* any other failure of ares_open_connection *)
| SoWriteOk (cookie : bool)          (* query written; cookie = ares_cookie_apply left a cookie in it *)
| SoWriteNomem
| SoWriteConnErr (status : Z)        (* write: ECONNREFUSED / EBADFAMILY -> handle_conn_error + requeue *)
| SoWriteOther (status : Z).         (* write: anything else -> requeue *)

(* what process_answer / ares_cookie_validate look at in a reply that matched the query's id *)
Record reply := Reply {
  r_drop : bool;        (* dropped before it touches the query: other question (incl. 0x20 case),
                           cookie of invalid length or not echoing the client cookie, BADCOOKIE
                           without any cookie, "expected a cookie" *)
  r_cookie_bad : bool;  (* rcode BADCOOKIE with a well-formed cookie *)
  r_formerr : bool;     (* rcode FORMERR *)
  r_has_opt : bool;     (* the reply has an OPT RR *)
  r_tc : bool;          (* TC bit *)
  r_err : option Z      (* Some status for rcode SERVFAIL / NOTIMP / REFUSED *)
}.
Definition reply_kind := reply.
(* the pure kinds *)
Definition RkDrop : reply := Reply true false false false false None.
Definition RkAnswer : reply := Reply false false false true false None.
Definition RkErr (status : Z) : reply := Reply false false false true false (Some status).
Definition RkTC : reply := Reply false false false true true None.
Definition RkEdns : reply := Reply false false true false false None.        (* FORMERR, no OPT in the reply *)
Definition RkFormerrOpt : reply := Reply false false true true false None.   (* FORMERR, OPT in the reply *)
Definition RkBadCookie : reply := Reply false true false true false None.

Inductive input :=
| ISend (servers : Z) (o : send_outcome)
| ITimeout (servers : Z)             (* process_timeouts found the deadline passed *)
| IConnClosed (servers : Z) (status : Z)  (* ares_close_connection on the query's connection *)
| IReply (servers : Z) (on_tcp same_conn : bool) (k : reply_kind)
| IFlush.                            (* read_answers pops one requeue entry of this query *)

Inductive output :=
| OTx (tcp has_opt : bool)           (* the query was handed to the network *)
| ODone (status : Z).                (* end_query: callback with this status *)

Definition set_conn (q : qstate) (c : option bool) : qstate :=
  QState (q_try_count q) (q_cookie_try_count q) (q_using_tcp q) (q_has_opt q) (q_req_cookie q)
         (q_no_retries q) (q_error_status q) c (q_queued q) (q_sending q) (q_ended q).
Definition set_sending (q : qstate) (b : bool) : qstate :=
  QState (q_try_count q) (q_cookie_try_count q) (q_using_tcp q) (q_has_opt q) (q_req_cookie q)
         (q_no_retries q) (q_error_status q) (q_conn q) (q_queued q) b (q_ended q).
Definition set_queued (q : qstate) (n : nat) : qstate :=
  QState (q_try_count q) (q_cookie_try_count q) (q_using_tcp q) (q_has_opt q) (q_req_cookie q)
         (q_no_retries q) (q_error_status q) (q_conn q) n (q_sending q) (q_ended q).

(* end_query: detaches the query (ares_query_remove_from_conn) and calls the callback *)
Definition end_query (q : qstate) (status : Z) : qstate * list output :=
  (QState (q_try_count q) (q_cookie_try_count q) (q_using_tcp q) (q_has_opt q) (q_req_cookie q)
          (q_no_retries q) (q_error_status q) None (q_queued q) false (Some status),
   [ODone status]).

(* ares_append_requeue: detach from the connection, add an entry to the array *)
Definition append_requeue (q : qstate) : qstate * list output :=
  (set_queued (set_conn q None) (S (q_queued q)), []).

(* ares_requeue_query(query, now, status, inc_try_count, dnsrec, requeue) *)
Definition requeue_query (cfg : config) (servers : Z) (q : qstate) (status : Z)
           (inc_try_count via_array : bool) : qstate * list output :=
  let max_tries := (servers * cfg_tries cfg) mod 2 ^ 64 in
  let q1 := set_conn q None in
  let err := if negb (status =? ARES_SUCCESS) then status else q_error_status q1 in
  let tc := if inc_try_count then (q_try_count q1 + 1) mod 2 ^ 64 else q_try_count q1 in
  let q2 := QState tc (q_cookie_try_count q1) (q_using_tcp q1) (q_has_opt q1) (q_req_cookie q1)
                   (q_no_retries q1) err None (q_queued q1) false (q_ended q1) in
  if (tc <? max_tries) && negb (q_no_retries q2) then
    if via_array then append_requeue q2 else (set_sending q2 true, [])
  else
    end_query q2 (if err =? ARES_SUCCESS then ARES_ETIMEOUT else err).

(* the part of ares_send_query after the server has been chosen *)
Definition do_send (cfg : config) (servers : Z) (q : qstate) (o : send_outcome) : qstate * list output :=
  match o with
  | SoNoServer => end_query q ARES_ENOSERVER
  | SoOpenRetry st => requeue_query cfg servers q st true false
  | SoOpenFatal st => end_query q st
  | SoWriteOk cookie =>
      let tcp := q_using_tcp q in
      (QState (q_try_count q) (q_cookie_try_count q) tcp (q_has_opt q)
              (if tcp then false else q_has_opt q && cookie)
              (q_no_retries q) (q_error_status q) (Some tcp) (q_queued q) false (q_ended q),
       [OTx tcp (q_has_opt q)])
  | SoWriteNomem => end_query q ARES_ENOMEM
  | SoWriteConnErr st => requeue_query cfg servers q st true false
  | SoWriteOther st => requeue_query cfg servers q st true false
  end.

(* process_answer for a reply that matched the query's id; the checks in the order of the code:
   ares_cookie_validate, issue_might_be_edns, TC, error rcodes *)
Definition do_reply (cfg : config) (servers : Z) (q : qstate) (on_tcp : bool) (r : reply)
  : qstate * list output :=
  if r_drop r then (q, [])
  else if r_cookie_bad r && q_req_cookie q then
    (* BADCOOKIE is only acted upon when the request carried a cookie *)
    let c := (q_cookie_try_count q + 1) mod 2 ^ 64 in
    let q1 := QState (q_try_count q) c (if c >=? COOKIE_RESEND_MAX then true else q_using_tcp q)
                     (q_has_opt q) (q_req_cookie q) (q_no_retries q) (q_error_status q)
                     (q_conn q) (q_queued q) (q_sending q) (q_ended q) in
    requeue_query cfg servers q1 ARES_SUCCESS false true
  else if r_formerr r && q_has_opt q && (negb (r_has_opt r) || q_req_cookie q) then
    (* issue_might_be_edns: we sent EDNS and either the reply has no OPT, or it has one and the
       request carried option codes (the only option the library adds itself is the cookie);
       rewrite_without_edns, requeue to the same server; no budget check *)
    append_requeue (QState (q_try_count q) (q_cookie_try_count q) (q_using_tcp q) false false
                           (q_no_retries q) (q_error_status q) (q_conn q) (q_queued q)
                           (q_sending q) (q_ended q))
  else if r_tc r && negb on_tcp && negb (cfg_igntc cfg) then
    append_requeue (QState (q_try_count q) (q_cookie_try_count q) true (q_has_opt q) (q_req_cookie q)
                           (q_no_retries q) (q_error_status q) (q_conn q) (q_queued q)
                           (q_sending q) (q_ended q))
  else
    match r_err r with
    | Some st => if negb (cfg_nocheckresp cfg) then requeue_query cfg servers q st true true
                 else end_query q ARES_SUCCESS
    | None => end_query q ARES_SUCCESS
    end.

(* one event; the boolean tells whether the event was possible in this state at all
   (false = the implementation cannot produce this event here: the acceptor rejects) *)
Definition step (cfg : config) (q : qstate) (i : input) : bool * qstate * list output :=
  match q_ended q with
  | Some _ =>
      match i with
      | IFlush => (* "query disappeared": entry skipped *)
          match q_queued q with
          | O => (false, q, [])
          | S n => (true, set_queued q n, [])
          end
      | IReply _ _ _ _ => (true, q, [])       (* id no longer known: dropped *)
      | _ => (false, q, [])
      end
  | None =>
      if q_sending q then
        match i with
        | ISend servers o => let '(q', out) := do_send cfg servers q o in (true, q', out)
        | _ => (false, q, [])
        end
      else
        match i with
        | ISend _ _ => (false, q, [])
        | ITimeout servers =>
            match q_conn q with
            | Some _ => let '(q', out) := requeue_query cfg servers q ARES_ETIMEOUT true false in (true, q', out)
            | None => (false, q, [])
            end
        | IConnClosed servers st =>
            match q_conn q with
            | Some _ => let '(q', out) := requeue_query cfg servers q st true false in (true, q', out)
            | None => (false, q, [])
            end
        | IReply servers on_tcp same k =>
            let on_query_conn :=
              same && match q_conn q with Some c => Bool.eqb c on_tcp | None => false end in
            if cfg_strict cfg && negb on_query_conn then (true, q, [])
            else let '(q', out) := do_reply cfg servers q on_tcp k in (true, q', out)
        | IFlush =>
            match q_queued q with
            | O => (false, q, [])
            | S n => (true, set_sending (set_queued q n) true, [])
            end
        end
  end.

(* ---- one read on one connection (read_answers), seen from one query ----
   The library reads everything available on the connection and then walks through the
   messages.  A reply may detach the query into the requeue array (entries are re-sent only
   after the walk); a message that does not parse makes process_answer fail: the walk stops,
   the rest of the data is lost, handle_conn_error closes the connection (every query still
   outstanding on it is re-queued directly), and then - on EVERY way out of the walk - the
   requeue array is flushed.  [flush_on_error = false] is the variant that skips the flush
   when the walk ended with an error (the array is destroyed with its entries). *)
Inductive batch_item :=
| BReply (r : reply)
| BMalformed      (* a message that does not parse: process_answer fails with EBADRESP *)
| BConnFailed.    (* the read that delivered the data ended with a connection failure; it is
                     handled after the data read before it has been processed (ECONNREFUSED) *)

(* the walk; the boolean tells whether it ended on the error path.
   this_conn: the connection being read is the one the query is outstanding on (if any) *)
Fixpoint read_walk (cfg : config) (servers : Z) (on_tcp this_conn : bool) (q : qstate)
         (items : list batch_item) : qstate * list output * bool :=
  match items with
  | [] => (q, [], false)
  | BReply r :: rest =>
      let '(_, q1, o1) := step cfg q (IReply servers on_tcp this_conn r) in
      let '(q2, o2, e) := read_walk cfg servers on_tcp this_conn q1 rest in
      (q2, o1 ++ o2, e)
  | (BMalformed | BConnFailed) as it :: _ =>
      let status := match it with BMalformed => ARES_EBADRESP | _ => ARES_ECONNREFUSED end in
      let outstanding_here :=
        this_conn && match q_conn q with Some c => Bool.eqb c on_tcp | None => false end in
      if outstanding_here then
        let '(_, q1, o1) := step cfg q (IConnClosed servers status) in (q1, o1, true)
      else (q, [], true)
  end.

(* the flush after the walk: pops the query's entry (ares_send_query runs next: q_sending) *)
Definition read_flush (cfg : config) (flush_on_error had_error : bool) (q : qstate) : qstate :=
  if had_error && negb flush_on_error then set_queued q O       (* array destroyed, entries lost *)
  else match q_queued q with
       | O => q
       | S _ => let '(_, q', _) := step cfg q IFlush in q'
       end.

Definition read_batch (cfg : config) (flush_on_error : bool) (servers : Z) (on_tcp this_conn : bool)
           (q : qstate) (items : list batch_item) : qstate * list output :=
  let '(q1, o1, e) := read_walk cfg servers on_tcp this_conn q items in
  (read_flush cfg flush_on_error e q1, o1).

(* a query the library will still act upon: completed, being sent, or outstanding on a
   connection (then it is also in the timeout index); and nothing left in a requeue array *)
Definition settled (q : qstate) : Prop :=
  q_queued q = O /\ (q_ended q <> None \/ q_sending q = true \/ q_conn q <> None).
(* detached from everything: no connection, no timer, not being sent, not completed *)
Definition orphaned (q : qstate) : Prop :=
  q_ended q = None /\ q_sending q = false /\ q_conn q = None.

(* ---- traces ---- *)
Inductive event := EvIn (i : input) | EvOut (o : output).

Definition output_eqb (a b : output) : bool :=
  match a, b with
  | OTx t1 o1, OTx t2 o2 => Bool.eqb t1 t2 && Bool.eqb o1 o2
  | ODone s1, ODone s2 => s1 =? s2
  | _, _ => false
  end.

(* consume the expected outputs from the front of the trace *)
Fixpoint expect (outs : list output) (tr : list event) : option (list event) :=
  match outs with
  | [] => Some tr
  | o :: r =>
      match tr with
      | EvOut o' :: tr' => if output_eqb o o' then expect r tr' else None
      | _ => None
      end
  end.

Definition servers_of (i : input) : option Z :=
  match i with
  | ISend s _ | ITimeout s | IConnClosed s _ | IReply s _ _ _ => Some s
  | IFlush => None
  end.

(* acceptor over an implementation trace: inputs are replayed through [step], every output
   the model produces must be the next event of the trace, nothing else may be output, the
   server count never exceeds cfg_smax *)
Fixpoint accepts_from (cfg : config) (fuel : nat) (q : qstate) (tr : list event) : bool :=
  match fuel with
  | O => false
  | S fuel' =>
      match tr with
      | [] => true
      | EvOut _ :: _ => false
      | EvIn i :: tr' =>
          let srv_ok := match servers_of i with
                        | Some s => (0 <=? s) && (s <=? cfg_smax cfg)
                        | None => true end in
          if negb srv_ok then false
          else
            let '(ok, q', outs) := step cfg q i in
            if negb ok then false
            else match expect outs tr' with
                 | Some tr'' => accepts_from cfg fuel' q' tr''
                 | None => false
                 end
      end
  end.

Definition retry_accepts (cfg : config) (q0 : qstate) (tr : list event) : bool :=
  accepts_from cfg (S (length tr)) q0 tr.

Definition transmissions (tr : list event) : Z :=
  Z.of_nat (length (filter (fun e => match e with EvOut (OTx _ _) => true | _ => false end) tr)).

Definition completions (tr : list event) : list Z :=
  flat_map (fun e => match e with EvOut (ODone s) => [s] | _ => [] end) tr.

(* servers x tries + one EDNS downgrade + one TCP upgrade + COOKIE_RESEND_MAX resends *)
Definition bound (cfg : config) : Z := cfg_smax cfg * cfg_tries cfg + 1 + 1 + COOKIE_RESEND_MAX.

(* run without trace checking (used by the theorems about arbitrary input sequences) *)
Fixpoint run (cfg : config) (q : qstate) (ins : list input) : qstate * list output :=
  match ins with
  | [] => (q, [])
  | i :: r =>
      let '(ok, q', outs) := step cfg q i in
      if ok then let '(q'', outs') := run cfg q' r in (q'', outs ++ outs')
      else run cfg q r      (* impossible event: ignored *)
  end.

Definition count_tx (outs : list output) : Z :=
  Z.of_nat (length (filter (fun o => match o with OTx _ _ => true | _ => false end) outs)).
