(* C06: invariant and termination measure of the retry machine, preserved by each of its
   building blocks (requeue, send outcome, reply).  The theorems are in Retry_proofs.v. *)
From CAres.Base Require Import CInt.
From CAres.Gen Require Import Consts.
From CAres.Core Require Import Time_proofs Retry.
Local Open Scope Z_scope.

Ltac Zify.zify_post_hook ::= Z.div_mod_to_equations.

Section Bounded.
  Variable cfg : config.
  Variables usevc0 has_opt0 no_retries0 : bool.
  Hypothesis strict : cfg_strict cfg = true.
  Hypothesis tries_pos : 1 <= cfg_tries cfg.
  Hypothesis smax_pos : 1 <= cfg_smax cfg.
  Hypothesis budget_fits : cfg_smax cfg * cfg_tries cfg < 2 ^ 64.   (* size_t product *)

  Let B := cfg_smax cfg * cfg_tries cfg.

  (* resends not charged to the try budget that the query has consumed so far *)
  Definition e_used (has_opt : bool) : Z := if has_opt0 && negb has_opt then 1 else 0.
  Definition t_used (using_tcp : bool) : Z := if negb usevc0 && using_tcp then 1 else 0.
  Definition credit (q : qstate) : Z :=
    q_try_count q + e_used (q_has_opt q) + t_used (q_using_tcp q) + q_cookie_try_count q.

  Definition input_ok (i : input) : Prop :=
    match servers_of i with Some s => 0 <= s <= cfg_smax cfg | None => True end.

  (* invariant of the machine, [tx] = transmissions so far *)
  Definition Inv (q : qstate) (tx : Z) : Prop :=
    0 <= q_try_count q /\
    0 <= q_cookie_try_count q <= COOKIE_RESEND_MAX /\
    (q_has_opt q = true -> has_opt0 = true) /\
    (usevc0 = true -> q_using_tcp q = true) /\
    (COOKIE_RESEND_MAX <= q_cookie_try_count q -> q_using_tcp q = true) /\
    (forall c, q_conn q = Some c ->
       q_using_tcp q = c /\ (c = true -> q_req_cookie q = false) /\ q_queued q = O /\ q_sending q = false) /\
    (q_sending q = true -> q_queued q = O) /\
    (q_queued q <= 1)%nat /\
    (q_ended q = None -> q_try_count q < B) /\
    (q_ended q = None ->
       (q_conn q <> None -> tx <= credit q + 1) /\
       (q_conn q = None -> tx <= credit q /\ (q_sending q = true \/ q_queued q = 1%nat))) /\
    (q_ended q <> None -> q_conn q = None /\ q_sending q = false) /\
    0 <= tx <= bound cfg.

  (* termination measure: strictly decreases with every event that changes the state *)
  Definition phase (q : qstate) : Z :=
    if q_sending q then 1 else match q_conn q with Some _ => 0 | None => 2 end.
  Definition rank (q : qstate) : Z :=
    match q_ended q with
    | Some _ => Z.of_nat (q_queued q)
    | None => 3 * (B + 5 - credit q) + phase q + 2
    end.
  Definition Good (q : qstate) (tx : Z) (q' : qstate) (outs : list output) : Prop :=
    Inv q' (tx + count_tx outs) /\ (q' = q \/ rank q' < rank q).

  Lemma e_used_range b : 0 <= e_used b <= 1.
  Proof. unfold e_used. destruct (has_opt0 && negb b); lia. Qed.
  Lemma t_used_range b : 0 <= t_used b <= 1.
  Proof. unfold t_used. destruct (negb usevc0 && b); lia. Qed.

  Lemma bound_eq : bound cfg = B + 2 + COOKIE_RESEND_MAX.
  Proof. unfold bound, B. lia. Qed.

  Lemma inv_init : Inv (q_init usevc0 has_opt0 no_retries0) 0.
  Proof.
    unfold Inv, q_init, credit, e_used, t_used, bound, COOKIE_RESEND_MAX, B. cbn.
    repeat split; try lia; try congruence; try discriminate; auto.
    all: try (destruct has_opt0, usevc0; cbn; lia).
    all: try nia.
  Qed.

  Ltac inv_unfold :=
    unfold Good, rank, phase, Inv, credit in *; rewrite ?bound_eq in *; unfold COOKIE_RESEND_MAX in *.
  Ltac scbn := cbn -[e_used t_used Z.mul Z.add Z.sub Z.pow Z.modulo] in *.

  Ltac bool_cases :=
    repeat match goal with
      | |- context [if ?b then _ else _] => destruct b eqn:?
      | H : context [if ?b then _ else _] |- _ => destruct b eqn:?
      end.

  Lemma max_tries_ok servers :
    0 <= servers <= cfg_smax cfg ->
    (servers * cfg_tries cfg) mod 2 ^ 64 = servers * cfg_tries cfg /\ servers * cfg_tries cfg <= B.
  Proof.
    intros Hs. assert (servers * cfg_tries cfg <= B) by (unfold B; nia).
    split; [|assumption]. apply Z.mod_small. unfold B in *. nia.
  Qed.

  Ltac spec_conn :=
    repeat match goal with
      | H : forall c, Some ?x = Some c -> _ |- _ => specialize (H x eq_refl)
      | H : forall c, None = Some c -> _ |- _ => clear H
      | H : ?x = ?x -> _ |- _ => specialize (H eq_refl)
      | H : Some _ <> None -> _ |- _ => specialize (H ltac:(discriminate))
      | H : None <> None -> _ |- _ => clear H
      | H : Some _ = None -> _ |- _ => clear H
      | H : None = Some _ -> _ |- _ => clear H
      | H : true = false -> _ |- _ => clear H
      | H : false = true -> _ |- _ => clear H
      | H : Some _ <> None |- _ => clear H
      | H : _ /\ _ |- _ => destruct H
      end.

  Ltac fin :=
    repeat match goal with
      | |- _ /\ _ => split
      | |- _ -> _ => intro
      | |- forall _, _ => intro
      end;
    spec_conn;
    repeat match goal with
      | H : Some _ = Some _ |- _ => injection H as H
      | H : Some _ = None |- _ => discriminate H
      | H : None = Some _ |- _ => discriminate H
      | H : true = false |- _ => discriminate H
      | H : false = true |- _ => discriminate H
      | H : ?a <> ?a |- _ => exfalso; apply H; reflexivity
      end;
    subst; try lia; try congruence; try discriminate; auto;
    try (left; reflexivity); try (right; reflexivity); try (right; lia).

  (* ares_requeue_query: every way of calling it that the machine uses keeps the invariant.
     [paid]: the caller has already made room for one more transmission (inc_try_count, or
     the cookie counter was incremented just before). *)
  Lemma requeue_query_inv q tx servers st via q' outs :
    Inv q tx -> q_ended q = None -> q_sending q = false -> q_queued q = O ->
    (exists c, q_conn q = Some c) ->
    0 <= servers <= cfg_smax cfg ->
    requeue_query cfg servers q st true via = (q', outs) ->
    Good q tx q' outs.
  Proof.
    intros H He Hsd Hqu [c Hc] Hs E.
    destruct (max_tries_ok servers Hs) as [Em Hle].
    unfold requeue_query in E. rewrite Em in E. cbv zeta in E.
    destruct q as [tc cc ut ho rc nr es cn qu sd en]. cbn in He, Hsd, Hqu, Hc. subst en sd qu cn.
    unfold set_conn, set_sending, append_requeue, set_queued, end_query in E. cbn in E.
    inv_unfold. scbn.
    pose proof (e_used_range ho) as Heu. pose proof (t_used_range ut) as Htu.
    destruct H as (H1 & H2 & H3 & H4 & H5 & H6 & H7 & H8 & H9 & H10 & H11 & H12).
    spec_conn. pows.
    rewrite (Z.mod_small (tc + 1)) in E by lia.
    destruct ((tc + 1 <? servers * cfg_tries cfg) && negb nr) eqn:G.
    - apply andb_prop in G. destruct G as [G _]. b2p.
      destruct via; injection E as <- <-; scbn; fin.
    - injection E as <- <-. scbn. fin.
  Qed.

  (* outcome of the open/write inside ares_send_query *)
  Lemma do_send_inv q tx servers o q' outs :
    Inv q tx -> q_ended q = None -> q_sending q = true ->
    0 <= servers <= cfg_smax cfg ->
    do_send cfg servers q o = (q', outs) ->
    Good q tx q' outs.
  Proof.
    intros H He Hsd Hs E.
    destruct (max_tries_ok servers Hs) as [Em Hle].
    destruct q as [tc cc ut ho rc nr es cn qu sd en]. cbn in He, Hsd. subst en sd.
    assert (cn = None) as ->.
    { destruct cn as [c|]; [|reflexivity]. unfold Inv in H. cbn in H.
      destruct H as (_ & _ & _ & _ & _ & H6 & _). destruct (H6 c eq_refl) as (_ & _ & _ & F). discriminate. }
    unfold do_send, requeue_query in E. rewrite ?Em in E. cbv zeta in E.
    unfold set_conn, set_sending, append_requeue, set_queued, end_query in E. cbn in E.
    inv_unfold. scbn.
    pose proof (e_used_range ho) as Heu. pose proof (t_used_range ut) as Htu.
    destruct H as (H1 & H2 & H3 & H4 & H5 & H6 & H7 & H8 & H9 & H10 & H11 & H12).
    spec_conn. pows.
    assert ((tc + 1) mod 18446744073709551616 = tc + 1) as Emod by (apply Z.mod_small; lia).
    destruct o; rewrite ?Emod in E; cbn in E.
    - injection E as <- <-. scbn. fin.
    - destruct ((tc + 1 <? servers * cfg_tries cfg) && negb nr) eqn:G.
      + apply andb_prop in G. destruct G as [G _]. b2p. injection E as <- <-; scbn; fin.
      + injection E as <- <-. scbn. fin.
    - injection E as <- <-. scbn. fin.
    - injection E as <- <-. scbn. destruct ut; fin.
    - injection E as <- <-. scbn. fin.
    - destruct ((tc + 1 <? servers * cfg_tries cfg) && negb nr) eqn:G.
      + apply andb_prop in G. destruct G as [G _]. b2p. injection E as <- <-; scbn; fin.
      + injection E as <- <-. scbn. fin.
    - destruct ((tc + 1 <? servers * cfg_tries cfg) && negb nr) eqn:G.
      + apply andb_prop in G. destruct G as [G _]. b2p. injection E as <- <-; scbn; fin.
      + injection E as <- <-. scbn. fin.
  Qed.

  Lemma t_used_false : t_used false = 0.
  Proof. unfold t_used. rewrite andb_false_r. reflexivity. Qed.
  Lemma t_used_true : usevc0 = false -> t_used true = 1.
  Proof. intros H. unfold t_used. rewrite H. reflexivity. Qed.
  Lemma e_used_true : e_used true = 0.
  Proof. unfold e_used. rewrite andb_false_r. reflexivity. Qed.
  Lemma e_used_false : has_opt0 = true -> e_used false = 1.
  Proof. intros H. unfold e_used. rewrite H. reflexivity. Qed.

  (* process_answer on a reply that arrived on the query's own connection *)
  Lemma do_reply_inv q tx servers on_tcp k q' outs :
    Inv q tx -> q_ended q = None -> q_sending q = false -> q_conn q = Some on_tcp ->
    0 <= servers <= cfg_smax cfg ->
    do_reply cfg servers q on_tcp k = (q', outs) ->
    Good q tx q' outs.
  Proof.
    intros H He Hsd Hc Hs E.
    destruct (max_tries_ok servers Hs) as [Em Hle].
    destruct q as [tc cc ut ho rc nr es cn qu sd en]. cbn in He, Hsd, Hc. subst en sd cn.
    unfold do_reply, requeue_query in E. rewrite ?Em in E. cbv zeta in E.
    unfold set_conn, set_sending, append_requeue, set_queued, end_query in E. cbn in E.
    inv_unfold. scbn.
    pose proof (e_used_range ho) as Heu. pose proof (t_used_range ut) as Htu.
    pose proof (t_used_range true) as Htt.
    pose proof t_used_false as Tf. pose proof e_used_true as Et.
    destruct H as (H1 & H2 & H3 & H4 & H5 & H6 & H7 & H8 & H9 & H10 & H11 & H12).
    destruct (H6 on_tcp eq_refl) as (Hut & Hrc & Hqu & _). subst ut qu.
    (* facts used by the individual cases *)
    assert (on_tcp = false -> usevc0 = false) as Fv.
    { intros ->. destruct usevc0; [specialize (H4 eq_refl); discriminate | reflexivity]. }
    assert (on_tcp = false -> cc < 3) as Fc.
    { intros ->. destruct (Z_lt_ge_dec cc 3) as [|G]; [assumption|]. specialize (H5 ltac:(lia)). discriminate. }
    assert (rc = true -> on_tcp = false) as Fr.
    { intros ->. destruct on_tcp; [specialize (Hrc eq_refl); discriminate | reflexivity]. }
    spec_conn. pows.
    assert ((tc + 1) mod 18446744073709551616 = tc + 1) as Emod by (apply Z.mod_small; lia).
    assert ((cc + 1) mod 18446744073709551616 = cc + 1) as Emodc by (apply Z.mod_small; lia).
    rewrite ?Emod, ?Emodc in E.
    destruct k as [kdrop kbad kformerr kopt ktc kerr]. cbn [r_drop r_cookie_bad r_formerr r_has_opt r_tc r_err] in E.
    destruct kdrop; cbn in E; [injection E as <- <-; scbn; fin|].
    destruct (kbad && rc) eqn:Ebad.
    { (* BADCOOKIE acted upon *)
      apply andb_prop in Ebad. destruct Ebad as [_ ->].
      pose proof (Fr eq_refl) as ->. pose proof (Fc eq_refl) as Hcc.
      destruct ((tc <? servers * cfg_tries cfg) && negb nr) eqn:G.
      + apply andb_prop in G. destruct G as [G _]. b2p.
        destruct (cc + 1 >=? 3) eqn:G3; b2p; injection E as <- <-; scbn; fin.
      + destruct (cc + 1 >=? 3) eqn:G3; b2p; injection E as <- <-; scbn; fin. }
    destruct (kformerr && ho && (negb kopt || rc)) eqn:Eedns.
    { (* EDNS downgrade *)
      apply andb_prop in Eedns. destruct Eedns as [Eedns _]. apply andb_prop in Eedns. destruct Eedns as [_ ->].
      pose proof (e_used_false (H3 eq_refl)) as Ef.
      injection E as <- <-. scbn. fin. }
    destruct (ktc && negb on_tcp && negb (cfg_igntc cfg)) eqn:Etc.
    { (* TCP upgrade *)
      apply andb_prop in Etc. destruct Etc as [Etc _]. apply andb_prop in Etc. destruct Etc as [_ Etc].
      apply negb_true_iff in Etc. subst on_tcp.
      pose proof (t_used_true (Fv eq_refl)) as Tt.
      injection E as <- <-. scbn. fin. }
    destruct kerr as [st|]; [|injection E as <- <-; scbn; fin].
    destruct (cfg_nocheckresp cfg); cbn in E; [injection E as <- <-; scbn; fin|].
    destruct ((tc + 1 <? servers * cfg_tries cfg) && negb nr) eqn:G.
    + apply andb_prop in G. destruct G as [G _]. b2p. injection E as <- <-; scbn; fin.
    + injection E as <- <-. scbn. fin.
  Qed.
End Bounded.
