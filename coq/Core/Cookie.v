(* C17 - model of src/lib/ares_cookie.c (DNS cookies, RFC 7873 client side).

   [cookie_apply] and [cookie_validate] follow ares_cookie_apply() / ares_cookie_validate()
   check by check, in the order of the C text, on the same state (the per-server
   ares_cookie_t record).  The time predicates are the GENERATED translations of the static
   functions timeval_is_set / timeval_expired (and ares_timeval_diff, which the latter calls);
   the constants COOKIE_* come from Gen/Consts.v.

   Abstractions (all explicit):
   - a DNS message is reduced to what the cookie code reads through the record API: whether an
     OPT RR exists and the value of its COOKIE option ([req]); for a response additionally
     the rcode.  Records reach the cookie code after a wire round trip (ares_send duplicates
     the request with write+parse; responses come from the parser), which turns a zero-length
     COOKIE option into "no value" - [mk_req] / [norm_cookie] model exactly that.
   - the random client cookie bytes are an input: [rnd n] is the n-th 8-byte block that
     ares_rand_bytes returns during this call.
   - ares_dns_rr_set_opt can fail only when the allocator fails; allocation failure is not
     modelled here (always ARES_SUCCESS).
   - ares_requeue_query is external: the model reports that it was called and with which
     (status, inc_try_count) arguments.
   C undefined behaviour that the text could reach is explicit: the two 8-byte memcmp reads of
   the request cookie ([OutOfBounds] when the request cookie is shorter than 8 bytes), the
   memcpy into the 40 byte stack buffer / 32 byte server field, and the signed arithmetic in
   the time predicates (inside the generated functions). *)
From CAres.Base Require Import CInt.
From CAres.Gen Require Import Consts LeafFns.
Local Open Scope Z_scope.

Record tv := mkTv { tv_sec : Z; tv_usec : Z }.
Record addr := mkAddr { a_family : Z; a_data : list Z }.   (* a_data: the 16 bytes of the union *)

Record cookie := mkCk {
  ck_state : Z;               (* ares_cookie_state_t *)
  ck_client : list Z;         (* unsigned char client[8] *)
  ck_client_ts : tv;
  ck_client_ip : addr;
  ck_server : list Z;         (* unsigned char server[32] *)
  ck_server_len : nat;
  ck_unsup_ts : tv }.

Definition tv_zero := mkTv 0 0.
Definition addr_zero := mkAddr 0 (repeat 0 16).
(* ares_cookie_clear: memset 0, state = INITIAL (= 0) *)
Definition cookie_zero := mkCk ARES_COOKIE_INITIAL (repeat 0 8) tv_zero addr_zero (repeat 0 32) 0 tv_zero.

Fixpoint bytes_eqb (a b : list Z) : bool :=
  match a, b with
  | [], [] => true
  | x :: a', y :: b' => (x =? y) && bytes_eqb a' b'
  | _, _ => false
  end.

Definition zlen {A} (l : list A) : Z := Z.of_nat (length l).

(* ---- time predicates: the generated functions, composed as in the C text ---- *)
Definition timeval_is_set (t : tv) : outcome bool :=
  do r <- c_timeval_is_set (tv_sec t) (tv_usec t);
  Ok (negb (r =? 0)).

(* timeval_expired(tv, now, ms): ares_timeval_diff(&tvdiff, tv, now) then the comparison *)
Definition timeval_expired (t now : tv) (ms : Z) : outcome bool :=
  do d <- c_ares_timeval_diff (tv_sec now) (tv_sec t) (tv_usec now) (tv_usec t);
  do r <- c_timeval_expired ms (fst d) (snd d);
  Ok (negb (r =? 0)).

(* ---- helpers of ares_cookie.c ---- *)
Definition set_state (c : cookie) (s : Z) : cookie :=
  mkCk s (ck_client c) (ck_client_ts c) (ck_client_ip c) (ck_server c) (ck_server_len c) (ck_unsup_ts c).
Definition set_unsup (c : cookie) (t : tv) : cookie :=
  mkCk (ck_state c) (ck_client c) (ck_client_ts c) (ck_client_ip c) (ck_server c) (ck_server_len c) t.
(* ares_cookie_generate *)
Definition cookie_generate (c : cookie) (ip : addr) (now : tv) (r : list Z) : cookie :=
  mkCk (ck_state c) r now ip (ck_server c) (ck_server_len c) (ck_unsup_ts c).
(* ares_cookie_clear_server *)
Definition clear_server (c : cookie) : cookie :=
  mkCk (ck_state c) (ck_client c) (ck_client_ts c) (ck_client_ip c) (repeat 0 32) 0 (ck_unsup_ts c).
(* memcpy(cookie->server, resp + 8, len): the first len bytes are overwritten *)
Definition set_server (c : cookie) (s : list Z) : cookie :=
  mkCk (ck_state c) (ck_client c) (ck_client_ts c) (ck_client_ip c)
       (s ++ skipn (length s) (ck_server c)) (length s) (ck_unsup_ts c).

(* ares_addr_equal: family first, then a switch on the family; any family other than
   AF_INET / AF_INET6 (in particular AF_UNSPEC) compares as NOT equal *)
Definition addr_equal (a b : addr) : bool :=
  if negb (a_family a =? a_family b) then false
  else if a_family a =? AF_INET then bytes_eqb (firstn 4 (a_data a)) (firstn 4 (a_data b))
  else if a_family a =? AF_INET6 then bytes_eqb (a_data a) (a_data b)
  else false.

(* ---- messages as seen by the cookie code ---- *)
Inductive req := NoOpt | OptOnly | OptCookie (c : list Z).

Definition cookie_of (r : req) : option (list Z) :=      (* ares_dns_cookie_fetch *)
  match r with OptCookie c => Some c | _ => None end.

Definition norm_cookie (c : option (list Z)) : option (list Z) :=
  match c with Some (x :: l) => Some (x :: l) | _ => None end.

Definition mk_req (opt : bool) (uc : option (list Z)) : req :=
  if opt then match norm_cookie uc with Some c => OptCookie c | None => OptOnly end else NoOpt.

(* ---- ares_cookie_apply ---- *)
Definition apply_regress (ck : cookie) (now : tv) : outcome cookie :=
  if ck_state ck =? ARES_COOKIE_SUPPORTED then
    do s <- timeval_is_set (ck_unsup_ts ck);
    if s then
      do e <- timeval_expired (ck_unsup_ts ck) now COOKIE_REGRESSION_TIMEOUT_MS;
      Ok (if e then cookie_zero else ck)
    else Ok ck
  else Ok ck.

Definition apply_generate (ck : cookie) (ip : addr) (now : tv) (rnd : nat -> list Z) : outcome (cookie * nat) :=
  let '(ck1, n1) :=
    if ck_state ck =? ARES_COOKIE_INITIAL
    then (set_state (cookie_generate ck ip now (rnd 0%nat)) ARES_COOKIE_GENERATED, 1%nat)
    else (ck, 0%nat) in
  let '(ck2, n2) :=
    if ((ck_state ck1 =? ARES_COOKIE_GENERATED) || (ck_state ck1 =? ARES_COOKIE_SUPPORTED))
       && negb (addr_equal ip (ck_client_ip ck1))
    then (cookie_generate (clear_server ck1) ip now (rnd n1), S n1)
    else (ck1, n1) in
  do e <- (if ck_state ck2 =? ARES_COOKIE_SUPPORTED
           then timeval_expired (ck_client_ts ck2) now COOKIE_CLIENT_TIMEOUT_MS else Ok false);
  Ok (if e then (cookie_generate (clear_server ck2) ip now (rnd n2), S n2) else (ck2, n2)).

(* the part of ares_cookie_apply after the regression check *)
Definition apply_tail (ck1 : cookie) (ip : addr) (now : tv) (rnd : nat -> list Z)
  : outcome (cookie * req * Z * nat) :=
  do quiet <- (if ck_state ck1 =? ARES_COOKIE_UNSUPPORTED
               then do e <- timeval_expired (ck_unsup_ts ck1) now COOKIE_REGRESSION_TIMEOUT_MS; Ok (negb e)
               else Ok false);
  if quiet then Ok (ck1, OptOnly, ARES_SUCCESS, 0%nat) else
  let ck2 := if ck_state ck1 =? ARES_COOKIE_UNSUPPORTED then cookie_zero else ck1 in
  do g <- apply_generate ck2 ip now rnd;
  let '(ck3, n) := g in
  (* unsigned char c[40]: client (8) + server_len bytes of server[32] *)
  guard (ck_server_len ck3 <=? 32)%nat OutOfBounds (
  Ok (ck3, OptCookie (ck_client ck3 ++ firstn (ck_server_len ck3) (ck_server ck3)), ARES_SUCCESS, n)).

(* result: new cookie record, new request, status, number of ares_rand_bytes calls *)
Definition cookie_apply (ck : cookie) (rq : req) (tcp : bool) (ip : addr) (now : tv)
           (rnd : nat -> list Z) : outcome (cookie * req * Z * nat) :=
  match rq with
  | NoOpt => Ok (ck, NoOpt, ARES_SUCCESS, 0%nat)
  | _ =>
    if tcp then Ok (ck, OptOnly, ARES_SUCCESS, 0%nat) else
    do ck1 <- apply_regress ck now;
    apply_tail ck1 ip now rnd
  end.

(* ---- ares_cookie_validate ---- *)
Record query := mkQ {
  q_req : req;          (* query->query, as far as the cookie code reads it *)
  q_try : Z;            (* query->cookie_try_count (size_t) *)
  q_tcp : bool;         (* query->using_tcp *)
  q_sent : bool }.      (* harness/caller state: on a connection, awaiting a response *)

Definition set_try (q : query) (t : Z) (tcp : bool) : query := mkQ (q_req q) t tcp (q_sent q).

(* the end of ares_cookie_validate: an otherwise valid response without a server cookie *)
Definition validate_lacking (ck1 : cookie) (now : tv) : outcome (cookie * Z) :=
  if ck_state ck1 =? ARES_COOKIE_SUPPORTED then
    do s <- timeval_is_set (ck_unsup_ts ck1);
    Ok (if s then ck1 else set_unsup ck1 now, ARES_EBADRESP)
  else if ck_state ck1 =? ARES_COOKIE_GENERATED then
    Ok (set_unsup (set_state cookie_zero ARES_COOKIE_UNSUPPORTED) now, ARES_SUCCESS)
  else Ok (ck1, ARES_SUCCESS).

(* result: cookie record, query, status, arguments of the ares_requeue_query call if any *)
Definition cookie_validate (ck : cookie) (q : query) (rc0 : option (list Z)) (rcode : Z) (now : tv)
  : outcome (cookie * query * Z * option (Z * Z)) :=
  let rc := norm_cookie rc0 in
  let rlen := match rc with Some c => zlen c | None => 0 end in
  if (match rc with Some _ => (rlen <? 8) || (rlen >? 40) | None => false end)
  then Ok (ck, q, ARES_EBADRESP, None) else
  match cookie_of (q_req q) with
  | None => Ok (ck, q, ARES_SUCCESS, None)
  | Some qc =>
    (* memcmp(req_cookie, resp_cookie, 8) *)
    do mism <- (match rc with
                | Some c => guard (8 <=? zlen qc) OutOfBounds (Ok (negb (bytes_eqb (firstn 8 qc) (firstn 8 c))))
                | None => Ok false end);
    if mism then Ok (ck, q, ARES_EBADRESP, None) else
    do ck1 <- (match rc with
               | Some c =>
                 if rlen >? 8 then
                   let ck' := set_unsup (set_state ck ARES_COOKIE_SUPPORTED) tv_zero in
                   (* memcmp(cookie->client, req_cookie, 8) *)
                   guard (8 <=? zlen qc) OutOfBounds (
                   if bytes_eqb (ck_client ck') (firstn 8 qc)
                   then guard (rlen - 8 <=? 32) OutOfBounds (Ok (set_server ck' (skipn 8 c)))
                   else Ok ck')
                 else Ok ck
               | None => Ok ck end);
    if rcode =? ARES_RCODE_BADCOOKIE then
      match rc with
      | None => Ok (ck1, q, ARES_EBADRESP, None)
      | Some _ =>
        let t := (q_try q + 1) mod 2 ^ 64 in
        let q' := set_try q t (if t >=? COOKIE_RESEND_MAX then true else q_tcp q) in
        Ok (ck1, q', ARES_EBADRESP, Some (ARES_SUCCESS, ARES_FALSE))
      end
    else if rlen >? 8 then Ok (ck1, q, ARES_SUCCESS, None)
    else
      do r <- validate_lacking ck1 now;
      let '(ck2, st) := r in Ok (ck2, q, st, None)
  end.

(* ---- the component in its environment: one server, any number of queries ----
   Caller behaviour built in (read off ares_send_query / ares_conn / read_answers):
   - the connection handed to ares_cookie_apply is TCP when query->using_tcp is set;
   - a response is matched to a query only while the query sits on a connection: not before
     its first transmission and not between a requeue and the retransmission. *)
Record sys := mkSys { s_ck : cookie; s_q : nat -> query }.

Inductive event :=
| ENew (q : nat) (opt : bool) (uc : option (list Z))
| EApply (q : nat) (tcp : bool) (ip : addr) (now : tv) (rnd : nat -> list Z)
| EValidate (q : nat) (rc : option (list Z)) (rcode : Z) (now : tv).

Inductive obs :=
| ONew (r : req)
| OApply (tcp : bool) (st : Z) (r : req) (n : nat)
| OValidate (st : Z) (rq : option (Z * Z)) (try : Z) (utcp : bool)
| OIgnored.

Definition upd {A} (f : nat -> A) (k : nat) (v : A) : nat -> A :=
  fun x => if Nat.eqb x k then v else f x.

Definition sys_init : sys := mkSys cookie_zero (fun _ => mkQ OptOnly 0 false false).

Definition sys_step (s : sys) (e : event) : outcome (sys * obs) :=
  match e with
  | ENew q opt uc =>
    let r := mk_req opt uc in
    Ok (mkSys (s_ck s) (upd (s_q s) q (mkQ r 0 false false)), ONew r)
  | EApply q tcp ip now rnd =>
    let qr := s_q s q in
    let tcp' := tcp || q_tcp qr in
    do a <- cookie_apply (s_ck s) (q_req qr) tcp' ip now rnd;
    let '(ck', r', st, n) := a in
    Ok (mkSys ck' (upd (s_q s) q (mkQ r' (q_try qr) (q_tcp qr) true)), OApply tcp' st r' n)
  | EValidate q rc rcode now =>
    let qr := s_q s q in
    if negb (q_sent qr) then Ok (s, OIgnored) else
    do a <- cookie_validate (s_ck s) qr rc rcode now;
    let '(ck', q', st, rq) := a in
    let q'' := mkQ (q_req q') (q_try q') (q_tcp q') (match rq with Some _ => false | None => true end) in
    Ok (mkSys ck' (upd (s_q s) q q''), OValidate st rq (q_try q') (q_tcp q'))
  end.
