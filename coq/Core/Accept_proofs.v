(* Proofs about the accept-path model (C05). *)
From Coq Require Import ZArith List Bool Lia.
From CAres.Base Require Import Outcome CInt.
From CAres.Gen Require Import Consts LeafFns.
From CAres.Core Require Import Accept.
Import ListNotations.
Local Open Scope Z_scope.
Local Open Scope bool_scope.

(* ------------------------------------------------------------------------------------- *)
(* Lists of queries                                                                        *)
(* ------------------------------------------------------------------------------------- *)
Lemma find_some_in {A} (f : A -> bool) l x : find f l = Some x -> In x l /\ f x = true.
Proof. apply find_some. Qed.

Lemma map_qid_replace q l : map q_qid (replace_query q l) = map q_qid l.
Proof.
  unfold replace_query. induction l as [|x l IH]; simpl; [reflexivity|].
  rewrite IH. destruct (q_qid x =? q_qid q) eqn:E; [|reflexivity].
  apply Z.eqb_eq in E. now rewrite E.
Qed.

Lemma remove_query_incl id l x : In x (remove_query id l) -> In x l /\ q_qid x <> id.
Proof.
  unfold remove_query. intros H. apply filter_In in H. destruct H as [H1 H2].
  split; [assumption|]. apply negb_true_iff in H2. now apply Z.eqb_neq in H2.
Qed.

Lemma NoDup_map_filter {A B} (f : A -> B) (g : A -> bool) l :
  NoDup (map f l) -> NoDup (map f (filter g l)).
Proof.
  induction l as [|x l IH]; simpl; intros H; [constructor|].
  inversion H as [|? ? Hn Hd]; subst.
  destruct (g x); simpl; [|now apply IH].
  constructor; [|now apply IH].
  intros Hin. apply Hn. apply in_map_iff in Hin. destruct Hin as [y [E Hy]].
  apply filter_In in Hy. apply in_map_iff. exists y. tauto.
Qed.

Lemma in_replace_query q l x :
  In x (replace_query q l) -> x = q \/ In x l.
Proof.
  unfold replace_query. intros H. apply in_map_iff in H. destruct H as [y [E Hy]].
  destruct (q_qid y =? q_qid q); subst; auto.
Qed.

(* ------------------------------------------------------------------------------------- *)
(* generate_unique_qid                                                                    *)
(* ------------------------------------------------------------------------------------- *)
Lemma existsb_eqb_false live id : existsb (Z.eqb id) live = false -> ~ In id live.
Proof.
  intros H Hin. assert (existsb (Z.eqb id) live = true) as T.
  { apply existsb_exists. exists id. split; [assumption|apply Z.eqb_refl]. }
  congruence.
Qed.

Lemma generate_unique_qid_fresh live ids id :
  generate_unique_qid live ids = Ok id -> ~ In id live /\ In id ids.
Proof.
  induction ids as [|x r IH]; simpl; [discriminate|].
  destruct (existsb (Z.eqb x) live) eqn:E.
  - intros H. destruct (IH H). auto.
  - intros H. inversion H; subst. split; [now apply existsb_eqb_false|auto].
Qed.

(* the retry loop ends as soon as the random source produces an id that is not in use;
   fuel (the length of the candidate list) is only exhausted when every candidate collides *)
Lemma generate_unique_qid_terminates live ids :
  (exists id, In id ids /\ ~ In id live) -> exists r, generate_unique_qid live ids = Ok r.
Proof.
  induction ids as [|x r IH]; intros [id [Hin Hn]]; [destruct Hin|].
  simpl. destruct (existsb (Z.eqb x) live) eqn:E; [|eauto].
  apply IH. destruct Hin as [->|Hin]; [|eauto].
  exfalso. apply Hn. apply existsb_exists in E. destruct E as [y [Hy Ey]].
  apply Z.eqb_eq in Ey. now subst.
Qed.

Lemma generate_unique_qid_not_ub live ids : is_ub (generate_unique_qid live ids) = false.
Proof. induction ids as [|x r IH]; simpl; [reflexivity|]. destruct (existsb _ _); auto. Qed.

Lemma filter_length_le' {A} (f : A -> bool) l : (length (filter f l) <= length l)%nat.
Proof. induction l as [|x l IH]; simpl; [lia|]. destruct (f x); simpl; lia. Qed.

(* pigeonhole: with fewer live queries than ids there is always a free id *)
Lemma free_id_exists (live : list Z) (n : nat) :
  (length live < n)%nat -> exists id, 0 <= id < Z.of_nat n /\ ~ In id live.
Proof.
  revert live. induction n as [|n IH]; intros live H; [lia|].
  destruct (in_dec Z.eq_dec (Z.of_nat n) live) as [Hin|Hn].
  - (* remove one occurrence of n and recurse *)
    destruct (in_split _ _ Hin) as [l1 [l2 E]].
    assert (length (filter (fun x => negb (Z.eqb x (Z.of_nat n))) live) < n)%nat as L.
    { subst live. rewrite filter_app. simpl. rewrite Z.eqb_refl. simpl.
      rewrite app_length in H. simpl in H. rewrite app_length.
      pose proof (filter_length_le' (fun x => negb (Z.eqb x (Z.of_nat n))) l1).
      pose proof (filter_length_le' (fun x => negb (Z.eqb x (Z.of_nat n))) l2).
      lia. }
    destruct (IH _ L) as [id [R Hid]].
    exists id. split; [lia|]. intros Hin'. apply Hid. apply filter_In. split; [assumption|].
    apply negb_true_iff. apply Z.eqb_neq. lia.
  - exists (Z.of_nat n). split; [lia|assumption].
Qed.

(* ------------------------------------------------------------------------------------- *)
(* Invariant                                                                              *)
(* ------------------------------------------------------------------------------------- *)
Definition qids (st : chan) : list Z := map q_qid (ch_queries st).

Definition conn_of (cs : list conn) (c : Z) : option conn := find (fun cn => cn_id cn =? c) cs.

(* a query is well formed w.r.t. the connection table: if it is assigned, the connection exists
   and has the query's transport; its cookie (as last written) has a legal length *)
Definition wfq (cs : list conn) (q : query) : Prop :=
  (forall c, q_conn q = Some c -> exists cn, conn_of cs c = Some cn /\ cn_tcp cn = q_using_tcp q) /\
  cookie_len_ok (q_cookie q) = true.

Definition server_inv (ss : list server) : Prop :=
  forall sv, In sv ss -> zlen (ck_client (sv_cookie sv)) = 8.

Record inv (st : chan) : Prop := mkInv {
  inv_qid : NoDup (qids st);
  inv_wfq : Forall (wfq (ch_conns st)) (ch_queries st);
  inv_server : server_inv (ch_servers st) }.

Definition assign_inv (st : chan) : Prop :=
  forall q c, In q (ch_queries st) -> q_conn q = Some c ->
              exists cn, find_conn st c = Some cn /\ cn_tcp cn = q_using_tcp q.

Lemma inv_assign st : inv st -> assign_inv st.
Proof.
  intros [_ W _] q c Hq Hc. rewrite Forall_forall in W. destruct (W q Hq) as [A _].
  exact (A c Hc).
Qed.

(* ------------------------------------------------------------------------------------- *)
(* same_questions = the specification's question comparison                               *)
(* ------------------------------------------------------------------------------------- *)
Lemma same_questions_loop_spec exact qs ps :
  length qs = length ps -> same_questions_loop exact qs ps = questions_eqb exact qs ps.
Proof.
  revert ps. induction qs as [|q qs IH]; intros [|p ps] L; simpl in *; try reflexivity; try discriminate.
  injection L as L.
  destruct (qn_type q =? qn_type p); simpl; [|reflexivity].
  destruct (qn_class q =? qn_class p); simpl; [|reflexivity].
  destruct exact.
  - destruct (bytes_eqb (qn_name q) (qn_name p)); simpl; [now apply IH|reflexivity].
  - destruct (bytes_caseeqb (qn_name q) (qn_name p)); simpl; [now apply IH|reflexivity].
Qed.

Lemma questions_eqb_length exact a b : questions_eqb exact a b = true -> length a = length b.
Proof.
  revert b. induction a as [|x a IH]; intros [|y b] H; simpl in *; try reflexivity; try discriminate.
  apply andb_true_iff in H. destruct H as [_ H]. f_equal. now apply IH.
Qed.

Lemma same_questions_spec cfg q p :
  same_questions cfg q p = questions_eqb (cf_dns0x20 cfg && negb (q_using_tcp q)) (q_qd q) (p_qd p).
Proof.
  unfold same_questions, zlen.
  destruct (Z.of_nat (length (q_qd q)) =? Z.of_nat (length (p_qd p))) eqn:E; simpl.
  - apply Z.eqb_eq in E. apply Nat2Z.inj in E. now apply same_questions_loop_spec.
  - destruct (questions_eqb _ _ _) eqn:F; [|reflexivity].
    apply questions_eqb_length in F. apply Z.eqb_neq in E. rewrite F in E. lia.
Qed.

(* ------------------------------------------------------------------------------------- *)
(* Which parts of the state an operation may touch                                        *)
(* ------------------------------------------------------------------------------------- *)
(* everything except the per-server cookie records is equal *)
Definition same_but_cookies (a b : chan) : Prop :=
  ch_queries a = ch_queries b /\ ch_conns a = ch_conns b /\ ch_ctab a = ch_ctab b /\
  ch_cexp a = ch_cexp b /\ ch_auth a = ch_auth b /\
  map sv_idx (ch_servers a) = map sv_idx (ch_servers b) /\
  map sv_addr (ch_servers a) = map sv_addr (ch_servers b).

Lemma same_but_cookies_refl st : same_but_cookies st st.
Proof. repeat split. Qed.

Lemma same_but_cookies_update st idx ck : same_but_cookies (update_cookie st idx ck) st.
Proof.
  unfold same_but_cookies, update_cookie. simpl. repeat split.
  - induction (ch_servers st) as [|x l IH]; simpl; [reflexivity|]. rewrite IH.
    destruct (sv_idx x =? idx); reflexivity.
  - induction (ch_servers st) as [|x l IH]; simpl; [reflexivity|]. rewrite IH.
    destruct (sv_idx x =? idx); reflexivity.
Qed.

(* ------------------------------------------------------------------------------------- *)
(* ares_cookie_validate against the specification's cookie_ok                             *)
(* ------------------------------------------------------------------------------------- *)
Global Opaque first8 skip8.

Lemma memcmp8_eq_ok a b r : memcmp8_eq a b = Ok r -> r = bytes_eqb (first8 a) (first8 b).
Proof. unfold memcmp8_eq. intros H. apply guard_ok in H. destruct H as [_ H]. now inversion H. Qed.

Lemma requeue_query_outputs_nodata cfg st q status inc st1 outs :
  requeue_query cfg st q status inc None = (st1, outs) ->
  forall o, In o outs -> exists tok s, o = OCallback tok s None.
Proof.
  unfold requeue_query. intros H o Ho.
  destruct (_ && _) in H; inversion H; subst; [destruct Ho|].
  destruct Ho as [<-|[]]. eauto.
Qed.

Ltac fin3 := split; [try reflexivity | split; [reflexivity |
  first [apply same_but_cookies_refl | apply same_but_cookies_update]]].

Lemma cookie_decide_ok ck reqc resp rcode s u ck1 :
  cookie_decide ck reqc resp rcode s u = Ok (ck1, COk) -> cookie_ok_core ck reqc resp rcode = true.
Proof.
  unfold cookie_decide, cookie_ok_core.
  destruct resp as [pc|].
  - destruct ((zlen pc <? 8) || (40 <? zlen pc)) eqn:Elen; [discriminate|].
    apply orb_false_iff in Elen. destruct Elen as [L1 L2].
    apply Z.ltb_ge in L1. apply Z.ltb_ge in L2.
    assert ((8 <=? zlen pc) && (zlen pc <=? 40) = true) as LL.
    { apply andb_true_iff. split; apply Z.leb_le; lia. }
    rewrite LL. simpl.
    destruct reqc as [rc|]; [|reflexivity].
    destruct (memcmp8_eq rc pc) as [e| |] eqn:Em; simpl; try discriminate.
    apply memcmp8_eq_ok in Em. subst e.
    destruct (bytes_eqb (first8 rc) (first8 pc)); simpl; [|discriminate].
    destruct (8 <? zlen pc) eqn:E8; simpl; [reflexivity|].
    destruct (rcode =? ARES_RCODE_BADCOOKIE); [discriminate|].
    destruct (ck_state ck =? C05_COOKIE_SUPPORTED); [|reflexivity].
    destruct (c_timeval_is_set _ _); simpl; discriminate.
  - simpl. destruct reqc as [rc|]; [|reflexivity]. simpl.
    destruct (rcode =? ARES_RCODE_BADCOOKIE); [discriminate|].
    destruct (ck_state ck =? C05_COOKIE_SUPPORTED); [|reflexivity].
    destruct (c_timeval_is_set _ _); simpl; discriminate.
Qed.

Lemma cookie_decide_inert ck reqc resp rcode s u r :
  cookie_ok_core ck reqc resp rcode = false ->
  cookie_decide ck reqc resp rcode s u = Ok r -> snd r = CDrop.
Proof.
  unfold cookie_decide, cookie_ok_core.
  destruct resp as [pc|].
  - destruct ((zlen pc <? 8) || (40 <? zlen pc)) eqn:Elen.
    { intros _ H. inversion H. reflexivity. }
    apply orb_false_iff in Elen. destruct Elen as [L1 L2].
    apply Z.ltb_ge in L1. apply Z.ltb_ge in L2.
    assert ((8 <=? zlen pc) && (zlen pc <=? 40) = true) as LL.
    { apply andb_true_iff. split; apply Z.leb_le; lia. }
    rewrite LL. simpl.
    destruct reqc as [rc|]; [|discriminate].
    destruct (memcmp8_eq rc pc) as [e| |] eqn:Em; simpl; try discriminate.
    apply memcmp8_eq_ok in Em. subst e.
    destruct (bytes_eqb (first8 rc) (first8 pc)); simpl.
    2:{ intros _ H. inversion H. reflexivity. }
    destruct (8 <? zlen pc) eqn:E8; simpl; [discriminate|].
    destruct (rcode =? ARES_RCODE_BADCOOKIE). { rewrite orb_true_r. discriminate. }
    rewrite orb_false_r.
    destruct (ck_state ck =? C05_COOKIE_SUPPORTED); [|discriminate].
    intros _. destruct (c_timeval_is_set _ _); simpl; intros H; inversion H. reflexivity.
  - simpl. destruct reqc as [rc|]; [|discriminate]. simpl.
    destruct (rcode =? ARES_RCODE_BADCOOKIE). { intros _ H. inversion H. reflexivity. }
    destruct (ck_state ck =? C05_COOKIE_SUPPORTED); [|discriminate].
    intros _. destruct (c_timeval_is_set _ _); simpl; intros H; inversion H. reflexivity.
Qed.

Lemma cookie_decide_client ck reqc resp rcode s u ck1 d :
  zlen (ck_client ck) = 8 -> cookie_decide ck reqc resp rcode s u = Ok (ck1, d) ->
  zlen (ck_client ck1) = 8.
Proof.
  intros L8. unfold cookie_decide.
  destruct (match resp with Some _ => _ | None => false end). { intros H. inversion H; subst. exact L8. }
  destruct reqc as [rc|]. 2:{ intros H. inversion H; subst. exact L8. }
  destruct (match resp with Some rc0 => _ | None => Ok false end) as [mm| |]; simpl; try discriminate.
  destruct mm. { intros H. inversion H; subst. exact L8. }
  destruct (match resp with Some rc0 => _ | None => Ok ck end) as [ck2| |] eqn:Eck; simpl; try discriminate.
  assert (zlen (ck_client ck2) = 8) as L2.
  { destruct resp as [pc|]; [|inversion Eck; subst; exact L8].
    destruct (8 <? zlen pc); [|inversion Eck; subst; exact L8].
    destruct (memcmp8_eq _ _) in Eck; simpl in Eck; inversion Eck; subst. exact L8. }
  destruct (rcode =? ARES_RCODE_BADCOOKIE).
  { destruct resp; intros H; inversion H; subst; exact L2. }
  destruct (8 <? _). { intros H. inversion H; subst. exact L2. }
  destruct (ck_state ck2 =? C05_COOKIE_SUPPORTED).
  { destruct (c_timeval_is_set _ _); simpl; try discriminate. intros H. inversion H; subst.
    destruct (_ =? ARES_FALSE); exact L2. }
  destruct (ck_state ck2 =? C05_COOKIE_GENERATED); intros H; inversion H; subst; [reflexivity|exact L2].
Qed.

Lemma c_timeval_is_set_ok a b : exists r, c_timeval_is_set a b = Ok r.
Proof.
  unfold c_timeval_is_set.
  match goal with |- context [if ?c then _ else _] => destruct c end; eauto.
Qed.

Lemma cookie_validate_ok cfg st q p sv s u st1 outs :
  cookie_validate cfg st q p sv s u = Ok (st1, outs, VOk) ->
  cookie_ok (sv_cookie sv) q p = true /\ outs = [] /\ same_but_cookies st1 st.
Proof.
  unfold cookie_validate, cookie_ok.
  destruct (cookie_decide _ _ _ _ _ _) as [[ck1 d]| |] eqn:Ed; simpl; try discriminate.
  destruct d.
  - discriminate.
  - intros H. inversion H; subst. split; [eapply cookie_decide_ok; eauto|].
    split; [reflexivity|apply same_but_cookies_update].
  - destruct (requeue_query _ _ _ _ _ _) as [st2 o2]. discriminate.
Qed.

Lemma cookie_validate_inert cfg st q p sv s u r :
  cookie_ok (sv_cookie sv) q p = false ->
  cookie_validate cfg st q p sv s u = Ok r ->
  exists st1, r = (st1, [], VDrop) /\ same_but_cookies st1 st.
Proof.
  unfold cookie_validate, cookie_ok. intros Hck.
  destruct (cookie_decide _ _ _ _ _ _) as [[ck1 d]| |] eqn:Ed; simpl; try discriminate.
  pose proof (cookie_decide_inert _ _ _ _ _ _ _ Hck Ed) as Hd. simpl in Hd. subst d.
  intros H. inversion H. eexists. split; [reflexivity|apply same_but_cookies_update].
Qed.

(* ------------------------------------------------------------------------------------- *)
(* process_answer: every output that carries data comes from an authentic packet           *)
(* ------------------------------------------------------------------------------------- *)
Definition carries (o : output) (tag : Z) : Prop :=
  (exists tok s, o = OCallback tok s (Some tag)) \/ (exists srv, o = OServerGood srv tag) \/
  o = OCacheInsert tag.

Definition nodata (o : output) : Prop := forall tag, ~ carries o tag.

Lemma nodata_callback_none tok s : nodata (OCallback tok s None).
Proof. intros tag [[t [s' H]]|[[srv H]|H]]; discriminate. Qed.
Lemma nodata_fail srv t : nodata (OServerFail srv t).
Proof. intros tag [[t' [s' H]]|[[srv' H]|H]]; discriminate. Qed.
Lemma nodata_connerr c : nodata (OConnError c).
Proof. intros tag [[t' [s' H]]|[[srv' H]|H]]; discriminate. Qed.

Lemma requeue_query_nodata cfg st q status inc st1 outs :
  requeue_query cfg st q status inc None = (st1, outs) -> Forall nodata outs.
Proof.
  unfold requeue_query. intros H.
  destruct (_ && _) in H; inversion H; subst; [constructor|].
  constructor; [apply nodata_callback_none|constructor].
Qed.

Lemma requeue_query_data cfg st q status inc tag st1 outs :
  requeue_query cfg st q status inc (Some tag) = (st1, outs) ->
  forall o, In o outs -> exists s, o = OCallback (q_tok q) s (Some tag).
Proof.
  unfold requeue_query. intros H o Ho.
  destruct (_ && _) in H; inversion H; subst; [destruct Ho|].
  destruct Ho as [<-|[]].
  destruct inc; destruct (negb (status =? ARES_SUCCESS)); simpl; eauto.
Qed.

Lemma requeue_all_nodata cfg qs : forall st status st1 outs,
  requeue_all cfg st qs status = (st1, outs) -> Forall nodata outs.
Proof.
  induction qs as [|q r IH]; simpl; intros st status st1 outs H.
  - inversion H. constructor.
  - destruct (requeue_query cfg st q status true None) as [sta oa] eqn:Ea.
    destruct (requeue_all cfg sta r status) as [stb ob] eqn:Eb.
    inversion H; subst. apply Forall_app. split.
    + eapply requeue_query_nodata; eauto.
    + eapply IH; eauto.
Qed.

Lemma cookie_validate_nodata cfg st q p sv s u st1 outs v :
  cookie_validate cfg st q p sv s u = Ok (st1, outs, v) -> Forall nodata outs.
Proof.
  unfold cookie_validate.
  destruct (cookie_decide _ _ _ _ _ _) as [[ck1 d]| |]; simpl; try discriminate.
  destruct d; try (intros H; inversion H; constructor).
  destruct (requeue_query _ _ _ _ _ _) as [st2 o2] eqn:Er. intros H. inversion H; subst.
  eapply requeue_query_nodata; eauto.
Qed.

Lemma find_query_some st id q : find_query st id = Some q -> In q (ch_queries st) /\ q_qid q = id.
Proof.
  unfold find_query. intros H. apply find_some in H. destruct H as [H1 H2].
  split; [assumption|now apply Z.eqb_eq].
Qed.

Lemma opt_z_eqb_true a b : opt_z_eqb a b = true -> a = b.
Proof.
  destruct a, b; simpl; intros H; try discriminate; [|reflexivity].
  apply Z.eqb_eq in H. now subst.
Qed.

Lemma cache_insert_outputs cfg st q p now st1 outs :
  cache_insert cfg st q p now = (st1, outs) -> outs = [] \/ outs = [OCacheInsert (p_tag p)].
Proof.
  unfold cache_insert. intros H.
  destruct (negb (cf_qcache cfg)); [inversion H; auto|].
  destruct (negb _); [inversion H; auto|].
  destruct (p_tc p); [inversion H; auto|].
  destruct (_ =? 0); inversion H; auto.
Qed.

Lemma close_connection_nodata_fwd cfg st c status st1 outs :
  close_connection cfg st c status = (st1, outs) -> Forall nodata outs.
Proof.
  unfold close_connection. destruct (requeue_all cfg st _ status) as [sta oa] eqn:Ea.
  intros H. inversion H; subst. eapply requeue_all_nodata; eauto.
Qed.

Theorem process_answer_sound cfg st cn sv src s u d st' outs :
  cf_fix_conn cfg = true -> cf_fix_qr cfg = true ->
  assign_inv st -> find_conn st (cn_id cn) = Some cn ->
  (cn_tcp cn || (src =? sv_addr sv)) = true ->
  process_answer cfg st cn sv s u d = Ok (st', outs) ->
  forall o tag, In o outs -> carries o tag ->
  exists p q, d = DParsed p /\ p_tag p = tag /\ In q (ch_queries st) /\
              authentic_b cfg cn sv src p q = true /\
              (forall tok st dd, o = OCallback tok st dd -> tok = q_tok q).
Proof.
  intros Fc Fq Hinv Hcn Hsrc H o tag Ho Hc.
  destruct d as [|mt|p]; simpl in H.
  - inversion H; subst. destruct Ho.
  - destruct (cf_udp_garbage_drop cfg && negb (cn_tcp cn)); [inversion H; subst; destruct Ho|].
    destruct (close_connection cfg st (cn_id cn) ARES_EBADRESP) as [st1 o1] eqn:Ec.
    inversion H; subst. exfalso.
    destruct Ho as [<-|[<-|Ho]].
    + eapply nodata_fail; eauto.
    + eapply nodata_connerr; eauto.
    + apply close_connection_nodata_fwd in Ec.
      rewrite Forall_forall in Ec. eapply Ec; eauto.
  - rewrite Fq in H. simpl in H.
    destruct (p_qr p) eqn:Eqr; simpl in H; [|inversion H; subst; destruct Ho].
    destruct (find_query st (p_id p)) as [q|] eqn:Eq; [|inversion H; subst; destruct Ho].
    destruct (find_query_some _ _ _ Eq) as [Hq Hid].
    destruct (same_questions cfg q p) eqn:Esq; simpl in H; [|inversion H; subst; destruct Ho].
    rewrite Fc in H. simpl in H.
    destruct (opt_z_eqb (q_conn q) (Some (cn_id cn))) eqn:Econn; simpl in H;
      [|inversion H; subst; destruct Ho].
    destruct (cookie_validate cfg st q p sv s u) as [[[st1 outs1] v]| |] eqn:Ev; simpl in H;
      try discriminate.
    destruct v.
    + (* accepted by the cookie check *)
      destruct (cookie_validate_ok _ _ _ _ _ _ _ _ _ Ev) as [Hck [-> _]].
      assert (authentic_b cfg cn sv src p q = true) as A.
      { unfold authentic_b. rewrite Econn, Hsrc, Eqr, Hck. simpl.
        rewrite Hid, Z.eqb_refl. simpl. rewrite andb_true_r.
        unfold questions_match. rewrite same_questions_spec in Esq.
        apply opt_z_eqb_true in Econn.
        destruct (Hinv _ _ Hq Econn) as [cn' [F T]]. rewrite Hcn in F. inversion F; subst cn'.
        rewrite T, Esq. reflexivity. }
      destruct (issue_might_be_edns q p).
      { destruct (negb (q_has_opt q)); inversion H; subst.
        - destruct Ho as [<-|[]]. exfalso. eapply nodata_callback_none; eauto.
        - destruct Ho. }
      destruct (p_tc p && negb (cn_tcp cn) && negb (cf_igntc cfg)).
      { inversion H; subst. destruct Ho. }
      destruct (negb (cf_nocheckresp cfg) && _).
      { destruct (requeue_query cfg st1 q _ true (Some (p_tag p))) as [st2 outs2] eqn:Er.
        inversion H; subst. destruct Ho as [<-|Ho].
        - exfalso. eapply nodata_fail; eauto.
        - destruct (requeue_query_data _ _ _ _ _ _ _ _ Er _ Ho) as [s0 ->].
          destruct Hc as [[t [s1 E]]|[[srv E]|E]]; try discriminate.
          inversion E; subst. exists p, q. repeat split; auto.
          intros tok st0 dd E2. now inversion E2. }
      destruct (cache_insert cfg st1 q p s) as [st2 outs2] eqn:Eci.
      inversion H; subst. apply in_app_or in Ho.
      destruct Ho as [Ho|[<-|[<-|[]]]].
      * destruct (cache_insert_outputs _ _ _ _ _ _ _ Eci) as [->| ->]; [destruct Ho|].
        destruct Ho as [<-|[]].
        destruct Hc as [[t [s1 E]]|[[srv E]|E]]; try discriminate.
        inversion E; subst. exists p, q. repeat split; auto. intros; discriminate.
      * destruct Hc as [[t [s1 E]]|[[srv E]|E]]; try discriminate.
        inversion E; subst. exists p, q. repeat split; auto. intros; discriminate.
      * destruct Hc as [[t [s1 E]]|[[srv E]|E]]; try discriminate.
        inversion E; subst. exists p, q. repeat split; auto.
        intros tok st0 dd E2. now inversion E2.
    + (* dropped by the cookie check: whatever it emitted carries no data *)
      inversion H; subst. exfalso. apply cookie_validate_nodata in Ev.
      rewrite Forall_forall in Ev. eapply Ev; eauto.
Qed.

(* ------------------------------------------------------------------------------------- *)
(* The invariant is preserved by every operation                                          *)
(* ------------------------------------------------------------------------------------- *)
Lemma Forall_replace_query cs q l :
  wfq cs q -> Forall (wfq cs) l -> Forall (wfq cs) (replace_query q l).
Proof.
  intros Hq Hl. unfold replace_query. rewrite Forall_forall in *. intros x Hx.
  apply in_map_iff in Hx. destruct Hx as [y [E Hy]].
  destruct (q_qid y =? q_qid q); subst; auto.
Qed.

Lemma Forall_filter {A} (P : A -> Prop) f l : Forall P l -> Forall P (filter f l).
Proof.
  intros H. rewrite Forall_forall in *. intros x Hx. apply filter_In in Hx. now apply H.
Qed.

Lemma inv_update_query st q :
  inv st -> wfq (ch_conns st) q -> inv (update_query st q).
Proof.
  intros [N W S] Hq. constructor; simpl.
  - unfold qids, update_query. simpl. now rewrite map_qid_replace.
  - now apply Forall_replace_query.
  - exact S.
Qed.

Lemma inv_drop_query st id : inv st -> inv (drop_query st id).
Proof.
  intros [N W S]. constructor; simpl.
  - unfold qids, drop_query, remove_query. simpl. now apply NoDup_map_filter.
  - unfold remove_query. now apply Forall_filter.
  - exact S.
Qed.

Lemma inv_update_cookie st idx ck :
  zlen (ck_client ck) = 8 -> inv st -> inv (update_cookie st idx ck).
Proof.
  intros L [N W S]. constructor; simpl; try assumption.
  intros sv Hsv. apply in_map_iff in Hsv. destruct Hsv as [x [E Hx]].
  destruct (sv_idx x =? idx); subst; simpl; auto.
Qed.

Lemma wfq_unassign cs q : wfq cs q -> wfq cs (q_set_conn q None).
Proof. intros [_ C]. split; [intros c H; discriminate|exact C]. Qed.

Lemma wfq_set_error cs q e : wfq cs q -> wfq cs (q_set_error q e).
Proof. intros H. exact H. Qed.
Lemma wfq_set_try cs q n : wfq cs q -> wfq cs (q_set_try q n).
Proof. intros H. exact H. Qed.
Lemma wfq_set_cookie_try cs q n : wfq cs q -> wfq cs (q_set_cookie_try q n).
Proof. intros H. exact H. Qed.

Lemma requeue_query_inv cfg st q status inc data st1 outs :
  inv st -> cookie_len_ok (q_cookie q) = true ->
  requeue_query cfg st q status inc data = (st1, outs) -> inv st1.
Proof.
  unfold requeue_query. intros I Hq H.
  destruct (_ && _) in H; inversion H; subst.
  - apply inv_update_query; [assumption|].
    split; [|destruct inc; destruct (negb (status =? ARES_SUCCESS)); exact Hq].
    intros c Hc. destruct inc; destruct (negb (status =? ARES_SUCCESS)); simpl in Hc; discriminate.
  - now apply inv_drop_query.
Qed.

Lemma requeue_query_conns cfg st q status inc data st1 outs :
  requeue_query cfg st q status inc data = (st1, outs) ->
  ch_conns st1 = ch_conns st /\ ch_servers st1 = ch_servers st /\ ch_ctab st1 = ch_ctab st /\
  ch_cexp st1 = ch_cexp st /\ ch_auth st1 = ch_auth st.
Proof.
  unfold requeue_query. intros H. destruct (_ && _) in H; inversion H; subst; repeat split.
Qed.

(* the queries still to be requeued must stay well formed while the others move *)
Lemma requeue_all_inv cfg qs : forall st status st1 outs,
  inv st -> Forall (wfq (ch_conns st)) qs ->
  requeue_all cfg st qs status = (st1, outs) -> inv st1 /\ ch_conns st1 = ch_conns st.
Proof.
  induction qs as [|q r IH]; simpl; intros st status st1 outs I W H.
  - inversion H; subst. auto.
  - destruct (requeue_query cfg st q status true None) as [sta oa] eqn:Ea.
    destruct (requeue_all cfg sta r status) as [stb ob] eqn:Eb.
    inversion H; subst. inversion W as [|? ? Wq Wr]; subst.
    destruct (requeue_query_conns _ _ _ _ _ _ _ _ Ea) as [Ec _].
    destruct (IH sta status st1 ob) as [I1 C1]; auto.
    + eapply requeue_query_inv; [exact I|apply Wq|exact Ea].
    + now rewrite Ec.
    + split; [assumption|congruence].
Qed.

Lemma conn_of_filter_other cs c c' :
  c' <> c -> conn_of (filter (fun cn => negb (cn_id cn =? c)) cs) c' = conn_of cs c'.
Proof.
  intros Hne. unfold conn_of. induction cs as [|x cs IH]; simpl; [reflexivity|].
  destruct (cn_id x =? c) eqn:E; simpl.
  - apply Z.eqb_eq in E. destruct (cn_id x =? c') eqn:E'; [apply Z.eqb_eq in E'; lia|assumption].
  - destruct (cn_id x =? c'); [reflexivity|assumption].
Qed.

Lemma in_replace_query_strong q l x :
  In x (replace_query q l) -> x = q \/ (In x l /\ q_qid x <> q_qid q).
Proof.
  unfold replace_query. intros H. apply in_map_iff in H. destruct H as [y [E Hy]].
  destruct (q_qid y =? q_qid q) eqn:F; subst; auto.
  right. split; [assumption|]. now apply Z.eqb_neq.
Qed.

Lemma requeue_all_clears cfg c qs : forall st status st1 outs,
  (forall x, In x (ch_queries st) -> q_conn x = Some c -> In (q_qid x) (map q_qid qs)) ->
  requeue_all cfg st qs status = (st1, outs) ->
  forall x, In x (ch_queries st1) -> q_conn x <> Some c.
Proof.
  induction qs as [|q r IH]; simpl; intros st status st1 outs Hc H x Hx Hxc.
  - inversion H; subst. exact (Hc x Hx Hxc).
  - destruct (requeue_query cfg st q status true None) as [sta oa] eqn:Ea.
    destruct (requeue_all cfg sta r status) as [stb ob] eqn:Eb.
    inversion H; subst.
    refine (IH sta status st1 ob _ Eb x Hx Hxc).
    intros y Hy Hyc. unfold requeue_query in Ea.
    destruct (_ && _) in Ea; inversion Ea; subst; clear Ea; simpl in Hy.
    + apply in_replace_query_strong in Hy. destruct Hy as [->|[Hy Hne]].
      * exfalso. destruct (negb (status =? ARES_SUCCESS)); simpl in Hyc; discriminate.
      * destruct (Hc y Hy Hyc) as [E|Hin]; [|exact Hin].
        exfalso. apply Hne. rewrite <- E.
        destruct (negb (status =? ARES_SUCCESS)); reflexivity.
    + apply remove_query_incl in Hy. destruct Hy as [Hy Hne].
      destruct (Hc y Hy Hyc) as [E|Hin]; [|exact Hin].
      exfalso. apply Hne. rewrite <- E.
      destruct (negb (status =? ARES_SUCCESS)); reflexivity.
Qed.

Lemma close_connection_inv cfg st c status st1 outs :
  inv st -> close_connection cfg st c status = (st1, outs) -> inv st1.
Proof.
  unfold close_connection. intros I H.
  destruct (requeue_all cfg st _ status) as [sta oa] eqn:Ea. inversion H; subst; clear H.
  assert (Forall (wfq (ch_conns st)) (filter (fun q => opt_z_eqb (q_conn q) (Some c)) (ch_queries st))) as Wq.
  { apply Forall_filter. apply I. }
  destruct (requeue_all_inv _ _ _ _ _ _ I Wq Ea) as [[N W S] Ec].
  assert (forall x, In x (ch_queries sta) -> q_conn x <> Some c) as Clr.
  { eapply requeue_all_clears; [|exact Ea]. intros x Hx Hxc. apply in_map. apply filter_In.
    split; [assumption|]. rewrite Hxc. simpl. apply Z.eqb_refl. }
  constructor; simpl; try assumption.
  rewrite Forall_forall in *. intros q Hq. destruct (W q Hq) as [A C]. split; [|exact C].
  intros c' Hc'. destruct (A c' Hc') as [cn [F T]]. exists cn. split; [|exact T].
  rewrite conn_of_filter_other; [exact F|]. intros ->. exact (Clr q Hq Hc').
Qed.

Lemma close_connection_nodata cfg st c status st1 outs :
  close_connection cfg st c status = (st1, outs) -> Forall nodata outs.
Proof.
  unfold close_connection. destruct (requeue_all cfg st _ status) as [sta oa] eqn:Ea.
  intros H. inversion H; subst. eapply requeue_all_nodata; eauto.
Qed.

Lemma inv_same_but_cookies st st1 :
  same_but_cookies st1 st -> server_inv (ch_servers st1) -> inv st -> inv st1.
Proof.
  intros [Q [C _]] S [N W _]. constructor; [unfold qids; now rewrite Q|now rewrite Q, C|exact S].
Qed.

Lemma zlen_repeat0_8 : zlen (repeat 0 8) = 8.
Proof. reflexivity. Qed.

Lemma cookie_validate_inv cfg st q p sv s u st1 outs v :
  inv st -> In q (ch_queries st) -> In sv (ch_servers st) ->
  cookie_validate cfg st q p sv s u = Ok (st1, outs, v) -> inv st1.
Proof.
  intros I Hq Hsv. pose proof (inv_server _ I _ Hsv) as L8.
  assert (wfq (ch_conns st) q) as Wq by (pose proof (inv_wfq _ I) as W; rewrite Forall_forall in W; auto).
  unfold cookie_validate.
  destruct (cookie_decide _ _ _ _ _ _) as [[ck1 d]| |] eqn:Ed; simpl; try discriminate.
  assert (inv (update_cookie st (sv_idx sv) ck1)) as I1.
  { apply inv_update_cookie; [eapply cookie_decide_client; eauto|exact I]. }
  destruct d; try (intros H; inversion H; subst; exact I1).
  destruct (requeue_query _ _ _ _ _ _) as [st2 o2] eqn:Er. intros H. inversion H; subst.
  eapply requeue_query_inv; [exact I1| |exact Er].
  destruct (COOKIE_RESEND_MAX <=? _); apply Wq.
Qed.

Lemma cache_insert_inv cfg st q p now st1 outs :
  inv st -> cache_insert cfg st q p now = (st1, outs) -> inv st1.
Proof.
  unfold cache_insert. intros I H.
  destruct (negb (cf_qcache cfg)); [inversion H; subst; exact I|].
  destruct (negb _); [inversion H; subst; exact I|].
  destruct (p_tc p); [inversion H; subst; exact I|].
  destruct (_ =? 0); inversion H; subst; [exact I|].
  destruct I as [N W S]. constructor; assumption.
Qed.

Lemma wfq_of_inv st q : inv st -> In q (ch_queries st) -> wfq (ch_conns st) q.
Proof. intros I Hq. pose proof (inv_wfq _ I) as W. rewrite Forall_forall in W. auto. Qed.

Lemma process_answer_inv cfg st cn sv s u d st1 outs :
  inv st -> In sv (ch_servers st) ->
  process_answer cfg st cn sv s u d = Ok (st1, outs) -> inv st1.
Proof.
  intros I Hsv H. destruct d as [|mt|p]; simpl in H.
  - inversion H; subst. exact I.
  - destruct (cf_udp_garbage_drop cfg && negb (cn_tcp cn)); [inversion H; subst; exact I|].
    destruct (close_connection cfg st (cn_id cn) ARES_EBADRESP) as [sta oa] eqn:Ec.
    inversion H; subst. eapply close_connection_inv; eauto.
  - destruct (cf_fix_qr cfg && negb (p_qr p)); [inversion H; subst; exact I|].
    destruct (find_query st (p_id p)) as [q|] eqn:Eq; [|inversion H; subst; exact I].
    destruct (find_query_some _ _ _ Eq) as [Hq Hid].
    destruct (negb (same_questions cfg q p)); [inversion H; subst; exact I|].
    destruct (cf_fix_conn cfg && _); [inversion H; subst; exact I|].
    destruct (cookie_validate cfg st q p sv s u) as [[[sta oa] v]| |] eqn:Ev; simpl in H; try discriminate.
    pose proof (cookie_validate_inv _ _ _ _ _ _ _ _ _ _ I Hq Hsv Ev) as Ia.
    destruct v; [|inversion H; subst; exact Ia].
    destruct (cookie_validate_ok _ _ _ _ _ _ _ _ _ Ev) as [_ [_ [Qs [Cs _]]]].
    pose proof (wfq_of_inv _ _ I Hq) as [Wa Wc].
    destruct (issue_might_be_edns q p).
    { destruct (negb (q_has_opt q)); inversion H; subst.
      - now apply inv_drop_query.
      - apply inv_update_query; [exact Ia|]. split; [intros c Hc; discriminate|reflexivity]. }
    destruct (p_tc p && negb (cn_tcp cn) && negb (cf_igntc cfg)).
    { inversion H; subst. apply inv_update_query; [exact Ia|].
      split; [intros c Hc; discriminate|exact Wc]. }
    destruct (negb (cf_nocheckresp cfg) && _).
    { destruct (requeue_query cfg sta q _ true (Some (p_tag p))) as [stb ob] eqn:Er.
      inversion H; subst. eapply requeue_query_inv; [exact Ia|exact Wc|exact Er]. }
    destruct (cache_insert cfg sta q p s) as [stb ob] eqn:Eci.
    inversion H; subst. apply inv_drop_query. eapply cache_insert_inv; eauto.
Qed.

Lemma find_server_in st i sv : find_server st i = Some sv -> In sv (ch_servers st).
Proof. unfold find_server. intros H. apply find_some in H. tauto. Qed.

Lemma find_conn_id st c cn : find_conn st c = Some cn -> cn_id cn = c.
Proof. unfold find_conn. intros H. apply find_some in H. destruct H as [_ H]. now apply Z.eqb_eq. Qed.

Lemma conn_of_app_some cs x c cn : conn_of cs c = Some cn -> conn_of (cs ++ [x]) c = Some cn.
Proof.
  unfold conn_of. induction cs as [|y cs IH]; simpl; [discriminate|].
  destruct (cn_id y =? c); [auto|exact IH].
Qed.

Lemma NoDup_app_fresh (l : list Z) x : NoDup l -> ~ In x l -> NoDup (l ++ [x]).
Proof.
  intros N Hn. induction l as [|y l IH]; simpl; [constructor; [auto|constructor]|].
  inversion N as [|? ? Hy Nl]; subst. constructor.
  - intros Hin. apply in_app_or in Hin. destruct Hin as [Hin|[->|[]]]; [auto|].
    apply Hn. now left.
  - apply IH; [assumption|]. intros Hin. apply Hn. now right.
Qed.

Lemma cache_expire_inv st now : inv st -> inv (cache_expire st now).
Proof. intros [N W S]. constructor; assumption. Qed.

Theorem step_inv cfg st e st1 outs : inv st -> step cfg st e = Ok (st1, outs) -> inv st1.
Proof.
  intros I H. destruct e as [tok qd opcode rd cd has_opt nopts nore nocache ids now
                            | c srv tcp | qid c ck | qid status | qid status | c | srv ck
                            | c src s u d]; simpl in H.
  - (* ENew *)
    destruct (generate_unique_qid (map q_qid (ch_queries st)) ids) as [id| |] eqn:Eg; simpl in H; try discriminate.
    apply generate_unique_qid_fresh in Eg. destruct Eg as [Fresh _].
    set (st0 := if cf_qcache cfg && negb nocache then cache_expire st now else st) in *.
    assert (inv st0) as I0 by (unfold st0; destruct (_ && _); [now apply cache_expire_inv|exact I]).
    assert (ch_queries st0 = ch_queries st) as Q0 by (unfold st0; destruct (_ && _); reflexivity).
    assert (ch_conns st0 = ch_conns st) as C0 by (unfold st0; destruct (_ && _); reflexivity).
    destruct (if cf_qcache cfg && negb nocache then _ else None); inversion H; subst; [exact I0|].
    destruct I0 as [N W S]. constructor; simpl.
    + unfold qids. simpl. rewrite map_app. simpl. apply NoDup_app_fresh; [exact N|now rewrite Q0].
    + apply Forall_app. split; [exact W|]. constructor; [|constructor].
      split; [intros c Hc; discriminate|reflexivity].
    + exact S.
  - (* EOpenConn *)
    destruct (find_conn st c) eqn:Ec; [discriminate|].
    destruct (find_server st srv); [|discriminate]. inversion H; subst.
    destruct I as [N W S]. constructor; simpl; try assumption.
    rewrite Forall_forall in *. intros q Hq. destruct (W q Hq) as [A C]. split; [|exact C].
    intros c' Hc'. destruct (A c' Hc') as [cn [F T]]. exists cn. split; [|exact T].
    now apply conn_of_app_some.
  - (* EAssign *)
    destruct (find_query st qid) as [q|] eqn:Eq; [|discriminate].
    destruct (find_conn st c) as [cn|] eqn:Ec; [|discriminate].
    destruct (Bool.eqb (cn_tcp cn) (q_using_tcp q) && cookie_len_ok ck) eqn:Ea; [|discriminate].
    inversion H; subst. apply andb_true_iff in Ea. destruct Ea as [Et Ek].
    apply inv_update_query; [exact I|]. split.
    + intros c' Hc'. simpl in Hc'. inversion Hc'; subst. exists cn. split; [exact Ec|].
      simpl. now apply Bool.eqb_prop.
    + simpl. destruct (cn_tcp cn || negb (q_has_opt q)); [reflexivity|exact Ek].
  - (* ERequeue *)
    destruct (find_query st qid) as [q|] eqn:Eq; [|discriminate].
    destruct (find_query_some _ _ _ Eq) as [Hq _]. inversion H as [H1].
    eapply requeue_query_inv; [exact I| |exact H1]. apply (wfq_of_inv _ _ I Hq).
  - (* EEnd *)
    destruct (find_query st qid); [|discriminate]. inversion H; subst. now apply inv_drop_query.
  - (* ECloseConn *)
    destruct (find_conn st c); [|discriminate]. inversion H as [H1].
    eapply close_connection_inv; eauto.
  - (* ESetCookie *)
    destruct (find_server st srv); [|discriminate].
    destruct ((zlen (ck_client ck) =? 8) && _) eqn:E; [|discriminate].
    inversion H; subst. apply andb_true_iff in E. destruct E as [E _]. apply Z.eqb_eq in E.
    now apply inv_update_cookie.
  - (* ERead *)
    destruct (find_conn st c) as [cn|]; [|discriminate].
    destruct (find_server st (cn_server cn)) as [sv|] eqn:Es; [|discriminate].
    destruct (negb (cn_tcp cn) && negb (src =? sv_addr sv)); [inversion H; subst; exact I|].
    destruct (negb (cf_fix_zerolen cfg) && _ && _); [discriminate|].
    destruct (process_answer cfg st cn sv s u d) as [[sta oa]| |] eqn:Ep; simpl in H; try discriminate.
    inversion H; subst. apply find_server_in in Es.
    pose proof (process_answer_inv _ _ _ _ _ _ _ _ _ I Es Ep) as [N W S].
    constructor; assumption.
Qed.

(* ------------------------------------------------------------------------------------- *)
(* Cache provenance: every cache entry carries the tag of a packet judged authentic        *)
(* ------------------------------------------------------------------------------------- *)
Definition cache_inv (st : chan) : Prop :=
  forall k tag, In (k, tag) (ch_ctab st) -> In tag (ch_auth st).

Lemma ctab_remove_incl k t e : In e (ctab_remove k t) -> In e t.
Proof. unfold ctab_remove. intros H. apply filter_In in H. tauto. Qed.

Lemma fold_ctab_remove_incl dead : forall t e,
  In e (fold_left (fun t0 (d : ckey * Z) => ctab_remove (fst d) t0) dead t) -> In e t.
Proof.
  induction dead as [|d r IH]; simpl; intros t e H; [exact H|].
  apply IH in H. now apply ctab_remove_incl in H.
Qed.

Lemma ctab_get_in k t tag : ctab_get k t = Some tag -> exists k', In (k', tag) t.
Proof.
  unfold ctab_get. destruct (find _ t) as [e|] eqn:F; [|discriminate].
  intros H. inversion H; subst. apply find_some in F. destruct F as [F _].
  exists (fst e). now destruct e.
Qed.

Lemma requeue_all_frame cfg qs : forall st status st1 outs,
  requeue_all cfg st qs status = (st1, outs) ->
  ch_ctab st1 = ch_ctab st /\ ch_auth st1 = ch_auth st /\ ch_servers st1 = ch_servers st.
Proof.
  induction qs as [|q r IH]; simpl; intros st status st1 outs H.
  - inversion H; subst. auto.
  - destruct (requeue_query cfg st q status true None) as [sta oa] eqn:Ea.
    destruct (requeue_all cfg sta r status) as [stb ob] eqn:Eb.
    inversion H; subst.
    destruct (requeue_query_conns _ _ _ _ _ _ _ _ Ea) as [_ [S [T [_ A]]]].
    destruct (IH _ _ _ _ Eb) as [T' [A' S']]. repeat split; congruence.
Qed.

Lemma close_connection_frame cfg st c status st1 outs :
  close_connection cfg st c status = (st1, outs) ->
  ch_ctab st1 = ch_ctab st /\ ch_auth st1 = ch_auth st /\ ch_servers st1 = ch_servers st.
Proof.
  unfold close_connection. destruct (requeue_all cfg st _ status) as [sta oa] eqn:Ea.
  intros H. inversion H; subst. simpl. eapply requeue_all_frame; eauto.
Qed.

Lemma cookie_validate_frame cfg st q p sv s u st1 outs v :
  cookie_validate cfg st q p sv s u = Ok (st1, outs, v) ->
  ch_ctab st1 = ch_ctab st /\ ch_auth st1 = ch_auth st.
Proof.
  unfold cookie_validate.
  destruct (cookie_decide _ _ _ _ _ _) as [[ck1 d]| |]; simpl; try discriminate.
  destruct d; try solve [intros H; inversion H; subst; auto].
  destruct (requeue_query _ _ _ _ _ _) as [st2 o2] eqn:Er. intros H. inversion H; subst.
  destruct (requeue_query_conns _ _ _ _ _ _ _ _ Er) as [_ [_ [T [_ A]]]]. auto.
Qed.

(* process_answer: a cache entry is either old or announced by an OCacheInsert output *)
Lemma process_answer_cache cfg st cn sv s u d st1 outs :
  process_answer cfg st cn sv s u d = Ok (st1, outs) ->
  ch_auth st1 = ch_auth st /\
  forall k tag, In (k, tag) (ch_ctab st1) -> In (k, tag) (ch_ctab st) \/ In (OCacheInsert tag) outs.
Proof.
  intros H. destruct d as [|mt|p]; simpl in H.
  - inversion H; subst. auto.
  - destruct (cf_udp_garbage_drop cfg && negb (cn_tcp cn)); [inversion H; subst; auto|].
    destruct (close_connection cfg st (cn_id cn) ARES_EBADRESP) as [sta oa] eqn:Ec.
    inversion H; subst. destruct (close_connection_frame _ _ _ _ _ _ Ec) as [T [A _]].
    rewrite T. auto.
  - destruct (cf_fix_qr cfg && negb (p_qr p)); [inversion H; subst; auto|].
    destruct (find_query st (p_id p)) as [q|] eqn:Eq; [|inversion H; subst; auto].
    destruct (negb (same_questions cfg q p)); [inversion H; subst; auto|].
    destruct (cf_fix_conn cfg && _); [inversion H; subst; auto|].
    destruct (cookie_validate cfg st q p sv s u) as [[[sta oa] v]| |] eqn:Ev; simpl in H; try discriminate.
    destruct (cookie_validate_frame _ _ _ _ _ _ _ _ _ _ Ev) as [T A].
    destruct v; [|inversion H; subst; rewrite T; auto].
    destruct (issue_might_be_edns q p).
    { destruct (negb (q_has_opt q)); inversion H; subst; simpl; rewrite T; auto. }
    destruct (p_tc p && negb (cn_tcp cn) && negb (cf_igntc cfg)).
    { inversion H; subst; simpl; rewrite T; auto. }
    destruct (negb (cf_nocheckresp cfg) && _).
    { destruct (requeue_query cfg sta q _ true (Some (p_tag p))) as [stb ob] eqn:Er.
      inversion H; subst. destruct (requeue_query_conns _ _ _ _ _ _ _ _ Er) as [_ [_ [T' [_ A']]]].
      rewrite T', T, A', A. auto. }
    destruct (cache_insert cfg sta q p s) as [stb ob] eqn:Eci.
    inversion H; subst. simpl. unfold cache_insert in Eci.
    destruct (negb (cf_qcache cfg)); [inversion Eci; subst; rewrite T; auto|].
    destruct (negb _); [inversion Eci; subst; rewrite T; auto|].
    destruct (p_tc p); [inversion Eci; subst; rewrite T; auto|].
    destruct (_ =? 0); inversion Eci; subst; [rewrite T; auto|].
    simpl. split; [exact A|]. intros k tag [E|Hin].
    + inversion E; subst. right. now left.
    + apply ctab_remove_incl in Hin. rewrite T in Hin. auto.
Qed.

Definition fixed (cfg : config) : Prop := cf_fix_conn cfg = true /\ cf_fix_qr cfg = true.

(* what one step does to the ghost log *)
Lemma step_auth cfg st e st1 outs :
  step cfg st e = Ok (st1, outs) ->
  forall tag, In tag (ch_auth st1) ->
    In tag (ch_auth st) \/
    exists c src s u p cn sv, e = ERead c src s u (DParsed p) /\ p_tag p = tag /\
      find_conn st c = Some cn /\ find_server st (cn_server cn) = Some sv /\
      existsb (authentic_b cfg cn sv src p) (ch_queries st) = true.
Proof.
  intros H tag Ht.
  destruct e as [tok qd opcode rd cd has_opt nopts nore nocache ids now
                | c srv tcp | qid c ck | qid status | qid status | c | srv ck
                | c src s u d]; simpl in H.
  - destruct (generate_unique_qid _ ids); simpl in H; try discriminate.
    destruct (cf_qcache cfg && negb nocache).
    + destruct (ctab_get _ _); inversion H; subst; simpl in Ht; auto.
    + inversion H; subst; simpl in Ht; auto.
  - destruct (find_conn st c); [discriminate|]. destruct (find_server st srv); [|discriminate].
    inversion H; subst. auto.
  - destruct (find_query st qid); [|discriminate]. destruct (find_conn st c); [|discriminate].
    destruct (_ && _); [|discriminate]. inversion H; subst. auto.
  - destruct (find_query st qid); [|discriminate]. inversion H as [H1].
    destruct (requeue_query_conns _ _ _ _ _ _ _ _ H1) as [_ [_ [_ [_ A]]]]. rewrite A in Ht. auto.
  - destruct (find_query st qid); [|discriminate]. inversion H; subst. auto.
  - destruct (find_conn st c); [|discriminate]. inversion H as [H1].
    destruct (close_connection_frame _ _ _ _ _ _ H1) as [_ [A _]]. rewrite A in Ht. auto.
  - destruct (find_server st srv); [|discriminate]. destruct (_ && _); [|discriminate].
    inversion H; subst. auto.
  - destruct (find_conn st c) as [cn|] eqn:Ec; [|discriminate].
    destruct (find_server st (cn_server cn)) as [sv|] eqn:Es; [|discriminate].
    destruct (negb (cn_tcp cn) && negb (src =? sv_addr sv)); [inversion H; subst; auto|].
    destruct (negb (cf_fix_zerolen cfg) && _ && _); [discriminate|].
    destruct (process_answer cfg st cn sv s u d) as [[sta oa]| |] eqn:Ep; simpl in H; try discriminate.
    inversion H; subst. simpl in Ht. destruct (process_answer_cache _ _ _ _ _ _ _ _ _ Ep) as [A _].
    apply in_app_or in Ht. destruct Ht as [Ht|Ht]; [|rewrite A in Ht; auto].
    destruct d as [|mt|p]; try destruct Ht.
    destruct (existsb (authentic_b cfg cn sv src p) (ch_queries st)) eqn:Ex; [|destruct Ht].
    destruct Ht as [<-|[]]. right. exists c, src, s, u, p, cn, sv. auto.
Qed.

Lemma existsb_authentic cfg cn sv src p q l :
  In q l -> authentic_b cfg cn sv src p q = true -> existsb (authentic_b cfg cn sv src p) l = true.
Proof. intros Hq A. apply existsb_exists. eauto. Qed.

(* one step of the fixed code: data only from authentic packets or from the cache *)
Definition step_source (cfg : config) (st : chan) (e : event) (o : output) (tag : Z) : Prop :=
  (exists c src s u p cn sv q,
      e = ERead c src s u (DParsed p) /\ p_tag p = tag /\
      find_conn st c = Some cn /\ find_server st (cn_server cn) = Some sv /\
      In q (ch_queries st) /\ authentic_b cfg cn sv src p q = true /\
      (forall tok s0 dd, o = OCallback tok s0 dd -> tok = q_tok q)) \/
  (exists tok qd opcode rd cd has_opt nopts nore ids now k,
      e = ENew tok qd opcode rd cd has_opt nopts nore false ids now /\
      o = OCallback tok ARES_SUCCESS (Some tag) /\ In (k, tag) (ch_ctab st)).

Theorem step_delivery cfg st e st1 outs :
  fixed cfg -> inv st -> step cfg st e = Ok (st1, outs) ->
  forall o tag, In o outs -> carries o tag -> step_source cfg st e o tag.
Proof.
  intros [Fc Fq] I H o tag Ho Hc.
  assert (forall l, Forall nodata l -> In o l -> False) as ND.
  { intros l F Hin. rewrite Forall_forall in F. exact (F o Hin tag Hc). }
  destruct e as [tok qd opcode rd cd has_opt nopts nore nocache ids now
                | c srv tcp | qid c ck | qid status | qid status | c | srv ck
                | c src s u d]; simpl in H.
  - destruct (generate_unique_qid _ ids); simpl in H; try discriminate.
    destruct (cf_qcache cfg && negb nocache) eqn:En.
    + destruct (ctab_get _ _) as [t|] eqn:Eg; inversion H; subst; [|destruct Ho].
      destruct Ho as [<-|[]].
      destruct Hc as [[t' [s' E]]|[[srv E]|E]]; try discriminate. inversion E; subst.
      apply ctab_get_in in Eg. destruct Eg as [k Hk]. simpl in Hk.
      apply fold_ctab_remove_incl in Hk.
      apply andb_true_iff in En. destruct En as [_ En]. apply negb_true_iff in En. subst nocache.
      right. exists t', qd, opcode, rd, cd, has_opt, nopts, nore, ids, now, k. auto.
    + inversion H; subst. destruct Ho.
  - destruct (find_conn st c); [discriminate|]. destruct (find_server st srv); [|discriminate].
    inversion H; subst. destruct Ho.
  - destruct (find_query st qid); [|discriminate]. destruct (find_conn st c); [|discriminate].
    destruct (_ && _); [|discriminate]. inversion H; subst. destruct Ho.
  - destruct (find_query st qid); [|discriminate]. inversion H as [H1].
    exfalso. eapply ND; [eapply requeue_query_nodata; eauto|exact Ho].
  - destruct (find_query st qid); [|discriminate]. inversion H; subst.
    destruct Ho as [<-|[]]. exfalso. eapply nodata_callback_none; eauto.
  - destruct (find_conn st c); [|discriminate]. inversion H as [H1].
    exfalso. eapply ND; [eapply close_connection_nodata; eauto|exact Ho].
  - destruct (find_server st srv); [|discriminate]. destruct (_ && _); [|discriminate].
    inversion H; subst. destruct Ho.
  - destruct (find_conn st c) as [cn|] eqn:Ec; [|discriminate].
    destruct (find_server st (cn_server cn)) as [sv|] eqn:Es; [|discriminate].
    destruct (negb (cn_tcp cn) && negb (src =? sv_addr sv)) eqn:Esrc; [inversion H; subst; destruct Ho|].
    destruct (negb (cf_fix_zerolen cfg) && _ && _); [discriminate|].
    destruct (process_answer cfg st cn sv s u d) as [[sta oa]| |] eqn:Ep; simpl in H; try discriminate.
    inversion H; subst.
    assert (cn_tcp cn || (src =? sv_addr sv) = true) as Hsrc.
    { destruct (cn_tcp cn); [reflexivity|]. simpl in *. now apply negb_false_iff in Esrc. }
    pose proof (find_conn_id _ _ _ Ec) as Eid. rewrite <- Eid in Ec.
    destruct (process_answer_sound cfg st cn sv src s u d sta outs Fc Fq (inv_assign _ I) Ec Hsrc Ep
                o tag Ho Hc) as [p [q [-> [Et [Hq [A K]]]]]].
    left. rewrite Eid in Ec. exists c, src, s, u, p, cn, sv, q. repeat split; auto.
Qed.

Theorem step_cache_inv cfg st e st1 outs :
  fixed cfg -> inv st -> cache_inv st -> step cfg st e = Ok (st1, outs) -> cache_inv st1.
Proof.
  intros F I C H k tag Hk.
  destruct e as [tok qd opcode rd cd has_opt nopts nore nocache ids now
                | c srv tcp | qid c ck | qid status | qid status | c | srv ck
                | c src s u d]; simpl in H.
  - destruct (generate_unique_qid _ ids); simpl in H; try discriminate.
    destruct (cf_qcache cfg && negb nocache).
    + destruct (ctab_get _ _); inversion H; subst; simpl in *;
        apply fold_ctab_remove_incl in Hk; eauto.
    + inversion H; subst; simpl in *; eauto.
  - destruct (find_conn st c); [discriminate|]. destruct (find_server st srv); [|discriminate].
    inversion H; subst. simpl in *. eauto.
  - destruct (find_query st qid); [|discriminate]. destruct (find_conn st c); [|discriminate].
    destruct (_ && _); [|discriminate]. inversion H; subst. simpl in *. eauto.
  - destruct (find_query st qid); [|discriminate]. inversion H as [H1].
    destruct (requeue_query_conns _ _ _ _ _ _ _ _ H1) as [_ [_ [T [_ A]]]]. rewrite T in Hk. rewrite A. eauto.
  - destruct (find_query st qid); [|discriminate]. inversion H; subst. simpl in *. eauto.
  - destruct (find_conn st c); [|discriminate]. inversion H as [H1].
    destruct (close_connection_frame _ _ _ _ _ _ H1) as [T [A _]]. rewrite T in Hk. rewrite A. eauto.
  - destruct (find_server st srv); [|discriminate]. destruct (_ && _); [|discriminate].
    inversion H; subst. simpl in *. eauto.
  - assert (step cfg st (ERead c src s u d) = Ok (st1, outs)) as Hs by exact H.
    destruct (find_conn st c) as [cn|] eqn:Ec; [|discriminate].
    destruct (find_server st (cn_server cn)) as [sv|] eqn:Es; [|discriminate].
    destruct (negb (cn_tcp cn) && negb (src =? sv_addr sv)) eqn:Esrc; [inversion H; subst; eauto|].
    destruct (negb (cf_fix_zerolen cfg) && _ && _); [discriminate|].
    destruct (process_answer cfg st cn sv s u d) as [[sta oa]| |] eqn:Ep; simpl in H; try discriminate.
    inversion H; subst. simpl in Hk. simpl.
    destruct (process_answer_cache _ _ _ _ _ _ _ _ _ Ep) as [A Hc].
    apply in_or_app. destruct (Hc _ _ Hk) as [Hold|Hnew].
    + right. rewrite A. eauto.
    + left.
      assert (carries (OCacheInsert tag) tag) as Car by (right; right; reflexivity).
      destruct (step_delivery cfg st (ERead c src s u d) _ _ F I Hs _ _ Hnew Car) as [S|S].
      * destruct S as [c0 [src0 [s0 [u0 [p [cn0 [sv0 [q [E [Et [Ec0 [Es0 [Hq [Au _]]]]]]]]]]]]]].
        inversion E; subst. rewrite Ec in Ec0. inversion Ec0; subst. rewrite Es in Es0. inversion Es0; subst.
        rewrite (existsb_authentic _ _ _ _ _ _ _ Hq Au). now left.
      * destruct S as [tok [qd [opc [rd [cd [ho [no [nr [ids [nw [k' [E _]]]]]]]]]]]]. discriminate.
Qed.

(* ------------------------------------------------------------------------------------- *)
(* Runs                                                                                   *)
(* ------------------------------------------------------------------------------------- *)
Definition good (st : chan) : Prop := inv st /\ cache_inv st.

Lemma init_good servers : server_inv servers -> good (init_chan servers).
Proof.
  intros S. split.
  - constructor; simpl; [constructor|constructor|exact S].
  - intros k tag H. destruct H.
Qed.

Lemma step_good cfg st e st1 outs : fixed cfg -> good st -> step cfg st e = Ok (st1, outs) -> good st1.
Proof.
  intros F [I C] H. split; [eapply step_inv; eauto|eapply step_cache_inv; eauto].
Qed.

(* every element of a trace is a step of the model from a good state, and the states before it
   form a run of their own *)
Lemma run_trace_elems cfg : forall evs st tr stn,
  fixed cfg -> good st -> run_trace cfg st evs = Ok (tr, stn) ->
  good stn /\
  forall tr1 x tr2, tr = tr1 ++ x :: tr2 ->
    good (fst (fst x)) /\
    (exists st', step cfg (fst (fst x)) (snd (fst x)) = Ok (st', snd x)) /\
    exists evs1, run_trace cfg st evs1 = Ok (tr1, fst (fst x)).
Proof.
  induction evs as [|e r IH]; simpl; intros st tr stn F G H.
  - inversion H; subst. split; [exact G|]. intros tr1 x tr2 E. destruct tr1; discriminate.
  - destruct (step cfg st e) as [[st1 outs]| |] eqn:Es; simpl in H; try discriminate.
    destruct (run_trace cfg st1 r) as [[tr' stn']| |] eqn:Er; simpl in H; try discriminate.
    inversion H; subst.
    pose proof (step_good _ _ _ _ _ F G Es) as G1.
    destruct (IH _ _ _ F G1 Er) as [Gn Hel]. split; [exact Gn|].
    intros tr1 x tr2 E. destruct tr1 as [|y tr1]; simpl in E; inversion E; subst.
    + simpl. split; [exact G|]. split; [eauto|]. exists []. reflexivity.
    + destruct (Hel _ _ _ eq_refl) as [Gx [Sx [evs1 R1]]].
      split; [exact Gx|]. split; [exact Sx|].
      exists (e :: evs1). simpl. rewrite Es. simpl. rewrite R1. reflexivity.
Qed.

(* the ghost log of the final state only holds tags of authentic reads of this run *)
Definition authentic_read (cfg : config) (x : chan * event * list output) (tag : Z) : Prop :=
  exists c src s u p cn sv,
    snd (fst x) = ERead c src s u (DParsed p) /\ p_tag p = tag /\
    find_conn (fst (fst x)) c = Some cn /\ find_server (fst (fst x)) (cn_server cn) = Some sv /\
    existsb (authentic_b cfg cn sv src p) (ch_queries (fst (fst x))) = true.

Lemma run_trace_auth cfg : forall evs st tr stn,
  run_trace cfg st evs = Ok (tr, stn) ->
  forall tag, In tag (ch_auth stn) -> In tag (ch_auth st) \/ exists x, In x tr /\ authentic_read cfg x tag.
Proof.
  induction evs as [|e r IH]; simpl; intros st tr stn H tag Ht.
  - inversion H; subst. auto.
  - destruct (step cfg st e) as [[st1 outs]| |] eqn:Es; simpl in H; try discriminate.
    destruct (run_trace cfg st1 r) as [[tr' stn']| |] eqn:Er; simpl in H; try discriminate.
    inversion H; subst.
    destruct (IH _ _ _ Er _ Ht) as [Hin|[x [Hx A]]].
    + destruct (step_auth _ _ _ _ _ Es _ Hin) as [Hold|Hnew]; [auto|].
      right. exists (st, e, outs). split; [now left|].
      destruct Hnew as [c [src [s [u [p [cn [sv [E1 [E2 [E3 [E4 E5]]]]]]]]]]].
      exists c, src, s, u, p, cn, sv. simpl. auto.
    + right. exists x. split; [now right|exact A].
Qed.

Lemma existsb_false_forall {A} (f : A -> bool) l : (forall x, In x l -> f x = false) -> existsb f l = false.
Proof.
  induction l as [|x l IH]; simpl; intros H; [reflexivity|].
  rewrite (H x (or_introl eq_refl)). simpl. apply IH. intros y Hy. apply H. now right.
Qed.

(* ------------------------------------------------------------------------------------- *)
(* No undefined behaviour                                                                 *)
(* ------------------------------------------------------------------------------------- *)
Lemma memcmp8_eq_defined a b :
  8 <= zlen a -> 8 <= zlen b -> exists r, memcmp8_eq a b = Ok r.
Proof.
  intros A B. unfold memcmp8_eq.
  assert ((8 <=? zlen a) && (8 <=? zlen b) = true) as E.
  { apply andb_true_iff. split; apply Z.leb_le; assumption. }
  rewrite E. simpl. eauto.
Qed.

Lemma cookie_decide_defined ck reqc resp rcode s u :
  cookie_len_ok reqc = true -> zlen (ck_client ck) = 8 ->
  exists r, cookie_decide ck reqc resp rcode s u = Ok r.
Proof.
  intros Lq Lc. unfold cookie_decide.
  destruct resp as [pc|].
  - destruct ((zlen pc <? 8) || (40 <? zlen pc)) eqn:El; [eauto|].
    apply orb_false_iff in El. destruct El as [L1 _]. apply Z.ltb_ge in L1.
    destruct reqc as [rc|]; [|eauto].
    simpl in Lq. apply andb_true_iff in Lq. destruct Lq as [Lq _]. apply Z.leb_le in Lq.
    destruct (memcmp8_eq_defined rc pc Lq L1) as [e Ee]. rewrite Ee. simpl.
    destruct (negb e); [eauto|].
    destruct (8 <? zlen pc).
    + destruct (memcmp8_eq_defined (ck_client ck) rc ltac:(lia) Lq) as [e2 Ee2].
      rewrite Ee2. simpl. destruct (rcode =? ARES_RCODE_BADCOOKIE); eauto.
    + simpl. destruct (rcode =? ARES_RCODE_BADCOOKIE); [eauto|].
      destruct (_ =? C05_COOKIE_SUPPORTED).
      * destruct (c_timeval_is_set_ok (ck_uts_sec ck) (ck_uts_usec ck)) as [r Er]. rewrite Er. simpl. eauto.
      * destruct (_ =? C05_COOKIE_GENERATED); eauto.
  - simpl. destruct reqc; [|eauto]. simpl.
    destruct (rcode =? ARES_RCODE_BADCOOKIE); [eauto|].
    destruct (_ =? C05_COOKIE_SUPPORTED).
    + destruct (c_timeval_is_set_ok (ck_uts_sec ck) (ck_uts_usec ck)) as [r Er]. rewrite Er. simpl. eauto.
    + destruct (_ =? C05_COOKIE_GENERATED); eauto.
Qed.

Lemma cookie_validate_defined cfg st q p sv s u :
  cookie_len_ok (q_cookie q) = true -> zlen (ck_client (sv_cookie sv)) = 8 ->
  exists r, cookie_validate cfg st q p sv s u = Ok r.
Proof.
  intros Lq Lc. unfold cookie_validate.
  destruct (cookie_decide_defined (sv_cookie sv) (q_cookie q) (p_cookie p) (p_rcode p) s u Lq Lc) as [[ck1 d] Ed].
  rewrite Ed. simpl. destruct d; eauto. destruct (requeue_query _ _ _ _ _ _). eauto.
Qed.

Lemma process_answer_defined cfg st cn sv s u d :
  inv st -> In sv (ch_servers st) -> exists r, process_answer cfg st cn sv s u d = Ok r.
Proof.
  intros I Hsv. destruct d as [|mt|p]; simpl; [eauto| |].
  - destruct (cf_udp_garbage_drop cfg && negb (cn_tcp cn)); [eauto|].
    destruct (close_connection cfg st (cn_id cn) ARES_EBADRESP). eauto.
  - destruct (cf_fix_qr cfg && negb (p_qr p)); [eauto|].
    destruct (find_query st (p_id p)) as [q|] eqn:Eq; [|eauto].
    destruct (find_query_some _ _ _ Eq) as [Hq _].
    destruct (negb (same_questions cfg q p)); [eauto|].
    destruct (cf_fix_conn cfg && _); [eauto|].
    destruct (cookie_validate_defined cfg st q p sv s u) as [[[sta oa] v] Ev].
    { apply (wfq_of_inv _ _ I Hq). } { apply (inv_server _ I _ Hsv). }
    rewrite Ev. simpl. destruct v; [|eauto].
    destruct (issue_might_be_edns q p); [destruct (negb (q_has_opt q)); eauto|].
    destruct (p_tc p && _ && _); [eauto|].
    destruct (negb (cf_nocheckresp cfg) && _); [destruct (requeue_query _ _ _ _ _ _); eauto|].
    destruct (cache_insert cfg sta q p s). eauto.
Qed.

Theorem step_no_ub cfg st e : cf_fix_zerolen cfg = true -> inv st -> is_ub (step cfg st e) = false.
Proof.
  intros Fz I.
  destruct e as [tok qd opcode rd cd has_opt nopts nore nocache ids now
                | c srv tcp | qid c ck | qid status | qid status | c | srv ck
                | c src s u d]; simpl.
  - pose proof (generate_unique_qid_not_ub (map q_qid (ch_queries st)) ids) as G.
    destruct (generate_unique_qid _ ids); simpl in *; try reflexivity; try discriminate.
    destruct (if cf_qcache cfg && negb nocache then _ else None); reflexivity.
  - destruct (find_conn st c); [reflexivity|]. destruct (find_server st srv); reflexivity.
  - destruct (find_query st qid); [|reflexivity]. destruct (find_conn st c); [|reflexivity].
    destruct (_ && _); reflexivity.
  - destruct (find_query st qid); reflexivity.
  - destruct (find_query st qid); reflexivity.
  - destruct (find_conn st c); reflexivity.
  - destruct (find_server st srv); [|reflexivity]. destruct (_ && _); reflexivity.
  - destruct (find_conn st c) as [cn|]; [|reflexivity].
    destruct (find_server st (cn_server cn)) as [sv|] eqn:Es; [|reflexivity].
    destruct (negb (cn_tcp cn) && negb (src =? sv_addr sv)); [reflexivity|].
    rewrite Fz. simpl.
    destruct (process_answer_defined cfg st cn sv s u d I (find_server_in _ _ _ Es)) as [[sta oa] Ep].
    rewrite Ep. reflexivity.
Qed.

Theorem run_no_ub cfg : forall evs st,
  fixed cfg -> cf_fix_zerolen cfg = true -> good st -> is_ub (run_trace cfg st evs) = false.
Proof.
  induction evs as [|e r IH]; simpl; intros st F Fz G; [reflexivity|].
  pose proof (step_no_ub cfg st e Fz (proj1 G)) as U.
  destruct (step cfg st e) as [[st1 outs]| |] eqn:Es; simpl in *; try reflexivity; try discriminate.
  pose proof (IH st1 F Fz (step_good _ _ _ _ _ F G Es)) as U1.
  destruct (run_trace cfg st1 r) as [[tr stn]| |]; simpl in *; try reflexivity; discriminate.
Qed.

(* ------------------------------------------------------------------------------------- *)
(* A packet that is not authentic for any live query is inert                             *)
(* ------------------------------------------------------------------------------------- *)
Theorem forgery_inert cfg st c src s u p cn sv :
  fixed cfg -> inv st ->
  find_conn st c = Some cn -> find_server st (cn_server cn) = Some sv ->
  (forall q, In q (ch_queries st) -> authentic_b cfg cn sv src p q = false) ->
  exists st1, step cfg st (ERead c src s u (DParsed p)) = Ok (st1, []) /\ same_but_cookies st1 st.
Proof.
  intros [Fc Fq] I Ec Es Hna. simpl. rewrite Ec, Es.
  destruct (negb (cn_tcp cn) && negb (src =? sv_addr sv)) eqn:Esrc.
  { eexists. split; [reflexivity|apply same_but_cookies_refl]. }
  rewrite !andb_false_r. rewrite (existsb_false_forall _ _ Hna). simpl.
  assert (cn_tcp cn || (src =? sv_addr sv) = true) as Hsrc.
  { destruct (cn_tcp cn); [reflexivity|]. simpl in *. now apply negb_false_iff in Esrc. }
  assert (forall stx, same_but_cookies stx st -> same_but_cookies (set_auth stx (ch_auth stx)) st) as SA.
  { intros stx H. exact H. }
  rewrite Fq. simpl.
  destruct (p_qr p) eqn:Eqr; simpl.
  2:{ eexists. split; [reflexivity|]. apply SA, same_but_cookies_refl. }
  destruct (find_query st (p_id p)) as [q|] eqn:Eq; simpl.
  2:{ eexists. split; [reflexivity|]. apply SA, same_but_cookies_refl. }
  destruct (find_query_some _ _ _ Eq) as [Hq Hid].
  destruct (same_questions cfg q p) eqn:Esq; simpl.
  2:{ eexists. split; [reflexivity|]. apply SA, same_but_cookies_refl. }
  rewrite Fc. simpl.
  destruct (opt_z_eqb (q_conn q) (Some (cn_id cn))) eqn:Econn; simpl.
  2:{ eexists. split; [reflexivity|]. apply SA, same_but_cookies_refl. }
  (* every conjunct but the cookie one holds, so the cookie check is what fails *)
  assert (cookie_ok (sv_cookie sv) q p = false) as Hck.
  { pose proof (Hna q Hq) as A. unfold authentic_b in A.
    rewrite Econn, Hsrc, Eqr in A. simpl in A. rewrite Hid, Z.eqb_refl in A. simpl in A.
    assert (questions_match cfg cn q p = true) as Qm.
    { unfold questions_match. rewrite same_questions_spec in Esq.
      pose proof Econn as Econn'. apply opt_z_eqb_true in Econn'.
      destruct (inv_assign _ I _ _ Hq Econn') as [cn' [F T]].
      rewrite (find_conn_id _ _ _ Ec) in F. rewrite Ec in F. inversion F; subst cn'.
      now rewrite T. }
    rewrite Qm in A. simpl in A. exact A. }
  destruct (cookie_validate_defined cfg st q p sv s u) as [r Ev].
  { apply (wfq_of_inv _ _ I Hq). } { apply (inv_server _ I _ (find_server_in _ _ _ Es)). }
  destruct (cookie_validate_inert _ _ _ _ _ _ _ _ Hck Ev) as [st1 [-> Sb]].
  rewrite Ev. simpl. eexists. split; [reflexivity|]. apply SA. exact Sb.
Qed.

(* a UDP datagram from a foreign address is thrown away whatever it contains *)
Theorem foreign_source_inert cfg st c src s u d cn sv :
  find_conn st c = Some cn -> find_server st (cn_server cn) = Some sv ->
  cn_tcp cn = false -> src <> sv_addr sv ->
  step cfg st (ERead c src s u d) = Ok (st, []).
Proof.
  intros Ec Es Et Hs. simpl. rewrite Ec, Es, Et. simpl.
  apply Z.eqb_neq in Hs. rewrite Hs. reflexivity.
Qed.

(* a malformed datagram that passes the address test supplies no data either (it closes the
   connection: the documented exception to inertness) *)
Theorem malformed_no_data cfg st c src s u tag st1 outs :
  step cfg st (ERead c src s u (DMalformed tag)) = Ok (st1, outs) -> Forall nodata outs.
Proof.
  simpl. destruct (find_conn st c) as [cn|]; [|discriminate].
  destruct (find_server st (cn_server cn)) as [sv|]; [|discriminate].
  destruct (negb (cn_tcp cn) && negb (src =? sv_addr sv)). { intros H. inversion H. constructor. }
  rewrite andb_false_r. simpl.
  destruct (cf_udp_garbage_drop cfg && negb (cn_tcp cn)). { intros H. inversion H. constructor. }
  destruct (close_connection cfg st (cn_id cn) ARES_EBADRESP) as [sta oa] eqn:Ecl. simpl.
  intros H. inversion H; subst.
  constructor; [apply nodata_fail|]. constructor; [apply nodata_connerr|].
  eapply close_connection_nodata; eauto.
Qed.

(* ------------------------------------------------------------------------------------- *)
(* The main statements over runs                                                          *)
(* ------------------------------------------------------------------------------------- *)
Theorem delivery_authentic cfg servers evs tr stn :
  fixed cfg -> server_inv servers ->
  run_trace cfg (init_chan servers) evs = Ok (tr, stn) ->
  forall tr1 st e outs tr2, tr = tr1 ++ (st, e, outs) :: tr2 ->
  forall o tag, In o outs -> carries o tag ->
    (* the packet being processed, authentic for a live query at this instant ... *)
    (exists c src s u p cn sv q,
        e = ERead c src s u (DParsed p) /\ p_tag p = tag /\
        find_conn st c = Some cn /\ find_server st (cn_server cn) = Some sv /\
        In q (ch_queries st) /\ authentic_b cfg cn sv src p q = true /\
        (forall tok s0 dd, o = OCallback tok s0 dd -> tok = q_tok q)) \/
    (* ... or a cache hit, whose record was put there by an EARLIER authentic packet *)
    (exists tok qd opcode rd cd has_opt nopts nore ids now,
        e = ENew tok qd opcode rd cd has_opt nopts nore false ids now /\
        o = OCallback tok ARES_SUCCESS (Some tag) /\
        exists x, In x tr1 /\ authentic_read cfg x tag).
Proof.
  intros F S R tr1 st e outs tr2 E o tag Ho Hc.
  destruct (run_trace_elems cfg _ _ _ _ F (init_good _ S) R) as [_ Hel].
  destruct (Hel _ _ _ E) as [[I C] [[st' Hs] [evs1 R1]]]. simpl in *.
  destruct (step_delivery _ _ _ _ _ F I Hs _ _ Ho Hc) as [L|Rr]; [left; exact L|right].
  destruct Rr as [tok [qd [opc [rd [cd [ho [no [nr [ids [nw [k [E1 [E2 Hk]]]]]]]]]]]]].
  exists tok, qd, opc, rd, cd, ho, no, nr, ids, nw. split; [exact E1|]. split; [exact E2|].
  pose proof (C _ _ Hk) as Ha.
  destruct (run_trace_auth _ _ _ _ _ R1 _ Ha) as [Hinit|Hx]; [destruct Hinit|exact Hx].
Qed.

(* holds for every variant of the code, fixed or not *)
Lemma run_trace_inv cfg : forall evs st tr stn,
  inv st -> run_trace cfg st evs = Ok (tr, stn) ->
  inv stn /\ forall x, In x tr -> inv (fst (fst x)).
Proof.
  induction evs as [|e r IH]; simpl; intros st tr stn I H.
  - inversion H; subst. split; [exact I|]. intros x [].
  - destruct (step cfg st e) as [[st1 outs]| |] eqn:Es; simpl in H; try discriminate.
    destruct (run_trace cfg st1 r) as [[tr' stn']| |] eqn:Er; simpl in H; try discriminate.
    inversion H; subst.
    destruct (IH _ _ _ (step_inv _ _ _ _ _ I Es) Er) as [In' Hx]. split; [exact In'|].
    intros x [<-|Hin]; [exact I|now apply Hx].
Qed.

Theorem qid_unique cfg servers evs tr stn :
  server_inv servers ->
  run_trace cfg (init_chan servers) evs = Ok (tr, stn) ->
  NoDup (qids stn) /\ forall x, In x tr -> NoDup (qids (fst (fst x))).
Proof.
  intros S R. destruct (run_trace_inv cfg _ _ _ _ (proj1 (init_good _ S)) R) as [I Hx].
  split; [apply I|]. intros x Hin. apply (Hx x Hin).
Qed.

(* ------------------------------------------------------------------------------------- *)
(* The pinned tree: witnesses (faithful model without the respective check)               *)
(* ------------------------------------------------------------------------------------- *)
Definition w_ck0 : cookie := mkCk C05_COOKIE_INITIAL (repeat 0 8) [] 0 0.
Definition w_servers : list server := [mkSrv 0 100 w_ck0; mkSrv 1 101 w_ck0].
Definition w_qd : list question := [mkQn [119; 119; 119] 1 1].
Definition w_pkt (qr : bool) : packet := mkPkt 1 7 qr 0 false 0 w_qd false None 300.

(* query 7 is sent to server 0 (connection 10), times out, is re-sent to server 1 (connection
   11); then server 0's late reply arrives on connection 10 *)
Definition w_late : list event :=
  [EOpenConn 10 0 false; EOpenConn 11 1 false;
   ENew 1 w_qd 0 true false false 0 false false [7] 1000;
   EAssign 7 10 None; ERequeue 7 ARES_ETIMEOUT; EAssign 7 11 None;
   ERead 10 100 1001 0 (DParsed (w_pkt true))].

(* a datagram with QR clear that echoes id and question *)
Definition w_echo : list event :=
  [EOpenConn 10 0 false;
   ENew 1 w_qd 0 true false false 0 false false [7] 1000;
   EAssign 7 10 None;
   ERead 10 100 1000 0 (DParsed (w_pkt false))].

Definition w_empty : list event := [EOpenConn 10 0 false; ERead 10 100 1000 0 DEmpty].

Definition w_cfg (fc fq fz : bool) : config := mkCfg false false false false 4 true 3600 fc fq fz false.
Definition w_cfg_drop : config := mkCfg false false false false 4 true 3600 true true true true.

(* what the last event of a run emitted, and the state it was applied to *)
Definition last_step (cfg : config) (evs : list event) : option (chan * event * list output) :=
  match run_trace cfg (init_chan w_servers) evs with
  | Ok (tr, _) => last (map Some tr) None
  | _ => None
  end.

Definition delivers_unauthentic (cfg : config) (evs : list event) : bool :=
  match last_step cfg evs with
  | Some (st, ERead c src _ _ (DParsed p), outs) =>
      existsb (fun o => match o with OCallback _ _ (Some _) => true | _ => false end) outs &&
      negb (match authentic_for cfg st c src p with Some _ => true | None => false end)
  | _ => false
  end.

Lemma late_reply_refutes_without_conn_check : delivers_unauthentic (w_cfg false true true) w_late = true.
Proof. vm_compute. reflexivity. Qed.
Lemma late_reply_dropped_with_conn_check : delivers_unauthentic (w_cfg true true true) w_late = false.
Proof. vm_compute. reflexivity. Qed.
Lemma echo_refutes_without_qr_check : delivers_unauthentic (w_cfg true false true) w_echo = true.
Proof. vm_compute. reflexivity. Qed.
Lemma echo_dropped_with_qr_check : delivers_unauthentic (w_cfg true true true) w_echo = false.
Proof. vm_compute. reflexivity. Qed.
Lemma empty_datagram_ub_without_fix : is_ub (run_trace (w_cfg true true false) (init_chan w_servers) w_empty) = true.
Proof. vm_compute. reflexivity. Qed.

(* the hypotheses of the theorems are satisfiable by a non-trivial run: the genuine answer of
   server 1 is delivered and cached, and the next identical request is served from the cache *)
Definition w_genuine : list event :=
  [EOpenConn 10 0 false; EOpenConn 11 1 false;
   ENew 1 w_qd 0 true false false 0 false false [7] 1000;
   EAssign 7 10 None; ERequeue 7 ARES_ETIMEOUT; EAssign 7 11 None;
   ERead 11 101 1001 0 (DParsed (w_pkt true));
   ENew 2 w_qd 0 true false false 0 false false [7] 1002].

Lemma genuine_run_delivers_and_caches :
  match run_trace (w_cfg true true true) (init_chan w_servers) w_genuine with
  | Ok (tr, st) =>
      map (fun x => snd x) (skipn 6 tr) =
      [[OCacheInsert 1; OServerGood 1 1; OCallback 1 ARES_SUCCESS (Some 1)];
       [OCallback 2 ARES_SUCCESS (Some 1)]] /\ ch_queries st = [] /\ ch_auth st = [1]
  | _ => False
  end.
Proof. vm_compute. repeat split. Qed.

Lemma w_servers_inv : server_inv w_servers.
Proof. intros sv [<-|[<-|[]]]; reflexivity. Qed.

Lemma last_some_in {A} (l : list A) x : last (map Some l) None = Some x -> In x l.
Proof.
  induction l as [|y l IH]; simpl; [discriminate|].
  destruct l as [|z l]; simpl in *.
  - intros H. inversion H. now left.
  - intros H. right. apply IH. exact H.
Qed.

Lemma delivers_unauthentic_spec cfg evs :
  delivers_unauthentic cfg evs = true ->
  exists tr stn st c src s u p outs tok status tag,
    run_trace cfg (init_chan w_servers) evs = Ok (tr, stn) /\
    In (st, ERead c src s u (DParsed p), outs) tr /\
    In (OCallback tok status (Some tag)) outs /\
    authentic_for cfg st c src p = None.
Proof.
  unfold delivers_unauthentic, last_step.
  destruct (run_trace cfg (init_chan w_servers) evs) as [[tr stn]| |] eqn:R; try discriminate.
  destruct (last (map Some tr) None) as [[[st e] outs]|] eqn:L; [|discriminate].
  apply last_some_in in L.
  destruct e; try discriminate. destruct d as [| |p]; try discriminate.
  intros H. apply andb_true_iff in H. destruct H as [H1 H2].
  apply existsb_exists in H1. destruct H1 as [o [Ho Eo]].
  destruct o as [tok status [tag|]| | | |]; try discriminate.
  destruct (authentic_for cfg st c src p) eqn:A; [discriminate|].
  exists tr, stn, st, c, src, now_sec, now_usec, p, outs, tok, status, tag. auto.
Qed.

(* ------------------------------------------------------------------------------------- *)
(* The accept path never assigns: within a batch of datagrams read together, a query that  *)
(* is on a connection when a packet is processed was on it when the batch was read          *)
(* ------------------------------------------------------------------------------------- *)
Definition only_unassigns (st st1 : chan) : Prop :=
  forall q c, In q (ch_queries st1) -> q_conn q = Some c -> In q (ch_queries st).

Lemma only_unassigns_refl st : only_unassigns st st.
Proof. intros q c H _. exact H. Qed.

Lemma only_unassigns_trans a b c : only_unassigns a b -> only_unassigns b c -> only_unassigns a c.
Proof. intros H1 H2 q k Hq Hk. eapply H1; eauto. Qed.

Lemma only_unassigns_same_queries st st1 : ch_queries st1 = ch_queries st -> only_unassigns st st1.
Proof. intros E q c H _. now rewrite <- E. Qed.

Lemma only_unassigns_update st q : q_conn q = None -> only_unassigns st (update_query st q).
Proof.
  intros Hn x c Hx Hc. simpl in Hx. apply in_replace_query in Hx.
  destruct Hx as [->|Hx]; [congruence|exact Hx].
Qed.

Lemma only_unassigns_drop st id : only_unassigns st (drop_query st id).
Proof. intros x c Hx _. simpl in Hx. apply remove_query_incl in Hx. tauto. Qed.

Lemma requeue_query_only_unassigns cfg st q status inc data st1 outs :
  requeue_query cfg st q status inc data = (st1, outs) -> only_unassigns st st1.
Proof.
  unfold requeue_query. intros H. destruct (_ && _) in H; inversion H; subst.
  - apply only_unassigns_update. destruct inc; destruct (negb (status =? ARES_SUCCESS)); reflexivity.
  - apply only_unassigns_drop.
Qed.

Lemma requeue_all_only_unassigns cfg qs : forall st status st1 outs,
  requeue_all cfg st qs status = (st1, outs) -> only_unassigns st st1.
Proof.
  induction qs as [|q r IH]; simpl; intros st status st1 outs H.
  - inversion H; subst. apply only_unassigns_refl.
  - destruct (requeue_query cfg st q status true None) as [sta oa] eqn:Ea.
    destruct (requeue_all cfg sta r status) as [stb ob] eqn:Eb.
    inversion H; subst. eapply only_unassigns_trans.
    + eapply requeue_query_only_unassigns; eauto.
    + eapply IH; eauto.
Qed.

Lemma cookie_validate_only_unassigns cfg st q p sv s u st1 outs v :
  cookie_validate cfg st q p sv s u = Ok (st1, outs, v) -> only_unassigns st st1.
Proof.
  unfold cookie_validate.
  destruct (cookie_decide _ _ _ _ _ _) as [[ck1 d]| |]; simpl; try discriminate.
  destruct d; try (intros H; inversion H; subst; now apply only_unassigns_same_queries).
  destruct (requeue_query _ _ _ _ _ _) as [st2 o2] eqn:Er. intros H. inversion H; subst.
  eapply only_unassigns_trans; [|eapply requeue_query_only_unassigns; eauto].
  now apply only_unassigns_same_queries.
Qed.

Theorem process_answer_only_unassigns cfg st cn sv s u d st1 outs :
  process_answer cfg st cn sv s u d = Ok (st1, outs) -> only_unassigns st st1.
Proof.
  intros H. destruct d as [|mt|p]; simpl in H.
  - inversion H; subst. apply only_unassigns_refl.
  - destruct (cf_udp_garbage_drop cfg && negb (cn_tcp cn)); [inversion H; subst; apply only_unassigns_refl|].
    unfold close_connection in H.
    destruct (requeue_all cfg st _ ARES_EBADRESP) as [sta oa] eqn:Ea. inversion H; subst.
    eapply only_unassigns_trans; [eapply requeue_all_only_unassigns; eauto|].
    now apply only_unassigns_same_queries.
  - destruct (cf_fix_qr cfg && negb (p_qr p)); [inversion H; subst; apply only_unassigns_refl|].
    destruct (find_query st (p_id p)) as [q|]; [|inversion H; subst; apply only_unassigns_refl].
    destruct (negb (same_questions cfg q p)); [inversion H; subst; apply only_unassigns_refl|].
    destruct (cf_fix_conn cfg && _); [inversion H; subst; apply only_unassigns_refl|].
    destruct (cookie_validate cfg st q p sv s u) as [[[sta oa] v]| |] eqn:Ev; simpl in H; try discriminate.
    pose proof (cookie_validate_only_unassigns _ _ _ _ _ _ _ _ _ _ Ev) as U.
    destruct v; [|inversion H; subst; exact U].
    eapply only_unassigns_trans; [exact U|].
    destruct (issue_might_be_edns q p).
    { destruct (negb (q_has_opt q)); inversion H; subst;
        [apply only_unassigns_drop|now apply only_unassigns_update]. }
    destruct (p_tc p && negb (cn_tcp cn) && negb (cf_igntc cfg)).
    { inversion H; subst. now apply only_unassigns_update. }
    destruct (negb (cf_nocheckresp cfg) && _).
    { destruct (requeue_query cfg sta q _ true (Some (p_tag p))) as [stb ob] eqn:Er.
      inversion H; subst. eapply requeue_query_only_unassigns; eauto. }
    destruct (cache_insert cfg sta q p s) as [stb ob] eqn:Eci.
    inversion H; subst. eapply only_unassigns_trans; [|apply only_unassigns_drop].
    apply only_unassigns_same_queries. unfold cache_insert in Eci.
    destruct (negb (cf_qcache cfg)); [inversion Eci; reflexivity|].
    destruct (negb _); [inversion Eci; reflexivity|].
    destruct (p_tc p); [inversion Eci; reflexivity|].
    destruct (_ =? 0); inversion Eci; reflexivity.
Qed.

(* ------------------------------------------------------------------------------------- *)
(* Statements of Properties_C05.v that need a line of glue                                *)
(* ------------------------------------------------------------------------------------- *)
Lemma free_id_exists_stmt : forall live : list Z,
  (length live < 65536)%nat -> exists id, 0 <= id < 65536 /\ ~ In id live.
Proof. intros live H. exact (free_id_exists live 65536 H). Qed.

Lemma run_no_ub_stmt : forall cfg evs servers,
  fixed cfg -> cf_fix_zerolen cfg = true -> server_inv servers ->
  is_ub (run_trace cfg (init_chan servers) evs) = false.
Proof. intros cfg evs servers F Z S. exact (run_no_ub cfg evs _ F Z (init_good _ S)). Qed.

Lemma delivery_authentic_refuted_without_conn_guard_stmt :
  exists cfg evs tr stn st c src s u p outs tok status tag,
    cf_fix_conn cfg = false /\ cf_fix_qr cfg = true /\
    run_trace cfg (init_chan w_servers) evs = Ok (tr, stn) /\
    In (st, ERead c src s u (DParsed p), outs) tr /\
    In (OCallback tok status (Some tag)) outs /\
    authentic_for cfg st c src p = None.
Proof.
  destruct (delivers_unauthentic_spec _ _ late_reply_refutes_without_conn_check)
    as [tr [stn [st [c [src [s [u [p [outs [tok [status [tag H]]]]]]]]]]]].
  exists (w_cfg false true true), w_late, tr, stn, st, c, src, s, u, p, outs, tok, status, tag.
  split; [reflexivity|]. split; [reflexivity|]. exact H.
Qed.

Lemma delivery_authentic_refuted_without_qr_test_stmt :
  exists cfg evs tr stn st c src s u p outs tok status tag,
    cf_fix_conn cfg = true /\ cf_fix_qr cfg = false /\
    run_trace cfg (init_chan w_servers) evs = Ok (tr, stn) /\
    In (st, ERead c src s u (DParsed p), outs) tr /\
    In (OCallback tok status (Some tag)) outs /\
    authentic_for cfg st c src p = None.
Proof.
  destruct (delivers_unauthentic_spec _ _ echo_refutes_without_qr_check)
    as [tr [stn [st [c [src [s [u [p [outs [tok [status [tag H]]]]]]]]]]]].
  exists (w_cfg true false true), w_echo, tr, stn, st, c, src, s, u, p, outs, tok, status, tag.
  split; [reflexivity|]. split; [reflexivity|]. exact H.
Qed.

Lemma run_no_ub_refuted_without_zerolen_fix_stmt :
  exists cfg evs, fixed cfg /\ cf_fix_zerolen cfg = false /\
                  is_ub (run_trace cfg (init_chan w_servers) evs) = true.
Proof.
  exists (w_cfg true true false), w_empty. split; [split; reflexivity|]. split; [reflexivity|].
  exact empty_datagram_ub_without_fix.
Qed.

Lemma example_genuine_run_stmt :
  server_inv w_servers /\ fixed (w_cfg true true true) /\
  match run_trace (w_cfg true true true) (init_chan w_servers) w_genuine with
  | Ok (tr, st) =>
      map (fun x => snd x) (skipn 6 tr) =
      [[OCacheInsert 1; OServerGood 1 1; OCallback 1 ARES_SUCCESS (Some 1)];
       [OCallback 2 ARES_SUCCESS (Some 1)]] /\ ch_queries st = [] /\ ch_auth st = [1]
  | _ => False
  end.
Proof. split; [exact w_servers_inv|]. split; [split; reflexivity|]. exact genuine_run_delivers_and_caches. Qed.

Lemma example_forged_packets_dropped_stmt :
  delivers_unauthentic (w_cfg true true true) w_late = false /\
  delivers_unauthentic (w_cfg true true true) w_echo = false.
Proof. split; [exact late_reply_dropped_with_conn_check|exact echo_dropped_with_qr_check]. Qed.

(* the exception to inertness: a datagram that does not parse, arriving from the server's
   address, closes the connection and costs every query on it one try *)
Definition w_malformed : list event :=
  [EOpenConn 10 0 false;
   ENew 1 w_qd 0 true false false 0 false false [7] 1000;
   EAssign 7 10 None;
   ERead 10 100 1000 0 (DMalformed 9)].

Lemma malformed_not_inert_stmt :
  exists tr st,
    run_trace (w_cfg true true true) (init_chan w_servers) w_malformed = Ok (tr, st) /\
    map (fun x => snd x) (skipn 3 tr) = [[OServerFail 0 9; OConnError 10]] /\
    map q_try (ch_queries st) = [1] /\ map q_conn (ch_queries st) = [None] /\ ch_conns st = [].
Proof. eexists. eexists. vm_compute. repeat split. Qed.

(* with fixes/C05-udp-garbage-drop.patch the exception disappears on UDP: a datagram that is
   empty or does not parse changes nothing, wherever it comes from *)
Theorem udp_garbage_inert cfg st c src s u d cn sv :
  cf_udp_garbage_drop cfg = true -> cf_fix_zerolen cfg = true ->
  find_conn st c = Some cn -> find_server st (cn_server cn) = Some sv -> cn_tcp cn = false ->
  (d = DEmpty \/ exists t, d = DMalformed t) ->
  exists st1, step cfg st (ERead c src s u d) = Ok (st1, []) /\ same_but_cookies st1 st.
Proof.
  intros Fd Fz Ec Es Et Hd. simpl. rewrite Ec, Es, Et, Fz. simpl.
  destruct (negb (src =? sv_addr sv)).
  { eexists. split; [reflexivity|apply same_but_cookies_refl]. }
  destruct Hd as [->|[t ->]]; simpl.
  - eexists. split; [reflexivity|]. repeat split.
  - rewrite Fd, Et. simpl. eexists. split; [reflexivity|]. repeat split.
Qed.

Lemma malformed_inert_with_drop_stmt :
  exists tr st,
    run_trace w_cfg_drop (init_chan w_servers) w_malformed = Ok (tr, st) /\
    map (fun x => snd x) (skipn 3 tr) = [[]] /\
    map q_try (ch_queries st) = [0] /\ map q_conn (ch_queries st) = [Some 10].
Proof. eexists. eexists. vm_compute. repeat split. Qed.

(* same_questions reads nothing of the response but its question section (in particular not the
   TC bit, the rcode or the OPT record) *)
Lemma same_questions_only_question cfg q p p' :
  p_qd p = p_qd p' -> same_questions cfg q p = same_questions cfg q p'.
Proof. intros E. unfold same_questions. now rewrite E. Qed.
