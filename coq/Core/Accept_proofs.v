(* Proofs about the accept-path model (C05). *)
From Coq Require Import ZArith List Bool Lia.
From CAres.Base Require Import Outcome CInt.
From CAres.Gen Require Import Consts LeafFns.
From CAres.Core Require Import Accept.
Import ListNotations.
Local Open Scope Z_scope.
Local Open Scope bool_scope.

(* ------------------------------------------------------------------------------------- *)
(* Lists of queries                                                                        *)
(* ------------------------------------------------------------------------------------- *)
Lemma find_some_in {A} (f : A -> bool) l x : find f l = Some x -> In x l /\ f x = true.
Proof. apply find_some. Qed.

Lemma map_qid_replace q l : map q_qid (replace_query q l) = map q_qid l.
Proof.
  unfold replace_query. induction l as [|x l IH]; simpl; [reflexivity|].
  rewrite IH. destruct (q_qid x =? q_qid q) eqn:E; [|reflexivity].
  apply Z.eqb_eq in E. now rewrite E.
Qed.

Lemma remove_query_incl id l x : In x (remove_query id l) -> In x l /\ q_qid x <> id.
Proof.
  unfold remove_query. intros H. apply filter_In in H. destruct H as [H1 H2].
  split; [assumption|]. apply negb_true_iff in H2. now apply Z.eqb_neq in H2.
Qed.

Lemma NoDup_map_filter {A B} (f : A -> B) (g : A -> bool) l :
  NoDup (map f l) -> NoDup (map f (filter g l)).
Proof.
  induction l as [|x l IH]; simpl; intros H; [constructor|].
  inversion H as [|? ? Hn Hd]; subst.
  destruct (g x); simpl; [|now apply IH].
  constructor; [|now apply IH].
  intros Hin. apply Hn. apply in_map_iff in Hin. destruct Hin as [y [E Hy]].
  apply filter_In in Hy. apply in_map_iff. exists y. tauto.
Qed.

Lemma in_replace_query q l x :
  In x (replace_query q l) -> x = q \/ In x l.
Proof.
  unfold replace_query. intros H. apply in_map_iff in H. destruct H as [y [E Hy]].
  destruct (q_qid y =? q_qid q); subst; auto.
Qed.

(* ------------------------------------------------------------------------------------- *)
(* generate_unique_qid                                                                    *)
(* ------------------------------------------------------------------------------------- *)
Lemma existsb_eqb_false live id : existsb (Z.eqb id) live = false -> ~ In id live.
Proof.
  intros H Hin. assert (existsb (Z.eqb id) live = true) as T.
  { apply existsb_exists. exists id. split; [assumption|apply Z.eqb_refl]. }
  congruence.
Qed.

Lemma generate_unique_qid_fresh live ids id :
  generate_unique_qid live ids = Ok id -> ~ In id live /\ In id ids.
Proof.
  induction ids as [|x r IH]; simpl; [discriminate|].
  destruct (existsb (Z.eqb x) live) eqn:E.
  - intros H. destruct (IH H). auto.
  - intros H. inversion H; subst. split; [now apply existsb_eqb_false|auto].
Qed.

(* the retry loop ends as soon as the random source produces an id that is not in use;
   fuel (the length of the candidate list) is only exhausted when every candidate collides *)
Lemma generate_unique_qid_terminates live ids :
  (exists id, In id ids /\ ~ In id live) -> exists r, generate_unique_qid live ids = Ok r.
Proof.
  induction ids as [|x r IH]; intros [id [Hin Hn]]; [destruct Hin|].
  simpl. destruct (existsb (Z.eqb x) live) eqn:E; [|eauto].
  apply IH. destruct Hin as [->|Hin]; [|eauto].
  exfalso. apply Hn. apply existsb_exists in E. destruct E as [y [Hy Ey]].
  apply Z.eqb_eq in Ey. now subst.
Qed.

Lemma generate_unique_qid_not_ub live ids : is_ub (generate_unique_qid live ids) = false.
Proof. induction ids as [|x r IH]; simpl; [reflexivity|]. destruct (existsb _ _); auto. Qed.

Lemma filter_length_le' {A} (f : A -> bool) l : (length (filter f l) <= length l)%nat.
Proof. induction l as [|x l IH]; simpl; [lia|]. destruct (f x); simpl; lia. Qed.

(* pigeonhole: with fewer live queries than ids there is always a free id *)
Lemma free_id_exists (live : list Z) (n : nat) :
  (length live < n)%nat -> exists id, 0 <= id < Z.of_nat n /\ ~ In id live.
Proof.
  revert live. induction n as [|n IH]; intros live H; [lia|].
  destruct (in_dec Z.eq_dec (Z.of_nat n) live) as [Hin|Hn].
  - (* remove one occurrence of n and recurse *)
    destruct (in_split _ _ Hin) as [l1 [l2 E]].
    assert (length (filter (fun x => negb (Z.eqb x (Z.of_nat n))) live) < n)%nat as L.
    { subst live. rewrite filter_app. simpl. rewrite Z.eqb_refl. simpl.
      rewrite app_length in H. simpl in H. rewrite app_length.
      pose proof (filter_length_le' (fun x => negb (Z.eqb x (Z.of_nat n))) l1).
      pose proof (filter_length_le' (fun x => negb (Z.eqb x (Z.of_nat n))) l2).
      lia. }
    destruct (IH _ L) as [id [R Hid]].
    exists id. split; [lia|]. intros Hin'. apply Hid. apply filter_In. split; [assumption|].
    apply negb_true_iff. apply Z.eqb_neq. lia.
  - exists (Z.of_nat n). split; [lia|assumption].
Qed.

(* ------------------------------------------------------------------------------------- *)
(* Invariant                                                                              *)
(* ------------------------------------------------------------------------------------- *)
Definition qids (st : chan) : list Z := map q_qid (ch_queries st).

Definition assign_inv (st : chan) : Prop :=
  forall q c, In q (ch_queries st) -> q_conn q = Some c ->
              exists cn, find_conn st c = Some cn /\ cn_tcp cn = q_using_tcp q.

Definition cookie_inv (st : chan) : Prop :=
  forall q, In q (ch_queries st) -> cookie_len_ok (q_cookie q) = true.

Definition server_inv (st : chan) : Prop :=
  forall sv, In sv (ch_servers st) -> zlen (ck_client (sv_cookie sv)) = 8.

Record inv (st : chan) : Prop := mkInv {
  inv_qid : NoDup (qids st);
  inv_assign : assign_inv st;
  inv_cookie : cookie_inv st;
  inv_server : server_inv st }.

(* ------------------------------------------------------------------------------------- *)
(* same_questions = the specification's question comparison                               *)
(* ------------------------------------------------------------------------------------- *)
Lemma same_questions_loop_spec exact qs ps :
  length qs = length ps -> same_questions_loop exact qs ps = questions_eqb exact qs ps.
Proof.
  revert ps. induction qs as [|q qs IH]; intros [|p ps] L; simpl in *; try reflexivity; try discriminate.
  injection L as L.
  destruct (qn_type q =? qn_type p); simpl; [|reflexivity].
  destruct (qn_class q =? qn_class p); simpl; [|reflexivity].
  destruct exact.
  - destruct (bytes_eqb (qn_name q) (qn_name p)); simpl; [now apply IH|reflexivity].
  - destruct (bytes_caseeqb (qn_name q) (qn_name p)); simpl; [now apply IH|reflexivity].
Qed.

Lemma questions_eqb_length exact a b : questions_eqb exact a b = true -> length a = length b.
Proof.
  revert b. induction a as [|x a IH]; intros [|y b] H; simpl in *; try reflexivity; try discriminate.
  apply andb_true_iff in H. destruct H as [_ H]. f_equal. now apply IH.
Qed.

Lemma same_questions_spec cfg q p :
  same_questions cfg q p = questions_eqb (cf_dns0x20 cfg && negb (q_using_tcp q)) (q_qd q) (p_qd p).
Proof.
  unfold same_questions, zlen.
  destruct (Z.of_nat (length (q_qd q)) =? Z.of_nat (length (p_qd p))) eqn:E; simpl.
  - apply Z.eqb_eq in E. apply Nat2Z.inj in E. now apply same_questions_loop_spec.
  - destruct (questions_eqb _ _ _) eqn:F; [|reflexivity].
    apply questions_eqb_length in F. apply Z.eqb_neq in E. rewrite F in E. lia.
Qed.

(* ------------------------------------------------------------------------------------- *)
(* Which parts of the state an operation may touch                                        *)
(* ------------------------------------------------------------------------------------- *)
(* everything except the per-server cookie records is equal *)
Definition same_but_cookies (a b : chan) : Prop :=
  ch_queries a = ch_queries b /\ ch_conns a = ch_conns b /\ ch_ctab a = ch_ctab b /\
  ch_cexp a = ch_cexp b /\ ch_auth a = ch_auth b /\
  map sv_idx (ch_servers a) = map sv_idx (ch_servers b) /\
  map sv_addr (ch_servers a) = map sv_addr (ch_servers b).

Lemma same_but_cookies_refl st : same_but_cookies st st.
Proof. repeat split. Qed.

Lemma same_but_cookies_update st idx ck : same_but_cookies (update_cookie st idx ck) st.
Proof.
  unfold same_but_cookies, update_cookie. simpl. repeat split.
  - induction (ch_servers st) as [|x l IH]; simpl; [reflexivity|]. rewrite IH.
    destruct (sv_idx x =? idx); reflexivity.
  - induction (ch_servers st) as [|x l IH]; simpl; [reflexivity|]. rewrite IH.
    destruct (sv_idx x =? idx); reflexivity.
Qed.

(* ------------------------------------------------------------------------------------- *)
(* ares_cookie_validate against the specification's cookie_ok                             *)
(* ------------------------------------------------------------------------------------- *)
Global Opaque first8 skip8.

Lemma memcmp8_eq_ok a b r : memcmp8_eq a b = Ok r -> r = bytes_eqb (first8 a) (first8 b).
Proof. unfold memcmp8_eq. intros H. apply guard_ok in H. destruct H as [_ H]. now inversion H. Qed.

Lemma requeue_query_outputs_nodata cfg st q status inc st1 outs :
  requeue_query cfg st q status inc None = (st1, outs) ->
  forall o, In o outs -> exists tok s, o = OCallback tok s None.
Proof.
  unfold requeue_query. intros H o Ho.
  destruct (_ && _) in H; inversion H; subst; [destruct Ho|].
  destruct Ho as [<-|[]]. eauto.
Qed.

Ltac fin3 := split; [try reflexivity | split; [reflexivity |
  first [apply same_but_cookies_refl | apply same_but_cookies_update]]].

Lemma cookie_validate_ok cfg st q p sv s u st1 outs :
  cookie_validate cfg st q p sv s u = Ok (st1, outs, VOk) ->
  cookie_ok (sv_cookie sv) q p = true /\ outs = [] /\ same_but_cookies st1 st.
Proof.
  unfold cookie_validate, cookie_ok.
  destruct (p_cookie p) as [pc|] eqn:Epc.
  - (* response carries a cookie *)
    destruct ((zlen pc <? 8) || (40 <? zlen pc)) eqn:Elen; [discriminate|].
    apply orb_false_iff in Elen. destruct Elen as [L1 L2].
    apply Z.ltb_ge in L1. apply Z.ltb_ge in L2.
    assert ((8 <=? zlen pc) && (zlen pc <=? 40) = true) as LL.
    { apply andb_true_iff. split; apply Z.leb_le; lia. }
    rewrite LL. simpl.
    destruct (q_cookie q) as [rc|] eqn:Erc.
    + destruct (memcmp8_eq rc pc) as [e| |] eqn:Em; simpl; try discriminate.
      apply memcmp8_eq_ok in Em. subst e.
      destruct (bytes_eqb (first8 rc) (first8 pc)) eqn:Eeq; simpl; [|discriminate].
      destruct (8 <? zlen pc) eqn:E8; simpl.
      * destruct (memcmp8_eq (ck_client (sv_cookie sv)) rc) as [same| |]; simpl; try discriminate.
        destruct (p_rcode p =? ARES_RCODE_BADCOOKIE) eqn:Ebc.
        -- destruct (requeue_query _ _ _ _ _ _) as [st2 o2]. discriminate.
        -- intros H. inversion H; subst. fin3.
      * destruct (p_rcode p =? ARES_RCODE_BADCOOKIE) eqn:Ebc.
        -- destruct (requeue_query _ _ _ _ _ _) as [st2 o2]. discriminate.
        -- destruct (ck_state (sv_cookie sv) =? C05_COOKIE_SUPPORTED) eqn:Esup; [discriminate|].
           destruct (ck_state (sv_cookie sv) =? C05_COOKIE_GENERATED);
             intros H; inversion H; subst; fin3.
    + intros H. inversion H; subst. fin3.
  - (* no cookie in the response *)
    simpl. destruct (q_cookie q) as [rc|] eqn:Erc.
    + simpl. destruct (p_rcode p =? ARES_RCODE_BADCOOKIE) eqn:Ebc; [discriminate|].
      simpl. destruct (ck_state (sv_cookie sv) =? C05_COOKIE_SUPPORTED) eqn:Esup; [discriminate|].
      destruct (ck_state (sv_cookie sv) =? C05_COOKIE_GENERATED);
        intros H; inversion H; subst; fin3.
    + intros H. inversion H; subst. fin3.
Qed.

Lemma cookie_validate_inert cfg st q p sv s u r :
  cookie_ok (sv_cookie sv) q p = false ->
  cookie_validate cfg st q p sv s u = Ok r ->
  exists st1, r = (st1, [], VDrop) /\ same_but_cookies st1 st.
Proof.
  unfold cookie_validate, cookie_ok.
  destruct (p_cookie p) as [pc|] eqn:Epc.
  - destruct ((zlen pc <? 8) || (40 <? zlen pc)) eqn:Elen.
    { intros _ H. inversion H. eexists. split; [reflexivity|apply same_but_cookies_refl]. }
    apply orb_false_iff in Elen. destruct Elen as [L1 L2].
    apply Z.ltb_ge in L1. apply Z.ltb_ge in L2.
    assert ((8 <=? zlen pc) && (zlen pc <=? 40) = true) as LL.
    { apply andb_true_iff. split; apply Z.leb_le; lia. }
    rewrite LL. simpl.
    destruct (q_cookie q) as [rc|] eqn:Erc; [|discriminate].
    destruct (memcmp8_eq rc pc) as [e| |] eqn:Em; simpl; try discriminate.
    apply memcmp8_eq_ok in Em. subst e.
    destruct (bytes_eqb (first8 rc) (first8 pc)) eqn:Eeq; simpl.
    2:{ intros _ H. inversion H. eexists. split; [reflexivity|apply same_but_cookies_refl]. }
    destruct (8 <? zlen pc) eqn:E8; simpl; [discriminate|].
    destruct (p_rcode p =? ARES_RCODE_BADCOOKIE) eqn:Ebc.
    { rewrite orb_true_r. discriminate. }
    rewrite orb_false_r.
    destruct (ck_state (sv_cookie sv) =? C05_COOKIE_SUPPORTED) eqn:Esup; [|discriminate].
    intros _ H. inversion H. eexists. split; [reflexivity|apply same_but_cookies_update].
  - simpl. destruct (q_cookie q) as [rc|] eqn:Erc; [|discriminate].
    simpl. destruct (p_rcode p =? ARES_RCODE_BADCOOKIE) eqn:Ebc.
    { intros _ H. inversion H. eexists. split; [reflexivity|apply same_but_cookies_update]. }
    destruct (ck_state (sv_cookie sv) =? C05_COOKIE_SUPPORTED) eqn:Esup; [|discriminate].
    intros _ H. inversion H. eexists. split; [reflexivity|apply same_but_cookies_update].
Qed.

(* ------------------------------------------------------------------------------------- *)
(* process_answer: every output that carries data comes from an authentic packet           *)
(* ------------------------------------------------------------------------------------- *)
Definition carries (o : output) (tag : Z) : Prop :=
  (exists tok s, o = OCallback tok s (Some tag)) \/ (exists srv, o = OServerGood srv tag) \/
  o = OCacheInsert tag.

Definition nodata (o : output) : Prop := forall tag, ~ carries o tag.

Lemma nodata_callback_none tok s : nodata (OCallback tok s None).
Proof. intros tag [[t [s' H]]|[[srv H]|H]]; discriminate. Qed.
Lemma nodata_fail srv t : nodata (OServerFail srv t).
Proof. intros tag [[t' [s' H]]|[[srv' H]|H]]; discriminate. Qed.
Lemma nodata_connerr c : nodata (OConnError c).
Proof. intros tag [[t' [s' H]]|[[srv' H]|H]]; discriminate. Qed.

Lemma requeue_query_nodata cfg st q status inc st1 outs :
  requeue_query cfg st q status inc None = (st1, outs) -> Forall nodata outs.
Proof.
  unfold requeue_query. intros H.
  destruct (_ && _) in H; inversion H; subst; [constructor|].
  constructor; [apply nodata_callback_none|constructor].
Qed.

Lemma requeue_query_data cfg st q status inc tag st1 outs :
  requeue_query cfg st q status inc (Some tag) = (st1, outs) ->
  forall o, In o outs -> exists s, o = OCallback (q_tok q) s (Some tag).
Proof.
  unfold requeue_query. intros H o Ho.
  destruct (_ && _) in H; inversion H; subst; [destruct Ho|].
  destruct Ho as [<-|[]].
  destruct inc; destruct (negb (status =? ARES_SUCCESS)); simpl; eauto.
Qed.

Lemma requeue_all_nodata cfg qs : forall st status st1 outs,
  requeue_all cfg st qs status = (st1, outs) -> Forall nodata outs.
Proof.
  induction qs as [|q r IH]; simpl; intros st status st1 outs H.
  - inversion H. constructor.
  - destruct (requeue_query cfg st q status true None) as [sta oa] eqn:Ea.
    destruct (requeue_all cfg sta r status) as [stb ob] eqn:Eb.
    inversion H; subst. apply Forall_app. split.
    + eapply requeue_query_nodata; eauto.
    + eapply IH; eauto.
Qed.

Lemma cookie_validate_nodata cfg st q p sv s u st1 outs v :
  cookie_validate cfg st q p sv s u = Ok (st1, outs, v) -> Forall nodata outs.
Proof.
  unfold cookie_validate.
  destruct (match p_cookie p with Some _ => _ | None => false end).
  { intros H. inversion H. constructor. }
  destruct (q_cookie q) as [rc|].
  2:{ intros H. inversion H. constructor. }
  destruct (match p_cookie p with Some rc0 => _ | None => Ok false end) as [mm| |]; simpl; try discriminate.
  destruct mm. { intros H. inversion H. constructor. }
  destruct (match p_cookie p with Some rc0 => _ | None => Ok (sv_cookie sv) end) as [ck1| |]; simpl; try discriminate.
  destruct (p_rcode p =? ARES_RCODE_BADCOOKIE).
  - destruct (p_cookie p).
    + destruct (requeue_query _ _ _ _ _ _) as [st2 o2] eqn:Er. intros H. inversion H; subst.
      eapply requeue_query_nodata; eauto.
    + intros H. inversion H. constructor.
  - destruct (8 <? _). { intros H. inversion H. constructor. }
    destruct (ck_state ck1 =? C05_COOKIE_SUPPORTED). { intros H. inversion H. constructor. }
    destruct (ck_state ck1 =? C05_COOKIE_GENERATED); intros H; inversion H; constructor.
Qed.

Lemma find_query_some st id q : find_query st id = Some q -> In q (ch_queries st) /\ q_qid q = id.
Proof.
  unfold find_query. intros H. apply find_some in H. destruct H as [H1 H2].
  split; [assumption|now apply Z.eqb_eq].
Qed.

Lemma opt_z_eqb_true a b : opt_z_eqb a b = true -> a = b.
Proof.
  destruct a, b; simpl; intros H; try discriminate; [|reflexivity].
  apply Z.eqb_eq in H. now subst.
Qed.

Lemma cache_insert_outputs cfg st q p now st1 outs :
  cache_insert cfg st q p now = (st1, outs) -> outs = [] \/ outs = [OCacheInsert (p_tag p)].
Proof.
  unfold cache_insert. intros H.
  destruct (negb (cf_qcache cfg)); [inversion H; auto|].
  destruct (negb _); [inversion H; auto|].
  destruct (p_tc p); [inversion H; auto|].
  destruct (_ =? 0); inversion H; auto.
Qed.

Theorem process_answer_sound cfg st cn sv src s u d st' outs :
  cf_fix_conn cfg = true -> cf_fix_qr cfg = true ->
  assign_inv st -> find_conn st (cn_id cn) = Some cn ->
  (cn_tcp cn || (src =? sv_addr sv)) = true ->
  process_answer cfg st cn sv s u d = Ok (st', outs) ->
  forall o tag, In o outs -> carries o tag ->
  exists p q, d = DParsed p /\ p_tag p = tag /\ In q (ch_queries st) /\
              authentic_b cfg cn sv src p q = true /\
              (forall tok st dd, o = OCallback tok st dd -> tok = q_tok q).
Proof.
  intros Fc Fq Hinv Hcn Hsrc H o tag Ho Hc.
  destruct d as [|mt|p]; simpl in H.
  - inversion H; subst. destruct Ho.
  - destruct (close_connection cfg st (cn_id cn) ARES_EBADRESP) as [st1 o1] eqn:Ec.
    inversion H; subst. exfalso.
    destruct Ho as [<-|[<-|Ho]].
    + eapply nodata_fail; eauto.
    + eapply nodata_connerr; eauto.
    + unfold close_connection in Ec. apply requeue_all_nodata in Ec.
      rewrite Forall_forall in Ec. eapply Ec; eauto.
  - rewrite Fq in H. simpl in H.
    destruct (p_qr p) eqn:Eqr; simpl in H; [|inversion H; subst; destruct Ho].
    destruct (find_query st (p_id p)) as [q|] eqn:Eq; [|inversion H; subst; destruct Ho].
    destruct (find_query_some _ _ _ Eq) as [Hq Hid].
    destruct (same_questions cfg q p) eqn:Esq; simpl in H; [|inversion H; subst; destruct Ho].
    rewrite Fc in H. simpl in H.
    destruct (opt_z_eqb (q_conn q) (Some (cn_id cn))) eqn:Econn; simpl in H;
      [|inversion H; subst; destruct Ho].
    destruct (cookie_validate cfg st q p sv s u) as [[[st1 outs1] v]| |] eqn:Ev; simpl in H;
      try discriminate.
    destruct v.
    + (* accepted by the cookie check *)
      destruct (cookie_validate_ok _ _ _ _ _ _ _ _ _ Ev) as [Hck [-> _]].
      assert (authentic_b cfg cn sv src p q = true) as A.
      { unfold authentic_b. rewrite Econn, Hsrc, Eqr, Hck. simpl.
        rewrite Hid, Z.eqb_refl. simpl. rewrite andb_true_r.
        unfold questions_match. rewrite same_questions_spec in Esq.
        apply opt_z_eqb_true in Econn.
        destruct (Hinv _ _ Hq Econn) as [cn' [F T]]. rewrite Hcn in F. inversion F; subst cn'.
        rewrite T, Esq. reflexivity. }
      destruct (issue_might_be_edns q p).
      { destruct (negb (q_has_opt q)); inversion H; subst.
        - destruct Ho as [<-|[]]. exfalso. eapply nodata_callback_none; eauto.
        - destruct Ho. }
      destruct (p_tc p && negb (cn_tcp cn) && negb (cf_igntc cfg)).
      { inversion H; subst. destruct Ho. }
      destruct (negb (cf_nocheckresp cfg) && _).
      { destruct (requeue_query cfg st1 q _ true (Some (p_tag p))) as [st2 outs2] eqn:Er.
        inversion H; subst. destruct Ho as [<-|Ho].
        - exfalso. eapply nodata_fail; eauto.
        - destruct (requeue_query_data _ _ _ _ _ _ _ _ Er _ Ho) as [s0 ->].
          destruct Hc as [[t [s1 E]]|[[srv E]|E]]; try discriminate.
          inversion E; subst. exists p, q. repeat split; auto.
          intros tok st0 dd E2. now inversion E2. }
      destruct (cache_insert cfg st1 q p s) as [st2 outs2] eqn:Eci.
      inversion H; subst. apply in_app_or in Ho.
      destruct Ho as [Ho|[<-|[<-|[]]]].
      * destruct (cache_insert_outputs _ _ _ _ _ _ _ Eci) as [->| ->]; [destruct Ho|].
        destruct Ho as [<-|[]].
        destruct Hc as [[t [s1 E]]|[[srv E]|E]]; try discriminate.
        inversion E; subst. exists p, q. repeat split; auto. intros; discriminate.
      * destruct Hc as [[t [s1 E]]|[[srv E]|E]]; try discriminate.
        inversion E; subst. exists p, q. repeat split; auto. intros; discriminate.
      * destruct Hc as [[t [s1 E]]|[[srv E]|E]]; try discriminate.
        inversion E; subst. exists p, q. repeat split; auto.
        intros tok st0 dd E2. now inversion E2.
    + (* dropped by the cookie check: whatever it emitted carries no data *)
      inversion H; subst. exfalso. apply cookie_validate_nodata in Ev.
      rewrite Forall_forall in Ev. eapply Ev; eauto.
Qed.
