(* C01: a fuel proportional to the potential of the state is never exhausted, and no function
   increases the potential (third induction on the fuel, next to Lifecycle_proofs.v and
   Lifecycle_tokens_proofs.v).  Result: run_fuel_sufficient, a bound on the fuel as a function
   of the size of the history below which [Err OutOfFuel] cannot occur. *)
From Coq Require Import List ZArith Lia Bool Arith Permutation.
Import ListNotations.
From CAres.Base Require Import Outcome.
From CAres.Gen Require Import Consts.
From CAres.Core Require Import LifecycleMonitor Lifecycle Lifecycle_inv Lifecycle_proofs Lifecycle_tokens Lifecycle_fuel.

Definition K := 20.
(* fuel needed by a function of rank r (number of calls it can make before something is
   consumed) that starts with potential p (state + what it was handed) *)
Definition need (p r : nat) : nat := K * p + r + 1.

Ltac fuel := unfold need, K, wT, KA in *; unfold tok, obj in *; simpl csize in *; simpl length in *; lia.

Section FixedF.
Variable cf : config.
Hypothesis Hfix : cf_fix cf = all_fixed.
Let S1 := all_specs cf Hfix.

(* post: the potential afterwards, plus d, is at most the potential before plus what was handed over *)
Definition fpost {X} (s : state) (inp d : nat) : X -> state -> Prop := fun _ s' => pot s' + d <= pot s + inp.

Record Specs3 (f : nat) : Prop := {
  fp_invoke : forall k r s, Inv s -> Own s (cobjs k) -> GivenOk s (kbot k) -> need (pot s + csize k) 2 <= f ->
      safe3 (invoke cf f k r) s (fpost s (csize k) 0);
  fp_run_script : forall sc s, Inv s -> need (pot s + calls_size sc) 0 <= f ->
      safe3 (run_script cf f sc) s (fpost s (calls_size sc) 0);
  fp_api : forall c s, Inv s -> need (pot s + call_size c) 0 <= f -> safe3 (api cf f c) s (fpost s (call_size c) 0);
  fp_query_nolock : forall k qd s, Inv s -> Own s (cobjs k) -> GivenOk s (kbot k) -> QdOk qd k ->
      need (pot s + csize k + 2) 1 <= f -> safe3 (query_nolock cf f k qd) s (fpost s (csize k + 2) 0);
  fp_send_nolock : forall k pr qd s, Inv s -> Own s (cobjs k) -> GivenOk s (kbot k) -> QdOk qd k ->
      need (pot s + csize k) 0 <= f -> safe3 (send_nolock cf f k pr qd) s (fpost s (csize k) 1);
  fp_send_query : forall qo s, Inv s -> In qo (linked s) -> need (pot s) 1 <= f ->
      safe3 (send_query cf f qo) s (fpost s 0 1);
  fp_send_query_write : forall qo op s, Inv s -> In qo (linked s) -> need (pot s) 0 <= f ->
      safe3 (send_query_write cf f qo op) s (fpost s 0 1);
  fp_requeue_query : forall qo st inc df r s, InvX (Some qo) s -> In qo (linked s) -> need (pot s) 2 <= f ->
      safe3 (requeue_query cf f qo st inc df r) s (fpost s 0 (if df then 0 else 1));
  fp_end_query : forall qo st r s, InvX (Some qo) s -> In qo (linked s) -> need (pot s) 0 <= f ->
      safe3 (end_query cf f qo st r) s (fpost s 0 1);
  fp_complete_query : forall qo r s, InvX (Some qo) s -> In qo (linked s) -> need (pot s) 0 <= f ->
      safe3 (complete_query cf f qo r) s (fpost s 0 1);
  fp_handle_conn_error : forall co cr st s c, Inv s -> cell_of s co = Some (CConn c) -> need (pot s) 5 <= f ->
      safe3 (handle_conn_error cf f co cr st) s (fpost s 0 1);
  fp_close_connection : forall co st s c, Inv s -> cell_of s co = Some (CConn c) -> need (pot s) 4 <= f ->
      safe3 (close_connection cf f co st) s (fpost s 0 1);
  fp_requeue_conn_queries : forall n co st s c, Inv s -> cell_of s co = Some (CConn c) -> ~ rooted s co ->
      need (pot s) 3 <= f -> pot s < n ->
      safe3 (requeue_conn_queries cf f n co st) s (fpost s 0 0);
  fp_check_cleanup : forall s, Inv s -> need (pot s) 6 <= f -> safe3 (check_cleanup cf f) s (fpost s 0 0);
  fp_cleanup_loop : forall n s, Inv s -> need (pot s) 5 <= f -> pot s < n -> safe3 (cleanup_loop cf f n) s (fpost s 0 0);
  fp_set_servers : forall s, Inv s -> need (pot s) 6 <= f -> safe3 (set_servers cf f) s (fpost s 0 0);
  fp_set_servers_loop : forall n s, Inv s -> need (pot s) 5 <= f -> pot s < n ->
      safe3 (set_servers_loop cf f n) s (fpost s 0 0);
  fp_cancel : forall s, Inv s -> need (pot s) 7 <= f -> safe3 (cancel cf f) s (fpost s 0 0);
  fp_cancel_loop : forall n s, Inv s -> need (pot s) 2 <= f -> pot s < n ->
      safe3 (cancel_loop_fixed cf f n) s (fpost s 0 0);
  fp_search_int : forall k names s, Inv s -> Own s (cobjs k) -> GivenOk s (kbot k) ->
      need (pot s + csize k + KA * S (length names)) 0 <= f ->
      safe3 (search_int cf f k names) s (fpost s (csize k + KA * S (length names)) 0);
  fp_search_next : forall o k l nd s, Inv s -> Own s (o :: cobjs k) -> GivenOk s (kbot k) ->
      need (pot s + csize k + KA * length l) 0 <= f ->
      safe3 (search_next cf f o k l nd) s
            (fun r s' => pot s' + (if snd r then 0 else csize k) <= pot s + csize k + KA * length l);
  fp_search_callback : forall o k cs l nd r s, Inv s -> Own s (o :: cobjs k) -> GivenOk s (kbot k) ->
      need (pot s + csize (KSearch o k cs l nd)) 0 <= f ->
      safe3 (search_callback cf f o k cs l nd r) s (fpost s (csize (KSearch o k cs l nd)) 0);
  fp_end_squery : forall o k r s, Inv s -> Own s (o :: cobjs k) -> GivenOk s (kbot k) ->
      need (pot s + csize k) 3 <= f -> safe3 (end_squery cf f o k r) s (fpost s (csize k) 0);
  fp_addr_next_lookup : forall o k l s, Inv s -> Own s (o :: cobjs k) -> GivenOk s (kbot k) ->
      need (pot s + csize (KAddr o k l)) 0 <= f ->
      safe3 (addr_next_lookup cf f o k l) s (fpost s (csize (KAddr o k l)) 0);
  fp_addr_callback : forall o k l r s, Inv s -> Own s (o :: cobjs k) -> GivenOk s (kbot k) ->
      need (pot s + csize (KAddr o k l)) 1 <= f ->
      safe3 (addr_callback cf f o k l r) s (fpost s (csize (KAddr o k l)) 0);
  fp_end_aquery : forall o k r s, Inv s -> Own s (o :: cobjs k) -> GivenOk s (kbot k) ->
      need (pot s + csize k) 3 <= f -> safe3 (end_aquery cf f o k r) s (fpost s (csize k) 0);
  fp_host_next_lookup : forall o st s h, Inv s -> HOwn s o h -> need (pot s + hsize h) 1 <= f ->
      safe3 (host_next_lookup cf f o st) s (fpost s (hsize h) 0);
  fp_host_next_dns_lookup : forall o s h, Inv s -> HOwn s o h -> h_names h <> [] -> need (pot s + hsize h) 0 <= f ->
      safe3 (host_next_dns_lookup cf f o) s (fpost s (hsize h) 0);
  fp_host_callback : forall o r s, Inv s -> GivenOk s (Some o) -> need (pot s + 2) 0 <= f ->
      safe3 (host_callback cf f o r) s (fpost s 2 0);
  fp_end_hquery : forall o st s h, Inv s -> HOwn s o h -> need (pot s + hsize h) 0 <= f ->
      safe3 (end_hquery cf f o st) s (fpost s (hsize h) 0)
}.

Lemma specs3_O : Specs3 0.
Proof. constructor; intros; exfalso; unfold need in *; lia. Qed.

Lemma own_core' s s' L : core_eq s s' -> Own s L -> Own s' L.
Proof. apply ce_own. Qed.

(* ---- invoke ---- *)
Lemma invoke_fstep f : Specs3 f -> forall k r s, Inv s -> Own s (cobjs k) -> GivenOk s (kbot k) ->
  need (pot s + csize k) 2 <= S f -> safe3 (invoke cf (S f) k r) s (fpost s (csize k) 0).
Proof.
  intros IH k r s I O Hg Hf. unfold fpost. destruct k as [t| |w o k'|o k' cs l nd|o k' l|o]; simpl.
  - (* KUser *)
    apply safe3_bind. apply safe3_emit.
    set (s1 := set_trace (EvCb t (r_status r) :: st_trace s) s).
    assert (E1 : core_eq s s1) by apply core_eq_set_trace.
    assert (I1 : Inv s1) by (apply (inv_core _ _ _ E1); auto).
    destruct (take_script_ok _ t s1 I1) as [sc [s2 [E2 [C2 I2]]]].
    destruct (pot_take_script _ _ _ _ E2) as [P2 _].
    change (pot s1) with (pot s) in P2.
    apply safe3_bind. eapply safe3_of_run; [exact E2|].
    eapply safe3_mono; [apply (fp_run_script _ IH); auto; fuel|].
    intros [] s3 P3. unfold fpost in P3. fuel.
  - apply safe3_ret. fuel.
  - (* KWrap *)
    simpl in O, Hg. destruct (own_cons _ _ _ O) as [Hc [Hr [Hni O']]].
    apply safe3_bind. eapply safe3_touch; [exact (inv_heap _ _ I)|exact Hc|].
    apply safe3_bind.
    eapply safe3_mono; [apply safe3_with; [apply (sp_invoke _ _ (S1 f) k' _ s I O' Hg)|apply (fp_invoke _ IH k' _ s I O' Hg); fuel]|].
    intros [] s1 [[I1 F1] P1]. unfold fpost in P1.
    pose proof (fr_cell _ _ _ _ F1 _ _ Hc Hr Hni) as [Hc1 Hr1].
    eapply safe3_free; [exact (inv_heap _ _ I1)|exact Hc1|].
    rewrite (pot_free None s1 o COpaque I1 Hc1 Logic.I); [fuel|].
    intros Hl. destruct (inv_query _ _ I1 _ Hl) as [q Hq]. congruence.
  - simpl in O, Hg. eapply safe3_mono; [apply (fp_search_callback _ IH); auto; simpl; fuel|]. intros [] s1 P1. exact P1.
  - simpl in O, Hg. eapply safe3_mono; [apply (fp_addr_callback _ IH); auto; simpl; fuel|]. intros [] s1 P1. exact P1.
  - simpl in Hg. eapply safe3_mono; [apply (fp_host_callback _ IH); auto; fuel|]. intros [] s1 P1. exact P1.
Qed.

Lemma run_script_fstep f : Specs3 f -> forall sc s, Inv s -> need (pot s + calls_size sc) 0 <= S f ->
  safe3 (run_script cf (S f) sc) s (fpost s (calls_size sc) 0).
Proof.
  intros IH sc s I Hf. unfold fpost. destruct sc as [|c rest]; simpl.
  - apply safe3_ret. lia.
  - assert (Ec : calls_size (c :: rest) = S (call_size c) + calls_size rest) by reflexivity.
    rewrite Ec in *.
    apply safe3_bind.
    eapply safe3_mono; [apply safe3_with; [apply (sp_api _ _ (S1 f) c s I)|apply (fp_api _ IH c s I); fuel]|].
    intros [] s1 [[I1 _] P1]. unfold fpost in P1.
    eapply safe3_mono; [apply (fp_run_script _ IH); auto; fuel|].
    intros [] s2 P2. unfold fpost in P2. lia.
Qed.

Lemma opaque_unlinked x s o : InvX x s -> cell_of s o = Some COpaque -> ~ In o (linked s).
Proof. intros I Hc Hl. destruct (inv_query _ _ I _ Hl) as [q Hq]. congruence. Qed.
Lemma conn_unlinked x s o c : InvX x s -> cell_of s o = Some (CConn c) -> ~ In o (linked s).
Proof. intros I Hc Hl. destruct (inv_query _ _ I _ Hl) as [q Hq]. congruence. Qed.
Lemma host_unlinked x s o h : InvX x s -> cell_of s o = Some (CHost h) -> ~ In o (linked s).
Proof. intros I Hc Hl. destruct (inv_query _ _ I _ Hl) as [q Hq]. congruence. Qed.

Lemma end_squery_fstep f : Specs3 f -> forall o k r s, Inv s -> Own s (o :: cobjs k) -> GivenOk s (kbot k) ->
  need (pot s + csize k) 3 <= S f -> safe3 (end_squery cf (S f) o k r) s (fpost s (csize k) 0).
Proof.
  intros IH o k r s I O Hg Hf. unfold fpost. simpl.
  destruct (own_cons _ _ _ O) as [Hc [Hr [Hni O']]].
  apply safe3_bind. eapply safe3_touch; [exact (inv_heap _ _ I)|exact Hc|].
  apply safe3_bind.
  eapply safe3_mono; [apply safe3_with; [apply (sp_invoke _ _ (S1 f) k r s I O' Hg)|apply (fp_invoke _ IH k r s I O' Hg); fuel]|].
  intros [] s1 [[I1 F1] P1]. unfold fpost in P1.
  pose proof (fr_cell _ _ _ _ F1 _ _ Hc Hr Hni) as [Hc1 Hr1].
  apply safe3_bind. eapply safe3_touch; [exact (inv_heap _ _ I1)|exact Hc1|].
  eapply safe3_free; [exact (inv_heap _ _ I1)|exact Hc1|].
  rewrite (pot_free None s1 o COpaque I1 Hc1 Logic.I (opaque_unlinked _ _ _ I1 Hc1)). exact P1.
Qed.

Lemma end_aquery_fstep f : Specs3 f -> forall o k r s, Inv s -> Own s (o :: cobjs k) -> GivenOk s (kbot k) ->
  need (pot s + csize k) 3 <= S f -> safe3 (end_aquery cf (S f) o k r) s (fpost s (csize k) 0).
Proof.
  intros IH o k r s I O Hg Hf. unfold fpost. simpl.
  destruct (own_cons _ _ _ O) as [Hc [Hr [Hni O']]].
  apply safe3_bind. eapply safe3_touch; [exact (inv_heap _ _ I)|exact Hc|].
  apply safe3_bind.
  eapply safe3_mono; [apply safe3_with; [apply (sp_invoke _ _ (S1 f) k r s I O' Hg)|apply (fp_invoke _ IH k r s I O' Hg); fuel]|].
  intros [] s1 [[I1 F1] P1]. unfold fpost in P1.
  pose proof (fr_cell _ _ _ _ F1 _ _ Hc Hr Hni) as [Hc1 Hr1].
  eapply safe3_free; [exact (inv_heap _ _ I1)|exact Hc1|].
  rewrite (pot_free None s1 o COpaque I1 Hc1 Logic.I (opaque_unlinked _ _ _ I1 Hc1)). exact P1.
Qed.

Lemma complete_query_fstep f : Specs3 f -> forall qo r s, InvX (Some qo) s -> In qo (linked s) -> need (pot s) 0 <= S f ->
  safe3 (complete_query cf (S f) qo r) s (fpost s 0 1).
Proof.
  intros IH qo r s I Hl Hf. unfold fpost. simpl. rewrite (fx_unlink_true cf Hfix).
  destruct (inv_query _ _ I _ Hl) as [q Hq].
  destruct (detach_query_ok _ _ _ _ I (or_intror eq_refl) Hl Hq)
    as [s1 [E1 [I1 [F1 [_ [_ [_ [_ [_ [_ [Hq1 [Hr1 [O1 _]]]]]]]]]]]]].
  pose proof (pot_detach _ _ _ _ _ I (or_intror eq_refl) Hl Hq E1) as P1.
  pose proof (fd_given _ _ _ F1) as Hg1.
  apply safe3_bind. eapply safe3_of_run; [exact E1|].
  apply safe3_bind. eapply safe3_get_query; [exact (inv_heap _ _ I1)|exact Hq1|].
  apply safe3_bind. simpl.
  eapply safe3_mono; [apply safe3_with; [apply (sp_invoke _ _ (S1 f) (q_cb q) _ s1 I1 O1 Hg1)
                                        |apply (fp_invoke _ IH (q_cb q) _ s1 I1 O1 Hg1); fuel]|].
  intros [] s2 [[I2 F2] P2]. unfold fpost in P2.
  pose proof (fr_cell _ _ _ _ F2 _ _ Hq1 Hr1 (opaque_not_query _ _ _ _ O1 Hq1)) as [Hq2 Hr2].
  unfold release_query. eapply safe3_free; [exact (inv_heap _ _ I2)|exact Hq2|].
  rewrite (pot_free None s2 qo (CQuery (set_q_conn None q)) I2 Hq2 Logic.I); [fuel|]. intros H. apply Hr2. left. exact H.
Qed.

Lemma end_query_fstep f : Specs3 f -> forall qo st r s, InvX (Some qo) s -> In qo (linked s) -> need (pot s) 0 <= S f ->
  safe3 (end_query cf (S f) qo st r) s (fpost s 0 1).
Proof.
  intros IH qo st r s I Hl Hf. unfold fpost. simpl.
  destruct (inv_query _ _ I _ Hl) as [q Hq].
  apply safe3_bind. eapply safe3_get_query; [exact (inv_heap _ _ I)|exact Hq|].
  apply safe3_bind. apply safe3_pop. intros e rest Et.
  set (s1 := set_tape rest s).
  assert (E1 : core_eq s s1) by apply core_eq_set_tape.
  pose proof (pot_set_tape _ _ _ Et) as P1. fold s1 in P1.
  destruct e; try (apply safe3_fail; auto with fuel).
  destruct (negb _); [apply safe3_fail; auto with fuel|].
  eapply safe3_mono; [apply (fp_complete_query _ IH); [apply (inv_core _ _ _ E1); auto|rewrite (ce_linked _ _ E1); auto|fuel]|].
  intros [] s2 P2. unfold fpost in P2. fuel.
Qed.

Lemma requeue_query_fstep f : Specs3 f -> forall qo st inc df r s, InvX (Some qo) s -> In qo (linked s) -> need (pot s) 2 <= S f ->
  safe3 (requeue_query cf (S f) qo st inc df r) s (fpost s 0 (if df then 0 else 1)).
Proof.
  intros IH qo st inc df r s I Hl Hf. unfold fpost. simpl.
  destruct (inv_query _ _ I _ Hl) as [q Hq].
  destruct (remove_from_conn_ok _ _ _ _ I (or_intror eq_refl) Hl Hq)
    as [s1 [E1 [I1 [F1 [El [_ [_ [_ [_ [_ [_ [_ [_ [_ Hc1]]]]]]]]]]]]]].
  pose proof (pot_remove_from_conn _ _ _ _ _ I (or_intror eq_refl) Hl Hq E1) as P1.
  apply safe3_bind. eapply safe3_of_run; [exact E1|].
  assert (Hq1 : cell_of s1 qo = Some (CQuery (set_q_conn None q))) by (rewrite Hc1, Nat.eqb_refl; reflexivity).
  assert (Hl1 : In qo (linked s1)) by (unfold linked; rewrite El; exact Hl).
  apply safe3_bind. eapply safe3_get_query; [exact (inv_heap _ _ I1)|exact Hq1|].
  set (qa := if zeqb st ARES_SUCCESS then set_q_conn None q else set_q_err st (set_q_conn None q)).
  set (qb := if inc then set_q_try (S (q_try qa)) qa else qa).
  assert (Eb : q_cb qb = q_cb q /\ q_qid qb = q_qid q /\ q_conn qb = None).
  { unfold qb, qa. destruct inc, (zeqb st ARES_SUCCESS); simpl; auto. }
  destruct Eb as [Eb1 [Eb2 Eb3]].
  apply safe3_bind. eapply safe3_store; [exact (inv_heap _ _ I1)|exact Hq1|].
  destruct (store_query_misc_ok None s1 qo _ qb I1 Hq1 Eb1 Eb2 Eb3) as [I2 [F2 [_ [Ell2 [_ Hq2]]]]].
  pose proof (pot_store_query None s1 qo _ qb I1 Hq1 Eb1) as P2.
  set (s2 := store_st qo (CQuery qb) s1) in *.
  assert (Hl2 : In qo (linked s2)) by (rewrite Ell2; exact Hl1).
  apply safe3_bind. apply safe3_get.
  destruct (Nat.ltb (q_try qb) (st_nservers s2 * cf_tries cf) && negb (q_noretry qb)).
  - destruct df.
    + apply safe3_ret. fuel.
    + eapply safe3_mono; [apply (fp_send_query _ IH); auto; fuel|]. intros z s3 P3. unfold fpost in P3. fuel.
  - apply safe3_bind.
    eapply safe3_mono; [apply (fp_end_query _ IH qo _ _ s2 (inv_weaken _ _ I2) Hl2); fuel|].
    intros [] s3 P3. unfold fpost in P3. apply safe3_ret. destruct df; fuel.
Qed.

Lemma safe3_expect (m : M unit) s (Q : unit -> state -> Prop) :
  (m = expect_TS \/ m = expect_TG \/ exists k, m = expect_TCL k) ->
  (forall e r, st_tape s = e :: r -> Q tt (set_tape r s)) -> safe3 m s Q.
Proof.
  intros Hm HQ.
  assert (G : forall (g : tev -> M unit),
            (forall e s0, g e s0 = Ok (tt, s0) \/ g e s0 = Err EDESYNC) -> safe3 (mbind pop g) s Q).
  { intros g Hg. apply safe3_bind. apply safe3_pop. intros e rest Et.
    unfold safe3. destruct (Hg e (set_tape rest s)) as [->| ->]; [eapply HQ; eauto|auto with fuel]. }
  destruct Hm as [->|[->|[k ->]]]; unfold expect_TS, expect_TG, expect_TCL; apply G; intros e s0.
  - destruct e; try (right; reflexivity). left; reflexivity.
  - destruct e; try (right; reflexivity). left; reflexivity.
  - destruct e; try (right; reflexivity). destruct (Nat.eqb sock k); [left; reflexivity|right; reflexivity].
Qed.

Lemma requeue_conn_queries_fstep f : Specs3 f -> forall n co st s c, Inv s -> cell_of s co = Some (CConn c) -> ~ rooted s co ->
  need (pot s) 3 <= S f -> pot s < n ->
  safe3 (requeue_conn_queries cf (S f) n co st) s (fpost s 0 0).
Proof.
  intros IH n co st s c I Hc Hr Hf Hn. unfold fpost. destruct n as [|n']; simpl; [lia|].
  apply safe3_bind. eapply safe3_get_conn; [exact (inv_heap _ _ I)|exact Hc|].
  destruct (c_queries c) as [|qo rest] eqn:Eq.
  - apply safe3_ret. lia.
  - assert (Hqo : In qo (c_queries c)) by (rewrite Eq; left; auto).
    destruct (inv_connq _ _ I _ _ _ Hc Hqo) as [Hl _].
    apply safe3_bind.
    eapply safe3_mono; [apply safe3_with; [apply (sp_requeue_query _ _ (S1 f) qo st true false (res st) s (inv_weaken _ _ I) Hl)
                                          |apply (fp_requeue_query _ IH qo st true false (res st) s (inv_weaken _ _ I) Hl); fuel]|].
    intros z s1 [[I1 F1] P1]. unfold fpost in P1.
    pose proof (fr_cell _ _ _ _ F1 _ _ Hc Hr (fun H => H)) as [c1 [Hc1 [Hr1 _]]].
    eapply safe3_mono; [apply (fp_requeue_conn_queries _ IH n' co st s1 c1); auto; fuel|].
    intros [] s2 P2. unfold fpost in P2. lia.
Qed.

Lemma close_connection_fstep f : Specs3 f -> forall co st s c, Inv s -> cell_of s co = Some (CConn c) -> need (pot s) 4 <= S f ->
  safe3 (close_connection cf (S f) co st) s (fpost s 0 1).
Proof.
  intros IH co st s c I Hc Hf. unfold fpost. simpl.
  apply safe3_bind. eapply safe3_get_conn; [exact (inv_heap _ _ I)|exact Hc|].
  apply safe3_bind. apply safe3_modify.
  destruct (conns_remove_ok None s co I) as [I1 [F1 [Hn1 [Ech1 Ell1]]]].
  pose proof (pot_conns_remove s co) as P1.
  set (s1 := set_conns (remove_nat co (st_conns s)) s) in *.
  assert (Hc1 : cell_of s1 co = Some (CConn c)) by exact Hc.
  assert (Hr1 : ~ rooted s1 co).
  { intros [H|[H|[H|H]]].
    - destruct (inv_query _ _ I1 _ H) as [q Hq]. rewrite Hc1 in Hq. discriminate.
    - exact (Hn1 H).
    - destruct (inv_chain _ _ I1) as [_ Hop]. rewrite (Hop _ H) in Hc1. discriminate.
    - destruct (hi_objs _ (inv_hosts _ _ I1)) as [_ Hop]. destruct (Hop _ H) as [Hop' _]. rewrite Hop' in Hc1. discriminate. }
  apply safe3_bind.
  eapply safe3_mono; [apply safe3_with; [apply (sp_requeue_conn_queries _ _ (S1 f) f co st s1 c I1 Hc1 Hr1)
                                        |apply (fp_requeue_conn_queries _ IH f co st s1 c I1 Hc1 Hr1); fuel]|].
  intros [] s2 [[I2 [F2 [c2 [Hc2 Eq2]]]] P2]. unfold fpost in P2.
  apply safe3_bind. eapply safe3_get_conn; [exact (inv_heap _ _ I2)|exact Hc2|].
  apply safe3_bind. apply safe3_expect; [right; right; eexists; reflexivity|].
  intros e3 l3 Et3. set (s3 := set_tape l3 s2).
  assert (E3 : core_eq s2 s3) by apply core_eq_set_tape.
  assert (I3 : Inv s3) by (apply (inv_core _ _ _ E3); auto).
  assert (Hc3 : cell_of s3 co = Some (CConn c2)) by exact Hc2.
  pose proof (pot_set_tape _ _ _ Et3) as P3. fold s3 in P3.
  rewrite (fx_connread_true cf Hfix). simpl. destruct (c_reading c2).
  - eapply safe3_store; [exact (inv_heap _ _ I3)|exact Hc3|].
    rewrite (pot_store_unlinked None s3 co (CConn c2) (CConn (set_c_closed true c2)) I3 Hc3 Logic.I Logic.I (conn_unlinked _ _ _ _ I3 Hc3)). fuel.
  - eapply safe3_free; [exact (inv_heap _ _ I3)|exact Hc3|].
    rewrite (pot_free None s3 co (CConn c2) I3 Hc3 Logic.I (conn_unlinked _ _ _ _ I3 Hc3)). fuel.
Qed.

Lemma handle_conn_error_fstep f : Specs3 f -> forall co cr st s c, Inv s -> cell_of s co = Some (CConn c) ->
  need (pot s) 5 <= S f -> safe3 (handle_conn_error cf (S f) co cr st) s (fpost s 0 1).
Proof.
  intros IH co cr st s c I Hc Hf. unfold fpost. simpl.
  apply safe3_bind. eapply safe3_get_conn; [exact (inv_heap _ _ I)|exact Hc|].
  assert (G : forall s1, core_eq s s1 -> pot s1 <= pot s ->
            safe3 (let! e := pop in
                   match e with
                   | TX sock st' => if Nat.eqb sock (c_sock c) && zeqb st st' then close_connection cf f co st else fail EDESYNC
                   | _ => fail EDESYNC end) s1 (fun _ s' => pot s' + 1 <= pot s + 0)).
  { intros s1 E1 P1. apply safe3_bind. apply safe3_pop. intros e rest Et.
    pose proof (pot_set_tape _ _ _ Et) as P2.
    destruct e; try (apply safe3_fail; auto with fuel).
    destruct (Nat.eqb sock (c_sock c) && zeqb st st0); [|apply safe3_fail; auto with fuel].
    set (s2 := set_tape rest s1) in *.
    assert (E2 : core_eq s s2) by (eapply core_eq_trans; [exact E1|apply core_eq_set_tape]).
    eapply safe3_mono; [apply (fp_close_connection _ IH co st s2 c); [apply (ce_inv _ _ _ E2); auto|rewrite (ce_cell _ _ _ E2); exact Hc|fuel]|].
    intros [] s3 P3. unfold fpost in P3. fuel. }
  destruct cr.
  - apply safe3_bind. apply safe3_expect; [left; reflexivity|]. intros e r Et.
    apply G; [apply core_eq_set_tape|]. pose proof (pot_set_tape _ _ _ Et). lia.
  - apply safe3_bind. apply safe3_ret. apply G; [apply core_eq_refl|lia].
Qed.

Lemma cleanup_loop_fstep f : Specs3 f -> forall n s, Inv s -> need (pot s) 5 <= S f -> pot s < n ->
  safe3 (cleanup_loop cf (S f) n) s (fpost s 0 0).
Proof.
  intros IH n s I Hf Hn. unfold fpost. destruct n as [|n']; simpl; [lia|].
  apply safe3_bind. apply safe3_peek.
  destruct (hd_error (st_tape s)) as [e|]; [|apply safe3_fail; auto with fuel].
  destruct e; try (apply safe3_fail; auto with fuel).
  - destruct (find_conn_by_sock_ok _ s sock I) as [r [E1 Hr]].
    apply safe3_bind. eapply safe3_of_run; [exact E1|].
    destruct r as [co|]; [|apply safe3_fail; auto with fuel].
    destruct (Hr _ eq_refl) as [Hin [c [Hc Hncl]]].
    apply safe3_bind. eapply safe3_get_conn; [exact (inv_heap _ _ I)|exact Hc|].
    destruct (c_queries c); [|apply safe3_fail; auto with fuel].
    apply safe3_bind.
    eapply safe3_mono; [apply safe3_with; [apply (sp_close_connection _ _ (S1 f) co ARES_SUCCESS s c I Hc)
                                          |apply (fp_close_connection _ IH co ARES_SUCCESS s c I Hc); fuel]|].
    intros [] s1 [[I1 _] P1]. unfold fpost in P1.
    eapply safe3_mono; [apply (fp_cleanup_loop _ IH); auto; fuel|]. intros [] s2 P2. unfold fpost in P2. lia.
  - apply safe3_bind. apply safe3_pop. intros e rest Et. apply safe3_ret.
    pose proof (pot_set_tape _ _ _ Et). lia.
Qed.

Lemma check_cleanup_fstep f : Specs3 f -> forall s, Inv s -> need (pot s) 6 <= S f ->
  safe3 (check_cleanup cf (S f)) s (fpost s 0 0).
Proof.
  intros IH s I Hf. unfold fpost. simpl. apply safe3_bind. apply safe3_pop. intros e rest Et.
  destruct e; try (apply safe3_fail; auto with fuel).
  assert (E1 : core_eq s (set_tape rest s)) by apply core_eq_set_tape.
  pose proof (pot_set_tape _ _ _ Et) as P1.
  eapply safe3_mono; [apply (fp_cleanup_loop _ IH); [apply (ce_inv _ _ _ E1); auto|fuel|fuel]|].
  intros [] s2 P2. unfold fpost in P2. lia.
Qed.

Lemma set_servers_loop_fstep f : Specs3 f -> forall n s, Inv s -> need (pot s) 5 <= S f -> pot s < n ->
  safe3 (set_servers_loop cf (S f) n) s (fpost s 0 0).
Proof.
  intros IH n s I Hf Hn. unfold fpost. destruct n as [|n']; simpl; [lia|].
  apply safe3_bind. apply safe3_get.
  assert (G : forall co c, cell_of s co = Some (CConn c) ->
            safe3 (close_connection cf f co ARES_SUCCESS;; set_servers_loop cf f n') s (fun _ s' => pot s' + 0 <= pot s + 0)).
  { intros co c Hc. apply safe3_bind.
    eapply safe3_mono; [apply safe3_with; [apply (sp_close_connection _ _ (S1 f) co ARES_SUCCESS s c I Hc)
                                          |apply (fp_close_connection _ IH co ARES_SUCCESS s c I Hc); fuel]|].
    intros [] s1 [[I1 _] P1]. unfold fpost in P1.
    eapply safe3_mono; [apply (fp_set_servers_loop _ IH); auto; fuel|]. intros [] s2 P2. unfold fpost in P2. lia. }
  destruct (close_victim (st_tape s)) as [[|sock|qid]|]; [| | |apply safe3_fail; auto with fuel].
  - apply safe3_bind. apply safe3_pop. intros e rest Et. apply safe3_ret. pose proof (pot_set_tape _ _ _ Et). lia.
  - destruct (find_conn_by_sock_ok _ s sock I) as [r [E1 Hr]].
    apply safe3_bind. eapply safe3_of_run; [exact E1|].
    destruct r as [co|]; [|apply safe3_fail; auto with fuel].
    destruct (Hr _ eq_refl) as [Hin [c [Hc Hncl]]]. apply (G co c); auto.
  - destruct (lookup qid (st_byqid s)) as [qo|] eqn:Lk; [|apply safe3_fail; auto with fuel].
    destruct (inv_byqid _ _ I _ _ Lk) as [Hl _]. destruct (inv_query _ _ I _ Hl) as [q Hq].
    apply safe3_bind. eapply safe3_get_query; [exact (inv_heap _ _ I)|exact Hq|].
    destruct (q_conn q) as [co|]; [|apply safe3_fail; auto with fuel].
    destruct (memb co (st_conns s)) eqn:Mb; [|apply safe3_fail; auto with fuel].
    apply memb_In in Mb. destruct (inv_conns _ _ I) as [_ Hcc]. destruct (Hcc _ Mb) as [c [Hc _]].
    apply (G co c); auto.
Qed.

Lemma set_servers_fstep f : Specs3 f -> forall s, Inv s -> need (pot s) 6 <= S f -> safe3 (set_servers cf (S f)) s (fpost s 0 0).
Proof.
  intros IH s I Hf. unfold fpost. simpl. apply safe3_bind. apply safe3_pop. intros e rest Et.
  destruct e; try (apply safe3_fail; auto with fuel).
  apply safe3_bind. apply safe3_modify.
  set (s1 := set_nservers n (set_tape rest s)).
  assert (E1 : core_eq s s1) by (eapply core_eq_trans; [apply core_eq_set_tape|apply core_eq_set_nservers]).
  pose proof (pot_set_tape _ _ _ Et) as P1. change (pot (set_tape rest s)) with (pot s1) in P1.
  eapply safe3_mono; [apply (fp_set_servers_loop _ IH); [apply (ce_inv _ _ _ E1); auto|fuel|fuel]|].
  intros [] s2 P2. unfold fpost in P2. lia.
Qed.

Lemma cancel_loop_fstep f : Specs3 f -> forall n s, Inv s -> need (pot s) 2 <= S f -> pot s < n ->
  safe3 (cancel_loop_fixed cf (S f) n) s (fpost s 0 0).
Proof.
  intros IH n s I Hf Hn. unfold fpost. destruct n as [|n']; simpl; [lia|].
  apply safe3_bind. apply safe3_get.
  destruct (st_lists s) as [|a [|[|qo l] r]] eqn:El; try (apply safe3_ret; lia).
  assert (Hl : In qo (linked s)).
  { unfold linked. rewrite El. simpl. apply in_or_app. right. left. reflexivity. }
  apply safe3_bind.
  eapply safe3_mono; [apply safe3_with; [apply (sp_complete_query _ _ (S1 f) qo _ s (inv_weaken _ _ I) Hl)
                                        |apply (fp_complete_query _ IH qo _ s (inv_weaken _ _ I) Hl); fuel]|].
  intros [] s1 [[I1 _] P1]. unfold fpost in P1.
  eapply safe3_mono; [apply (fp_cancel_loop _ IH); auto; fuel|]. intros [] s2 P2. unfold fpost in P2. lia.
Qed.

Lemma mark_cancelled_pot l : forall s, Inv s -> incl l (linked s) ->
  safe3 (mark_cancelled l) s (fun _ s' => pot s' = pot s).
Proof.
  induction l as [|qo r IHr]; intros s I Hl; simpl.
  - apply safe3_ret. reflexivity.
  - assert (Hq0 : In qo (linked s)) by (apply Hl; left; auto).
    destruct (inv_query _ _ I _ Hq0) as [q Hq].
    apply safe3_bind. apply safe3_bind. eapply safe3_get_query; [exact (inv_heap _ _ I)|exact Hq|].
    eapply safe3_store; [exact (inv_heap _ _ I)|exact Hq|].
    destruct (store_query_misc_ok None s qo q (set_q_cancelled true q) I Hq eq_refl eq_refl eq_refl) as [I1 [F1 [_ [Ell1 _]]]].
    pose proof (pot_store_query None s qo q (set_q_cancelled true q) I Hq eq_refl) as P1.
    eapply safe3_mono; [apply (IHr _ I1)|].
    + intros y Hy. rewrite Ell1. apply Hl. right. exact Hy.
    + intros [] s2 P2. simpl in P2. rewrite P2. exact P1.
Qed.

Lemma cancel_fstep f : Specs3 f -> forall s, Inv s -> need (pot s) 7 <= S f -> safe3 (cancel cf (S f)) s (fpost s 0 0).
Proof.
  intros IH s I Hf. unfold fpost. rewrite cancel_unfold. apply safe3_bind. apply safe3_get.
  assert (G : forall s1, Inv s1 -> pot s1 <= pot s -> safe3 (check_cleanup cf f) s1 (fun _ s' => pot s' + 0 <= pot s + 0)).
  { intros s1 I1 P1. eapply safe3_mono; [apply (fp_check_cleanup _ IH); auto; fuel|]. intros [] s2 P2. unfold fpost in P2. lia. }
  destruct (st_lists s) as [|[|q0 l0] rest] eqn:El.
  - apply safe3_bind. apply safe3_ret. apply G; auto.
  - apply safe3_bind. apply safe3_ret. apply G; auto.
  - apply safe3_bind. apply safe3_bind. apply safe3_modify.
    assert (Ec : concat ([] :: (q0 :: l0) :: rest) = linked s) by (unfold linked; rewrite El; reflexivity).
    destruct (lists_same_linked None s ([] :: (q0 :: l0) :: rest) Ec I) as [I1 [F1 _]].
    pose proof (pot_set_lists s _ Ec) as P1.
    rewrite (fx_unlink_true cf Hfix), (fx_cancelmark_true cf Hfix).
    assert (Hin1 : incl (q0 :: l0) (linked (set_lists ([] :: (q0 :: l0) :: rest) s))).
    { intros y Hy. unfold linked. simpl. destruct Hy as [->|Hy]; [left; auto|right; apply in_or_app; left; exact Hy]. }
    apply safe3_bind.
    eapply safe3_mono; [apply safe3_with; [apply (mark_cancelled_ok (q0 :: l0) _ I1 Hin1)|apply (mark_cancelled_pot (q0 :: l0) _ I1 Hin1)]|].
    intros [] sm [[Im _] Pm]. simpl in Pm.
    apply safe3_bind.
    eapply safe3_mono; [apply safe3_with; [apply (sp_cancel_loop _ _ (S1 f) f _ Im)|apply (fp_cancel_loop _ IH f _ Im); fuel]|].
    intros [] s2 [[I2 [F2 Hsh]] P2]. unfold fpost in P2.
    apply safe3_modify.
    set (ls2 := match st_lists s2 with a :: _ :: r => a :: r | x => x end).
    assert (Ec2 : concat ls2 = linked s2).
    { unfold ls2, linked. destruct (st_lists s2) as [|a [|[|qo l] r]]; auto. exfalso. eapply Hsh. reflexivity. }
    destruct (lists_same_linked None s2 ls2 Ec2 I2) as [I3 _].
    pose proof (pot_set_lists s2 _ Ec2) as P3.
    apply G; auto. lia.
Qed.

(* ---- ares_send_query ---- *)
Lemma send_query_write_fstep f : Specs3 f -> forall qo op s, Inv s -> In qo (linked s) -> need (pot s) 0 <= S f ->
  safe3 (send_query_write cf (S f) qo op) s (fpost s 0 1).
Proof.
  intros IH qo op s I Hl Hf. unfold fpost. simpl.
  destruct (inv_query _ _ I _ Hl) as [q Hq].
  apply safe3_bind. eapply safe3_get_query; [exact (inv_heap _ _ I)|exact Hq|].
  apply safe3_bind. apply safe3_pop. intros e rest Et.
  destruct e; try (apply safe3_fail; auto with fuel).
  destruct (negb (Nat.eqb qid (q_qid q))); [apply safe3_fail; auto with fuel|].
  set (s1 := set_tape rest s).
  assert (E1 : core_eq s s1) by apply core_eq_set_tape.
  assert (I1 : Inv s1) by (apply (ce_inv _ _ _ E1); auto).
  assert (Hl1 : In qo (linked s1)) by (rewrite (ce_linked _ _ E1); exact Hl).
  pose proof (pot_set_tape _ _ _ Et) as P1. fold s1 in P1.
  assert (G : forall sA co cA, Inv sA -> pot sA + 3 <= pot s -> In qo (linked sA) -> In co (st_conns sA) ->
            cell_of sA co = Some (CConn cA) -> c_closed cA = false ->
            safe3 (let! _ := get_conn co in
                  let! e2 := peek in
                  let! wrc := match e2 with
                              | Some (TF s2 rc) => if Nat.eqb s2 sock then (let! _ := pop in ret rc) else ret ARES_SUCCESS
                              | _ => ret ARES_SUCCESS end in
                  if zeqb wrc ARES_SUCCESS
                  then attach_frag qo co tcp;;
                       (let! s0 := get in
                        (if probe_ahead (st_tape s0) then let! _ := send_nolock cf f KProbe true None in ret tt else ret tt));;
                       ret ARES_SUCCESS
                  else if zeqb wrc ARES_ENOMEM
                  then end_query cf f qo wrc (res wrc);; ret wrc
                  else if is_retryable wrc
                  then handle_conn_error cf f co true wrc;;
                       (if fx_revalidate (cf_fix cf)
                        then let! s0 := get in
                             match lookup (q_qid q) (st_byqid s0) with
                             | Some qo' => requeue_query cf f qo' wrc true false (res wrc)
                             | None => ret ARES_ECANCELLED end
                        else requeue_query cf f qo wrc true false (res wrc))
                  else expect_TS;; requeue_query cf f qo wrc true false (res wrc)) sA (fun _ s' => pot s' + 1 <= pot s + 0)).
  { intros sA co cA IA PA HlA HinA HcA HnclA.
    apply safe3_bind. eapply safe3_get_conn; [exact (inv_heap _ _ IA)|exact HcA|].
    apply safe3_bind. apply safe3_peek.
    assert (W : forall wrc sB, core_eq sA sB -> pot sB <= pot sA ->
              safe3 (if zeqb wrc ARES_SUCCESS
                    then attach_frag qo co tcp;;
                         (let! s0 := get in
                          (if probe_ahead (st_tape s0) then let! _ := send_nolock cf f KProbe true None in ret tt else ret tt));;
                         ret ARES_SUCCESS
                    else if zeqb wrc ARES_ENOMEM
                    then end_query cf f qo wrc (res wrc);; ret wrc
                    else if is_retryable wrc
                    then handle_conn_error cf f co true wrc;;
                         (if fx_revalidate (cf_fix cf)
                          then let! s0 := get in
                               match lookup (q_qid q) (st_byqid s0) with
                               | Some qo' => requeue_query cf f qo' wrc true false (res wrc)
                               | None => ret ARES_ECANCELLED end
                          else requeue_query cf f qo wrc true false (res wrc))
                    else expect_TS;; requeue_query cf f qo wrc true false (res wrc)) sB (fun _ s' => pot s' + 1 <= pot s + 0)).
    { intros wrc sB EB PB.
      assert (IB : Inv sB) by (apply (ce_inv _ _ _ EB); auto).
      assert (HlB : In qo (linked sB)) by (rewrite (ce_linked _ _ EB); exact HlA).
      assert (HinB : In co (st_conns sB)) by (rewrite (ce_conns _ _ EB); exact HinA).
      assert (HcB : cell_of sB co = Some (CConn cA)) by (rewrite (ce_cell _ _ _ EB); exact HcA).
      destruct (zeqb wrc ARES_SUCCESS).
      - destruct (inv_query _ _ IB _ HlB) as [qB HqB].
        destruct (attach_run sB qo qB co cA tcp IB HlB HqB HinB HcB HnclA) as [sC [EC [IC _]]].
        pose proof (pot_attach sB qo qB co cA tcp sC IB HlB HqB HinB HcB HnclA EC) as PC.
        apply safe3_bind. eapply safe3_of_run; [exact EC|].
        apply safe3_bind. apply safe3_bind. apply safe3_get.
        destruct (probe_ahead (st_tape sC)).
        + apply safe3_bind.
          eapply safe3_mono; [apply (fp_send_nolock _ IH KProbe true None sC IC (own_nil _) Logic.I Logic.I); fuel|].
          intros z sD PD. unfold fpost in PD. apply safe3_ret. apply safe3_ret. fuel.
        + apply safe3_ret. apply safe3_ret. fuel.
      - destruct (zeqb wrc ARES_ENOMEM).
        + apply safe3_bind. eapply safe3_mono; [apply (fp_end_query _ IH); [apply inv_weaken; exact IB|exact HlB|fuel]|].
          intros [] sC PC. unfold fpost in PC. apply safe3_ret. fuel.
        + destruct (is_retryable wrc).
          * apply safe3_bind.
            eapply safe3_mono; [apply safe3_with; [apply (sp_handle_conn_error _ _ (S1 f) co true wrc sB cA IB HcB)
                                                  |apply (fp_handle_conn_error _ IH co true wrc sB cA IB HcB); fuel]|].
            intros [] sC [[IC _] PC]. unfold fpost in PC. rewrite (fx_revalidate_true cf Hfix).
            apply safe3_bind. apply safe3_get.
            destruct (lookup (q_qid q) (st_byqid sC)) as [qo'|] eqn:Lk.
            -- destruct (inv_byqid _ _ IC _ _ Lk) as [Hl' _].
               eapply safe3_mono; [apply (fp_requeue_query _ IH); [apply inv_weaken; exact IC|exact Hl'|fuel]|].
               intros z sD PD. unfold fpost in PD. fuel.
            -- apply safe3_ret. fuel.
          * apply safe3_bind. apply safe3_expect; [left; reflexivity|]. intros e2 r2 Et2.
            pose proof (pot_set_tape _ _ _ Et2) as PC.
            assert (EC : core_eq sB (set_tape r2 sB)) by apply core_eq_set_tape.
            eapply safe3_mono; [apply (fp_requeue_query _ IH qo wrc true false (res wrc) (set_tape r2 sB));
                               [apply inv_weaken; apply (ce_inv _ _ _ EC); auto|rewrite (ce_linked _ _ EC); exact HlB|fuel]|].
            intros z sD PD. unfold fpost in PD. fuel. }
    destruct (hd_error (st_tape sA)) as [e2|] eqn:Eh; [|apply safe3_bind; apply safe3_ret; apply W; [apply core_eq_refl|lia]].
    destruct e2; try (apply safe3_bind; apply safe3_ret; apply W; [apply core_eq_refl|lia]).
    destruct (Nat.eqb sock0 sock).
    - apply safe3_bind. apply safe3_bind. apply safe3_pop. intros e3 rest3 Et3. apply safe3_ret.
      apply W; [apply core_eq_set_tape|]. pose proof (pot_set_tape _ _ _ Et3). lia.
    - apply safe3_bind. apply safe3_ret. apply W; [apply core_eq_refl|lia]. }
  destruct (find_conn_by_sock_ok _ s1 sock I1) as [ex [Ef Hex]].
  apply safe3_bind. eapply safe3_of_run; [exact Ef|].
  destruct ex as [co|]; destruct op; try (apply safe3_bind; apply safe3_fail; auto with fuel).
  - destruct (Hex _ eq_refl) as [Hin [c [Hc Hncl]]].
    apply safe3_bind. apply safe3_ret. apply (G s1 co c); auto. fuel.
  - apply safe3_bind. apply safe3_bind. apply safe3_alloc. apply safe3_bind. apply safe3_modify. apply safe3_ret.
    set (c0 := {| c_sock := sock; c_tcp := tcp; c_queries := []; c_reading := false; c_closed := false |}).
    destruct (new_conn_ok None s1 c0 I1 eq_refl eq_refl) as [I2 [F2 [Hc2 [Hin2 [_ [Ell2 _]]]]]].
    pose proof (pot_new_conn None s1 c0 I1) as P2.
    eapply (G _ (st_next s1) c0); auto.
    change (st_conns (alloc_st (CConn c0) s1)) with (st_conns s1). fuel.
Qed.

Lemma send_query_fstep f : Specs3 f -> forall qo s, Inv s -> In qo (linked s) -> need (pot s) 1 <= S f ->
  safe3 (send_query cf (S f) qo) s (fpost s 0 1).
Proof.
  intros IH qo s I Hl Hf. unfold fpost. simpl.
  destruct (inv_query _ _ I _ Hl) as [q Hq].
  apply safe3_bind. eapply safe3_get_query; [exact (inv_heap _ _ I)|exact Hq|].
  apply safe3_bind. apply safe3_get.
  destruct (Nat.eqb (st_nservers s) 0).
  { apply safe3_bind. eapply safe3_mono; [apply (fp_end_query _ IH); [apply inv_weaken; exact I|exact Hl|fuel]|].
    intros [] s2 P2. unfold fpost in P2. apply safe3_ret. fuel. }
  apply safe3_bind. apply safe3_peek.
  assert (Dflt : safe3 (send_query_write cf f qo false) s (fun _ s' => pot s' + 1 <= pot s + 0)).
  { eapply safe3_mono; [apply (fp_send_query_write _ IH); auto; fuel|]. intros z s2 P2. exact P2. }
  destruct (hd_error (st_tape s)) as [e|] eqn:Eh; [|exact Dflt].
  destruct e; try exact Dflt.
  apply safe3_bind. apply safe3_pop. intros e rest Et.
  set (s1 := set_tape rest s).
  assert (E1 : core_eq s s1) by apply core_eq_set_tape.
  assert (I1 : Inv s1) by (apply (ce_inv _ _ _ E1); auto).
  assert (Hl1 : In qo (linked s1)) by (rewrite (ce_linked _ _ E1); exact Hl).
  pose proof (pot_set_tape _ _ _ Et) as P1. fold s1 in P1.
  destruct (zeqb rc ARES_SUCCESS).
  - eapply safe3_mono; [apply (fp_send_query_write _ IH); auto; fuel|]. intros z s2 P2. unfold fpost in P2. fuel.
  - destruct (is_retryable rc).
    + apply safe3_bind. apply safe3_expect; [left; reflexivity|]. intros e2 r2 Et2.
      pose proof (pot_set_tape _ _ _ Et2) as P2.
      assert (E2 : core_eq s1 (set_tape r2 s1)) by apply core_eq_set_tape.
      eapply safe3_mono; [apply (fp_requeue_query _ IH qo rc true false (res rc) (set_tape r2 s1));
                         [apply inv_weaken; apply (ce_inv _ _ _ E2); auto|rewrite (ce_linked _ _ E2); exact Hl1|fuel]|].
      intros z s3 P3. unfold fpost in P3. fuel.
    + apply safe3_bind. eapply safe3_mono; [apply (fp_end_query _ IH); [apply inv_weaken; exact I1|exact Hl1|fuel]|].
      intros [] s2 P2. unfold fpost in P2. apply safe3_ret. fuel.
Qed.


Lemma pot_set_tape_lt s l : length l < length (st_tape s) -> pot (set_tape l s) + wT <= pot s.
Proof. intros H. pose proof (pot_tape_eq s l) as E. unfold wT in *. lia. Qed.

Lemma gen_qid_fuel n : forall s (Q : nat -> state -> Prop),
  (forall qid l, lookup qid (st_byqid s) = None -> length l < length (st_tape s) -> Q qid (set_tape l s)) -> safe3 (gen_qid n) s Q.
Proof.
  induction n as [|n IHn]; intros s Q HQ; simpl; [apply safe3_fail; auto with fuel|].
  apply safe3_bind. apply safe3_pop. intros e rest Et. destruct e; try (apply safe3_fail; auto with fuel).
  apply safe3_bind. apply safe3_get.
  destruct (lookup qid (st_byqid (set_tape rest s))) eqn:Lk.
  - apply IHn. intros qid' l L2 Hl. apply (HQ qid' l); [exact L2|]. simpl in Hl. rewrite Et. simpl. lia.
  - apply safe3_ret. apply HQ; [exact Lk|]. rewrite Et. simpl. lia.
Qed.

Lemma hpot_shared s o h : shared_at s o = Some h -> hpot s o = hsize h.
Proof. intros H. unfold hpot. rewrite H. reflexivity. Qed.
Lemma hpot_excl s o h : cell_of s o = Some (CHost h) -> h_remaining h = 0 -> hpot s o = 0.
Proof. intros Hc Hz. unfold hpot, shared_at. rewrite Hc, Hz. reflexivity. Qed.

Lemma write_qid_pot qd qid k s : Inv s -> QdOk qd k -> (forall o, kbot k = Some o -> exists h, shared_at s o = Some h) ->
  safe3 (write_qid qd qid) s (fun _ s' => pot s' = pot s).
Proof.
  intros I Hqd Hk. unfold write_qid. destruct qd as [[o aaaa]|]; [|apply safe3_ret; reflexivity].
  simpl in Hqd. destruct (Hk _ Hqd) as [h Hs]. destruct (shared_host _ _ _ Hs) as [Hc Hp].
  unfold get_host. apply safe3_bind. apply safe3_bind. eapply safe3_touch; [exact (inv_heap _ _ I)|exact Hc|].
  apply safe3_ret. eapply safe3_store; [exact (inv_heap _ _ I)|exact Hc|].
  match goal with |- pot (store_st o (CHost ?hx) s) = _ =>
    pose proof (pot_host_store None s o h hx I Hc) as P; simpl in P;
    assert (Hs' : shared_at (store_st o (CHost hx) s) o = Some hx)
  end.
  { apply shared_intro; [rewrite cell_store, Nat.eqb_refl; reflexivity|destruct aaaa; exact Hp]. }
  rewrite (hpot_shared _ _ _ Hs), (hpot_shared _ _ _ Hs') in P.
  destruct aaaa; unfold hsize in P; simpl in P; unfold hsize; nlia.
Qed.

Lemma send_nolock_fstep f : Specs3 f -> forall k pr qd s, Inv s -> Own s (cobjs k) -> GivenOk s (kbot k) -> QdOk qd k ->
  need (pot s + csize k) 0 <= S f -> safe3 (send_nolock cf (S f) k pr qd) s (fpost s (csize k) 1).
Proof.
  intros IH k pr qd s I O Hn Hqd Hf. unfold fpost. rewrite send_nolock_unfold. rewrite (fx_qidearly_true cf Hfix). simpl negb. cbn [andb].
  apply safe3_bind. apply gen_qid_fuel. intros qid l1 Lk1 Hl1.
  set (s1 := set_tape l1 s).
  assert (E1 : core_eq s s1) by apply core_eq_set_tape.
  pose proof (pot_set_tape_lt s l1 Hl1) as P1. fold s1 in P1.
  assert (G : forall cached l2, length l2 < length (st_tape s) ->
            safe3 (match cached with
                  | Some r => invoke cf f k r;; ret (r_status r)
                  | None =>
                      let! e := pop in
                      match e with
                      | TD rc =>
                          if negb (zeqb rc ARES_SUCCESS)
                          then let st := if zeqb rc ARES_EBADRESP then ARES_EBADQUERY else rc in
                               invoke cf f k (res st);; ret st
                          else (if cf_dns0x20 cf
                                then let! e0 := peek in
                                     match e0 with Some (TN _) => let! _ := pop in ret tt | _ => ret tt end
                                else ret tt);;
                               (let! qo := alloc (CQuery {| q_qid := qid; q_cb := k; q_conn := None; q_try := 0;
                                                           q_noretry := pr; q_tcp := false; q_err := ARES_SUCCESS; q_cancelled := false |}) in
                                link_all qo;;
                                modify (fun s0 => set_byqid ((qid, qo) :: st_byqid s0) s0);;
                                write_qid qd qid;;
                                (let! st := send_query cf f qo in ret tt;; ret st))
                      | _ => fail EDESYNC end
                  end) (set_tape l2 s) (fun _ s' => pot s' + 1 <= pot s + csize k)).
  { intros cached l2 Hl2. set (s2 := set_tape l2 s).
    assert (E2 : core_eq s s2) by apply core_eq_set_tape.
    assert (I2 : Inv s2) by (apply (inv_core _ _ _ E2); auto).
    assert (O2 : Own s2 (cobjs k)) by (apply (own_core' _ _ _ E2); auto).
    assert (Hn2 : GivenOk s2 (kbot k)) by (apply (given_core _ _ _ E2); auto).
    pose proof (pot_set_tape_lt s l2 Hl2) as P2. fold s2 in P2.
    destruct cached as [r|].
    - apply safe3_bind. eapply safe3_mono; [apply (fp_invoke _ IH k r s2 I2 O2 Hn2); fuel|].
      intros [] s3 P3. unfold fpost in P3. apply safe3_ret. fuel.
    - apply safe3_bind. apply safe3_pop. intros e rest Et. destruct e; try (apply safe3_fail; auto with fuel).
      set (s3 := set_tape rest s2).
      assert (E3 : core_eq s s3) by (unfold core_eq; repeat split).
      assert (I3 : Inv s3) by (apply (inv_core _ _ _ E3); auto).
      assert (O3 : Own s3 (cobjs k)) by (apply (own_core' _ _ _ E3); auto).
      assert (Hn3 : GivenOk s3 (kbot k)) by (apply (given_core _ _ _ E3); auto).
      pose proof (pot_set_tape _ _ _ Et) as P3. fold s3 in P3.
      destruct (negb (zeqb rc ARES_SUCCESS)).
      + cbv zeta. apply safe3_bind. eapply safe3_mono; [apply (fp_invoke _ IH k _ s3 I3 O3 Hn3); fuel|].
        intros [] s4 P4. unfold fpost in P4. apply safe3_ret. fuel.
      + assert (D : forall l4, length l4 < length (st_tape s) ->
                  safe3 (let! qo := alloc (CQuery {| q_qid := qid; q_cb := k; q_conn := None; q_try := 0;
                                                    q_noretry := pr; q_tcp := false; q_err := ARES_SUCCESS; q_cancelled := false |}) in
                        link_all qo;;
                        modify (fun s0 => set_byqid ((qid, qo) :: st_byqid s0) s0);;
                        write_qid qd qid;;
                        (let! st := send_query cf f qo in ret tt;; ret st))
                       (set_tape l4 s) (fun _ s' => pot s' + 1 <= pot s + csize k)).
        { intros l4 Hl4. set (s4 := set_tape l4 s).
          assert (E4 : core_eq s s4) by apply core_eq_set_tape.
          assert (I4 : Inv s4) by (apply (inv_core _ _ _ E4); auto).
          assert (O4 : Own s4 (cobjs k)) by (apply (own_core' _ _ _ E4); auto).
          assert (Hn4 : GivenOk s4 (kbot k)) by (apply (given_core _ _ _ E4); auto).
          pose proof (pot_set_tape_lt s l4 Hl4) as P4. fold s4 in P4.
          set (q0 := {| q_qid := qid; q_cb := k; q_conn := None; q_try := 0; q_noretry := pr; q_tcp := false; q_err := ARES_SUCCESS; q_cancelled := false |}).
          destruct (new_query_ok s4 k qid q0 I4 O4 Hn4 Lk1 eq_refl eq_refl eq_refl) as [I5 [F5 [Hl5 [Hq5 _]]]].
          pose proof (pot_new_query s4 k qid q0 I4 O4 Hn4 Lk1 eq_refl eq_refl eq_refl) as P5. simpl in P5.
          apply safe3_bind. apply safe3_alloc.
          apply safe3_bind. eapply safe3_of_run; [apply link_all_run|].
          apply safe3_bind. apply safe3_modify.
          assert (Hk5 : forall o, kbot k = Some o -> exists h, shared_at
                     (set_byqid ((qid, st_next s4) :: st_byqid (set_lists (link_lists (st_next s4) (st_lists s4)) (alloc_st (CQuery q0) s4)))
                        (set_lists (link_lists (st_next s4) (st_lists s4)) (alloc_st (CQuery q0) s4))) o = Some h).
          { intros o Ek. destruct (hi_ref _ (inv_hosts _ _ I5) _ o Hl5) as [h Hs]; eauto.
            unfold href. rewrite Hq5. exact Ek. }
          apply safe3_bind.
          eapply safe3_mono; [apply safe3_with; [apply (write_qid_ok qd qid k _ I5 Hqd Hk5)|apply (write_qid_pot qd qid k _ I5 Hqd Hk5)]|].
          intros [] s6 [[I6 [F6 Ell6]] P6]. simpl in P6.
          apply safe3_bind. eapply safe3_mono; [apply (fp_send_query _ IH _ _ I6); [rewrite Ell6; exact Hl5|fuel]|].
          intros z s7 P7. unfold fpost in P7. apply safe3_bind. apply safe3_ret. apply safe3_ret. fuel. }
        assert (Hrest : length rest < length (st_tape s)).
        { change (st_tape s2) with l2 in Et. rewrite Et in Hl2. simpl in Hl2. lia. }
        apply safe3_bind.
        * destruct (cf_dns0x20 cf); [|apply safe3_ret; apply (D rest Hrest)].
          apply safe3_bind. apply safe3_peek.
          destruct (hd_error (st_tape s3)) as [e0|]; [|apply safe3_ret; apply (D rest Hrest)].
          destruct e0; try (apply safe3_ret; apply (D rest Hrest)).
          apply safe3_bind. apply safe3_pop. intros e1 rest1 Et1. apply safe3_ret. apply (D rest1).
          change (st_tape s3) with rest in Et1. rewrite Et1 in Hrest. simpl in Hrest. lia. }
  apply safe3_bind. apply safe3_get.
  destruct (Nat.eqb (st_nservers s1) 0).
  { apply safe3_bind.
    eapply safe3_mono; [apply (fp_invoke _ IH k _ s1); [apply (inv_core _ _ _ E1); auto|apply (own_core' _ _ _ E1); auto
                                                      |apply (given_core _ _ _ E1); auto|fuel]|].
    intros [] s3 P3. unfold fpost in P3. apply safe3_ret. fuel. }
  destruct pr.
  - apply safe3_bind. apply safe3_ret. apply (G None l1 Hl1).
  - apply safe3_bind. apply safe3_bind. apply safe3_pop. intros e rest Et. destruct e; try (apply safe3_fail; auto with fuel).
    assert (Hrest : length rest < length (st_tape s)).
    { change (st_tape s1) with l1 in Et. rewrite Et in Hl1. simpl in Hl1. lia. }
    destruct (zeqb rc ARES_ENOTFOUND); apply safe3_ret.
    + apply (G None rest Hrest).
    + apply (G (Some {| r_status := rc; r_rec := if zeqb rc ARES_SUCCESS then Some (rcode, an, id) else None |}) rest Hrest).
Qed.

Lemma query_nolock_fstep f : Specs3 f -> forall k qd s, Inv s -> Own s (cobjs k) -> GivenOk s (kbot k) -> QdOk qd k ->
  need (pot s + csize k + 2) 1 <= S f -> safe3 (query_nolock cf (S f) k qd) s (fpost s (csize k + 2) 0).
Proof.
  intros IH k qd s I O Hn Hqd Hf. unfold fpost. simpl.
  apply safe3_bind. apply safe3_alloc.
  destruct (alloc_opaque_ok None s I) as [I1 _].
  pose proof (pot_alloc None s COpaque I Logic.I) as P1.
  eapply safe3_mono; [apply (fp_send_nolock _ IH (KWrap WQQuery (st_next s) k) false qd _ I1 (own_alloc s _ I O) (given_alloc s _ I Hn) Hqd); fuel|].
  intros z s2 P2. unfold fpost in P2. fuel.
Qed.

(* ---- search ---- *)
Lemma search_next_fstep f : Specs3 f -> forall o k l nd s, Inv s -> Own s (o :: cobjs k) -> GivenOk s (kbot k) ->
  need (pot s + csize k + KA * length l) 0 <= S f ->
  safe3 (search_next cf (S f) o k l nd) s
        (fun r s' => pot s' + (if snd r then 0 else csize k) <= pot s + csize k + KA * length l).
Proof.
  intros IH o k l nd s I O Hn Hf. simpl.
  destruct (own_cons _ _ _ O) as [Hc [Hr [Hni O']]].
  apply safe3_bind. eapply safe3_touch; [exact (inv_heap _ _ I)|exact Hc|].
  destruct l as [|cur l'].
  - apply safe3_ret. simpl. lia.
  - apply safe3_bind. apply safe3_pop. intros e rest Et. destruct e; try (apply safe3_fail; auto with fuel).
    set (s1 := set_tape rest s).
    assert (E1 : core_eq s s1) by apply core_eq_set_tape.
    assert (I1 : Inv s1) by (apply (inv_core _ _ _ E1); auto).
    assert (O1 : Own s1 (o :: cobjs k)) by (apply (own_core' _ _ _ E1); auto).
    assert (Hn1 : GivenOk s1 (kbot k)) by (apply (given_core _ _ _ E1); auto).
    pose proof (pot_set_tape _ _ _ Et) as P1. fold s1 in P1.
    destruct (negb (zeqb rc ARES_SUCCESS)) eqn:Erc.
    + apply safe3_ret. simpl. simpl length. fuel.
    + apply safe3_bind.
      eapply safe3_mono; [apply (fp_send_nolock _ IH (KSearch o k cur l' nd) false None s1 I1 O1 Hn1 Logic.I); simpl length in *; fuel|].
      intros st s2 P2. unfold fpost in P2. apply safe3_ret. rewrite (fx_search_true cf Hfix). simpl. simpl length. fuel.
Qed.

Lemma search_callback_fstep f : Specs3 f -> forall o k cs l nd r s, Inv s -> Own s (o :: cobjs k) -> GivenOk s (kbot k) ->
  need (pot s + csize (KSearch o k cs l nd)) 0 <= S f ->
  safe3 (search_callback cf (S f) o k cs l nd r) s (fpost s (csize (KSearch o k cs l nd)) 0).
Proof.
  intros IH o k cs l nd r s I O Hn Hf. unfold fpost. simpl.
  destruct (own_cons _ _ _ O) as [Hc [Hr [Hni O']]].
  apply safe3_bind. eapply safe3_touch; [exact (inv_heap _ _ I)|exact Hc|].
  assert (FinE : forall r0, safe3 (end_squery cf f o k r0) s (fun _ s' => pot s' + 0 <= pot s + (KA * S (length l) + csize k))).
  { intros r0. eapply safe3_mono; [apply (fp_end_squery _ IH o k r0 s I O Hn); fuel|]. intros [] s1 P1. unfold fpost in P1. fuel. }
  match goal with |- context [if negb ?b then _ else _] => destruct (negb b) end.
  - apply FinE.
  - destruct l as [|c0 l'].
    + match goal with |- context [if ?b then _ else _] => destruct b end; apply FinE.
    + apply safe3_bind.
      eapply safe3_mono; [apply safe3_with; [apply (sp_search_next _ _ (S1 f) o k (c0 :: l') _ s I O Hn)
                                            |apply (fp_search_next _ IH o k (c0 :: l') _ s I O Hn); fuel]|].
      intros [st skip] s1 [[I1 F1] P1]. simpl in F1, P1.
      destruct skip; simpl.
      * rewrite andb_false_r. apply safe3_ret. simpl length in *. fuel.
      * destruct F1 as [F1 [O1 [Hn1 Est]]]. rewrite Est. simpl.
        eapply safe3_mono; [apply (fp_end_squery _ IH o k _ s1 I1 O1 Hn1); simpl length in *; fuel|].
        intros [] s2 P2. unfold fpost in P2. simpl length in *. fuel.
Qed.

Lemma search_int_fstep f : Specs3 f -> forall k names s, Inv s -> Own s (cobjs k) -> GivenOk s (kbot k) ->
  need (pot s + csize k + KA * S (length names)) 0 <= S f ->
  safe3 (search_int cf (S f) k names) s (fpost s (csize k + KA * S (length names)) 0).
Proof.
  intros IH k names s I O Hn Hf. unfold fpost. simpl.
  apply safe3_bind. apply safe3_alloc.
  destruct (alloc_opaque_ok None s I) as [I1 [F1 _]].
  pose proof (own_alloc s _ I O) as O1. pose proof (given_alloc s _ I Hn) as Hn1.
  pose proof (pot_alloc None s COpaque I Logic.I) as P1.
  set (o := st_next s) in *. set (s1 := alloc_st COpaque s) in *.
  apply safe3_bind.
  eapply safe3_mono; [apply safe3_with; [apply (sp_search_next _ _ (S1 f) o k names false s1 I1 O1 Hn1)
                                        |apply (fp_search_next _ IH o k names false s1 I1 O1 Hn1); fuel]|].
  intros [st skip] s2 [[I2 F2] P2]. simpl in F2, P2.
  destruct skip.
  - destruct (zeqb st ARES_SUCCESS).
    + apply safe3_ret. fuel.
    + apply safe3_bind. apply safe3_ret. apply safe3_ret. fuel.
  - destruct F2 as [F2 [O2a [Hn2 Est]]]. rewrite Est.
    destruct (own_cons _ _ _ O2a) as [Hc2 [Hr2 [Hni2 O2]]].
    apply safe3_bind. apply safe3_bind. eapply safe3_touch; [exact (inv_heap _ _ I2)|exact Hc2|].
    apply safe3_bind. eapply safe3_free; [exact (inv_heap _ _ I2)|exact Hc2|].
    destruct (free_unrooted_ok None s2 o COpaque I2 Hc2 ltac:(discriminate) ltac:(discriminate) Hr2) as [I3 [F3 _]].
    assert (O3 : Own (free_st o s2) (cobjs k)).
    { apply (own_frame _ _ _ _ _ O2 F3). intros y Hy [<-|[]]. contradiction. }
    assert (Hn3 : GivenOk (free_st o s2) (kbot k)) by exact (given_frame _ _ _ _ Hn2 F3).
    pose proof (pot_free None s2 o COpaque I2 Hc2 Logic.I (opaque_unlinked _ _ _ I2 Hc2)) as P3.
    eapply safe3_mono; [apply (fp_invoke _ IH k _ _ I3 O3 Hn3); fuel|].
    intros [] s4 P4. unfold fpost in P4. apply safe3_ret. fuel.
Qed.

Lemma addr_next_lookup_fstep f : Specs3 f -> forall o k l s, Inv s -> Own s (o :: cobjs k) -> GivenOk s (kbot k) ->
  need (pot s + csize (KAddr o k l)) 0 <= S f ->
  safe3 (addr_next_lookup cf (S f) o k l) s (fpost s (csize (KAddr o k l)) 0).
Proof.
  intros IH o k l s I O Hn Hf. unfold fpost. simpl.
  destruct (own_cons _ _ _ O) as [Hc [Hr [Hni O']]].
  apply safe3_bind. eapply safe3_touch; [exact (inv_heap _ _ I)|exact Hc|].
  destruct l as [|[|] l'].
  - eapply safe3_mono; [apply (fp_end_aquery _ IH o k _ s I O Hn); simpl length in *; fuel|].
    intros [] s1 P1. unfold fpost in P1. simpl length. fuel.
  - apply safe3_bind.
    eapply safe3_mono; [apply (fp_query_nolock _ IH (KAddr o k l') None s I O Hn Logic.I); simpl length in *; fuel|].
    intros z s1 P1. unfold fpost in P1. apply safe3_ret. simpl length in *. fuel.
  - eapply safe3_mono; [apply (fp_addr_next_lookup _ IH o k l' s I O Hn); simpl length in *; fuel|].
    intros [] s1 P1. unfold fpost in P1. simpl length in *. fuel.
Qed.

Lemma addr_callback_fstep f : Specs3 f -> forall o k l r s, Inv s -> Own s (o :: cobjs k) -> GivenOk s (kbot k) ->
  need (pot s + csize (KAddr o k l)) 1 <= S f ->
  safe3 (addr_callback cf (S f) o k l r) s (fpost s (csize (KAddr o k l)) 0).
Proof.
  intros IH o k l r s I O Hn Hf. unfold fpost. simpl.
  destruct (own_cons _ _ _ O) as [Hc [Hr [Hni O']]].
  apply safe3_bind. eapply safe3_touch; [exact (inv_heap _ _ I)|exact Hc|].
  destruct (zeqb (r_status r) ARES_SUCCESS).
  - apply safe3_bind. apply safe3_pop. intros e rest Et. destruct e; try (apply safe3_fail; auto with fuel).
    set (s1 := set_tape rest s).
    assert (E1 : core_eq s s1) by apply core_eq_set_tape.
    pose proof (pot_set_tape _ _ _ Et) as P1. fold s1 in P1.
    eapply safe3_mono; [apply (fp_end_aquery _ IH o k (res rc) s1);
      [apply (inv_core _ _ _ E1); auto|apply (own_core' _ _ _ E1); auto|apply (given_core _ _ _ E1); auto|fuel]|].
    intros [] s2 P2. unfold fpost in P2. fuel.
  - destruct (zeqb (r_status r) ARES_EDESTRUCTION || zeqb (r_status r) ARES_ECANCELLED).
    + eapply safe3_mono; [apply (fp_end_aquery _ IH o k _ s I O Hn); fuel|].
      intros [] s1 P1. unfold fpost in P1. fuel.
    + eapply safe3_mono; [apply (fp_addr_next_lookup _ IH o k l s I O Hn); simpl; fuel|].
      intros [] s1 P1. unfold fpost in P1. simpl in P1. fuel.
Qed.


(* ---- ares_getaddrinfo.c ---- *)
Lemma pot_host_excl s o h h' : Inv s -> cell_of s o = Some (CHost h) -> h_remaining h = 0 -> h_remaining h' = 0 ->
  pot (store_st o (CHost h') s) = pot s.
Proof.
  intros I Hc Hz Hz'. pose proof (pot_host_store None s o h h' I Hc) as P. simpl in P.
  rewrite (hpot_excl s o h Hc Hz) in P.
  rewrite (hpot_excl (store_st o (CHost h') s) o h') in P; [lia| |exact Hz'].
  rewrite cell_store, Nat.eqb_refl. reflexivity.
Qed.

Lemma end_hquery_fstep f : Specs3 f -> forall o st s h, Inv s -> HOwn s o h -> need (pot s + hsize h) 0 <= S f ->
  safe3 (end_hquery cf (S f) o st) s (fpost s (hsize h) 0).
Proof.
  intros IH o st s h I HO Hf. unfold fpost. pose proof (hown_opaque _ _ _ HO) as Hni. destruct HO as [Hc [Hz [Hnh O]]]. simpl.
  apply safe3_bind. eapply safe3_get_host; [exact (inv_heap _ _ I)|exact Hc|].
  pose proof (nohost_kbot _ Hnh) as Ek.
  assert (Hg : GivenOk s (kbot (h_cb h))) by (rewrite Ek; exact Logic.I).
  assert (Hsz : csize (h_cb h) + KA * KA <= hsize h) by (unfold hsize, KA; lia).
  apply safe3_bind.
  eapply safe3_mono; [apply safe3_with; [apply (sp_invoke _ _ (S1 f) (h_cb h) (res st) s I O Hg)
                                        |apply (fp_invoke _ IH (h_cb h) (res st) s I O Hg); fuel]|].
  intros [] s1 [[I1 F1] P1]. unfold fpost in P1. rewrite Ek in F1.
  destruct (fr_cell _ _ _ _ F1 _ _ Hc (host_unrooted _ _ _ _ I Hc) Hni Hz) as [Hc1 Hr1].
  eapply safe3_free; [exact (inv_heap _ _ I1)|exact Hc1|].
  rewrite (pot_free None s1 o (CHost h) I1 Hc1 Hz (host_unlinked _ _ _ _ I1 Hc1)). fuel.
Qed.

Lemma host_next_lookup_fstep f : Specs3 f -> forall o st s h, Inv s -> HOwn s o h -> need (pot s + hsize h) 1 <= S f ->
  safe3 (host_next_lookup cf (S f) o st) s (fpost s (hsize h) 0).
Proof.
  intros IH o st s h I HO Hf. unfold fpost. pose proof HO as [Hc [Hz [Hnh O]]]. simpl.
  apply safe3_bind. eapply safe3_get_host; [exact (inv_heap _ _ I)|exact Hc|].
  assert (FinE : forall stx, safe3 (end_hquery cf f o stx) s (fun _ s' => pot s' + 0 <= pot s + hsize h)).
  { intros stx. eapply safe3_mono; [apply (fp_end_hquery _ IH o stx s h I HO); fuel|]. intros [] s1 P1. exact P1. }
  destruct (h_lookups h) as [|b rest] eqn:Elk.
  - apply FinE.
  - assert (G : safe3 (store o (CHost (h_set_lookups rest h));; host_next_lookup cf f o st) s (fun _ s' => pot s' + 0 <= pot s + hsize h)).
    { apply safe3_bind. eapply safe3_store; [exact (inv_heap _ _ I)|exact Hc|].
      destruct (hown_store s o h (h_set_lookups rest h) I HO eq_refl Hz) as [I1 [F1 HO1]].
      pose proof (pot_host_excl s o h (h_set_lookups rest h) I Hc Hz Hz) as P1.
      assert (Hsz : hsize (h_set_lookups rest h) + KA * KA = hsize h).
      { unfold hsize. simpl. rewrite Elk. simpl length. unfold KA. lia. }
      eapply safe3_mono; [apply (fp_host_next_lookup _ IH o st _ _ I1 HO1); fuel|].
      intros [] s2 P2. unfold fpost in P2. fuel. }
    destruct b.
    + destruct (negb (h_localhost h) && match h_names h with [] => false | _ :: _ => true end) eqn:Eb.
      * assert (Hnm : h_names h <> []).
        { apply andb_true_iff in Eb. destruct Eb as [_ Eb]. destruct (h_names h); [discriminate|discriminate]. }
        eapply safe3_mono; [apply (fp_host_next_dns_lookup _ IH o s h I HO Hnm); fuel|]. intros [] s1 P1. exact P1.
      * exact G.
    + destruct (h_localhost h).
      * apply FinE.
      * exact G.
Qed.

Lemma host_next_dns_lookup_fstep f : Specs3 f -> forall o s h, Inv s -> HOwn s o h -> h_names h <> [] ->
  need (pot s + hsize h) 0 <= S f -> safe3 (host_next_dns_lookup cf (S f) o) s (fpost s (hsize h) 0).
Proof.
  intros IH o s h I HO Hnm Hf. unfold fpost. pose proof HO as [Hc [Hz [Hnh O]]]. simpl.
  apply safe3_bind. eapply safe3_get_host; [exact (inv_heap _ _ I)|exact Hc|].
  set (n := if Nat.eqb (h_family h) 0 then 2 else 1).
  set (h1 := h_set_remaining (h_remaining h + n) (h_set_names (tl (h_names h)) (hd false (h_names h)) h)).
  assert (Er1 : h_remaining h1 = n) by (unfold h1; simpl; rewrite Hz; reflexivity).
  assert (Hn : n = 1 \/ n = 2) by (unfold n; destruct (Nat.eqb (h_family h) 0); auto).
  assert (Hsz : hsize h1 + KA * KA = hsize h).
  { unfold hsize, h1. simpl. destruct (h_names h) as [|nm nms]; [congruence|]. simpl length. unfold KA. lia. }
  apply safe3_bind. eapply safe3_store; [exact (inv_heap _ _ I)|exact Hc|].
  destruct (store_host_share_ok None s o h h1 I Hc Hz O Hnh eq_refl ltac:(lia)) as [I1 [F1 [Hs1 [Hz1 _]]]].
  pose proof (pot_host_store None s o h h1 I Hc) as P1. simpl in P1.
  rewrite (hpot_excl s o h Hc Hz), (hpot_shared _ _ _ Hs1) in P1.
  set (s1 := store_st o (CHost h1) s) in *.
  assert (Hg1 : GivenOk s1 (Some o)) by (exists h1; split; auto; lia).
  apply safe3_bind.
  eapply safe3_mono; [apply safe3_with; [apply (sp_query_nolock _ _ (S1 f) (KHost o) (Some (o, Nat.eqb (h_family h) 6)) s1 I1 (own_nil _) Hg1 eq_refl)
                                        |apply (fp_query_nolock _ IH (KHost o) (Some (o, Nat.eqb (h_family h) 6)) s1 I1 (own_nil _) Hg1 eq_refl); fuel]|].
  intros z s2 [[I2 F2] P2]. simpl in F2. unfold fpost in P2.
  fold n. destruct (Nat.eqb n 2) eqn:En.
  - apply Nat.eqb_eq in En.
    pose proof (dns_second_given s1 s2 o h1 Hs1 Hz1 ltac:(lia) F2) as Hg2.
    apply safe3_bind.
    eapply safe3_mono; [apply (fp_query_nolock _ IH (KHost o) (Some (o, true)) s2 I2 (own_nil _) Hg2 eq_refl); fuel|].
    intros z3 s3 P3. unfold fpost in P3. apply safe3_ret. fuel.
  - apply safe3_ret. fuel.
Qed.

Lemma host_callback_fstep f : Specs3 f -> forall o r s, Inv s -> GivenOk s (Some o) -> need (pot s + 2) 0 <= S f ->
  safe3 (host_callback cf (S f) o r) s (fpost s 2 0).
Proof.
  intros IH o r s I [h [Hs Hlt]] Hf. unfold fpost. destruct (shared_host _ _ _ Hs) as [Hc Hp]. simpl.
  apply safe3_bind. eapply safe3_get_host; [exact (inv_heap _ _ I)|exact Hc|].
  apply safe3_bind. eapply safe3_store; [exact (inv_heap _ _ I)|exact Hc|].
  set (h1 := h_set_remaining (Init.Nat.pred (h_remaining h)) h).
  set (s1 := store_st o (CHost h1) s).
  assert (Ecb1 : h_cb h1 = h_cb h) by reflexivity.
  assert (Er1 : h_remaining h1 = Init.Nat.pred (h_remaining h)) by reflexivity.
  assert (Esz1 : hsize h1 = hsize h) by reflexivity.
  pose proof (pot_host_store None s o h h1 I Hc) as P1. simpl in P1. fold s1 in P1.
  rewrite (hpot_shared _ _ _ Hs) in P1.
  assert (TPB : forall (Q : Z * bool * bool -> state -> Prop), (forall v l, length l <= length (st_tape s1) -> Q v (set_tape l s1)) ->
            safe3 (if zeqb (r_status r) ARES_SUCCESS
                  then let! e := pop in
                       match e with
                       | TP rc nodes v4 v6 =>
                           if zeqb rc ARES_SUCCESS && negb (h_family h =? 0)
                           then ret (if if h_family h =? 4 then v4 else v6 then ARES_SUCCESS else ARES_ENODATA,
                                     if h_family h =? 4 then v4 else v6, if h_family h =? 4 then v4 else false)
                           else ret (rc, nodes, v4)
                       | _ => fail EDESYNC end
                  else ret (ARES_SUCCESS, h_nodes h, h_v4 h)) s1 Q).
  { intros Q HQ. destruct (zeqb (r_status r) ARES_SUCCESS).
    - apply safe3_bind. apply safe3_pop. intros e rest Et. destruct e; try (apply safe3_fail; auto with fuel).
      assert (Hle : length rest <= length (st_tape s1)) by (rewrite Et; simpl; lia).
      destruct (zeqb rc ARES_SUCCESS && negb (h_family h =? 0)); apply safe3_ret; apply HQ; exact Hle.
    - apply safe3_ret. replace s1 with (set_tape (st_tape s1) s1) by (destruct s1; reflexivity). apply HQ. simpl. lia. }
  apply safe3_bind. apply TPB. intros [[ais nodes] v4] l2 Hl2. set (s2 := set_tape l2 s1).
  assert (E2 : core_eq s1 s2) by apply core_eq_set_tape.
  pose proof (pot_set_tape_le s1 l2 Hl2) as P2. fold s2 in P2.
  destruct (Init.Nat.pred (h_remaining h) =? 0) eqn:Erem.
  - apply Nat.eqb_eq in Erem.
    assert (Hr1 : h_remaining h = 1) by lia.
    assert (Hz0 : nrefs s o = 0) by lia.
    assert (Hz1 : h_remaining h1 = 0) by (rewrite Er1; exact Erem).
    destruct (store_host_unshare_ok None s o h h1 I Hs Hz0 Ecb1 Hz1) as [I1 [Hc1 [O1 [Hnh _]]]]. fold s1 in I1, Hc1, O1.
    rewrite (hpot_excl s1 o h1 Hc1 Hz1) in P1.
    assert (HO1 : HOwn s1 o h1) by (split; [exact Hc1|split; [exact Hz1|split; [rewrite Ecb1; exact Hnh|rewrite Ecb1; exact O1]]]).
    assert (I2 : Inv s2) by (apply (ce_inv _ _ _ E2); auto).
    pose proof (hown_core _ _ _ _ E2 HO1) as HO2. pose proof HO2 as [Hc2 _].
    remember (h_nomem h1 || zeqb (r_status r) ARES_ENOMEM || zeqb ais ARES_ENOMEM) as nm eqn:Enm.
    apply safe3_bind. eapply safe3_get_host; [exact (inv_heap _ _ I2)|exact Hc2|]. rewrite <- Enm.
    match goal with |- context [h_set_ai nodes v4 nm ?x h1] => remember x as nd eqn:End; clear End end.
    apply safe3_bind. eapply safe3_store; [exact (inv_heap _ _ I2)|exact Hc2|].
    destruct (hown_store s2 o h1 (h_set_ai nodes v4 nm nd h1) I2 HO2 eq_refl Hz1) as [I3 [F3 HO3]].
    pose proof (pot_host_excl s2 o h1 (h_set_ai nodes v4 nm nd h1) I2 Hc2 Hz1 Hz1) as P3.
    set (h3 := h_set_ai nodes v4 nm nd h1) in *. set (s3 := store_st o (CHost h3) s2) in *.
    assert (Esz3 : hsize h3 = hsize h) by reflexivity.
    simpl negb. rewrite andb_false_r. apply safe3_bind. apply safe3_ret.
    assert (FinE : forall stx, safe3 (end_hquery cf f o stx) s3 (fun _ s' => pot s' + 0 <= pot s + 2)).
    { intros stx. eapply safe3_mono; [apply (fp_end_hquery _ IH o stx s3 h3 I3 HO3); fuel|]. intros [] s4 P4. unfold fpost in P4. fuel. }
    pose proof HO3 as [Hc3 [Hz3 _]].
    destruct (zeqb (r_status r) ARES_EDESTRUCTION || zeqb (r_status r) ARES_ECANCELLED); [apply FinE|].
    destruct nm; [apply FinE|].
    destruct (negb (zeqb ais ARES_SUCCESS) && negb (zeqb ais ARES_ENODATA)).
    { destruct (zeqb ais ARES_EBADRESP && nodes); apply FinE. }
    destruct nodes; [apply FinE|].
    destruct (zeqb (r_status r) ARES_ENOTFOUND || zeqb (r_status r) ARES_ENODATA || zeqb ais ARES_ENODATA).
    { apply safe3_bind. eapply safe3_get_host; [exact (inv_heap _ _ I3)|exact Hc3|].
      apply safe3_bind. eapply safe3_store; [exact (inv_heap _ _ I3)|exact Hc3|].
      match goal with |- context [store_st o (CHost ?hx) s3] =>
        destruct (hown_store s3 o h3 hx I3 HO3 eq_refl Hz3) as [I4 [F4 HO4]];
        pose proof (pot_host_excl s3 o h3 hx I3 Hc3 Hz3 Hz3) as P4;
        assert (Esz4 : hsize hx = hsize h) by reflexivity;
        eapply safe3_mono; [apply (fp_host_next_lookup _ IH o _ _ hx I4 HO4); fuel|]
      end.
      intros [] s5 P5. unfold fpost in P5. fuel. }
    match goal with |- safe3 (if ?b then _ else _) _ _ => destruct b end.
    { apply safe3_bind. eapply safe3_get_host; [exact (inv_heap _ _ I3)|exact Hc3|].
      eapply safe3_mono; [apply (fp_host_next_lookup _ IH o _ s3 h3 I3 HO3); fuel|].
      intros [] s5 P5. unfold fpost in P5. fuel. }
    apply FinE.
  - apply Nat.eqb_neq in Erem.
    assert (Hp1 : 0 < h_remaining h1) by (rewrite Er1; lia).
    destruct (store_host_shared_ok None s o h h1 (dg (Some o)) I Hs Ecb1 Hp1) as [I1 [F1 [Hs1 _]]].
    { rewrite Er1. simpl. rewrite Nat.eqb_refl. lia. }
    { intros o' Hne. simpl. apply Nat.eqb_neq in Hne. rewrite Hne. reflexivity. }
    { simpl. rewrite Nat.eqb_refl. lia. }
    fold s1 in I1, F1, Hs1.
    rewrite (hpot_shared _ _ _ Hs1) in P1.
    assert (I2 : Inv s2) by (apply (ce_inv _ _ _ E2); auto).
    assert (Hs2 : shared_at s2 o = Some h1) by (rewrite (ce_shared _ _ _ E2); exact Hs1).
    destruct (shared_host _ _ _ Hs2) as [Hc2 _].
    remember (h_nomem h1 || zeqb (r_status r) ARES_ENOMEM || zeqb ais ARES_ENOMEM) as nm eqn:Enm.
    apply safe3_bind. eapply safe3_get_host; [exact (inv_heap _ _ I2)|exact Hc2|]. rewrite <- Enm.
    match goal with |- context [h_set_ai nodes v4 nm ?x h1] => remember x as nd eqn:End; clear End end.
    apply safe3_bind. eapply safe3_store; [exact (inv_heap _ _ I2)|exact Hc2|].
    destruct (store_host_shared_ok None s2 o h1 (h_set_ai nodes v4 nm nd h1) (dg None) I2 Hs2 eq_refl Hp1) as [I3 [F3 [Hs3 _]]].
    { simpl. lia. } { intros; reflexivity. }
    { simpl. pose proof (hi_cnt _ (inv_hosts _ _ I2) _ _ Hs2). lia. }
    pose proof (pot_host_store None s2 o h1 (h_set_ai nodes v4 nm nd h1) I2 Hc2) as P3. simpl in P3.
    rewrite (hpot_shared _ _ _ Hs2), (hpot_shared _ _ _ Hs3) in P3.
    assert (Esz3 : hsize (h_set_ai nodes v4 nm nd h1) = hsize h) by reflexivity.
    set (s3 := store_st o (CHost (h_set_ai nodes v4 nm nd h1)) s2) in *.
    simpl negb.
    apply safe3_bind.
    + match goal with |- context [if ?b then _ else ret tt] => destruct b end.
      * apply safe3_bind. apply safe3_get.
        match goal with |- context [lookup ?t (st_byqid s3)] => destruct (lookup t (st_byqid s3)) as [qo|] eqn:Lk end.
        -- destruct (inv_byqid _ _ I3 _ _ Lk) as [Hl _]. destruct (inv_query _ _ I3 _ Hl) as [q Hq].
           apply safe3_bind. eapply safe3_get_query; [exact (inv_heap _ _ I3)|exact Hq|].
           eapply safe3_store; [exact (inv_heap _ _ I3)|exact Hq|].
           apply safe3_ret. rewrite (pot_store_query None s3 qo q (set_q_noretry true q) I3 Hq eq_refl). fuel.
        -- apply safe3_ret. apply safe3_ret. fuel.
      * apply safe3_ret. apply safe3_ret. fuel.
Qed.

(* ---- entry points ---- *)
Lemma api_fstep f : Specs3 f -> forall c s, Inv s -> need (pot s + call_size c) 0 <= S f ->
  safe3 (api cf (S f) c) s (fpost s (call_size c) 0).
Proof.
  intros IH c s I Hf. unfold fpost.
  assert (Em : forall t (m : M unit),
            (forall s1, core_eq s s1 -> st_scripts s1 = st_scripts s -> pot s1 = pot s -> safe3 m s1 (fun _ s' => pot s' + 0 <= pot s + call_size c)) ->
            safe3 (emit (EvReq t) ;; m) s (fun _ s' => pot s' + 0 <= pot s + call_size c)).
  { intros t m Hm. apply safe3_bind. apply safe3_emit.
    apply Hm; [apply core_eq_set_trace|reflexivity|reflexivity]. }
  destruct c; simpl api; simpl call_size in *.
  - (* ASync *)
    apply Em. intros s1 E1 Es1 P1.
    eapply safe3_mono; [apply (fp_invoke _ IH (KUser t) (res st) s1); [apply (inv_core _ _ _ E1); auto|apply own_nil|exact Logic.I|fuel]|].
    intros [] s2 P2. unfold fpost in P2. fuel.
  - (* ASend *)
    apply Em. intros s1 E1 Es1 P1. apply safe3_bind.
    eapply safe3_mono; [apply (fp_send_nolock _ IH (KUser t) false None s1); [apply (inv_core _ _ _ E1); auto|apply own_nil|exact Logic.I|exact Logic.I|fuel]|].
    intros z s2 P2. unfold fpost in P2. apply safe3_ret. fuel.
  - (* ASendRaw *)
    apply Em. intros s1 E1 Es1 P1.
    assert (I1 : Inv s1) by (apply (inv_core _ _ _ E1); auto).
    apply safe3_bind. apply safe3_alloc.
    destruct (alloc_opaque_ok None s1 I1) as [I2 _].
    pose proof (pot_alloc None s1 COpaque I1 Logic.I) as P2.
    apply safe3_bind.
    eapply safe3_mono; [apply (fp_send_nolock _ IH (KWrap WConv (st_next s1) (KUser t)) false None _ I2 (own_alloc s1 [] I1 (own_nil _)) Logic.I Logic.I); fuel|].
    intros z s3 P3. unfold fpost in P3. apply safe3_ret. fuel.
  - (* AQuery *)
    apply Em. intros s1 E1 Es1 P1. apply safe3_bind.
    eapply safe3_mono; [apply (fp_query_nolock _ IH (KUser t) None s1); [apply (inv_core _ _ _ E1); auto|apply own_nil|exact Logic.I|exact Logic.I|fuel]|].
    intros z s2 P2. unfold fpost in P2. apply safe3_ret. fuel.
  - (* AOQuery *)
    apply Em. intros s1 E1 Es1 P1.
    assert (I1 : Inv s1) by (apply (inv_core _ _ _ E1); auto).
    apply safe3_bind. apply safe3_alloc.
    destruct (alloc_opaque_ok None s1 I1) as [I2 _].
    pose proof (own_alloc s1 [] I1 (own_nil _)) as O2.
    pose proof (pot_alloc None s1 COpaque I1 Logic.I) as P2.
    destruct (zeqb create_rc ARES_SUCCESS).
    + apply safe3_bind.
      eapply safe3_mono; [apply (fp_query_nolock _ IH (KWrap WConv (st_next s1) (KUser t)) None _ I2 O2 Logic.I Logic.I); fuel|].
      intros z s3 P3. unfold fpost in P3. apply safe3_ret. fuel.
    + eapply safe3_mono; [apply (fp_invoke _ IH (KWrap WConv (st_next s1) (KUser t)) (res create_rc) _ I2 O2 Logic.I); fuel|].
      intros [] s3 P3. unfold fpost in P3. fuel.
  - (* ASearch *)
    apply Em. intros s1 E1 Es1 P1. apply safe3_bind.
    eapply safe3_mono; [apply (fp_search_int _ IH (KUser t) names s1); [apply (inv_core _ _ _ E1); auto|apply own_nil|exact Logic.I|fuel]|].
    intros z s2 P2. unfold fpost in P2. apply safe3_ret. fuel.
  - (* AOSearch *)
    apply Em. intros s1 E1 Es1 P1.
    assert (I1 : Inv s1) by (apply (inv_core _ _ _ E1); auto).
    apply safe3_bind. apply safe3_alloc.
    destruct (alloc_opaque_ok None s1 I1) as [I2 _].
    pose proof (pot_alloc None s1 COpaque I1 Logic.I) as P2.
    apply safe3_bind.
    eapply safe3_mono; [apply (fp_search_int _ IH (KWrap WConv (st_next s1) (KUser t)) names _ I2 (own_alloc s1 [] I1 (own_nil _)) Logic.I); fuel|].
    intros z s3 P3. unfold fpost in P3. apply safe3_ret. fuel.
  - (* AGhba *)
    apply Em. intros s1 E1 Es1 P1.
    assert (I1 : Inv s1) by (apply (inv_core _ _ _ E1); auto).
    apply safe3_bind. apply safe3_alloc.
    destruct (alloc_opaque_ok None s1 I1) as [I2 _].
    pose proof (pot_alloc None s1 COpaque I1 Logic.I) as P2.
    eapply safe3_mono; [apply (fp_addr_next_lookup _ IH (st_next s1) (KUser t) lookups _ I2 (own_alloc s1 [] I1 (own_nil _)) Logic.I); fuel|].
    intros [] s3 P3. unfold fpost in P3. fuel.
  - (* AGni *)
    apply Em. intros s1 E1 Es1 P1.
    assert (I1 : Inv s1) by (apply (inv_core _ _ _ E1); auto).
    apply safe3_bind. apply safe3_alloc.
    destruct (alloc_opaque_ok None s1 I1) as [I2 _].
    pose proof (own_alloc s1 [] I1 (own_nil _)) as O2.
    pose proof (pot_alloc None s1 COpaque I1 Logic.I) as P2.
    set (w := st_next s1) in *. set (s2 := alloc_st COpaque s1) in *.
    apply safe3_bind. apply safe3_alloc.
    destruct (alloc_opaque_ok None s2 I2) as [I3 _].
    pose proof (own_alloc s2 [w] I2 O2) as O3.
    pose proof (pot_alloc None s2 COpaque I2 Logic.I) as P3.
    eapply safe3_mono; [apply (fp_addr_next_lookup _ IH (st_next s2) (KWrap (WNameinfo namereqd) w (KUser t)) lookups _ I3 O3 Logic.I); fuel|].
    intros [] s4 P4. unfold fpost in P4. fuel.
  - (* AGai *)
    apply Em. intros s1 E1 Es1 P1.
    assert (I1 : Inv s1) by (apply (inv_core _ _ _ E1); auto).
    apply safe3_bind. apply safe3_alloc.
    set (h0 := mk_host (KUser t) names family lookups localhost).
    destruct (alloc_host_ok None s1 h0 I1 eq_refl) as [I2 [Hc2 _]].
    assert (HO2 : HOwn (alloc_st (CHost h0) s1) (st_next s1) h0).
    { split; [exact Hc2|]. split; [reflexivity|]. split; [exact Logic.I|apply own_nil]. }
    pose proof (pot_alloc None s1 (CHost h0) I1 eq_refl) as P2.
    assert (Esz : hsize h0 = KA * KA * S (length lookups + length names) + 2) by reflexivity.
    eapply safe3_mono; [apply (fp_host_next_lookup _ IH (st_next s1) ARES_ECONNREFUSED _ h0 I2 HO2); fuel|].
    intros [] s3 P3. unfold fpost in P3. fuel.
  - (* AGhbn *)
    apply Em. intros s1 E1 Es1 P1.
    assert (I1 : Inv s1) by (apply (inv_core _ _ _ E1); auto).
    apply safe3_bind. apply safe3_alloc.
    destruct (alloc_opaque_ok None s1 I1) as [I2 _].
    pose proof (own_alloc s1 [] I1 (own_nil _)) as O2.
    pose proof (pot_alloc None s1 COpaque I1 Logic.I) as P2.
    set (w := st_next s1) in *. set (s2 := alloc_st COpaque s1) in *.
    apply safe3_bind. apply safe3_alloc.
    set (h0 := mk_host (KWrap WGhbn w (KUser t)) names family lookups localhost).
    destruct (alloc_host_ok None s2 h0 I2 eq_refl) as [I3 [Hc3 [Hsame3 [_ [Hrt3 _]]]]].
    assert (HO3 : HOwn (alloc_st (CHost h0) s2) (st_next s2) h0).
    { split; [exact Hc3|]. split; [reflexivity|]. split; [exact Logic.I|].
      apply (own_same s2); auto. intros y [<-|[]]. apply Hsame3.
      destruct (own_cons _ _ _ O2) as [Hcw _]. pose proof (live_lt _ _ _ (inv_heap _ _ I2) Hcw). lia. }
    pose proof (pot_alloc None s2 (CHost h0) I2 eq_refl) as P3.
    assert (Esz : hsize h0 = KA * KA * S (length lookups + length names) + 4) by reflexivity.
    eapply safe3_mono; [apply (fp_host_next_lookup _ IH (st_next s2) ARES_ECONNREFUSED _ h0 I3 HO3); fuel|].
    intros [] s4 P4. unfold fpost in P4. fuel.
  - (* ACancel *)
    eapply safe3_mono; [apply (fp_cancel _ IH s I); fuel|]. intros [] s1 P1. unfold fpost in P1. fuel.
  - (* ASetServers *)
    apply safe3_bind. apply safe3_emit.
    assert (E1 : core_eq s (set_trace (EvSetServers :: st_trace s) s)) by apply core_eq_set_trace.
    eapply safe3_mono; [apply (fp_set_servers _ IH); [apply (inv_core _ _ _ E1); auto|rewrite pot_set_trace; fuel]|].
    intros [] s1 P1. unfold fpost in P1. rewrite pot_set_trace in P1. fuel.
  - (* ANop *)
    apply safe3_ret. lia.
Qed.

Lemma specs3_S f : Specs3 f -> Specs3 (S f).
Proof.
  intros IH. constructor.
  - apply invoke_fstep; auto.
  - apply run_script_fstep; auto.
  - apply api_fstep; auto.
  - apply query_nolock_fstep; auto.
  - apply send_nolock_fstep; auto.
  - apply send_query_fstep; auto.
  - apply send_query_write_fstep; auto.
  - apply requeue_query_fstep; auto.
  - apply end_query_fstep; auto.
  - apply complete_query_fstep; auto.
  - apply handle_conn_error_fstep; auto.
  - apply close_connection_fstep; auto.
  - apply requeue_conn_queries_fstep; auto.
  - apply check_cleanup_fstep; auto.
  - apply cleanup_loop_fstep; auto.
  - apply set_servers_fstep; auto.
  - apply set_servers_loop_fstep; auto.
  - apply cancel_fstep; auto.
  - apply cancel_loop_fstep; auto.
  - apply search_int_fstep; auto.
  - apply search_next_fstep; auto.
  - apply search_callback_fstep; auto.
  - apply end_squery_fstep; auto.
  - apply addr_next_lookup_fstep; auto.
  - apply addr_callback_fstep; auto.
  - apply end_aquery_fstep; auto.
  - apply host_next_lookup_fstep; auto.
  - apply host_next_dns_lookup_fstep; auto.
  - apply host_callback_fstep; auto.
  - apply end_hquery_fstep; auto.
Qed.

Theorem all_specs3 : forall f, Specs3 f.
Proof. induction f; [apply specs3_O|apply specs3_S; auto]. Qed.

End FixedF.
