(* C01: two things no function of the model changes, whatever the state it is run from (no
   invariant is needed, a run that hits undefined behaviour or stops with an error is not looked
   at): the lists of queries below the live one (the copies taken by the calls of ares_cancel
   that are still running) at most lose entries, and the events EvCancelBegin / EvCancelEnd are
   only emitted by the top-level step.  Used by Lifecycle_cancel_top.v. *)
From Coq Require Import List ZArith Lia Bool Arith.
Import ListNotations.
From CAres.Base Require Import Outcome.
From CAres.Gen Require Import Consts.
From CAres.Core Require Import LifecycleMonitor Lifecycle Lifecycle_inv Lifecycle_proofs.

(* partial correctness only *)
Definition pc {A} (m : M A) (s : state) (Q : A -> state -> Prop) : Prop :=
  match m s with Ok (a, s') => Q a s' | _ => True end.

Lemma safe_pc_both {A} (m : M A) s (Q1 Q2 : A -> state -> Prop) :
  safe m s Q1 -> pc m s Q2 -> safe m s (fun a s' => Q1 a s' /\ Q2 a s').
Proof. unfold safe, pc. destruct (m s) as [[a s1]| |]; auto. Qed.

Lemma pc_bind {A B} (m : M A) (f : A -> M B) s (Q : B -> state -> Prop) :
  pc m s (fun a s1 => pc (f a) s1 Q) -> pc (mbind m f) s Q.
Proof. unfold pc, mbind. destruct (m s) as [[a s1]| |]; auto. Qed.
Lemma pc_mono {A} (m : M A) s (Q Q' : A -> state -> Prop) : pc m s Q -> (forall a s', Q a s' -> Q' a s') -> pc m s Q'.
Proof. unfold pc. destruct (m s) as [[a s1]| |]; auto. Qed.
Lemma pc_ret {A} (a : A) s (Q : A -> state -> Prop) : Q a s -> pc (ret a) s Q.
Proof. unfold pc, ret. auto. Qed.
Lemma pc_get s (Q : state -> state -> Prop) : Q s s -> pc get s Q.
Proof. unfold pc, get. auto. Qed.
Lemma pc_modify f s (Q : unit -> state -> Prop) : Q tt (f s) -> pc (modify f) s Q.
Proof. unfold pc, modify. auto. Qed.

Definition tlrel (s0 s : state) : Prop := Forall2 (@incl obj) (tl (st_lists s)) (tl (st_lists s0)).
(* the events only the top-level step emits *)
Definition top_ev (e : event) : bool :=
  match e with EvCancelBegin | EvCancelEnd | EvDestroyBegin | EvDestroyEnd => true | _ => false end.
Definition trx (s0 s : state) : Prop :=
  exists nw, st_trace s = nw ++ st_trace s0 /\ forall e, In e nw -> top_ev e = false.
Definition R (s0 s : state) : Prop := tlrel s0 s /\ trx s0 s.

Lemma f2incl_refl (l : list (list obj)) : Forall2 (@incl obj) l l.
Proof. induction l; constructor; auto. apply incl_refl. Qed.

Lemma f2incl_trans (a b c : list (list obj)) : Forall2 (@incl obj) a b -> Forall2 (@incl obj) b c -> Forall2 (@incl obj) a c.
Proof.
  intros H. revert c. induction H; intros c Hc; inversion Hc; subst; constructor.
  - eapply incl_tran; eauto.
  - apply IHForall2. auto.
Qed.

Lemma R_refl s : R s s.
Proof. split; [apply f2incl_refl|]. exists []. simpl. split; [reflexivity|]. intros e []. Qed.

Lemma R_trans s0 s1 s2 : R s0 s1 -> R s1 s2 -> R s0 s2.
Proof.
  intros [A1 [n1 [E1 B1]]] [A2 [n2 [E2 B2]]]. split.
  - unfold tlrel in *. eapply f2incl_trans; eauto.
  - exists (n2 ++ n1). rewrite E2, E1, app_assoc. split; [reflexivity|].
    intros e H; apply in_app_or in H; destruct H; auto.
Qed.

Lemma R_keep s0 s s' : st_lists s' = st_lists s -> st_trace s' = st_trace s -> R s0 s -> R s0 s'.
Proof. intros El Et [A [nw B]]. split; [unfold tlrel; rewrite El; exact A|exists nw; rewrite Et; exact B]. Qed.

Definition Pres {A} (m : M A) : Prop := forall s0 s, R s0 s -> pc m s (fun _ s' => R s0 s').
(* the state is changed, if at all, outside the lists and the trace *)
Definition Keeps {A} (m : M A) : Prop := forall s, pc m s (fun _ s' => st_lists s' = st_lists s /\ st_trace s' = st_trace s).

Lemma keeps_pres {A} (m : M A) : Keeps m -> Pres m.
Proof.
  intros K s0 s H. specialize (K s). unfold pc in *. destruct (m s) as [[a s1]| |]; auto.
  destruct K as [El Et]. eapply R_keep; eauto.
Qed.

Lemma pres_ret {A} (a : A) : Pres (ret a).
Proof. intros s0 s H. exact H. Qed.
Lemma pres_fail {A} e : Pres (@fail A e).
Proof. intros s0 s H. exact I. Qed.
Lemma pres_bind {A B} (m : M A) (k : A -> M B) : Pres m -> (forall a, Pres (k a)) -> Pres (mbind m k).
Proof.
  intros Hm Hk s0 s H. specialize (Hm s0 s H). unfold pc, mbind in *.
  destruct (m s) as [[a s1]| |]; auto. apply (Hk a s0 s1 Hm).
Qed.
Lemma pres_get : Pres get.
Proof. intros s0 s H. exact H. Qed.
Lemma pres_peek : Pres peek.
Proof. intros s0 s H. exact H. Qed.
Lemma pres_peek2 : Pres peek2.
Proof. intros s0 s H. exact H. Qed.
Lemma pres_pop : Pres pop.
Proof. apply keeps_pres. intros s. unfold pc, pop. destruct (st_tape s); simpl; auto. Qed.
Lemma pres_alloc c : Pres (alloc c).
Proof. apply keeps_pres. intros s. unfold pc, alloc. simpl. auto. Qed.
Lemma pres_touch o : Pres (touch o).
Proof.
  apply keeps_pres. intros s. unfold pc, touch. destruct (memb o (st_freed s)); auto.
  destruct (lookup o (st_cells s)); auto.
Qed.
Lemma pres_free o : Pres (free_obj o).
Proof.
  apply keeps_pres. intros s. unfold pc, free_obj. destruct (memb o (st_freed s)); auto.
  destruct (lookup o (st_cells s)); simpl; auto.
Qed.
Lemma pres_modify g :
  (forall s, Forall2 (@incl obj) (tl (st_lists (g s))) (tl (st_lists s)) /\ st_trace (g s) = st_trace s) -> Pres (modify g).
Proof.
  intros Hg s0 s [A [nw B]]. unfold pc, modify. destruct (Hg s) as [G1 G2]. split.
  - unfold tlrel in *. eapply f2incl_trans; eauto.
  - exists nw. rewrite G2. exact B.
Qed.
Lemma pres_modify_keep g : (forall s, st_lists (g s) = st_lists s /\ st_trace (g s) = st_trace s) -> Pres (modify g).
Proof. intros Hg. apply pres_modify. intros s. destruct (Hg s) as [E1 E2]. rewrite E1. split; [apply f2incl_refl|exact E2]. Qed.
Lemma pres_emit e : top_ev e = false -> Pres (emit e).
Proof.
  intros H1 s0 s [A [nw [E B]]]. unfold pc, emit, modify. split; [exact A|].
  exists (e :: nw). simpl. rewrite E. split; [reflexivity|]. intros x [<-|H]; auto.
Qed.
Lemma pres_find_conn sock : Pres (find_conn_by_sock sock).
Proof. intros s0 s H. exact H. Qed.

Lemma f2incl_map_remove qo (l : list (list obj)) : Forall2 (@incl obj) (map (remove_nat qo) l) l.
Proof. induction l; simpl; constructor; auto. intros x Hx. apply in_remove_nat in Hx. tauto. Qed.

Ltac pres1 :=
  match goal with
  | |- Pres (mbind _ _) => apply pres_bind; [|intros]
  | |- Pres (ret _) => apply pres_ret
  | |- Pres (fail _) => apply pres_fail
  | |- Pres get => apply pres_get
  | |- Pres peek => apply pres_peek
  | |- Pres peek2 => apply pres_peek2
  | |- Pres pop => apply pres_pop
  | |- Pres (alloc _) => apply pres_alloc
  | |- Pres (touch _) => apply pres_touch
  | |- Pres (free_obj _) => apply pres_free
  | |- Pres (find_conn_by_sock _) => apply pres_find_conn
  | |- Pres (emit _) => apply pres_emit; reflexivity
  | |- Pres (modify _) => apply pres_modify_keep; intros; split; reflexivity
  | |- Pres (if ?b then _ else _) => destruct b
  | |- Pres (match ?x with _ => _ end) => destruct x
  | |- Pres (let (_, _) := ?x in _) => destruct x
  | |- Pres (let _ := _ in _) => cbv zeta
  end.
Ltac pres := repeat (pres1 || assumption).

Lemma pres_store o c : Pres (store o c).
Proof. unfold store. pres. Qed.
Lemma pres_get_query o : Pres (get_query o).
Proof. unfold get_query. pres. Qed.
Lemma pres_get_conn o : Pres (get_conn o).
Proof. unfold get_conn. pres. Qed.
Lemma pres_get_host o : Pres (get_host o).
Proof. unfold get_host. pres. Qed.

Lemma pres_unlink qo : Pres (unlink_conn_node qo).
Proof.
  intros s0 s H. unfold pc, unlink_conn_node.
  destruct (find _ _) as [co|]; [|exact H].
  assert (P : Pres (let! c := get_conn co in store co (CConn (set_c_queries (remove_nat qo (c_queries c)) c)))).
  { apply pres_bind; [apply pres_get_conn|intros; apply pres_store]. }
  exact (P s0 s H).
Qed.

Ltac pres2 :=
  match goal with
  | |- Pres (store _ _) => apply pres_store
  | |- Pres (get_query _) => apply pres_get_query
  | |- Pres (get_conn _) => apply pres_get_conn
  | |- Pres (get_host _) => apply pres_get_host
  | |- Pres (unlink_conn_node _) => apply pres_unlink
  | _ => pres1
  end.
Ltac pres' := repeat (pres2 || assumption).

Lemma pres_remove_from_conn qo : Pres (remove_from_conn qo).
Proof. unfold remove_from_conn. pres'. Qed.

Lemma pres_detach qo : Pres (detach_query qo).
Proof.
  unfold detach_query. apply pres_bind; [apply pres_remove_from_conn|intros].
  apply pres_bind; [apply pres_get_query|intros]. apply pres_bind; [pres'|intros].
  apply pres_modify. intros s. simpl. split; [|reflexivity].
  destruct (st_lists s); simpl; [constructor|apply f2incl_map_remove].
Qed.

Lemma pres_free_query qo : Pres (free_query qo).
Proof. unfold free_query, release_query. apply pres_bind; [apply pres_detach|intros; apply pres_free]. Qed.

Lemma pres_attach qo co tcp : Pres (attach_frag qo co tcp).
Proof. unfold attach_frag. pres'. Qed.

Lemma pres_link_all qo : Pres (link_all qo).
Proof.
  unfold link_all. apply pres_modify. intros s. simpl. split; [|reflexivity].
  destruct (st_lists s); simpl; [constructor|apply f2incl_refl].
Qed.

Lemma pres_write_qid qd qid : Pres (write_qid qd qid).
Proof. unfold write_qid. pres'. Qed.

Lemma pres_mark l : Pres (mark_cancelled l).
Proof. induction l; simpl; pres'. Qed.

Lemma pres_expect_TS : Pres expect_TS.
Proof. unfold expect_TS. pres'. Qed.
Lemma pres_expect_TG : Pres expect_TG.
Proof. unfold expect_TG. pres'. Qed.
Lemma pres_expect_TCL sock : Pres (expect_TCL sock).
Proof. unfold expect_TCL. pres'. Qed.


Lemma pres_take_script t : Pres (take_script t).
Proof.
  apply keeps_pres. intros s. unfold pc, take_script. destruct (lookup t (st_scripts s)); simpl; auto.
Qed.

Lemma pres_gen_qid n : Pres (gen_qid n).
Proof. induction n; simpl; pres'. Qed.

Ltac pres3 :=
  match goal with
  | |- Pres (remove_from_conn _) => apply pres_remove_from_conn
  | |- Pres (detach_query _) => apply pres_detach
  | |- Pres (free_query _) => apply pres_free_query
  | |- Pres (release_query _) => apply pres_free
  | |- Pres (attach_frag _ _ _) => apply pres_attach
  | |- Pres (link_all _) => apply pres_link_all
  | |- Pres (write_qid _ _) => apply pres_write_qid
  | |- Pres (mark_cancelled _) => apply pres_mark
  | |- Pres expect_TS => apply pres_expect_TS
  | |- Pres expect_TG => apply pres_expect_TG
  | |- Pres (expect_TCL _) => apply pres_expect_TCL
  | |- Pres (take_script _) => apply pres_take_script
  | |- Pres (gen_qid _) => apply pres_gen_qid
  | _ => pres2
  end.
Ltac go := repeat (pres3 || assumption || (progress auto)).

Section Shape.
Variable cf : config.

Record Shape (f : nat) : Prop := {
  sh_invoke : forall k r, Pres (invoke cf f k r);
  sh_run_script : forall sc, Pres (run_script cf f sc);
  sh_api : forall c, Pres (api cf f c);
  sh_query_nolock : forall k qd, Pres (query_nolock cf f k qd);
  sh_send_nolock : forall k pr qd, Pres (send_nolock cf f k pr qd);
  sh_send_query : forall qo, Pres (send_query cf f qo);
  sh_send_query_write : forall qo op, Pres (send_query_write cf f qo op);
  sh_requeue_query : forall qo st inc df r, Pres (requeue_query cf f qo st inc df r);
  sh_end_query : forall qo st r, Pres (end_query cf f qo st r);
  sh_complete_query : forall qo r, Pres (complete_query cf f qo r);
  sh_handle_conn_error : forall co cr st, Pres (handle_conn_error cf f co cr st);
  sh_close_connection : forall co st, Pres (close_connection cf f co st);
  sh_requeue_conn_queries : forall n co st, Pres (requeue_conn_queries cf f n co st);
  sh_check_cleanup : Pres (check_cleanup cf f);
  sh_cleanup_loop : forall n, Pres (cleanup_loop cf f n);
  sh_set_servers : Pres (set_servers cf f);
  sh_set_servers_loop : forall n, Pres (set_servers_loop cf f n);
  sh_cancel : Pres (cancel cf f);
  sh_cancel_loop : forall n, Pres (cancel_loop_fixed cf f n);
  sh_cancel_loop_pinned : forall l, Pres (cancel_loop_pinned cf f l);
  sh_search_int : forall k names, Pres (search_int cf f k names);
  sh_search_next : forall o k l nd, Pres (search_next cf f o k l nd);
  sh_search_callback : forall o k cs l nd r, Pres (search_callback cf f o k cs l nd r);
  sh_end_squery : forall o k r, Pres (end_squery cf f o k r);
  sh_addr_next_lookup : forall o k l, Pres (addr_next_lookup cf f o k l);
  sh_addr_callback : forall o k l r, Pres (addr_callback cf f o k l r);
  sh_end_aquery : forall o k r, Pres (end_aquery cf f o k r);
  sh_host_next_lookup : forall o st, Pres (host_next_lookup cf f o st);
  sh_host_next_dns_lookup : forall o, Pres (host_next_dns_lookup cf f o);
  sh_host_callback : forall o r, Pres (host_callback cf f o r);
  sh_end_hquery : forall o st, Pres (end_hquery cf f o st)
}.

Lemma shape_O : Shape 0.
Proof. constructor; intros; apply pres_fail. Qed.

(* ares_cancel: the copy it pushes is gone when it returns *)
Lemma cancel_shape f : Shape f -> Pres (cancel cf (S f)).
Proof.
  intros IH. rewrite cancel_unfold. intros s0 s H.
  assert (CC : Pres (check_cleanup cf f)) by apply (sh_check_cleanup _ IH).
  apply pc_bind. apply pc_get.
  destruct (st_lists s) as [|[|q0 l0] rest] eqn:El.
  - apply pc_bind. apply pc_ret. exact (CC s0 s H).
  - apply pc_bind. apply pc_ret. exact (CC s0 s H).
  - apply pc_bind. apply pc_bind. apply pc_modify.
    set (s1 := set_lists ([] :: (q0 :: l0) :: rest) s).
    apply pc_bind.
    assert (PM : Pres (if fx_cancelmark (cf_fix cf) then mark_cancelled (q0 :: l0) else ret tt)).
    { destruct (fx_cancelmark (cf_fix cf)); [apply pres_mark|apply pres_ret]. }
    eapply pc_mono; [apply (PM s1 s1 (R_refl s1))|]. intros [] sm Hm.
    apply pc_bind.
    assert (PL : Pres (if fx_unlink (cf_fix cf) then cancel_loop_fixed cf f f else cancel_loop_pinned cf f (q0 :: l0))).
    { destruct (fx_unlink (cf_fix cf)); [apply (sh_cancel_loop _ IH)|apply (sh_cancel_loop_pinned _ IH)]. }
    eapply pc_mono; [apply (PL s1 sm Hm)|]. intros [] s2 H1.
    apply pc_modify.
    set (s3 := set_lists (match st_lists s2 with a :: _ :: r => a :: r | x => x end) s2).
    assert (H3 : R s0 s3).
    { destruct H as [A B]. destruct H1 as [A1 B1]. split.
      - unfold tlrel in *. unfold s3. simpl. unfold s1 in A1. simpl in A1. rewrite El in A. simpl in A.
        destruct (st_lists s2) as [|a [|x r]]; simpl in *.
        + inversion A1.
        + inversion A1.
        + inversion A1; subst. eapply f2incl_trans; eauto.
      - destruct B as [n0 [E0 B0]]. destruct B1 as [n1 [E1 B1]].
        exists (n1 ++ n0). unfold s3. simpl. rewrite E1. unfold s1. simpl. rewrite E0, app_assoc.
        split; [reflexivity|]. intros x Hx; apply in_app_or in Hx; destruct Hx; auto. }
    exact (CC s0 s3 H3).
Qed.

Lemma check_cleanup_unfold f :
  check_cleanup cf (S f) = (let! e := pop in match e with TK => cleanup_loop cf f f | _ => fail EDESYNC end).
Proof. reflexivity. Qed.
Lemma set_servers_unfold f :
  set_servers cf (S f) = (let! e := pop in match e with TU n => modify (set_nservers n) ;; set_servers_loop cf f f | _ => fail EDESYNC end).
Proof. reflexivity. Qed.

Lemma shape_S f : Shape f -> Shape (S f).
Proof.
  intros IH. pose proof IH as [].
  constructor; intros.
  - destruct k; simpl; go.
  - destruct sc; simpl; go.
  - destruct c; simpl; go.
  - simpl; go.
  - rewrite send_nolock_unfold. go.
  - simpl; go.
  - simpl; go.
  - simpl; go.
  - simpl; go.
  - simpl; go.
  - simpl; go.
  - simpl; go.
  - destruct n; simpl; go.
  - rewrite check_cleanup_unfold; go.
  - destruct n; simpl; go.
  - rewrite set_servers_unfold; go.
  - destruct n; simpl; go.
  - apply cancel_shape; exact IH.
  - destruct n; simpl; go.
  - destruct l; simpl; go.
    apply pres_modify. intros s. simpl. split; [|reflexivity].
    destruct (st_lists s) as [|a1 [|x1 r1]]; simpl; try apply f2incl_refl.
    constructor; [|apply f2incl_refl]. intros y Hy. apply in_remove_nat in Hy. tauto.
  - simpl; go.
  - simpl; go.
  - simpl; go.
  - simpl; go.
  - simpl; go.
  - simpl; go.
  - simpl; go.
  - simpl; go.
  - simpl; go.
  - simpl; go.
  - simpl; go.
Qed.

Theorem all_shape : forall f, Shape f.
Proof. induction f; [apply shape_O|apply shape_S; auto]. Qed.

(* ---- the functions that are not reachable from callbacks ---- *)
Lemma pres_process_answer f co qid a rq : Pres (process_answer cf f co qid a rq).
Proof. pose proof (all_shape f) as []. unfold process_answer. go. Qed.

Lemma pres_read_loop f n : forall co rq, Pres (read_loop cf f n co rq).
Proof.
  pose proof (all_shape f) as []. induction n; intros; simpl; [apply pres_fail|].
  pose proof pres_process_answer. go.
Qed.

Lemma pres_flush_requeue f rq : Pres (flush_requeue cf f rq).
Proof. pose proof (all_shape f) as []. induction rq; simpl; go. Qed.

Lemma pres_read_answers f co : Pres (read_answers cf f co).
Proof. pose proof pres_read_loop. pose proof pres_flush_requeue. unfold read_answers. go. Qed.

Lemma pres_destroy_loop_fixed f n : Pres (destroy_loop_fixed cf f n).
Proof. pose proof (all_shape f) as []. induction n; simpl; go. Qed.

Lemma pres_destroy_loop_pinned f l : Pres (destroy_loop_pinned cf f l).
Proof.
  pose proof (all_shape f) as []. induction l; simpl; go.
  apply pres_modify. intros s. simpl. split; [|reflexivity].
  destruct (st_lists s) as [|a1 r1]; simpl; apply f2incl_refl.
Qed.

Lemma pres_destroy_conns f n : Pres (destroy_conns cf f n).
Proof. pose proof (all_shape f) as []. induction n; simpl; go. Qed.

Lemma pres_destroy f : Pres (destroy cf f).
Proof.
  pose proof pres_destroy_loop_fixed. pose proof pres_destroy_loop_pinned. pose proof pres_destroy_conns.
  unfold destroy. go.
Qed.

Lemma pres_process_writes f socks : Pres (process_writes cf f socks).
Proof. pose proof (all_shape f) as []. induction socks; simpl; go. Qed.

Lemma pres_process_reads f socks : Pres (process_reads cf f socks).
Proof. pose proof pres_read_answers. induction socks; simpl; go. Qed.

Lemma pres_process_timeouts f n : Pres (process_timeouts cf f n).
Proof. pose proof (all_shape f) as []. induction n; simpl; go. Qed.

Lemma pres_process_fds f w r : Pres (process_fds cf f w r).
Proof.
  pose proof (all_shape f) as []. pose proof pres_process_writes. pose proof pres_process_reads. pose proof pres_process_timeouts.
  unfold process_fds. go.
Qed.

End Shape.
