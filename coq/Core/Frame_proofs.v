(* C20 - proofs about the framing model (Core/Frame.v). *)
From CAres.Base Require Import CInt.
From CAres.Gen Require Import Consts LeafFns.
From CAres.Core Require Import Frame.
Local Open Scope Z_scope.
Local Open Scope bool_scope.

(* ------------------------------------------------------------------------------------ *)
(* be16                                                                                  *)
(* ------------------------------------------------------------------------------------ *)
Lemma be16_add h l : 0 <= h < 256 -> 0 <= l < 256 -> be16 h l = h * 256 + l.
Proof.
  intros Hh Hl. unfold be16.
  assert (Hland : Z.land (Z.shiftl h 8) l = 0).
  { apply Z.bits_inj'. intros i Hi. rewrite Z.land_spec, Z.bits_0.
    destruct (Z.ltb_spec i 8) as [Hlt|Hge].
    - rewrite Z.shiftl_spec_low by lia. reflexivity.
    - assert (Z.testbit l i = false) as ->; [|apply andb_false_r].
      destruct (Z.eqb_spec l 0) as [->|Hnz]; [apply Z.bits_0|].
      apply Z.bits_above_log2; [lia|].
      assert (Z.log2 l < 8); [|lia]. apply Z.log2_lt_pow2; lia. }
  rewrite <- (Z.lxor_lor _ _ Hland), <- (Z.add_nocarry_lxor _ _ Hland).
  rewrite Z.shiftl_mul_pow2 by lia.
  change 65535 with (Z.ones 16). rewrite Z.land_ones by lia.
  change (2 ^ 8) with 256. rewrite Z.mod_small; lia.
Qed.

Lemma be16_bytes_roundtrip n : 0 <= n < 65536 -> be16 ((n / 256) mod 256) (n mod 256) = n.
Proof.
  intros Hn. rewrite be16_add.
  - rewrite (Z.mod_small (n / 256)).
    + pose proof (Z.div_mod n 256). lia.
    + split; [apply Z.div_pos; lia|]. apply Z.div_lt_upper_bound; lia.
  - apply Z.mod_pos_bound; lia.
  - apply Z.mod_pos_bound; lia.
Qed.

Lemma be16_range h l : 0 <= be16 h l < 65536.
Proof.
  unfold be16. change 65535 with (Z.ones 16).
  destruct (Z.lor (Z.shiftl h 8) l) eqn:E.
  - rewrite Z.land_0_l. lia.
  - rewrite Z.land_ones by lia. apply Z.mod_pos_bound. lia.
  - rewrite Z.land_ones by lia. apply Z.mod_pos_bound. lia.
Qed.

Definition small (m : list Z) : Prop := Z.of_nat (length m) < 65536.

Lemma frame_cons m : small m ->
  exists h l, frame m = h :: l :: m /\ be16 h l = Z.of_nat (length m).
Proof.
  intros Hs. unfold frame, be16_bytes. cbn [app].
  eexists _, _. split; [reflexivity|]. apply be16_bytes_roundtrip. unfold small in Hs. lia.
Qed.

(* ------------------------------------------------------------------------------------ *)
(* parses: the unique decomposition of a byte stream into complete frames + incomplete rest *)
(* ------------------------------------------------------------------------------------ *)
Inductive parses : list Z -> list (list Z) -> list Z -> Prop :=
| P_tail tl : incomplete tl -> parses tl [] tl
| P_frame h l m s ms tl :
    be16 h l = Z.of_nat (length m) -> parses s ms tl -> parses (h :: l :: m ++ s) (m :: ms) tl.

Lemma parses_frames_fuel s ms tl :
  parses s ms tl -> forall f, (length s <= f)%nat -> frames_fuel f s = (ms, tl).
Proof.
  induction 1 as [tl Hinc | h l m s ms tl Hbe Hp IH]; intros f Hf.
  - destruct f as [|f]; cbn [frames_fuel].
    + reflexivity.
    + destruct tl as [|x [|y rest]]; try reflexivity.
      cbn in Hinc. destruct (Nat.ltb_spec (length rest) (Z.to_nat (be16 x y))); [reflexivity|lia].
  - destruct f as [|f]; [cbn in Hf; lia|]. cbn [frames_fuel].
    rewrite Hbe, Nat2Z.id.
    destruct (Nat.ltb_spec (length (m ++ s)) (length m)) as [Hlt|Hge].
    + rewrite app_length in Hlt. lia.
    + rewrite skipn_app, skipn_all, Nat.sub_diag, firstn_app, firstn_all, Nat.sub_diag. cbn [skipn firstn app].
      rewrite IH; [rewrite app_nil_r; reflexivity|].
      cbn [length] in Hf. rewrite app_length in Hf. lia.
Qed.

Lemma parses_frames s ms tl : parses s ms tl -> frames s = (ms, tl).
Proof. intros H. apply parses_frames_fuel; auto. Qed.

Lemma frames_fuel_parses : forall f s, (length s <= f)%nat ->
  parses s (fst (frames_fuel f s)) (snd (frames_fuel f s)).
Proof.
  induction f as [|f IH]; intros s Hf.
  - destruct s; [|cbn in Hf; lia]. cbn. constructor. exact I.
  - cbn [frames_fuel]. destruct s as [|h [|l rest]].
    + cbn. constructor. exact I.
    + cbn. constructor. exact I.
    + destruct (Nat.ltb_spec (length rest) (Z.to_nat (be16 h l))) as [Hlt|Hge].
      * cbn. constructor. cbn. exact Hlt.
      * destruct (frames_fuel f (skipn (Z.to_nat (be16 h l)) rest)) as [fs tl'] eqn:E.
        cbn [fst snd].
        rewrite <- (firstn_skipn (Z.to_nat (be16 h l)) rest) at 1.
        apply P_frame.
        -- rewrite firstn_length_le by lia. pose proof (be16_range h l). lia.
        -- specialize (IH (skipn (Z.to_nat (be16 h l)) rest)). rewrite E in IH. cbn [fst snd] in IH.
           apply IH. rewrite skipn_length. cbn [length] in Hf. lia.
Qed.

Lemma frames_parses s : parses s (fst (frames s)) (snd (frames s)).
Proof. apply frames_fuel_parses. auto. Qed.

Lemma parses_app s ms tl c ms' tl' :
  parses s ms tl -> parses (tl ++ c) ms' tl' -> parses (s ++ c) (ms ++ ms') tl'.
Proof.
  induction 1 as [tl Hinc | h l m s ms tl Hbe Hp IH]; intros H2.
  - exact H2.
  - cbn [app]. rewrite <- app_assoc. constructor; auto.
Qed.

Lemma parses_incomplete s ms tl : parses s ms tl -> incomplete tl.
Proof. induction 1; auto. Qed.

Lemma parses_count s ms tl : parses s ms tl -> (2 * length ms + length tl <= length s)%nat.
Proof.
  induction 1 as [tl Hinc | h l m s ms tl Hbe Hp IH]; cbn [length]; [lia|].
  rewrite app_length. lia.
Qed.

Lemma parses_small s ms tl : parses s ms tl -> Forall small ms.
Proof.
  induction 1 as [tl Hinc | h l m s ms tl Hbe Hp IH]; constructor; auto.
  unfold small. rewrite <- Hbe. apply be16_range.
Qed.

(* a stream that is a sequence of well-formed frames followed by an incomplete rest *)
Lemma parses_flat_map ms tl : Forall small ms -> incomplete tl -> parses (flat_map frame ms ++ tl) ms tl.
Proof.
  induction 1 as [|m ms Hm Hms IH]; intros Hinc; cbn [flat_map app].
  - constructor; auto.
  - destruct (frame_cons m Hm) as (h & l & Hf & Hbe). rewrite Hf. cbn [app]. rewrite <- app_assoc.
    constructor; auto.
Qed.

Lemma cut_app_open pa ms1 ms2 :
  snd (cut pa ms1) = StillOpen ->
  cut pa (ms1 ++ ms2) = (ms1 ++ fst (cut pa ms2), snd (cut pa ms2)) /\ fst (cut pa ms1) = ms1.
Proof.
  induction ms1 as [|m ms1 IH]; cbn [cut app]; intros H.
  - split; auto. destruct (cut pa ms2); reflexivity.
  - destruct (pa m); [|discriminate].
    destruct (cut pa ms1) as [r e] eqn:E. cbn [snd fst] in *. destruct (IH H) as [IH1 IH2].
    rewrite IH1. subst r. auto.
Qed.

Lemma cut_app_closed pa ms1 ms2 :
  snd (cut pa ms1) = Closed -> cut pa (ms1 ++ ms2) = cut pa ms1.
Proof.
  induction ms1 as [|m ms1 IH]; cbn [cut app]; intros H; [discriminate|].
  destruct (pa m); [|reflexivity].
  destruct (cut pa ms1) as [r e] eqn:E. cbn [snd] in H. rewrite (IH H). reflexivity.
Qed.

(* ------------------------------------------------------------------------------------ *)
(* buffers                                                                               *)
(* ------------------------------------------------------------------------------------ *)
Definition wf (b : buf) : Prop :=
  0 <= b_off b <= data_len b /\ data_len b < SIZE_MAX /\ b_tag b = SIZE_MAX.

Lemma two64 : 2 ^ 64 = 18446744073709551616. Proof. reflexivity. Qed.

Lemma buf_len_eq d off t : 0 <= off <= Z.of_nat (length d) -> Z.of_nat (length d) < SIZE_MAX ->
  buf_len (mkbuf d off t) = Ok (Z.of_nat (length d) - off).
Proof.
  intros H1 H2. unfold buf_len, c_ares_buf_len, data_len. cbn [b_data b_off].
  rewrite Z.mod_small; [reflexivity|]. unfold SIZE_MAX in H2. rewrite two64. lia.
Qed.

Lemma buf_consume_ok d off t n : 0 <= off -> 0 <= n -> off + n <= Z.of_nat (length d) ->
  Z.of_nat (length d) < SIZE_MAX ->
  buf_consume (mkbuf d off t) n = Ok (ARES_SUCCESS, mkbuf d (off + n) t).
Proof.
  intros H1 H2 H3 H4. unfold buf_consume. rewrite buf_len_eq by lia. cbn [bind].
  unfold c_ares_buf_consume. cbn [b_off b_data b_tag].
  destruct (Z.ltb_spec (Z.of_nat (length d) - off) n); [lia|]. cbn [bind].
  rewrite Z.mod_small; [reflexivity|]. unfold SIZE_MAX in H4. rewrite two64. lia.
Qed.

Lemma buf_consume_short d off t n : 0 <= off <= Z.of_nat (length d) ->
  Z.of_nat (length d) < SIZE_MAX -> Z.of_nat (length d) - off < n ->
  buf_consume (mkbuf d off t) n = Ok (ARES_EBADRESP, mkbuf d off t).
Proof.
  intros H1 H2 H3. unfold buf_consume. rewrite buf_len_eq by lia. cbn [bind].
  unfold c_ares_buf_consume. cbn [b_off b_data b_tag].
  destruct (Z.ltb_spec (Z.of_nat (length d) - off) n); [|lia]. reflexivity.
Qed.

Lemma byte_at_skipn (d : list Z) off x r : 0 <= off -> skipn (Z.to_nat off) d = x :: r -> byte_at d off = Ok x.
Proof.
  intros H1 H2. unfold byte_at. destruct (Z.ltb_spec off 0); [lia|].
  assert (nth_error d (Z.to_nat off) = Some x) as ->; [|reflexivity].
  rewrite <- (firstn_skipn (Z.to_nat off) d) at 1. rewrite H2.
  assert (Hl : length (firstn (Z.to_nat off) d) = Z.to_nat off).
  { apply firstn_length_le. destruct (Nat.le_gt_cases (Z.to_nat off) (length d)); auto.
    rewrite skipn_all2 in H2 by lia. discriminate. }
  rewrite nth_error_app2 by lia. rewrite Hl, Nat.sub_diag. reflexivity.
Qed.

Lemma skipn_succ_tl (d : list Z) n x r : skipn n d = x :: r -> skipn (S n) d = r.
Proof.
  revert d. induction n as [|n IH]; intros d H.
  - cbn in H. subst d. reflexivity.
  - destruct d; [discriminate|]. cbn [skipn] in *. auto.
Qed.

Lemma skipn_plus (l : list Z) a b : skipn (a + b) l = skipn a (skipn b l).
Proof.
  revert l. induction b as [|b IH]; intros l.
  - rewrite Nat.add_0_r. reflexivity.
  - rewrite Nat.add_succ_r. destruct l; cbn [skipn].
    + destruct a; reflexivity.
    + apply IH.
Qed.

Lemma remaining_length (d : list Z) off : 0 <= off <= Z.of_nat (length d) ->
  Z.of_nat (length (skipn (Z.to_nat off) d)) = Z.of_nat (length d) - off.
Proof. intros H. rewrite skipn_length. lia. Qed.

Section ReadProofs.
  Variable pa : list Z -> bool.

  (* the loop of read_answers on a well-formed buffer delivers exactly the complete frames of
     the unread bytes, up to and including the first rejected one; an incomplete rest stays *)
  Lemma read_answers_loop_spec : forall s ms tl, parses s ms tl ->
    forall d off fuel, 0 <= off <= Z.of_nat (length d) -> Z.of_nat (length d) < SIZE_MAX ->
      skipn (Z.to_nat off) d = s -> (length ms < fuel)%nat ->
      exists b', read_answers_loop pa fuel (mkbuf d off SIZE_MAX)
                   = Ok (b', fst (cut pa ms), snd (cut pa ms)) /\
                 (snd (cut pa ms) = StillOpen ->
                    b' = mkbuf d (Z.of_nat (length d) - Z.of_nat (length tl)) SIZE_MAX).
  Proof.
    induction 1 as [tl Hinc | h l m s ms tl Hbe Hp IH]; intros d off fuel Hoff Hmax Hrem Hfuel.
    - (* nothing complete *)
      destruct fuel as [|f]; [lia|]. cbn [read_answers_loop cut fst snd].
      unfold buf_tag, c_ares_buf_tag. cbn [b_off b_data bind].
      pose proof (remaining_length d off Hoff) as Hlen. rewrite Hrem in Hlen.
      assert (Hfin : mkbuf d off SIZE_MAX = mkbuf d (Z.of_nat (length d) - Z.of_nat (length tl)) SIZE_MAX)
        by (f_equal; lia).
      assert (Hoffmax : (off =? 18446744073709551615) = false)
        by (apply Z.eqb_neq; unfold SIZE_MAX in Hmax; lia).
      unfold buf_fetch_be16. rewrite buf_len_eq by lia. cbn [bind].
      destruct (Z.ltb_spec (Z.of_nat (length d) - off) 2) as [Hlt|Hge].
      + cbn. unfold buf_tag_rollback, c_ares_buf_tag_rollback. cbn [b_tag b_off b_data].
        rewrite Hoffmax. cbn. eexists. split; [reflexivity|]. intros _. exact Hfin.
      + destruct tl as [|x [|y rest]]; cbn [length] in Hlen; try lia.
        cbn [b_data b_off].
        rewrite (byte_at_skipn d off x (y :: rest)) by (auto; lia). cbn [bind].
        rewrite (byte_at_skipn d (off + 1) y rest); [|lia|].
        2:{ replace (Z.to_nat (off + 1)) with (S (Z.to_nat off)) by lia.
            eapply skipn_succ_tl; eauto. }
        cbn [bind]. rewrite buf_consume_ok by lia. cbn [bind].
        cbn in Hinc.
        rewrite buf_consume_short; [| lia | lia |].
        2:{ cbn [length] in Hlen. pose proof (be16_range x y). lia. }
        cbn. unfold buf_tag_rollback, c_ares_buf_tag_rollback. cbn [b_tag b_off b_data].
        rewrite Hoffmax. cbn. eexists. split; [reflexivity|]. intros _. exact Hfin.
    - (* a complete frame m *)
      destruct fuel as [|f]; [lia|]. cbn [read_answers_loop].
      unfold buf_tag, c_ares_buf_tag. cbn [b_off b_data bind].
      pose proof (remaining_length d off Hoff) as Hlen. rewrite Hrem in Hlen.
      cbn [length] in Hlen. rewrite app_length in Hlen.
      assert (Hoffmax : (off =? 18446744073709551615) = false)
        by (apply Z.eqb_neq; unfold SIZE_MAX in Hmax; lia).
      unfold buf_fetch_be16. rewrite buf_len_eq by lia. cbn [bind].
      destruct (Z.ltb_spec (Z.of_nat (length d) - off) 2) as [Hlt|Hge]; [lia|].
      cbn [b_data b_off].
      rewrite (byte_at_skipn d off h (l :: m ++ s)) by (auto; lia). cbn [bind].
      rewrite (byte_at_skipn d (off + 1) l (m ++ s)); [|lia|].
      2:{ replace (Z.to_nat (off + 1)) with (S (Z.to_nat off)) by lia.
          eapply skipn_succ_tl; eauto. }
      cbn [bind]. rewrite buf_consume_ok by lia. cbn [bind].
      rewrite Hbe. rewrite buf_consume_ok by lia. cbn [bind].
      change (negb (ARES_SUCCESS =? ARES_SUCCESS)) with false. cbn iota.
      unfold buf_tag_fetch. cbn [b_tag b_off b_data]. unfold SIZE_MAX at 1. rewrite Hoffmax.
      replace (off + 2 + Z.of_nat (length m) - off) with (2 + Z.of_nat (length m)) by lia.
      rewrite Z.mod_small by (rewrite two64; unfold SIZE_MAX in Hmax; lia).
      unfold data_len. cbn [b_data].
      destruct (Z.leb_spec 0 off); [|lia].
      destruct (Z.leb_spec (off + (2 + Z.of_nat (length m))) (Z.of_nat (length d))); [|lia].
      cbn [andb bind]. rewrite Hrem.
      replace (Z.to_nat (2 + Z.of_nat (length m))) with (S (S (length m))) by lia.
      cbn [firstn]. rewrite firstn_app, firstn_all, Nat.sub_diag. cbn [firstn]. rewrite app_nil_r.
      cbn [length]. destruct (Z.ltb_spec (Z.of_nat (S (S (length m)))) 2); [lia|].
      cbn [skipn cut].
      destruct (pa m) eqn:Hpa.
      + unfold buf_tag_clear, c_ares_buf_tag_clear. cbn [b_tag b_off b_data]. rewrite Hoffmax. cbn [bind snd].
        assert (Hrem' : skipn (Z.to_nat (off + 2 + Z.of_nat (length m))) d = s).
        { replace (Z.to_nat (off + 2 + Z.of_nat (length m))) with (S (S (length m)) + Z.to_nat off)%nat by lia.
          rewrite skipn_plus. rewrite Hrem. cbn [skipn]. rewrite skipn_app, skipn_all, Nat.sub_diag. reflexivity. }
        assert (IHs := IH d (off + 2 + Z.of_nat (length m)) f ltac:(lia) Hmax Hrem' ltac:(cbn [length] in Hfuel; lia)).
        destruct IHs as (b' & Hrun & Hb').
        change 18446744073709551615 with SIZE_MAX. rewrite Hrun. cbn [bind].
        destruct (cut pa ms) as [r e]. cbn [fst snd] in *. eexists. split; [reflexivity|]. exact Hb'.
      + cbn [fst snd]. eexists. split; [reflexivity|]. discriminate.
  Qed.
End ReadProofs.

(* ------------------------------------------------------------------------------------ *)
(* Segmentation of the inbound TCP stream                                                *)
(* ------------------------------------------------------------------------------------ *)

(* bytes appended to in_buf by one read_conn_packets() call on TCP, and "no disconnect seen" *)
Fixpoint call_bytes (rs : list rd) : list Z :=
  match rs with
  | RdBytes _ bytes full :: rs' => bytes ++ (if full then call_bytes rs' else [])
  | _ => []
  end.

Fixpoint call_ok (rs : list rd) : Prop :=
  match rs with
  | RdBytes _ bytes full :: rs' => bytes <> [] /\ (if full then call_ok rs' else True)
  | RdFail :: _ => False
  | _ => True
  end.

Lemma skipn_app_le (l1 l2 : list Z) n : (n <= length l1)%nat -> skipn n (l1 ++ l2) = skipn n l1 ++ l2.
Proof.
  intros H. rewrite skipn_app. replace (n - length l1)%nat with 0%nat by lia. reflexivity.
Qed.

Lemma buf_append_spec d off rc c :
  0 <= off <= Z.of_nat (length d) ->
  exists d' off', buf_append (mkbuf d off SIZE_MAX) rc c = Ok (mkbuf d' off' SIZE_MAX) /\
    0 <= off' <= Z.of_nat (length d') /\
    Z.of_nat (length d') <= Z.of_nat (length d) + Z.of_nat (length c) /\
    skipn (Z.to_nat off') d' = skipn (Z.to_nat off) d ++ c.
Proof.
  intros Hoff. unfold buf_append. destruct rc.
  - unfold buf_reclaim. cbn [b_tag b_off b_data]. change (SIZE_MAX =? SIZE_MAX) with true. cbn [negb andb].
    destruct (Z.eqb_spec off 0) as [->|Hnz].
    + cbn [bind b_data b_off b_tag]. exists (d ++ c), 0. rewrite app_length. cbn [Z.to_nat skipn].
      repeat split; try lia.
    + unfold data_len. cbn [b_data].
      destruct (Z.ltb_spec off 0); [lia|]. destruct (Z.ltb_spec (Z.of_nat (length d)) off); [lia|].
      cbn [orb bind b_data b_off b_tag].
      exists (skipn (Z.to_nat off) d ++ c), 0. rewrite Z.sub_diag, app_length, skipn_length.
      cbn [Z.to_nat skipn]. repeat split; try lia.
  - cbn [bind b_data b_off b_tag]. exists (d ++ c), off. rewrite app_length.
    repeat split; try lia. apply skipn_app_le. lia.
Qed.

Lemma read_conn_packets_tcp_ok : forall rs d off,
  call_ok rs -> 0 <= off <= Z.of_nat (length d) ->
  exists d' off', read_conn_packets true (mkbuf d off SIZE_MAX) rs = Ok (mkbuf d' off' SIZE_MAX, StillOpen) /\
    0 <= off' <= Z.of_nat (length d') /\
    Z.of_nat (length d') <= Z.of_nat (length d) + Z.of_nat (length (call_bytes rs)) /\
    skipn (Z.to_nat off') d' = skipn (Z.to_nat off) d ++ call_bytes rs.
Proof.
  induction rs as [|r rs IH]; intros d off Hok Hoff.
  - cbn. exists d, off. rewrite app_nil_r. repeat split; lia.
  - destruct r as [rc bytes full| |].
    + cbn [call_ok] in Hok. destruct Hok as [Hne Hrest]. cbn [read_conn_packets call_bytes].
      destruct bytes as [|x bytes]; [congruence|].
      destruct (buf_append_spec d off rc (x :: bytes) Hoff) as (d1 & off1 & Ha & Hoff1 & Hl1 & Hs1).
      rewrite Ha. cbn [bind]. destruct full.
      * destruct (IH d1 off1 Hrest Hoff1) as (d2 & off2 & Hr & Hoff2 & Hl2 & Hs2).
        exists d2, off2. rewrite Hr. repeat split; try lia.
        -- rewrite app_length. lia.
        -- rewrite Hs2, Hs1, <- app_assoc. reflexivity.
      * exists d1, off1. rewrite app_nil_r. repeat split; try lia. exact Hs1.
    + cbn. exists d, off. rewrite app_nil_r. repeat split; lia.
    + cbn in Hok. contradiction.
Qed.

Lemma parses_suffix s ms tl : parses s ms tl -> exists p, s = p ++ tl.
Proof.
  induction 1 as [tl Hinc | h l m s ms tl Hbe Hp IH].
  - exists []. reflexivity.
  - destruct IH as [p ->]. exists (h :: l :: m ++ p). cbn [app]. rewrite <- app_assoc. reflexivity.
Qed.

Lemma skipn_suffix (l a b : list Z) : l = a ++ b -> skipn (length l - length b) l = b.
Proof.
  intros ->. rewrite app_length. replace (length a + length b - length b)%nat with (length a) by lia.
  rewrite skipn_app, skipn_all, Nat.sub_diag. reflexivity.
Qed.

Section Segmentation.
  Variable pa : list Z -> bool.

  Definition total_bytes (calls : list (list rd)) : list Z := concat (map call_bytes calls).

  Lemma run_reads_spec : forall calls d off,
    Forall call_ok calls ->
    0 <= off <= Z.of_nat (length d) ->
    Z.of_nat (length d) + Z.of_nat (length (total_bytes calls)) < SIZE_MAX ->
    incomplete (skipn (Z.to_nat off) d) ->
    let s := skipn (Z.to_nat off) d ++ total_bytes calls in
    exists b', run_reads pa true (mkbuf d off SIZE_MAX) calls
                 = Ok (b', fst (cut pa (fst (frames s))), snd (cut pa (fst (frames s)))) /\
               (snd (cut pa (fst (frames s))) = StillOpen -> wf b' /\ remaining b' = snd (frames s)).
  Proof.
    induction calls as [|rs calls IH]; intros d off Hok Hoff Hmax Hinc s.
    - subst s. unfold total_bytes. cbn [map concat]. rewrite app_nil_r.
      rewrite (parses_frames _ _ _ (P_tail _ Hinc)). cbn [fst snd cut run_reads].
      eexists. split; [reflexivity|]. intros _. split.
      + unfold wf, data_len. cbn [b_off b_data b_tag]. unfold total_bytes in Hmax. cbn in Hmax. repeat split; lia.
      + reflexivity.
    - inversion Hok as [|? ? Hok1 Hok2]; subst.
      unfold total_bytes in *. cbn [map concat] in *. rewrite app_length in Hmax.
      cbn [run_reads]. unfold process_read.
      destruct (read_conn_packets_tcp_ok rs d off Hok1 Hoff) as (d1 & off1 & Hr & Hoff1 & Hl1 & Hs1).
      rewrite Hr. cbn [bind]. unfold read_answers. cbn [b_data].
      pose proof (frames_parses (skipn (Z.to_nat off1) d1)) as Hp1.
      destruct (frames (skipn (Z.to_nat off1) d1)) as [ms1 tl1] eqn:Ef1. cbn [fst snd] in Hp1.
      assert (Hfuel : (length ms1 < S (length d1))%nat).
      { pose proof (parses_count _ _ _ Hp1) as Hc. rewrite skipn_length in Hc. lia. }
      destruct (read_answers_loop_spec pa _ _ _ Hp1 d1 off1 (S (length d1)) Hoff1 ltac:(lia) eq_refl Hfuel)
        as (b1 & Hra & Hb1).
      rewrite Hra. cbn [bind].
      (* the whole stream *)
      assert (Hs : s = skipn (Z.to_nat off1) d1 ++ concat (map call_bytes calls)).
      { subst s. rewrite Hs1, <- app_assoc. reflexivity. }
      destruct (snd (cut pa ms1)) eqn:Ecut.
      + (* still open: continue with the rest of the events *)
        specialize (Hb1 eq_refl). subst b1.
        destruct (parses_suffix _ _ _ Hp1) as [p Hp].
        assert (Htl : skipn (Z.to_nat (Z.of_nat (length d1) - Z.of_nat (length tl1))) d1 = tl1).
        { replace (Z.to_nat (Z.of_nat (length d1) - Z.of_nat (length tl1))) with (length d1 - length tl1)%nat by lia.
          apply (skipn_suffix d1 (firstn (Z.to_nat off1) d1 ++ p) tl1).
          rewrite <- app_assoc, <- Hp. symmetry. apply firstn_skipn. }
        assert (Hlt : (length tl1 <= length d1)%nat).
        { pose proof (parses_count _ _ _ Hp1) as Hc. rewrite skipn_length in Hc. lia. }
        destruct (IH d1 (Z.of_nat (length d1) - Z.of_nat (length tl1)) Hok2 ltac:(lia) ltac:(lia))
          as (b2 & Hrun & Hb2).
        { rewrite Htl. eapply parses_incomplete; eauto. }
        rewrite Htl in Hrun, Hb2.
        pose proof (frames_parses (tl1 ++ concat (map call_bytes calls))) as Hp2.
        destruct (frames (tl1 ++ concat (map call_bytes calls))) as [ms2 tl2] eqn:Ef2. cbn [fst snd] in *.
        rewrite Hrun. cbn [bind].
        pose proof (parses_app _ _ _ _ _ _ Hp1 Hp2) as Hp12. rewrite <- Hs in Hp12.
        rewrite (parses_frames _ _ _ Hp12). cbn [fst snd].
        destruct (cut_app_open pa ms1 ms2 Ecut) as [Hc1 Hc2]. rewrite Hc1, Hc2. cbn [fst snd].
        eexists. split; [reflexivity|]. exact Hb2.
      + (* a rejected message closed the connection *)
        pose proof (frames_parses (tl1 ++ concat (map call_bytes calls))) as Hp2.
        pose proof (parses_app _ _ _ _ _ _ Hp1 Hp2) as Hp12. rewrite <- Hs in Hp12.
        rewrite (parses_frames _ _ _ Hp12). cbn [fst].
        rewrite (cut_app_closed pa ms1 _ Ecut). rewrite Ecut.
        eexists. split; [reflexivity|]. discriminate.
  Qed.

  (* C20_read_segmentation: on a fresh connection, whatever the split of the server's byte
     stream into reads (and however reads are grouped into read events, with spurious wake-ups
     in between), the messages handed to process_answer are the complete frames of the stream,
     in order, up to the first rejected one; the incomplete rest stays buffered. *)
  Theorem read_segmentation : forall calls,
    Forall call_ok calls ->
    Z.of_nat (length (total_bytes calls)) < SIZE_MAX ->
    exists b', run_reads pa true buf_create calls
                 = Ok (b', fst (cut pa (fst (frames (total_bytes calls)))),
                           snd (cut pa (fst (frames (total_bytes calls))))) /\
               (snd (cut pa (fst (frames (total_bytes calls)))) = StillOpen ->
                  remaining b' = snd (frames (total_bytes calls))).
  Proof.
    intros calls Hok Hmax.
    destruct (run_reads_spec calls [] 0 Hok ltac:(cbn; lia) ltac:(cbn [length]; lia) I) as (b' & Hrun & Hb').
    cbn [Z.to_nat skipn app] in *. exists b'. split; [exact Hrun|]. intros H. apply Hb'. exact H.
  Qed.

  (* ... in particular two ways of chopping the same stream are indistinguishable *)
  Corollary read_segmentation_equiv : forall calls1 calls2,
    Forall call_ok calls1 -> Forall call_ok calls2 ->
    total_bytes calls1 = total_bytes calls2 ->
    Z.of_nat (length (total_bytes calls1)) < SIZE_MAX ->
    exists b1 b2 ms e,
      run_reads pa true buf_create calls1 = Ok (b1, ms, e) /\
      run_reads pa true buf_create calls2 = Ok (b2, ms, e) /\
      (e = StillOpen -> remaining b1 = remaining b2).
  Proof.
    intros calls1 calls2 H1 H2 Heq Hmax.
    destruct (read_segmentation calls1 H1 Hmax) as (b1 & Hr1 & Hb1).
    destruct (read_segmentation calls2 H2 ltac:(rewrite <- Heq; exact Hmax)) as (b2 & Hr2 & Hb2).
    rewrite <- Heq in Hr2, Hb2.
    exists b1, b2, (fst (cut pa (fst (frames (total_bytes calls1))))), (snd (cut pa (fst (frames (total_bytes calls1))))).
    repeat split; auto. intros He. rewrite Hb1, Hb2; auto.
  Qed.
End Segmentation.
