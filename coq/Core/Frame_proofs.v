(* C20 - proofs about the framing model (Core/Frame.v). *)
From CAres.Base Require Import CInt.
From CAres.Gen Require Import Consts LeafFns.
From CAres.Core Require Import Frame.
Local Open Scope Z_scope.
Local Open Scope bool_scope.

(* ------------------------------------------------------------------------------------ *)
(* be16                                                                                  *)
(* ------------------------------------------------------------------------------------ *)
Lemma be16_add h l : 0 <= h < 256 -> 0 <= l < 256 -> be16 h l = h * 256 + l.
Proof.
  intros Hh Hl. unfold be16.
  assert (Hland : Z.land (Z.shiftl h 8) l = 0).
  { apply Z.bits_inj'. intros i Hi. rewrite Z.land_spec, Z.bits_0.
    destruct (Z.ltb_spec i 8) as [Hlt|Hge].
    - rewrite Z.shiftl_spec_low by lia. reflexivity.
    - assert (Z.testbit l i = false) as ->; [|apply andb_false_r].
      destruct (Z.eqb_spec l 0) as [->|Hnz]; [apply Z.bits_0|].
      apply Z.bits_above_log2; [lia|].
      assert (Z.log2 l < 8); [|lia]. apply Z.log2_lt_pow2; lia. }
  rewrite <- (Z.lxor_lor _ _ Hland), <- (Z.add_nocarry_lxor _ _ Hland).
  rewrite Z.shiftl_mul_pow2 by lia.
  change 65535 with (Z.ones 16). rewrite Z.land_ones by lia.
  change (2 ^ 8) with 256. rewrite Z.mod_small; lia.
Qed.

Lemma be16_bytes_roundtrip n : 0 <= n < 65536 -> be16 ((n / 256) mod 256) (n mod 256) = n.
Proof.
  intros Hn. rewrite be16_add.
  - rewrite (Z.mod_small (n / 256)).
    + pose proof (Z.div_mod n 256). lia.
    + split; [apply Z.div_pos; lia|]. apply Z.div_lt_upper_bound; lia.
  - apply Z.mod_pos_bound; lia.
  - apply Z.mod_pos_bound; lia.
Qed.

Lemma be16_range h l : 0 <= be16 h l < 65536.
Proof.
  unfold be16. change 65535 with (Z.ones 16).
  destruct (Z.lor (Z.shiftl h 8) l) eqn:E.
  - rewrite Z.land_0_l. lia.
  - rewrite Z.land_ones by lia. apply Z.mod_pos_bound. lia.
  - rewrite Z.land_ones by lia. apply Z.mod_pos_bound. lia.
Qed.

Definition small (m : list Z) : Prop := Z.of_nat (length m) < 65536.

Lemma frame_cons m : small m ->
  exists h l, frame m = h :: l :: m /\ be16 h l = Z.of_nat (length m).
Proof.
  intros Hs. unfold frame, be16_bytes. cbn [app].
  eexists _, _. split; [reflexivity|]. apply be16_bytes_roundtrip. unfold small in Hs. lia.
Qed.

(* ------------------------------------------------------------------------------------ *)
(* parses: the unique decomposition of a byte stream into complete frames + incomplete rest *)
(* ------------------------------------------------------------------------------------ *)
Inductive parses : list Z -> list (list Z) -> list Z -> Prop :=
| P_tail tl : incomplete tl -> parses tl [] tl
| P_frame h l m s ms tl :
    be16 h l = Z.of_nat (length m) -> parses s ms tl -> parses (h :: l :: m ++ s) (m :: ms) tl.

Lemma parses_frames_fuel s ms tl :
  parses s ms tl -> forall f, (length s <= f)%nat -> frames_fuel f s = (ms, tl).
Proof.
  induction 1 as [tl Hinc | h l m s ms tl Hbe Hp IH]; intros f Hf.
  - destruct f as [|f]; cbn [frames_fuel].
    + reflexivity.
    + destruct tl as [|x [|y rest]]; try reflexivity.
      cbn in Hinc. destruct (Nat.ltb_spec (length rest) (Z.to_nat (be16 x y))); [reflexivity|lia].
  - destruct f as [|f]; [cbn in Hf; lia|]. cbn [frames_fuel].
    rewrite Hbe, Nat2Z.id.
    destruct (Nat.ltb_spec (length (m ++ s)) (length m)) as [Hlt|Hge].
    + rewrite app_length in Hlt. lia.
    + rewrite skipn_app, skipn_all, Nat.sub_diag, firstn_app, firstn_all, Nat.sub_diag. cbn [skipn firstn app].
      rewrite IH; [rewrite app_nil_r; reflexivity|].
      cbn [length] in Hf. rewrite app_length in Hf. lia.
Qed.

Lemma parses_frames s ms tl : parses s ms tl -> frames s = (ms, tl).
Proof. intros H. apply parses_frames_fuel; auto. Qed.

Lemma frames_fuel_parses : forall f s, (length s <= f)%nat ->
  parses s (fst (frames_fuel f s)) (snd (frames_fuel f s)).
Proof.
  induction f as [|f IH]; intros s Hf.
  - destruct s; [|cbn in Hf; lia]. cbn. constructor. exact I.
  - cbn [frames_fuel]. destruct s as [|h [|l rest]].
    + cbn. constructor. exact I.
    + cbn. constructor. exact I.
    + destruct (Nat.ltb_spec (length rest) (Z.to_nat (be16 h l))) as [Hlt|Hge].
      * cbn. constructor. cbn. exact Hlt.
      * destruct (frames_fuel f (skipn (Z.to_nat (be16 h l)) rest)) as [fs tl'] eqn:E.
        cbn [fst snd].
        rewrite <- (firstn_skipn (Z.to_nat (be16 h l)) rest) at 1.
        apply P_frame.
        -- rewrite firstn_length_le by lia. pose proof (be16_range h l). lia.
        -- specialize (IH (skipn (Z.to_nat (be16 h l)) rest)). rewrite E in IH. cbn [fst snd] in IH.
           apply IH. rewrite skipn_length. cbn [length] in Hf. lia.
Qed.

Lemma frames_parses s : parses s (fst (frames s)) (snd (frames s)).
Proof. apply frames_fuel_parses. auto. Qed.

Lemma parses_app s ms tl c ms' tl' :
  parses s ms tl -> parses (tl ++ c) ms' tl' -> parses (s ++ c) (ms ++ ms') tl'.
Proof.
  induction 1 as [tl Hinc | h l m s ms tl Hbe Hp IH]; intros H2.
  - exact H2.
  - cbn [app]. rewrite <- app_assoc. constructor; auto.
Qed.

Lemma parses_incomplete s ms tl : parses s ms tl -> incomplete tl.
Proof. induction 1; auto. Qed.

Lemma parses_count s ms tl : parses s ms tl -> (2 * length ms + length tl <= length s)%nat.
Proof.
  induction 1 as [tl Hinc | h l m s ms tl Hbe Hp IH]; cbn [length]; [lia|].
  rewrite app_length. lia.
Qed.

Lemma parses_small s ms tl : parses s ms tl -> Forall small ms.
Proof.
  induction 1 as [tl Hinc | h l m s ms tl Hbe Hp IH]; constructor; auto.
  unfold small. rewrite <- Hbe. apply be16_range.
Qed.

(* a stream that is a sequence of well-formed frames followed by an incomplete rest *)
Lemma parses_flat_map ms tl : Forall small ms -> incomplete tl -> parses (flat_map frame ms ++ tl) ms tl.
Proof.
  induction 1 as [|m ms Hm Hms IH]; intros Hinc; cbn [flat_map app].
  - constructor; auto.
  - destruct (frame_cons m Hm) as (h & l & Hf & Hbe). rewrite Hf. cbn [app]. rewrite <- app_assoc.
    constructor; auto.
Qed.

Lemma cut_app_open pa ms1 ms2 :
  snd (cut pa ms1) = StillOpen ->
  cut pa (ms1 ++ ms2) = (ms1 ++ fst (cut pa ms2), snd (cut pa ms2)) /\ fst (cut pa ms1) = ms1.
Proof.
  induction ms1 as [|m ms1 IH]; cbn [cut app]; intros H.
  - split; auto. destruct (cut pa ms2); reflexivity.
  - destruct (pa m); [|discriminate].
    destruct (cut pa ms1) as [r e] eqn:E. cbn [snd fst] in *. destruct (IH H) as [IH1 IH2].
    rewrite IH1. subst r. auto.
Qed.

Lemma cut_app_closed pa ms1 ms2 :
  snd (cut pa ms1) = Closed -> cut pa (ms1 ++ ms2) = cut pa ms1.
Proof.
  induction ms1 as [|m ms1 IH]; cbn [cut app]; intros H; [discriminate|].
  destruct (pa m); [|reflexivity].
  destruct (cut pa ms1) as [r e] eqn:E. cbn [snd] in H. rewrite (IH H). reflexivity.
Qed.

(* ------------------------------------------------------------------------------------ *)
(* buffers                                                                               *)
(* ------------------------------------------------------------------------------------ *)
Definition wf (b : buf) : Prop :=
  0 <= b_off b <= data_len b /\ data_len b < SIZE_MAX /\ b_tag b = SIZE_MAX.

Lemma two64 : 2 ^ 64 = 18446744073709551616. Proof. reflexivity. Qed.

Lemma buf_len_eq d off t : 0 <= off <= Z.of_nat (length d) -> Z.of_nat (length d) < SIZE_MAX ->
  buf_len (mkbuf d off t) = Ok (Z.of_nat (length d) - off).
Proof.
  intros H1 H2. unfold buf_len, c_ares_buf_len, data_len. cbn [b_data b_off].
  rewrite Z.mod_small; [reflexivity|]. unfold SIZE_MAX in H2. rewrite two64. lia.
Qed.

Lemma buf_consume_ok d off t n : 0 <= off -> 0 <= n -> off + n <= Z.of_nat (length d) ->
  Z.of_nat (length d) < SIZE_MAX ->
  buf_consume (mkbuf d off t) n = Ok (ARES_SUCCESS, mkbuf d (off + n) t).
Proof.
  intros H1 H2 H3 H4. unfold buf_consume. rewrite buf_len_eq by lia. cbn [bind].
  unfold c_ares_buf_consume. cbn [b_off b_data b_tag].
  destruct (Z.ltb_spec (Z.of_nat (length d) - off) n); [lia|]. cbn [bind].
  rewrite Z.mod_small; [reflexivity|]. unfold SIZE_MAX in H4. rewrite two64. lia.
Qed.

Lemma buf_consume_short d off t n : 0 <= off <= Z.of_nat (length d) ->
  Z.of_nat (length d) < SIZE_MAX -> Z.of_nat (length d) - off < n ->
  buf_consume (mkbuf d off t) n = Ok (ARES_EBADRESP, mkbuf d off t).
Proof.
  intros H1 H2 H3. unfold buf_consume. rewrite buf_len_eq by lia. cbn [bind].
  unfold c_ares_buf_consume. cbn [b_off b_data b_tag].
  destruct (Z.ltb_spec (Z.of_nat (length d) - off) n); [|lia]. reflexivity.
Qed.

Lemma byte_at_skipn (d : list Z) off x r : 0 <= off -> skipn (Z.to_nat off) d = x :: r -> byte_at d off = Ok x.
Proof.
  intros H1 H2. unfold byte_at. destruct (Z.ltb_spec off 0); [lia|].
  assert (nth_error d (Z.to_nat off) = Some x) as ->; [|reflexivity].
  rewrite <- (firstn_skipn (Z.to_nat off) d) at 1. rewrite H2.
  assert (Hl : length (firstn (Z.to_nat off) d) = Z.to_nat off).
  { apply firstn_length_le. destruct (Nat.le_gt_cases (Z.to_nat off) (length d)); auto.
    rewrite skipn_all2 in H2 by lia. discriminate. }
  rewrite nth_error_app2 by lia. rewrite Hl, Nat.sub_diag. reflexivity.
Qed.

Lemma skipn_succ_tl (d : list Z) n x r : skipn n d = x :: r -> skipn (S n) d = r.
Proof.
  revert d. induction n as [|n IH]; intros d H.
  - cbn in H. subst d. reflexivity.
  - destruct d; [discriminate|]. cbn [skipn] in *. auto.
Qed.

Lemma skipn_plus (l : list Z) a b : skipn (a + b) l = skipn a (skipn b l).
Proof.
  revert l. induction b as [|b IH]; intros l.
  - rewrite Nat.add_0_r. reflexivity.
  - rewrite Nat.add_succ_r. destruct l; cbn [skipn].
    + destruct a; reflexivity.
    + apply IH.
Qed.

Lemma remaining_length (d : list Z) off : 0 <= off <= Z.of_nat (length d) ->
  Z.of_nat (length (skipn (Z.to_nat off) d)) = Z.of_nat (length d) - off.
Proof. intros H. rewrite skipn_length. lia. Qed.

Section ReadProofs.
  Variable pa : list Z -> bool.

  (* the loop of read_answers on a well-formed buffer delivers exactly the complete frames of
     the unread bytes, up to and including the first rejected one; an incomplete rest stays *)
  Lemma read_answers_loop_spec : forall s ms tl, parses s ms tl ->
    forall d off fuel, 0 <= off <= Z.of_nat (length d) -> Z.of_nat (length d) < SIZE_MAX ->
      skipn (Z.to_nat off) d = s -> (length ms < fuel)%nat ->
      exists b', read_answers_loop pa fuel (mkbuf d off SIZE_MAX)
                   = Ok (b', fst (cut pa ms), snd (cut pa ms)) /\
                 (snd (cut pa ms) = StillOpen ->
                    b' = mkbuf d (Z.of_nat (length d) - Z.of_nat (length tl)) SIZE_MAX).
  Proof.
    induction 1 as [tl Hinc | h l m s ms tl Hbe Hp IH]; intros d off fuel Hoff Hmax Hrem Hfuel.
    - (* nothing complete *)
      destruct fuel as [|f]; [lia|]. cbn [read_answers_loop cut fst snd].
      unfold buf_tag, c_ares_buf_tag. cbn [b_off b_data bind].
      pose proof (remaining_length d off Hoff) as Hlen. rewrite Hrem in Hlen.
      assert (Hfin : mkbuf d off SIZE_MAX = mkbuf d (Z.of_nat (length d) - Z.of_nat (length tl)) SIZE_MAX)
        by (f_equal; lia).
      assert (Hoffmax : (off =? 18446744073709551615) = false)
        by (apply Z.eqb_neq; unfold SIZE_MAX in Hmax; lia).
      unfold buf_fetch_be16. rewrite buf_len_eq by lia. cbn [bind].
      destruct (Z.ltb_spec (Z.of_nat (length d) - off) 2) as [Hlt|Hge].
      + cbn. unfold buf_tag_rollback, c_ares_buf_tag_rollback. cbn [b_tag b_off b_data].
        rewrite Hoffmax. cbn. eexists. split; [reflexivity|]. intros _. exact Hfin.
      + destruct tl as [|x [|y rest]]; cbn [length] in Hlen; try lia.
        cbn [b_data b_off].
        rewrite (byte_at_skipn d off x (y :: rest)) by (auto; lia). cbn [bind].
        rewrite (byte_at_skipn d (off + 1) y rest); [|lia|].
        2:{ replace (Z.to_nat (off + 1)) with (S (Z.to_nat off)) by lia.
            eapply skipn_succ_tl; eauto. }
        cbn [bind]. rewrite buf_consume_ok by lia. cbn [bind].
        cbn in Hinc.
        rewrite buf_consume_short; [| lia | lia |].
        2:{ cbn [length] in Hlen. pose proof (be16_range x y). lia. }
        cbn. unfold buf_tag_rollback, c_ares_buf_tag_rollback. cbn [b_tag b_off b_data].
        rewrite Hoffmax. cbn. eexists. split; [reflexivity|]. intros _. exact Hfin.
    - (* a complete frame m *)
      destruct fuel as [|f]; [lia|]. cbn [read_answers_loop].
      unfold buf_tag, c_ares_buf_tag. cbn [b_off b_data bind].
      pose proof (remaining_length d off Hoff) as Hlen. rewrite Hrem in Hlen.
      cbn [length] in Hlen. rewrite app_length in Hlen.
      assert (Hoffmax : (off =? 18446744073709551615) = false)
        by (apply Z.eqb_neq; unfold SIZE_MAX in Hmax; lia).
      unfold buf_fetch_be16. rewrite buf_len_eq by lia. cbn [bind].
      destruct (Z.ltb_spec (Z.of_nat (length d) - off) 2) as [Hlt|Hge]; [lia|].
      cbn [b_data b_off].
      rewrite (byte_at_skipn d off h (l :: m ++ s)) by (auto; lia). cbn [bind].
      rewrite (byte_at_skipn d (off + 1) l (m ++ s)); [|lia|].
      2:{ replace (Z.to_nat (off + 1)) with (S (Z.to_nat off)) by lia.
          eapply skipn_succ_tl; eauto. }
      cbn [bind]. rewrite buf_consume_ok by lia. cbn [bind].
      rewrite Hbe. rewrite buf_consume_ok by lia. cbn [bind].
      change (negb (ARES_SUCCESS =? ARES_SUCCESS)) with false. cbn iota.
      unfold buf_tag_fetch. cbn [b_tag b_off b_data]. unfold SIZE_MAX at 1. rewrite Hoffmax.
      replace (off + 2 + Z.of_nat (length m) - off) with (2 + Z.of_nat (length m)) by lia.
      rewrite Z.mod_small by (rewrite two64; unfold SIZE_MAX in Hmax; lia).
      unfold data_len. cbn [b_data].
      destruct (Z.leb_spec 0 off); [|lia].
      destruct (Z.leb_spec (off + (2 + Z.of_nat (length m))) (Z.of_nat (length d))); [|lia].
      cbn [andb bind]. rewrite Hrem.
      replace (Z.to_nat (2 + Z.of_nat (length m))) with (S (S (length m))) by lia.
      cbn [firstn]. rewrite firstn_app, firstn_all, Nat.sub_diag. cbn [firstn]. rewrite app_nil_r.
      cbn [length]. destruct (Z.ltb_spec (Z.of_nat (S (S (length m)))) 2); [lia|].
      cbn [skipn cut].
      destruct (pa m) eqn:Hpa.
      + unfold buf_tag_clear, c_ares_buf_tag_clear. cbn [b_tag b_off b_data]. rewrite Hoffmax. cbn [bind snd].
        assert (Hrem' : skipn (Z.to_nat (off + 2 + Z.of_nat (length m))) d = s).
        { replace (Z.to_nat (off + 2 + Z.of_nat (length m))) with (S (S (length m)) + Z.to_nat off)%nat by lia.
          rewrite skipn_plus. rewrite Hrem. cbn [skipn]. rewrite skipn_app, skipn_all, Nat.sub_diag. reflexivity. }
        assert (IHs := IH d (off + 2 + Z.of_nat (length m)) f ltac:(lia) Hmax Hrem' ltac:(cbn [length] in Hfuel; lia)).
        destruct IHs as (b' & Hrun & Hb').
        change 18446744073709551615 with SIZE_MAX. rewrite Hrun. cbn [bind].
        destruct (cut pa ms) as [r e]. cbn [fst snd] in *. eexists. split; [reflexivity|]. exact Hb'.
      + cbn [fst snd]. eexists. split; [reflexivity|]. discriminate.
  Qed.
End ReadProofs.

(* ------------------------------------------------------------------------------------ *)
(* Segmentation of the inbound TCP stream                                                *)
(* ------------------------------------------------------------------------------------ *)

(* bytes appended to in_buf by one read_conn_packets() call on TCP, and "no disconnect seen" *)
Fixpoint call_bytes (rs : list rd) : list Z :=
  match rs with
  | RdBytes _ bytes full :: rs' => bytes ++ (if full then call_bytes rs' else [])
  | _ => []
  end.

Fixpoint call_ok (rs : list rd) : Prop :=
  match rs with
  | RdBytes _ bytes full :: rs' => bytes <> [] /\ (if full then call_ok rs' else True)
  | RdFail :: _ => False
  | _ => True
  end.

Lemma skipn_app_le (l1 l2 : list Z) n : (n <= length l1)%nat -> skipn n (l1 ++ l2) = skipn n l1 ++ l2.
Proof.
  intros H. rewrite skipn_app. replace (n - length l1)%nat with 0%nat by lia. reflexivity.
Qed.

Lemma buf_append_spec d off rc c :
  0 <= off <= Z.of_nat (length d) ->
  exists d' off', buf_append (mkbuf d off SIZE_MAX) rc c = Ok (mkbuf d' off' SIZE_MAX) /\
    0 <= off' <= Z.of_nat (length d') /\
    Z.of_nat (length d') <= Z.of_nat (length d) + Z.of_nat (length c) /\
    skipn (Z.to_nat off') d' = skipn (Z.to_nat off) d ++ c.
Proof.
  intros Hoff. unfold buf_append. destruct rc.
  - unfold buf_reclaim. cbn [b_tag b_off b_data]. change (SIZE_MAX =? SIZE_MAX) with true. cbn [negb andb].
    destruct (Z.eqb_spec off 0) as [->|Hnz].
    + cbn [bind b_data b_off b_tag]. exists (d ++ c), 0. rewrite app_length. cbn [Z.to_nat skipn].
      repeat split; try lia.
    + unfold data_len. cbn [b_data].
      destruct (Z.ltb_spec off 0); [lia|]. destruct (Z.ltb_spec (Z.of_nat (length d)) off); [lia|].
      cbn [orb bind b_data b_off b_tag].
      exists (skipn (Z.to_nat off) d ++ c), 0. rewrite Z.sub_diag, app_length, skipn_length.
      cbn [Z.to_nat skipn]. repeat split; try lia.
  - cbn [bind b_data b_off b_tag]. exists (d ++ c), off. rewrite app_length.
    repeat split; try lia. apply skipn_app_le. lia.
Qed.

Lemma read_conn_packets_tcp_ok : forall rs d off,
  call_ok rs -> 0 <= off <= Z.of_nat (length d) ->
  exists d' off', read_conn_packets true (mkbuf d off SIZE_MAX) rs = Ok (mkbuf d' off' SIZE_MAX, StillOpen) /\
    0 <= off' <= Z.of_nat (length d') /\
    Z.of_nat (length d') <= Z.of_nat (length d) + Z.of_nat (length (call_bytes rs)) /\
    skipn (Z.to_nat off') d' = skipn (Z.to_nat off) d ++ call_bytes rs.
Proof.
  induction rs as [|r rs IH]; intros d off Hok Hoff.
  - cbn. exists d, off. rewrite app_nil_r. repeat split; lia.
  - destruct r as [rc bytes full| |].
    + cbn [call_ok] in Hok. destruct Hok as [Hne Hrest]. cbn [read_conn_packets call_bytes].
      destruct bytes as [|x bytes]; [congruence|].
      destruct (buf_append_spec d off rc (x :: bytes) Hoff) as (d1 & off1 & Ha & Hoff1 & Hl1 & Hs1).
      rewrite Ha. cbn [bind]. destruct full.
      * destruct (IH d1 off1 Hrest Hoff1) as (d2 & off2 & Hr & Hoff2 & Hl2 & Hs2).
        exists d2, off2. rewrite Hr. repeat split; try lia.
        -- rewrite app_length. lia.
        -- rewrite Hs2, Hs1, <- app_assoc. reflexivity.
      * exists d1, off1. rewrite app_nil_r. repeat split; try lia. exact Hs1.
    + cbn. exists d, off. rewrite app_nil_r. repeat split; lia.
    + cbn in Hok. contradiction.
Qed.

Lemma parses_suffix s ms tl : parses s ms tl -> exists p, s = p ++ tl.
Proof.
  induction 1 as [tl Hinc | h l m s ms tl Hbe Hp IH].
  - exists []. reflexivity.
  - destruct IH as [p ->]. exists (h :: l :: m ++ p). cbn [app]. rewrite <- app_assoc. reflexivity.
Qed.

Lemma skipn_suffix (l a b : list Z) : l = a ++ b -> skipn (length l - length b) l = b.
Proof.
  intros ->. rewrite app_length. replace (length a + length b - length b)%nat with (length a) by lia.
  rewrite skipn_app, skipn_all, Nat.sub_diag. reflexivity.
Qed.

Section Segmentation.
  Variable pa : list Z -> bool.

  Definition total_bytes (calls : list (list rd)) : list Z := concat (map call_bytes calls).

  Lemma run_reads_spec : forall calls d off,
    Forall call_ok calls ->
    0 <= off <= Z.of_nat (length d) ->
    Z.of_nat (length d) + Z.of_nat (length (total_bytes calls)) < SIZE_MAX ->
    incomplete (skipn (Z.to_nat off) d) ->
    let s := skipn (Z.to_nat off) d ++ total_bytes calls in
    exists b', run_reads pa true (mkbuf d off SIZE_MAX) calls
                 = Ok (b', fst (cut pa (fst (frames s))), snd (cut pa (fst (frames s)))) /\
               (snd (cut pa (fst (frames s))) = StillOpen -> wf b' /\ remaining b' = snd (frames s)).
  Proof.
    induction calls as [|rs calls IH]; intros d off Hok Hoff Hmax Hinc s.
    - subst s. unfold total_bytes. cbn [map concat]. rewrite app_nil_r.
      rewrite (parses_frames _ _ _ (P_tail _ Hinc)). cbn [fst snd cut run_reads].
      eexists. split; [reflexivity|]. intros _. split.
      + unfold wf, data_len. cbn [b_off b_data b_tag]. unfold total_bytes in Hmax. cbn in Hmax. repeat split; lia.
      + reflexivity.
    - inversion Hok as [|? ? Hok1 Hok2]; subst.
      unfold total_bytes in *. cbn [map concat] in *. rewrite app_length in Hmax.
      cbn [run_reads]. unfold process_read.
      destruct (read_conn_packets_tcp_ok rs d off Hok1 Hoff) as (d1 & off1 & Hr & Hoff1 & Hl1 & Hs1).
      rewrite Hr. cbn [bind]. unfold read_answers. cbn [b_data].
      pose proof (frames_parses (skipn (Z.to_nat off1) d1)) as Hp1.
      destruct (frames (skipn (Z.to_nat off1) d1)) as [ms1 tl1] eqn:Ef1. cbn [fst snd] in Hp1.
      assert (Hfuel : (length ms1 < S (length d1))%nat).
      { pose proof (parses_count _ _ _ Hp1) as Hc. rewrite skipn_length in Hc. lia. }
      destruct (read_answers_loop_spec pa _ _ _ Hp1 d1 off1 (S (length d1)) Hoff1 ltac:(lia) eq_refl Hfuel)
        as (b1 & Hra & Hb1).
      rewrite Hra. cbn [bind].
      (* the whole stream *)
      assert (Hs : s = skipn (Z.to_nat off1) d1 ++ concat (map call_bytes calls)).
      { subst s. rewrite Hs1, <- app_assoc. reflexivity. }
      destruct (snd (cut pa ms1)) eqn:Ecut.
      + (* still open: continue with the rest of the events *)
        specialize (Hb1 eq_refl). subst b1.
        destruct (parses_suffix _ _ _ Hp1) as [p Hp].
        assert (Htl : skipn (Z.to_nat (Z.of_nat (length d1) - Z.of_nat (length tl1))) d1 = tl1).
        { replace (Z.to_nat (Z.of_nat (length d1) - Z.of_nat (length tl1))) with (length d1 - length tl1)%nat by lia.
          apply (skipn_suffix d1 (firstn (Z.to_nat off1) d1 ++ p) tl1).
          rewrite <- app_assoc, <- Hp. symmetry. apply firstn_skipn. }
        assert (Hlt : (length tl1 <= length d1)%nat).
        { pose proof (parses_count _ _ _ Hp1) as Hc. rewrite skipn_length in Hc. lia. }
        destruct (IH d1 (Z.of_nat (length d1) - Z.of_nat (length tl1)) Hok2 ltac:(lia) ltac:(lia))
          as (b2 & Hrun & Hb2).
        { rewrite Htl. eapply parses_incomplete; eauto. }
        rewrite Htl in Hrun, Hb2.
        pose proof (frames_parses (tl1 ++ concat (map call_bytes calls))) as Hp2.
        destruct (frames (tl1 ++ concat (map call_bytes calls))) as [ms2 tl2] eqn:Ef2. cbn [fst snd] in *.
        rewrite Hrun. cbn [bind].
        pose proof (parses_app _ _ _ _ _ _ Hp1 Hp2) as Hp12. rewrite <- Hs in Hp12.
        rewrite (parses_frames _ _ _ Hp12). cbn [fst snd].
        destruct (cut_app_open pa ms1 ms2 Ecut) as [Hc1 Hc2]. rewrite Hc1, Hc2. cbn [fst snd].
        eexists. split; [reflexivity|]. exact Hb2.
      + (* a rejected message closed the connection *)
        pose proof (frames_parses (tl1 ++ concat (map call_bytes calls))) as Hp2.
        pose proof (parses_app _ _ _ _ _ _ Hp1 Hp2) as Hp12. rewrite <- Hs in Hp12.
        rewrite (parses_frames _ _ _ Hp12). cbn [fst].
        rewrite (cut_app_closed pa ms1 _ Ecut). rewrite Ecut.
        eexists. split; [reflexivity|]. discriminate.
  Qed.

  (* C20_read_segmentation: on a fresh connection, whatever the split of the server's byte
     stream into reads (and however reads are grouped into read events, with spurious wake-ups
     in between), the messages handed to process_answer are the complete frames of the stream,
     in order, up to the first rejected one; the incomplete rest stays buffered. *)
  Theorem read_segmentation : forall calls,
    Forall call_ok calls ->
    Z.of_nat (length (total_bytes calls)) < SIZE_MAX ->
    exists b', run_reads pa true buf_create calls
                 = Ok (b', fst (cut pa (fst (frames (total_bytes calls)))),
                           snd (cut pa (fst (frames (total_bytes calls))))) /\
               (snd (cut pa (fst (frames (total_bytes calls)))) = StillOpen ->
                  remaining b' = snd (frames (total_bytes calls))).
  Proof.
    intros calls Hok Hmax.
    destruct (run_reads_spec calls [] 0 Hok ltac:(cbn; lia) ltac:(cbn [length]; lia) I) as (b' & Hrun & Hb').
    cbn [Z.to_nat skipn app] in *. exists b'. split; [exact Hrun|]. intros H. apply Hb'. exact H.
  Qed.

  (* ... in particular two ways of chopping the same stream are indistinguishable *)
  Corollary read_segmentation_equiv : forall calls1 calls2,
    Forall call_ok calls1 -> Forall call_ok calls2 ->
    total_bytes calls1 = total_bytes calls2 ->
    Z.of_nat (length (total_bytes calls1)) < SIZE_MAX ->
    exists b1 b2 ms e,
      run_reads pa true buf_create calls1 = Ok (b1, ms, e) /\
      run_reads pa true buf_create calls2 = Ok (b2, ms, e) /\
      (e = StillOpen -> remaining b1 = remaining b2).
  Proof.
    intros calls1 calls2 H1 H2 Heq Hmax.
    destruct (read_segmentation calls1 H1 Hmax) as (b1 & Hr1 & Hb1).
    destruct (read_segmentation calls2 H2 ltac:(rewrite <- Heq; exact Hmax)) as (b2 & Hr2 & Hb2).
    rewrite <- Heq in Hr2, Hb2.
    exists b1, b2, (fst (cut pa (fst (frames (total_bytes calls1))))), (snd (cut pa (fst (frames (total_bytes calls1))))).
    repeat split; auto. intros He. rewrite Hb1, Hb2; auto.
  Qed.
End Segmentation.

(* ------------------------------------------------------------------------------------ *)
(* Write side                                                                            *)
(* ------------------------------------------------------------------------------------ *)
Definition owf (c : conn) : Prop :=
  0 <= b_off (c_out c) <= data_len (c_out c) /\ data_len (c_out c) < SIZE_MAX /\ b_tag (c_out c) = SIZE_MAX.

Lemma server_bytes_app e1 e2 : server_bytes (e1 ++ e2) = server_bytes e1 ++ server_bytes e2.
Proof.
  induction e1 as [|e e1 IH]; [reflexivity|]. destruct e; cbn [app server_bytes]; auto.
  rewrite IH, app_assoc. reflexivity.
Qed.

Lemma sock_state_update_spec c f :
  let r := sock_state_update c f in
  c_out (fst r) = c_out c /\ c_tcp (fst r) = c_tcp c /\ c_rw (fst r) = f /\ server_bytes (snd r) = [] /\
  c_connected (fst r) = c_connected c /\ c_tfo_initial (fst r) = c_tfo_initial c.
Proof. unfold sock_state_update. cbn. destruct (c_rw c =? f); cbn; auto 10. Qed.

Definition want_flags (tfo : bool) (pending : list Z) : Z :=
  Z.lor ARES_CONN_STATE_READ
    (Z.lor (if tfo then ARES_CONN_STATE_WRITE else 0)
           (if negb (Z.of_nat (length pending) =? 0) then ARES_CONN_STATE_WRITE else 0)).

Lemma flush_done_spec c : owf c ->
  exists c' evs, flush_done c = Ok (c', evs) /\ c_out c' = c_out c /\ c_tcp c' = c_tcp c /\
    server_bytes evs = [] /\ c_rw c' = want_flags (c_tcp c && negb (c_connected c)) (remaining (c_out c)) /\
    c_connected c' = c_connected c /\ c_tfo_initial c' = c_tfo_initial c.
Proof.
  intros (H1 & H2 & H3). unfold flush_done. destruct (c_out c) as [d off t] eqn:Eo.
  unfold data_len in *. cbn [b_data b_off b_tag] in *.
  rewrite buf_len_eq by lia. cbn [bind].
  match goal with |- context [sock_state_update c ?f] =>
    pose proof (sock_state_update_spec c f) as Hs; cbn zeta in Hs;
    destruct (sock_state_update c f) as [c' evs] eqn:Eu end.
  cbn [fst snd] in Hs. destruct Hs as (Ha & Hb & Hc & Hd & He & Hf). rewrite Eo in Ha.
  exists c', evs. split; [reflexivity|].
  repeat split; auto. rewrite Hc. unfold want_flags, remaining. cbn [b_off b_data].
  rewrite remaining_length by lia. reflexivity.
Qed.

Ltac splits := repeat match goal with |- _ /\ _ => split end.

(* one ares_conn_flush on a TCP connection: the bytes the peer accepted plus the bytes still
   pending are the bytes that were pending; write interest is announced iff bytes remain *)
Definition flush_post (c : conn) (ws : list wcap) (c' : conn) (st : Z) (evs : list cevent) : Prop :=
  c_tcp c' = true /\ owf c' /\ b_data (c_out c') = b_data (c_out c) /\
  server_bytes evs ++ remaining (c_out c') = remaining (c_out c) /\
  (st = ARES_SUCCESS \/ st = ARES_ECONNREFUSED) /\
  (st = ARES_SUCCESS -> c_rw c' = want_flags (negb (c_connected c)) (remaining (c_out c'))) /\
  c_connected c' = c_connected c /\
  (c_connected c = true -> c_tfo_initial c = false ->
     match hd_cap ws with
     | Cap n => 0 < n -> length (remaining (c_out c')) = (length (remaining (c_out c)) - Z.to_nat n)%nat
     | CapFail => True
     end).

Lemma conn_flush_tcp_spec c ws : c_tcp c = true -> owf c ->
  exists c' st evs ws', conn_flush c ws = Ok (c', st, evs, ws') /\ flush_post c ws c' st evs.
Proof.
  intros Htcp Hwf. pose proof Hwf as (H1 & H2 & H3).
  unfold conn_flush. cbn [conn_flush_loop]. unfold flush_post.
  destruct (c_out c) as [d off t] eqn:Eo. unfold data_len in *. cbn [b_data b_off b_tag] in *. subst t.
  rewrite buf_len_eq by lia. cbn [bind].
  destruct (Z.eqb_spec (Z.of_nat (length d) - off) 0) as [Hz|Hnz].
  - (* nothing pending *)
    destruct (flush_done_spec c Hwf) as (c' & evs & Hf & Ho & Ht & Hs & Hrw & Hcn & Htf).
    rewrite Hf. cbn [bind fst snd]. exists c', ARES_SUCCESS, evs, ws.
    rewrite Ho, Eo, Hs. cbn [app]. splits.
    + reflexivity.
    + congruence.
    + unfold owf. rewrite Ho, Eo. unfold data_len. cbn. lia.
    + reflexivity.
    + reflexivity.
    + left; reflexivity.
    + intros _. rewrite Hrw, Htcp, Eo. reflexivity.
    + exact Hcn.
    + intros _ _. destruct (hd_cap ws); auto. intros _. unfold remaining. cbn [b_off b_data].
      rewrite skipn_length. lia.
  - rewrite Htcp. cbn iota. unfold buf_peek. unfold data_len. cbn [b_off b_data].
    destruct (Z.leb_spec 0 off); [|lia]. destruct (Z.leb_spec off (Z.of_nat (length d))); [|lia].
    cbn [andb bind].
    set (data := skipn (Z.to_nat off) d).
    assert (Hdl : Z.of_nat (length data) = Z.of_nat (length d) - off) by (apply remaining_length; lia).
    unfold conn_write. rewrite Htcp. cbn [andb].
    destruct (negb (c_connected c) && negb (c_tfo_initial c)) eqn:Enc.
    + (* not connected yet: ARES_CONN_ERR_WOULDBLOCK without a socket call *)
      destruct (flush_done_spec c Hwf) as (c' & evs & Hf & Ho & Ht & Hs & Hrw & Hcn & Htf).
      rewrite Hf. cbn [bind fst snd app]. exists c', ARES_SUCCESS, evs, ws.
      rewrite Ho, Eo, Hs. cbn [app]. splits.
      * reflexivity.
      * congruence.
      * unfold owf. rewrite Ho, Eo. unfold data_len. cbn. lia.
      * reflexivity.
      * reflexivity.
      * left; reflexivity.
      * intros _. rewrite Hrw, Htcp, Eo. reflexivity.
      * exact Hcn.
      * intros Hc Ht0. rewrite Hc, Ht0 in Enc. discriminate.
    + set (c1 := mkconn true (c_connected c) false (c_out c) (c_rw c)).
      assert (Hwf1 : owf c1) by (unfold owf, c1; cbn [c_out]; rewrite Eo; unfold data_len; cbn; lia).
      destruct (hd_cap ws) as [n|] eqn:Ecap.
      * destruct (Z.leb_spec n 0) as [Hn0|Hnpos].
        -- (* EAGAIN *)
           pose proof (sock_state_update_spec c1 (Z.lor ARES_CONN_STATE_READ ARES_CONN_STATE_WRITE)) as Hu.
           cbn zeta in Hu. destruct (sock_state_update c1 (Z.lor ARES_CONN_STATE_READ ARES_CONN_STATE_WRITE)) as [c2 ev2].
           cbn [fst snd] in Hu. destruct Hu as (Hu1 & Hu2 & Hu3 & Hu4 & Hu5 & Hu6).
           assert (Hwf2 : owf c2) by (unfold owf; rewrite Hu1; exact Hwf1).
           destruct (flush_done_spec c2 Hwf2) as (c' & evs & Hf & Ho & Ht & Hs & Hrw & Hcn & Htf).
           rewrite Hf. cbn [bind fst snd]. eexists c', ARES_SUCCESS, _, _. split; [reflexivity|].
           rewrite Ho, Hu1. unfold c1. cbn [c_out]. rewrite Eo.
           cbn [server_bytes app]. rewrite server_bytes_app, Hu4, Hs. cbn [app]. splits.
           ++ rewrite Ht, Hu2. reflexivity.
           ++ unfold owf. rewrite Ho, Hu1. exact Hwf1.
           ++ reflexivity.
           ++ reflexivity.
           ++ left; reflexivity.
           ++ intros _. rewrite Hrw, Hu1, Hu2, Hu5. unfold c1. cbn [c_tcp c_out c_connected]. rewrite Eo. reflexivity.
           ++ rewrite Hcn, Hu5. reflexivity.
           ++ intros _ _ Hpos. lia.
        -- (* n > 0: min(n, len) bytes accepted *)
           set (len := Z.of_nat (length data)). set (written := Z.min n len).
           assert (Hw : 0 < written <= len) by (unfold written, len; lia).
           assert (Hsplit : firstn (Z.to_nat written) data ++ skipn (Z.to_nat off + Z.to_nat written) d = data).
           { rewrite Nat.add_comm, skipn_plus. apply firstn_skipn. }
           assert (Hprog : length (skipn (Z.to_nat off + Z.to_nat written) d) = (length data - Z.to_nat n)%nat).
           { rewrite Nat.add_comm, skipn_plus. fold data. rewrite skipn_length. unfold written, len. lia. }
           destruct (Z.eqb_spec len written) as [Hall|Hpart].
           ++ pose proof (sock_state_update_spec c1
                 (Z.lor ARES_CONN_STATE_READ (if c_tfo_initial c then ARES_CONN_STATE_WRITE else ARES_CONN_STATE_NONE))) as Hu.
              cbn zeta in Hu.
              destruct (sock_state_update c1 (Z.lor ARES_CONN_STATE_READ (if c_tfo_initial c then ARES_CONN_STATE_WRITE else ARES_CONN_STATE_NONE))) as [c2 ev2].
              cbn [fst snd] in Hu. destruct Hu as (Hu1 & Hu2 & Hu3 & Hu4 & Hu5 & Hu6).
              rewrite Hu1. unfold c1 at 1. cbn [c_out]. rewrite Eo.
              rewrite buf_consume_ok by lia. cbn [bind snd].
              set (c3 := set_out c2 (mkbuf d (off + written) SIZE_MAX)).
              assert (Hwf3 : owf c3) by (unfold owf, c3, set_out; cbn [c_out]; unfold data_len; cbn; lia).
              destruct (flush_done_spec c3 Hwf3) as (c' & evs & Hf & Ho & Ht & Hs & Hrw & Hcn & Htf).
              rewrite Hf. cbn [bind fst snd]. eexists c', ARES_SUCCESS, _, _. split; [reflexivity|].
              rewrite Ho. unfold c3, set_out. cbn [c_out c_tcp].
              rewrite !server_bytes_app. cbn [server_bytes]. rewrite Hu4, Hs. rewrite !app_nil_r.
              unfold remaining. cbn [b_off b_data].
              replace (Z.to_nat (off + written)) with (Z.to_nat off + Z.to_nat written)%nat by lia.
              splits.
              ** rewrite Ht. unfold c3, set_out. cbn [c_tcp]. rewrite Hu2. reflexivity.
              ** unfold owf. rewrite Ho. unfold c3, set_out. cbn [c_out]. unfold data_len. cbn. lia.
              ** reflexivity.
              ** exact Hsplit.
              ** left; reflexivity.
              ** intros _. rewrite Hrw. unfold c3, set_out. cbn [c_tcp c_out c_connected]. rewrite Hu2, Hu5. unfold c1. cbn [c_tcp c_connected].
                 unfold remaining. cbn [b_off b_data].
                 replace (Z.to_nat (off + written)) with (Z.to_nat off + Z.to_nat written)%nat by lia. reflexivity.
              ** rewrite Hcn. unfold c3, set_out. cbn [c_connected]. rewrite Hu5. reflexivity.
              ** intros _ _ _. exact Hprog.
           ++ (* short write: no notification inside ares_conn_write *)
              unfold c1 at 1. cbn [c_out]. rewrite Eo.
              rewrite buf_consume_ok by lia. cbn [bind snd].
              set (c3 := set_out c1 (mkbuf d (off + written) SIZE_MAX)).
              assert (Hwf3 : owf c3) by (unfold owf, c3, set_out; cbn [c_out]; unfold data_len; cbn; lia).
              destruct (flush_done_spec c3 Hwf3) as (c' & evs & Hf & Ho & Ht & Hs & Hrw & Hcn & Htf).
              rewrite Hf. cbn [bind fst snd]. eexists c', ARES_SUCCESS, _, _. split; [reflexivity|].
              rewrite Ho. unfold c3, set_out. cbn [c_out c_tcp].
              rewrite !server_bytes_app. cbn [server_bytes]. rewrite Hs. rewrite !app_nil_r.
              unfold remaining. cbn [b_off b_data].
              replace (Z.to_nat (off + written)) with (Z.to_nat off + Z.to_nat written)%nat by lia.
              splits.
              ** rewrite Ht. reflexivity.
              ** unfold owf. rewrite Ho. unfold c3, set_out. cbn [c_out]. unfold data_len. cbn. lia.
              ** reflexivity.
              ** exact Hsplit.
              ** left; reflexivity.
              ** intros _. rewrite Hrw. unfold c3, set_out, c1. cbn [c_tcp c_out c_connected].
                 unfold remaining. cbn [b_off b_data].
                 replace (Z.to_nat (off + written)) with (Z.to_nat off + Z.to_nat written)%nat by lia. reflexivity.
              ** rewrite Hcn. reflexivity.
              ** intros _ _ _. exact Hprog.
      * (* hard error: ARES_ECONNREFUSED, the caller closes the connection *)
        eexists c1, ARES_ECONNREFUSED, _, _. split; [reflexivity|].
        unfold c1. cbn [c_out c_tcp c_connected server_bytes app]. rewrite Eo. splits.
        -- reflexivity.
        -- unfold owf. cbn [c_out]. try rewrite Eo. unfold data_len. cbn. lia.
        -- reflexivity.
        -- reflexivity.
        -- right; reflexivity.
        -- intros Hx. discriminate Hx.
        -- reflexivity.
        -- intros _ _. exact I.
Qed.

Lemma enqueue_spec d off rc msg : 0 <= off <= Z.of_nat (length d) ->
  exists st d' off', enqueue (mkbuf d off SIZE_MAX) rc msg = Ok (st, mkbuf d' off' SIZE_MAX) /\
    0 <= off' <= Z.of_nat (length d') /\
    (if 65535 <? Z.of_nat (length msg)
     then st = ARES_EBADQUERY /\ d' = d /\ off' = off
     else st = ARES_SUCCESS /\
          Z.of_nat (length d') <= Z.of_nat (length d) + Z.of_nat (length (frame msg)) /\
          skipn (Z.to_nat off') d' = skipn (Z.to_nat off) d ++ frame msg).
Proof.
  intros Hoff. unfold enqueue. destruct (65535 <? Z.of_nat (length msg)).
  - exists ARES_EBADQUERY, d, off. auto.
  - destruct (buf_append_spec d off rc (frame msg) Hoff) as (d' & off' & Ha & Ho & Hl & Hs).
    rewrite Ha. cbn [bind]. exists ARES_SUCCESS, d', off'. auto.
Qed.

Definition sent_frame (msg : list Z) : list Z :=
  if 65535 <? Z.of_nat (length msg) then [] else frame msg.

Definition step_post (c : conn) (extra : list Z) (c' : conn) (st : Z) (evs : list cevent) : Prop :=
  c_tcp c' = true /\ owf c' /\
  data_len (c_out c') <= data_len (c_out c) + Z.of_nat (length extra) /\
  server_bytes evs ++ remaining (c_out c') = remaining (c_out c) ++ extra /\
  (st = ARES_SUCCESS \/ st = ARES_ECONNREFUSED \/ st = ARES_EBADQUERY).

Lemma flush_step c ws : c_tcp c = true -> owf c ->
  exists c' st evs ws', conn_flush c ws = Ok (c', st, evs, ws') /\ step_post c [] c' st evs.
Proof.
  intros Htcp Hwf. destruct (conn_flush_tcp_spec c ws Htcp Hwf) as (c' & st & evs & ws' & Hf & Hp).
  destruct Hp as (P1 & P2 & P3 & P4 & P5 & _). exists c', st, evs, ws'. split; [exact Hf|].
  unfold step_post. splits; auto.
  - unfold data_len. rewrite P3. cbn [length]. lia.
  - rewrite app_nil_r. exact P4.
  - destruct P5; auto.
Qed.

Lemma conn_query_write_spec c pcb np rc msg ws : c_tcp c = true -> owf c ->
  data_len (c_out c) + Z.of_nat (length (sent_frame msg)) < SIZE_MAX ->
  exists c' np' st evs ws', conn_query_write c pcb np rc msg ws = Ok (c', np', st, evs, ws') /\
    step_post c (sent_frame msg) c' st evs.
Proof.
  intros Htcp (H1 & H2 & H3) Hmax. unfold conn_query_write, sent_frame in *.
  destruct (c_out c) as [d off t] eqn:Eo. unfold data_len in *. cbn [b_data b_off b_tag] in *. subst t.
  destruct (enqueue_spec d off rc msg H1) as (st & d' & off' & He & Hoff' & Hcase). rewrite He. cbn [bind].
  destruct (65535 <? Z.of_nat (length msg)) eqn:Ebig.
  - destruct Hcase as (-> & -> & ->). change (negb (ARES_EBADQUERY =? ARES_SUCCESS)) with true. cbn iota.
    eexists c, np, ARES_EBADQUERY, [], ws. split; [reflexivity|]. unfold step_post. rewrite Eo.
    cbn [server_bytes app length]. rewrite app_nil_r. unfold owf, data_len. rewrite Eo. cbn [b_data b_off b_tag].
    splits; auto; lia.
  - destruct Hcase as (-> & Hl & Hs). change (negb (ARES_SUCCESS =? ARES_SUCCESS)) with false. cbn iota.
    set (c1 := set_out c (mkbuf d' off' SIZE_MAX)).
    assert (Hwf1 : owf c1) by (unfold owf, c1, set_out; cbn [c_out]; unfold data_len; cbn [b_data b_off b_tag]; lia).
    assert (Htcp1 : c_tcp c1 = true) by (unfold c1, set_out; cbn [c_tcp]; exact Htcp).
    assert (Hrem1 : remaining (c_out c1) = remaining (mkbuf d off SIZE_MAX) ++ frame msg)
      by (unfold c1, set_out, remaining; cbn [c_out b_off b_data]; exact Hs).
    assert (Hdl1 : data_len (c_out c1) <= Z.of_nat (length d) + Z.of_nat (length (frame msg)))
      by (unfold c1, set_out, data_len; cbn [c_out b_data]; exact Hl).
    assert (Hnoflush : step_post c (frame msg) c1 ARES_SUCCESS []).
    { unfold step_post. rewrite Eo. cbn [server_bytes app]. unfold data_len at 2. cbn [b_data]. splits; auto. }
    destruct (c_tcp c1 && negb (c_connected c1) && negb (c_tfo_initial c1)).
    + eexists c1, np, ARES_SUCCESS, [], ws. split; [reflexivity|]. exact Hnoflush.
    + destruct (pcb && negb np && c_tcp c1).
      * eexists c1, true, ARES_SUCCESS, [EvPendingWrite], ws. split; [reflexivity|].
        destruct Hnoflush as (Q1 & Q2 & Q3 & Q4 & Q5). unfold step_post. splits; auto.
      * destruct (flush_step c1 ws Htcp1 Hwf1) as (c2 & st2 & evs & ws2 & Hf & Hp).
        rewrite Hf. cbn [bind]. eexists c2, np, st2, evs, ws2. split; [reflexivity|].
        destruct Hp as (Q1 & Q2 & Q3 & Q4 & Q5). unfold step_post. rewrite Eo. splits; auto.
        -- unfold data_len at 2. cbn [b_data]. cbn [length] in Q3. lia.
        -- rewrite Q4, app_nil_r. exact Hrem1.
Qed.

Lemma process_write_spec c ws : c_tcp c = true -> owf c ->
  exists c' st evs ws', process_write c ws = Ok (c', st, evs, ws') /\ step_post c [] c' st evs.
Proof.
  intros Htcp Hwf. unfold process_write. destruct (c_tfo_initial c).
  - apply flush_step; auto.
  - set (c1 := mkconn (c_tcp c) true false (c_out c) (c_rw c)).
    destruct (flush_step c1 ws Htcp Hwf) as (c' & st & evs & ws' & Hf & Hp).
    exists c', st, evs, ws'. split; [exact Hf|]. exact Hp.
Qed.

(* The run of a TCP connection under ANY sequence of operations and ANY acceptance pattern:
   what the peer has received is a prefix of the concatenation of the framed queued messages;
   as long as the connection lives, the rest is exactly what is still pending in out_buf. *)
Theorem write_acceptance : forall ops c pcb np ws,
  c_tcp c = true -> owf c ->
  data_len (c_out c) + Z.of_nat (length (flat_map frame (enqueued ops))) < SIZE_MAX ->
  exists c' evs e rest, run_wops c pcb np ops ws = Ok (c', evs, e) /\
    server_bytes evs ++ rest = remaining (c_out c) ++ flat_map frame (enqueued ops) /\
    (e = StillOpen -> rest = remaining (c_out c') /\ owf c' /\ c_tcp c' = true).
Proof.
  induction ops as [|op ops IH]; intros c pcb np ws Htcp Hwf Hmax.
  - cbn [run_wops enqueued flat_map]. exists c, [], StillOpen, (remaining (c_out c)).
    cbn [server_bytes app]. rewrite app_nil_r. auto.
  - cbn [run_wops].
    set (extra := match op with WEnq _ m => sent_frame m | _ => [] end).
    assert (Henq : flat_map frame (enqueued (op :: ops)) = extra ++ flat_map frame (enqueued ops)).
    { unfold extra, sent_frame. destruct op as [rc m| | |]; cbn [enqueued]; auto.
      destruct (65535 <? Z.of_nat (length m)); cbn [flat_map app]; auto. }
    rewrite Henq in *. rewrite app_length in Hmax.
    assert (Hstep : exists c1 np1 st evs ws1,
      match op with
      | WEnq rc msg => conn_query_write c pcb np rc msg ws
      | WWritable => do f <- process_write c ws; let '(c2, st, evs, ws2) := f in Ok (c2, np, st, evs, ws2)
      | WPendingFlush =>
          if np then do f <- conn_flush c ws; let '(c2, st, evs, ws2) := f in Ok (c2, false, st, evs, ws2)
          else Ok (c, np, ARES_SUCCESS, [], ws)
      | WReadOk => Ok (mkconn (c_tcp c) true (c_tfo_initial c) (c_out c) (c_rw c), np, ARES_SUCCESS, [], ws)
      end = Ok (c1, np1, st, evs, ws1) /\ step_post c extra c1 st evs).
    { clear IH Henq. destruct op as [rc m| | |]; subst extra; cbn iota beta in Hmax |- *.
      - apply conn_query_write_spec; auto. lia.
      - destruct (process_write_spec c ws Htcp Hwf) as (c1 & st & evs & ws1 & Hf & Hp).
        rewrite Hf. cbn [bind]. eexists c1, np, st, evs, ws1. split; [reflexivity|exact Hp].
      - destruct np.
        + destruct (flush_step c ws Htcp Hwf) as (c1 & st & evs & ws1 & Hf & Hp).
          rewrite Hf. cbn [bind]. eexists c1, false, st, evs, ws1. split; [reflexivity|exact Hp].
        + eexists c, false, ARES_SUCCESS, [], ws. split; [reflexivity|].
          unfold step_post. cbn [server_bytes app length]. rewrite app_nil_r. splits; auto. lia.
      - eexists _, np, ARES_SUCCESS, [], ws. split; [reflexivity|].
        unfold step_post. cbn [server_bytes app length c_out c_tcp]. rewrite app_nil_r. splits; auto. lia. }
    destruct Hstep as (c1 & np1 & st & evs & ws1 & Hr & Q1 & Q2 & Q3 & Q4 & Q5).
    rewrite Hr. cbn [bind].
    destruct (negb (st =? ARES_SUCCESS) && negb (st =? ARES_EBADQUERY)) eqn:Est.
    + (* the flush failed: handle_conn_error() *)
      exists c1, evs, Closed, (remaining (c_out c1) ++ flat_map frame (enqueued ops)).
      split; [reflexivity|]. split; [|discriminate].
      rewrite app_assoc, Q4, <- app_assoc. reflexivity.
    + destruct (IH c1 pcb np1 ws1 Q1 Q2 ltac:(lia)) as (c2 & evs2 & e & rest & Hrun & Hbytes & Hopen).
      rewrite Hrun. cbn [bind]. exists c2, (evs ++ evs2), e, rest. split; [reflexivity|]. split; [|exact Hopen].
      rewrite server_bytes_app, <- app_assoc, Hbytes, app_assoc, Q4, <- app_assoc. reflexivity.
Qed.

(* progress: a write event on a connected TCP connection with room for n > 0 bytes removes
   min(n, pending) bytes from what is pending, so any pattern whose positive entries add up
   to the pending length drains the buffer *)
Theorem write_progress c n ws : c_tcp c = true -> owf c -> c_connected c = true -> c_tfo_initial c = false ->
  0 < n ->
  exists c' st evs ws', conn_flush c (Cap n :: ws) = Ok (c', st, evs, ws') /\ st = ARES_SUCCESS /\
    length (remaining (c_out c')) = (length (remaining (c_out c)) - Z.to_nat n)%nat /\
    c_rw c' = want_flags false (remaining (c_out c')).
Proof.
  intros Htcp Hwf Hc Ht Hn.
  destruct (conn_flush_tcp_spec c (Cap n :: ws) Htcp Hwf) as (c' & st & evs & ws' & Hf & Hp).
  destruct Hp as (P1 & P2 & P3 & P4 & P5 & P6 & P7 & P8).
  exists c', st, evs, ws'. split; [exact Hf|].
  cbn [hd_cap] in P8. specialize (P8 Hc Ht Hn).
  assert (Hst : st = ARES_SUCCESS).
  { destruct P5 as [|Hbad]; auto. exfalso.
    (* ECONNREFUSED only comes from CapFail *)
    revert Hf. unfold conn_flush. cbn [conn_flush_loop].
    destruct Hwf as (W1 & W2 & W3). destruct (c_out c) as [d off t] eqn:Eo. unfold data_len in *.
    cbn [b_data b_off b_tag] in *. subst t. rewrite buf_len_eq by lia. cbn [bind].
    destruct (Z.of_nat (length d) - off =? 0).
    - destruct (flush_done_spec c) as (c2 & e2 & Hd & _).
      { unfold owf. rewrite Eo. unfold data_len. cbn. lia. }
      rewrite Hd. cbn [bind]. intros Heq. inversion Heq; subst. discriminate.
    - rewrite Htcp. cbn iota. unfold buf_peek. unfold data_len. cbn [b_off b_data].
      destruct (Z.leb_spec 0 off); [|lia]. destruct (Z.leb_spec off (Z.of_nat (length d))); [|lia].
      cbn [andb bind hd_cap]. unfold conn_write. rewrite Htcp, Hc, Ht. cbn [negb andb].
      destruct (Z.leb_spec n 0); [lia|].
      destruct (Z.of_nat (length (skipn (Z.to_nat off) d)) =? Z.min n (Z.of_nat (length (skipn (Z.to_nat off) d)))).
      + destruct (sock_state_update _ _) as [c2 e2].
        destruct (buf_consume _ _) as [[? ?]| |]; cbn [bind]; try discriminate.
        destruct (flush_done _) as [[? ?]| |]; cbn [bind]; try discriminate.
        intros Heq. inversion Heq; subst. discriminate.
      + destruct (buf_consume _ _) as [[? ?]| |]; cbn [bind]; try discriminate.
        destruct (flush_done _) as [[? ?]| |]; cbn [bind]; try discriminate.
        intros Heq. inversion Heq; subst. discriminate. }
  split; [exact Hst|]. split; [exact P8|]. rewrite (P6 Hst), Hc. reflexivity.
Qed.

(* ------------------------------------------------------------------------------------ *)
(* UDP: one datagram per message, without the prefix                                     *)
(* ------------------------------------------------------------------------------------ *)
Lemma buf_fetch_be16_ok (d : list Z) off t h l r :
  0 <= off -> Z.of_nat (length d) < SIZE_MAX -> skipn (Z.to_nat off) d = h :: l :: r ->
  buf_fetch_be16 (mkbuf d off t) = Ok (ARES_SUCCESS, be16 h l, mkbuf d (off + 2) t).
Proof.
  intros Hoff Hmax Hs.
  assert (Hle : off <= Z.of_nat (length d)).
  { destruct (Z.le_gt_cases off (Z.of_nat (length d))); auto.
    rewrite skipn_all2 in Hs by lia. discriminate. }
  pose proof (remaining_length d off ltac:(lia)) as Hlen. rewrite Hs in Hlen. cbn [length] in Hlen.
  unfold buf_fetch_be16. rewrite buf_len_eq by lia. cbn [bind].
  destruct (Z.ltb_spec (Z.of_nat (length d) - off) 2); [lia|]. cbn [b_data b_off].
  rewrite (byte_at_skipn d off h (l :: r)) by auto. cbn [bind].
  rewrite (byte_at_skipn d (off + 1) l r); [|lia|].
  2:{ replace (Z.to_nat (off + 1)) with (S (Z.to_nat off)) by lia. eapply skipn_succ_tl; eauto. }
  cbn [bind]. rewrite buf_consume_ok by lia. reflexivity.
Qed.

Fixpoint server_dgrams_only_state (evs : list cevent) : Prop :=
  match evs with
  | [] => True
  | EvState _ :: evs' => server_dgrams_only_state evs'
  | _ => False
  end.

Lemma flush_done_dgrams c c' evs : flush_done c = Ok (c', evs) ->
  server_dgrams evs = [] /\ c_out c' = c_out c /\ c_tcp c' = c_tcp c.
Proof.
  unfold flush_done. destruct (buf_len (c_out c)) as [l| |]; cbn [bind]; try discriminate.
  unfold sock_state_update. intros H. inversion H; subst. cbn [c_out c_tcp].
  destruct (c_rw c =? _); auto.
Qed.

Lemma server_dgrams_app e1 e2 : server_dgrams (e1 ++ e2) = server_dgrams e1 ++ server_dgrams e2.
Proof.
  induction e1 as [|e e1 IHe]; [reflexivity|]. destruct e; cbn [app server_dgrams]; auto. rewrite IHe. reflexivity.
Qed.

Lemma sock_state_update_dgrams c f c' evs : sock_state_update c f = (c', evs) -> server_dgrams evs = [].
Proof. unfold sock_state_update. intros H. inversion H. destruct (_ =? _); reflexivity. Qed.

Definition big_or_block (w : wcap) : Prop :=
  match w with Cap n => n <= 0 \/ 65535 <= n | CapFail => True end.

(* number of datagrams that leave: leading answers of the socket that are not EAGAIN / error *)
Fixpoint udp_sent (msgs : list (list Z)) (ws : list wcap) : nat :=
  match msgs, ws with
  | _ :: ms, Cap n :: ws' => if 0 <? n then S (udp_sent ms ws') else 0%nat
  | _, _ => 0%nat
  end.

Lemma udp_flush_loop_spec : forall msgs d off fuel c ws,
  c_tcp c = false -> c_out c = mkbuf d off SIZE_MAX ->
  0 <= off <= Z.of_nat (length d) -> Z.of_nat (length d) < SIZE_MAX ->
  skipn (Z.to_nat off) d = flat_map frame msgs -> Forall small msgs -> Forall big_or_block ws ->
  (length msgs < fuel)%nat ->
  exists c' st evs ws', conn_flush_loop fuel c ws = Ok (c', st, evs, ws') /\
    server_dgrams evs = firstn (udp_sent msgs ws) msgs /\
    remaining (c_out c') = flat_map frame (skipn (udp_sent msgs ws) msgs) /\
    c_tcp c' = false.
Proof.
  induction msgs as [|m ms IH]; intros d off fuel c ws Htcp Eo Hoff Hmax Hrem Hsm Hws Hfuel.
  - destruct fuel as [|f]; [lia|]. cbn [conn_flush_loop]. rewrite Eo.
    rewrite buf_len_eq by lia. cbn [bind].
    pose proof (remaining_length d off Hoff) as Hl. rewrite Hrem in Hl. cbn in Hl.
    destruct (Z.eqb_spec (Z.of_nat (length d) - off) 0); [|lia].
    destruct (flush_done_spec c) as (c' & evs & Hf & Ho & Ht & _).
    { unfold owf. rewrite Eo. unfold data_len. cbn. lia. }
    rewrite Hf. cbn [bind fst snd]. destruct (flush_done_dgrams _ _ _ Hf) as (Hd & _ & _).
    exists c', ARES_SUCCESS, evs, ws. split; [reflexivity|].
    cbn [udp_sent firstn skipn flat_map]. rewrite Ho, Eo. unfold remaining. cbn [b_off b_data].
    rewrite Hrem. cbn. repeat split; auto. congruence.
  - destruct fuel as [|f]; [lia|]. cbn [conn_flush_loop]. rewrite Eo.
    inversion Hsm as [|? ? Hm Hms]; subst.
    destruct (frame_cons m Hm) as (h & l & Hfr & Hbe).
    cbn [flat_map] in Hrem. rewrite Hfr in Hrem. cbn [app] in Hrem.
    pose proof (remaining_length d off Hoff) as Hl. rewrite Hrem in Hl. cbn [length] in Hl. rewrite app_length in Hl.
    rewrite buf_len_eq by lia. cbn [bind].
    destruct (Z.eqb_spec (Z.of_nat (length d) - off) 0); [lia|].
    rewrite Htcp. cbn iota.
    unfold buf_tag, c_ares_buf_tag. cbn [b_off b_data bind].
    rewrite (buf_fetch_be16_ok d off off h l (m ++ flat_map frame ms)) by (auto; lia). cbn [bind].
    change (negb (ARES_SUCCESS =? ARES_SUCCESS)) with false. cbn iota.
    assert (Hoffmax : (off =? 18446744073709551615) = false)
      by (apply Z.eqb_neq; unfold SIZE_MAX in Hmax; lia).
    unfold buf_tag_rollback, c_ares_buf_tag_rollback. cbn [b_tag b_off b_data]. rewrite Hoffmax. cbn [bind snd].
    unfold buf_peek, data_len. cbn [b_off b_data].
    destruct (Z.leb_spec 0 off); [|lia]. destruct (Z.leb_spec off (Z.of_nat (length d))); [|lia].
    cbn [andb bind]. rewrite Hrem. cbn [length]. rewrite app_length. rewrite Hbe.
    destruct (Z.ltb_spec (Z.of_nat (S (S (length m + length (flat_map frame ms))))) (Z.of_nat (length m) + 2)); [lia|].
    cbn [skipn]. rewrite Nat2Z.id, firstn_app, firstn_all, Nat.sub_diag. cbn [firstn]. rewrite app_nil_r.
    change 18446744073709551615 with SIZE_MAX.
    set (c0 := set_out c (mkbuf d off SIZE_MAX)).
    unfold conn_write. unfold c0 at 1. unfold set_out at 1. cbn [c_tcp]. rewrite Htcp. cbn [andb].
    destruct ws as [|w ws'].
    + (* nothing offered by the environment: EAGAIN *)
      cbn [hd_cap]. destruct (Z.leb_spec 0 0); [|lia].
      destruct (sock_state_update _ _) as [c2 ev2] eqn:Eu.
      pose proof (sock_state_update_spec (mkconn (c_tcp c0) (c_connected c0) false (c_out c0) (c_rw c0))
                    (Z.lor ARES_CONN_STATE_READ ARES_CONN_STATE_WRITE)) as Hu.
      cbn zeta in Hu. rewrite Eu in Hu. cbn [fst snd c_out c_tcp] in Hu. destruct Hu as (Hu1 & Hu2 & _).
      destruct (flush_done_spec c2) as (c' & evs & Hf & Ho & Ht & _).
      { unfold owf. rewrite Hu1. unfold c0, set_out. cbn [c_out]. unfold data_len. cbn. lia. }
      rewrite Hf. cbn [bind fst snd tl]. destruct (flush_done_dgrams _ _ _ Hf) as (Hd & _ & _).
      eexists c', ARES_SUCCESS, _, _. split; [reflexivity|].
      cbn [udp_sent firstn skipn]. rewrite Ho, Hu1. unfold c0, set_out, remaining. cbn [c_out b_off b_data].
      rewrite Hrem. cbn [flat_map]. rewrite Hfr. rewrite server_dgrams_app. cbn [app server_dgrams].
      rewrite (sock_state_update_dgrams _ _ _ _ Eu), Hd.
      cbn [app]. repeat split; auto. rewrite Ht, Hu2. unfold c0, set_out. cbn. exact Htcp.
    + inversion Hws as [|? ? Hw Hws']; subst. cbn [hd_cap tl]. destruct w as [cap|].
      * cbn [udp_sent]. destruct (Z.leb_spec cap 0) as [Hn0|Hnpos].
        -- destruct (Z.ltb_spec 0 cap); [lia|].
           destruct (sock_state_update _ _) as [c2 ev2] eqn:Eu.
           pose proof (sock_state_update_spec (mkconn (c_tcp c0) (c_connected c0) false (c_out c0) (c_rw c0))
                         (Z.lor ARES_CONN_STATE_READ ARES_CONN_STATE_WRITE)) as Hu.
           cbn zeta in Hu. rewrite Eu in Hu. cbn [fst snd c_out c_tcp] in Hu. destruct Hu as (Hu1 & Hu2 & _).
           destruct (flush_done_spec c2) as (c' & evs & Hf & Ho & Ht & _).
           { unfold owf. rewrite Hu1. unfold c0, set_out. cbn [c_out]. unfold data_len. cbn. lia. }
           rewrite Hf. cbn [bind fst snd]. destruct (flush_done_dgrams _ _ _ Hf) as (Hd & _ & _).
           eexists c', ARES_SUCCESS, _, _. split; [reflexivity|].
           cbn [firstn skipn]. rewrite Ho, Hu1. unfold c0, set_out, remaining. cbn [c_out b_off b_data].
           rewrite Hrem. cbn [flat_map]. rewrite Hfr. rewrite server_dgrams_app. cbn [app server_dgrams].
           rewrite (sock_state_update_dgrams _ _ _ _ Eu), Hd.
           cbn [app]. repeat split; auto. rewrite Ht, Hu2. unfold c0, set_out. cbn. exact Htcp.
        -- destruct (Z.ltb_spec 0 cap); [|lia].
           cbn in Hw. destruct Hw as [Hw|Hw]; [lia|].
           unfold small in Hm.
           replace (Z.min cap (Z.of_nat (length m))) with (Z.of_nat (length m)) by lia.
           rewrite Z.eqb_refl.
           destruct (sock_state_update _ _) as [c2 ev2] eqn:Eu.
           match type of Eu with sock_state_update ?cc ?ff = _ =>
             pose proof (sock_state_update_spec cc ff) as Hu end.
           cbn zeta in Hu. rewrite Eu in Hu. cbn [fst snd c_out c_tcp] in Hu. destruct Hu as (Hu1 & Hu2 & _).
           rewrite Hu1. unfold c0 at 1. unfold set_out at 1. cbn [c_out].
           rewrite buf_consume_ok by lia. cbn [bind snd].
           set (c3 := set_out c2 (mkbuf d (off + (Z.of_nat (length m) + 2)) SIZE_MAX)).
           assert (Hrem' : skipn (Z.to_nat (off + (Z.of_nat (length m) + 2))) d = flat_map frame ms).
           { replace (Z.to_nat (off + (Z.of_nat (length m) + 2))) with (S (S (length m)) + Z.to_nat off)%nat by lia.
             rewrite skipn_plus, Hrem. cbn [skipn]. rewrite skipn_app, skipn_all, Nat.sub_diag. reflexivity. }
           destruct (IH d (off + (Z.of_nat (length m) + 2)) f c3 ws') as (c' & st & evs & ws2 & Hrun & Hd & Hr & Ht); auto.
           ++ unfold c3, set_out. cbn [c_tcp]. rewrite Hu2. unfold c0, set_out. cbn. exact Htcp.
           ++ lia.
           ++ cbn [length] in Hfuel. lia.
           ++ rewrite Hrun. cbn [bind]. eexists c', st, _, ws2. split; [reflexivity|].
              cbn [firstn skipn]. rewrite server_dgrams_app. cbn [app server_dgrams].
              rewrite (sock_state_update_dgrams _ _ _ _ Eu).
              cbn [app]. rewrite Nat2Z.id, firstn_all, Hd. repeat split; auto.
      * (* hard error *)
        cbn [udp_sent]. eexists _, ARES_ECONNREFUSED, _, _. split; [reflexivity|].
        cbn [server_dgrams firstn skipn c_out c_tcp]. unfold c0, set_out, remaining. cbn [c_out c_tcp b_off b_data].
        rewrite Hrem. cbn [flat_map]. rewrite Hfr. cbn [app]. auto.
Qed.

(* C20_udp_datagrams *)
Theorem udp_datagrams : forall msgs c ws,
  c_tcp c = false -> owf c -> remaining (c_out c) = flat_map frame msgs -> Forall small msgs ->
  Forall big_or_block ws ->
  exists c' st evs ws', conn_flush c ws = Ok (c', st, evs, ws') /\
    server_dgrams evs = firstn (udp_sent msgs ws) msgs /\
    remaining (c_out c') = flat_map frame (skipn (udp_sent msgs ws) msgs).
Proof.
  intros msgs c ws Htcp (H1 & H2 & H3) Hrem Hsm Hws.
  destruct (c_out c) as [d off t] eqn:Eo. unfold data_len in *. cbn [b_data b_off b_tag] in *. subst t.
  unfold conn_flush. rewrite Eo. cbn [b_data].
  destruct (udp_flush_loop_spec msgs d off (S (length d)) c ws Htcp Eo H1 H2 Hrem Hsm Hws)
    as (c' & st & evs & ws' & Hrun & Hd & Hr & _).
  - assert (Hc : (2 * length msgs <= length (flat_map frame msgs))%nat).
    { clear. induction msgs as [|m ms IH]; cbn [flat_map length]; [lia|].
      rewrite app_length. unfold frame at 1, be16_bytes. cbn [app length]. lia. }
    unfold remaining in Hrem. cbn [b_off b_data] in Hrem. rewrite <- Hrem, skipn_length in Hc. lia.
  - exists c', st, evs, ws'. auto.
Qed.

(* ------------------------------------------------------------------------------------ *)
(* UDP read side; zero length datagrams                                                  *)
(* ------------------------------------------------------------------------------------ *)
Definition dgram_rds (ds : list (bool * list Z)) : list rd :=
  map (fun d => RdBytes (fst d) (snd d) false) ds.

Lemma read_conn_packets_udp : forall ds k d off,
  0 <= off <= Z.of_nat (length d) -> Forall small (map snd ds) ->
  exists d' off', 0 <= off' <= Z.of_nat (length d') /\
    Z.of_nat (length d') <= Z.of_nat (length d) + Z.of_nat (length (flat_map frame (map snd ds))) /\
    skipn (Z.to_nat off') d' = skipn (Z.to_nat off) d ++ flat_map frame (map snd ds) /\
    read_conn_packets false (mkbuf d off SIZE_MAX) (dgram_rds ds ++ k)
      = read_conn_packets false (mkbuf d' off' SIZE_MAX) k.
Proof.
  induction ds as [|[rc dg] ds IH]; intros k d off Hoff Hsm.
  - exists d, off. cbn. rewrite app_nil_r. repeat split; lia.
  - cbn [map snd] in Hsm. inversion Hsm as [|? ? Hs1 Hs2]; subst.
    cbn [dgram_rds map app fst snd read_conn_packets].
    unfold small in Hs1. rewrite Z.mod_small by lia. fold (frame dg).
    destruct (buf_append_spec d off rc (frame dg) Hoff) as (d1 & off1 & Ha & Hoff1 & Hl1 & Hr1).
    rewrite Ha. cbn [bind].
    destruct (IH k d1 off1 Hoff1 Hs2) as (d2 & off2 & Hoff2 & Hl2 & Hr2 & Hrun).
    exists d2, off2. cbn [map snd flat_map]. rewrite app_length. repeat split; try lia.
    + rewrite Hr2, Hr1, <- app_assoc. reflexivity.
    + exact Hrun.
Qed.

Section UdpRead.
  Variable pa : list Z -> bool.

  (* every datagram is handed to process_answer whole, in order (until one is rejected) *)
  Theorem udp_read : forall ds d off,
    0 <= off <= Z.of_nat (length d) -> skipn (Z.to_nat off) d = [] ->
    Forall small (map snd ds) ->
    Z.of_nat (length d) + Z.of_nat (length (flat_map frame (map snd ds))) < SIZE_MAX ->
    exists b', process_read pa false (mkbuf d off SIZE_MAX) (dgram_rds ds ++ [RdWouldBlock])
                 = Ok (b', fst (cut pa (map snd ds)), snd (cut pa (map snd ds))) /\
               (snd (cut pa (map snd ds)) = StillOpen -> remaining b' = [] /\ wf b').
  Proof.
    intros ds d off Hoff Hemp Hsm Hmax.
    destruct (read_conn_packets_udp ds [RdWouldBlock] d off Hoff Hsm) as (d1 & off1 & Hoff1 & Hl1 & Hr1 & Hrun).
    unfold process_read. rewrite Hrun. cbn [read_conn_packets bind]. unfold read_answers. cbn [b_data].
    rewrite Hemp in Hr1. cbn [app] in Hr1.
    assert (Hp : parses (skipn (Z.to_nat off1) d1) (map snd ds) []).
    { rewrite Hr1. rewrite <- (app_nil_r (flat_map frame (map snd ds))). apply parses_flat_map; auto. exact I. }
    assert (Hfuel : (length (map snd ds) < S (length d1))%nat).
    { pose proof (parses_count _ _ _ Hp) as Hc. rewrite skipn_length in Hc. lia. }
    destruct (read_answers_loop_spec pa _ _ _ Hp d1 off1 (S (length d1)) Hoff1 ltac:(lia) eq_refl Hfuel)
      as (b1 & Hra & Hb1).
    exists b1. split; [rewrite Hra; reflexivity|]. intros Hopen. specialize (Hb1 Hopen). subst b1.
    cbn [length]. rewrite Z.sub_0_r. unfold remaining, wf, data_len. cbn [b_off b_data b_tag].
    rewrite Nat2Z.id, skipn_all. repeat split; lia.
  Qed.

  Definition nonempty (m : list Z) : bool := match m with [] => false | _ => true end.

  Lemma cut_skip_empty : pa [] = true -> forall l1 l2,
    filter nonempty (fst (cut pa (l1 ++ [] :: l2))) = filter nonempty (fst (cut pa (l1 ++ l2))) /\
    snd (cut pa (l1 ++ [] :: l2)) = snd (cut pa (l1 ++ l2)).
  Proof.
    intros Hpa. induction l1 as [|m l1 IH]; intros l2; cbn [app cut].
    - rewrite Hpa. destruct (cut pa l2) as [r e]. cbn. auto.
    - destruct (pa m); [|auto]. destruct (IH l2) as [I1 I2].
      destruct (cut pa (l1 ++ [] :: l2)) as [r1 e1]. destruct (cut pa (l1 ++ l2)) as [r2 e2].
      cbn [fst snd] in *. cbn [filter]. rewrite I1, I2. auto.
  Qed.

  (* C20_zero_datagram_inert: with an empty in_buf (as always between UDP read events) a zero
     length datagram anywhere among the datagrams of a read event changes neither which
     non-empty messages reach process_answer, nor their order, nor the fate of the connection;
     process_answer itself returns at once for an empty message (alen == 0). *)
  Theorem zero_datagram_inert : pa [] = true -> forall ds1 ds2 rc d off,
    0 <= off <= Z.of_nat (length d) -> skipn (Z.to_nat off) d = [] ->
    Forall small (map snd (ds1 ++ ds2)) ->
    Z.of_nat (length d) + Z.of_nat (length (flat_map frame (map snd (ds1 ++ (rc, []) :: ds2)))) < SIZE_MAX ->
    exists b1 ms1 b2 ms2 e,
      process_read pa false (mkbuf d off SIZE_MAX) (dgram_rds (ds1 ++ (rc, []) :: ds2) ++ [RdWouldBlock]) = Ok (b1, ms1, e) /\
      process_read pa false (mkbuf d off SIZE_MAX) (dgram_rds (ds1 ++ ds2) ++ [RdWouldBlock]) = Ok (b2, ms2, e) /\
      filter nonempty ms1 = filter nonempty ms2 /\
      (e = StillOpen -> remaining b1 = [] /\ remaining b2 = []).
  Proof.
    intros Hpa ds1 ds2 rc d off Hoff Hemp Hsm Hmax.
    assert (Hsm1 : Forall small (map snd (ds1 ++ (rc, []) :: ds2))).
    { rewrite map_app in *. cbn [map snd]. apply Forall_app in Hsm. destruct Hsm as [S1 S2].
      apply Forall_app. split; auto. constructor; auto. unfold small. cbn. lia. }
    assert (Hlen : Z.of_nat (length (flat_map frame (map snd (ds1 ++ ds2))))
                   <= Z.of_nat (length (flat_map frame (map snd (ds1 ++ (rc, []) :: ds2))))).
    { rewrite !map_app, !flat_map_app, !app_length. cbn [map snd flat_map]. rewrite app_length. lia. }
    destruct (udp_read (ds1 ++ (rc, []) :: ds2) d off Hoff Hemp Hsm1 Hmax) as (b1 & Hr1 & Ho1).
    destruct (udp_read (ds1 ++ ds2) d off Hoff Hemp Hsm ltac:(lia)) as (b2 & Hr2 & Ho2).
    rewrite map_app in Hr1, Hr2, Ho1, Ho2. cbn [map snd] in Hr1, Ho1.
    destruct (cut_skip_empty Hpa (map snd ds1) (map snd ds2)) as [C1 C2].
    rewrite C2 in Hr1, Ho1.
    eexists b1, _, b2, _, _. split; [exact Hr1|]. split; [exact Hr2|]. split; [exact C1|].
    intros He. destruct (Ho1 He) as [? _]. destruct (Ho2 He) as [? _]. auto.
  Qed.
End UdpRead.

(* ------------------------------------------------------------------------------------ *)
(* Truncation                                                                            *)
(* ------------------------------------------------------------------------------------ *)
Theorem tc_upgrade : forall found same_q on_conn cookie_ok edns_issue rflags conn_tcp chan_flags rcode,
  process_answer_decide found same_q on_conn cookie_ok edns_issue rflags conn_tcp chan_flags rcode = PaRetryTcp
  <-> (found = true /\ same_q = true /\ on_conn = true /\ cookie_ok = true /\ edns_issue = false /\
       has_flag rflags ARES_FLAG_TC = true /\ conn_tcp = false /\ has_flag chan_flags ARES_FLAG_IGNTC = false).
Proof.
  intros. unfold process_answer_decide.
  destruct found, same_q, on_conn, cookie_ok, edns_issue, (has_flag rflags ARES_FLAG_TC), conn_tcp,
    (has_flag chan_flags ARES_FLAG_IGNTC); cbn [negb andb];
  try (split; [intros H; discriminate H | intros H; decompose [and] H; discriminate]);
  try (split; [intros H; try discriminate H; repeat split; reflexivity | intros _; reflexivity]);
  destruct (negb (has_flag chan_flags ARES_FLAG_NOCHECKRESP) &&
            ((rcode =? ARES_RCODE_SERVFAIL) || (rcode =? ARES_RCODE_NOTIMP) || (rcode =? ARES_RCODE_REFUSED)));
  split; intros H; try discriminate H; decompose [and] H; discriminate.
Qed.

Theorem tc_upgrade_effect : forall a using_tcp, a = PaRetryTcp ->
  callback_invoked a = false /\ requeued a = true /\ next_conn_is_tcp (using_tcp_after a using_tcp) = true.
Proof. intros a u ->. cbn. auto. Qed.

(* the switch to TCP never ends the query and does not consume a try, whatever is left of the
   retry budget (also on the last permitted attempt, also for a no-retry query) *)
Theorem tc_upgrade_keeps_budget : forall try_count max_tries no_retries,
  after_answer PaRetryTcp try_count max_tries no_retries = FRequeued try_count.
Proof. reflexivity. Qed.

(* ... unlike a SERVFAIL/NOTIMP/REFUSED answer, which ends the query on the last attempt *)
Example rcode_ends_on_last_attempt : after_answer PaRequeueRcode 0 1 false = FEnded /\
                                     after_answer PaRetryTcp 0 1 false = FRequeued 0.
Proof. split; reflexivity. Qed.

(* with IGNTC (or on TCP) the TC bit plays no role in the decision *)
Theorem tc_ignored : forall found same_q on_conn cookie_ok edns_issue rflags conn_tcp chan_flags rcode,
  conn_tcp = true \/ has_flag chan_flags ARES_FLAG_IGNTC = true ->
  process_answer_decide found same_q on_conn cookie_ok edns_issue rflags conn_tcp chan_flags rcode
  = process_answer_decide found same_q on_conn cookie_ok edns_issue 0 conn_tcp chan_flags rcode.
Proof.
  intros. unfold process_answer_decide.
  assert (has_flag 0 ARES_FLAG_TC = false) as -> by reflexivity.
  destruct H as [-> | ->]; cbn [negb andb]; rewrite ?andb_false_r; reflexivity.
Qed.

(* ------------------------------------------------------------------------------------ *)
(* Non-vacuity: the hypotheses are inhabited by non-trivial runs                          *)
(* ------------------------------------------------------------------------------------ *)
Definition ex_pa (m : list Z) : bool := (Z.of_nat (length m) =? 0) || (12 <=? Z.of_nat (length m)).
Definition ex_msg1 : list Z := [1;2;129;128;0;1;0;0;0;0;0;0;1;97;0;0;1;0;1].
Definition ex_msg2 : list Z := [3;4;129;128;0;1;0;0;0;0;0;0;1;98;0;0;28;0;1].
Definition ex_stream : list Z := frame ex_msg1 ++ frame ex_msg2 ++ [0; 19; 5; 6].   (* third frame incomplete *)
Definition ex_bytewise : list (list rd) := map (fun b => [RdBytes true [b] false]) ex_stream.
Definition ex_grouped : list (list rd) :=
  [[RdBytes false (firstn 7 ex_stream) true; RdBytes false (firstn 20 (skipn 7 ex_stream)) false];
   [RdWouldBlock]; [RdBytes true (skipn 27 ex_stream) false]].

Example ex_read_hyps : Forall call_ok ex_bytewise /\ Forall call_ok ex_grouped /\
  total_bytes ex_bytewise = ex_stream /\ total_bytes ex_grouped = ex_stream.
Proof. repeat split; try reflexivity; repeat constructor; discriminate. Qed.

Example ex_read_run :
  (exists b, run_reads ex_pa true buf_create ex_bytewise = Ok (b, [ex_msg1; ex_msg2], StillOpen) /\ remaining b = [0; 19; 5; 6]) /\
  (exists b, run_reads ex_pa true buf_create ex_grouped = Ok (b, [ex_msg1; ex_msg2], StillOpen) /\ remaining b = [0; 19; 5; 6]).
Proof. split; eexists; split; vm_compute; reflexivity. Qed.

Definition ex_conn : conn := mkconn true false false buf_create 3.
Definition ex_ops : list wop :=
  [WEnq false ex_msg1; WEnq false ex_msg2; WWritable; WWritable; WEnq true ex_msg1; WWritable; WWritable; WWritable].
Example ex_write_run :
  exists c' evs, run_wops ex_conn false false ex_ops [Cap 3; Cap 0; Cap 1; Cap 30; Cap 1000; Cap 1000] = Ok (c', evs, StillOpen) /\
    server_bytes evs = frame ex_msg1 ++ frame ex_msg2 ++ frame ex_msg1 /\ remaining (c_out c') = [] /\
    c_rw c' = ARES_CONN_STATE_READ.
Proof. eexists _, _. vm_compute. repeat split. Qed.

Example ex_udp_zero :
  exists b ms, process_read ex_pa false buf_create (dgram_rds [(false, ex_msg1); (false, []); (true, ex_msg2)] ++ [RdWouldBlock])
             = Ok (b, ms, StillOpen) /\ filter nonempty ms = [ex_msg1; ex_msg2].
Proof. eexists _, _. vm_compute. split; reflexivity. Qed.

Lemma frames_spec ms tl : Forall small ms -> incomplete tl -> frames (flat_map frame ms ++ tl) = (ms, tl).
Proof. intros H1 H2. apply parses_frames, parses_flat_map; assumption. Qed.

(* ------------------------------------------------------------------------------------ *)
(* Data read in the same read_conn_packets() loop as a disconnect                        *)
(* ------------------------------------------------------------------------------------ *)
(* the reads of one TCP read_conn_packets() call before the socket reported a failure *)
Fixpoint strip_fail (rs : list rd) : list rd :=
  match rs with
  | RdBytes rc (x :: bs) true :: rs' => RdBytes rc (x :: bs) true :: strip_fail rs'
  | _ => []
  end.

(* ... and the call does end with a failure: EOF, reset or another error *)
Fixpoint ends_in_failure (rs : list rd) : bool :=
  match rs with
  | RdBytes _ [] _ :: _ => true
  | RdFail :: _ => true
  | RdBytes _ (_ :: _) true :: rs' => ends_in_failure rs'
  | _ => false
  end.

Definition closed_of {A B} (o : outcome (A * B * conn_end)) : outcome (A * B * conn_end) :=
  match o with Ok (a, b, _) => Ok (a, b, Closed) | x => x end.

Lemma rcp_strip_open : forall rs b b' e, read_conn_packets true b (strip_fail rs) = Ok (b', e) -> e = StillOpen.
Proof.
  induction rs as [|r rs IH]; intros b b' e H; cbn in H.
  - inversion H. reflexivity.
  - destruct r as [rc bytes full| |]; try (cbn in H; inversion H; reflexivity).
    destruct bytes as [|x bs]; [cbn in H; inversion H; reflexivity|].
    destruct full; [|cbn in H; inversion H; reflexivity].
    cbn [read_conn_packets] in H. destruct (buf_append b rc (x :: bs)) as [b1| |]; cbn [bind] in H; try discriminate.
    eapply IH; eauto.
Qed.

Lemma rcp_fail : forall rs b, ends_in_failure rs = true ->
  read_conn_packets true b rs =
    match read_conn_packets true b (strip_fail rs) with Ok (b1, _) => Ok (b1, Closed) | x => x end.
Proof.
  induction rs as [|r rs IH]; intros b H; cbn in H; [discriminate|].
  destruct r as [rc bytes full| |]; try discriminate.
  - destruct bytes as [|x bs]; [reflexivity|]. destruct full; [|discriminate].
    cbn [read_conn_packets strip_fail]. destruct (buf_append b rc (x :: bs)) as [b1| |]; cbn [bind]; auto.
  - reflexivity.
Qed.

Section Disconnect.
  Variable pa : list Z -> bool.

  Lemma process_read_fail rs b : ends_in_failure rs = true ->
    process_read pa true b rs = closed_of (process_read pa true b (strip_fail rs)).
  Proof.
    intros H. unfold process_read. rewrite (rcp_fail rs b H).
    destruct (read_conn_packets true b (strip_fail rs)) as [[b1 e]| |] eqn:E; cbn [bind closed_of]; auto.
    rewrite (rcp_strip_open _ _ _ _ E).
    destruct (read_answers pa b1) as [[[b2 ms] e2]| |]; cbn [bind closed_of]; auto.
  Qed.

  (* C20_data_before_disconnect: a connection failure seen in the same read event as data
     (after reads that filled the buffer) delivers exactly what the same event without the
     failure delivers; only the fate of the connection differs.  No hypothesis on the earlier
     events, the bytes or process_answer. *)
  Theorem data_before_disconnect : forall calls b rs, ends_in_failure rs = true ->
    run_reads pa true b (calls ++ [rs]) = closed_of (run_reads pa true b (calls ++ [strip_fail rs])).
  Proof.
    induction calls as [|c calls IH]; intros b rs H; cbn [app run_reads].
    - rewrite (process_read_fail rs b H).
      destruct (process_read pa true b (strip_fail rs)) as [[[b1 ms] e]| |]; cbn [bind closed_of]; auto.
      destruct e; cbn; rewrite ?app_nil_r; reflexivity.
    - destruct (process_read pa true b c) as [[[b1 ms] e]| |]; cbn [bind closed_of]; auto.
      destruct e; [|reflexivity]. rewrite (IH b1 rs H).
      destruct (run_reads pa true b1 (calls ++ [strip_fail rs])) as [[[b2 ms2] e2]| |]; cbn [bind closed_of]; auto.
  Qed.
End Disconnect.

Example ex_disconnect :
  ends_in_failure [RdBytes false (frame ex_msg1) true; RdBytes false [] false] = true /\
  exists b, run_reads ex_pa true buf_create [[RdBytes false (frame ex_msg1) true; RdBytes false [] false]]
            = Ok (b, [ex_msg1], Closed).
Proof. split; [reflexivity|]. eexists. vm_compute. reflexivity. Qed.
