(* C09 - server selection and failover.  Executable model of
     src/lib/ares_init.c     : server_sort_cb            (GENERATED: Gen/LeafFns.c_server_sort_cb)
     src/lib/ares_process.c  : server_increment_failures, server_set_good,
                               count_highest_prio_servers, ares_random_server,
                               ares_probe_failed_server, ares_send_query (server choice, probe
                               decision), ares_requeue_query (retry budget), process_answer
                               (success / SERVFAIL-REFUSED-NOTIMP), process_timeouts, end_query
                               (probe_pending reset)
                               timeadd / ares_timedout  (GENERATED: c_timeadd, c_ares_timedout)
     src/lib/ares_update_servers.c : ares_servers_update (keep state of known servers, new index)
     src/lib/dsa/ares_slist.c      : only as "list kept sorted by the comparator"
   in the shape of the C code.  Random draws are inputs (`choices` inside the events) and the
   theorems (Servers_proofs.v) quantify over all admissible values.

   What is not modelled: connections (every attempt finds or opens its UDP connection), TCP,
   EDNS/cookie resends, the query cache, allocation failures, the timeout value of an attempt
   (which attempt times out, and in which order, is an input of the model). *)
From CAres.Base Require Import Outcome CInt.
From CAres.Gen Require Import Consts LeafFns.
Local Open Scope Z_scope.

Definition SIZE_MAX : Z := 2 ^ 64 - 1.
Definition wrap64 (z : Z) : Z := z mod 2 ^ 64.

(* struct ares_server (the fields the policy reads or writes); sv_addr identifies the server
   (its address) across server-list updates *)
Record server := {
  sv_addr : Z;
  sv_idx : Z;                 (* size_t idx: position in the configuration *)
  sv_fail : Z;                (* size_t consec_failures *)
  sv_retry : Z * Z;           (* next_retry_time (sec, usec) *)
  sv_probe : bool             (* probe_pending *)
}.

(* ---- the sorted server list ---- *)
Definition srv_cmp (a b : server) : outcome Z :=
  c_server_sort_cb (sv_fail a) (sv_fail b) (sv_idx a) (sv_idx b).

(* a sorts strictly before b; the comparator never fails (Servers_proofs.srv_cmp_total) *)
Definition srv_lt (a b : server) : bool :=
  match srv_cmp a b with Ok z => z <? 0 | _ => false end.

(* ares_slist_node_push on level 0: walk right while the new node is strictly greater, i.e. the
   node is linked BEFORE the first element that is not smaller (before its equals).  Equal keys
   occur only transiently inside ares_servers_update. *)
Fixpoint insert_sorted (s : server) (l : list server) : list server :=
  match l with
  | [] => [s]
  | x :: r => if srv_lt x s then x :: insert_sorted s r else s :: l
  end.

Fixpoint remove_addr (a : Z) (l : list server) : list server :=
  match l with
  | [] => []
  | x :: r => if sv_addr x =? a then r else x :: remove_addr a r
  end.

Fixpoint find_addr (a : Z) (l : list server) : option server :=
  match l with
  | [] => None
  | x :: r => if sv_addr x =? a then Some x else find_addr a r
  end.

(* ares_slist_node_reinsert after the key of the node changed *)
Definition reinsert (s : server) (l : list server) : list server :=
  insert_sorted s (remove_addr (sv_addr s) l).

(* update in place (the key did not change) *)
Fixpoint replace_addr (s : server) (l : list server) : list server :=
  match l with
  | [] => []
  | x :: r => if sv_addr x =? sv_addr s then s :: r else x :: replace_addr s r
  end.

(* server_increment_failures *)
Definition server_increment_failures (now : Z * Z) (delay : Z) (a : Z) (l : list server)
  : outcome (list server) :=
  match find_addr a l with
  | None => Ok l                                   (* node not found: defensive return *)
  | Some s =>
    do t <- c_timeadd delay (fst now) (snd now);
    Ok (reinsert {| sv_addr := sv_addr s; sv_idx := sv_idx s; sv_fail := wrap64 (sv_fail s + 1);
                    sv_retry := t; sv_probe := sv_probe s |} l)
  end.

(* server_set_good *)
Definition server_set_good (a : Z) (l : list server) : list server :=
  match find_addr a l with
  | None => l
  | Some s =>
    let s' := {| sv_addr := sv_addr s; sv_idx := sv_idx s; sv_fail := 0; sv_retry := (0, 0);
                 sv_probe := sv_probe s |} in
    if 0 <? sv_fail s then reinsert s' l else replace_addr s' l
  end.

(* end_query(channel, server != NULL, ...): server->probe_pending = ARES_FALSE *)
Definition clear_probe (a : Z) (l : list server) : list server :=
  match find_addr a l with
  | None => l
  | Some s => replace_addr {| sv_addr := sv_addr s; sv_idx := sv_idx s; sv_fail := sv_fail s;
                              sv_retry := sv_retry s; sv_probe := false |} l
  end.

(* count_highest_prio_servers, with its SIZE_MAX sentinel *)
Fixpoint count_prio (l : list server) (last : Z) : nat :=
  match l with
  | [] => O
  | s :: r =>
    if negb (last =? SIZE_MAX) && (last <? sv_fail s) then O
    else S (count_prio r (sv_fail s))
  end.
Definition count_highest_prio_servers (l : list server) : nat := count_prio l SIZE_MAX.

(* ares_random_server; [c] is the random byte *)
Definition ares_random_server (c : Z) (l : list server) : option server :=
  let n := count_highest_prio_servers l in
  match n with
  | O => None
  | _ => nth_error l (Z.to_nat (c mod Z.of_nat n))
  end.

(* server choice of ares_send_query for a fresh attempt *)
Definition choose_server (rotate : bool) (c : Z) (l : list server) : option server :=
  if rotate then ares_random_server c l else hd_error l.

Fixpoint last_server (l : list server) : option server :=
  match l with
  | [] => None
  | [s] => Some s
  | _ :: r => last_server r
  end.

(* first server with failures, no probe pending, whose retry time has come *)
Fixpoint find_probe_target (now : Z * Z) (l : list server) : outcome (option server) :=
  match l with
  | [] => Ok None
  | s :: r =>
    if (0 <? sv_fail s) && negb (sv_probe s) then
      (do t <- c_ares_timedout (fst now) (fst (sv_retry s)) (snd now) (snd (sv_retry s));
       if negb (t =? 0) then Ok (Some s) else find_probe_target now r)
    else find_probe_target now r
  end.

(* ares_probe_failed_server: the server to probe, if any; [r] is the 16-bit random value, drawn
   only when some server has failures and the retry chance is not 0 *)
Definition ares_probe_failed_server (chance : Z) (now : Z * Z) (r : Z) (used : server)
  (l : list server) : outcome (option server) :=
  let none_failed := match last_server l with Some s => sv_fail s =? 0 | None => false end in
  if none_failed || (chance =? 0) then Ok None
  else if negb (r mod chance =? 0) then Ok None
  else
    do p <- find_probe_target now l;
    match p with
    | None => Ok None
    | Some ps => if sv_addr ps =? sv_addr used then Ok None else Ok (Some ps)
    end.

(* ---- queries in flight ---- *)
Record attempt := {
  at_label : nat;            (* identity of the query (user queries and probes are numbered
                                in order of creation) *)
  at_server : Z;             (* address the transmission went to *)
  at_try : Z;                (* query->try_count at the time of sending *)
  at_err : Z;                (* query->error_status: status of the query's last failed attempt *)
  at_probe : bool            (* probe copy: requested server, NORETRY | NOCACHE *)
}.

(* server_probe_cb (fixes/C09-probe-pending-no-dangling.patch): when a probe copy ends, every
   server whose probe_pending is set but which has no probe attached to one of its connections
   any more gets the flag cleared *)
Definition probe_attached (inflight : list attempt) (a : Z) : bool :=
  existsb (fun x => at_probe x && (at_server x =? a)) inflight.

Definition recompute_probe (inflight : list attempt) (l : list server) : list server :=
  map (fun s => if sv_probe s && negb (probe_attached inflight (sv_addr s))
                then {| sv_addr := sv_addr s; sv_idx := sv_idx s; sv_fail := sv_fail s;
                        sv_retry := sv_retry s; sv_probe := false |}
                else s) l.

Record chan := {
  ch_servers : list server;
  ch_rotate : bool;
  ch_tries : Z;
  ch_chance : Z;             (* server_retry_chance (unsigned short) *)
  ch_delay : Z;              (* server_retry_delay, ms *)
  ch_now : Z * Z;
  ch_inflight : list attempt;  (* oldest transmission first *)
  ch_next_label : nat
}.

Definition set_servers (ch : chan) (l : list server) : chan :=
  {| ch_servers := l; ch_rotate := ch_rotate ch; ch_tries := ch_tries ch; ch_chance := ch_chance ch;
     ch_delay := ch_delay ch; ch_now := ch_now ch; ch_inflight := ch_inflight ch;
     ch_next_label := ch_next_label ch |}.

Definition set_inflight (ch : chan) (l : list attempt) : chan :=
  {| ch_servers := ch_servers ch; ch_rotate := ch_rotate ch; ch_tries := ch_tries ch;
     ch_chance := ch_chance ch; ch_delay := ch_delay ch; ch_now := ch_now ch; ch_inflight := l;
     ch_next_label := ch_next_label ch |}.

Definition bump_label (ch : chan) : chan :=
  {| ch_servers := ch_servers ch; ch_rotate := ch_rotate ch; ch_tries := ch_tries ch;
     ch_chance := ch_chance ch; ch_delay := ch_delay ch; ch_now := ch_now ch;
     ch_inflight := ch_inflight ch; ch_next_label := S (ch_next_label ch) |}.

(* what the virtual network and the public callbacks see *)
Inductive obs :=
| OFail (addr : Z)                              (* server-state callback: failure *)
| OGood (addr : Z)                              (* server-state callback: success *)
| OTx (label : nat) (addr : Z) (probe : bool)   (* a datagram of query [label] sent to [addr] *)
| ODone (label : nat) (status : Z)              (* user callback of query [label] *)
| OServers (addrs : list Z)                     (* the application installed a new server list *)
| OConnLost (addr : Z) (outstanding : bool).    (* the transport lost the connection to [addr] (closed by
                                                   the peer, reset, ICMP error); queries were outstanding on it *)

(* random values one ares_send_query may draw *)
Record choices := { c_rot : Z; c_probe : Z }.
Definition admissible (c : choices) : bool :=
  (0 <=? c_rot c) && (c_rot c <? 256) && (0 <=? c_probe c) && (c_probe c <? 65536).

(* ares_send_query(NULL, query): fresh attempt of query [label] with [try] attempts behind it *)
Definition send_fresh (ch : chan) (label : nat) (try : Z) (err : Z) (c : choices) : outcome (chan * list obs) :=
  match choose_server (ch_rotate ch) (c_rot c) (ch_servers ch) with
  | None => Ok (ch, [ODone label ARES_ENOSERVER])
  | Some s =>
    let ch1 := set_inflight ch (ch_inflight ch ++
                 [{| at_label := label; at_server := sv_addr s; at_try := try; at_err := err; at_probe := false |}]) in
    let tx := OTx label (sv_addr s) false in
    if (sv_fail s =? 0) && (try =? 0) then
      do p <- ares_probe_failed_server (ch_chance ch) (ch_now ch) (c_probe c) s (ch_servers ch);
      match p with
      | None => Ok (ch1, [tx])
      | Some ps =>
        (* probe_server->probe_pending = TRUE; ares_send_nolock(channel, probe_server,
           NOCACHE | NORETRY, ...) -> ares_send_query(probe_server, ...) *)
        let ps' := {| sv_addr := sv_addr ps; sv_idx := sv_idx ps; sv_fail := sv_fail ps;
                      sv_retry := sv_retry ps; sv_probe := true |} in
        let pl := ch_next_label ch1 in
        let ch2 := bump_label (set_servers ch1 (replace_addr ps' (ch_servers ch1))) in
        let ch3 := set_inflight ch2 (ch_inflight ch2 ++
                     [{| at_label := pl; at_server := sv_addr ps; at_try := 0; at_err := ARES_SUCCESS; at_probe := true |}]) in
        Ok (ch3, [tx; OTx pl (sv_addr ps) true])
      end
    else Ok (ch1, [tx])
  end.

(* the retry budget (servers x tries) is not used up and the query may be retried *)
Definition requeue_sends (ch : chan) (a : attempt) : bool :=
  (at_try a + 1 <? Z.of_nat (length (ch_servers ch)) * ch_tries ch) && negb (at_probe a).

(* ares_requeue_query for the query of attempt [a]; [status] = ARES_SUCCESS when the attempt
   did not fail but its connection went away (server removed from the configuration) *)
Definition requeue (ch : chan) (a : attempt) (status : Z) (c : choices) : outcome (chan * list obs) :=
  let err := if status =? ARES_SUCCESS then at_err a else status in
  let try' := at_try a + 1 in
  if requeue_sends ch a then send_fresh ch (at_label a) try' err c
  else if at_probe a then
    (* the probe ends (it is no longer in flight in [ch]): server_probe_cb clears probe_pending
       of the servers without a probe attached (end_query(channel, NULL, ...) alone did not) *)
    Ok (set_servers ch (recompute_probe (ch_inflight ch) (ch_servers ch)), [])
  else
    Ok (ch, [ODone (at_label a) (if err =? ARES_SUCCESS then ARES_ETIMEOUT else err)]).

Fixpoint remove_attempt (label : nat) (l : list attempt) : list attempt :=
  match l with
  | [] => []
  | a :: r => if Nat.eqb (at_label a) label then r else a :: remove_attempt label r
  end.

Fixpoint find_attempt (label : nat) (l : list attempt) : option attempt :=
  match l with
  | [] => None
  | a :: r => if Nat.eqb (at_label a) label then Some a else find_attempt label r
  end.

(* one attempt fails (timeout, or an answer with SERVFAIL / REFUSED / NOTIMP) *)
Definition fail_attempt (ch : chan) (a : attempt) (status : Z) (c : choices)
  : outcome (chan * list obs) :=
  let ch0 := set_inflight ch (remove_attempt (at_label a) (ch_inflight ch)) in
  do l <- server_increment_failures (ch_now ch0) (ch_delay ch0) (at_server a) (ch_servers ch0);
  let fobs := match find_addr (at_server a) (ch_servers ch0) with Some _ => [OFail (at_server a)] | None => [] end in
  do r <- requeue (set_servers ch0 l) a status c;
  Ok (fst r, fobs ++ snd r).

Fixpoint dedup (seen : list Z) (l : list Z) : list Z :=
  match l with
  | [] => []
  | a :: r => if existsb (Z.eqb a) seen then dedup seen r else a :: dedup (a :: seen) r
  end.

(* ares_servers_update, first loop: for every address of the new configuration (duplicates
   skipped, ares_server_isdup) in order: a server already known (ares_server_find: same address;
   ports are the channel defaults throughout) gets its NEW index and, if that changed, is taken
   out and pushed back (ares_slist_node_reinsert AFTER the key changed); an unknown one is
   created with no failures.  Servers not (yet) visited keep their OLD index, so equal keys
   are possible in between. *)
Definition set_idx (s : server) (idx : Z) : server :=
  {| sv_addr := sv_addr s; sv_idx := idx; sv_fail := sv_fail s; sv_retry := sv_retry s; sv_probe := sv_probe s |}.

Definition fresh_server (a idx : Z) : server :=
  {| sv_addr := a; sv_idx := idx; sv_fail := 0; sv_retry := (0, 0); sv_probe := false |}.

Fixpoint update_loop (addrs : list Z) (idx : Z) (l : list server) : list server :=
  match addrs with
  | [] => l
  | a :: r =>
    let l' := match find_addr a l with
              | Some s => if sv_idx s =? idx then l else reinsert (set_idx s idx) l
              | None => insert_sorted (fresh_server a idx) l
              end in
    update_loop r (idx + 1) l'
  end.

Definition configured (addrs : list Z) (s : server) : bool := existsb (Z.eqb (sv_addr s)) addrs.

(* list_changed: a server was created or a stale one removed (then the query cache is flushed) *)
Definition update_changed (old : list server) (addrs : list Z) : bool :=
  existsb (fun a => match find_addr a old with Some _ => false | None => true end) addrs ||
  existsb (fun s => negb (configured addrs s)) old.

(* the table after the update: the servers of the new configuration *)
Definition servers_update (old : list server) (addrs : list Z) : list server :=
  filter (configured addrs) (update_loop (dedup [] addrs) 0 old).

(* the servers dropped by the update, in list order (the order ares_servers_remove_stale
   destroys them in) *)
Definition servers_stale (old : list server) (addrs : list Z) : list server :=
  filter (fun s => negb (configured addrs s)) (update_loop (dedup [] addrs) 0 old).

(* attempts whose connection is closed by destroying the stale servers: per server, in the
   order the queries were sent on it *)
Definition victims (stale : list server) (inflight : list attempt) : list attempt :=
  flat_map (fun s => filter (fun a => at_server a =? sv_addr s) inflight) stale.

Definition nth_choice (cs : list choices) (n : nat) : choices :=
  nth n cs {| c_rot := 0; c_probe := 0 |}.

(* ares_close_connection -> ares_requeue_queries: every query of the closed connection goes
   through ares_requeue_query(status, inc_try_count = TRUE); status = ARES_SUCCESS when the server
   was removed, ARES_ECONNREFUSED when the connection failed *)
Fixpoint requeue_all (status : Z) (ch : chan) (vs : list attempt) (cs : list choices) (n : nat)
  : outcome (chan * list obs) :=
  match vs with
  | [] => Ok (ch, [])
  | a :: r =>
    let ch0 := set_inflight ch (remove_attempt (at_label a) (ch_inflight ch)) in
    do s <- requeue ch0 a status (nth_choice cs n);
    (* a draw is consumed only by a query that is actually sent again *)
    do t <- requeue_all status (fst s) r cs (if requeue_sends ch0 a then S n else n);
    Ok (fst t, snd s ++ snd t)
  end.

(* The PINNED ares_servers_remove_stale (before fixes/C09-stale-servers-unlink-first.patch)
   destroys the stale servers one at a time while the others are still in the list, so a
   re-queued query can be sent to a server that is about to be removed, and re-queued again.
   Used only for the refutation theorem and for diagnostics. *)
Fixpoint remove_stale_pinned (ch : chan) (stale : list server) (cs : list choices) (n : nat)
  : outcome (chan * list obs) :=
  match stale with
  | [] => Ok (ch, [])
  | s :: r =>
    let ch1 := set_servers ch (remove_addr (sv_addr s) (ch_servers ch)) in
    let vs := filter (fun a => at_server a =? sv_addr s) (ch_inflight ch1) in
    do x <- requeue_all ARES_SUCCESS ch1 vs cs n;
    do y <- remove_stale_pinned (fst x) r cs (n + length (filter (requeue_sends ch1) vs));
    Ok (fst y, snd x ++ snd y)
  end.

Fixpoint insert_by_label (a : attempt) (l : list attempt) : list attempt :=
  match l with
  | [] => [a]
  | x :: r => if Nat.leb (at_label a) (at_label x) then a :: l else x :: insert_by_label a r
  end.
Definition sort_by_label (l : list attempt) : list attempt := fold_right insert_by_label [] l.

Definition is_nil {A} (l : list A) : bool := match l with [] => true | _ => false end.

Inductive event :=
| EvSend (c : choices)                   (* a new user query (ares_send_dnsrec / ares_query) *)
| EvAnswer (label : nat)                 (* the attempt in flight of query [label] is answered NOERROR *)
| EvRefuse (label : nat) (status : Z) (c : choices)  (* ... answered SERVFAIL / REFUSED / NOTIMP *)
| EvTimeout (label : nat) (c : choices)  (* ... times out *)
| EvAdvance (ms : Z)                     (* the clock moves *)
| EvCancel                               (* ares_cancel *)
| EvTruncated (label : nat) (c : choices)
                                         (* the UDP attempt of user query [label] is answered with TC *)
| EvConnLost (addr : Z) (cs : list choices)
                                         (* the connection to [addr] fails or is closed by the peer *)
| EvSetServers (addrs : list Z) (cs : list choices).
                                         (* ares_set_servers_*(); [cs]: draws of the re-queued attempts *)

Definition Unsupported : Z := -2.        (* event outside the modelled fragment *)

Definition step (ch : chan) (ev : event) : outcome (chan * list obs) :=
  match ev with
  | EvSend c =>
    let label := ch_next_label ch in
    if Nat.eqb (length (ch_servers ch)) 0 then Ok (bump_label ch, [ODone label ARES_ENOSERVER])
    else send_fresh (bump_label ch) label 0 ARES_SUCCESS c
  | EvAnswer label =>
    match find_attempt label (ch_inflight ch) with
    | None => Err Unsupported
    | Some a =>
      let ch0 := set_inflight ch (remove_attempt label (ch_inflight ch)) in
      (* server_set_good; end_query(channel, server, ...) *)
      let l0 := clear_probe (at_server a) (server_set_good (at_server a) (ch_servers ch0)) in
      let l := if at_probe a then recompute_probe (ch_inflight ch0) l0 else l0 in
      let gobs := match find_addr (at_server a) (ch_servers ch0) with Some _ => [OGood (at_server a)] | None => [] end in
      Ok (set_servers ch0 l, gobs ++ (if at_probe a then [] else [ODone label ARES_SUCCESS]))
    end
  | EvRefuse label status c =>
    match find_attempt label (ch_inflight ch) with
    | None => Err Unsupported
    | Some a => fail_attempt ch a status c
    end
  | EvTimeout label c =>
    match find_attempt label (ch_inflight ch) with
    | None => Err Unsupported
    | Some a => fail_attempt ch a ARES_ETIMEOUT c
    end
  | EvAdvance ms =>
    do t <- c_timeadd ms (fst (ch_now ch)) (snd (ch_now ch));
    Ok ({| ch_servers := ch_servers ch; ch_rotate := ch_rotate ch; ch_tries := ch_tries ch;
           ch_chance := ch_chance ch; ch_delay := ch_delay ch; ch_now := t;
           ch_inflight := ch_inflight ch; ch_next_label := ch_next_label ch |}, [])
  | EvCancel =>
    (* every query ends with ARES_ECANCELLED in the order of channel->all_queries (creation
       order); the callback of a cancelled probe finds no query left and clears every probe_pending *)
    let l := if existsb at_probe (ch_inflight ch) then recompute_probe [] (ch_servers ch) else ch_servers ch in
    Ok (set_inflight (set_servers ch l) [],
        map (fun a => ODone (at_label a) ARES_ECANCELLED)
            (sort_by_label (filter (fun a => negb (at_probe a)) (ch_inflight ch))))
  | EvTruncated label c =>
    (* process_answer: query->using_tcp = TRUE; ares_append_requeue(requeue, query, NULL): no
       failure is recorded, the try counter is not incremented, and the query is sent again
       through ares_send_query(NULL, ...), i.e. with a FRESH selection of the server.  (A probe
       copy takes the same path and thereby leaves the server it was meant to test - open finding
       probe-moved - which is outside this model.) *)
    match find_attempt label (ch_inflight ch) with
    | None => Err Unsupported
    | Some a =>
      if at_probe a then Err Unsupported
      else send_fresh (set_inflight ch (remove_attempt label (ch_inflight ch))) label (at_try a) (at_err a) c
    end
  | EvConnLost a cs =>
    (* read_conn_packets reports the failed read (recv() == 0 included), read_answers then calls
       handle_conn_error(conn, critical_failure = TRUE, ARES_ECONNREFUSED): the server is demoted
       ONCE (server_increment_failures), then ares_close_connection re-queues every query that
       was outstanding on the connection, in the order they were sent on it *)
    match find_addr a (ch_servers ch) with
    | None => Err Unsupported
    | Some _ =>
      let vs := filter (fun x => at_server x =? a) (ch_inflight ch) in
      do l <- server_increment_failures (ch_now ch) (ch_delay ch) a (ch_servers ch);
      do r <- requeue_all ARES_ECONNREFUSED (set_servers ch l) vs cs 0;
      Ok (fst r, OConnLost a (negb (is_nil vs)) :: OFail a :: snd r)
    end
  | EvSetServers addrs cs =>
    (* with fixes/C09-stale-servers-unlink-first.patch: all stale servers are unlinked first,
       then destroyed (connections closed, their queries re-queued) in list order *)
    let keep := servers_update (ch_servers ch) addrs in
    let vs := victims (servers_stale (ch_servers ch) addrs) (ch_inflight ch) in
    do r <- requeue_all ARES_SUCCESS (set_servers ch keep) vs cs 0;
    Ok (fst r, OServers addrs :: snd r)
  end.

(* EvSetServers as the pinned code performs it *)
Definition set_servers_pinned (ch : chan) (addrs : list Z) (cs : list choices) : outcome (chan * list obs) :=
  let l1 := update_loop (dedup [] addrs) 0 (ch_servers ch) in
  let stale := filter (fun s => negb (configured addrs s)) l1 in
  do r <- remove_stale_pinned (set_servers ch l1) stale cs 0;
  Ok (fst r, OServers addrs :: snd r).

Fixpoint run (ch : chan) (evs : list event) : outcome (chan * list obs) :=
  match evs with
  | [] => Ok (ch, [])
  | e :: r =>
    do s <- step ch e;
    do t <- run (fst s) r;
    Ok (fst t, snd s ++ snd t)
  end.

Definition init_chan (addrs : list Z) (rotate : bool) (tries chance delay : Z) (now : Z * Z) : chan :=
  {| ch_servers := servers_update [] addrs; ch_rotate := rotate; ch_tries := tries;
     ch_chance := chance; ch_delay := delay; ch_now := now; ch_inflight := []; ch_next_label := 0 |}.

(* ------------------------------------------------------------------------------------ *)
(* Specification side: what the property says about one fresh attempt                    *)
(* ------------------------------------------------------------------------------------ *)
Definition min_fail (l : list server) (s : server) : Prop :=
  forall t, In t l -> sv_fail s <= sv_fail t.

(* the server [a] is a legitimate target of a fresh attempt given the server table [l] *)
Definition fresh_ok (rotate : bool) (l : list server) (a : Z) : Prop :=
  exists s, In s l /\ sv_addr s = a /\ min_fail l s /\
    (rotate = false -> forall t, In t l -> sv_fail t = sv_fail s -> sv_idx s <= sv_idx t).

(* executable form used as the oracle on implementation traces *)
Definition fresh_okb (rotate : bool) (l : list server) (a : Z) : bool :=
  match find_addr a l with
  | None => false
  | Some s =>
    forallb (fun t => sv_fail s <=? sv_fail t) l &&
    (rotate || forallb (fun t => negb (sv_fail t =? sv_fail s) || (sv_idx s <=? sv_idx t)) l)
  end.

(* a probe is due: some failed server is past its retry time and no probe to it is in flight *)
Definition probe_in_flight (ch : chan) (a : Z) : bool :=
  existsb (fun x => at_probe x && (at_server x =? a)) (ch_inflight ch).

Fixpoint probe_due (ch : chan) (l : list server) : outcome bool :=
  match l with
  | [] => Ok false
  | s :: r =>
    if (0 <? sv_fail s) && negb (probe_in_flight ch (sv_addr s)) then
      (do t <- c_ares_timedout (fst (ch_now ch)) (fst (sv_retry s)) (snd (ch_now ch)) (snd (sv_retry s));
       if negb (t =? 0) then Ok true else probe_due ch r)
    else probe_due ch r
  end.

(* ------------------------------------------------------------------------------------ *)
(* The property as a monitor over the observable stream: it keeps, per configured server, *)
(* the consecutive failures implied by the server-state callbacks (in configuration       *)
(* order, no sorted list), and rejects a fresh attempt that does not go to a server with   *)
(* the fewest failures (the first such in configuration order without rotation), and a     *)
(* probe that goes to a server without failures.                                           *)
(* ------------------------------------------------------------------------------------ *)
Record monitor := { m_rotate : bool; m_servers : list server }.

Fixpoint mon_update (a : Z) (f : Z -> Z) (l : list server) : list server :=
  match l with
  | [] => []
  | s :: r =>
    if sv_addr s =? a
    then {| sv_addr := sv_addr s; sv_idx := sv_idx s; sv_fail := f (sv_fail s); sv_retry := (0, 0);
            sv_probe := false |} :: r
    else s :: mon_update a f r
  end.

Fixpoint mon_build (old : list server) (addrs : list Z) (idx : Z) : list server :=
  match addrs with
  | [] => []
  | a :: r =>
    {| sv_addr := a; sv_idx := idx;
       sv_fail := match find_addr a old with Some o => sv_fail o | None => 0 end;
       sv_retry := (0, 0); sv_probe := false |} :: mon_build old r (idx + 1)
  end.

Definition mon_step (m : monitor) (o : obs) : option monitor :=
  match o with
  | OFail a => Some {| m_rotate := m_rotate m; m_servers := mon_update a (fun f => wrap64 (f + 1)) (m_servers m) |}
  | OGood a => Some {| m_rotate := m_rotate m; m_servers := mon_update a (fun _ => 0) (m_servers m) |}
  | OTx _ a false => if fresh_okb (m_rotate m) (m_servers m) a then Some m else None
  | OTx _ a true =>
    match find_addr a (m_servers m) with
    | Some s => if 0 <? sv_fail s then Some m else None
    | None => None
    end
  | ODone _ _ => Some m
  | OServers addrs => Some {| m_rotate := m_rotate m; m_servers := mon_build (m_servers m) (dedup [] addrs) 0 |}
  | OConnLost _ _ => Some m
  end.

Fixpoint mon_run (m : monitor) (l : list obs) : option monitor :=
  match l with
  | [] => Some m
  | o :: r => match mon_step m o with Some m' => mon_run m' r | None => None end
  end.

Definition mon_init (addrs : list Z) (rotate : bool) : monitor :=
  {| m_rotate := rotate; m_servers := mon_build [] (dedup [] addrs) 0 |}.

(* ------------------------------------------------------------------------------------ *)
(* Second monitor: an attempt that is due is actually made.  A user query may end with a   *)
(* failure status only when its retry budget (configured servers x tries) is used up:      *)
(* the number of transmissions made for it is at least that budget.  In particular a query *)
(* never ends with ARES_ENOSERVER, or without any transmission, while servers are          *)
(* configured.  (Cancellation and destruction are the application's doing and exempt.)      *)
(* ------------------------------------------------------------------------------------ *)
Record budget_mon := { b_tries : Z; b_nsrv : nat; b_txs : list nat }.

Definition bmon_step (b : budget_mon) (o : obs) : option budget_mon :=
  match o with
  | OTx l _ false => Some {| b_tries := b_tries b; b_nsrv := b_nsrv b; b_txs := l :: b_txs b |}
  | OServers addrs => Some {| b_tries := b_tries b; b_nsrv := length (dedup [] addrs); b_txs := b_txs b |}
  | ODone l st =>
    if (st =? ARES_SUCCESS) || (st =? ARES_ECANCELLED) || (st =? ARES_EDESTRUCTION) then Some b
    else if Z.of_nat (b_nsrv b) * b_tries b <=? Z.of_nat (count_occ Nat.eq_dec (b_txs b) l) then Some b
    else None
  | _ => Some b
  end.

Fixpoint bmon_run (b : budget_mon) (l : list obs) : option budget_mon :=
  match l with
  | [] => Some b
  | o :: r => match bmon_step b o with Some b' => bmon_run b' r | None => None end
  end.

Definition bmon_init (addrs : list Z) (tries : Z) : budget_mon :=
  {| b_tries := tries; b_nsrv := length (dedup [] addrs); b_txs := [] |}.

(* ------------------------------------------------------------------------------------ *)
(* Third monitor: "each failure demotes the server".  When the transport loses a          *)
(* connection on which queries were outstanding, the very next observation must be the     *)
(* failure callback of that server (before any re-queued attempt is sent).                 *)
(* ------------------------------------------------------------------------------------ *)
Definition dmon_step (d : option Z) (o : obs) : option (option Z) :=
  match d with
  | Some a => match o with OFail b => if a =? b then Some None else None | _ => None end
  | None => match o with OConnLost a true => Some (Some a) | _ => Some None end
  end.

Fixpoint dmon_run (d : option Z) (l : list obs) : option (option Z) :=
  match l with
  | [] => Some d
  | o :: r => match dmon_step d o with Some d' => dmon_run d' r | None => None end
  end.
