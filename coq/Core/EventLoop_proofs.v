From CAres.Core Require Import EventLoop.
Local Open Scope Z_scope.

Lemma min_dl_le l m : min_dl l = Some m -> forall d, In d l -> m <= d.
Proof.
  revert m; induction l as [|x r IH]; intros m Hm d Hd; [contradiction|].
  simpl in Hm. destruct (min_dl r) as [m'|] eqn:Er.
  - injection Hm as <-. destruct Hd as [<-|Hd]; [lia|]. specialize (IH m' eq_refl d Hd). lia.
  - injection Hm as <-. destruct Hd as [<-|Hd]; [lia|].
    destruct r; [contradiction|]. simpl in Er. destruct (min_dl r); discriminate.
Qed.

Lemma min_dl_none l : min_dl l = None -> l = [].
Proof. destruct l as [|x r]; [reflexivity|]. simpl. destruct (min_dl r); discriminate. Qed.

Lemma earliest_spec d l : earliest d l = true -> forall x, In x l -> d < x.
Proof.
  unfold earliest. rewrite forallb_forall. intros H x Hx. specialize (H x Hx). lia.
Qed.

Lemma not_earliest_spec d l : earliest d l = false -> exists x, In x l /\ x <= d.
Proof.
  unfold earliest. induction l as [|y r IH]; simpl; [discriminate|].
  destruct (Z.ltb_spec d y) as [H|H]; simpl.
  - intros E. destruct (IH E) as [x [Hx Hle]]. exists x; auto.
  - intros _. exists y; split; [left; reflexivity | lia].
Qed.

Lemma In_remove1 d x l : In x (remove1 d l) -> In x l.
Proof.
  induction l as [|y r IH]; simpl; [auto|].
  destruct (y =? d); [auto|]. intros [H|H]; auto.
Qed.

(* a wake rule is SAFE when it signals at least whenever the new deadline is the earliest *)
Definition rule_safe (rule : wake_rule) : Prop := forall d l, earliest d l = true -> rule d l = true.

Lemma rule_earliest_safe : rule_safe rule_earliest.
Proof. intros d l H. exact H. Qed.

Section Safe.
Variable rule : wake_rule.
Hypothesis Hsafe : rule_safe rule.

(* the invariant is established by Sleep and preserved by every step under a safe wake rule *)
Lemma einv_step s e s' : einv s -> estep rule s e = Some s' -> einv s'.
Proof.
  intros Hinv Hs. destruct e as [d ic| | | |d|d|dt]; simpl in Hs.
  - (* Enqueue *)
    destruct (d <? e_now s) eqn:Hd; [discriminate|]. injection Hs as <-.
    unfold einv in *; simpl. destruct (e_th s) as [|u]; [exact I|].
    destruct (e_wake s) eqn:Hw; simpl; [left; reflexivity|].
    destruct ic; simpl; [left; reflexivity|].
    destruct (earliest d (e_dl s)) eqn:He; [left; rewrite (Hsafe _ _ He); reflexivity|].
    destruct (rule d (e_dl s)); [left; reflexivity|].
    right. destruct Hinv as [Hf|Hinv]; [discriminate|].
    destruct u as [t|].
    + intros x [<-|Hx]; [|auto].
      destruct (not_earliest_spec _ _ He) as [y [Hy Hle]]. specialize (Hinv y Hy). lia.
    + destruct (not_earliest_spec _ _ He) as [y [Hy _]]. rewrite Hinv in Hy. contradiction.
  - (* Sleep *)
    destruct (e_th s) as [|u] eqn:Ht; [|discriminate]. injection Hs as <-.
    unfold einv; simpl. right. unfold wait_until.
    destruct (min_dl (e_dl s)) as [m|] eqn:Em.
    + intros d Hd. pose proof (min_dl_le _ _ Em d Hd). lia.
    + apply min_dl_none; assumption.
  - (* WakeUp *)
    destruct (e_th s); [discriminate|]. injection Hs as <-. exact I.
  - (* Process *)
    destruct (e_th s); [|discriminate]. injection Hs as <-. exact I.
  - (* Requeue *)
    destruct (e_th s); [|discriminate]. destruct (d <? e_now s); [discriminate|]. injection Hs as <-. exact I.
  - (* Remove *)
    injection Hs as <-. unfold einv in *; simpl. destruct (e_th s) as [|u]; [exact I|].
    destruct Hinv as [Hw|Hinv]; [left; assumption|]. right.
    destruct u as [t|].
    + intros x Hx. apply Hinv. eapply In_remove1; eassumption.
    + rewrite Hinv. reflexivity.
  - (* Tick *)
    destruct (dt <? 0) eqn:Hdt; [discriminate|]. injection Hs as <-.
    unfold einv in *; simpl. destruct (e_th s) as [|u]; [exact I|].
    destruct Hinv as [Hw|Hinv]; [left; assumption|]. right.
    destruct u as [t|]; [|assumption].
    intros d Hd. specialize (Hinv d Hd). lia.
Qed.

Lemma einv_run tr : forall s s', einv s -> erun rule s tr = Some s' -> einv s'.
Proof.
  induction tr as [|e r IH]; intros s s' Hinv Hr; simpl in Hr.
  - injection Hr as <-. assumption.
  - destruct (estep rule s e) as [s1|] eqn:Es; [|discriminate].
    eapply IH; [eapply einv_step; eassumption | eassumption].
Qed.

Lemma einv_init : einv einit.
Proof. exact I. Qed.

(* every reachable state of the fixed system: a blocked thread with no wake pending has a
   timeout, and it expires at most 1 ms after every outstanding deadline (or now) *)
Theorem evthread_no_missed_deadline tr s :
  erun rule einit tr = Some s ->
  forall u, e_th s = Blocked u -> e_wake s = false ->
  forall d, In d (e_dl s) -> exists t, u = Some t /\ t <= Z.max (e_now s) d + 1.
Proof.
  intros Hr u Hu Hw d Hd.
  pose proof (einv_run tr einit s einv_init Hr) as Hinv.
  unfold einv in Hinv. rewrite Hu in Hinv. destruct Hinv as [Hf|Hinv]; [congruence|].
  destruct u as [t|].
  - exists t; split; [reflexivity | apply Hinv; assumption].
  - rewrite Hinv in Hd. contradiction.
Qed.

End Safe.

(* the pinned tree's wake rule does not have the property: a query that reuses an idle
   connection (no socket-interest change) leaves the thread asleep without timeout *)
Theorem evthread_refuted_without_fix :
  exists tr s d, erun rule_pinned einit tr = Some s /\ e_th s = Blocked None /\ e_wake s = false /\ In d (e_dl s).
Proof.
  exists [Sleep; Enqueue 250 false], (mkE 0 [250] (Blocked None) false), 250.
  vm_compute. repeat split; auto.
Qed.

(* neither does "wake only when nothing else is outstanding": an older query in a later retry
   round (deadline 1000) keeps the thread asleep past the deadline (300 + 250 = 550) of a
   fresh query sent on the same busy connection *)
Theorem evthread_refuted_wake_only_when_empty :
  exists tr s u d, erun rule_only einit tr = Some s /\ e_th s = Blocked (Some u) /\ e_wake s = false /\
                   In d (e_dl s) /\ Z.max (e_now s) d + 1 < u.
Proof.
  exists [Enqueue 1000 true; Sleep; WakeUp; Sleep; Tick 300; Enqueue 550 false].
  eexists. exists 1001, 550. vm_compute. repeat split; auto.
Qed.

(* non-vacuity: a reachable state of the fixed system with a blocked thread and a pending query *)
Example evthread_example :
  exists s, erun rule_earliest einit [Enqueue 300 true; WakeUp; Sleep; Enqueue 500 false] = None \/
            (erun rule_earliest einit [Sleep; Enqueue 300 false; WakeUp; Sleep; Enqueue 500 false] = Some s /\
             e_th s = Blocked (Some 301) /\ e_wake s = false /\ e_dl s = [500; 300]).
Proof. eexists. right. vm_compute. repeat split. Qed.

(* acceptor: an accepted trace never ends with a query still needing a wake-up *)
Lemma trace_accepts_need base tol tr :
  trace_accepts base tol tr = true -> a_need (acc_run base tol tr) = None /\ a_ok (acc_run base tol tr) = true.
Proof.
  unfold trace_accepts. destruct (a_ok _); simpl; [|discriminate].
  destruct (a_need _); [discriminate|]. auto.
Qed.

(* ------------------------------------------------------------------------------------ *)
(* The conversion of the timeout hint to the backends' milliseconds.                     *)
Lemma ms_of_hint_min sec usec : 0 <= sec -> 0 <= usec < 1000000 ->
  ms_of_hint sec usec = Z.min (sec * 1000 + usec / 1000 + 1) INT_MAX.
Proof.
  intros Hs Hu. unfold ms_of_hint, INT_MAX.
  assert (Hq : 0 <= usec / 1000 <= 999).
  { split; [apply Z.div_pos; lia | apply Z.lt_succ_r; apply Z.div_lt_upper_bound; lia]. }
  change (2147483647 / 1000) with 2147483.
  destruct (sec >? 2147483) eqn:E1.
  - apply Z.gtb_lt in E1. lia.
  - destruct (sec * 1000 + usec / 1000 + 1 >? 2147483647) eqn:E2.
    + apply Z.gtb_lt in E2. lia.
    + assert (~ (2147483647 < sec * 1000 + usec / 1000 + 1)) by (rewrite <- Z.gtb_lt; congruence). lia.
Qed.

(* never the "no timeout" value 0, always representable as an int *)
Lemma ms_of_hint_usable sec usec : 0 <= sec -> 0 <= usec < 1000000 ->
  wait_ms_ok (Some (ms_of_hint sec usec)) = true.
Proof.
  intros Hs Hu. rewrite ms_of_hint_min by assumption. unfold wait_ms_ok, INT_MAX.
  assert (0 <= usec / 1000) by (apply Z.div_pos; lia).
  apply andb_true_intro; split; [apply Z.ltb_lt | apply Z.leb_le]; lia.
Qed.

(* the wait ends strictly after the hint and at most one millisecond later, unless the hint
   is beyond what an int of milliseconds can express (then the thread wakes early, which is
   harmless: the timeout is recomputed on every iteration) *)
Lemma ms_of_hint_covers sec usec : 0 <= sec -> 0 <= usec < 1000000 ->
  let ms := ms_of_hint sec usec in
  let hint_us := sec * 1000000 + usec in
  (ms < INT_MAX -> hint_us < ms * 1000 <= hint_us + 1000) /\
  (ms = INT_MAX -> INT_MAX * 1000 <= hint_us + 1000).
Proof.
  intros Hs Hu ms hint_us. subst ms hint_us. rewrite ms_of_hint_min by assumption. unfold INT_MAX.
  pose proof (Z.div_mod usec 1000 ltac:(lia)) as Hdm.
  pose proof (Z.mod_pos_bound usec 1000 ltac:(lia)) as Hm.
  set (q := usec / 1000) in *. set (r := usec mod 1000) in *. clearbody q r.
  split; intros H; lia.
Qed.

(* the model's abstract wait_until is this conversion applied to the remaining time (in whole
   milliseconds) to the earliest deadline *)
Lemma wait_until_is_conversion now l m : min_dl l = Some m ->
  let rem := Z.max 0 (m - now) in
  wait_until now l = Some (now + ms_of_hint (rem / 1000) ((rem mod 1000) * 1000)).
Proof.
  intros Hm rem. unfold wait_until. rewrite Hm. f_equal.
  assert (Hr : 0 <= rem) by (subst rem; lia).
  pose proof (Z.div_mod rem 1000 ltac:(lia)) as Hdm.
  pose proof (Z.mod_pos_bound rem 1000 ltac:(lia)) as Hmb.
  rewrite ms_of_hint_min; [| apply Z.div_pos; lia | lia].
  rewrite Z.div_mul by lia. unfold INT_MAX. subst rem. lia.
Qed.

(* acceptor: a trace whose conversions are accepted contains no wait with timeout 0 / above
   INT_MAX, and every wait that follows a logged hint used exactly ms_of_hint *)
Lemma acc_conv_step base tol a e : a_conv (acc_step base tol a e) = true -> a_conv a = true.
Proof.
  destruct e as [t|t|t ms|t|sec usec]; simpl.
  - destruct (a_blocked a) as [[u|]|]; simpl; auto. destruct (_ <? _); simpl; auto.
  - auto.
  - intros H. apply andb_prop in H. destruct H as [H _]. apply andb_prop in H. apply H.
  - destruct (a_need a); simpl; auto.
  - auto.
Qed.

Lemma acc_conv_run base tol tr a : a_conv (fold_left (acc_step base tol) tr a) = true -> a_conv a = true.
Proof.
  revert a; induction tr as [|e r IH]; simpl; intros a H; [exact H|].
  apply (acc_conv_step base tol a e). apply IH. exact H.
Qed.

Lemma trace_conversion_waits tr pre t ms post :
  trace_conversion_ok tr = true -> tr = pre ++ TWait t ms :: post -> wait_ms_ok ms = true.
Proof.
  unfold trace_conversion_ok, acc_run. intros H ->.
  rewrite fold_left_app in H. simpl in H. apply acc_conv_run in H. simpl in H.
  apply andb_prop in H. destruct H as [H _]. apply andb_prop in H. apply H.
Qed.

Lemma trace_conversion_hinted tr pre sec usec t m post :
  trace_conversion_ok tr = true -> tr = pre ++ THint sec usec :: TWait t (Some m) :: post ->
  m = ms_of_hint sec usec.
Proof.
  unfold trace_conversion_ok, acc_run. intros H ->.
  rewrite fold_left_app in H. cbn [fold_left] in H. apply acc_conv_run in H.
  cbn [acc_step a_hint a_conv] in H.
  apply andb_prop in H. destruct H as [_ H]. apply Z.eqb_eq in H. exact H.
Qed.
