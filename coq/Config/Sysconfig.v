(* The channel configuration record and the system-configuration side of initialisation:
   ares_sysconfig_apply / ares_init_by_sysconfig (src/lib/ares_sysconfig.c) and
   init_by_defaults (src/lib/ares_init.c). *)
From CAres.Config Require Export Csv.
From CAres.Gen Require Import Consts.
Local Open Scope Z_scope.

(* option mask bit numbers *)
Definition B_FLAGS := 0.          Definition B_TIMEOUT := 1.        Definition B_TRIES := 2.
Definition B_NDOTS := 3.          Definition B_UDP_PORT := 4.       Definition B_TCP_PORT := 5.
Definition B_SERVERS := 6.        Definition B_DOMAINS := 7.        Definition B_LOOKUPS := 8.
Definition B_SOCK_STATE_CB := 9.  Definition B_SORTLIST := 10.      Definition B_SOCK_SNDBUF := 11.
Definition B_SOCK_RCVBUF := 12.   Definition B_TIMEOUTMS := 13.     Definition B_ROTATE := 14.
Definition B_EDNSPSZ := 15.       Definition B_NOROTATE := 16.      Definition B_RESOLVCONF := 17.
Definition B_HOSTS_FILE := 18.    Definition B_UDP_MAX_QUERIES := 19. Definition B_MAXTIMEOUTMS := 20.
Definition B_QUERY_CACHE := 21.   Definition B_EVENT_THREAD := 22.  Definition B_SERVER_FAILOVER := 23.

(* the bit numbers are those of include/ares.h in the working tree *)
Lemma option_bits_match_header :
  2 ^ B_FLAGS = ARES_OPT_FLAGS /\ 2 ^ B_TIMEOUT = ARES_OPT_TIMEOUT /\ 2 ^ B_TRIES = ARES_OPT_TRIES /\
  2 ^ B_NDOTS = ARES_OPT_NDOTS /\ 2 ^ B_UDP_PORT = ARES_OPT_UDP_PORT /\ 2 ^ B_TCP_PORT = ARES_OPT_TCP_PORT /\
  2 ^ B_SERVERS = ARES_OPT_SERVERS /\ 2 ^ B_DOMAINS = ARES_OPT_DOMAINS /\ 2 ^ B_LOOKUPS = ARES_OPT_LOOKUPS /\
  2 ^ B_SOCK_STATE_CB = ARES_OPT_SOCK_STATE_CB /\ 2 ^ B_SORTLIST = ARES_OPT_SORTLIST /\
  2 ^ B_SOCK_SNDBUF = ARES_OPT_SOCK_SNDBUF /\ 2 ^ B_SOCK_RCVBUF = ARES_OPT_SOCK_RCVBUF /\
  2 ^ B_TIMEOUTMS = ARES_OPT_TIMEOUTMS /\ 2 ^ B_ROTATE = ARES_OPT_ROTATE /\ 2 ^ B_EDNSPSZ = ARES_OPT_EDNSPSZ /\
  2 ^ B_NOROTATE = ARES_OPT_NOROTATE /\ 2 ^ B_RESOLVCONF = ARES_OPT_RESOLVCONF /\
  2 ^ B_HOSTS_FILE = ARES_OPT_HOSTS_FILE /\ 2 ^ B_UDP_MAX_QUERIES = ARES_OPT_UDP_MAX_QUERIES /\
  2 ^ B_MAXTIMEOUTMS = ARES_OPT_MAXTIMEOUTMS /\ 2 ^ B_QUERY_CACHE = ARES_OPT_QUERY_CACHE /\
  2 ^ B_EVENT_THREAD = ARES_OPT_EVENT_THREAD /\ 2 ^ B_SERVER_FAILOVER = ARES_OPT_SERVER_FAILOVER /\
  2 ^ 0 = ARES_FLAG_USEVC /\ 2 ^ 1 = ARES_FLAG_PRIMARY /\ 2 ^ 8 = ARES_FLAG_EDNS /\ 2 ^ 9 = ARES_FLAG_NO_DFLT_SVR.
Proof. repeat split; reflexivity. Qed.

Definition has (m b : Z) : bool := Z.testbit m b.
Definition setb (m b : Z) : Z := Z.setbit m b.
Definition clrb (m b : Z) : Z := Z.clearbit m b.

Record chan := mkChan {
  c_flags : Z; c_timeout : Z; c_tries : Z; c_ndots : Z; c_maxtimeout : Z; c_rotate : bool;
  c_udp : Z; c_tcp : Z; c_sndbuf : Z; c_rcvbuf : Z;
  c_domains : list bytes; c_sortlist : list apat; c_lookups : option bytes;
  c_ednspsz : Z; c_qcache : Z; c_udpmaxq : Z; c_optmask : Z;
  c_retry_chance : Z; c_retry_delay : Z; c_sscb : Z;
  c_servers : list server;
  c_ldev : bytes; c_lip4 : Z; c_lip6 : bytes;
  c_ifs : option iftab }.

(* what initialisation sees besides the options: files, environment, kernel host name, and the
   interface functions ares_set_socket_functions_def() installs at the end of ares_init_options *)
Record sysenv := mkEnv {
  e_files : sysfiles; e_localdomain : option bytes; e_res_options : option bytes;
  e_hostname : bytes; e_defifs : option iftab }.

(* With fixes/C16-usevc-user-flags.patch "options use-vc" does not touch flags the application
   set with ARES_OPT_FLAGS; [usevc_fixed = false] is the code as pinned. *)
Definition usevc_fixed : bool := true.

Section WithNet.
Variable nf : netfns.

(* ares_sysconfig_apply *)
Definition sysconfig_apply_gen (usevc_fixed : bool) (c : chan) (s : sysconfig) : chan :=
  let m := c_optmask c in
  let servers := match s_sconfig s with
                 | None => c_servers c
                 | Some l => if has m B_SERVERS then c_servers c
                             else servers_update (c_flags c) (c_udp c) (c_tcp c) (c_servers c) l
                 end in
  let domains := match s_domains s with [] => c_domains c | l => if has m B_DOMAINS then c_domains c else l end in
  let lookups := match s_lookups s with None => c_lookups c | Some l => if has m B_LOOKUPS then c_lookups c else Some l end in
  let sortlist := match s_sortlist s with [] => c_sortlist c | l => if has m B_SORTLIST then c_sortlist c else l end in
  let ndots := if has m B_NDOTS then c_ndots c else s_ndots s in
  let tries := if negb (s_tries s =? 0) && negb (has m B_TRIES) then s_tries s else c_tries c in
  let timeout := if negb (s_timeout_ms s =? 0) && negb (has m B_TIMEOUTMS) then s_timeout_ms s else c_timeout c in
  let rotate := if has m B_ROTATE || has m B_NOROTATE then c_rotate c else s_rotate s in
  let flags := if s_usevc s && negb (usevc_fixed && has m B_FLAGS) then Z.lor (c_flags c) ARES_FLAG_USEVC else c_flags c in
  mkChan flags timeout tries ndots (c_maxtimeout c) rotate (c_udp c) (c_tcp c) (c_sndbuf c) (c_rcvbuf c)
         domains sortlist lookups (c_ednspsz c) (c_qcache c) (c_udpmaxq c) m
         (c_retry_chance c) (c_retry_delay c) (c_sscb c) servers (c_ldev c) (c_lip4 c) (c_lip6 c) (c_ifs c).

Definition sysconfig_apply := sysconfig_apply_gen usevc_fixed.

(* the sysconfig gathered from files and environment; Err: nothing is applied *)
Definition read_sysconfig (ifs : option iftab) (e : sysenv) : outcome sysconfig :=
  do s1 <- init_sysconfig_files nf ifs sys_init (e_files e);
  init_by_environment s1 (e_localdomain e) (e_res_options e).

(* ares_init_by_sysconfig; the status is only logged by its callers *)
Definition init_by_sysconfig (e : sysenv) (c : chan) : outcome chan :=
  match read_sysconfig (c_ifs c) e with
  | Ok s => Ok (sysconfig_apply c s)
  | Err st => if st =? NotModelled then Err st else Ok c
  | UB k => UB k
  end.

Definition s_fb : bytes := [102%N; 98%N].
Definition loopback : addr := A4 [127%N; 0%N; 0%N; 1%N].

(* init_by_defaults *)
Definition init_by_defaults (e : sysenv) (c : chan) : outcome chan :=
  let m := c_optmask c in
  let flags := if has m B_FLAGS then c_flags c else ARES_FLAG_EDNS in
  let ednspsz := if c_ednspsz c =? 0 then EDNSPACKETSZ else c_ednspsz c in
  let timeout := if c_timeout c =? 0 then DEFAULT_TIMEOUT else c_timeout c in
  let tries := if c_tries c =? 0 then DEFAULT_TRIES else c_tries c in
  do servers <- (match c_servers c with
                 | [] => if Z.testbit flags 9 (* ARES_FLAG_NO_DFLT_SVR *) then Err ARES_ENOSERVER
                         else Ok (servers_update flags (c_udp c) (c_tcp c) [] [mkSconf loopback 0 0 [] 0])
                 | l => Ok l
                 end);
  let domains := match c_domains c with
                 | [] => match index_of ch_dot (e_hostname e) with
                         | Some k => [skipn (S k) (e_hostname e)]
                         | None => []
                         end
                 | l => l
                 end in
  let lookups := match c_lookups c with None => Some s_fb | x => x end in
  let chance := if has m B_SERVER_FAILOVER then c_retry_chance c else DEFAULT_SERVER_RETRY_CHANCE in
  let delay := if has m B_SERVER_FAILOVER then c_retry_delay c else DEFAULT_SERVER_RETRY_DELAY in
  Ok (mkChan flags timeout tries (c_ndots c) (c_maxtimeout c) (c_rotate c) (c_udp c) (c_tcp c) (c_sndbuf c) (c_rcvbuf c)
             domains (c_sortlist c) lookups ednspsz (c_qcache c) (c_udpmaxq c) m chance delay (c_sscb c)
             servers (c_ldev c) (c_lip4 c) (c_lip6 c) (c_ifs c)).

End WithNet.
