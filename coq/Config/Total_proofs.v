(* C15_total: on every byte string the configuration parsers return Ok or Err; the only C
   undefined behaviour the model can reach is the signed overflow of atoi() on an over-long
   digit string (witnessed in Witness.v).  In particular no write past char lookupstr[32], and no
   read or write past any of the fixed-size string buffers (those are length-checked by
   fetch_string, which fails instead). *)
From CAres.Config Require Import Spec.
From CAres.Gen Require Import Consts.
Local Open Scope N_scope.

Definition ub_only_overflow {A} (m : outcome A) : Prop := forall k, m = UB k -> k = SignedOverflow.

Lemma ub_ok {A} (a : A) : ub_only_overflow (Ok a).
Proof. intros k H; discriminate. Qed.
Lemma ub_err {A} s : ub_only_overflow (@Err A s).
Proof. intros k H; discriminate. Qed.
Lemma ub_ub {A} : ub_only_overflow (@UB A SignedOverflow).
Proof. intros k H; inversion H; reflexivity. Qed.
Lemma ub_bind {A B} (m : outcome A) (f : A -> outcome B) :
  ub_only_overflow m -> (forall a, ub_only_overflow (f a)) -> ub_only_overflow (bind m f).
Proof. intros Hm Hf k. destruct m as [a|s|k']; simpl; intros H; [eapply Hf; eauto|discriminate|inversion H; subst; apply Hm; reflexivity]. Qed.
Lemma ub_guard {A} b k0 (m : outcome A) : b = true -> ub_only_overflow m -> ub_only_overflow (guard b k0 m).
Proof. intros -> H. exact H. Qed.

#[local] Hint Resolve ub_ok ub_err ub_ub : ub.

Ltac ub_step :=
  match goal with
  | |- ub_only_overflow (Ok _) => apply ub_ok
  | |- ub_only_overflow (Err _) => apply ub_err
  | |- ub_only_overflow (UB SignedOverflow) => apply ub_ub
  | |- ub_only_overflow (bind _ _) => apply ub_bind; [|intros]
  | |- ub_only_overflow (if ?b then _ else _) => destruct b
  | |- ub_only_overflow (match ?x with _ => _ end) => destruct x
  | |- ub_only_overflow (let (_, _) := ?p in _) => destruct p
  end.

Lemma ub_atoi s : ub_only_overflow (atoi s).
Proof. unfold atoi. repeat ub_step. Qed.

Lemma ub_fetch_string n s : ub_only_overflow (fetch_string n s).
Proof. unfold fetch_string. repeat ub_step. Qed.

Lemma ub_buf_split_str d t n c m l : ub_only_overflow (buf_split_str d t n c m l).
Proof. unfold buf_split_str. repeat ub_step. Qed.

#[local] Hint Resolve ub_atoi ub_fetch_string ub_buf_split_str : ub.

(* ---- config_lookup: the lookupstr[32] writes ---- *)
Lemma lookup_char_vals v ch : lookup_char v = Some ch -> ch = 98 \/ ch = 102.
Proof. unfold lookup_char. repeat match goal with |- context [if ?b then _ else _] => destruct b end; intros H; inversion H; auto. Qed.

Lemma NoDup_snoc {A} (l : list A) x : NoDup l -> ~ In x l -> NoDup (l ++ [x]).
Proof.
  induction l as [|y l IH]; intros Hnd Hx; simpl.
  - constructor; [intros []|constructor].
  - inversion Hnd; subst. constructor.
    + intros Hin. apply in_app_or in Hin as [Hin|[<-|[]]]; [contradiction|]. apply Hx. left. reflexivity.
    + apply IH; [assumption|]. intros Hin. apply Hx. right. exact Hin.
Qed.

Lemma lookup_fold_ub vals : forall acc,
  NoDup acc -> incl acc [98; 102] -> ub_only_overflow (lookup_fold vals acc).
Proof.
  induction vals as [|v r IH]; intros acc Hnd Hin; simpl; [apply ub_ok|].
  destruct (lookup_char v) as [ch|] eqn:Ech; [|apply IH; assumption].
  destruct (mem ch acc) eqn:Em; [apply IH; assumption|].
  apply ub_guard.
  - pose proof (NoDup_incl_length Hnd Hin) as Hl. simpl in Hl. apply Nat.ltb_lt. lia.
  - apply IH.
    + apply NoDup_snoc; [exact Hnd|].
      intros Hx. unfold mem in Em. rewrite <- not_true_iff_false in Em. apply Em.
      apply existsb_exists. exists ch. split; [exact Hx|apply N.eqb_refl].
    + apply incl_app; [exact Hin|]. intros x [<-|[]]. destruct (lookup_char_vals _ _ Ech) as [->| ->]; simpl; auto.
Qed.

Lemma ub_config_lookup cfg buf seps : ub_only_overflow (config_lookup cfg buf seps).
Proof.
  unfold config_lookup. destruct (buf_split_str seps true false false 0 buf); try apply ub_ok.
  apply ub_bind; [apply lookup_fold_ub; [constructor|intros x []]|]. intros ls. destruct ls; apply ub_ok.
Qed.

Lemma ub_config_search cfg s n : ub_only_overflow (config_search cfg s n).
Proof. unfold config_search. repeat ub_step. Qed.

Lemma ub_process_option cfg o : ub_only_overflow (process_option cfg o).
Proof. unfold process_option. apply ub_bind; [apply ub_buf_split_str|]. intros kv. repeat ub_step. Qed.

Lemma ub_set_options_loop opts : forall cfg, ub_only_overflow (set_options_loop cfg opts).
Proof.
  induction opts as [|o r IH]; intros cfg; simpl; [apply ub_ok|].
  pose proof (ub_process_option cfg o) as H. destruct (process_option cfg o) as [c'|s|k]; [apply IH| |].
  - destruct (s =? ARES_ENOMEM)%Z; [apply ub_err|apply IH].
  - rewrite (H k eq_refl). apply ub_ub.
Qed.

Lemma ub_set_options cfg s : ub_only_overflow (set_options cfg s).
Proof. unfold set_options. destruct s; [apply ub_err|apply ub_set_options_loop]. Qed.

Lemma ub_init_by_environment cfg l r : ub_only_overflow (init_by_environment cfg l r).
Proof.
  unfold init_by_environment. apply ub_bind.
  - destruct l; [apply ub_config_search|apply ub_ok].
  - intros c. destruct r; [apply ub_set_options|apply ub_ok].
Qed.

#[local] Hint Resolve ub_config_lookup ub_config_search ub_set_options ub_init_by_environment : ub.

Section WithNet.
Variable nf : netfns.

Lemma ub_parse_sort e : ub_only_overflow (parse_sort nf e).
Proof.
  unfold parse_sort.
  repeat first [ub_step | apply ub_fetch_string | apply ub_atoi].
Qed.

Lemma ub_parse_sort_entries es : forall acc, ub_only_overflow (parse_sort_entries nf es acc).
Proof.
  induction es as [|e r IH]; intros acc; simpl; [apply ub_ok|].
  pose proof (ub_parse_sort e) as H. destruct (parse_sort nf e) as [p|s|k]; [apply IH| |].
  - destruct (s =? ARES_ENOTFOUND)%Z; [apply IH|apply ub_err].
  - rewrite (H k eq_refl). apply ub_ub.
Qed.

Lemma ub_parse_sortlist s : ub_only_overflow (parse_sortlist nf s).
Proof. unfold parse_sortlist. destruct s; [apply ub_err|apply ub_parse_sort_entries]. Qed.

Definition uri_ub_only_overflow (r : uri_res) : Prop := forall k, r = UriUB k -> k = SignedOverflow.

Lemma ub_parse_nameserver_uri e : uri_ub_only_overflow (parse_nameserver_uri nf e).
Proof.
  unfold parse_nameserver_uri, uri_ub_only_overflow. intros k.
  repeat match goal with
         | |- context [match ?x with _ => _ end] =>
           match x with
           | atoi ?v => let H := fresh "H" in pose proof (ub_atoi v) as H; destruct (atoi v) eqn:?
           | _ => destruct x eqn:?
           end
         end; intros Hk; try discriminate.
  inversion Hk; subst. match goal with H : ub_only_overflow (UB _) |- _ => apply H; reflexivity end.
Qed.

Lemma ub_parse_nameserver e : ub_only_overflow (parse_nameserver nf e).
Proof.
  unfold parse_nameserver.
  repeat first [ub_step | apply ub_fetch_string | apply ub_atoi].
Qed.

Lemma ub_sconfig_linklocal ifs i : ub_only_overflow (sconfig_linklocal ifs i).
Proof. unfold sconfig_linklocal. repeat first [ub_step | apply ub_atoi]. Qed.

Lemma ub_sconfig_append ifs l a u t i : ub_only_overflow (sconfig_append ifs l a u t i).
Proof. unfold sconfig_append. repeat first [ub_step | apply ub_sconfig_linklocal]. Qed.

Lemma ub_append_entries ifs ign es : forall l, ub_only_overflow (append_entries nf ifs ign es l).
Proof.
  induction es as [|e r IH]; intros l; simpl; [apply ub_ok|].
  pose proof (ub_parse_nameserver_uri e) as Hu. destruct (parse_nameserver_uri nf e) as [s| | |k].
  - apply ub_bind; [apply ub_sconfig_append|]. intros l'. apply IH.
  - pose proof (ub_parse_nameserver e) as Hn. destruct (parse_nameserver nf e) as [s|st|k].
    + apply ub_bind; [apply ub_sconfig_append|]. intros l'. apply IH.
    + destruct ign; [apply IH|apply ub_err].
    + rewrite (Hn k eq_refl). apply ub_ub.
  - apply ub_err.
  - rewrite (Hu k eq_refl). apply ub_ub.
Qed.

Lemma ub_sconfig_append_fromstr ifs l s ign : ub_only_overflow (sconfig_append_fromstr nf ifs l s ign).
Proof. unfold sconfig_append_fromstr. destruct s; [apply ub_err|apply ub_append_entries]. Qed.

Lemma ub_resolv_dispatch fx ifs cfg o r v : ub_only_overflow (resolv_dispatch nf fx ifs cfg o r v).
Proof.
  unfold resolv_dispatch.
  destruct (kw o k_domain). { destruct (s_domains cfg); [apply ub_config_search|apply ub_ok]. }
  destruct (kw o k_lookup || kw o k_hostresorder). { apply ub_config_lookup. }
  destruct (kw o k_search). { apply ub_config_search. }
  destruct (kw o k_nameserver).
  { pose proof (ub_sconfig_append_fromstr ifs (s_sconfig cfg) v true) as H.
    destruct (sconfig_append_fromstr nf ifs (s_sconfig cfg) v true); [apply ub_ok|apply ub_err|].
    rewrite (H k eq_refl). apply ub_ub. }
  destruct (kw o k_sortlist).
  { pose proof (ub_parse_sortlist v) as H.
    destruct (parse_sortlist nf v) as [l|s|k].
    - destruct l; apply ub_ok.
    - destruct (s =? ARES_ENOMEM)%Z; [apply ub_err|apply ub_ok].
    - rewrite (H k eq_refl). apply ub_ub. }
  destruct (kw o k_options); [apply ub_set_options|apply ub_ok].
Qed.

Theorem ub_parse_resolv_line fx ifs cfg l : ub_only_overflow (parse_resolv_line_gen nf fx ifs cfg l).
Proof.
  unfold parse_resolv_line_gen. destruct l as [|c r]; [apply ub_ok|].
  destruct ((c =? ch_hash) || (c =? ch_semi)); [apply ub_ok|].
  cbv zeta.
  destruct (fst (span (fun c0 => negb (isspace c0)) (c :: r))) as [|k0 k]; [apply ub_ok|].
  destruct (fetch_string 32 (k0 :: k)) as [o| |]; try apply ub_ok.
  destruct (fetch_string 512 _) as [v0| |]; try apply ub_ok.
  destruct (str_trim v0); [apply ub_ok|apply ub_resolv_dispatch].
Qed.

Lemma ub_parse_db_line d seps cfg l : ub_only_overflow (parse_db_line d seps cfg l).
Proof.
  unfold parse_db_line. destruct l as [|c r]; [apply ub_ok|].
  destruct (c =? ch_hash); [apply ub_ok|].
  destruct (buf_split [d] true false false 2 (c :: r)) as [|a [|b [|x y]]]; try apply ub_ok.
  destruct (fetch_string 32 a) as [o| |]; try apply ub_ok. destruct (kw o k_hosts); [apply ub_config_lookup|apply ub_ok].
Qed.

Lemma ub_process_lines cb : (forall c l, ub_only_overflow (cb c l)) -> forall ls cfg, ub_only_overflow (process_lines cb cfg ls).
Proof.
  intros Hcb. induction ls as [|l r IH]; intros cfg; simpl; [apply ub_ok|].
  apply ub_bind; [apply Hcb|]. intros c. apply IH.
Qed.

Lemma ub_process_file cb : (forall c l, ub_only_overflow (cb c l)) -> forall cfg f, ub_only_overflow (process_file cb cfg f).
Proof. intros Hcb cfg [content|]; [apply ub_process_lines; exact Hcb|apply ub_ok]. Qed.

Theorem ub_init_sysconfig_files ifs cfg fs : ub_only_overflow (init_sysconfig_files nf ifs cfg fs).
Proof.
  unfold init_sysconfig_files.
  apply ub_bind; [apply ub_process_file; intros; apply ub_parse_resolv_line|]. intros c1.
  apply ub_bind; [apply ub_process_file; intros; apply ub_parse_db_line|]. intros c2.
  apply ub_bind; [apply ub_process_file; intros; apply ub_parse_db_line|]. intros c3.
  apply ub_process_file; intros; apply ub_parse_db_line.
Qed.

(* everything ares_init_by_sysconfig reads: files, then environment *)
Theorem ub_read_sysconfig ifs e : ub_only_overflow (read_sysconfig nf ifs e).
Proof.
  unfold read_sysconfig. apply ub_bind; [apply ub_init_sysconfig_files|]. intros s. apply ub_init_by_environment.
Qed.

End WithNet.
