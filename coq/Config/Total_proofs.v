(* C15_total: on every byte string the configuration parsers return Ok or Err, never a C
   undefined behaviour: no write past char lookupstr[32], no read or write past any of the
   fixed-size string buffers (those are length-checked by fetch_string, which fails instead), and
   every atoi() call is on a digit string of at most 9 digits (fixes/C15-bounded-atoi.patch). *)
From CAres.Config Require Import Spec Lines_proofs.
From CAres.Gen Require Import Consts.
Local Open Scope N_scope.

Definition no_ub {A} (m : outcome A) : Prop := forall k, m <> UB k.

Lemma ub_ok {A} (a : A) : no_ub (Ok a).
Proof. intros k H; discriminate. Qed.
Lemma ub_err {A} s : no_ub (@Err A s).
Proof. intros k H; discriminate. Qed.
Lemma ub_bind {A B} (m : outcome A) (f : A -> outcome B) :
  no_ub m -> (forall a, no_ub (f a)) -> no_ub (bind m f).
Proof. intros Hm Hf k. destruct m as [a|s|k']; simpl; intros H; [eapply Hf; eauto|discriminate|exact (Hm k' eq_refl)]. Qed.
Lemma ub_guard {A} b k0 (m : outcome A) : b = true -> no_ub m -> no_ub (guard b k0 m).
Proof. intros -> H. exact H. Qed.

#[local] Hint Resolve ub_ok ub_err : ub.

Ltac ub_step :=
  match goal with
  | |- no_ub (Ok _) => apply ub_ok
  | |- no_ub (Err _) => apply ub_err
  | |- no_ub (bind _ _) => apply ub_bind; [|intros]
  | |- no_ub (if ?b then _ else _) => destruct b
  | |- no_ub (match ?x with _ => _ end) => destruct x
  | |- no_ub (let (_, _) := ?p in _) => destruct p
  end.

(* atoi on a digit string of at most 9 digits *)
Lemma ub_atoi s : forallb isdigit s = true -> (length s <= 9)%nat -> no_ub (atoi s).
Proof. intros H L. destruct (atoi_digits s H L) as [-> _]. apply ub_ok. Qed.

Lemma str_isnum_digits s : str_isnum s = true -> forallb isdigit s = true.
Proof. unfold str_isnum. intros H. apply andb_true_iff in H as [_ H]. exact H. Qed.

Ltac ub_len :=
  match goal with
  | H : (_ <? length ?s)%nat = false |- (length ?s <= 9)%nat => apply Nat.ltb_ge in H; lia
  end.

(* like ub_step but keeps the equations, and knows the guarded atoi calls *)
Ltac ub_step_eq :=
  match goal with
  | |- no_ub (Ok _) => apply ub_ok
  | |- no_ub (Err _) => apply ub_err
  | |- no_ub (bind (atoi ?s) _) =>
    apply ub_bind; [apply ub_atoi; [first [assumption | apply str_isnum_digits; assumption] | ub_len] | intros]
  | |- no_ub (bind _ _) => apply ub_bind; [|intros]
  | |- no_ub (if ?b then _ else _) => destruct b eqn:?
  | |- no_ub (match ?x with _ => _ end) => destruct x eqn:?
  | |- no_ub (let (_, _) := ?p in _) => destruct p eqn:?
  end.

Lemma ub_fetch_atoi {A} n ds (f : bytes -> Z -> outcome A) :
  forallb isdigit ds = true -> (n <= 10)%nat -> (forall ps p, no_ub (f ps p)) ->
  no_ub (do ps <- fetch_string n ds; do p <- atoi ps; f ps p).
Proof.
  intros Hd Hn Hf. unfold fetch_string. destruct (Nat.ltb_spec (n - 1) (length ds)); [apply ub_err|].
  destruct (forallb isprint ds); [|apply ub_err]. cbn [bind].
  apply ub_bind; [apply ub_atoi; [exact Hd|lia]|]. intros p. apply Hf.
Qed.

Lemma ub_fetch_string n s : no_ub (fetch_string n s).
Proof. unfold fetch_string. repeat ub_step. Qed.

Lemma ub_buf_split_str d t n c m l : no_ub (buf_split_str d t n c m l).
Proof. unfold buf_split_str. repeat ub_step. Qed.

#[local] Hint Resolve ub_fetch_string ub_buf_split_str : ub.

(* ---- config_lookup: the lookupstr[32] writes ---- *)
Lemma lookup_char_vals v ch : lookup_char v = Some ch -> ch = 98 \/ ch = 102.
Proof. unfold lookup_char. repeat match goal with |- context [if ?b then _ else _] => destruct b end; intros H; inversion H; auto. Qed.

Lemma NoDup_snoc {A} (l : list A) x : NoDup l -> ~ In x l -> NoDup (l ++ [x]).
Proof.
  induction l as [|y l IH]; intros Hnd Hx; simpl.
  - constructor; [intros []|constructor].
  - inversion Hnd; subst. constructor.
    + intros Hin. apply in_app_or in Hin as [Hin|[<-|[]]]; [contradiction|]. apply Hx. left. reflexivity.
    + apply IH; [assumption|]. intros Hin. apply Hx. right. exact Hin.
Qed.

Lemma lookup_fold_ub vals : forall acc,
  NoDup acc -> incl acc [98; 102] -> no_ub (lookup_fold vals acc).
Proof.
  induction vals as [|v r IH]; intros acc Hnd Hin; simpl; [apply ub_ok|].
  destruct (lookup_char v) as [ch|] eqn:Ech; [|apply IH; assumption].
  destruct (mem ch acc) eqn:Em; [apply IH; assumption|].
  apply ub_guard.
  - pose proof (NoDup_incl_length Hnd Hin) as Hl. simpl in Hl. apply Nat.ltb_lt. lia.
  - apply IH.
    + apply NoDup_snoc; [exact Hnd|].
      intros Hx. unfold mem in Em. rewrite <- not_true_iff_false in Em. apply Em.
      apply existsb_exists. exists ch. split; [exact Hx|apply N.eqb_refl].
    + apply incl_app; [exact Hin|]. intros x [<-|[]]. destruct (lookup_char_vals _ _ Ech) as [->| ->]; simpl; auto.
Qed.

Lemma ub_config_lookup cfg buf seps : no_ub (config_lookup cfg buf seps).
Proof.
  unfold config_lookup. destruct (buf_split_str seps true false false 0 buf); try apply ub_ok.
  apply ub_bind; [apply lookup_fold_ub; [constructor|intros x []]|]. intros ls. destruct ls; apply ub_ok.
Qed.

Lemma ub_config_search cfg s n : no_ub (config_search cfg s n).
Proof. unfold config_search. repeat ub_step. Qed.

Lemma ub_process_option cfg o : no_ub (process_option cfg o).
Proof. unfold process_option. apply ub_bind; [apply ub_buf_split_str|]. intros kv. repeat ub_step. Qed.

Lemma ub_set_options_loop opts : forall cfg, no_ub (set_options_loop cfg opts).
Proof.
  induction opts as [|o r IH]; intros cfg; simpl; [apply ub_ok|].
  pose proof (ub_process_option cfg o) as H. destruct (process_option cfg o) as [c'|s|k]; [apply IH| |].
  - destruct (s =? ARES_ENOMEM)%Z; [apply ub_err|apply IH].
  - exfalso. exact (H k eq_refl).
Qed.

Lemma ub_set_options cfg s : no_ub (set_options cfg s).
Proof. unfold set_options. destruct s; [apply ub_ok|apply ub_set_options_loop]. Qed.

Lemma ub_init_by_environment cfg l r : no_ub (init_by_environment cfg l r).
Proof.
  unfold init_by_environment. apply ub_bind.
  - destruct l; [apply ub_config_search|apply ub_ok].
  - intros c. destruct r; [apply ub_set_options|apply ub_ok].
Qed.

#[local] Hint Resolve ub_config_lookup ub_config_search ub_set_options ub_init_by_environment : ub.

Section WithNet.
Variable nf : netfns.

Lemma ub_parse_sort e : no_ub (parse_sort nf e).
Proof.
  unfold parse_sort.
  repeat first [ub_step_eq | apply ub_fetch_string].
Qed.

Lemma ub_parse_sort_entries es : forall acc, no_ub (parse_sort_entries nf es acc).
Proof.
  induction es as [|e r IH]; intros acc; simpl; [apply ub_ok|].
  pose proof (ub_parse_sort e) as H. destruct (parse_sort nf e) as [p|s|k]; [apply IH| |].
  - destruct (s =? ARES_ENOTFOUND)%Z; [apply IH|apply ub_err].
  - exfalso. exact (H k eq_refl).
Qed.

Lemma ub_parse_sortlist s : no_ub (parse_sortlist nf s).
Proof. unfold parse_sortlist. destruct s; [apply ub_err|apply ub_parse_sort_entries]. Qed.

Definition uri_no_ub (r : uri_res) : Prop := forall k, r <> UriUB k.

Lemma ub_parse_nameserver_uri e : uri_no_ub (parse_nameserver_uri nf e).
Proof.
  unfold parse_nameserver_uri, uri_no_ub. intros k.
  repeat match goal with
         | |- context [match ?x with _ => _ end] =>
           match x with
           | atoi ?v => fail 1
           | _ => destruct x eqn:?
           end
         | |- context [if ?b then _ else _] => destruct b eqn:?
         end; try discriminate.
  all: match goal with H : negb (str_isnum ?v) || (5 <? length ?v)%nat = false |- _ =>
    let H1 := fresh in let H2 := fresh in
    apply orb_false_iff in H as [H1 H2]; apply negb_false_iff in H1; apply Nat.ltb_ge in H2;
    destruct (atoi_digits v (str_isnum_digits v H1) ltac:(lia)) as [-> _] end.
  all: try match goal with |- context [if ?b then _ else _] => destruct b end; discriminate.
Qed.

Lemma ub_parse_nameserver e : no_ub (parse_nameserver nf e).
Proof.
  unfold parse_nameserver.
  apply ub_bind; [repeat first [ub_step_eq | apply ub_fetch_string]|]. intros ipr. cbv zeta.
  destruct (nf_pton nf (fst ipr)); [|apply ub_err].
  apply ub_bind.
  { destruct (match snd ipr with c :: _ => c =? ch_colon | [] => false end); [|apply ub_ok]. cbv zeta.
    destruct (fst (span isdigit (tl (snd ipr)))) as [|d0 dr] eqn:Ed; [apply ub_err|].
    apply (ub_fetch_atoi 6 (d0 :: dr) (fun _ p => if (65535 <? p)%Z then Err ARES_EBADSTR else Ok (p, snd (span isdigit (tl (snd ipr))))));
      [|lia|intros ps p; destruct (65535 <? p)%Z; [apply ub_err|apply ub_ok]].
    rewrite <- Ed. apply span_fst_forall. }
  intros pr. cbv zeta.
  apply ub_bind; [repeat first [ub_step_eq | apply ub_fetch_string]|]. intros ir.
  repeat ub_step_eq.
Qed.

Lemma ub_sconfig_linklocal ifs i : no_ub (sconfig_linklocal ifs i).
Proof. unfold sconfig_linklocal. repeat ub_step_eq. Qed.

Lemma ub_sconfig_append ifs l a u t i : no_ub (sconfig_append ifs l a u t i).
Proof. unfold sconfig_append. repeat first [ub_step | apply ub_sconfig_linklocal]. Qed.

Lemma ub_append_entries ifs ign es : forall l, no_ub (append_entries nf ifs ign es l).
Proof.
  induction es as [|e r IH]; intros l; simpl; [apply ub_ok|].
  pose proof (ub_parse_nameserver_uri e) as Hu. destruct (parse_nameserver_uri nf e) as [s| | |k].
  - apply ub_bind; [apply ub_sconfig_append|]. intros l'. apply IH.
  - pose proof (ub_parse_nameserver e) as Hn. destruct (parse_nameserver nf e) as [s|st|k].
    + apply ub_bind; [apply ub_sconfig_append|]. intros l'. apply IH.
    + destruct ign; [apply IH|apply ub_err].
    + exfalso. exact (Hn k eq_refl).
  - apply ub_err.
  - exfalso. exact (Hu k eq_refl).
Qed.

Lemma ub_sconfig_append_fromstr ifs l s ign : no_ub (sconfig_append_fromstr nf ifs l s ign).
Proof. unfold sconfig_append_fromstr. destruct s; [apply ub_err|apply ub_append_entries]. Qed.

Lemma ub_resolv_dispatch fx ifs cfg o r v : no_ub (resolv_dispatch nf fx ifs cfg o r v).
Proof.
  unfold resolv_dispatch.
  destruct (kw o k_domain). { destruct (s_domains cfg); [apply ub_config_search|apply ub_ok]. }
  destruct (kw o k_lookup || kw o k_hostresorder). { apply ub_config_lookup. }
  destruct (kw o k_search). { apply ub_config_search. }
  destruct (kw o k_nameserver).
  { pose proof (ub_sconfig_append_fromstr ifs (s_sconfig cfg) v true) as H.
    destruct (sconfig_append_fromstr nf ifs (s_sconfig cfg) v true); [apply ub_ok|apply ub_err|].
    exfalso. exact (H k eq_refl). }
  destruct (kw o k_sortlist).
  { pose proof (ub_parse_sortlist v) as H.
    destruct (parse_sortlist nf v) as [l|s|k].
    - destruct l; apply ub_ok.
    - destruct (s =? ARES_ENOMEM)%Z; [apply ub_err|apply ub_ok].
    - exfalso. exact (H k eq_refl). }
  destruct (kw o k_options); [apply ub_set_options|apply ub_ok].
Qed.

Theorem ub_parse_resolv_line fx ifs cfg l : no_ub (parse_resolv_line_gen nf fx ifs cfg l).
Proof.
  unfold parse_resolv_line_gen. destruct l as [|c r]; [apply ub_ok|].
  destruct ((c =? ch_hash) || (c =? ch_semi)); [apply ub_ok|].
  cbv zeta.
  destruct (fst (span (fun c0 => negb (isspace c0)) (c :: r))) as [|k0 k]; [apply ub_ok|].
  destruct (fetch_string 32 (k0 :: k)) as [o| |]; try apply ub_ok.
  destruct (fetch_string 512 _) as [v0| |]; try apply ub_ok.
  destruct (str_trim v0); [apply ub_ok|apply ub_resolv_dispatch].
Qed.

Lemma ub_parse_db_line d seps cfg l : no_ub (parse_db_line d seps cfg l).
Proof.
  unfold parse_db_line. destruct l as [|c r]; [apply ub_ok|].
  destruct (c =? ch_hash); [apply ub_ok|].
  destruct (buf_split [d] true false false 2 (c :: r)) as [|a [|b [|x y]]]; try apply ub_ok.
  destruct (fetch_string 32 a) as [o| |]; try apply ub_ok. destruct (kw o k_hosts); [apply ub_config_lookup|apply ub_ok].
Qed.

Lemma ub_process_lines cb : (forall c l, no_ub (cb c l)) -> forall ls cfg, no_ub (process_lines cb cfg ls).
Proof.
  intros Hcb. induction ls as [|l r IH]; intros cfg; simpl; [apply ub_ok|].
  apply ub_bind; [apply Hcb|]. intros c. apply IH.
Qed.

Lemma ub_process_file cb : (forall c l, no_ub (cb c l)) -> forall cfg f, no_ub (process_file cb cfg f).
Proof. intros Hcb cfg [content|]; [apply ub_process_lines; exact Hcb|apply ub_ok]. Qed.

Theorem ub_init_sysconfig_files ifs cfg fs : no_ub (init_sysconfig_files nf ifs cfg fs).
Proof.
  unfold init_sysconfig_files.
  apply ub_bind; [apply ub_process_file; intros; apply ub_parse_resolv_line|]. intros c1.
  apply ub_bind; [apply ub_process_file; intros; apply ub_parse_db_line|]. intros c2.
  apply ub_bind; [apply ub_process_file; intros; apply ub_parse_db_line|]. intros c3.
  apply ub_process_file; intros; apply ub_parse_db_line.
Qed.

(* everything ares_init_by_sysconfig reads: files, then environment *)
Theorem ub_read_sysconfig ifs e : no_ub (read_sysconfig nf ifs e).
Proof.
  unfold read_sysconfig. apply ub_bind; [apply ub_init_sysconfig_files|]. intros s. apply ub_init_by_environment.
Qed.

End WithNet.
