(* Proofs about the configuration text parsers (C15). *)
From CAres.Config Require Import Spec.
From CAres.Gen Require Import Consts.
Local Open Scope N_scope.

(* ------------------------------------------------------------------ small facts *)
Lemma fetch_string_ok n s s' : fetch_string n s = Ok s' -> s' = s /\ forallb isprint s = true /\ (length s <= n - 1)%nat.
Proof.
  unfold fetch_string. destruct (Nat.ltb_spec (n - 1) (length s)); [discriminate|].
  destruct (forallb isprint s) eqn:E; [|discriminate]. intros H0; inversion H0; subst. repeat split; auto.
Qed.

Lemma fetch_string_unprintable n s : forallb isprint s = false -> forall s', fetch_string n s <> Ok s'.
Proof. intros H s' E. apply fetch_string_ok in E as (_ & E & _). congruence. Qed.

Lemma fetch_string_long n s : (n <= length s)%nat -> (0 < n)%nat -> forall s', fetch_string n s <> Ok s'.
Proof. intros H H0 s' E. apply fetch_string_ok in E as (_ & _ & E). lia. Qed.

Lemma span_fst_head p c r : p c = false -> span p (c :: r) = ([], c :: r).
Proof. intros H; simpl; rewrite H; reflexivity. Qed.

Lemma dropwhile_head p c r : p c = false -> dropwhile p (c :: r) = c :: r.
Proof. intros H; unfold dropwhile; rewrite span_fst_head; auto. Qed.

Lemma mem_digits_dot_ipcharset c : mem c s_digits_dot = true -> mem c s_ipcharset = true.
Proof.
  unfold mem, s_digits_dot, s_ipcharset. simpl. rewrite !orb_false_r. rewrite !orb_true_iff. intuition.
Qed.

Lemma forallb_impl_l {A} (p q : A -> bool) l : (forall x, p x = true -> q x = true) -> forallb p l = true -> forallb q l = true.
Proof. intros H. induction l; cbn [forallb]; [auto|]. intros E. apply andb_true_iff in E as [E1 E2]. rewrite (H _ E1), IHl; auto. Qed.

Lemma set_sconfig_same cfg : set_sconfig cfg (s_sconfig cfg) = cfg.
Proof. destruct cfg; reflexivity. Qed.

(* ------------------------------------------------------------------ splitting without delimiter *)
Lemma split_go_nodelim delims trim max l : forall cur acc,
  forallb (fun c => negb (mem c delims)) l = true ->
  split_go delims trim false false max l cur acc = sec_add trim false false acc (rev cur ++ l).
Proof.
  induction l as [|c r IH]; intros cur acc H; simpl.
  - rewrite app_nil_r. rewrite frev_rev. reflexivity.
  - simpl in H. apply andb_true_iff in H as [Hc Hr]. apply negb_true_iff in Hc. rewrite Hc.
    destruct (negb (max =? 0)%nat && (max - 1 <=? length acc)%nat); rewrite IH by exact Hr;
      simpl; rewrite <- app_assoc; reflexivity.
Qed.

Section WithNet.
Variable nf : netfns.

(* ------------------------------------------------------------------ the line handler, unfolded *)
Lemma resolv_line_unfold fx ifs cfg c r :
  (c =? ch_hash) || (c =? ch_semi) = false ->
  parse_resolv_line_gen nf fx ifs cfg (c :: r) =
  match keyword_of (c :: r) with
  | [] => Ok cfg
  | k => match fetch_string 32 k with
         | Ok o => match fetch_string 512 (rest_of (c :: r)) with
                   | Ok v0 => match str_trim v0 with
                              | [] => Ok cfg
                              | v => resolv_dispatch nf fx ifs cfg o (rest_of (c :: r)) v
                              end
                   | _ => Ok cfg
                   end
         | _ => Ok cfg
         end
  end.
Proof. intros H. unfold parse_resolv_line_gen. rewrite H. reflexivity. Qed.

(* class: comment *)
Lemma junk_comment fx ifs cfg c r :
  (c =? ch_hash) || (c =? ch_semi) = true -> parse_resolv_line_gen nf fx ifs cfg (c :: r) = Ok cfg.
Proof. intros H. unfold parse_resolv_line_gen. rewrite H. reflexivity. Qed.

(* class: bytes outside printable ASCII in the keyword or the value *)
Lemma junk_unprintable fx ifs cfg c r :
  (c =? ch_hash) || (c =? ch_semi) = false ->
  forallb isprint (keyword_of (c :: r)) = false \/ forallb isprint (rest_of (c :: r)) = false ->
  parse_resolv_line_gen nf fx ifs cfg (c :: r) = Ok cfg.
Proof.
  intros Hc H. rewrite resolv_line_unfold by exact Hc.
  destruct (keyword_of (c :: r)) as [|k0 k] eqn:Ek; [reflexivity|].
  destruct (fetch_string 32 (k0 :: k)) as [o| |] eqn:E1; try reflexivity.
  destruct (fetch_string 512 (rest_of (c :: r))) as [v0| |] eqn:E2; try reflexivity.
  apply fetch_string_ok in E1 as (_ & E1 & _). apply fetch_string_ok in E2 as (_ & E2 & _).
  destruct H; congruence.
Qed.

(* class: value of 512 bytes or more *)
Lemma junk_overlong fx ifs cfg c r :
  (c =? ch_hash) || (c =? ch_semi) = false -> (512 <= length (rest_of (c :: r)))%nat ->
  parse_resolv_line_gen nf fx ifs cfg (c :: r) = Ok cfg.
Proof.
  intros Hc H. rewrite resolv_line_unfold by exact Hc.
  destruct (keyword_of (c :: r)) as [|k0 k]; [reflexivity|].
  destruct (fetch_string 32 (k0 :: k)) as [o| |]; try reflexivity.
  destruct (fetch_string 512 (rest_of (c :: r))) as [v0| |] eqn:E2; try reflexivity.
  apply fetch_string_ok in E2 as (_ & _ & E2). simpl in E2. lia.
Qed.

(* class: keyword without argument *)
Lemma junk_noarg fx ifs cfg c r :
  (c =? ch_hash) || (c =? ch_semi) = false -> arg_of (c :: r) = [] ->
  parse_resolv_line_gen nf fx ifs cfg (c :: r) = Ok cfg.
Proof.
  intros Hc H. rewrite resolv_line_unfold by exact Hc.
  destruct (keyword_of (c :: r)) as [|k0 k]; [reflexivity|].
  destruct (fetch_string 32 (k0 :: k)) as [o| |]; try reflexivity.
  destruct (fetch_string 512 (rest_of (c :: r))) as [v0| |] eqn:E2; try reflexivity.
  apply fetch_string_ok in E2 as (-> & _ & _). unfold arg_of in H. rewrite H. reflexivity.
Qed.

(* class: unknown keyword *)
Lemma dispatch_unknown fx ifs cfg o rest1 v :
  existsb (bytes_eqb o) known_keywords = false -> resolv_dispatch nf fx ifs cfg o rest1 v = Ok cfg.
Proof.
  unfold known_keywords. cbn [existsb]. rewrite !orb_false_r. intros H.
  repeat (apply orb_false_iff in H as [? H]).
  unfold resolv_dispatch, kw.
  repeat match goal with Hx : bytes_eqb o _ = false |- _ => rewrite Hx; clear Hx end.
  reflexivity.
Qed.

Lemma junk_unknown_keyword fx ifs cfg c r :
  (c =? ch_hash) || (c =? ch_semi) = false ->
  existsb (bytes_eqb (keyword_of (c :: r))) known_keywords = false ->
  parse_resolv_line_gen nf fx ifs cfg (c :: r) = Ok cfg.
Proof.
  intros Hc H. rewrite resolv_line_unfold by exact Hc.
  destruct (keyword_of (c :: r)) as [|k0 k] eqn:Ek; [reflexivity|].
  destruct (fetch_string 32 (k0 :: k)) as [o| |] eqn:E1; try reflexivity.
  apply fetch_string_ok in E1 as (-> & _ & _).
  destruct (fetch_string 512 (rest_of (c :: r))) as [v0| |]; try reflexivity.
  destruct (str_trim v0); [reflexivity|]. apply dispatch_unknown. exact H.
Qed.

(* a known keyword selects its branch *)
Lemma keyword_is fx ifs cfg c r k :
  (c =? ch_hash) || (c =? ch_semi) = false -> keyword_of (c :: r) = k ->
  forall v0 v1 vr, fetch_string 512 (rest_of (c :: r)) = Ok v0 -> str_trim v0 = v1 :: vr ->
  forall o, fetch_string 32 k = Ok o ->
  parse_resolv_line_gen nf fx ifs cfg (c :: r) = resolv_dispatch nf fx ifs cfg k (rest_of (c :: r)) (v1 :: vr).
Proof.
  intros Hc Hk v0 v1 vr E2 Ev o E1. rewrite resolv_line_unfold by exact Hc. rewrite Hk.
  pose proof (fetch_string_ok _ _ _ E1) as (-> & _ & _).
  destruct k as [|k0 k']; [|rewrite E1, E2, Ev; reflexivity].
  (* an empty keyword cannot happen for a line that starts with a non-blank byte; either way *)
  unfold resolv_dispatch. reflexivity.
Qed.

(* ------------------------------------------------------------------ nameserver tokens *)
Lemma parse_nameserver_bad_start e :
  cannot_start_server e = true -> e <> [] -> exists st, parse_nameserver nf e = Err st.
Proof.
  destruct e as [|c r]; [congruence|]. intros H _. unfold cannot_start_server in H.
  apply andb_true_iff in H as [H _]. apply negb_true_iff in H.
  apply orb_false_iff in H as [H Hsp]. apply orb_false_iff in H as [Hip Hbr].
  unfold parse_nameserver. rewrite (dropwhile_head isspace c r Hsp). cbn [tl]. rewrite Hbr.
  assert (mem c s_digits_dot = false) as Hdd.
  { destruct (mem c s_digits_dot) eqn:E; [|reflexivity]. apply mem_digits_dot_ipcharset in E. congruence. }
  destruct (match index_of ch_dot (c :: r) with Some o => (0 <? o)%nat && (o <? 4)%nat | None => false end).
  - rewrite (span_fst_head _ c r Hdd). simpl. eauto.
  - rewrite (span_fst_head _ c r Hip). simpl. eauto.
Qed.

Lemma parse_uri_no_scheme e : find_seq s_scheme_sep e = None -> parse_nameserver_uri nf e = UriFail.
Proof. intros H. unfold parse_nameserver_uri. rewrite H. reflexivity. Qed.

Lemma cannot_start_no_scheme e : cannot_start_server e = true -> e <> [] -> find_seq s_scheme_sep e = None.
Proof.
  destruct e as [|c r]; [congruence|]. intros H _. unfold cannot_start_server in H. apply andb_true_iff in H as [_ H].
  destruct (find_seq s_scheme_sep (c :: r)); [discriminate|reflexivity].
Qed.

Lemma append_entries_all_bad ifs es l :
  forallb cannot_start_server es = true -> Forall (fun e => e <> []) es ->
  append_entries nf ifs true es l = Ok l.
Proof.
  induction es as [|e r IH]; intros H Hne; simpl; [reflexivity|].
  simpl in H. apply andb_true_iff in H as [He Hr]. inversion Hne as [|? ? Hne1 Hne2]; subst.
  rewrite (parse_uri_no_scheme e (cannot_start_no_scheme e He Hne1)).
  destruct (parse_nameserver_bad_start e He Hne1) as [st ->]. apply IH; assumption.
Qed.

(* sections produced by ares_buf_split are never empty *)
Lemma sec_add_nonempty trim nodup ci acc raw :
  Forall (fun e => e <> []) acc -> Forall (fun e => e <> []) (sec_add trim nodup ci acc raw).
Proof.
  intros H. unfold sec_add. destruct (sec_trim trim raw) as [|x s] eqn:E; [exact H|].
  destruct (nodup && sec_isdup ci acc (x :: s)); [exact H|].
  apply Forall_app. split; [exact H|]. constructor; [discriminate|constructor].
Qed.

Lemma split_go_nonempty delims trim nodup ci max l : forall cur acc,
  Forall (fun e => e <> []) acc -> Forall (fun e => e <> []) (split_go delims trim nodup ci max l cur acc).
Proof.
  induction l as [|c r IH]; intros cur acc H; simpl.
  - apply sec_add_nonempty; exact H.
  - match goal with |- context [if ?b then _ else _] => destruct b end; [apply IH; exact H|].
    destruct (mem c delims); apply IH; try apply sec_add_nonempty; exact H.
Qed.

Lemma buf_split_nonempty delims trim nodup ci max l :
  Forall (fun e => e <> []) (buf_split delims trim nodup ci max l).
Proof. apply split_go_nonempty. constructor. Qed.

Lemma dispatch_nameserver_junk fx ifs cfg rest1 v1 vr :
  forallb cannot_start_server (tokens s_sep_servers (v1 :: vr)) = true ->
  resolv_dispatch nf fx ifs cfg k_nameserver rest1 (v1 :: vr) = Ok cfg.
Proof.
  intros H. unfold resolv_dispatch, kw. simpl (bytes_eqb k_nameserver _). cbn [orb].
  unfold sconfig_append_fromstr. unfold tokens in H.
  rewrite (append_entries_all_bad ifs _ (s_sconfig cfg) H (buf_split_nonempty _ _ _ _ _ _)).
  rewrite set_sconfig_same. reflexivity.
Qed.

(* ------------------------------------------------------------------ sortlist: first token *)
Lemma parse_sort_bad_start e : cannot_start_pattern e = true -> e <> [] -> parse_sort nf e = Err ARES_EBADSTR.
Proof.
  destruct e as [|c r]; [congruence|]. intros H _. unfold cannot_start_pattern in H. apply negb_true_iff in H.
  apply orb_false_iff in H as [Hip Hsp].
  unfold parse_sort. rewrite (dropwhile_head isspace c r Hsp). rewrite (span_fst_head _ c r Hip). reflexivity.
Qed.

Lemma dispatch_sortlist_junk ifs cfg rest1 v1 vr t ts :
  tokens s_sep_sortlist (v1 :: vr) = t :: ts -> cannot_start_pattern t = true ->
  resolv_dispatch nf true ifs cfg k_sortlist rest1 (v1 :: vr) = Ok cfg.
Proof.
  intros Ht Hbad. unfold resolv_dispatch, kw. simpl (bytes_eqb k_sortlist _). cbn [orb].
  unfold parse_sortlist. unfold tokens in Ht. rewrite Ht. simpl.
  assert (t <> []) as Hne.
  { pose proof (buf_split_nonempty s_sep_sortlist false false false 0 (v1 :: vr)) as F. rewrite Ht in F. inversion F; assumption. }
  rewrite (parse_sort_bad_start t Hbad Hne). reflexivity.
Qed.

(* ------------------------------------------------------------------ sortlist: prefix length out of range *)
(* parse_sort never reports ENOMEM (or "success" as an error) and never has undefined behaviour *)
Definition soft_err (s : Z) : Prop := s <> ARES_ENOMEM /\ s <> ARES_SUCCESS.

Lemma soft_badstr : soft_err ARES_EBADSTR. Proof. split; discriminate. Qed.
Lemma soft_notfound : soft_err ARES_ENOTFOUND. Proof. split; discriminate. Qed.

Lemma fetch_string_res n s : (fetch_string n s = Ok s) \/ (exists e, fetch_string n s = Err e /\ soft_err e /\ e <> ARES_ENOTFOUND).
Proof.
  unfold fetch_string. destruct (n - 1 <? length s)%nat; [right; eexists; repeat split; try reflexivity; discriminate|].
  destruct (forallb isprint s); [left; reflexivity|right; eexists; repeat split; try reflexivity; discriminate].
Qed.

Lemma parse_sort_res e :
  match parse_sort nf e with Ok _ => True | Err s => soft_err s | UB _ => False end.
Proof.
  unfold parse_sort. destruct (dropwhile isspace e) as [|b0 br]; [exact soft_notfound|].
  destruct (span (fun c => mem c s_ipcharset) (b0 :: br)) as [ip rest].
  destruct ip as [|i0 ir]; [exact soft_badstr|].
  destruct (fetch_string_res 46 (i0 :: ir)) as [->|(x & -> & Hx & _)]; [|exact Hx]. cbn [bind].
  destruct (nf_pton nf (i0 :: ir)) as [a|]; [|exact soft_badstr].
  assert (forall (res : outcome (Z * bytes)),
            match res with Ok _ => True | Err s => soft_err s | UB _ => False end ->
            match (do res0 <- res; let '(mask, rest2) := res0 in
                   match dropwhile isspace rest2 with [] => Ok (mkApat a (mask mod 256)%Z) | _ => Err ARES_EBADSTR end)
            with Ok _ => True | Err s => soft_err s | UB _ => False end) as K.
  { intros [[m r2]|s|k] H; cbn [bind]; [|exact H|exact H]. destruct (dropwhile isspace r2); [exact I|exact soft_badstr]. }
  apply K. clear K.
  destruct rest as [|c r]; [exact I|]. destruct (c =? ch_slash); [|exact I].
  destruct (span (fun c0 => mem c0 s_digits_dot) r) as [m rest2]. destruct m as [|m0 mr]; [exact soft_badstr|].
  destruct (fetch_string_res 16 (m0 :: mr)) as [->|(x & -> & Hx & _)]; [|exact Hx]. cbn [bind].
  destruct (str_isnum (m0 :: mr)) eqn:En.
  - destruct (Nat.ltb_spec 3 (length (m0 :: mr))) as [|Hl]; [exact soft_badstr|].
    unfold str_isnum in En. apply andb_true_iff in En as [_ En].
    destruct (atoi_digits (m0 :: mr) En) as [-> _]; [lia|]. cbn [bind].
    destruct ((digits_value (m0 :: mr) <? 0)%Z || (128 <? digits_value (m0 :: mr))%Z); [exact soft_badstr|].
    destruct (match a with A4 _ => true | A6 _ => false end && (32 <? digits_value (m0 :: mr))%Z)%bool; [exact soft_badstr|exact I].
  - destruct (nf_pton4 nf (m0 :: mr)); [exact I|exact soft_badstr].
Qed.

Lemma parse_sort_bad_mask t : bad_mask_token t = true ->
  exists s, parse_sort nf t = Err s /\ soft_err s /\ s <> ARES_ENOTFOUND.
Proof.
  assert (soft_err ARES_EBADSTR /\ ARES_EBADSTR <> ARES_ENOTFOUND) as B by (split; [exact soft_badstr|discriminate]).
  unfold bad_mask_token, parse_sort. intros H.
  destruct (dropwhile isspace t) as [|b0 br]; [discriminate|].
  destruct (span (fun c => mem c s_ipcharset) (b0 :: br)) as [ip rest]. cbn [snd] in H.
  destruct ip as [|i0 ir]; [eexists; split; [reflexivity|exact B]|].
  destruct (fetch_string_res 46 (i0 :: ir)) as [->|(x & -> & Hx & Hy)]; [|exists x; auto]. cbn [bind].
  destruct (nf_pton nf (i0 :: ir)) as [a|]; [|eexists; split; [reflexivity|exact B]].
  destruct rest as [|c r]; [discriminate|]. destruct (c =? ch_slash); [|discriminate].
  destruct (span (fun c0 => mem c0 s_digits_dot) r) as [m rest2]. cbn [fst] in H.
  apply andb_true_iff in H as [H Hbig]. apply andb_true_iff in H as [Hd Hne].
  destruct m as [|m0 mr]; [discriminate|].
  destruct (fetch_string_res 16 (m0 :: mr)) as [->|(x & -> & Hx & Hy)]; [|exists x; auto]. cbn [bind].
  assert (str_isnum (m0 :: mr) = true) as -> by (unfold str_isnum; rewrite Hd; reflexivity).
  destruct (Nat.ltb_spec 3 (length (m0 :: mr))) as [|Hl]; [eexists; split; [reflexivity|exact B]|].
  destruct (atoi_digits (m0 :: mr) Hd) as [-> _]; [lia|]. cbn [bind].
  apply orb_true_iff in Hbig as [Hbig|Hbig]; [discriminate|].
  rewrite Hbig, orb_true_r. eexists; split; [reflexivity|exact B].
Qed.

Lemma parse_sort_entries_bad_mask es : forall acc, existsb bad_mask_token es = true ->
  exists s, parse_sort_entries nf es acc = Err s /\ soft_err s.
Proof.
  induction es as [|e r IH]; intros acc H; [discriminate|]. cbn [existsb parse_sort_entries] in *.
  destruct (bad_mask_token e) eqn:Eb.
  - destruct (parse_sort_bad_mask e Eb) as (s & -> & H1 & H2).
    destruct (Z.eqb_spec s ARES_ENOTFOUND); [congruence|]. eauto.
  - cbn [orb] in H. pose proof (parse_sort_res e) as R. destruct (parse_sort nf e) as [p|s|k]; [apply IH; exact H| |contradiction].
    destruct (s =? ARES_ENOTFOUND)%Z; [apply IH; exact H|eauto].
Qed.

(* ares_parse_sortlist (and with it ares_set_sortlist) refuses such a string *)
Lemma parse_sortlist_bad_mask s : sortlist_has_bad_mask s = true ->
  exists st, parse_sortlist nf s = Err st /\ soft_err st.
Proof.
  unfold sortlist_has_bad_mask, tokens, parse_sortlist. intros H. destruct s as [|c r]; [discriminate|].
  apply parse_sort_entries_bad_mask. exact H.
Qed.

Lemma dispatch_sortlist_bad_mask ifs cfg rest1 v1 vr :
  existsb bad_mask_token (tokens s_sep_sortlist (v1 :: vr)) = true ->
  resolv_dispatch nf true ifs cfg k_sortlist rest1 (v1 :: vr) = Ok cfg.
Proof.
  intros H. unfold resolv_dispatch, kw. simpl (bytes_eqb k_sortlist _). cbn [orb].
  unfold parse_sortlist. unfold tokens in H.
  destruct (parse_sort_entries_bad_mask _ [] H) as (s & -> & Hs & _).
  destruct (Z.eqb_spec s ARES_ENOMEM); [congruence|reflexivity].
Qed.

(* ares_set_sortlist with such a string fails and leaves the channel as it was *)
Lemma set_sortlist_bad_mask c s : sortlist_has_bad_mask s = true ->
  exists st, chan_set_sortlist nf c s = Ok (st, c) /\ soft_err st.
Proof.
  intros H. destruct (parse_sortlist_bad_mask s H) as (st & E & Hs). unfold chan_set_sortlist. rewrite E. eauto.
Qed.

Lemma dispatch_sortlist_empty ifs cfg rest1 v1 vr :
  tokens s_sep_sortlist (v1 :: vr) = [] ->
  resolv_dispatch nf true ifs cfg k_sortlist rest1 (v1 :: vr) = Ok cfg.
Proof.
  intros Ht. unfold resolv_dispatch, kw. simpl (bytes_eqb k_sortlist _). cbn [orb].
  unfold parse_sortlist. unfold tokens in Ht. rewrite Ht. reflexivity.
Qed.

(* ------------------------------------------------------------------ options: unknown plain names *)
Lemma process_option_plain cfg t :
  junk_option_plain t = true -> process_option cfg t = Ok cfg \/ exists st, process_option cfg t = Err st /\ st <> ARES_ENOMEM.
Proof.
  unfold junk_option_plain. intros H. apply andb_true_iff in H as [Hc Hk]. apply negb_true_iff in Hc, Hk.
  unfold process_option, buf_split_str, buf_split.
  rewrite split_go_nodelim.
  2:{ apply forallb_forall. intros x Hx. apply negb_true_iff. unfold mem. simpl. rewrite orb_false_r.
      destruct (x =? ch_colon) eqn:E; [|reflexivity]. apply N.eqb_eq in E. subst x.
      exfalso. unfold mem in Hc. rewrite <- not_true_iff_false in Hc. apply Hc. apply existsb_exists.
      exists ch_colon. split; [exact Hx|apply N.eqb_refl]. }
  simpl (rev [] ++ t). unfold sec_add. cbn [sec_trim andb].
  destruct (rtrim (ltrim t)) as [|k0 k] eqn:Ek; simpl.
  - right. exists ARES_EBADSTR. split; [reflexivity|discriminate].
  - match goal with |- context [if ?b then Ok _ else Err _] => destruct b eqn:Ep end; cbn [bind].
    + left. unfold known_option_names in Hk. cbn [existsb] in Hk. rewrite !orb_false_r in Hk.
      repeat (apply orb_false_iff in Hk as [? Hk]). unfold kw.
      repeat match goal with Hx : bytes_eqb (k0 :: k) _ = false |- _ => rewrite Hx; clear Hx end.
      reflexivity.
    + right. exists ARES_EBADSTR. split; [reflexivity|discriminate].
Qed.

Lemma set_options_loop_plain cfg ts :
  forallb junk_option_plain ts = true -> set_options_loop cfg ts = Ok cfg.
Proof.
  induction ts as [|t r IH]; intros H; simpl; [reflexivity|].
  simpl in H. apply andb_true_iff in H as [Ht Hr].
  destruct (process_option_plain cfg t Ht) as [->|(st & -> & Hst)]; [apply IH; exact Hr|].
  destruct (Z.eqb_spec st ARES_ENOMEM); [congruence|]. apply IH; exact Hr.
Qed.

Lemma dispatch_options_plain fx ifs cfg rest1 v1 vr :
  forallb junk_option_plain (buf_split s_sep_ws true false false 0 (v1 :: vr)) = true ->
  resolv_dispatch nf fx ifs cfg k_options rest1 (v1 :: vr) = Ok cfg.
Proof.
  intros H. unfold resolv_dispatch, kw. simpl (bytes_eqb k_options _). cbn [orb].
  unfold set_options. apply set_options_loop_plain. exact H.
Qed.

(* ------------------------------------------------------------------ lookup without a known word *)
Lemma lookup_fold_none vals acc :
  forallb (fun v => match lookup_char v with None => true | Some _ => false end) vals = true ->
  lookup_fold vals acc = Ok acc.
Proof.
  induction vals as [|v r IH]; intros H; simpl; [reflexivity|].
  simpl in H. apply andb_true_iff in H as [Hv Hr]. destruct (lookup_char v); [discriminate|]. apply IH; exact Hr.
Qed.

Lemma config_lookup_noword cfg buf seps :
  forallb (fun v => match lookup_char v with None => true | Some _ => false end) (buf_split seps true false false 0 buf) = true ->
  config_lookup cfg buf seps = Ok cfg.
Proof.
  intros H. unfold config_lookup, buf_split_str.
  destruct (forallb (forallb isprint) (buf_split seps true false false 0 buf)); [|reflexivity].
  rewrite (lookup_fold_none _ [] H). reflexivity.
Qed.

Lemma dispatch_lookup_noword fx ifs cfg k rest1 v :
  k = k_lookup \/ k = k_hostresorder ->
  forallb (fun v => match lookup_char v with None => true | Some _ => false end) (buf_split s_sep_ws true false false 0 rest1) = true ->
  resolv_dispatch nf fx ifs cfg k rest1 v = Ok cfg.
Proof.
  intros [->| ->] H; unfold resolv_dispatch, kw; simpl (bytes_eqb _ _); cbn [orb]; apply config_lookup_noword; exact H.
Qed.

(* ------------------------------------------------------------------ options: the full grammar *)
Lemma split_go_all delims trim max l : forall cur acc,
  (negb (max =? 0)%nat && (max - 1 <=? length acc)%nat) = true ->
  split_go delims trim false false max l cur acc = sec_add trim false false acc (rev cur ++ l).
Proof.
  induction l as [|c r IH]; intros cur acc H; cbn [split_go].
  - rewrite app_nil_r, frev_rev. reflexivity.
  - rewrite H. rewrite IH by exact H. cbn [rev]. rewrite <- app_assoc. reflexivity.
Qed.

Lemma split_go_prefix d trim max n : forall rest cur,
  forallb (fun c => negb (c =? d)) n = true ->
  (negb (max =? 0)%nat && (max - 1 <=? 0)%nat) = false ->
  split_go [d] trim false false max (n ++ d :: rest) cur [] =
  split_go [d] trim false false max rest [] (sec_add trim false false [] (rev cur ++ n)).
Proof.
  induction n as [|c r IH]; intros rest cur Hn Hc; cbn [app split_go length]; rewrite Hc.
  - unfold mem. cbn [existsb]. rewrite N.eqb_refl. cbn [orb]. rewrite app_nil_r, frev_rev. reflexivity.
  - cbn [forallb] in Hn. apply andb_true_iff in Hn as [Hcd Hr]. apply negb_true_iff in Hcd.
    unfold mem. cbn [existsb]. rewrite Hcd. cbn [orb].
    fold (mem c []). rewrite IH by assumption. cbn [rev]. rewrite <- app_assoc. reflexivity.
Qed.

Lemma split_name_value n v :
  forallb (fun c => negb (c =? ch_colon)) n = true -> rtrim (ltrim n) <> [] ->
  buf_split [ch_colon] true false false 2 (n ++ ch_colon :: v) =
  rtrim (ltrim n) :: match rtrim (ltrim v) with [] => [] | tv => [tv] end.
Proof.
  intros Hn Hne. unfold buf_split. rewrite (split_go_prefix ch_colon true 2 n v [] Hn eq_refl).
  cbn [rev app]. unfold sec_add at 1. cbn [sec_trim andb].
  destruct (rtrim (ltrim n)) as [|n0 nr] eqn:En; [congruence|].
  rewrite split_go_all by reflexivity. cbn [rev app]. unfold sec_add. cbn [sec_trim andb app].
  destruct (rtrim (ltrim v)); reflexivity.
Qed.

Lemma span_fst_forall p l : forallb p (fst (span p l)) = true.
Proof. induction l as [|c r IH]; [reflexivity|]. cbn [span]. destruct (p c) eqn:E; [|reflexivity]. destruct (span p r). cbn [fst forallb] in *. rewrite E, IH. reflexivity. Qed.

Lemma span_snd_head p l c r : snd (span p l) = c :: r -> p c = false.
Proof.
  induction l as [|x l IH]; cbn [span]; [discriminate|]. destruct (p x) eqn:E.
  - destruct (span p l). cbn [snd] in *. exact IH.
  - cbn [snd]. intros H. inversion H; subst. exact E.
Qed.

Lemma zeros_value v : forallb (N.eqb 48) v = true -> digits_value v = 0%Z.
Proof.
  unfold digits_value. assert (forall a, forallb (N.eqb 48) v = true -> fold_left (fun a d => (10 * a + digit_val d)%Z) v a = (a * 10 ^ Z.of_nat (length v))%Z) as G.
  { induction v as [|d r IH]; intros a H; cbn [fold_left length].
    - change (Z.of_nat 0) with 0%Z. rewrite Z.pow_0_r. lia.
    - cbn [forallb] in H. apply andb_true_iff in H as [Hd Hr]. apply N.eqb_eq in Hd. subst d.
      rewrite IH by exact Hr. rewrite Nat2Z.inj_succ, Z.pow_succ_r by lia. unfold digit_val. simpl (Z.of_N 48 - 48)%Z. lia. }
  intros H. rewrite (G 0%Z H). lia.
Qed.

Lemma option_value_not_number tv : is_number tv = false -> option_value [tv] = None.
Proof. unfold is_number, option_value, str_isnum. intros H. rewrite H. reflexivity. Qed.

Lemma process_option_junk cfg t :
  junk_option t = true ->
  process_option cfg t = Ok cfg \/ exists st, process_option cfg t = Err st /\ st <> ARES_ENOMEM.
Proof.
  unfold junk_option, opt_name, opt_value.
  pose proof (span_app (fun c => negb (c =? ch_colon)) t) as Happ.
  pose proof (span_fst_forall (fun c => negb (c =? ch_colon)) t) as Hn.
  set (n := fst (span (fun c => negb (c =? ch_colon)) t)) in *.
  set (r := snd (span (fun c => negb (c =? ch_colon)) t)) in *.
  set (key := rtrim (ltrim n)).
  destruct (bytes_eqb key []) eqn:Ek; [discriminate|].
  assert (key <> []) as Hkey. { intros E. rewrite E in Ek. discriminate. }
  (* the sections the C code sees *)
  assert (exists vr, buf_split [ch_colon] true false false 2 t = key :: vr /\
                     (vr = [] \/ exists tv, vr = [tv] /\ tv <> [] /\
                        match r with [] => False | _ :: v => tv = rtrim (ltrim v) end) /\
                     (vr = [] -> match r with [] => True | _ :: v => rtrim (ltrim v) = [] end)) as (vr & Esplit & Hvr & Hvr0).
  { destruct r as [|c v] eqn:Er.
    - rewrite app_nil_r in Happ. rewrite <- Happ. exists []. split; [|split; [left; reflexivity|trivial]].
      unfold buf_split. rewrite split_go_nodelim.
      2:{ eapply forallb_impl_l; [|exact Hn]. intros x Hx. unfold mem. cbn [existsb]. rewrite orb_false_r. exact Hx. }
      cbn [rev app]. unfold sec_add. cbn [sec_trim andb]. fold key. destruct key; [congruence|reflexivity].
    - assert (c = ch_colon) as ->.
      { pose proof (span_snd_head _ t c v Er) as Hc. apply negb_false_iff in Hc. apply N.eqb_eq in Hc. exact Hc. }
      rewrite <- Happ. rewrite (split_name_value n v Hn Hkey). fold key.
      destruct (rtrim (ltrim v)) as [|v0 vt] eqn:Ev.
      + exists []. split; [reflexivity|]. split; [left; reflexivity|trivial].
      + exists [v0 :: vt]. split; [reflexivity|]. split; [|discriminate].
        right. exists (v0 :: vt). split; [reflexivity|]. split; [discriminate|reflexivity]. }
  intros Hj. unfold process_option, buf_split_str. rewrite Esplit.
  destruct (forallb (forallb isprint) (key :: vr)); cbn [bind]; [|right; exists ARES_EBADSTR; split; [reflexivity|discriminate]].
  unfold kw.
  destruct (existsb (bytes_eqb key) known_option_names) eqn:Eknown; cbn [negb] in Hj.
  2:{ (* unknown name *)
      left. unfold known_option_names in Eknown. cbn [existsb] in Eknown. rewrite !orb_false_r in Eknown.
      repeat (apply orb_false_iff in Eknown as [? Eknown]).
      repeat match goal with Hx : bytes_eqb key _ = false |- _ => rewrite Hx; clear Hx end. reflexivity. }
  (* the value part as seen by both sides *)
  assert (forall P : bytes -> bool,
            match match r with [] => None | _ :: v => Some (rtrim (ltrim v)) end with Some v => negb (P v) | None => true end = true ->
            P [] = false -> vr = [] \/ exists tv, vr = [tv] /\ P tv = false) as Hval.
  { intros P HP HP0. destruct Hvr as [->|(tv & -> & Htv & Hr)]; [left; reflexivity|].
    right. exists tv. split; [reflexivity|]. destruct r as [|c v]; [contradiction|]. subst tv. apply negb_true_iff in HP. exact HP. }
  destruct (bytes_eqb key on_ndots) eqn:E1.
  { right. exists ARES_EFORMERR. split; [|discriminate].
    destruct (Hval is_number Hj eq_refl) as [->|(tv & -> & Hnum)]; [reflexivity|]. rewrite (option_value_not_number tv Hnum). reflexivity. }
  destruct (bytes_eqb key on_timeout) eqn:E2, (bytes_eqb key on_retrans) eqn:E3, (bytes_eqb key on_attempts) eqn:E4, (bytes_eqb key on_retry) eqn:E5;
    cbn [orb] in Hj |- *; try discriminate;
    right; exists ARES_EFORMERR; (split; [|discriminate]);
    (destruct (Hval is_positive_number Hj eq_refl) as [->|(tv & -> & Hpos)]; [reflexivity|]);
    unfold is_positive_number in Hpos;
    (destruct (is_number tv) eqn:Enum; [|rewrite (option_value_not_number tv Enum); reflexivity]);
    cbn [andb] in Hpos; apply negb_false_iff in Hpos;
    unfold option_value; unfold is_number in Enum; unfold str_isnum; rewrite Enum;
    rewrite (zeros_value tv Hpos); reflexivity.
Qed.

Lemma set_options_loop_junk cfg ts :
  forallb junk_option ts = true -> set_options_loop cfg ts = Ok cfg.
Proof.
  induction ts as [|t r IH]; intros H; cbn [set_options_loop]; [reflexivity|].
  cbn [forallb] in H. apply andb_true_iff in H as [Ht Hr].
  destruct (process_option_junk cfg t Ht) as [->|(st & -> & Hst)]; [apply IH; exact Hr|].
  destruct (Z.eqb_spec st ARES_ENOMEM); [congruence|]. apply IH; exact Hr.
Qed.

Lemma dispatch_options_junk fx ifs cfg rest1 v1 vr :
  forallb junk_option (buf_split s_sep_ws true false false 0 (v1 :: vr)) = true ->
  resolv_dispatch nf fx ifs cfg k_options rest1 (v1 :: vr) = Ok cfg.
Proof.
  intros H. unfold resolv_dispatch, kw. simpl (bytes_eqb k_options _). cbn [orb].
  unfold set_options. apply set_options_loop_junk. exact H.
Qed.

(* ------------------------------------------------------------------ search / domain naming nothing *)
Lemma config_search_empty cfg v n :
  buf_split s_sep_domains false true true 0 v = [] -> config_search cfg v n = Ok cfg.
Proof.
  intros H. unfold config_search. destruct v; [reflexivity|]. unfold buf_split_str. rewrite H. reflexivity.
Qed.

Lemma dispatch_search_empty fx ifs cfg k rest1 v :
  k = k_search \/ k = k_domain -> buf_split s_sep_domains false true true 0 v = [] ->
  resolv_dispatch nf fx ifs cfg k rest1 v = Ok cfg.
Proof.
  intros [->| ->] H; unfold resolv_dispatch, kw; simpl (bytes_eqb _ _); cbn [orb].
  - apply config_search_empty; exact H.
  - destruct (s_domains cfg); [apply config_search_empty; exact H|reflexivity].
Qed.

(* ------------------------------------------------------------------ junk in the environment *)
Lemma junk_localdomain_identity cfg v n : junk_localdomain v = true -> config_search cfg v n = Ok cfg.
Proof.
  unfold junk_localdomain, config_search, buf_split_str. destruct v as [|v0 vr]; [reflexivity|].
  destruct (buf_split s_sep_domains false true true 0 (v0 :: vr)) as [|s0 sr]; [reflexivity|].
  intros H. apply negb_true_iff in H. rewrite H. reflexivity.
Qed.

Lemma junk_res_options_identity cfg v : junk_res_options v = true -> set_options cfg v = Ok cfg.
Proof. unfold junk_res_options, set_options. destruct v; [reflexivity|]. apply set_options_loop_junk. Qed.

(* LOCALDOMAIN / RES_OPTIONS holding junk behave as if they were unset *)
Theorem junk_env_is_identity cfg l r :
  (forall v, l = Some v -> junk_localdomain v = true) -> (forall v, r = Some v -> junk_res_options v = true) ->
  init_by_environment cfg l r = init_by_environment cfg None None.
Proof.
  intros Hl Hr. unfold init_by_environment.
  destruct l as [v|]; [rewrite (junk_localdomain_identity cfg v 1 (Hl v eq_refl))|]; cbn [bind];
    (destruct r as [w|]; [apply junk_res_options_identity; apply Hr; reflexivity|reflexivity]).
Qed.

(* ------------------------------------------------------------------ C15_junk_independent (line level) *)
Theorem junk_line_is_identity ifs cfg l j :
  junk_class_resolv l = Some j -> parse_resolv_line nf ifs cfg l = Ok cfg.
Proof.
  unfold parse_resolv_line, sortlist_fixed. destruct l as [|c r]; [reflexivity|].
  unfold junk_class_resolv.
  destruct ((c =? ch_hash) || (c =? ch_semi)) eqn:Hc; [intros _; apply junk_comment; exact Hc|].
  destruct (negb (forallb isprint (keyword_of (c :: r))) || negb (forallb isprint (rest_of (c :: r)))) eqn:Hp.
  { intros _. apply junk_unprintable; [exact Hc|]. apply orb_true_iff in Hp as [Hp|Hp]; apply negb_true_iff in Hp; auto. }
  apply orb_false_iff in Hp as [Hp1 Hp2]. apply negb_false_iff in Hp1, Hp2.
  destruct (negb (existsb (bytes_eqb (keyword_of (c :: r))) known_keywords)) eqn:Hk.
  { intros _. apply junk_unknown_keyword; [exact Hc|]. apply negb_true_iff in Hk. exact Hk. }
  apply negb_false_iff in Hk.
  destruct (Nat.leb_spec 512 (length (rest_of (c :: r)))) as [Hl|Hl].
  { intros _. apply junk_overlong; assumption. }
  destruct (arg_of (c :: r)) as [|v1 vr] eqn:Ha.
  { intros _. apply junk_noarg; assumption. }
  assert (exists o, fetch_string 32 (keyword_of (c :: r)) = Ok o) as [o Eo].
  { unfold fetch_string. rewrite Hp1.
    assert (length (keyword_of (c :: r)) <= 12)%nat as Hlen.
    { unfold known_keywords in Hk. cbn [existsb] in Hk. rewrite !orb_false_r in Hk.
      repeat (apply orb_true_iff in Hk as [Hk|Hk]); apply bytes_eqb_eq in Hk; rewrite Hk; simpl; lia. }
    destruct (Nat.ltb_spec (32 - 1) (length (keyword_of (c :: r)))); [lia|]. eauto. }
  assert (fetch_string 512 (rest_of (c :: r)) = Ok (rest_of (c :: r))) as Ev.
  { unfold fetch_string. rewrite Hp2. destruct (Nat.ltb_spec (512 - 1) (length (rest_of (c :: r)))); [lia|reflexivity]. }
  pose proof (keyword_is true ifs cfg c r _ Hc eq_refl _ v1 vr Ev Ha o Eo) as Hdisp.
  rewrite Hdisp.
  destruct (bytes_eqb (keyword_of (c :: r)) k_nameserver) eqn:E1.
  { apply bytes_eqb_eq in E1. rewrite E1.
    destruct (forallb cannot_start_server (tokens s_sep_servers (v1 :: vr))) eqn:Et; [|discriminate].
    intros _. apply dispatch_nameserver_junk. exact Et. }
  destruct (bytes_eqb (keyword_of (c :: r)) k_sortlist) eqn:E2.
  { apply bytes_eqb_eq in E2. rewrite E2.
    destruct (tokens s_sep_sortlist (v1 :: vr)) as [|t ts] eqn:Et; [intros _; apply dispatch_sortlist_empty; exact Et|].
    destruct (cannot_start_pattern t) eqn:Eb; [intros _; eapply dispatch_sortlist_junk; eassumption|].
    destruct (existsb bad_mask_token (t :: ts)) eqn:Em; [|discriminate].
    intros _. apply dispatch_sortlist_bad_mask. rewrite Et. exact Em. }
  destruct (bytes_eqb (keyword_of (c :: r)) k_options) eqn:E3.
  { apply bytes_eqb_eq in E3. rewrite E3.
    destruct (forallb junk_option_plain (buf_split s_sep_ws true false false 0 (v1 :: vr))) eqn:Et.
    - intros _. apply dispatch_options_plain. exact Et.
    - destruct (forallb junk_option (buf_split s_sep_ws true false false 0 (v1 :: vr))) eqn:Et2; [|discriminate].
      intros _. apply dispatch_options_junk. exact Et2. }
  destruct (bytes_eqb (keyword_of (c :: r)) k_search || bytes_eqb (keyword_of (c :: r)) k_domain) eqn:E4.
  { destruct (buf_split s_sep_domains false true true 0 (v1 :: vr)) eqn:Es; [|discriminate]. intros _.
    apply dispatch_search_empty; [|exact Es].
    apply orb_true_iff in E4 as [E4|E4]; apply bytes_eqb_eq in E4; auto. }
  destruct (forallb _ (buf_split s_sep_ws true false false 0 (rest_of (c :: r)))) eqn:Et; [|discriminate].
  intros _. apply dispatch_lookup_noword; [|exact Et].
  unfold known_keywords in Hk. cbn [existsb] in Hk. rewrite !orb_false_r in Hk.
  apply orb_false_iff in E4 as [E4a E4b].
  repeat (apply orb_true_iff in Hk as [Hk|Hk]); try congruence; apply bytes_eqb_eq in Hk; auto.
Qed.

(* ------------------------------------------------------------------ file level *)
Lemma process_lines_skip cb cfg l1 j l2 :
  (forall c, cb c j = Ok c) ->
  process_lines cb cfg (l1 ++ j :: l2) = process_lines cb cfg (l1 ++ l2).
Proof.
  intros Hj. revert cfg. induction l1 as [|x l1 IH]; intros cfg; simpl.
  - rewrite Hj. reflexivity.
  - destruct (cb cfg x); simpl; auto.
Qed.

Theorem junk_lines_independent ifs cfg l1 j l2 cls :
  junk_class_resolv j = Some cls ->
  process_lines (parse_resolv_line nf ifs) cfg (l1 ++ j :: l2) = process_lines (parse_resolv_line nf ifs) cfg (l1 ++ l2).
Proof. intros H1. apply process_lines_skip. intros c. eapply junk_line_is_identity; eassumption. Qed.

End WithNet.

(* ------------------------------------------------------------------ file text level *)
(* a file is its raw lines, each followed by a newline (harness/config_drv.c write_file; a missing
   final newline gives the same line list, see file_lines_noeol) *)
Definition unlines (rs : list bytes) : bytes := flat_map (fun r => r ++ [ch_nl]) rs.

Definition no_nl (r : bytes) : Prop := ~ In ch_nl r.

Lemma split_go_line r : forall rest cur acc, no_nl r ->
  split_go [ch_nl] true false false 0 (r ++ ch_nl :: rest) cur acc =
  split_go [ch_nl] true false false 0 rest [] (sec_add true false false acc (rev cur ++ r)).
Proof.
  induction r as [|c r IH]; intros rest cur acc H.
  - cbn [app split_go]. cbn [Nat.eqb negb andb]. change (mem ch_nl [ch_nl]) with true. cbv iota.
    rewrite frev_rev, app_nil_r. reflexivity.
  - cbn [app split_go]. cbn [Nat.eqb negb andb].
    assert (mem c [ch_nl] = false) as Hc.
    { unfold mem. simpl. rewrite orb_false_r. apply N.eqb_neq. intros ->. apply H. left. reflexivity. }
    rewrite Hc. rewrite IH by (intros Hin; apply H; right; exact Hin).
    cbn [rev]. rewrite <- app_assoc. reflexivity.
Qed.

(* the lines ares_sysconfig_process_buf hands to the callback: trimmed, blank ones dropped *)
Definition trimmed_lines (rs : list bytes) : list bytes :=
  flat_map (fun r => match rtrim (ltrim r) with [] => [] | t => [t] end) rs.

Lemma sec_add_trim acc r : sec_add true false false acc r = acc ++ match rtrim (ltrim r) with [] => [] | t => [t] end.
Proof. unfold sec_add. cbn [sec_trim andb]. destruct (rtrim (ltrim r)); [rewrite app_nil_r|]; reflexivity. Qed.

Lemma split_go_unlines rs : forall acc, Forall no_nl rs ->
  split_go [ch_nl] true false false 0 (unlines rs) [] acc = acc ++ trimmed_lines rs.
Proof.
  induction rs as [|r rs IH]; intros acc F.
  - cbn [unlines flat_map split_go]. unfold sec_add. cbn. rewrite app_nil_r. reflexivity.
  - inversion F as [|? ? Hr Frs]; subst. cbn [unlines flat_map]. rewrite <- app_assoc. cbn [app].
    rewrite (split_go_line r _ [] acc Hr). cbn [rev app]. fold (unlines rs). rewrite IH by exact Frs.
    rewrite sec_add_trim. cbn [trimmed_lines flat_map]. rewrite <- app_assoc. reflexivity.
Qed.

Lemma file_lines_unlines rs : Forall no_nl rs -> file_lines (unlines rs) = trimmed_lines rs.
Proof. intros F. unfold file_lines, buf_split. rewrite split_go_unlines by exact F. reflexivity. Qed.

Lemma trimmed_lines_app a b : trimmed_lines (a ++ b) = trimmed_lines a ++ trimmed_lines b.
Proof. unfold trimmed_lines. apply flat_map_app. Qed.

Section FileLevel.
Variable nf : netfns.

(* C15_junk_independent at the level of the file text: inserting a raw junk line (blank, or junk
   after trimming) anywhere in a resolv.conf gives the same system configuration *)
Theorem junk_file_independent ifs cfg rs1 j rs2 cls :
  Forall no_nl rs1 -> no_nl j -> Forall no_nl rs2 ->
  junk_class_raw j = Some cls ->
  process_buf (parse_resolv_line nf ifs) cfg (unlines (rs1 ++ j :: rs2)) =
  process_buf (parse_resolv_line nf ifs) cfg (unlines (rs1 ++ rs2)).
Proof.
  intros F1 Fj F2 Hj. unfold process_buf.
  rewrite !file_lines_unlines.
  2:{ apply Forall_app. split; assumption. }
  2:{ apply Forall_app. split; [assumption|constructor; assumption]. }
  rewrite !trimmed_lines_app. change (j :: rs2) with ([j] ++ rs2). rewrite trimmed_lines_app.
  cbn [trimmed_lines flat_map]. rewrite app_nil_r.
  unfold junk_class_raw in Hj.
  destruct (mem ch_nl j) eqn:Em; [discriminate|].
  destruct (rtrim (ltrim j)) as [|t0 tr] eqn:Et; [reflexivity|].
  cbn [app]. apply process_lines_skip. intros c. eapply junk_line_is_identity; eassumption.
Qed.

End FileLevel.

(* ------------------------------------------------------------------ HOSTALIASES *)
Lemma hostnamech_printable c : is_hostnamech c = true -> isprint c = true.
Proof.
  unfold is_hostnamech, isalpha, islower, isupper, isdigit, isprint. intros H.
  repeat (apply orb_true_iff in H as [H|H]);
    try (apply N.eqb_eq in H; subst c; reflexivity);
    apply andb_true_iff in H as [H1 H2]; apply N.leb_le in H1, H2; apply andb_true_iff; split; apply N.leb_le; lia.
Qed.

Lemma hostalias_step_junk name j r : alias_line_usable name j = false ->
  hostalias_lines name (j :: r) = hostalias_lines name r.
Proof.
  unfold alias_line_usable, alias_word1, alias_word2. intros H. cbn [hostalias_lines].
  destruct (span (fun c => negb (isspace c)) j) as [hn rest]. cbn [fst snd] in H.
  unfold fetch_string at 1. change (64 - 1)%nat with 63%nat.
  destruct (Nat.ltb_spec 63 (length hn)) as [|L1]; [reflexivity|].
  destruct (forallb isprint hn) eqn:P1; [|reflexivity].
  destruct (bytes_caseeq hn name) eqn:C1; [|reflexivity]. cbn [negb].
  destruct (span (fun c => negb (isspace c)) (dropwhile isspace rest)) as [fq rest2]. cbn [fst] in H.
  unfold fetch_string. change (256 - 1)%nat with 255%nat.
  destruct (Nat.ltb_spec 255 (length fq)) as [|L2]; [reflexivity|].
  destruct (forallb isprint fq) eqn:P2; [|reflexivity].
  destruct fq as [|f0 fr]; [reflexivity|].
  destruct (forallb is_hostnamech (f0 :: fr)) eqn:Hh; [|reflexivity].
  exfalso. destruct (Nat.leb_spec (length hn) 63); [|lia]. destruct (Nat.leb_spec (length (f0 :: fr)) 255); [|lia].
  cbn in H. discriminate.
Qed.

Lemma hostalias_lines_skip name j l2 : alias_line_usable name j = false ->
  forall l1, hostalias_lines name (l1 ++ j :: l2) = hostalias_lines name (l1 ++ l2).
Proof.
  intros H. induction l1 as [|x l1 IH]; [apply hostalias_step_junk; exact H|].
  cbn [app hostalias_lines]. rewrite IH.
  destruct (span (fun c => negb (isspace c)) x) as [hn rest]. reflexivity.
Qed.

(* C15_junk_independent for the HOSTALIASES file, on the file text *)
Theorem junk_alias_file_independent name rs1 j rs2 :
  Forall no_nl rs1 -> no_nl j -> Forall no_nl rs2 -> junk_alias_line name j = true ->
  lookup_hostaliases name (unlines (rs1 ++ j :: rs2)) = lookup_hostaliases name (unlines (rs1 ++ rs2)).
Proof.
  intros F1 Fj F2 Hj. unfold lookup_hostaliases.
  rewrite !file_lines_unlines.
  2:{ apply Forall_app. split; assumption. }
  2:{ apply Forall_app. split; [assumption|constructor; assumption]. }
  rewrite !trimmed_lines_app. change (j :: rs2) with ([j] ++ rs2). rewrite trimmed_lines_app.
  cbn [trimmed_lines flat_map]. rewrite app_nil_r.
  unfold junk_alias_line in Hj. destruct (mem ch_nl j); [discriminate|]. apply negb_true_iff in Hj.
  destruct (rtrim (ltrim j)) as [|t0 tr] eqn:Et; [reflexivity|].
  cbn [app]. apply hostalias_lines_skip. exact Hj.
Qed.

