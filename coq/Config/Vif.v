(* The fixed virtual interface table of the configuration harness (harness/config_drv.c
   vif_names): index k <-> k-th name.  Test fixture, not part of the model. *)
From CAres.Config Require Import Lines.
From Coq Require Import String.
Local Open Scope string_scope.

Definition vif_names : list bytes :=
  Eval compute in map bytes_of_string ["lo"; "eth0"; "br-lan"; "wlan0"; "eth0.100"; "abcdefghijklmno"; "eth0:1"].

Fixpoint vif_index (n : bytes) (l : list bytes) (i : Z) : Z :=
  match l with
  | nil => 0%Z
  | x :: r => if bytes_eqb x n then i else vif_index n r (i + 1)%Z
  end.

Definition vif : iftab :=
  mkIf (fun n => vif_index n vif_names 1%Z)
       (fun i => if (i <=? 0)%Z then None else nth_error vif_names (Z.to_nat (i - 1))).
