(* C16_csv_fixpoint, entry level, dns:// form: the URI text ares_get_server_addr renders for a server
   whose TCP port differs from its UDP port (ares_uri_write through ares_uri_set_host) parses back,
   through parse_nameserver_uri (ares_uri_parse, then the address / interface split), to the same
   address, ports and interface.  The interface name must be made of RFC 3986 "unreserved"
   characters: that is what ares_uri_set_host accepts for a zone id (after fix C16-uri-scope-charset);
   other names are the residual refutation C16_csv_fixpoint_refuted. *)
From CAres.Config Require Import Spec Lines_proofs Csv_entry.
From CAres.Gen Require Import Consts LeafFns.
Local Open Scope N_scope.

(* ------------------------------------------------------------------ characters *)
Definition uri_char_ok (c : N) : Prop :=
  isprint c = true /\ chis_authority c = true /\
  c <> ch_slash /\ c <> ch_qm /\ c <> ch_hash /\ c <> ch_at /\ c <> ch_comma /\ c <> ch_space.

Lemma unreserved_props c : chis_unreserved c = true -> uri_char_ok c /\ c <> ch_pct /\ c <> ch_colon /\ c <> ch_rbr.
Proof.
  intros H. assert (chis_authority c = true) as Ha by (unfold chis_authority; rewrite H; reflexivity).
  unfold uri_char_ok. rewrite Ha.
  assert (forall d, chis_unreserved d = false -> c <> d) as Hn by (intros d Hd ->; congruence).
  repeat split; try (apply Hn; vm_compute; reflexivity).
  unfold chis_unreserved, isalpha, islower, isupper, isdigit in H. unfold isprint.
  repeat (apply orb_true_iff in H as [H|H]);
    try (apply N.eqb_eq in H; subst c; reflexivity);
    apply andb_true_iff in H as [H1 H2]; apply N.leb_le in H1, H2; apply andb_true_iff; split; apply N.leb_le; lia.
Qed.

Lemma digit_unreserved c : isdigit c = true -> chis_unreserved c = true.
Proof. intros H. unfold chis_unreserved. rewrite H. rewrite !orb_true_r. reflexivity. Qed.

Lemma ipcharset_uri_props : forallb (fun c => chis_authority c && negb (c =? ch_qm) && negb (c =? ch_hash) && negb (c =? ch_at)) s_ipcharset = true.
Proof. vm_compute. reflexivity. Qed.

Lemma ipcharset_uri_char c : mem c s_ipcharset = true -> uri_char_ok c.
Proof.
  intros H. destruct (ipcharset_char c H) as (P1 & _ & _ & _ & P5 & P6 & _ & P8).
  apply mem_In in H. pose proof ipcharset_uri_props as P. rewrite forallb_forall in P. specialize (P c H).
  repeat (apply andb_true_iff in P as [P ?]).
  repeat match goal with Hx : negb _ = true |- _ => apply negb_true_iff in Hx end.
  repeat match goal with Hx : (_ =? _) = false |- _ => apply N.eqb_neq in Hx end.
  unfold uri_char_ok. repeat split; auto.
Qed.

Lemma punct_uri_char c : In c [ch_lbr; ch_rbr; ch_pct; ch_colon] -> uri_char_ok c.
Proof. intros [<-|[<-|[<-|[<-|[]]]]]; unfold uri_char_ok; repeat split; try discriminate; vm_compute; reflexivity. Qed.

Lemma forallb_app_true {A} (p : A -> bool) a b : forallb p a = true -> forallb p b = true -> forallb p (a ++ b) = true.
Proof. intros Ha Hb. rewrite forallb_app, Ha, Hb. reflexivity. Qed.

Lemma Forall_forallb {A} (P : A -> Prop) (p : A -> bool) l : (forall x, P x -> p x = true) -> Forall P l -> forallb p l = true.
Proof. intros H F. apply forallb_forall. intros x Hx. rewrite Forall_forall in F. apply H. apply F. exact Hx. Qed.

Lemma mem_Forall_false (P : N -> Prop) c l : Forall P l -> ~ P c -> mem c l = false.
Proof.
  intros F H. rewrite <- not_true_iff_false. intros Hm. apply mem_In in Hm. rewrite Forall_forall in F. apply H. apply F. exact Hm.
Qed.

Lemma firstn_short {A} n (l : list A) : (length l <= n)%nat -> firstn n l = l.
Proof. apply firstn_all2. Qed.

Lemma digits_value_dec p : (1 <= p < 65536)%Z -> digits_value (dec_of_Z p) = p.
Proof.
  intros H. destruct (dec_u16_digits p) as (A & B & C); [lia|].
  destruct (atoi_digits (dec_of_Z p) A) as [E _]; [lia|].
  rewrite (atoi_dec_u16 p) in E by lia. apply Ok_inj_csv in E. symmetry. exact E.
Qed.

Section WithNet.
Variable nf : netfns.

(* ------------------------------------------------------------------ what is assumed of inet_pton(AF_INET6) *)
(* ares_uri_write brackets the host when it parses as an IPv6 address; the text of an IPv4 address
   does not, the text of an IPv6 address does (checked by computation for the example, sampled by
   the correspondence run) *)
Definition addr_family_ok (a : addr) : Prop :=
  match a with
  | A4 _ => nf_pton6 nf (nf_ntop nf a) = None
  | A6 _ => nf_pton6 nf (nf_ntop nf a) <> None
  end.

Definition iface_uri_ok (i : bytes) : Prop := forallb chis_unreserved i = true /\ (length i <= 15)%nat.

(* host text: the address, and "%" interface for a link-local server *)
Definition uri_host (a : addr) (iface : bytes) : bytes :=
  match iface with [] => nf_ntop nf a | c :: r => nf_ntop nf a ++ [ch_pct] ++ c :: r end.

Definition uri_text (a : addr) (udp tcp : Z) (iface : bytes) : bytes :=
  s_dns_prefix
  ++ (match a with A6 _ => [ch_lbr] ++ uri_host a iface ++ [ch_rbr] | A4 _ => uri_host a iface end)
  ++ [ch_colon] ++ dec_of_Z udp ++ s_q_tcpport ++ dec_of_Z tcp.

Lemma ntop_uri_chars a : addr_good nf a -> Forall uri_char_ok (nf_ntop nf a).
Proof.
  intros G. apply Forall_forall. intros c Hc. apply ipcharset_uri_char.
  destruct a as [b|b].
  - destruct (ntop4_shape nf b G) as (H & _ & _). rewrite forallb_forall in H. specialize (H c Hc).
    pose proof digits_dot_sub_ipcharset as S. rewrite forallb_forall in S. apply S. apply mem_In. exact H.
  - destruct (ntop6_shape nf b G) as (H & _ & _). rewrite forallb_forall in H. exact (H c Hc).
Qed.

Lemma iface_uri_chars i : iface_uri_ok i -> Forall uri_char_ok i.
Proof. intros [H _]. apply Forall_forall. intros c Hc. rewrite forallb_forall in H. apply (unreserved_props c (H c Hc)). Qed.

Lemma digits_uri_chars s : forallb isdigit s = true -> Forall uri_char_ok s.
Proof. intros H. apply Forall_forall. intros c Hc. rewrite forallb_forall in H. apply (unreserved_props c (digit_unreserved c (H c Hc))). Qed.

Lemma uri_host_chars a i : addr_good nf a -> iface_uri_ok i -> Forall uri_char_ok (uri_host a i).
Proof.
  intros G Hi. unfold uri_host. destruct i as [|i0 ir]; [apply ntop_uri_chars; exact G|].
  apply Forall_app. split; [apply ntop_uri_chars; exact G|].
  cbn [app]. apply Forall_cons; [apply punct_uri_char; simpl; tauto|apply iface_uri_chars; exact Hi].
Qed.

Lemma uri_host_no_rbr a i : addr_good nf a -> iface_uri_ok i -> ~ In ch_rbr (uri_host a i).
Proof.
  intros G [Hi _] Hin. unfold uri_host in Hin. destruct i as [|i0 ir]; [apply (ntop_no nf ch_rbr a G); [tauto|exact Hin]|].
  apply in_app_or in Hin as [Hin|Hin]; [apply (ntop_no nf ch_rbr a G); [tauto|exact Hin]|].
  cbn [app] in Hin. destruct Hin as [Hin|Hin]; [discriminate|].
  rewrite forallb_forall in Hi. destruct (unreserved_props _ (Hi _ Hin)) as (_ & _ & _ & A). congruence.
Qed.

Lemma uri_host_length a i : addr_good nf a -> iface_uri_ok i -> (length (uri_host a i) <= 61)%nat.
Proof.
  intros G [_ Hl]. pose proof (ntop_length nf a G). unfold uri_host. destruct i; [lia|].
  rewrite app_length. cbn [app length] in *. lia.
Qed.

Lemma uri_host_nonempty a i : addr_good nf a -> uri_host a i <> [].
Proof.
  intros G E. unfold uri_host in E. pose proof (ntop_nonempty nf a G) as N.
  destruct i; [congruence|]. apply app_eq_nil in E as [E _]. congruence.
Qed.

(* splitting the host at '%' *)
Lemma uri_host_span a i : addr_good nf a ->
  span (fun c => negb (c =? ch_pct)) (uri_host a i) = (nf_ntop nf a, match i with [] => [] | _ => ch_pct :: i end).
Proof.
  intros G. assert (forallb (fun c => negb (c =? ch_pct)) (nf_ntop nf a) = true) as F.
  { apply forallb_forall. intros c Hc. apply negb_true_iff. apply N.eqb_neq. intros ->.
    apply (ntop_no nf ch_pct a G); [tauto|exact Hc]. }
  unfold uri_host. destruct i as [|i0 ir]; [apply span_all_end; exact F|].
  cbn [app]. apply span_all; [exact F|reflexivity].
Qed.

(* ares_uri_set_host leaves the host text as it is *)
Lemma uri_set_host_id a i : addr_good nf a -> iface_uri_ok i ->
  (i <> [] -> exists b, a = A6 b) ->
  uri_set_host nf (uri_host a i) = Some (uri_host a i).
Proof.
  intros G Hi H6. unfold uri_set_host.
  destruct (uri_host a i) as [|h0 hr] eqn:Eh; [exfalso; exact (uri_host_nonempty a i G Eh)|]. rewrite <- Eh.
  pose proof (uri_host_length a i G Hi) as Hl.
  destruct (Nat.leb_spec 256 (length (uri_host a i))) as [?|_]; [lia|].
  rewrite (uri_host_span a i G). rewrite (pton_ntop nf a G).
  destruct i as [|i0 ir].
  - unfold uri_host. destruct a; reflexivity.
  - destruct Hi as [Hc _]. rewrite Hc. cbn [negb length Nat.eqb orb].
    destruct (H6 ltac:(discriminate)) as [b ->]. reflexivity.
Qed.

(* ------------------------------------------------------------------ rendering *)
Lemma get_server_addr_uri sv :
  sv_tcp sv <> sv_udp sv -> port_ok (sv_udp sv) ->
  addr_good nf (sv_addr sv) -> addr_family_ok (sv_addr sv) -> iface_uri_ok (sv_iface sv) ->
  (sv_iface sv <> [] -> exists b, sv_addr sv = A6 b) ->
  get_server_addr nf sv = Ok (uri_text (sv_addr sv) (sv_udp sv) (sv_tcp sv) (sv_iface sv)).
Proof.
  intros Hne Hp G Fam Hi H6. unfold get_server_addr, use_uri, LeafFns.c_ares_server_use_uri.
  destruct (Z.eqb_spec (sv_tcp sv) (sv_udp sv)) as [E|_]; [congruence|]. cbn [negb].
  change (negb (ARES_TRUE =? 0)%Z) with true. cbv iota.
  match goal with |- context [firstn 255 ?x] => change x with (uri_host (sv_addr sv) (sv_iface sv)) end.
  rewrite firstn_short by (pose proof (uri_host_length _ _ G Hi); lia).
  rewrite (uri_set_host_id _ _ G Hi H6).
  destruct (Z.ltb_spec 0 (sv_udp sv)) as [_|?]; [|unfold port_ok in Hp; lia].
  unfold uri_text. f_equal. f_equal.
  assert ((mem ch_pct (uri_host (sv_addr sv) (sv_iface sv)) ||
           match nf_pton6 nf (uri_host (sv_addr sv) (sv_iface sv)) with Some _ => true | None => false end)
          = match sv_addr sv with A6 _ => true | A4 _ => false end) as Ev.
  { destruct (sv_iface sv) as [|i0 ir] eqn:Ei.
    - unfold uri_host.
      rewrite (mem_Forall_false (fun c => c <> ch_pct) ch_pct (nf_ntop nf (sv_addr sv))); [|apply Forall_forall; intros c Hc ->; apply (ntop_no nf ch_pct _ G); [tauto|exact Hc]|congruence].
      cbn [orb]. unfold addr_family_ok in Fam. destruct (sv_addr sv); [rewrite Fam; reflexivity|].
      destruct (nf_pton6 nf (nf_ntop nf (A6 b))); [reflexivity|congruence].
    - destruct (H6 ltac:(discriminate)) as [b ->].
      assert (mem ch_pct (uri_host (A6 b) (i0 :: ir)) = true) as ->; [|reflexivity].
      apply In_mem. unfold uri_host. apply in_or_app. right. left. reflexivity. }
  rewrite Ev. destruct (sv_addr sv); rewrite <- ?app_assoc; reflexivity.
Qed.

(* ------------------------------------------------------------------ parsing *)
Lemma parse_uri_text a udp tcp i :
  addr_good nf a -> port_ok udp -> port_ok tcp -> iface_uri_ok i ->
  (i <> [] -> exists b, a = A6 b) ->
  parse_nameserver_uri nf (uri_text a udp tcp i) = UriOk (mkSconf a udp tcp i 0).
Proof.
  intros G Hu Ht Hi H6.
  destruct (dec_port udp Hu) as (Ud & Une & Ul & Ua). destruct (dec_port tcp Ht) as (Td & Tne & Tl & Ta).
  set (host := uri_host a i).
  set (hp := (match a with A6 _ => [ch_lbr] ++ host ++ [ch_rbr] | A4 _ => host end) ++ [ch_colon] ++ dec_of_Z udp).
  assert (uri_text a udp tcp i = s_dns_prefix ++ hp ++ s_q_tcpport ++ dec_of_Z tcp) as Et.
  { unfold uri_text, hp, host. rewrite <- !app_assoc. reflexivity. }
  rewrite Et. unfold parse_nameserver_uri.
  change (find_seq s_scheme_sep (s_dns_prefix ++ hp ++ s_q_tcpport ++ dec_of_Z tcp)) with (Some 3%nat).
  cbv iota. change (16 <? 3)%nat with false. cbv iota.
  change (firstn 3 (s_dns_prefix ++ hp ++ s_q_tcpport ++ dec_of_Z tcp)) with w_dns.
  change (skipn (3 + 3) (s_dns_prefix ++ hp ++ s_q_tcpport ++ dec_of_Z tcp)) with (hp ++ s_q_tcpport ++ dec_of_Z tcp).
  change (fetch_string 16 w_dns) with (Ok w_dns). cbv iota. unfold w_dns at 1. cbv iota.
  change (negb (isalpha 100 && forallb chis_scheme w_dns)) with false.
  change (negb (bytes_eqb (map tolower w_dns) s_dns)) with false. cbv iota.
  (* the authority *)
  assert (Forall uri_char_ok hp) as Fhp.
  { unfold hp. apply Forall_app. split.
    - destruct a.
      + apply uri_host_chars; assumption.
      + cbn [app]. apply Forall_cons; [apply punct_uri_char; simpl; tauto|]. apply Forall_app. split; [apply uri_host_chars; assumption|].
        apply Forall_cons; [apply punct_uri_char; simpl; tauto|apply Forall_nil].
    - cbn [app]. apply Forall_cons; [apply punct_uri_char; simpl; tauto|apply digits_uri_chars; exact Ud]. }
  assert (forallb (fun c => negb (mem c (ch_slash :: ch_qm :: ch_hash :: nil))) hp = true) as Fsp.
  { eapply Forall_forallb; [|exact Fhp]. intros c (_ & _ & A & B & C & _). apply negb_true_iff. unfold mem. cbn [existsb].
    rewrite orb_false_r. rewrite !orb_false_iff. repeat split; apply N.eqb_neq; congruence. }
  change (s_q_tcpport ++ dec_of_Z tcp) with (ch_qm :: s_tcpport_eq ++ dec_of_Z tcp).
  rewrite (span_all _ hp ch_qm (s_tcpport_eq ++ dec_of_Z tcp) Fsp eq_refl).
  assert (exists c0 r0, hp = c0 :: r0) as (c0 & r0 & Ehp).
  { pose proof (uri_host_nonempty a i G) as Hn. fold host in Hn. unfold hp. destruct a; [|cbn [app]; eauto].
    destruct host; [congruence|cbn [app]; eauto]. }
  rewrite Ehp. cbv iota. change (c0 =? ch_lbr) with (match c0 :: r0 with c :: _ => c =? ch_lbr | [] => false end). rewrite <- Ehp.
  rewrite (Forall_forallb uri_char_ok chis_authority hp (fun c H => proj1 (proj2 H)) Fhp). cbn [negb].
  rewrite (mem_Forall_false uri_char_ok ch_at hp Fhp) by (unfold uri_char_ok; intuition congruence).
  (* host and port *)
  pose proof (uri_host_length a i G Hi) as Hl. fold host in Hl.
  assert (fetch_string 256 host = Ok host) as Fh.
  { unfold fetch_string. destruct (Nat.ltb_spec (256 - 1) (length host)); [simpl in *; lia|].
    rewrite (Forall_forallb uri_char_ok isprint host (fun c H => proj1 H)); [reflexivity|apply uri_host_chars; assumption]. }
  assert ((if match hp with c :: _ => c =? ch_lbr | [] => false end
           then match index_of ch_rbr (tl hp) with
                | None => None
                | Some k => match fetch_string 256 (firstn k (tl hp)) with Ok h => Some (h, skipn (S k) (tl hp)) | _ => None end
                end
           else match fetch_string 256 (fst (span (fun c => negb (c =? ch_colon)) hp)) with
                | Ok h' => Some (h', snd (span (fun c => negb (c =? ch_colon)) hp))
                | _ => None
                end) = Some (host, ch_colon :: dec_of_Z udp)) as Ehost.
  { unfold hp. destruct a as [b|b].
    - (* IPv4: no '[' in front, the host ends at ':' *)
      assert (i = []) as -> by (destruct i; [reflexivity|destruct (H6 ltac:(discriminate)); discriminate]).
      unfold host, uri_host in *.
      destruct (ntop4_shape nf b G) as (Hc & _ & _).
      assert (forallb (fun c => negb (c =? ch_colon)) (nf_ntop nf (A4 b)) = true) as Fc.
      { eapply forallb_impl; [|exact Hc]. intros x Hx. apply mem_In in Hx. apply negb_true_iff. apply N.eqb_neq. intros ->.
        vm_compute in Hx. intuition discriminate. }
      destruct (nf_ntop nf (A4 b)) as [|x xr] eqn:Ex; [exfalso; exact (ntop_nonempty nf _ G Ex)|]. rewrite <- Ex in *.
      assert ((match nf_ntop nf (A4 b) ++ [ch_colon] ++ dec_of_Z udp with c :: _ => c =? ch_lbr | [] => false end) = false) as ->.
      { rewrite Ex. cbn [app]. apply N.eqb_neq. intros ->. apply (ntop_no nf ch_lbr (A4 b) G); [tauto|rewrite Ex; left; reflexivity]. }
      cbn [app]. rewrite (span_all _ _ ch_colon (dec_of_Z udp) Fc eq_refl). cbn [fst snd]. rewrite Fh. reflexivity.
    - cbn [app tl]. change (ch_lbr =? ch_lbr) with true. cbv iota.
      rewrite <- app_assoc. cbn [app].
      rewrite (index_of_app_hit ch_rbr host (ch_colon :: dec_of_Z udp)).
      + rewrite firstn_app_exact, Fh, skipn_S_app. reflexivity.
      + apply uri_host_no_rbr; assumption. }
  rewrite Ehost. unfold host at 1. rewrite (uri_set_host_id a i G Hi H6). fold host.
  (* the port *)
  change (ch_colon =? ch_colon) with true. cbn [negb].
  destruct (dec_of_Z udp) as [|u0 ur] eqn:Eu; [congruence|]. rewrite <- Eu in *.
  assert (((length (dec_of_Z udp) =? 0)%nat || (5 <? length (dec_of_Z udp))%nat) = false) as ->.
  { rewrite Eu at 1. cbn [length Nat.eqb orb]. apply Nat.ltb_ge. exact Ul. }
  assert (str_isnum (dec_of_Z udp) = true) as ->.
  { unfold str_isnum. rewrite Ud, Eu. reflexivity. }
  cbn [negb]. rewrite (digits_value_dec udp Hu). destruct (Z.ltb_spec 65535 udp) as [?|_]; [unfold port_ok in Hu; lia|].
  (* the query *)
  change (ch_qm =? ch_qm) with true. cbv iota.
  destruct (s_tcpport_eq ++ dec_of_Z tcp) as [|q0 qr] eqn:Eq; [discriminate|]. rewrite <- Eq.
  change (is_prefix s_tcpport_eq (s_tcpport_eq ++ dec_of_Z tcp)) with true. cbv iota.
  rewrite skipn_app_exact. rewrite Td.
  destruct (dec_of_Z tcp) as [|t0 tr] eqn:Etc; [congruence|]. rewrite <- Etc in *.
  assert (negb (length (dec_of_Z tcp) =? 0)%nat = true) as -> by (rewrite Etc; reflexivity).
  cbn [andb]. cbv iota.
  (* the address / interface split *)
  rewrite firstn_short by lia. unfold host. rewrite (uri_host_span a i G). rewrite (pton_ntop nf a G).
  assert (str_isnum (dec_of_Z tcp) = true) as ->.
  { unfold str_isnum. rewrite Td, Etc. reflexivity. }
  destruct (Nat.ltb_spec 5 (length (dec_of_Z tcp))) as [?|_]; [lia|]. cbn [negb orb]. rewrite Ta.
  destruct (Z.ltb_spec 65535 tcp) as [?|_]; [unfold port_ok in Ht; lia|].
  destruct Hi as [_ Hil]. destruct i as [|i0 ir]; [reflexivity|]. rewrite firstn_short by exact Hil. reflexivity.
Qed.

(* the URI text contains no ',' and no ' ', and is not empty *)
Lemma uri_text_chars a udp tcp i : addr_good nf a -> port_ok udp -> port_ok tcp -> iface_uri_ok i ->
  Forall (fun c => c <> ch_comma /\ c <> ch_space) (uri_text a udp tcp i).
Proof.
  intros G Hu Ht Hi. destruct (dec_port udp Hu) as (Ud & _). destruct (dec_port tcp Ht) as (Td & _).
  assert (forall l, Forall uri_char_ok l -> Forall (fun c => c <> ch_comma /\ c <> ch_space) l) as W.
  { intros l F. eapply Forall_impl; [|exact F]. intros c H. unfold uri_char_ok in H. tauto. }
  assert (forall l, forallb (fun c => negb (c =? ch_comma) && negb (c =? ch_space)) l = true -> Forall (fun c => c <> ch_comma /\ c <> ch_space) l) as W2.
  { intros l F. apply Forall_forall. intros c Hc. rewrite forallb_forall in F. specialize (F c Hc).
    apply andb_true_iff in F as [A B]. apply negb_true_iff in A, B. apply N.eqb_neq in A, B. tauto. }
  unfold uri_text. repeat (apply Forall_app; split).
  - apply W2. vm_compute. reflexivity.
  - destruct a.
    + apply W. apply uri_host_chars; assumption.
    + repeat (apply Forall_app; split); [apply W2; vm_compute; reflexivity|apply W; apply uri_host_chars; assumption|apply W2; vm_compute; reflexivity].
  - apply W2. vm_compute. reflexivity.
  - apply W. apply digits_uri_chars. exact Ud.
  - apply W2. vm_compute. reflexivity.
  - apply W. apply digits_uri_chars. exact Td.
Qed.

Lemma uri_text_nonempty a udp tcp i : uri_text a udp tcp i <> [].
Proof. unfold uri_text. discriminate. Qed.

End WithNet.
