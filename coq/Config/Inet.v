(* Concrete models of src/lib/inet_net_pton.c (ares_inet_pton for AF_INET / AF_INET6, as used
   through ares_dns_pton) and src/lib/inet_ntop.c.  The configuration model takes address
   parsing / printing as Section variables; these definitions instantiate them in the
   extracted model so that the correspondence run compares real addresses. *)
From CAres.Config Require Export Bytes.
Local Open Scope N_scope.

Inductive addr := A4 (b : bytes) | A6 (b : bytes).   (* 4 resp. 16 bytes *)

Definition addr_eqb (a b : addr) : bool :=
  match a, b with
  | A4 x, A4 y => bytes_eqb x y
  | A6 x, A6 y => bytes_eqb x y
  | _, _ => false
  end.

Definition pad_to (n : nat) (l : bytes) : bytes := l ++ repeat 0 (n - length l).

Definition xval (c : N) : N :=
  if isdigit c then c - 48 else if (97 <=? c) then c - 87 else c - 55.

(* ---- ares_inet_net_pton_ipv4(src, dst, 4) ----
   result: (Some bits | None) and the bytes left in dst (it is memset to 0 first and then written
   octet by octet, also when the parse fails later) *)
Fixpoint hex_bytes (l : bytes) : bytes :=
  match l with
  | a :: b :: r => (xval a * 16 + xval b) :: hex_bytes r
  | [a] => [xval a * 16]
  | [] => []
  end.

(* decimal dotted part; [l] starts with a digit.  Returns (written octets, status) where status is
   Some rest (rest starts at the character that ended the number: nothing or '/') or None *)
Fixpoint p4_dec (fuel : nat) (l : bytes) (written : bytes) : bytes * option bytes :=
  match fuel with
  | O => (written, None)
  | S f =>
    let (ds, rest) := span isdigit l in
    if (255 <? digits_value ds)%Z then (written, None)
    else if (4 <=? length written)%nat then (written, None)       (* if (!size--) goto emsgsize *)
    else
      let written' := written ++ [Z.to_N (digits_value ds)] in
      match rest with
      | [] => (written', Some [])
      | c :: r =>
        if c =? ch_slash then (written', Some rest)
        else if negb (c =? ch_dot) then (written', None)
        else match r with
             | d :: _ => if isdigit d then p4_dec f r written' else (written', None)
             | [] => (written', None)
             end
      end
  end.

Definition class_bits (first : N) (nwritten : nat) : Z :=
  let b : Z := if 240 <=? first then 32%Z else if 224 <=? first then 8%Z else if 192 <=? first then 24%Z
               else if 128 <=? first then 16%Z else 8%Z in
  let w : Z := (Z.of_nat nwritten * 8)%Z in
  let b : Z := if (b <? w)%Z then w else b in
  if ((b =? 8)%Z && (first =? 224))%bool then 4%Z else b.

Definition net_pton4 (src : bytes) : option Z * bytes :=
  let body :=
    match src with
    | 48 :: x :: h :: r =>
      if ((x =? 120) || (x =? 88)) && isxdigit h then
        let (hx, rest) := span isxdigit (h :: r) in
        let bs := hex_bytes hx in
        if (4 <? length bs)%nat then Some (firstn 4 bs, None) else Some (bs, Some rest)
      else None
    | _ => None
    end in
  let '(written, st) :=
    match body with
    | Some r => r
    | None =>
      match src with
      | c :: _ => if isdigit c then p4_dec 6 src [] else ([], None)
      | [] => ([], None)
      end
    end in
  match st with
  | None => (None, pad_to 4 written)
  | Some rest =>
    (* CIDR width: "/" digits to the end, at most 32 *)
    let cidr :=
      match rest with
      | [] => Some None
      | c :: r =>
        if (c =? ch_slash) then
          match r with
          | d :: _ =>
            if isdigit d && negb (length written =? 0)%nat then
              let (ds, tail) := span isdigit r in
              if (32 <? digits_value ds)%Z then None
              else match tail with [] => Some (Some (digits_value ds)) | _ => None end
            else None
          | [] => None
          end
        else None
      end in
    match cidr with
    | None => (None, pad_to 4 written)
    | Some None => (match written with
                    | [] => (None, pad_to 4 written)
                    | f :: _ => (Some (class_bits f (length written)), pad_to 4 written)
                    end)
    | Some (Some b) => (Some b, pad_to 4 written)
    end
  end.

(* ares_inet_pton(AF_INET, ...) > 0 *)
Definition pton4_full (s : bytes) : option bytes * bytes :=
  let (r, dirt) := net_pton4 s in
  match r with Some _ => (Some dirt, dirt) | None => (None, dirt) end.
Definition pton4 (s : bytes) : option bytes := fst (pton4_full s).

(* ---- ares_inet_pton6 ---- *)
Fixpoint p6_loop (l curtok out : bytes) (colonp : option nat) (saw : bool) (cnt : nat) (val : N)
  : option (bytes * option nat * bool * N) :=
  match l with
  | [] => Some (out, colonp, saw, val)
  | ch :: src =>
    if isxdigit ch then
      if (4 <=? cnt)%nat then None
      else p6_loop src curtok out colonp true (S cnt) (val * 16 + xval ch)
    else if ch =? ch_colon then
      if negb saw then
        match colonp with
        | Some _ => None
        | None => p6_loop src src out (Some (length out)) false cnt val
        end
      else match src with
           | [] => None
           | _ => if (16 <? length out + 2)%nat then None
                  else p6_loop src src (out ++ [val / 256; val mod 256]) colonp false 0 0
           end
    else if (ch =? ch_dot) && (length out + 4 <=? 16)%nat then
      match net_pton4 curtok with
      | (Some b, bs) => if (0 <? b)%Z then Some (out ++ bs, colonp, false, val) else None
      | (None, _) => None
      end
    else None
  end.

Definition inet_pton6 (src : bytes) : option bytes :=
  let start :=
    match src with
    | 58 :: r => match r with 58 :: _ => Some r | _ => None end
    | _ => Some src
    end in
  match start with
  | None => None
  | Some s =>
    match p6_loop s s [] None false 0 0 with
    | None => None
    | Some (out, colonp, saw, val) =>
      let out1 := if saw then (if (16 <? length out + 2)%nat then None else Some (out ++ [val / 256; val mod 256]))
                  else Some out in
      match out1 with
      | None => None
      | Some o =>
        match colonp with
        | Some c =>
          if (length o =? 16)%nat then None
          else Some (firstn c o ++ repeat 0 (16 - length o) ++ skipn c o)
        | None => if (length o =? 16)%nat then Some o else None
        end
      end
    end
  end.

(* getbits: digits only, no leading zeros, at most 128 *)
Definition getbits (s : bytes) : option Z :=
  match s with
  | [] => None
  | d :: r =>
    if negb (forallb isdigit s) then None
    else if (d =? 48) && negb (length r =? 0)%nat then None
    else if (128 <? digits_value s)%Z then None else Some (digits_value s)
  end.

(* ares_inet_net_pton_ipv6(src, dst, 16): (address, number of bytes copied to dst) *)
Definition net_pton6 (src : bytes) : option (bytes * nat) :=
  if (51 <=? length src)%nat then None
  else
    let (a, rest) := span (fun c => negb (c =? ch_slash)) src in
    match inet_pton6 a with
    | None => None
    | Some b =>
      match rest with
      | [] => Some (b, 16%nat)
      | _ :: sep => match getbits sep with
                    | None => None
                    | Some bits => Some (b, Z.to_nat ((bits + 7) / 8))
                    end
      end
    end.

(* ares_dns_pton with family AF_INET6 on a zeroed struct *)
Definition pton6 (s : bytes) : option bytes :=
  match net_pton6 s with
  | Some (b, n) => Some (firstn n b ++ repeat 0 (16 - n))
  | None => None
  end.

(* ares_dns_pton with family AF_UNSPEC on a zeroed struct: IPv4 first; the union keeps what the
   failed IPv4 attempt wrote where the IPv6 copy is shorter than that *)
Definition pton_unspec (s : bytes) : option addr :=
  match pton4_full s with
  | (Some b, _) => Some (A4 b)
  | (None, dirt) =>
    match net_pton6 s with
    | Some (b, n) => Some (A6 (firstn n b ++ skipn n (pad_to 16 dirt)))
    | None => None
    end
  end.

(* ---- inet_ntop ---- *)
Definition ntop4 (b : bytes) : bytes :=
  match b with
  | [a; b; c; d] => dec_of_N a ++ [ch_dot] ++ dec_of_N b ++ [ch_dot] ++ dec_of_N c ++ [ch_dot] ++ dec_of_N d
  | _ => []
  end.

Fixpoint words_of (b : bytes) : list N :=
  match b with
  | hi :: lo :: r => (hi * 256 + lo) :: words_of r
  | _ => []
  end.

(* longest run of zero words: first among the longest; (base, len) *)
Fixpoint best_run (ws : list N) (i : nat) (cur best : option (nat * nat)) : option (nat * nat) :=
  let better cur best :=
    match cur, best with
    | Some (cb, cl), Some (bb, bl) => if (bl <? cl)%nat then cur else best
    | Some _, None => cur
    | None, _ => best
    end in
  match ws with
  | [] => better cur best
  | w :: r =>
    if w =? 0 then
      match cur with
      | None => best_run r (S i) (Some (i, 1%nat)) best
      | Some (cb, cl) => best_run r (S i) (Some (cb, S cl)) best
      end
    else best_run r (S i) None (better cur best)
  end.

Fixpoint ntop6_fmt (ws : list N) (all : list N) (last4 : bytes) (i : nat) (best : option (nat * nat)) : bytes :=
  match ws with
  | [] => []
  | w :: r =>
    let inrun := match best with Some (bb, bl) => (bb <=? i)%nat && (i <? bb + bl)%nat | None => false end in
    if inrun then
      (if match best with Some (bb, _) => (i =? bb)%nat | None => false end then [ch_colon] else [])
        ++ ntop6_fmt r all last4 (S i) best
    else
      let sep := if (i =? 0)%nat then [] else [ch_colon] in
      let v4 := match best with
                | Some (bb, bl) =>
                  (i =? 6)%nat && (bb =? 0)%nat &&
                  ((bl =? 6)%nat || ((bl =? 7)%nat && negb (nth 7 all 0 =? 1)) || ((bl =? 5)%nat && (nth 5 all 0 =? 65535)))
                | None => false
                end in
      if v4 then sep ++ ntop4 last4
      else sep ++ hex_of_N w ++ ntop6_fmt r all last4 (S i) best
  end.

Definition ntop6 (b : bytes) : bytes :=
  let ws := words_of b in
  let best := match best_run ws 0 None None with
              | Some (bb, bl) => if (bl <? 2)%nat then None else Some (bb, bl)
              | None => None
              end in
  ntop6_fmt ws ws (skipn 12 b) 0 best ++
  match best with
  | Some (bb, bl) => if (bb + bl =? 8)%nat then [ch_colon] else []
  | None => []
  end.

Definition ntop (a : addr) : bytes :=
  match a with A4 b => ntop4 b | A6 b => ntop6 b end.
