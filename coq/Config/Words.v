(* Keyword constants of the configuration formats as byte lists. *)
From CAres.Config Require Import Bytes.
From Coq Require Import String.
Local Open Scope string_scope.

Definition w_dns : bytes := Eval compute in bytes_of_string "dns".
Definition w_bind : bytes := Eval compute in bytes_of_string "bind".
Definition w_resolv : bytes := Eval compute in bytes_of_string "resolv".
Definition w_resolve : bytes := Eval compute in bytes_of_string "resolve".
Definition w_files : bytes := Eval compute in bytes_of_string "files".
Definition w_file : bytes := Eval compute in bytes_of_string "file".
Definition w_local : bytes := Eval compute in bytes_of_string "local".
Definition on_ndots : bytes := Eval compute in bytes_of_string "ndots".
Definition on_retrans : bytes := Eval compute in bytes_of_string "retrans".
Definition on_timeout : bytes := Eval compute in bytes_of_string "timeout".
Definition on_retry : bytes := Eval compute in bytes_of_string "retry".
Definition on_attempts : bytes := Eval compute in bytes_of_string "attempts".
Definition on_rotate : bytes := Eval compute in bytes_of_string "rotate".
Definition on_usevc1 : bytes := Eval compute in bytes_of_string "use-vc".
Definition on_usevc2 : bytes := Eval compute in bytes_of_string "usevc".
Definition s_scheme_sep : bytes := Eval compute in bytes_of_string "://".
Definition s_tcpport_eq : bytes := Eval compute in bytes_of_string "tcpport=".
Definition k_domain : bytes := Eval compute in bytes_of_string "domain".
Definition k_lookup : bytes := Eval compute in bytes_of_string "lookup".
Definition k_hostresorder : bytes := Eval compute in bytes_of_string "hostresorder".
Definition k_search : bytes := Eval compute in bytes_of_string "search".
Definition k_nameserver : bytes := Eval compute in bytes_of_string "nameserver".
Definition k_sortlist : bytes := Eval compute in bytes_of_string "sortlist".
Definition k_options : bytes := Eval compute in bytes_of_string "options".
Definition k_hosts : bytes := Eval compute in bytes_of_string "hosts".
