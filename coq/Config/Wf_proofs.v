(* chan_wf (the hypothesis of C16_save_init_id / C16_dup) holds for every channel that
   ares_init_options returns when the option values are C ints and the mask has only defined
   bits. *)
From CAres.Config Require Import Spec Options_proofs.
From CAres.Gen Require Import Consts.
Local Open Scope Z_scope.

(* the mask has no bit at or above 24 *)
Definition fits24 (m : Z) : Prop := 0 <= m < 2 ^ 24.

Lemma fits24_bits m : 0 <= m -> (forall n, 24 <= n -> Z.testbit m n = false) -> fits24 m.
Proof.
  intros H0 H. assert (m mod 2 ^ 24 = m) as E.
  { apply Z.bits_inj'. intros n Hn. destruct (Z.lt_ge_cases n 24).
    - apply Z.mod_pow2_bits_low. lia.
    - rewrite Z.mod_pow2_bits_high by lia. symmetry. apply H. lia. }
  unfold fits24. rewrite <- E. apply Z.mod_pos_bound. reflexivity.
Qed.

Lemma fits24_high m n : fits24 m -> 24 <= n -> Z.testbit m n = false.
Proof.
  intros [H0 H1] Hn. destruct (Z.eq_dec m 0) as [->|Hne]; [apply Z.bits_0|].
  apply Z.bits_above_log2; [lia|]. assert (Z.log2 m < 24); [|lia]. apply Z.log2_lt_pow2; lia.
Qed.

Lemma fits24_clrb m b : 0 <= b -> fits24 m -> fits24 (clrb m b).
Proof.
  intros Hb F. unfold clrb. apply fits24_bits.
  - rewrite Z.clearbit_spec'. apply Z.ldiff_nonneg. left. exact (proj1 F).
  - intros n Hn. destruct (Z.eq_dec b n) as [<-|Hne]; [apply Z.clearbit_eq|]. rewrite Z.clearbit_neq by exact Hne. apply fits24_high; assumption.
Qed.

Lemma fits24_setb m b : 0 <= b < 24 -> fits24 m -> fits24 (setb m b).
Proof.
  intros Hb F. unfold setb. apply fits24_bits.
  - rewrite Z.setbit_spec'. apply Z.lor_nonneg. split; [exact (proj1 F)|apply Z.pow_nonneg; lia].
  - intros n Hn. rewrite Z.setbit_neq by lia. apply fits24_high; assumption.
Qed.

(* option values are C ints *)
Record opts_int (o : options) : Prop := {
  oi_timeout : o_timeout o < 2 ^ 31; oi_tries : o_tries o < 2 ^ 31; oi_ndots : o_ndots o < 2 ^ 31;
  oi_maxtimeout : o_maxtimeout o < 2 ^ 31; oi_sndbuf : o_sndbuf o < 2 ^ 31; oi_rcvbuf : o_rcvbuf o < 2 ^ 31;
  oi_ednspsz : o_ednspsz o < 2 ^ 31; oi_udpmaxq : o_udpmaxq o < 2 ^ 31 }.

#[local] Opaque has setb clrb.

Lemma opt_pos_wf m b v : 0 <= b -> fits24 m -> v < 2 ^ 31 ->
  fits24 (fst (opt_pos m b v 0)) /\ (has (fst (opt_pos m b v 0)) b = true -> int_pos (snd (opt_pos m b v 0))).
Proof.
  intros Hb F Hv. unfold opt_pos. destruct (has m b) eqn:E; cbn [fst snd]; [|split; [exact F|congruence]].
  destruct (Z.leb_spec v 0); cbn [fst snd].
  - split; [apply fits24_clrb; assumption|]. rewrite has_clrb_eq. discriminate.
  - split; [exact F|]. intros _. unfold int_pos. lia.
Qed.

Lemma opt_timeout_wf m v : fits24 m -> v < 2 ^ 31 ->
  fits24 (fst (opt_timeout m v)) /\ has (fst (opt_timeout m v)) B_TIMEOUT = false /\
  (has (fst (opt_timeout m v)) B_TIMEOUTMS = true -> int_pos (snd (opt_timeout m v))).
Proof.
  intros F Hv. unfold opt_timeout, int_pos. destruct (has m B_TIMEOUTMS) eqn:E1.
  - destruct (Z.leb_spec v 0); cbn [fst snd].
    + split; [apply fits24_clrb; [unfold B_TIMEOUTMS; lia|apply fits24_clrb; [unfold B_TIMEOUT; lia|exact F]]|].
      split; [rewrite has_clrb_neq by bits_neq; apply has_clrb_eq|]. rewrite has_clrb_eq. discriminate.
    + split; [apply fits24_clrb; [unfold B_TIMEOUT; lia|exact F]|]. split; [apply has_clrb_eq|].
      intros _. unfold u32. rewrite Z.mod_small by lia. lia.
  - destruct (has m B_TIMEOUT) eqn:E2; cbn [fst snd]; [|split; [exact F|split; [exact E2|congruence]]].
    destruct (Z.ltb_spec 0 v); cbn [fst snd].
    + split; [apply fits24_setb; [unfold B_TIMEOUTMS; lia|apply fits24_clrb; [unfold B_TIMEOUT; lia|exact F]]|].
      split; [rewrite has_setb_neq by (unfold B_TIMEOUTMS, B_TIMEOUT; lia); apply has_clrb_eq|].
      intros _. destruct (Z.ltb_spec 2147483 v); [lia|].
      unfold u32. rewrite (Z.mod_small v) by lia. rewrite Z.mod_small by lia. lia.
    + split; [apply fits24_clrb; [unfold B_TIMEOUT; lia|exact F]|]. split; [apply has_clrb_eq|].
      rewrite has_clrb_neq by bits_neq. congruence.
Qed.

Section WithNet.
Variable nf : netfns.

Theorem init_options_wf e o m c :
  opts_int o -> fits24 m -> init_options nf e o m = Ok c -> chan_wf c.
Proof.
  intros OI Fm H. unfold init_options in H.
  destruct (init_by_options o m) as [c0| |] eqn:E0; cbn [bind] in H; try discriminate.
  destruct (init_by_sysconfig nf e (chan_set_ifs c0 (e_defifs e))) as [c1| |] eqn:E1; cbn [bind] in H; try discriminate.
  destruct (init_by_defaults e c1) as [c2| |] eqn:E2; cbn [bind] in H; try discriminate.
  apply Ok_inj in H. subst c.
  assert (guarded_same c0 c1) as G.
  { apply (guarded_same_set_ifs c0 (e_defifs e)). unfold init_by_sysconfig in E1.
    destruct (read_sysconfig nf (c_ifs (chan_set_ifs c0 (e_defifs e))) e) as [s|st|k]; try discriminate.
    - apply Ok_inj in E1. subst c1. apply sysconfig_apply_user_wins.
    - destruct (st =? NotModelled); [discriminate|]. apply Ok_inj in E1. subst c1. apply guarded_same_refl. }
  unfold init_by_defaults in E2.
  destruct (match c_servers c1 with [] => _ | _ => _ end) as [srv| |]; cbn [bind] in E2; try discriminate.
  apply Ok_inj in E2. subst c2.
  destruct (gs_rest _ _ G) as (R1 & R2 & R3 & R4 & R5 & R6 & R7 & R8 & _).
  pose proof (gs_mask _ _ G) as M1.
  (* stage 1, step by step *)
  unfold init_by_options in E0. cbv zeta in E0. apply Ok_inj in E0.
  destruct (opt_timeout_wf m (o_timeout o) Fm (oi_timeout o OI)) as (F1 & T1 & V1).
  set (m1 := fst (opt_timeout m (o_timeout o))) in *.
  destruct (opt_pos_wf m1 B_TRIES (o_tries o) ltac:(unfold B_TRIES; lia) F1 (oi_tries o OI)) as (F2 & V2).
  set (m2 := fst (opt_pos m1 B_TRIES (o_tries o) 0)) in *.
  assert (fits24 (fst (opt_ndots m2 (o_ndots o))) /\
          (has (fst (opt_ndots m2 (o_ndots o))) B_NDOTS = true -> 0 <= snd (opt_ndots m2 (o_ndots o)) < 2 ^ 31)) as (F3 & V3).
  { unfold opt_ndots. destruct (has m2 B_NDOTS) eqn:E; cbn [fst snd]; [|split; [exact F2|congruence]].
    destruct (Z.ltb_spec (o_ndots o) 0); cbn [fst snd].
    - split; [apply fits24_clrb; [unfold B_NDOTS; lia|exact F2]|]. rewrite has_clrb_eq. discriminate.
    - split; [exact F2|]. intros _. pose proof (oi_ndots o OI). lia. }
  set (m3 := fst (opt_ndots m2 (o_ndots o))) in *.
  destruct (opt_pos_wf m3 B_MAXTIMEOUTMS (o_maxtimeout o) ltac:(unfold B_MAXTIMEOUTMS; lia) F3 (oi_maxtimeout o OI)) as (F4 & V4).
  set (m4 := fst (opt_pos m3 B_MAXTIMEOUTMS (o_maxtimeout o) 0)) in *.
  destruct (opt_pos_wf m4 B_SOCK_SNDBUF (o_sndbuf o) ltac:(unfold B_SOCK_SNDBUF; lia) F4 (oi_sndbuf o OI)) as (F5 & V5).
  set (m5 := fst (opt_pos m4 B_SOCK_SNDBUF (o_sndbuf o) 0)) in *.
  destruct (opt_pos_wf m5 B_SOCK_RCVBUF (o_rcvbuf o) ltac:(unfold B_SOCK_RCVBUF; lia) F5 (oi_rcvbuf o OI)) as (F6 & V6).
  set (m6 := fst (opt_pos m5 B_SOCK_RCVBUF (o_rcvbuf o) 0)) in *.
  destruct (opt_pos_wf m6 B_EDNSPSZ (o_ednspsz o) ltac:(unfold B_EDNSPSZ; lia) F6 (oi_ednspsz o OI)) as (F7 & V7).
  set (m7 := fst (opt_pos m6 B_EDNSPSZ (o_ednspsz o) 0)) in *.
  assert (fits24 (fst (opt_lookups m7 (o_lookups o))) /\
          (has (fst (opt_lookups m7 (o_lookups o))) B_LOOKUPS = true -> snd (opt_lookups m7 (o_lookups o)) <> None)) as (F8 & V8).
  { unfold opt_lookups. destruct (has m7 B_LOOKUPS) eqn:E; cbn [fst snd]; [|split; [exact F7|congruence]].
    destruct (o_lookups o); cbn [fst snd]; [split; [exact F7|discriminate]|].
    split; [apply fits24_clrb; [unfold B_LOOKUPS; lia|exact F7]|]. rewrite has_clrb_eq. discriminate. }
  set (m8 := fst (opt_lookups m7 (o_lookups o))) in *.
  destruct (opt_pos_wf m8 B_UDP_MAX_QUERIES (o_udpmaxq o) ltac:(unfold B_UDP_MAX_QUERIES; lia) F8 (oi_udpmaxq o OI)) as (F9 & V9).
  set (m9 := fst (opt_pos m8 B_UDP_MAX_QUERIES (o_udpmaxq o) 0)) in *.
  assert (fits24 (fst (opt_qcache m9 (o_qcache o))) /\ has (fst (opt_qcache m9 (o_qcache o))) B_QUERY_CACHE = true) as (F10 & V10).
  { unfold opt_qcache. destruct (has m9 B_QUERY_CACHE) eqn:E; cbn [fst]; [split; [exact F9|exact E]|].
    split; [apply fits24_setb; [unfold B_QUERY_CACHE; lia|exact F9]|apply has_setb_eq; unfold B_QUERY_CACHE; lia]. }
  set (m10 := fst (opt_qcache m9 (o_qcache o))) in *.
  match type of E0 with context [opt_servers m10 ?f ?u ?t ?l] =>
    assert (fits24 (fst (opt_servers m10 f u t l))) as F11
      by (unfold opt_servers; destruct (has m10 B_SERVERS); [destruct l; cbn [fst]; [apply fits24_clrb; [unfold B_SERVERS; lia|exact F10]|exact F10]|exact F10]);
    set (m11 := fst (opt_servers m10 f u t l)) in * end.
  assert (u32 m11 = m11) as Um. { unfold u32. apply Z.mod_small. unfold fits24 in F11. change (2 ^ 24) with 16777216 in F11. change (2 ^ 32) with 4294967296. lia. }
  (* how a bit of the final mask reads back through the steps that do not own it *)
  assert (forall b, 0 <= b < 32 -> b <> B_SERVERS -> has m11 b = has m10 b) as B11.
  { intros b Hb Hne. unfold m11. apply opt_servers_other. congruence. }
  subst c0. cbn [c_optmask c_flags c_timeout c_tries c_ndots c_maxtimeout c_sndbuf c_rcvbuf c_ednspsz c_udpmaxq c_lookups c_rotate] in *.
  rewrite Um in *.
  constructor; cbn [c_optmask c_flags c_timeout c_tries c_ndots c_maxtimeout c_sndbuf c_rcvbuf c_ednspsz c_udpmaxq c_lookups c_rotate]; rewrite ?M1.
  - unfold fits24 in F11. change (2 ^ 24) with 16777216 in F11. change (2 ^ 31) with 2147483648. lia.
  - rewrite B11 by bits_neq. unfold m10, m9, m8, m7, m6, m5, m4, m3, m2. mask_chain. exact T1.
  - rewrite B11 by bits_neq. exact V10.
  - destruct (has m11 B_FLAGS) eqn:Ef.
    + rewrite (gs_flags _ _ G) by exact Ef. cbn [c_flags]. destruct (has m B_FLAGS); [apply u32_range_flags|change (2 ^ 32) with 4294967296; lia].
    + unfold ARES_FLAG_EDNS. change (2 ^ 32) with 4294967296. lia.
  - intros Hb. rewrite (gs_timeout _ _ G) by exact Hb. cbn [c_timeout].
    assert (has m1 B_TIMEOUTMS = true) as Hb1.
    { rewrite B11 in Hb by bits_neq. revert Hb. unfold m10, m9, m8, m7, m6, m5, m4, m3, m2. mask_chain. auto. }
    pose proof (V1 Hb1) as [A B0]. destruct (Z.eqb_spec (snd (opt_timeout m (o_timeout o))) 0); [lia|]. split; lia.
  - intros Hb. rewrite (gs_tries _ _ G) by exact Hb. cbn [c_tries].
    assert (has m2 B_TRIES = true) as Hb1.
    { rewrite B11 in Hb by bits_neq. revert Hb. unfold m10, m9, m8, m7, m6, m5, m4, m3. mask_chain. auto. }
    pose proof (V2 Hb1) as [A B0]. destruct (Z.eqb_spec (snd (opt_pos m1 B_TRIES (o_tries o) 0)) 0); [lia|]. split; lia.
  - intros Hb. rewrite (gs_ndots _ _ G) by exact Hb. cbn [c_ndots].
    apply V3. rewrite B11 in Hb by bits_neq. revert Hb. unfold m10, m9, m8, m7, m6, m5, m4. mask_chain. auto.
  - intros Hb. rewrite R1. apply V4. rewrite B11 in Hb by bits_neq. revert Hb. unfold m10, m9, m8, m7, m6, m5. mask_chain. auto.
  - intros Hb. rewrite R4. apply V5. rewrite B11 in Hb by bits_neq. revert Hb. unfold m10, m9, m8, m7, m6. mask_chain. auto.
  - intros Hb. rewrite R5. apply V6. rewrite B11 in Hb by bits_neq. revert Hb. unfold m10, m9, m8, m7. mask_chain. auto.
  - intros Hb. rewrite R6.
    assert (has m7 B_EDNSPSZ = true) as Hb1.
    { rewrite B11 in Hb by bits_neq. revert Hb. unfold m10, m9, m8. mask_chain. auto. }
    pose proof (V7 Hb1) as [A B0]. destruct (Z.eqb_spec (snd (opt_pos m6 B_EDNSPSZ (o_ednspsz o) 0)) 0); [lia|]. split; lia.
  - intros Hb. rewrite R8. apply V9. rewrite B11 in Hb by bits_neq. revert Hb. unfold m10. mask_chain. auto.
  - intros Hb. rewrite (gs_lookups _ _ G) by exact Hb. cbn [c_lookups].
    assert (has m8 B_LOOKUPS = true) as Hb1.
    { rewrite B11 in Hb by bits_neq. revert Hb. unfold m10, m9. mask_chain. auto. }
    pose proof (V8 Hb1). destruct (snd (opt_lookups m7 (o_lookups o))); [discriminate|congruence].
  - intros Hb. rewrite (gs_rotate _ _ G) by (cbn [c_optmask]; rewrite Hb; apply orb_true_r). cbn [c_rotate].
    assert (has m4 B_NOROTATE = true) as Hb1.
    { rewrite B11 in Hb by bits_neq. revert Hb. unfold m10, m9, m8, m7, m6, m5. mask_chain. auto. }
    rewrite Hb1. reflexivity.
  - intros Hb Hn. rewrite (gs_rotate _ _ G) by (cbn [c_optmask]; rewrite Hb; reflexivity). cbn [c_rotate].
    assert (has m4 B_NOROTATE = false /\ has m4 B_ROTATE = true) as [Hn1 Hb1].
    { rewrite B11 in Hb, Hn by bits_neq. revert Hb Hn. unfold m10, m9, m8, m7, m6, m5. mask_chain. auto. }
    rewrite Hn1, Hb1. reflexivity.
Qed.

(* C16_save_init_id for every channel ares_init_options produces *)
Corollary save_init_of_init g e e' o m c o' m' c1 :
  opts_int o -> fits24 m -> init_options nf e o m = Ok c ->
  (has (c_optmask c) B_DOMAINS = true -> c_domains c <> []) ->
  save_options g c = Ok (o', m') -> init_options nf e' o' m' = Ok c1 -> covered_same c c1.
Proof.
  intros OI Fm Hi Hd Hs Hi'. eapply save_init_effective; [eapply init_options_wf; eassumption|exact Hd|exact Hs|exact Hi'].
Qed.

End WithNet.
