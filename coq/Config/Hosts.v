(* Model of the hosts file reader (src/lib/ares_hosts_file.c): ares_parse_hosts,
   ares_parse_hosts_ipaddr, ares_parse_hosts_hostnames, ares_hosts_entry_isdup,
   ares_hosts_file_match / _merge_entry / _add, and the lookup by host name.

   The C reader walks the buffer and finishes every line with ares_buf_consume_line(); no step
   crosses a line feed, so the model reads the file as its raw lines.  Entries live in a list and
   are referred to by index (the C code's pointers): [hf_ip] and [hf_host] are the two hash
   tables (case-insensitive string keys, an existing key is never replaced).  A table entry
   that points outside the list would be a dangling pointer: the lookup makes that an explicit
   UB UseAfterFree, and Hosts_proofs.v shows it cannot happen.  Allocation failure is not
   modelled. *)
From CAres.Config Require Export Lines.
From CAres.Gen Require Import Consts.
Local Open Scope N_scope.

Record hentry := mkHentry { he_ips : list bytes; he_hosts : list bytes }.
Record hfile := mkHfile { hf_entries : list hentry; hf_ip : list (bytes * nat); hf_host : list (bytes * nat) }.

Definition hf_empty : hfile := mkHfile [] [] [].

(* ares_htable_strvp_get: keys compare case-insensitively *)
Fixpoint hget (tbl : list (bytes * nat)) (k : bytes) : option nat :=
  match tbl with
  | [] => None
  | (k', i) :: r => if bytes_caseeq k' k then Some i else hget r k
  end.

(* ares_htable_strvp_insert guarded by "if not present" as in every use in this file *)
Definition hput (tbl : list (bytes * nat)) (k : bytes) (i : nat) : list (bytes * nat) :=
  match hget tbl k with Some _ => tbl | None => tbl ++ [(k, i)] end.

(* ares_is_whitespace(c, ARES_FALSE) / (c, ARES_TRUE) *)
Definition is_ws_nolf (c : N) : bool := (c =? 13) || (c =? 9) || (c =? 32) || (c =? 11) || (c =? 12).
Definition s_ws : bytes := [13; 9; 32; 11; 12; 10].

(* the raw lines of a file: the sections between line feeds, nothing trimmed or dropped *)
Fixpoint raw_lines_go (l cur : bytes) : list bytes :=
  match l with
  | [] => [frev cur]
  | c :: r => if c =? ch_nl then frev cur :: raw_lines_go r [] else raw_lines_go r (c :: cur)
  end.
Definition raw_lines (content : bytes) : list bytes := raw_lines_go content [].

Section WithNet.
Variable nf : netfns.

(* ares_parse_hosts_hostnames over the blank-separated tokens after the address: stops at a
   token that starts a comment; None = ARES_EBADSTR (bad line) *)
Fixpoint host_tokens (ip : bytes) (toks : list bytes) (acc : list bytes) : option (list bytes) :=
  match toks with
  | [] => Some acc
  | t :: r =>
    match t with
    | c :: _ =>
      if c =? ch_hash then Some acc
      else match fetch_string 256 t with
           | Ok h =>
             if negb (forallb is_hostnamech h) then host_tokens ip r acc
             else if bytes_caseeq ip h then host_tokens ip r acc       (* ares_hosts_entry_isdup walks entry->ips *)
             else host_tokens ip r (acc ++ [h])
           | _ => match acc with [] => None | _ => host_tokens ip r acc end
           end
    | [] => host_tokens ip r acc
    end
  end.

(* one line: Some (normalised address text, host names) or None (comment, blank, bad line) *)
Definition parse_hosts_line (line : bytes) : option (bytes * list bytes) :=
  match dropwhile is_ws_nolf line with
  | [] => None
  | (c :: _) as l1 =>
    if c =? ch_hash then None
    else
      let sp := span (fun c => negb (isspace c)) l1 in
      match fetch_string 46 (fst sp) with
      | Ok a =>
        match nf_pton nf a with
        | None => None
        | Some addr =>
          let ip := nf_ntop nf addr in
          match host_tokens ip (buf_split s_ws false false false 0 (snd sp)) [] with
          | Some (h :: hs) => Some (ip, h :: hs)
          | _ => None
          end
        end
      | _ => None
      end
  end.

End WithNet.

(* ares_hosts_file_match *)
Inductive hmatch := MatchNone | MatchIp (i : nat) | MatchHost (i : nat).

Fixpoint first_host_match (tbl : list (bytes * nat)) (hosts : list bytes) : option nat :=
  match hosts with
  | [] => None
  | h :: r => match hget tbl h with Some i => Some i | None => first_host_match tbl r end
  end.

Definition hosts_match (hf : hfile) (ip : bytes) (hosts : list bytes) : hmatch :=
  match hget (hf_ip hf) ip with
  | Some i => MatchIp i
  | None => match first_host_match (hf_host hf) hosts with Some i => MatchHost i | None => MatchNone end
  end.

Definition lastn {A} (n : nat) (l : list A) : list A := skipn (length l - n) l.

Definition set_nth {A} (l : list A) (i : nat) (x : A) : list A := firstn i l ++ x :: skipn (S i) l.

(* the backwards walk over the last [num] host names of the entry: insert what is not yet a key *)
Definition index_hosts (tbl : list (bytes * nat)) (hosts : list bytes) (num i : nat) : list (bytes * nat) :=
  fold_left (fun t h => hput t h i) (rev (lastn num hosts)) tbl.

(* ares_hosts_file_add (with ares_hosts_file_merge_entry); UB when the matched index dangles *)
Definition hosts_file_add (hf : hfile) (ip : bytes) (hosts : list bytes) : outcome hfile :=
  let num := length hosts in
  match hosts_match hf ip hosts with
  | MatchNone =>
    let i := length (hf_entries hf) in
    Ok (mkHfile (hf_entries hf ++ [mkHentry [ip] hosts]) (hput (hf_ip hf) ip i) (index_hosts (hf_host hf) hosts num i))
  | MatchIp i =>
    match nth_error (hf_entries hf) i with
    | None => UB UseAfterFree
    | Some e =>
      let hosts' := he_hosts e ++ filter (fun h => match hget (hf_host hf) h with Some _ => false | None => true end) hosts in
      Ok (mkHfile (set_nth (hf_entries hf) i (mkHentry (he_ips e) hosts')) (hf_ip hf) (index_hosts (hf_host hf) hosts' num i))
    end
  | MatchHost i =>
    match nth_error (hf_entries hf) i with
    | None => UB UseAfterFree
    | Some e =>
      let ips' := he_ips e ++ (match hget (hf_ip hf) ip with Some _ => [] | None => [ip] end) in
      let hosts' := he_hosts e ++ filter (fun h => match hget (hf_host hf) h with Some _ => false | None => true end) hosts in
      let last_ip := last ips' ip in
      Ok (mkHfile (set_nth (hf_entries hf) i (mkHentry ips' hosts')) (hput (hf_ip hf) last_ip i) (index_hosts (hf_host hf) hosts' num i))
    end
  end.

Section WithNet2.
Variable nf : netfns.

Definition hosts_add_line (hf : hfile) (line : bytes) : outcome hfile :=
  match parse_hosts_line nf line with
  | None => Ok hf
  | Some (ip, hosts) => hosts_file_add hf ip hosts
  end.

Fixpoint hosts_add_lines (hf : hfile) (ls : list bytes) : outcome hfile :=
  match ls with
  | [] => Ok hf
  | l :: r => do hf' <- hosts_add_line hf l; hosts_add_lines hf' r
  end.

(* ares_parse_hosts *)
Definition parse_hosts (content : bytes) : outcome hfile := hosts_add_lines hf_empty (raw_lines content).

End WithNet2.

(* ares_hosts_search_host: the entry for a name, None = ARES_ENOTFOUND *)
Definition hosts_search_host (hf : hfile) (name : bytes) : outcome (option hentry) :=
  match hget (hf_host hf) name with
  | None => Ok None
  | Some i => match nth_error (hf_entries hf) i with Some e => Ok (Some e) | None => UB UseAfterFree end
  end.
