(* C16_csv_fixpoint, entry level, plain form: the text ares_get_servers_csv renders for a server list whose
   servers use one port for UDP and TCP parses back, through ares_sconfig_append_fromstr and
   ares_servers_update, to the same list.  Address printing / parsing is abstract: the theorem
   assumes inet_pton (inet_ntop a) = a and the character shape of inet_ntop's output; both are
   sampled by the correspondence run on every generated address. *)
From CAres.Config Require Import Spec Lines_proofs.
From CAres.Gen Require Import Consts LeafFns.
Local Open Scope N_scope.

(* ------------------------------------------------------------------ list facts *)
Lemma mem_In c s : mem c s = true -> In c s.
Proof. unfold mem. intros H. apply existsb_exists in H as (x & Hx & E). apply N.eqb_eq in E. subst. exact Hx. Qed.

Lemma In_mem c s : In c s -> mem c s = true.
Proof. intros H. unfold mem. apply existsb_exists. exists c. split; [exact H|apply N.eqb_refl]. Qed.

Lemma mem_false_notin c s : mem c s = false -> ~ In c s.
Proof. intros H Hin. apply In_mem in Hin. congruence. Qed.

Lemma index_of_app_hit c a r : ~ In c a -> index_of c (a ++ c :: r) = Some (length a).
Proof.
  induction a as [|x a IH]; intros H; simpl.
  - rewrite N.eqb_refl. reflexivity.
  - destruct (N.eqb_spec x c) as [->|Hne]; [exfalso; apply H; left; reflexivity|].
    rewrite IH; [reflexivity|]. intros Hin. apply H. right. exact Hin.
Qed.

Lemma index_of_app_l c a r k : index_of c a = Some k -> index_of c (a ++ r) = Some k.
Proof.
  revert k. induction a as [|x a IH]; intros k H; simpl in *; [discriminate|].
  destruct (x =? c); [exact H|]. destruct (index_of c a) as [j|]; [|discriminate].
  rewrite (IH j eq_refl). exact H.
Qed.

Lemma firstn_app_exact {A} (a r : list A) : firstn (length a) (a ++ r) = a.
Proof. induction a; simpl; [destruct r; reflexivity|f_equal; assumption]. Qed.

Lemma skipn_app_exact {A} (a r : list A) : skipn (length a) (a ++ r) = r.
Proof. induction a; simpl; [reflexivity|assumption]. Qed.

Lemma skipn_S_app {A} (a : list A) c r : skipn (S (length a)) (a ++ c :: r) = r.
Proof. induction a; simpl; [reflexivity|assumption]. Qed.

Lemma find_seq_no_slash t : ~ In ch_slash t -> find_seq s_scheme_sep t = None.
Proof.
  induction t as [|x t IH]; intros H; [reflexivity|].
  assert (is_prefix s_scheme_sep (x :: t) = false) as Hp.
  { unfold s_scheme_sep. cbn [is_prefix]. destruct (N.eqb 58 x); [|reflexivity]. destruct t as [|y t']; [reflexivity|].
    cbn [andb]. destruct (N.eqb_spec 47 y) as [E|E]; [|reflexivity]. exfalso. apply H. right. left. symmetry. exact E. }
  cbn [find_seq]. rewrite Hp. rewrite IH; [reflexivity|]. intros Hin. apply H. right. exact Hin.
Qed.

Lemma dropwhile_nonspace c r : isspace c = false -> dropwhile isspace (c :: r) = c :: r.
Proof. intros H. unfold dropwhile. simpl. rewrite H. reflexivity. Qed.

(* ------------------------------------------------------------------ character sets *)
Lemma ipcharset_props : forallb (fun c => isprint c && negb (isspace c) && negb (c =? ch_rbr) && negb (c =? ch_lbr)
                                   && negb (c =? ch_slash) && negb (c =? ch_comma) && negb (c =? ch_pct)) s_ipcharset = true.
Proof. vm_compute. reflexivity. Qed.

Lemma ifacecharset_props : forallb (fun c => isprint c && negb (isspace c) && negb (c =? ch_slash) && negb (c =? ch_comma)
                                      && negb (c =? ch_space)) s_ifacecharset = true.
Proof. vm_compute. reflexivity. Qed.

Lemma digits_dot_sub_ipcharset : forallb (fun c => mem c s_ipcharset) s_digits_dot = true.
Proof. vm_compute. reflexivity. Qed.

Lemma digit_props c : isdigit c = true ->
  isprint c = true /\ isspace c = false /\ c <> ch_slash /\ c <> ch_comma /\ c <> ch_space /\ c <> ch_pct /\ c <> ch_colon.
Proof.
  unfold isdigit, isprint, isspace, ch_slash, ch_comma, ch_space, ch_pct, ch_colon. intros H.
  apply andb_true_iff in H as [H1 H2]. apply N.leb_le in H1, H2.
  repeat split; try (intros ->; lia).
  - apply andb_true_iff. split; apply N.leb_le; lia.
  - repeat (apply orb_false_iff; split); apply N.eqb_neq; lia.
Qed.

Definition ip_char_ok (c : N) : Prop :=
  isprint c = true /\ isspace c = false /\ c <> ch_rbr /\ c <> ch_lbr /\ c <> ch_slash /\ c <> ch_comma /\ c <> ch_pct /\ c <> ch_space.

Lemma ipcharset_char c : mem c s_ipcharset = true -> ip_char_ok c.
Proof.
  intros H. apply mem_In in H. pose proof ipcharset_props as P. rewrite forallb_forall in P. specialize (P c H).
  repeat (apply andb_true_iff in P as [P ?]).
  repeat match goal with Hx : negb _ = true |- _ => apply negb_true_iff in Hx end.
  repeat match goal with Hx : (_ =? _) = false |- _ => apply N.eqb_neq in Hx end.
  unfold ip_char_ok. repeat split; auto.
  - unfold isprint. rewrite P. assumption.
  - intros ->. vm_compute in H5. discriminate.
Qed.

Definition iface_char_ok (c : N) : Prop :=
  isprint c = true /\ isspace c = false /\ c <> ch_slash /\ c <> ch_comma /\ c <> ch_space.

Lemma ifacecharset_char c : mem c s_ifacecharset = true -> iface_char_ok c.
Proof.
  intros H. apply mem_In in H. pose proof ifacecharset_props as P. rewrite forallb_forall in P. specialize (P c H).
  repeat (apply andb_true_iff in P as [P ?]).
  repeat match goal with Hx : negb _ = true |- _ => apply negb_true_iff in Hx end.
  repeat match goal with Hx : (_ =? _) = false |- _ => apply N.eqb_neq in Hx end.
  unfold iface_char_ok. repeat split; auto.
  unfold isprint. rewrite P. assumption.
Qed.

Lemma forallb_impl {A} (p q : A -> bool) l : (forall x, p x = true -> q x = true) -> forallb p l = true -> forallb q l = true.
Proof. intros H. induction l; simpl; [auto|]. intros E. apply andb_true_iff in E as [E1 E2]. rewrite (H _ E1), IHl; auto. Qed.

Lemma Ok_inj_csv {A} (a b : A) : Ok a = Ok b -> a = b.
Proof. intros H; inversion H; reflexivity. Qed.

Section WithNet.
Variable nf : netfns.

(* ------------------------------------------------------------------ what is assumed of inet_ntop / inet_pton *)
(* per address: printing then parsing gives the address back, and the printed text has the shape
   of inet_ntop output.  For a concrete address and the functions of Inet.v this is checked by
   computation (see csv_fixpoint_example); the correspondence run samples it on the real
   ares_inet_ntop / ares_inet_pton for every generated address. *)
Definition addr_good (a : addr) : Prop :=
  nf_pton nf (nf_ntop nf a) = Some a /\
  match a with
  | A4 _ => forallb (fun c => mem c s_digits_dot) (nf_ntop nf a) = true /\
            (exists k, index_of ch_dot (nf_ntop nf a) = Some k /\ (0 < k < 4)%nat) /\
            (length (nf_ntop nf a) <= 15)%nat
  | A6 _ => forallb (fun c => mem c s_ipcharset) (nf_ntop nf a) = true /\
            nf_ntop nf a <> [] /\ (length (nf_ntop nf a) <= 45)%nat
  end.

Lemma pton_ntop a : addr_good a -> nf_pton nf (nf_ntop nf a) = Some a.
Proof. intros [H _]. exact H. Qed.

Lemma ntop4_shape b : addr_good (A4 b) ->
  forallb (fun c => mem c s_digits_dot) (nf_ntop nf (A4 b)) = true /\
  (exists k, index_of ch_dot (nf_ntop nf (A4 b)) = Some k /\ (0 < k < 4)%nat) /\
  (length (nf_ntop nf (A4 b)) <= 15)%nat.
Proof. intros [_ H]. exact H. Qed.

Lemma ntop6_shape b : addr_good (A6 b) ->
  forallb (fun c => mem c s_ipcharset) (nf_ntop nf (A6 b)) = true /\
  nf_ntop nf (A6 b) <> [] /\ (length (nf_ntop nf (A6 b)) <= 45)%nat.
Proof. intros [_ H]. exact H. Qed.

Lemma ntop_chars a : addr_good a -> Forall ip_char_ok (nf_ntop nf a).
Proof.
  intros G. apply Forall_forall. intros c Hc. apply ipcharset_char.
  destruct a as [b|b].
  - destruct (ntop4_shape b G) as (H & _ & _). rewrite forallb_forall in H. specialize (H c Hc).
    pose proof digits_dot_sub_ipcharset as S. rewrite forallb_forall in S. apply S. apply mem_In. exact H.
  - destruct (ntop6_shape b G) as (H & _ & _). rewrite forallb_forall in H. exact (H c Hc).
Qed.

Lemma ntop_printable a : addr_good a -> forallb isprint (nf_ntop nf a) = true.
Proof. intros G. apply forallb_forall. intros c Hc. pose proof (ntop_chars a G) as F. rewrite Forall_forall in F. apply (F c Hc). Qed.

Lemma ntop_notin a c : addr_good a -> ~ ip_char_ok c -> ~ In c (nf_ntop nf a).
Proof. intros G H Hin. pose proof (ntop_chars a G) as F. rewrite Forall_forall in F. apply H. apply (F c Hin). Qed.

Lemma ntop_no c a : addr_good a -> (c = ch_rbr \/ c = ch_slash \/ c = ch_comma \/ c = ch_space \/ c = ch_pct \/ c = ch_lbr) -> ~ In c (nf_ntop nf a).
Proof. intros G H. apply ntop_notin; [exact G|]. unfold ip_char_ok. intuition congruence. Qed.

Lemma ntop_length a : addr_good a -> (length (nf_ntop nf a) <= 45)%nat.
Proof. intros G. destruct a as [b|b]; [destruct (ntop4_shape b G) as (_ & _ & H); lia|destruct (ntop6_shape b G) as (_ & _ & H); exact H]. Qed.

Lemma ntop_nonempty a : addr_good a -> nf_ntop nf a <> [].
Proof.
  intros G. destruct a as [b|b]; [|destruct (ntop6_shape b G) as (_ & H & _); exact H].
  destruct (ntop4_shape b G) as (_ & (k & Hk & _) & _). intros E. rewrite E in Hk. discriminate.
Qed.

Lemma fetch_ntop a : addr_good a -> fetch_string 46 (nf_ntop nf a) = Ok (nf_ntop nf a).
Proof.
  intros G. unfold fetch_string. pose proof (ntop_length a G). destruct (Nat.ltb_spec (46 - 1) (length (nf_ntop nf a))); [simpl in *; lia|].
  rewrite (ntop_printable a G). reflexivity.
Qed.

(* ------------------------------------------------------------------ ports *)
Definition port_ok (p : Z) : Prop := (1 <= p < 65536)%Z.

Lemma dec_port p : port_ok p ->
  forallb isdigit (dec_of_Z p) = true /\ dec_of_Z p <> [] /\ (length (dec_of_Z p) <= 5)%nat /\ atoi (dec_of_Z p) = Ok p.
Proof.
  intros H. destruct (dec_u16_digits p) as (A & B & C); [unfold port_ok in H; lia|].
  repeat split; auto. apply atoi_dec_u16. unfold port_ok in H. lia.
Qed.

Lemma fetch_port p : port_ok p -> fetch_string 6 (dec_of_Z p) = Ok (dec_of_Z p).
Proof.
  intros H. destruct (dec_port p H) as (A & _ & C & _). unfold fetch_string.
  destruct (Nat.ltb_spec (6 - 1) (length (dec_of_Z p))); [simpl in *; lia|].
  rewrite (forallb_impl isdigit isprint); [reflexivity| |exact A]. intros x Hx. apply (digit_props x Hx).
Qed.

(* the port and interface suffix of the plain form:  ":" port ["%" iface] *)
Definition plain_suffix (p : Z) (iface : bytes) : bytes :=
  [ch_colon] ++ dec_of_Z p ++ match iface with [] => [] | i => [ch_pct] ++ i end.

Definition iface_text_ok (i : bytes) : Prop :=
  forallb (fun c => mem c s_ifacecharset) i = true /\ (length i <= 15)%nat.

Lemma iface_printable i : iface_text_ok i -> forallb isprint i = true.
Proof. intros [H _]. eapply forallb_impl; [|exact H]. intros x Hx. apply (ifacecharset_char x Hx). Qed.

(* what parse_nameserver does after the address: port, interface, end of text *)
Lemma parse_suffix a p iface :
  addr_good a -> port_ok p -> iface_text_ok iface ->
  (let rest := plain_suffix p iface in
   match nf_pton nf (nf_ntop nf a) with
   | None => Err ARES_EBADSTR
   | Some a0 =>
     do pr <- (if match rest with c :: _ => c =? ch_colon | [] => false end then
                 let sp := span isdigit (tl rest) in
                 match fst sp with
                 | [] => Err ARES_EBADSTR
                 | ds => do ps <- fetch_string 6 ds; do p0 <- atoi ps;
                         if (65535 <? p0)%Z then Err ARES_EBADSTR else Ok (p0, snd sp)
                 end
               else Ok (0%Z, rest));
     let port := fst pr in
     let rest2 := snd pr in
     do ir <- (if match rest2 with c :: _ => c =? ch_pct | [] => false end then
                 let sp := span (fun c => mem c s_ifacecharset) (tl rest2) in
                 match fst sp with
                 | [] => Err ARES_EBADSTR
                 | ifc => do i <- fetch_string 16 ifc; Ok (i, snd sp)
                 end
               else Ok ([], rest2));
     let iface0 := fst ir in
     let rest3 := snd ir in
     match dropwhile isspace rest3 with
     | [] => Ok (mkSconf a0 port port iface0 0)
     | _ => Err ARES_EBADSTR
     end
   end) = Ok (mkSconf a p p iface 0).
Proof.
  intros G Hp Hi. cbv zeta. rewrite (pton_ntop a G).
  destruct (dec_port p Hp) as (Dd & Dne & Dl & Da).
  unfold plain_suffix. cbn [app]. change ((ch_colon =? ch_colon)) with true. cbn [tl].
  destruct iface as [|i0 ir].
  - rewrite app_nil_r. rewrite (span_all_end isdigit _ Dd). cbn [fst snd].
    destruct (dec_of_Z p) as [|d0 dr] eqn:Ed; [congruence|].
    rewrite <- Ed in *. rewrite (fetch_port p Hp). cbn [bind]. rewrite Da. cbn [bind].
    destruct (Z.ltb_spec 65535 p); [unfold port_ok in Hp; lia|]. reflexivity.
  - rewrite (span_all isdigit (dec_of_Z p) ch_pct (i0 :: ir) Dd eq_refl). cbn [fst snd].
    destruct (dec_of_Z p) as [|d0 dr] eqn:Ed; [congruence|].
    rewrite <- Ed in *. rewrite (fetch_port p Hp). cbn [bind]. rewrite Da. cbn [bind].
    destruct (Z.ltb_spec 65535 p); [unfold port_ok in Hp; lia|]. cbn [bind fst snd].
    change (ch_pct =? ch_pct) with true. cbn [tl].
    destruct Hi as [Hic Hil]. rewrite (span_all_end _ _ Hic). cbn [fst snd].
    assert (fetch_string 16 (i0 :: ir) = Ok (i0 :: ir)) as Ef.
    { unfold fetch_string. destruct (Nat.ltb_spec (16 - 1) (length (i0 :: ir))); [simpl in *; lia|].
      rewrite (iface_printable (i0 :: ir) (conj Hic Hil)). reflexivity. }
    rewrite Ef. cbn [bind fst snd dropwhile span]. reflexivity.
Qed.

(* ------------------------------------------------------------------ one entry: render, then parse *)
(* the plain text of a server whose two ports are equal *)
Definition plain_text (a : addr) (p : Z) (iface : bytes) : bytes :=
  (match a with A6 _ => [ch_lbr] ++ nf_ntop nf a ++ [ch_rbr] | A4 _ => nf_ntop nf a end) ++ plain_suffix p iface.

Lemma get_server_addr_plain sv : sv_tcp sv = sv_udp sv ->
  get_server_addr nf sv = Ok (plain_text (sv_addr sv) (sv_udp sv) (sv_iface sv)).
Proof.
  intros E. unfold get_server_addr, use_uri, LeafFns.c_ares_server_use_uri. rewrite E, Z.eqb_refl. cbn [negb].
  change (negb (ARES_FALSE =? 0)%Z) with false. cbv iota.
  unfold plain_text, plain_suffix. destruct (sv_addr sv), (sv_iface sv); cbn [app]; rewrite <- ?app_assoc; reflexivity.
Qed.

Lemma parse_plain_v6 b p iface : addr_good (A6 b) -> port_ok p -> iface_text_ok iface ->
  parse_nameserver nf (plain_text (A6 b) p iface) = Ok (mkSconf (A6 b) p p iface 0).
Proof.
  intros G Hp Hi. unfold parse_nameserver, plain_text. cbn [app].
  rewrite (dropwhile_nonspace ch_lbr _ eq_refl). cbn [tl]. change (ch_lbr =? ch_lbr) with true. cbv iota.
  rewrite <- app_assoc. cbn [app].
  rewrite (index_of_app_hit ch_rbr (nf_ntop nf (A6 b)) (plain_suffix p iface)) by (apply ntop_no; auto).
  rewrite firstn_app_exact. rewrite (fetch_ntop _ G). cbn [bind fst snd].
  rewrite skipn_S_app.
  exact (parse_suffix (A6 b) p iface G Hp Hi).
Qed.

Lemma head_props (t s : bytes) c0 r0 : t = c0 :: r0 -> isspace c0 = false -> c0 <> ch_lbr ->
  dropwhile isspace (t ++ s) = t ++ s /\
  (match t ++ s with c :: _ => c =? ch_lbr | [] => false end) = false /\
  (forall A (x y : A), match fst (t, s) with [] => x | _ :: _ => y end = y).
Proof.
  intros -> Hs Hb. cbn [app fst]. split; [apply dropwhile_nonspace; exact Hs|]. split; [|reflexivity].
  destruct (N.eqb_spec c0 ch_lbr); congruence.
Qed.

Lemma parse_plain_v4 b p : addr_good (A4 b) -> port_ok p ->
  parse_nameserver nf (plain_text (A4 b) p []) = Ok (mkSconf (A4 b) p p [] 0).
Proof.
  intros G Hp. unfold parse_nameserver, plain_text.
  destruct (ntop4_shape b G) as (Hc & (k & Hk & Hk2) & Hl).
  assert (exists c0 r0, nf_ntop nf (A4 b) = c0 :: r0) as (c0 & r0 & Et).
  { destruct (nf_ntop nf (A4 b)) as [|c0 r0]; [discriminate|eauto]. }
  assert (mem c0 s_ipcharset = true) as Hc0.
  { rewrite Et in Hc. simpl in Hc. apply andb_true_iff in Hc as [Hc _]. pose proof digits_dot_sub_ipcharset as S. rewrite forallb_forall in S. apply S. apply mem_In. exact Hc. }
  destruct (ipcharset_char c0 Hc0) as (_ & Hsp & _ & Hlb & _).
  destruct (head_props (nf_ntop nf (A4 b)) (plain_suffix p []) c0 r0 Et Hsp Hlb) as (E1 & E2 & E3).
  rewrite E1, E2.
  rewrite (index_of_app_l ch_dot _ (plain_suffix p []) k Hk).
  destruct (Nat.ltb_spec 0 k) as [_|]; [|lia]. destruct (Nat.ltb_spec k 4) as [_|]; [|lia]. cbn [andb].
  unfold plain_suffix at 1 2. cbn [app].
  rewrite (span_all (fun c => mem c s_digits_dot) (nf_ntop nf (A4 b)) ch_colon _ Hc eq_refl).
  cbn [fst snd]. rewrite Et. cbv iota. rewrite <- Et. rewrite (fetch_ntop _ G). cbn [bind fst snd].
  exact (parse_suffix (A4 b) p [] G Hp (conj eq_refl (Nat.le_0_l _))).
Qed.

(* the plain text contains no '/' (so it is not taken for a URI), no ' ' and no ',' *)
Lemma plain_text_chars a p iface : addr_good a -> port_ok p -> iface_text_ok iface ->
  Forall (fun c => c <> ch_slash /\ c <> ch_comma /\ c <> ch_space) (plain_text a p iface).
Proof.
  intros G Hp [Hic _]. destruct (dec_port p Hp) as (Dd & _).
  assert (Forall (fun c => c <> ch_slash /\ c <> ch_comma /\ c <> ch_space) (nf_ntop nf a)) as Fa.
  { eapply Forall_impl; [|apply (ntop_chars a G)]. intros c (_ & _ & _ & _ & A & B & _ & C). auto. }
  assert (Forall (fun c => c <> ch_slash /\ c <> ch_comma /\ c <> ch_space) (dec_of_Z p)) as Fd.
  { apply Forall_forall. intros c Hin. rewrite forallb_forall in Dd. destruct (digit_props c (Dd c Hin)) as (_ & _ & A & B & C & _). auto. }
  assert (Forall (fun c => c <> ch_slash /\ c <> ch_comma /\ c <> ch_space) iface) as Fi.
  { apply Forall_forall. intros c Hin. rewrite forallb_forall in Hic. destruct (ifacecharset_char c (Hic c Hin)) as (_ & _ & A & B & C). auto. }
  assert (forall c, In c [ch_lbr; ch_rbr; ch_colon; ch_pct] -> c <> ch_slash /\ c <> ch_comma /\ c <> ch_space) as Fp.
  { intros c [<-|[<-|[<-|[<-|[]]]]]; repeat split; discriminate. }
  unfold plain_text, plain_suffix.
  destruct a, iface; cbn [app];
    repeat first [ assumption | apply Forall_nil
                 | apply Forall_cons; [apply Fp; simpl; tauto|]
                 | apply Forall_app; split ].
Qed.

Lemma plain_text_nonempty a p iface : plain_text a p iface <> [].
Proof. unfold plain_text, plain_suffix. destruct a; [destruct (nf_ntop nf (A4 b)); discriminate|discriminate]. Qed.

(* ------------------------------------------------------------------ splitting the joined text *)
Definition nodelim (t : bytes) : Prop := Forall (fun c => c <> ch_comma /\ c <> ch_space) t.

Lemma nodelim_mem t c : nodelim t -> In c t -> mem c s_sep_servers = false.
Proof.
  intros F Hin. unfold nodelim in F. rewrite Forall_forall in F. destruct (F c Hin) as (A & B).
  unfold mem, s_sep_servers. simpl. rewrite orb_false_r. apply orb_false_iff. split; apply N.eqb_neq; congruence.
Qed.

Lemma split_go_text t : forall rest cur acc, nodelim t ->
  split_go s_sep_servers false false false 0 (t ++ rest) cur acc =
  split_go s_sep_servers false false false 0 rest (rev t ++ cur) acc.
Proof.
  induction t as [|c r IH]; intros rest cur acc F; [reflexivity|].
  cbn [app split_go]. cbn [Nat.eqb negb andb].
  rewrite (nodelim_mem (c :: r) c F (or_introl eq_refl)).
  rewrite IH by (inversion F; assumption). cbn [rev]. rewrite <- app_assoc. reflexivity.
Qed.

Definition joined (ts : list bytes) : bytes :=
  match ts with [] => [] | t :: r => t ++ flat_map (fun x => ch_comma :: x) r end.

Lemma split_go_tail r : forall cur acc, frev cur <> [] -> Forall (fun t => nodelim t /\ t <> []) r ->
  split_go s_sep_servers false false false 0 (flat_map (fun x => ch_comma :: x) r) cur acc = acc ++ [frev cur] ++ r.
Proof.
  induction r as [|x r IH]; intros cur acc Hne F.
  - cbn [flat_map split_go]. unfold sec_add. cbn [sec_trim andb]. destruct (frev cur); [congruence|reflexivity].
  - inversion F as [|? ? [Fx Hx] Fr]; subst. cbn [flat_map app split_go]. cbn [Nat.eqb negb andb].
    change (mem ch_comma s_sep_servers) with true. cbv iota.
    rewrite split_go_text by exact Fx. rewrite app_nil_r.
    rewrite IH; [|rewrite frev_rev, rev_involutive; exact Hx|exact Fr].
    unfold sec_add. cbn [sec_trim andb]. destruct (frev cur) eqn:E; [congruence|].
    rewrite frev_rev, rev_involutive. rewrite <- app_assoc. reflexivity.
Qed.

Lemma split_joined ts : Forall (fun t => nodelim t /\ t <> []) ts ->
  buf_split s_sep_servers false false false 0 (joined ts) = ts.
Proof.
  destruct ts as [|t r]; intros F; [reflexivity|].
  inversion F as [|? ? [Ft Ht] Fr]; subst. unfold buf_split, joined.
  rewrite split_go_text by exact Ft. rewrite app_nil_r.
  rewrite split_go_tail; [|rewrite frev_rev, rev_involutive; exact Ht|exact Fr].
  rewrite frev_rev, rev_involutive. reflexivity.
Qed.
End WithNet.
