(* C16_csv_fixpoint: the text ares_get_servers_csv renders for a server list parses back, through
   ares_sconfig_append_fromstr and ares_servers_update, to the same list -- for the plain form
   (one port for UDP and TCP) and for the dns:// form (different ports).  Entry-level facts are in
   Csv_entry.v (plain form) and Uri_proofs.v (dns:// form). *)
From CAres.Config Require Export Spec Lines_proofs Csv_entry Uri_proofs.
From CAres.Gen Require Import Consts LeafFns.
Local Open Scope N_scope.

Section WithNet.
Variable nf : netfns.

(* ------------------------------------------------------------------ servers and their entries *)
Variable ifs : option iftab.

(* a server as ares_servers_update creates it from a text entry.  When the two ports differ the
   dns:// form is rendered, and then the interface name must consist of RFC 3986 unreserved
   characters (what ares_uri_set_host accepts for a zone id) *)
Record server_ok (sv : server) : Prop := {
  so_addr : addr_good nf (sv_addr sv);
  so_port : port_ok (sv_udp sv);
  so_tcp : port_ok (sv_tcp sv);
  so_black : addr_blacklisted (sv_addr sv) = false;
  so_iface : iface_text_ok (sv_iface sv);
  so_uri : sv_tcp sv <> sv_udp sv -> addr_family_ok nf (sv_addr sv) /\ forallb chis_unreserved (sv_iface sv) = true;
  so_ll : if addr_is_linklocal (sv_addr sv)
          then sv_iface sv <> [] /\ sconfig_linklocal ifs (sv_iface sv) = Ok (Some (sv_iface sv, sv_scope sv))
          else sv_iface sv = [] /\ sv_scope sv = 0%Z }.

Definition entry_of (sv : server) : sconf := mkSconf (sv_addr sv) (sv_udp sv) (sv_tcp sv) (sv_iface sv) (sv_scope sv).
Definition text_of (sv : server) : bytes :=
  if (sv_tcp sv =? sv_udp sv)%Z then plain_text nf (sv_addr sv) (sv_udp sv) (sv_iface sv)
  else uri_text nf (sv_addr sv) (sv_udp sv) (sv_tcp sv) (sv_iface sv).

Lemma so_iface_v6 sv : server_ok sv -> sv_iface sv <> [] -> exists b, sv_addr sv = A6 b.
Proof.
  intros W Hne. pose proof (so_ll sv W) as L. destruct (sv_addr sv) as [b|b]; [|eauto].
  cbn [addr_is_linklocal] in L. destruct L as [L _]. congruence.
Qed.

Lemma so_iface_uri sv : server_ok sv -> sv_tcp sv <> sv_udp sv -> iface_uri_ok (sv_iface sv).
Proof. intros W Hne. split; [apply (so_uri sv W Hne)|apply (so_iface sv W)]. Qed.

Lemma get_server_addr_text sv : server_ok sv -> get_server_addr nf sv = Ok (text_of sv).
Proof.
  intros W. unfold text_of. destruct (Z.eqb_spec (sv_tcp sv) (sv_udp sv)) as [E|E].
  - apply get_server_addr_plain. exact E.
  - apply get_server_addr_uri; [exact E|exact (so_port sv W)|exact (so_addr sv W)|apply (so_uri sv W E)
                               |exact (so_iface_uri sv W E)|exact (so_iface_v6 sv W)].
Qed.

(* the rendered text parses back: as a URI when the ports differ, else it is not a URI and the plain
   parser reads it *)
Lemma parse_text_of sv : server_ok sv ->
  (sv_tcp sv <> sv_udp sv /\
   parse_nameserver_uri nf (text_of sv) = UriOk (mkSconf (sv_addr sv) (sv_udp sv) (sv_tcp sv) (sv_iface sv) 0)) \/
  (sv_tcp sv = sv_udp sv /\
   parse_nameserver_uri nf (text_of sv) = UriFail /\
   parse_nameserver nf (text_of sv) = Ok (mkSconf (sv_addr sv) (sv_udp sv) (sv_udp sv) (sv_iface sv) 0)).
Proof.
  intros W. unfold text_of. destruct (Z.eqb_spec (sv_tcp sv) (sv_udp sv)) as [E|E]; [right|left]; (split; [exact E|]).
  - split.
    + apply parse_uri_no_scheme. apply find_seq_no_slash. intros Hin.
      pose proof (plain_text_chars nf (sv_addr sv) (sv_udp sv) (sv_iface sv) (so_addr sv W) (so_port sv W) (so_iface sv W)) as F.
      rewrite Forall_forall in F. destruct (F _ Hin) as [A _]. congruence.
    + pose proof (so_addr sv W) as G. destruct (sv_addr sv) as [b|b] eqn:Ea.
      * pose proof (so_ll sv W) as L. rewrite Ea in L. cbn in L. destruct L as [-> _]. apply parse_plain_v4; [exact G|exact (so_port sv W)].
      * apply parse_plain_v6; [exact G|exact (so_port sv W)|exact (so_iface sv W)].
  - apply parse_uri_text; [exact (so_addr sv W)|exact (so_port sv W)|exact (so_tcp sv W)|exact (so_iface_uri sv W E)|exact (so_iface_v6 sv W)].
Qed.

Lemma sconfig_append_entry sv l : server_ok sv ->
  sconfig_append ifs l (sv_addr sv) (sv_udp sv) (sv_tcp sv) (sv_iface sv) =
  Ok (Some ((match l with Some x => x | None => [] end) ++ [entry_of sv])).
Proof.
  intros W. unfold sconfig_append. rewrite (so_black sv W). pose proof (so_ll sv W) as L.
  destruct (addr_is_linklocal (sv_addr sv)).
  - destruct L as [Hne Hl]. destruct (sv_iface sv) as [|i0 ir] eqn:Ei; [congruence|]. rewrite Hl. cbn [bind].
    unfold entry_of. rewrite Ei. reflexivity.
  - destruct L as [Hi Hs]. unfold entry_of. rewrite Hi, Hs. reflexivity.
Qed.

Lemma append_entries_texts l : forall acc, Forall server_ok l ->
  append_entries nf ifs false (map text_of l) acc =
  Ok (match l with [] => acc | _ => Some ((match acc with Some x => x | None => [] end) ++ map entry_of l) end).
Proof.
  induction l as [|sv r IH]; intros acc F; [reflexivity|].
  inversion F as [|? ? W Fr]; subst. cbn [map append_entries].
  assert (forall s, sc_addr s = sv_addr sv -> sc_udp s = sv_udp sv -> sc_tcp s = sv_tcp sv -> sc_iface s = sv_iface sv ->
          (do l' <- sconfig_append ifs acc (sc_addr s) (sc_udp s) (sc_tcp s) (sc_iface s); append_entries nf ifs false (map text_of r) l')
          = Ok (Some ((match acc with Some x => x | None => [] end) ++ entry_of sv :: map entry_of r))) as Step.
  { intros s -> -> -> ->. rewrite (sconfig_append_entry sv acc W). cbn [bind]. rewrite (IH _ Fr).
    destruct r; [reflexivity|]. cbn [map]. rewrite <- app_assoc. reflexivity. }
  destruct (parse_text_of sv W) as [[_ ->]|(E & -> & ->)]; apply Step; cbn [sc_addr sc_udp sc_tcp sc_iface]; congruence.
Qed.

(* ares_get_servers_csv as a join *)
Lemma csv_join_texts l : forall acc, Forall server_ok l ->
  csv_join nf l acc = Ok (fold_left (fun a t => match a with [] => t | _ => a ++ [ch_comma] ++ t end) (map text_of l) acc).
Proof.
  induction l as [|sv r IH]; intros acc F; [reflexivity|].
  inversion F as [|? ? W Fr]; subst. cbn [csv_join map fold_left].
  rewrite (get_server_addr_text sv W). cbn [bind]. apply IH. exact Fr.
Qed.

Lemma fold_join ts : forall acc, acc <> [] -> Forall (fun t : bytes => t <> []) ts ->
  fold_left (fun a t => match a with [] => t | _ => a ++ [ch_comma] ++ t end) ts acc = acc ++ flat_map (fun x => ch_comma :: x) ts.
Proof.
  induction ts as [|t r IH]; intros acc Ha F; cbn [fold_left flat_map]; [rewrite app_nil_r; reflexivity|].
  inversion F; subst. destruct acc as [|a0 ar]; [congruence|].
  rewrite IH; [|destruct ar; discriminate|assumption]. rewrite <- !app_assoc. reflexivity.
Qed.

Lemma text_of_nonempty sv : text_of sv <> [].
Proof. unfold text_of. destruct (sv_tcp sv =? sv_udp sv)%Z; [apply plain_text_nonempty|apply uri_text_nonempty]. Qed.

Lemma csv_is_joined l : Forall server_ok l -> get_servers_csv nf l = Ok (joined (map text_of l)).
Proof.
  intros F. unfold get_servers_csv. rewrite (csv_join_texts l [] F).
  destruct l as [|sv r]; [reflexivity|]. cbn [map fold_left joined].
  rewrite fold_join; [reflexivity|apply text_of_nonempty|].
  apply Forall_forall. intros t Hin. apply in_map_iff in Hin as (x & <- & _). apply text_of_nonempty.
Qed.

Lemma texts_splittable l : Forall server_ok l -> Forall (fun t => nodelim t /\ t <> []) (map text_of l).
Proof.
  intros F. apply Forall_forall. intros t Hin. apply in_map_iff in Hin as (sv & <- & Hsv).
  rewrite Forall_forall in F. pose proof (F sv Hsv) as W. split; [|apply text_of_nonempty].
  unfold text_of. destruct (Z.eqb_spec (sv_tcp sv) (sv_udp sv)) as [E|E].
  - eapply Forall_impl; [|apply (plain_text_chars nf); [exact (so_addr sv W)|exact (so_port sv W)|exact (so_iface sv W)]].
    intros c (_ & A & B). split; assumption.
  - apply uri_text_chars; [exact (so_addr sv W)|exact (so_port sv W)|exact (so_tcp sv W)|exact (so_iface_uri sv W E)].
Qed.

(* ------------------------------------------------------------------ ares_servers_update of the parsed entries *)
Lemma eff_port_id c p : port_ok p -> eff_port c p = p.
Proof.
  intros H. unfold eff_port, LeafFns.c_ares_sconfig_get_port, port_ok in *.
  change (negb (0 =? 0)%Z) with false. cbv iota.
  rewrite (Z.mod_small p) by (change (2 ^ 16)%Z with 65536%Z; lia).
  destruct (Z.eqb_spec p 0); [lia|reflexivity].
Qed.

Lemma update_one_fresh cudp ctcp sv : server_ok sv -> update_one cudp ctcp [] (entry_of sv) = sv.
Proof.
  intros W. unfold update_one, entry_of. cbn [find sc_iface sc_addr sc_udp sc_tcp sc_scope].
  rewrite (eff_port_id _ _ (so_port sv W)), (eff_port_id _ _ (so_tcp sv W)). pose proof (so_ll sv W) as L.
  destruct sv as [a u t i sc]. cbn [sv_addr sv_udp sv_tcp sv_iface sv_scope] in *.
  destruct i; [|reflexivity]. destruct (addr_is_linklocal a); destruct L as [L1 L2]; [congruence|subst; reflexivity].
Qed.

(* no two servers share address and ports: what ares_server_isdup guarantees for every list in a channel *)
Definition distinct (cudp ctcp : Z) (l : list server) : Prop :=
  forall seen, (forall e, In e seen -> forall sv, In sv l -> sconf_match cudp ctcp (entry_of sv) e = false) ->
  dedup_sconf cudp ctcp (map entry_of l) seen = map entry_of l.

(* C16_csv_fixpoint *)
Theorem csv_fixpoint flags cudp ctcp l txt :
  Forall server_ok l -> distinct cudp ctcp l ->
  (Z.testbit flags 1 = true -> (length l <= 1)%nat) ->
  get_servers_csv nf l = Ok txt ->
  set_servers_csv nf ifs flags cudp ctcp [] txt = Ok l /\
  (forall l', set_servers_csv nf ifs flags cudp ctcp [] txt = Ok l' -> get_servers_csv nf l' = Ok txt).
Proof.
  intros F D P H. rewrite (csv_is_joined l F) in H. apply Ok_inj_csv in H. subst txt.
  assert (set_servers_csv nf ifs flags cudp ctcp [] (joined (map text_of l)) = Ok l) as E.
  { unfold set_servers_csv. destruct l as [|sv r].
    - cbn [map joined]. unfold servers_update. cbn [dedup_sconf map]. destruct (Z.testbit flags 1); reflexivity.
    - destruct (joined (map text_of (sv :: r))) as [|j0 jr] eqn:Ej.
      { exfalso. cbn [map joined] in Ej. apply app_eq_nil in Ej as [Ej _]. exact (text_of_nonempty _ Ej). }
      rewrite <- Ej. unfold sconfig_append_fromstr. rewrite Ej. rewrite <- Ej.
      rewrite (split_joined _ (texts_splittable _ F)). rewrite (append_entries_texts (sv :: r) None F). cbn [bind app].
      unfold servers_update. rewrite (D [] (fun e He => match He with end)).
      rewrite map_map.
      assert (map (fun x => update_one cudp ctcp [] (entry_of x)) (sv :: r) = sv :: r) as Em.
      { clear - F. induction (sv :: r) as [|x xs IH]; [reflexivity|]. inversion F; subst. cbn [map]. rewrite update_one_fresh by assumption. f_equal. apply IH. assumption. }
      rewrite Em. destruct (Z.testbit flags 1) eqn:Ep; [|reflexivity].
      specialize (P eq_refl). destruct r; [reflexivity|simpl in P; lia]. }
  split; [exact E|]. intros l' E'. rewrite E in E'. apply Ok_inj_csv in E'. subst l'. apply csv_is_joined. exact F.
Qed.

(* the same when the channel already has servers (ares_dup sets the list on a channel that was
   initialised with the IPv4 subset or the system's servers): a server that is found again is
   re-used, and it is identical because a server that is not link-local carries no interface *)
Definition no_stray_iface (o : server) : Prop :=
  addr_is_linklocal (sv_addr o) = false -> sv_iface o = [] /\ sv_scope o = 0%Z.

Lemma addr_eqb_eq a b : addr_eqb a b = true -> a = b.
Proof. destruct a, b; simpl; intros H; try discriminate; apply bytes_eqb_eq in H; congruence. Qed.

Lemma update_one_any cudp ctcp old sv : server_ok sv -> Forall no_stray_iface old ->
  update_one cudp ctcp old (entry_of sv) = sv.
Proof.
  intros W Hold. unfold update_one.
  destruct (find (server_matches cudp ctcp (entry_of sv)) old) as [o|] eqn:Ef.
  - apply find_some in Ef as [Hin Hm]. rewrite Forall_forall in Hold. specialize (Hold o Hin).
    unfold server_matches, entry_of in Hm. cbn [sc_addr sc_tcp sc_udp] in Hm.
    rewrite (eff_port_id _ _ (so_port sv W)), (eff_port_id _ _ (so_tcp sv W)) in Hm.
    apply andb_true_iff in Hm as [Hm Hu]. apply andb_true_iff in Hm as [Ha Ht].
    apply addr_eqb_eq in Ha. apply Z.eqb_eq in Ht, Hu.
    pose proof (so_ll sv W) as L.
    destruct sv as [a u t i sc]. destruct o as [oa ou ot oi osc].
    cbn [sv_addr sv_udp sv_tcp sv_iface sv_scope entry_of sc_iface sc_scope] in *. subst.
    destruct i as [|i0 ir]; [|reflexivity].
    unfold no_stray_iface in Hold. cbn [sv_addr sv_iface sv_scope] in Hold.
    destruct (addr_is_linklocal a); destruct L as [L1 L2]; [congruence|].
    destruct (Hold eq_refl) as [-> ->]. subst. reflexivity.
  - pose proof (update_one_fresh cudp ctcp sv W) as Hf. unfold update_one in Hf. cbn [find] in Hf. exact Hf.
Qed.

Theorem csv_fixpoint_any flags cudp ctcp old l txt :
  Forall server_ok l -> distinct cudp ctcp l -> Forall no_stray_iface old ->
  (Z.testbit flags 1 = true -> (length l <= 1)%nat) ->
  get_servers_csv nf l = Ok txt ->
  set_servers_csv nf ifs flags cudp ctcp old txt = Ok l.
Proof.
  intros F D Hold P H. rewrite (csv_is_joined l F) in H. apply Ok_inj_csv in H. subst txt.
  unfold set_servers_csv. destruct l as [|sv r].
  - cbn [map joined]. unfold servers_update. cbn [dedup_sconf map]. destruct (Z.testbit flags 1); reflexivity.
  - destruct (joined (map text_of (sv :: r))) as [|j0 jr] eqn:Ej.
    { exfalso. cbn [map joined] in Ej. apply app_eq_nil in Ej as [Ej _]. exact (text_of_nonempty _ Ej). }
    rewrite <- Ej. unfold sconfig_append_fromstr. rewrite Ej. rewrite <- Ej.
    rewrite (split_joined _ (texts_splittable _ F)). rewrite (append_entries_texts (sv :: r) None F). cbn [bind app].
    unfold servers_update. rewrite (D [] (fun e He => match He with end)).
    rewrite map_map.
    assert (map (fun x => update_one cudp ctcp old (entry_of x)) (sv :: r) = sv :: r) as Em.
    { clear - F Hold. induction (sv :: r) as [|x xs IH]; [reflexivity|]. inversion F; subst. cbn [map]. rewrite update_one_any by assumption. f_equal. apply IH. assumption. }
    rewrite Em. destruct (Z.testbit flags 1) eqn:Ep; [|reflexivity].
    specialize (P eq_refl). destruct r; [reflexivity|simpl in P; lia].
Qed.

(* [distinct] follows from pairwise difference in (address, effective ports) *)
Lemma distinct_of_pairwise cudp ctcp l :
  ForallOrdPairs (fun a b => sconf_match cudp ctcp (entry_of b) (entry_of a) = false) l -> distinct cudp ctcp l.
Proof.
  induction l as [|sv r IH]; intros P seen Hseen; [reflexivity|].
  inversion P as [|? ? Hsv Pr]; subst. cbn [map dedup_sconf].
  assert (existsb (sconf_match cudp ctcp (entry_of sv)) seen = false) as E.
  { rewrite <- not_true_iff_false. intros Hx. apply existsb_exists in Hx as (e & He & Hm).
    rewrite (Hseen e He sv (or_introl eq_refl)) in Hm. discriminate. }
  rewrite E. f_equal. apply (IH Pr). intros e He sv' Hsv'.
  apply in_app_or in He as [He|[<-|[]]].
  - apply (Hseen e He sv' (or_intror Hsv')).
  - rewrite Forall_forall in Hsv. apply (Hsv sv' Hsv').
Qed.

End WithNet.

(* ------------------------------------------------------------------ the hypotheses are satisfiable *)
(* with the concrete address functions of Inet.v and the virtual interface table: an IPv4 server,
   an IPv6 server on another port, a link-local server with its interface, and two servers whose
   TCP port differs from the UDP port *)
From CAres.Config Require Import Vif.

Definition ex_servers : list server :=
  [ mkServer (A4 [1; 2; 3; 4]) 53 53 [] 0;
    mkServer (A6 [32; 1; 13; 184; 0; 0; 0; 0; 0; 0; 0; 0; 0; 0; 0; 1]) 5353 5353 [] 0;
    mkServer (A6 [254; 128; 0; 0; 0; 0; 0; 0; 0; 0; 0; 0; 0; 0; 0; 1]) 53 53 [101; 116; 104; 48] 2;
    (* different ports: rendered as dns://9.9.9.9:53?tcpport=853 and dns://[fe80::2%br-lan]:53?tcpport=853 *)
    mkServer (A4 [9; 9; 9; 9]) 53 853 [] 0;
    mkServer (A6 [254; 128; 0; 0; 0; 0; 0; 0; 0; 0; 0; 0; 0; 0; 0; 2]) 53 853 [98; 114; 45; 108; 97; 110] 3 ].

Lemma ex_servers_ok : Forall (server_ok inet_fns (Some vif)) ex_servers.
Proof.
  repeat constructor; try (vm_compute; repeat split; try congruence; try (intros; discriminate); eauto).
  all: exists 1%nat; repeat split; lia.
Qed.

Lemma ex_servers_distinct : ForallOrdPairs (fun a b => sconf_match 0 0 (entry_of b) (entry_of a) = false) ex_servers.
Proof. repeat constructor. Qed.

Example csv_fixpoint_example :
  exists txt, get_servers_csv inet_fns ex_servers = Ok txt /\
              set_servers_csv inet_fns (Some vif) 0 0 0 [] txt = Ok ex_servers.
Proof.
  destruct (get_servers_csv inet_fns ex_servers) as [txt| |] eqn:E; try (vm_compute in E; discriminate).
  exists txt. split; [reflexivity|].
  apply (csv_fixpoint inet_fns (Some vif) 0 0 0 ex_servers txt ex_servers_ok
           (distinct_of_pairwise 0 0 ex_servers ex_servers_distinct)); [intros H; discriminate|exact E].
Qed.

Theorem csv_fixpoint_pairwise nf ifs flags cudp ctcp l txt :
  Forall (server_ok nf ifs) l ->
  ForallOrdPairs (fun a b => sconf_match cudp ctcp (entry_of b) (entry_of a) = false) l ->
  (Z.testbit flags 1 = true -> (length l <= 1)%nat) ->
  get_servers_csv nf l = Ok txt ->
  set_servers_csv nf ifs flags cudp ctcp [] txt = Ok l /\
  (forall l', set_servers_csv nf ifs flags cudp ctcp [] txt = Ok l' -> get_servers_csv nf l' = Ok txt).
Proof. intros F P. apply csv_fixpoint; [exact F|apply distinct_of_pairwise; exact P]. Qed.
