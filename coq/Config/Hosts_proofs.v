(* The hosts file reader (C15): junk lines change nothing, and no table entry ever dangles. *)
From CAres.Config Require Import Spec HostsSpec Lines_proofs.
From CAres.Gen Require Import Consts.
Local Open Scope N_scope.

(* ------------------------------------------------------------------ junk lines *)
Section WithNet.
Variable nf : netfns.

Lemma usable_name_false_step ip t r acc :
  usable_name ip t = false -> t <> [] -> (match t with c :: _ => c =? ch_hash | [] => false end) = false ->
  host_tokens ip (t :: r) acc = host_tokens ip r acc \/ (acc = [] /\ host_tokens ip (t :: r) acc = None).
Proof.
  intros Hu Hne Hc. destruct t as [|c t']; [congruence|]. cbn [host_tokens]. rewrite Hc.
  unfold usable_name in Hu. destruct (fetch_string 256 (c :: t')) as [h| |] eqn:Ef.
  - apply andb_false_iff in Hu as [Hu|Hu].
    + rewrite Hu. left. reflexivity.
    + apply negb_false_iff in Hu. rewrite Hu. destruct (negb (forallb is_hostnamech h)); left; reflexivity.
  - destruct acc; [right; split; reflexivity|left; reflexivity].
  - destruct acc; [right; split; reflexivity|left; reflexivity].
Qed.

Lemma host_tokens_no_usable ip toks : forall acc,
  (forall t, In t (name_tokens toks) -> usable_name ip t = false) ->
  host_tokens ip toks acc = Some acc \/ (acc = [] /\ host_tokens ip toks acc = None).
Proof.
  induction toks as [|t r IH]; intros acc H; [left; reflexivity|].
  destruct t as [|c t'].
  - cbn [host_tokens]. apply IH. exact H.
  - destruct (c =? ch_hash) eqn:Ec.
    + cbn [host_tokens]. rewrite Ec. left. reflexivity.
    + assert (name_tokens ((c :: t') :: r) = (c :: t') :: name_tokens r) as En by (cbn [name_tokens]; rewrite Ec; reflexivity).
      assert (forall x, In x ((c :: t') :: name_tokens r) -> usable_name ip x = false) as H' by (intros x Hx; rewrite <- En in Hx; exact (H x Hx)).
      clear H. rename H' into H.
      destruct (usable_name_false_step ip (c :: t') r acc (H _ (or_introl eq_refl)) ltac:(discriminate) Ec) as [->|[-> E]].
      * apply IH. intros x Hx. apply H. right. exact Hx.
      * right. split; [reflexivity|exact E].
Qed.

Lemma host_tokens_first_bad ip toks t ts :
  name_tokens toks = t :: ts -> (forall h, fetch_string 256 t <> Ok h) -> host_tokens ip toks [] = None.
Proof.
  induction toks as [|x r IH]; intros En Hf; [discriminate|].
  destruct x as [|c x'].
  - cbn [name_tokens] in En. cbn [host_tokens]. apply IH; assumption.
  - cbn [name_tokens] in En. destruct (c =? ch_hash) eqn:Ec; [discriminate|]. inversion En; subst.
    cbn [host_tokens]. rewrite Ec. destruct (fetch_string 256 (c :: x')) as [h| |] eqn:Ef; [exfalso; exact (Hf h eq_refl)| |]; reflexivity.
Qed.

(* a junk line contributes nothing *)
Theorem junk_hosts_line_ignored raw c : junk_hosts_class nf raw = Some c -> parse_hosts_line nf raw = None.
Proof.
  unfold junk_hosts_class, parse_hosts_line. destruct (mem ch_nl raw); [discriminate|].
  destruct (dropwhile is_ws_nolf raw) as [|c0 l] eqn:Ed; [reflexivity|].
  destruct (c0 =? ch_hash); [reflexivity|]. cbv zeta.
  destruct (fetch_string 46 (fst (span (fun c1 => negb (isspace c1)) (c0 :: l)))) as [a| |]; try reflexivity.
  destruct (nf_pton nf a) as [addr|]; [|reflexivity].
  set (ip := nf_ntop nf addr). set (toks := buf_split s_ws false false false 0 (snd (span (fun c1 => negb (isspace c1)) (c0 :: l)))).
  destruct (name_tokens toks) as [|t ts] eqn:En.
  - intros _. destruct (host_tokens_no_usable ip toks []) as [->|[_ ->]]; [rewrite En; intros x []|reflexivity|reflexivity].
  - destruct (fetch_string 256 t) as [h| |] eqn:Ef.
    + destruct (negb (existsb (usable_name ip) (t :: ts))) eqn:Eu; [|discriminate]. intros _.
      apply negb_true_iff in Eu.
      destruct (host_tokens_no_usable ip toks []) as [->|[_ ->]]; [|reflexivity|reflexivity].
      rewrite En. intros x Hx. destruct (usable_name ip x) eqn:E; [|reflexivity].
      exfalso. rewrite <- not_true_iff_false in Eu. apply Eu. apply existsb_exists. exists x. split; assumption.
    + intros _. rewrite (host_tokens_first_bad ip toks t ts En); [reflexivity|]. intros h Hh. congruence.
    + intros _. rewrite (host_tokens_first_bad ip toks t ts En); [reflexivity|]. intros h Hh. congruence.
Qed.

Lemma hosts_add_lines_skip hf l1 j l2 :
  parse_hosts_line nf j = None ->
  hosts_add_lines nf hf (l1 ++ j :: l2) = hosts_add_lines nf hf (l1 ++ l2).
Proof.
  intros Hj. revert hf. induction l1 as [|x l1 IH]; intros hf; cbn [app hosts_add_lines].
  - unfold hosts_add_line at 1. rewrite Hj. reflexivity.
  - destruct (hosts_add_line nf hf x); cbn [bind]; auto.
Qed.

End WithNet.

(* ------------------------------------------------------------------ the file as raw lines *)
Lemma raw_lines_go_line r : forall rest cur, no_nl r ->
  raw_lines_go (r ++ ch_nl :: rest) cur = (rev cur ++ r) :: raw_lines_go rest [].
Proof.
  induction r as [|c r IH]; intros rest cur H.
  - cbn [app raw_lines_go]. rewrite N.eqb_refl. rewrite frev_rev, app_nil_r. reflexivity.
  - cbn [app raw_lines_go]. destruct (N.eqb_spec c ch_nl) as [->|_]; [exfalso; apply H; left; reflexivity|].
    rewrite IH by (intros Hin; apply H; right; exact Hin). cbn [rev]. rewrite <- app_assoc. reflexivity.
Qed.

Lemma raw_lines_unlines rs : Forall no_nl rs -> raw_lines (unlines rs) = rs ++ [[]].
Proof.
  unfold raw_lines. induction rs as [|r rs IH]; intros F; [reflexivity|].
  inversion F; subst. cbn [unlines flat_map]. rewrite <- app_assoc. cbn [app].
  rewrite raw_lines_go_line by assumption. cbn [rev app]. fold (unlines rs). rewrite IH by assumption. reflexivity.
Qed.

Section FileLevel.
Variable nf : netfns.

(* C15_junk_independent for the hosts file, on the file text *)
Theorem junk_hosts_file_independent rs1 j rs2 c :
  Forall no_nl rs1 -> no_nl j -> Forall no_nl rs2 -> junk_hosts_class nf j = Some c ->
  parse_hosts nf (unlines (rs1 ++ j :: rs2)) = parse_hosts nf (unlines (rs1 ++ rs2)).
Proof.
  intros F1 Fj F2 Hj. unfold parse_hosts. rewrite !raw_lines_unlines.
  2:{ apply Forall_app. split; assumption. }
  2:{ apply Forall_app. split; [assumption|constructor; assumption]. }
  rewrite <- !app_assoc. cbn [app]. apply hosts_add_lines_skip. eapply junk_hosts_line_ignored. exact Hj.
Qed.

End FileLevel.

(* ------------------------------------------------------------------ no dangling table entry *)
Definition tbl_ok (n : nat) (tbl : list (bytes * nat)) : Prop := forall k i, In (k, i) tbl -> (i < n)%nat.
Definition hf_wf (hf : hfile) : Prop := tbl_ok (length (hf_entries hf)) (hf_ip hf) /\ tbl_ok (length (hf_entries hf)) (hf_host hf).

Lemma hget_in tbl k i : hget tbl k = Some i -> exists k', In (k', i) tbl.
Proof.
  induction tbl as [|[k' j] r IH]; cbn [hget]; [discriminate|].
  destruct (bytes_caseeq k' k); [intros H; inversion H; subst; exists k'; left; reflexivity|].
  intros H. destruct (IH H) as [k'' Hin]. exists k''. right. exact Hin.
Qed.

Lemma tbl_ok_hput n tbl k i : tbl_ok n tbl -> (i < n)%nat -> tbl_ok n (hput tbl k i).
Proof.
  intros T Hi. unfold hput. destruct (hget tbl k); [exact T|].
  intros k' j Hin. apply in_app_or in Hin as [Hin|[E|[]]]; [eapply T; exact Hin|inversion E; subst; exact Hi].
Qed.

Lemma tbl_ok_index n tbl hosts num i : tbl_ok n tbl -> (i < n)%nat -> tbl_ok n (index_hosts tbl hosts num i).
Proof.
  intros T Hi. unfold index_hosts. generalize (rev (lastn num hosts)). intros l. revert tbl T.
  induction l as [|h r IH]; intros tbl T; cbn [fold_left]; [exact T|]. apply IH. apply tbl_ok_hput; assumption.
Qed.

Lemma tbl_ok_mono n m tbl : tbl_ok n tbl -> (n <= m)%nat -> tbl_ok m tbl.
Proof. intros T H k i Hin. specialize (T k i Hin). lia. Qed.

Lemma set_nth_length {A} (l : list A) i x : (i < length l)%nat -> length (set_nth l i x) = length l.
Proof.
  intros H. unfold set_nth. rewrite app_length. cbn [length]. rewrite firstn_length, skipn_length. lia.
Qed.

Lemma hosts_file_add_wf hf ip hosts :
  hf_wf hf -> exists hf', hosts_file_add hf ip hosts = Ok hf' /\ hf_wf hf'.
Proof.
  intros [Wi Wh]. unfold hosts_file_add, hosts_match.
  destruct (hget (hf_ip hf) ip) as [i|] eqn:Ei.
  - destruct (hget_in _ _ _ Ei) as [k' Hin]. pose proof (Wi _ _ Hin) as Hlt.
    destruct (nth_error (hf_entries hf) i) as [e|] eqn:En; [|apply nth_error_None in En; lia].
    eexists. split; [reflexivity|]. unfold hf_wf. cbn [hf_entries hf_ip hf_host]. rewrite set_nth_length by exact Hlt.
    split; [exact Wi|apply tbl_ok_index; assumption].
  - destruct (first_host_match (hf_host hf) hosts) as [i|] eqn:Em.
    + assert (exists k', In (k', i) (hf_host hf)) as [k' Hin].
      { clear - Em. induction hosts as [|h r IH]; cbn [first_host_match] in Em; [discriminate|].
        destruct (hget (hf_host hf) h) eqn:E; [inversion Em; subst; eapply hget_in; exact E|apply IH; exact Em]. }
      pose proof (Wh _ _ Hin) as Hlt.
      destruct (nth_error (hf_entries hf) i) as [e|] eqn:En; [|apply nth_error_None in En; lia].
      eexists. split; [reflexivity|]. unfold hf_wf. cbn [hf_entries hf_ip hf_host]. rewrite set_nth_length by exact Hlt.
      split; [apply tbl_ok_hput; assumption|apply tbl_ok_index; assumption].
    + eexists. split; [reflexivity|]. unfold hf_wf. cbn [hf_entries hf_ip hf_host]. rewrite app_length. cbn [length].
      split; [apply tbl_ok_hput; [eapply tbl_ok_mono; [exact Wi|lia]|lia]|apply tbl_ok_index; [eapply tbl_ok_mono; [exact Wh|lia]|lia]].
Qed.

Section Total.
Variable nf : netfns.

Lemma hosts_add_lines_wf ls : forall hf, hf_wf hf -> exists hf', hosts_add_lines nf hf ls = Ok hf' /\ hf_wf hf'.
Proof.
  induction ls as [|l r IH]; intros hf W; cbn [hosts_add_lines]; [eauto|].
  unfold hosts_add_line. destruct (parse_hosts_line nf l) as [[ip hosts]|].
  - destruct (hosts_file_add_wf hf ip hosts W) as (hf1 & -> & W1). cbn [bind]. apply IH. exact W1.
  - cbn [bind]. apply IH. exact W.
Qed.

(* C15_total for the hosts file: reading any content succeeds with a well-formed table, and a
   lookup in it never follows a dangling entry *)
Theorem parse_hosts_total content : exists hf, parse_hosts nf content = Ok hf /\ hf_wf hf.
Proof. unfold parse_hosts. apply hosts_add_lines_wf. split; intros k i []. Qed.

Theorem hosts_search_total content hf name :
  parse_hosts nf content = Ok hf -> exists r, hosts_search_host hf name = Ok r.
Proof.
  intros H. destruct (parse_hosts_total content) as (hf' & E & [_ Wh]). rewrite E in H. inversion H; subst hf'.
  unfold hosts_search_host. destruct (hget (hf_host hf) name) as [i|] eqn:Eg; [|eauto].
  destruct (hget_in _ _ _ Eg) as [k' Hin]. pose proof (Wh _ _ Hin) as Hlt.
  destruct (nth_error (hf_entries hf) i) eqn:En; [eauto|apply nth_error_None in En; lia].
Qed.

End Total.
