(* Model of the configuration text parsers, in the shape of the C code:
     src/lib/str/ares_buf.c         ares_buf_split, ares_buf_tag_fetch_string, ares_buf_split_str
     src/lib/str/ares_strsplit.c    ares_strsplit
     src/lib/ares_sysconfig_files.c parse_sort, ares_parse_sortlist, config_search, config_lookup,
                                    process_option, ares_sysconfig_set_options,
                                    ares_init_by_environment, ares_sysconfig_parse_resolv_line,
                                    parse_nsswitch_line, parse_svcconf_line,
                                    ares_sysconfig_process_buf, ares_init_sysconfig_files
     src/lib/ares_update_servers.c  parse_nameserver, parse_nameserver_uri (dns:// subset),
                                    ares_sconfig_append, ares_sconfig_append_fromstr
     src/lib/ares_search.c          ares_lookup_hostaliases
   Address parsing / printing and the interface table are parameters ([netfns], [iftab]).
   Memory allocation is assumed to succeed; ARES_ENOMEM appears only where the C code reports
   it for another reason (ares_buf_create_const on an empty string, ares_strsplit returning
   NULL). *)
From CAres.Config Require Export Bytes Inet Words.
From CAres.Gen Require Import Consts.
Local Open Scope N_scope.

Record netfns := mkNet {
  nf_pton4 : bytes -> option bytes;      (* ares_dns_pton, family AF_INET *)
  nf_pton6 : bytes -> option bytes;      (* ares_dns_pton, family AF_INET6 *)
  nf_pton  : bytes -> option addr;       (* ares_dns_pton, family AF_UNSPEC *)
  nf_ntop  : addr -> bytes }.            (* ares_inet_ntop *)

Definition inet_fns : netfns := mkNet pton4 pton6 pton_unspec ntop.

(* channel->sock_funcs.aif_nametoindex / aif_indextoname *)
Record iftab := mkIf {
  if_nametoindex : bytes -> Z;           (* 0: no such interface *)
  if_indextoname : Z -> option bytes }.

Record sconf := mkSconf { sc_addr : addr; sc_udp : Z; sc_tcp : Z; sc_iface : bytes; sc_scope : Z }.
Record apat := mkApat { ap_addr : addr; ap_mask : Z }.

Record sysconfig := mkSys {
  s_sconfig : option (list sconf);   (* None <-> NULL; the list exists (possibly empty) once
                                        ares_sconfig_append got past the blacklist test *)
  s_sortlist : list apat;           (* [] <-> NULL *)
  s_domains : list bytes;           (* [] <-> NULL *)
  s_lookups : option bytes;
  s_ndots : Z; s_tries : Z; s_rotate : bool; s_timeout_ms : Z; s_usevc : bool }.

Definition sys_init : sysconfig := mkSys None [] [] None 1 0 false 0 false.

Definition set_sconfig (c : sysconfig) v := mkSys v (s_sortlist c) (s_domains c) (s_lookups c) (s_ndots c) (s_tries c) (s_rotate c) (s_timeout_ms c) (s_usevc c).
Definition set_sortlist (c : sysconfig) v := mkSys (s_sconfig c) v (s_domains c) (s_lookups c) (s_ndots c) (s_tries c) (s_rotate c) (s_timeout_ms c) (s_usevc c).
Definition set_domains (c : sysconfig) v := mkSys (s_sconfig c) (s_sortlist c) v (s_lookups c) (s_ndots c) (s_tries c) (s_rotate c) (s_timeout_ms c) (s_usevc c).
Definition set_lookups (c : sysconfig) v := mkSys (s_sconfig c) (s_sortlist c) (s_domains c) v (s_ndots c) (s_tries c) (s_rotate c) (s_timeout_ms c) (s_usevc c).
Definition set_ndots (c : sysconfig) v := mkSys (s_sconfig c) (s_sortlist c) (s_domains c) (s_lookups c) v (s_tries c) (s_rotate c) (s_timeout_ms c) (s_usevc c).
Definition set_tries (c : sysconfig) v := mkSys (s_sconfig c) (s_sortlist c) (s_domains c) (s_lookups c) (s_ndots c) v (s_rotate c) (s_timeout_ms c) (s_usevc c).
Definition set_rotate (c : sysconfig) v := mkSys (s_sconfig c) (s_sortlist c) (s_domains c) (s_lookups c) (s_ndots c) (s_tries c) v (s_timeout_ms c) (s_usevc c).
Definition set_timeout_ms (c : sysconfig) v := mkSys (s_sconfig c) (s_sortlist c) (s_domains c) (s_lookups c) (s_ndots c) (s_tries c) (s_rotate c) v (s_usevc c).
Definition set_usevc (c : sysconfig) v := mkSys (s_sconfig c) (s_sortlist c) (s_domains c) (s_lookups c) (s_ndots c) (s_tries c) (s_rotate c) (s_timeout_ms c) v.

(* ------------------------------------------------------------------ ares_buf_split *)
(* flags used by the modelled callers: TRIM (= LTRIM|RTRIM), NO_DUPLICATES, CASE_INSENSITIVE *)
Definition sec_trim (trim : bool) (s : bytes) : bytes := if trim then rtrim (ltrim s) else s.

Definition sec_isdup (ci : bool) (acc : list bytes) (s : bytes) : bool :=
  existsb (fun x => if ci then bytes_caseeq x s else bytes_eqb x s) acc.

Definition sec_add (trim nodup ci : bool) (acc : list bytes) (raw : bytes) : list bytes :=
  let s := sec_trim trim raw in
  match s with
  | [] => acc
  | _ => if nodup && sec_isdup ci acc s then acc else acc ++ [s]
  end.

(* [cur]: the current section, reversed.  Once max_sections - 1 sections have been stored the
   rest of the buffer is one section. *)
Fixpoint split_go (delims : bytes) (trim nodup ci : bool) (max : nat) (l cur : bytes) (acc : list bytes)
  : list bytes :=
  match l with
  | [] => sec_add trim nodup ci acc (frev cur)
  | c :: r =>
    if negb (max =? 0)%nat && (max - 1 <=? length acc)%nat then
      split_go delims trim nodup ci max r (c :: cur) acc
    else if mem c delims then
      split_go delims trim nodup ci max r [] (sec_add trim nodup ci acc (frev cur))
    else split_go delims trim nodup ci max r (c :: cur) acc
  end.

Definition buf_split (delims : bytes) (trim nodup ci : bool) (max : nat) (l : bytes) : list bytes :=
  split_go delims trim nodup ci max l [] [].

(* ares_buf_split_str: every section must be printable (ares_buf_fetch_str_dup) *)
Definition buf_split_str (delims : bytes) (trim nodup ci : bool) (max : nat) (l : bytes) : outcome (list bytes) :=
  let secs := buf_split delims trim nodup ci max l in
  if forallb (forallb isprint) secs then Ok secs else Err ARES_EBADSTR.

(* ares_buf_tag_fetch_string into a buffer of [size] bytes *)
Definition fetch_string (size : nat) (s : bytes) : outcome bytes :=
  if (size - 1 <? length s)%nat then Err ARES_EFORMERR
  else if forallb isprint s then Ok s else Err ARES_EBADSTR.

(* ares_strsplit(in, delms) (no longer used by the modelled code): NULL both for "no memory" and for "nothing / not printable" *)
Definition strsplit (s delims : bytes) : option (list bytes) :=
  match s with
  | [] => None                                       (* ares_buf_create_const(.., 0) == NULL *)
  | _ =>
    match buf_split_str delims false true true 0 s with
    | Ok [] => None                                  (* ares_array_finish of an empty array *)
    | Ok l => Some l
    | _ => None
    end
  end.

(* ------------------------------------------------------------------ sortlist *)
Definition ip_natural_mask (a : addr) : Z :=
  match a with
  | A6 _ => 64%Z
  | A4 b => match b with
            | f :: _ => if f <? 128 then 8%Z else if f <? 192 then 16%Z else 24%Z
            | [] => 24%Z
            end
  end.

Fixpoint popcount8 (fuel : nat) (n : N) : Z :=
  match fuel with
  | O => 0%Z
  | S f => (Z.of_N (n mod 2) + popcount8 f (n / 2))%Z
  end.

Definition s_sep_sortlist : bytes := [ch_space; ch_semi].
Definition s_sep_servers : bytes := [ch_space; ch_comma].
Definition s_sep_domains : bytes := [ch_comma; ch_space].
Definition s_sep_ws : bytes := [ch_space; ch_tab].

Section WithNet.
Variable nf : netfns.

(* parse_sort: Err ARES_ENOTFOUND = "nothing here, skip" *)
Definition parse_sort (entry : bytes) : outcome apat :=
  let b := dropwhile isspace entry in
  match b with
  | [] => Err ARES_ENOTFOUND
  | _ =>
    let (ip, rest) := span (fun c => mem c s_ipcharset) b in
    match ip with
    | [] => Err ARES_EBADSTR
    | _ =>
      do ipaddr <- fetch_string 46 ip;
      match nf_pton nf ipaddr with
      | None => Err ARES_EBADSTR
      | Some a =>
        do res <- (match rest with
                   | c :: r =>
                     if c =? ch_slash then
                       let (m, rest2) := span (fun c => mem c s_digits_dot) r in
                       match m with
                       | [] => Err ARES_EBADSTR
                       | _ =>
                         do maskstr <- fetch_string 16 m;
                         if str_isnum maskstr then
                           if (3 <? length maskstr)%nat then Err ARES_EBADSTR else
                           do mask <- atoi maskstr;
                           if ((mask <? 0) || (128 <? mask))%Z then Err ARES_EBADSTR
                           else if (match a with A4 _ => true | A6 _ => false end && (32 <? mask)%Z)%bool then Err ARES_EBADSTR
                           else Ok (mask, rest2)
                         else
                           match nf_pton4 nf maskstr with
                           | None => Err ARES_EBADSTR
                           | Some mb => Ok (fold_right (fun x acc => (popcount8 8 x + acc)%Z) 0%Z mb, rest2)
                           end
                       end
                     else Ok (ip_natural_mask a, rest)
                   | [] => Ok (ip_natural_mask a, rest)
                   end);
        let '(mask, rest2) := res in
        match dropwhile isspace rest2 with
        | [] => Ok (mkApat a (mask mod 256)%Z)
        | _ => Err ARES_EBADSTR
        end
      end
    end
  end.

Fixpoint parse_sort_entries (es : list bytes) (acc : list apat) : outcome (list apat) :=
  match es with
  | [] => Ok acc
  | e :: r =>
    match parse_sort e with
    | Ok p => parse_sort_entries r (acc ++ [p])
    | Err s => if (s =? ARES_ENOTFOUND)%Z then parse_sort_entries r acc else Err s
    | UB k => UB k
    end
  end.

(* ares_parse_sortlist: the result list ([] <-> *sortlist == NULL) *)
Definition parse_sortlist (str : bytes) : outcome (list apat) :=
  match str with
  | [] => Err ARES_ENOMEM
  | _ => parse_sort_entries (buf_split s_sep_sortlist false false false 0 str) []
  end.

(* ------------------------------------------------------------------ search / lookup / options *)
(* config_search: a list that is empty, does not parse (not printable) or names nothing is ignored *)
Definition config_search (cfg : sysconfig) (str : bytes) (max_domains : nat) : outcome sysconfig :=
  match str with
  | [] => Ok cfg
  | _ =>
    match buf_split_str s_sep_domains false true true 0 str with
    | Ok [] => Ok cfg
    | Ok l => Ok (set_domains cfg (if (max_domains =? 0)%nat then l else firstn max_domains l))
    | _ => Ok cfg
    end
  end.

Definition kw (s : bytes) (w : bytes) : bool := bytes_eqb s w.

Definition lookup_char (v : bytes) : option N :=
  if bytes_caseeq v w_dns || bytes_caseeq v w_bind || bytes_caseeq v w_resolv || bytes_caseeq v w_resolve then Some 98
  else if bytes_caseeq v w_files || bytes_caseeq v w_file || bytes_caseeq v w_local then Some 102
  else None.

(* the loop filling char lookupstr[32]; a write at or beyond index 31 (30 + terminator) is UB *)
Fixpoint lookup_fold (vals : list bytes) (acc : bytes) : outcome bytes :=
  match vals with
  | [] => Ok acc
  | v :: r =>
    match lookup_char v with
    | None => lookup_fold r acc
    | Some ch => if mem ch acc then lookup_fold r acc
                 else guard (length acc <? 31)%nat OutOfBounds (lookup_fold r (acc ++ [ch]))
    end
  end.

(* config_lookup: only ARES_ENOMEM is reported, which cannot happen here *)
Definition config_lookup (cfg : sysconfig) (buf separators : bytes) : outcome sysconfig :=
  match buf_split_str separators true false false 0 buf with
  | Ok vals =>
    do ls <- lookup_fold vals [];
    match ls with
    | [] => Ok cfg
    | _ => Ok (set_lookups cfg (Some ls))
    end
  | _ => Ok cfg
  end.


(* the value of name:value - a plain decimal number of at most 9 digits, else no value *)
Definition option_value (vr : list bytes) : option Z :=
  match vr with
  | v :: _ => if str_isnum v && (length v <=? 9)%nat then Some (digits_value v) else None
  | [] => None
  end.

(* process_option: Ok = ARES_SUCCESS, Err = the status that ares_sysconfig_set_options ignores *)
Definition process_option (cfg : sysconfig) (option : bytes) : outcome sysconfig :=
  do kv <- buf_split_str [ch_colon] true false false 2 option;
  match kv with
  | [] => Err ARES_EBADSTR
  | key :: vr =>
    let value := option_value vr in
    if kw key on_ndots then
      match value with
      | None => Err ARES_EFORMERR
      | Some v => Ok (set_ndots cfg (if (15 <? v)%Z then 15%Z else v))
      end
    else if kw key on_retrans || kw key on_timeout then
      match value with
      | None => Err ARES_EFORMERR
      | Some v => if ((v =? 0) || (4294967 <? v))%Z then Err ARES_EFORMERR else Ok (set_timeout_ms cfg (v * 1000)%Z)
      end
    else if kw key on_retry || kw key on_attempts then
      match value with
      | None => Err ARES_EFORMERR
      | Some v => if (v =? 0)%Z then Err ARES_EFORMERR else Ok (set_tries cfg v)
      end
    else if kw key on_rotate then Ok (set_rotate cfg true)
    else if kw key on_usevc1 || kw key on_usevc2 then Ok (set_usevc cfg true)
    else Ok cfg
  end.

Fixpoint set_options_loop (cfg : sysconfig) (opts : list bytes) : outcome sysconfig :=
  match opts with
  | [] => Ok cfg
  | o :: r =>
    match process_option cfg o with
    | Ok cfg' => set_options_loop cfg' r
    | Err s => if (s =? ARES_ENOMEM)%Z then Err s else set_options_loop cfg r
    | UB k => UB k
    end
  end.

(* ares_sysconfig_set_options *)
Definition set_options (cfg : sysconfig) (str : bytes) : outcome sysconfig :=
  match str with
  | [] => Ok cfg                                       (* an empty option string sets nothing *)
  | _ => set_options_loop cfg (buf_split s_sep_ws true false false 0 str)
  end.

(* ares_init_by_environment *)
Definition init_by_environment (cfg : sysconfig) (localdomain res_options : option bytes) : outcome sysconfig :=
  do cfg1 <- (match localdomain with Some d => config_search cfg d 1 | None => Ok cfg end);
  match res_options with Some o => set_options cfg1 o | None => Ok cfg1 end.

(* ------------------------------------------------------------------ name servers *)
Inductive uri_res := UriOk (s : sconf) | UriFail | UriUnmodelled | UriUB (k : ub_kind).

Definition s_dns := w_dns.

Definition chis_subdelim (c : N) : bool := mem c (33 :: 36 :: 38 :: 39 :: 40 :: 41 :: 42 :: 43 :: 44 :: 59 :: 61 :: nil).
Definition chis_unreserved (c : N) : bool := (c =? 45) || (c =? 46) || (c =? 95) || (c =? 126) || isalpha c || isdigit c.
Definition chis_scheme (c : N) : bool := (c =? 43) || (c =? 45) || (c =? 46) || isalpha c || isdigit c.
Definition chis_authority (c : N) : bool :=
  chis_unreserved c || chis_subdelim c || (c =? ch_pct) || (c =? ch_lbr) || (c =? ch_rbr) || (c =? ch_at) || (c =? ch_colon).

(* ares_uri_set_host: the normalised host text, or None *)
Definition uri_set_host (host : bytes) : option bytes :=
  match host with
  | [] => None
  | _ =>
    if (256 <=? length host)%nat then None else
    let (h, r) := span (fun c => negb (c =? ch_pct)) host in
    let scope := match r with _ :: sc => Some sc | [] => None end in
    if match scope with Some sc => negb (forallb chis_unreserved sc) || (length sc =? 0)%nat | None => false end then None
    else match nf_pton nf h with
         | Some a =>
           match scope, a with
           | Some _, A4 _ => None
           | Some sc, A6 _ => Some (nf_ntop nf a ++ [ch_pct] ++ sc)
           | None, _ => Some (nf_ntop nf a)
           end
         | None => if forallb is_hostnamech host then Some host else None
         end
  end.

(* parse_nameserver_uri, restricted to  scheme://host[:port][?tcpport=N] ; userinfo, path,
   fragment, other query keys and percent escapes are reported as not modelled *)
Definition parse_nameserver_uri (entry : bytes) : uri_res :=
  match find_seq s_scheme_sep entry with
  | None => UriFail
  | Some n =>
    if (16 <? n)%nat then UriFail else
    let scheme := firstn n entry in
    let rest := skipn (n + 3) entry in
    match fetch_string 16 scheme with
    | Ok sch =>
      match sch with
      | [] => UriFail
      | c0 :: _ =>
        if negb (isalpha c0 && forallb chis_scheme sch) then UriFail
        (* a scheme other than dns never yields a server: either the URI is rejected, or it is
           accepted, refused by the scheme test and parse_nameserver sees a consumed buffer *)
        else if negb (bytes_eqb (map tolower sch) s_dns) then UriFail else
        let (auth, tail) := span (fun c => negb (mem c (ch_slash :: ch_qm :: ch_hash :: nil))) rest in
        match auth with
        | [] => UriFail
        | _ =>
          if negb (forallb chis_authority auth) then UriFail
          else if mem ch_at auth then UriUnmodelled
          else
            (* ares_uri_parse_hostport *)
            let hp :=
              if match auth with c :: _ => c =? ch_lbr | [] => false end then
                let r := tl auth in
                match index_of ch_rbr r with
                | None => None
                | Some k => match fetch_string 256 (firstn k r) with
                            | Ok h => Some (h, skipn (S k) r)
                            | _ => None
                            end
                end
              else
                let sp := span (fun c => negb (c =? ch_colon)) auth in
                match fetch_string 256 (fst sp) with Ok h' => Some (h', snd sp) | _ => None end in
            match hp with
            | None => UriFail
            | Some (host, after) =>
              match uri_set_host host with
              | None => UriFail
              | Some nhost =>
                let port :=
                  match after with
                  | [] => Some 0%Z
                  | c :: p =>
                    if negb (c =? ch_colon) then None
                    else if (length p =? 0)%nat || (5 <? length p)%nat then None
                    else if negb (str_isnum p) then None
                    else if (65535 <? digits_value p)%Z then None        (* a port above 65535 is refused *)
                    else Some (digits_value p)
                  end in
                match port with
                | None => UriFail
                | Some udp =>
                  (* path / query / fragment *)
                  let q :=
                    match tail with
                    | [] => Some (Some None)
                    | c :: qr =>
                      if c =? ch_qm then
                        match qr with
                        | [] => Some (Some None)
                        | _ =>
                          if is_prefix s_tcpport_eq qr then
                            let v := skipn (length s_tcpport_eq) qr in
                            if forallb isdigit v && negb (length v =? 0)%nat then Some (Some (Some v)) else None
                          else None
                        end
                      else None
                    end in
                  match q with
                  | None => UriUnmodelled
                  | Some None => UriUnmodelled
                  | Some (Some tcpq) =>
                    (* parse_nameserver_uri proper: host%iface, pton again on the normalised text *)
                    let (h, r) := span (fun c => negb (c =? ch_pct)) (firstn 255 nhost) in
                    let iface := match r with _ :: sc => firstn 15 sc | [] => [] end in
                    match nf_pton nf h with
                    | None => UriFail
                    | Some a =>
                      match tcpq with
                      | None => UriOk (mkSconf a udp udp iface 0)
                      | Some v =>
                        if negb (str_isnum v) || (5 <? length v)%nat then UriFail else
                        match atoi v with
                        | Ok t => if (65535 <? t)%Z then UriFail else UriOk (mkSconf a udp t iface 0)
                        | UB k => UriUB k
                        | Err _ => UriFail
                        end
                      end
                    end
                  end
                end
              end
            end
        end
      end
    | _ => UriFail
    end
  end.

(* parse_nameserver *)
Definition parse_nameserver (entry : bytes) : outcome sconf :=
  let b := dropwhile isspace entry in
  do ipr <- (if match b with c :: _ => c =? ch_lbr | [] => false end then
               let r := tl b in
               match index_of ch_rbr r with
               | None => Err ARES_EBADSTR
               | Some k => do ip <- fetch_string 46 (firstn k r); Ok (ip, skipn (S k) r)
               end
             else
               let v4 := match index_of ch_dot b with Some o => (0 <? o)%nat && (o <? 4)%nat | None => false end in
               let sp := if v4 then span (fun c => mem c s_digits_dot) b else span (fun c => mem c s_ipcharset) b in
               match fst sp with
               | [] => Err ARES_EBADSTR
               | ip => do ip' <- fetch_string 46 ip; Ok (ip', snd sp)
               end);
  let ipaddr := fst ipr in
  let rest := snd ipr in
  match nf_pton nf ipaddr with
  | None => Err ARES_EBADSTR
  | Some a =>
    do pr <- (if match rest with c :: _ => c =? ch_colon | [] => false end then
                let sp := span isdigit (tl rest) in
                match fst sp with
                | [] => Err ARES_EBADSTR
                | ds => do ps <- fetch_string 6 ds; do p <- atoi ps;
                        if (65535 <? p)%Z then Err ARES_EBADSTR else Ok (p, snd sp)
                end
              else Ok (0%Z, rest));
    let port := fst pr in
    let rest2 := snd pr in
    do ir <- (if match rest2 with c :: _ => c =? ch_pct | [] => false end then
                let sp := span (fun c => mem c s_ifacecharset) (tl rest2) in
                match fst sp with
                | [] => Err ARES_EBADSTR
                | ifc => do i <- fetch_string 16 ifc; Ok (i, snd sp)
                end
              else Ok ([], rest2));
    let iface := fst ir in
    let rest3 := snd ir in
    match dropwhile isspace rest3 with
    | [] => Ok (mkSconf a port port iface 0)
    | _ => Err ARES_EBADSTR
    end
  end.

Definition prefix_match (bits : nat) (a b : bytes) : bool :=
  (* ares_subnet_match for whole bytes and a partial last byte *)
  let nb := Nat.div bits 8 in
  let rem := Nat.modulo bits 8 in
  bytes_eqb (firstn nb a) (firstn nb b) &&
  (if (rem =? 0)%nat then true
   else let sh := 2 ^ N.of_nat (8 - rem) in (nth nb a 0 / sh =? nth nb b 0 / sh)).

Definition addr_is_linklocal (a : addr) : bool :=
  match a with A6 b => prefix_match 10 b (254 :: 128 :: repeat 0 14) | A4 _ => false end.
Definition addr_blacklisted (a : addr) : bool :=
  match a with A6 b => prefix_match 10 b (254 :: 192 :: repeat 0 14) | A4 _ => false end.

(* ares_sconfig_linklocal: Some (iface, scope) or None (entry silently ignored) *)
Definition sconfig_linklocal (ifs : option iftab) (ll_iface : bytes) : outcome (option (bytes * Z)) :=
  if str_isnum ll_iface then
    if (9 <? length ll_iface)%nat then Ok None else
    do idx <- atoi ll_iface;
    match ifs with
    | None => Ok None
    | Some t => match if_indextoname t (u32 idx) with
                | Some nm => Ok (Some (firstn 15 nm, u32 idx))
                | None => Ok None
                end
    end
  else
    let sc := match ifs with Some t => if_nametoindex t ll_iface | None => 0%Z end in
    if (sc =? 0)%Z then Ok None else Ok (Some (ll_iface, sc)).

(* ares_sconfig_append; [l = None] is a NULL list, which is created only for an entry that is kept *)
Definition sconfig_append (ifs : option iftab) (l : option (list sconf)) (a : addr) (udp tcp : Z) (ll_iface : bytes)
  : outcome (option (list sconf)) :=
  if addr_blacklisted a then Ok l
  else
    let cur := match l with Some x => x | None => [] end in
    if addr_is_linklocal a then
      match ll_iface with
      | [] => Ok l
      | _ => do r <- sconfig_linklocal ifs ll_iface;
             match r with
             | Some (nm, sc) => Ok (Some (cur ++ [mkSconf a udp tcp nm sc]))
             | None => Ok l
             end
      end
    else Ok (Some (cur ++ [mkSconf a udp tcp [] 0])).

Definition NotModelled : Z := (-2)%Z.

Fixpoint append_entries (ifs : option iftab) (ignore_invalid : bool) (es : list bytes) (l : option (list sconf))
  : outcome (option (list sconf)) :=
  match es with
  | [] => Ok l
  | e :: r =>
    match parse_nameserver_uri e with
    | UriUnmodelled => Err NotModelled
    | UriUB k => UB k
    | UriOk s => do l' <- sconfig_append ifs l (sc_addr s) (sc_udp s) (sc_tcp s) (sc_iface s);
                 append_entries ifs ignore_invalid r l'
    | UriFail =>
      match parse_nameserver e with
      | Ok s => do l' <- sconfig_append ifs l (sc_addr s) (sc_udp s) (sc_tcp s) (sc_iface s);
                append_entries ifs ignore_invalid r l'
      | Err st => if ignore_invalid then append_entries ifs ignore_invalid r l else Err st
      | UB k => UB k
      end
    end
  end.

(* ares_sconfig_append_fromstr *)
Definition sconfig_append_fromstr (ifs : option iftab) (l : option (list sconf)) (str : bytes) (ignore_invalid : bool)
  : outcome (option (list sconf)) :=
  match str with
  | [] => Err ARES_ENOMEM
  | _ => append_entries ifs ignore_invalid (buf_split s_sep_servers false false false 0 str) l
  end.

(* ------------------------------------------------------------------ resolv.conf & co *)

(* With fixes/C15-sortlist-keep.patch a sortlist line that does not parse (or yields nothing)
   leaves an earlier sortlist in place; [sortlist_fixed = false] is the code as pinned, where the
   earlier sortlist is freed first. *)
Definition sortlist_fixed : bool := true.

(* the keyword dispatch of ares_sysconfig_parse_resolv_line: [option] keyword, [rest1] the bytes
   after the keyword and the blanks, [value] its trimmed text *)
Definition resolv_dispatch (sortlist_fixed : bool) (ifs : option iftab) (cfg : sysconfig) (option rest1 value : bytes)
  : outcome sysconfig :=
  if kw option k_domain then
    (match s_domains cfg with [] => config_search cfg value 1 | _ => Ok cfg end)
  else if kw option k_lookup || kw option k_hostresorder then config_lookup cfg rest1 s_sep_ws
  else if kw option k_search then config_search cfg value 0
  else if kw option k_nameserver then
    match sconfig_append_fromstr ifs (s_sconfig cfg) value true with
    | Ok l => Ok (set_sconfig cfg l)
    | Err s => Err s
    | UB k => UB k
    end
  else if kw option k_sortlist then
    match parse_sortlist value with
    | Ok [] => Ok (if sortlist_fixed then cfg else set_sortlist cfg [])
    | Ok l => Ok (set_sortlist cfg l)
    | Err s => if (s =? ARES_ENOMEM)%Z then Err s
               else Ok (if sortlist_fixed then cfg else set_sortlist cfg [])
    | UB k => UB k
    end
  else if kw option k_options then set_options cfg value
  else Ok cfg.

(* ares_sysconfig_parse_resolv_line; Ok = ARES_SUCCESS, Err = ARES_ENOMEM (aborts the file) *)
Definition parse_resolv_line_gen (sortlist_fixed : bool) (ifs : option iftab) (cfg : sysconfig) (line : bytes) : outcome sysconfig :=
  match line with
  | [] => Ok cfg
  | c :: _ =>
    if (c =? ch_hash) || (c =? ch_semi) then Ok cfg else
    let sp := span (fun c => negb (isspace c)) line in
    match fst sp with
    | [] => Ok cfg
    | optb =>
      match fetch_string 32 optb with
      | Ok option =>
        let rest1 := dropwhile isspace (snd sp) in
        match fetch_string 512 rest1 with
        | Ok value0 =>
          match str_trim value0 with
          | [] => Ok cfg
          | value => resolv_dispatch sortlist_fixed ifs cfg option rest1 value
          end
        | _ => Ok cfg
        end
      | _ => Ok cfg
      end
    end
  end.

Definition parse_resolv_line := parse_resolv_line_gen sortlist_fixed.

(* parse_nsswitch_line / parse_svcconf_line *)
Definition parse_db_line (delim : N) (seps : bytes) (cfg : sysconfig) (line : bytes) : outcome sysconfig :=
  match line with
  | c :: _ => if c =? ch_hash then Ok cfg else
    match buf_split [delim] true false false 2 line with
    | [db; vals] =>
      match fetch_string 32 db with
      | Ok o => if kw o k_hosts then config_lookup cfg vals seps else Ok cfg
      | _ => Ok cfg
      end
    | _ => Ok cfg
    end
  | [] => Ok cfg
  end.
Definition parse_nsswitch_line := parse_db_line ch_colon s_sep_ws.
Definition parse_svcconf_line := parse_db_line ch_eq [ch_comma].

(* ares_sysconfig_process_buf *)
Definition file_lines (content : bytes) : list bytes := buf_split [ch_nl] true false false 0 content.

Fixpoint process_lines (cb : sysconfig -> bytes -> outcome sysconfig) (cfg : sysconfig) (ls : list bytes)
  : outcome sysconfig :=
  match ls with
  | [] => Ok cfg
  | l :: r => do cfg' <- cb cfg l; process_lines cb cfg' r
  end.

Definition process_buf cb (cfg : sysconfig) (content : bytes) : outcome sysconfig :=
  process_lines cb cfg (file_lines content).

(* process_config_lines: a missing file is ARES_ENOTFOUND, which the caller skips *)
Definition process_file cb (cfg : sysconfig) (file : option bytes) : outcome sysconfig :=
  match file with
  | None => Ok cfg
  | Some content => process_buf cb cfg content
  end.

Record sysfiles := mkFiles {
  f_resolv : option bytes; f_nsswitch : option bytes; f_netsvc : option bytes; f_svc : option bytes }.

(* ares_init_sysconfig_files *)
Definition init_sysconfig_files (ifs : option iftab) (cfg : sysconfig) (fs : sysfiles) : outcome sysconfig :=
  do c1 <- process_file (parse_resolv_line ifs) cfg (f_resolv fs);
  do c2 <- process_file parse_nsswitch_line c1 (f_nsswitch fs);
  do c3 <- process_file parse_svcconf_line c2 (f_netsvc fs);
  process_file parse_svcconf_line c3 (f_svc fs).

(* ------------------------------------------------------------------ host aliases *)
(* ares_lookup_hostaliases after the flag / dot / environment checks: the alias or ENOTFOUND *)
Fixpoint hostalias_lines (name : bytes) (ls : list bytes) : option bytes :=
  match ls with
  | [] => None
  | line :: r =>
    let (hn, rest) := span (fun c => negb (isspace c)) line in
    match fetch_string 64 hn with
    | Ok hostname =>
      if negb (bytes_caseeq hostname name) then hostalias_lines name r else
      let (fq, _) := span (fun c => negb (isspace c)) (dropwhile isspace rest) in
      match fetch_string 256 fq with
      | Ok fqdn =>
        match fqdn with
        | [] => hostalias_lines name r
        | _ => if forallb is_hostnamech fqdn then Some fqdn else hostalias_lines name r
        end
      | _ => hostalias_lines name r
      end
    | _ => hostalias_lines name r
    end
  end.

Definition lookup_hostaliases (name : bytes) (content : bytes) : option bytes :=
  hostalias_lines name (file_lines content).

End WithNet.
