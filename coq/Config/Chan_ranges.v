(* C15_ranges at the level of the channel: whatever the options, files and environment, a
   channel that ares_init_options returns has a positive timeout and try count, at least one
   server and a lookup order; fields the application did not set are 32-bit values. *)
From CAres.Config Require Import Spec Options_proofs Ranges_proofs Csv_proofs Inv_proofs.
From CAres.Gen Require Import Consts.
Local Open Scope Z_scope.

#[local] Opaque has setb clrb.

Lemma opt_timeout_facts m v :
  0 <= snd (opt_timeout m v) < 2 ^ 32 /\ (has (fst (opt_timeout m v)) B_TIMEOUTMS = false -> snd (opt_timeout m v) = 0).
Proof.
  unfold opt_timeout. destruct (has m B_TIMEOUTMS) eqn:E1.
  - destruct (v <=? 0); cbn [fst snd]; [split; [lia|reflexivity]|]. split; [apply u32_range|].
    rewrite has_clrb_neq by (unfold B_TIMEOUT, B_TIMEOUTMS; lia). congruence.
  - destruct (has m B_TIMEOUT) eqn:E2; [|cbn [fst snd]; split; [lia|reflexivity]].
    destruct (0 <? v); cbn [fst snd]; [|split; [lia|reflexivity]].
    split; [destruct (2147483 <? v); [lia|apply u32_range]|]. rewrite has_setb_eq by (unfold B_TIMEOUTMS; lia). discriminate.
Qed.

Lemma opt_pos_facts m b v : 0 <= snd (opt_pos m b v 0) /\ (has (fst (opt_pos m b v 0)) b = false -> snd (opt_pos m b v 0) = 0).
Proof.
  unfold opt_pos. destruct (has m b) eqn:E; [|cbn [fst snd]; split; [lia|reflexivity]].
  destruct (Z.leb_spec v 0); cbn [fst snd]; [split; [lia|reflexivity]|]. split; [lia|]. congruence.
Qed.

Lemma opt_ndots_facts m v : 0 <= snd (opt_ndots m v) /\ (has (fst (opt_ndots m v)) B_NDOTS = false -> snd (opt_ndots m v) = 1).
Proof.
  unfold opt_ndots. destruct (has m B_NDOTS) eqn:E; [|cbn [fst snd]; split; [lia|reflexivity]].
  destruct (Z.ltb_spec v 0); cbn [fst snd]; [split; [lia|reflexivity]|]. split; [lia|]. congruence.
Qed.

Lemma servers_update_single flags u t s : servers_update flags u t [] [s] <> [].
Proof. unfold servers_update. cbn [dedup_sconf existsb map]. destruct (Z.testbit flags 1); discriminate. Qed.

Lemma servers_update_nonempty flags u t old l : l <> [] -> servers_update flags u t old l <> [].
Proof.
  destruct l as [|s r]; [congruence|]. intros _. unfold servers_update. cbn [dedup_sconf existsb map].
  destruct (Z.testbit flags 1); discriminate.
Qed.

Section WithNet.
Variable nf : netfns.

(* ares_reinit never leaves a channel that had servers without any: the entry list gathered from
   the system is either absent (nothing applied) or non-empty *)
Theorem reinit_keeps_servers e c c' : reinit nf e c = Ok c' -> c_servers c <> [] -> c_servers c' <> [].
Proof.
  unfold reinit, init_by_sysconfig.
  destruct (read_sysconfig nf (c_ifs c) e) as [s|st|k] eqn:Er; try discriminate.
  - intros H Hne. apply Ok_inj in H. subst c'. unfold sysconfig_apply, sysconfig_apply_gen. cbn [c_servers].
    pose proof (read_sysconfig_nonempty nf _ _ _ Er) as Hs.
    destruct (s_sconfig s) as [l|]; [|exact Hne]. destruct (has (c_optmask c) B_SERVERS); [exact Hne|].
    apply servers_update_nonempty. intros E. subst l. congruence.
  - destruct (st =? NotModelled); [discriminate|]. intros H Hne. apply Ok_inj in H. subst c'. exact Hne.
Qed.

Theorem init_options_ranges e o m c :
  init_options nf e o m = Ok c ->
  0 < c_timeout c /\ 0 < c_tries c /\ c_servers c <> [] /\ c_lookups c <> None /\
  (has (c_optmask c) B_NDOTS = false -> 0 <= c_ndots c <= 15) /\
  (has (c_optmask c) B_TIMEOUTMS = false -> c_timeout c < 2 ^ 32) /\
  (has (c_optmask c) B_TRIES = false -> c_tries c < 2 ^ 32).
Proof.
  unfold init_options. intros H.
  destruct (init_by_options o m) as [c0| |] eqn:E0; simpl in H; try discriminate.
  destruct (init_by_sysconfig nf e (chan_set_ifs c0 (e_defifs e))) as [c1| |] eqn:E1; simpl in H; try discriminate.
  destruct (init_by_defaults e c1) as [c2| |] eqn:E2; simpl in H; try discriminate.
  apply Ok_inj in H. subst c.
  cbn [c_timeout c_tries c_servers c_lookups c_ndots c_optmask].
  (* stage 1 *)
  assert (0 <= c_timeout c0 < 2 ^ 32 /\ (has (c_optmask c0) B_TIMEOUTMS = false -> c_timeout c0 = 0) /\
          0 <= c_tries c0 /\ (has (c_optmask c0) B_TRIES = false -> c_tries c0 = 0) /\
          0 <= c_ndots c0 /\ (has (c_optmask c0) B_NDOTS = false -> c_ndots c0 = 1)) as S0.
  { unfold init_by_options in E0. cbv zeta in E0. apply Ok_inj in E0. subst c0.
    cbn [c_timeout c_tries c_ndots c_optmask].
    destruct (opt_timeout_facts m (o_timeout o)) as [T1 T2].
    destruct (opt_pos_facts (fst (opt_timeout m (o_timeout o))) B_TRIES (o_tries o)) as [R1 R2].
    destruct (opt_ndots_facts (fst (opt_pos (fst (opt_timeout m (o_timeout o))) B_TRIES (o_tries o) 0)) (o_ndots o)) as [N1 N2].
    split; [exact T1|]. split.
    { intros Hb. apply T2. rewrite has_u32 in Hb by bits_neq. revert Hb. mask_chain. auto. }
    split; [exact R1|]. split.
    { intros Hb. apply R2. rewrite has_u32 in Hb by bits_neq. revert Hb. mask_chain. auto. }
    split; [exact N1|].
    intros Hb. apply N2. rewrite has_u32 in Hb by bits_neq. revert Hb. mask_chain. auto. }
  destruct S0 as (T1 & T2 & R1 & R2 & N1 & N2).
  (* stage 2 *)
  assert (c_optmask c1 = c_optmask c0 /\
          0 <= c_timeout c1 /\ (has (c_optmask c0) B_TIMEOUTMS = false -> c_timeout c1 < 2 ^ 32) /\
          0 <= c_tries c1 /\ (has (c_optmask c0) B_TRIES = false -> c_tries c1 < 2 ^ 32) /\
          (has (c_optmask c0) B_NDOTS = false -> 0 <= c_ndots c1 <= 15)) as S1.
  { unfold init_by_sysconfig in E1.
    destruct (read_sysconfig nf (c_ifs (chan_set_ifs c0 (e_defifs e))) e) as [s|st|k] eqn:Er; try discriminate.
    - apply Ok_inj in E1. subst c1. destruct (read_sysconfig_range nf _ _ _ Er) as (A & B0 & C).
      unfold sysconfig_apply, sysconfig_apply_gen. cbn [chan_set_ifs c_optmask c_timeout c_tries c_ndots].
      change (10 ^ 9) with 1000000000 in *. change (2 ^ 32) with 4294967296 in *.
      split; [reflexivity|].
      split.
      { destruct (negb (s_timeout_ms s =? 0) && negb (has (c_optmask c0) B_TIMEOUTMS)); lia. }
      split.
      { intros Hb. rewrite Hb. cbn [negb]. rewrite andb_true_r.
        destruct (s_timeout_ms s =? 0); cbn [negb]; [rewrite (T2 Hb)|]; lia. }
      split.
      { destruct (negb (s_tries s =? 0) && negb (has (c_optmask c0) B_TRIES)); lia. }
      split.
      { intros Hb. rewrite Hb. cbn [negb]. rewrite andb_true_r.
        destruct (s_tries s =? 0); cbn [negb]; [rewrite (R2 Hb)|]; lia. }
      intros Hb. rewrite Hb. lia.
    - destruct (st =? NotModelled); [discriminate|]. apply Ok_inj in E1. subst c1. cbn [chan_set_ifs c_optmask c_timeout c_tries c_ndots].
      split; [reflexivity|]. split; [lia|]. split; [intros Hb; rewrite (T2 Hb); lia|]. split; [lia|].
      split; [intros Hb; rewrite (R2 Hb); lia|]. intros Hb; rewrite (N2 Hb); lia. }
  destruct S1 as (M1 & T3 & T4 & R3 & R4 & N3).
  (* stage 3 *)
  unfold init_by_defaults in E2.
  destruct (match c_servers c1 with [] => _ | _ => _ end) as [srv| |] eqn:Es; simpl in E2; try discriminate.
  apply Ok_inj in E2. subst c2.
  cbn [c_timeout c_tries c_servers c_lookups c_ndots c_optmask]. rewrite M1.
  assert (srv <> []) as Hsrv.
  { destruct (c_servers c1) as [|s0 sr].
    - destruct (Z.testbit _ 9); [discriminate|]. apply Ok_inj in Es. subst srv. apply servers_update_single.
    - apply Ok_inj in Es. subst srv. discriminate. }
  split. { destruct (Z.eqb_spec (c_timeout c1) 0); [reflexivity|lia]. }
  split. { destruct (Z.eqb_spec (c_tries c1) 0); [reflexivity|lia]. }
  split; [exact Hsrv|].
  split. { destruct (c_lookups c1); discriminate. }
  split; [exact N3|].
  split.
  - intros Hb. specialize (T4 Hb). destruct (Z.eqb_spec (c_timeout c1) 0); [reflexivity|lia].
  - intros Hb. specialize (R4 Hb). destruct (Z.eqb_spec (c_tries c1) 0); [reflexivity|lia].
Qed.

End WithNet.
