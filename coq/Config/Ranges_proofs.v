(* C15_ranges and C15_all_or_nothing (frame) over the parser model. *)
From CAres.Config Require Import Spec.
From CAres.Gen Require Import Consts.
Local Open Scope Z_scope.

(* ------------------------------------------------------------------ numeric ranges *)
(* ndots within the documented 0..15, tries a 9-digit number, the timeout at most 4294967 s *)
Definition sys_in_range (s : sysconfig) : Prop :=
  0 <= s_ndots s <= 15 /\ 0 <= s_tries s < 10 ^ 9 /\ 0 <= s_timeout_ms s <= 4294967000.

Lemma u32_range z : 0 <= u32 z < 2 ^ 32.
Proof. unfold u32. apply Z.mod_pos_bound. reflexivity. Qed.

Lemma option_value_range vr v : option_value vr = Some v -> 0 <= v < 10 ^ 9.
Proof.
  unfold option_value. destruct vr as [|x r]; [discriminate|].
  destruct (str_isnum x && (length x <=? 9)%nat) eqn:E; [|discriminate]. intros H; inversion H; subst.
  apply andb_true_iff in E as [E1 E2]. apply Nat.leb_le in E2. unfold str_isnum in E1. apply andb_true_iff in E1 as [_ E1].
  apply (atoi_digits x E1 E2).
Qed.

Lemma sys_init_in_range : sys_in_range sys_init.
Proof. unfold sys_in_range, sys_init; simpl. lia. Qed.

Lemma process_option_range cfg o cfg' : sys_in_range cfg -> process_option cfg o = Ok cfg' -> sys_in_range cfg'.
Proof.
  intros (Hn & Ht & Hm) H. unfold process_option in H.
  destruct (buf_split_str [ch_colon] true false false 2 o) as [kv| |]; simpl in H; try discriminate.
  destruct kv as [|key vr]; [discriminate|].
  destruct (option_value vr) as [v|] eqn:Ev.
  - pose proof (option_value_range vr v Ev) as Hv. change (10 ^ 9) with 1000000000 in *.
    destruct (kw key on_ndots). { inversion H; subst. unfold sys_in_range; simpl. destruct (Z.ltb_spec 15 v); repeat split; lia. }
    destruct (kw key on_retrans || kw key on_timeout).
    { destruct (Z.eqb_spec v 0); [discriminate|]. destruct (Z.ltb_spec 4294967 v); [discriminate|]. cbn [orb] in H.
      inversion H; subst. unfold sys_in_range; simpl. repeat split; lia. }
    destruct (kw key on_retry || kw key on_attempts).
    { destruct (v =? 0); [discriminate|]. inversion H; subst. unfold sys_in_range; simpl. repeat split; lia. }
    destruct (kw key on_rotate). { inversion H; subst. unfold sys_in_range; simpl. auto. }
    destruct (kw key on_usevc1 || kw key on_usevc2); inversion H; subst; unfold sys_in_range; simpl; auto.
  - destruct (kw key on_ndots); [discriminate|].
    destruct (kw key on_retrans || kw key on_timeout); [discriminate|].
    destruct (kw key on_retry || kw key on_attempts); [discriminate|].
    destruct (kw key on_rotate). { inversion H; subst. unfold sys_in_range; simpl. auto. }
    destruct (kw key on_usevc1 || kw key on_usevc2); inversion H; subst; unfold sys_in_range; simpl; auto.
Qed.

Lemma set_options_loop_range opts : forall cfg cfg', sys_in_range cfg -> set_options_loop cfg opts = Ok cfg' -> sys_in_range cfg'.
Proof.
  induction opts as [|o r IH]; intros cfg cfg' Hr H; simpl in H; [inversion H; subst; exact Hr|].
  destruct (process_option cfg o) as [c1|s|k] eqn:E; try discriminate.
  - eapply IH; [eapply process_option_range; eassumption|exact H].
  - destruct (s =? ARES_ENOMEM); [discriminate|]. eapply IH; eassumption.
Qed.

Lemma set_options_range cfg s cfg' : sys_in_range cfg -> set_options cfg s = Ok cfg' -> sys_in_range cfg'.
Proof. unfold set_options. destruct s; [intros Hr H; inversion H; subst; exact Hr|]. apply set_options_loop_range. Qed.

(* handlers that do not touch the numeric fields *)
Definition same_numeric (c c' : sysconfig) : Prop :=
  s_ndots c' = s_ndots c /\ s_tries c' = s_tries c /\ s_timeout_ms c' = s_timeout_ms c /\
  s_rotate c' = s_rotate c /\ s_usevc c' = s_usevc c.

Lemma same_numeric_range c c' : same_numeric c c' -> sys_in_range c -> sys_in_range c'.
Proof. intros (H1 & H2 & H3 & _) (A & B & C). unfold sys_in_range. rewrite H1, H2, H3. auto. Qed.

Lemma same_numeric_refl c : same_numeric c c.
Proof. repeat split. Qed.

Lemma config_search_numeric cfg s n cfg' : config_search cfg s n = Ok cfg' -> same_numeric cfg cfg'.
Proof.
  unfold config_search. destruct s as [|s0 sr]; [intros H; inversion H; subst; apply same_numeric_refl|].
  destruct (buf_split_str s_sep_domains false true true 0 (s0 :: sr)) as [[|x l]| |]; intros H; inversion H; subst; repeat split.
Qed.

Lemma config_lookup_numeric cfg b s cfg' : config_lookup cfg b s = Ok cfg' -> same_numeric cfg cfg'.
Proof.
  unfold config_lookup. destruct (buf_split_str s true false false 0 b); try (intros H; inversion H; subst; apply same_numeric_refl).
  destruct (lookup_fold a []) as [ls| |]; simpl; try discriminate.
  destruct ls; intros H; inversion H; subst; repeat split.
Qed.

Section WithNet.
Variable nf : netfns.

Lemma resolv_dispatch_range fx ifs cfg o r v cfg' :
  sys_in_range cfg -> resolv_dispatch nf fx ifs cfg o r v = Ok cfg' -> sys_in_range cfg'.
Proof.
  intros Hr. unfold resolv_dispatch.
  destruct (kw o k_domain).
  { destruct (s_domains cfg); intros H; [eapply same_numeric_range; [eapply config_search_numeric; exact H|exact Hr]|inversion H; subst; exact Hr]. }
  destruct (kw o k_lookup || kw o k_hostresorder).
  { intros H. eapply same_numeric_range; [eapply config_lookup_numeric; exact H|exact Hr]. }
  destruct (kw o k_search).
  { intros H. eapply same_numeric_range; [eapply config_search_numeric; exact H|exact Hr]. }
  destruct (kw o k_nameserver).
  { destruct (sconfig_append_fromstr nf ifs (s_sconfig cfg) v true); try discriminate.
    intros H; inversion H; subst. exact Hr. }
  destruct (kw o k_sortlist).
  { destruct (parse_sortlist nf v) as [l|s|k]; try discriminate.
    - destruct l; intros H; inversion H; subst; destruct fx; exact Hr.
    - destruct (s =? ARES_ENOMEM); [discriminate|]. intros H; inversion H; subst. destruct fx; exact Hr. }
  destruct (kw o k_options); [apply set_options_range; exact Hr|].
  intros H; inversion H; subst; exact Hr.
Qed.

Lemma parse_resolv_line_range fx ifs cfg l cfg' :
  sys_in_range cfg -> parse_resolv_line_gen nf fx ifs cfg l = Ok cfg' -> sys_in_range cfg'.
Proof.
  intros Hr. unfold parse_resolv_line_gen. destruct l as [|c r]; [intros H; inversion H; subst; exact Hr|].
  destruct ((c =? ch_hash) || (c =? ch_semi))%N; [intros H; inversion H; subst; exact Hr|].
  cbv zeta.
  destruct (fst (span (fun c0 => negb (isspace c0)) (c :: r))) as [|k0 k]; [intros H; inversion H; subst; exact Hr|].
  destruct (fetch_string 32 (k0 :: k)) as [o| |]; try (intros H; inversion H; subst; exact Hr).
  destruct (fetch_string 512 _) as [v0| |]; try (intros H; inversion H; subst; exact Hr).
  destruct (str_trim v0); [intros H; inversion H; subst; exact Hr|].
  apply resolv_dispatch_range. exact Hr.
Qed.

Lemma parse_db_line_range d seps cfg l cfg' : sys_in_range cfg -> parse_db_line d seps cfg l = Ok cfg' -> sys_in_range cfg'.
Proof.
  intros Hr. unfold parse_db_line. destruct l as [|c r]; [intros H; inversion H; subst; exact Hr|].
  destruct (c =? ch_hash)%N; [intros H; inversion H; subst; exact Hr|].
  destruct (buf_split [d] true false false 2 (c :: r)) as [|a [|b [|x y]]]; try (intros H; inversion H; subst; exact Hr).
  destruct (fetch_string 32 a) as [o| |]; try (intros H; inversion H; subst; exact Hr).
  destruct (kw o k_hosts); [|intros H; inversion H; subst; exact Hr].
  intros H. eapply same_numeric_range; [eapply config_lookup_numeric; exact H|exact Hr].
Qed.

Lemma process_lines_range cb :
  (forall c l c', sys_in_range c -> cb c l = Ok c' -> sys_in_range c') ->
  forall ls cfg cfg', sys_in_range cfg -> process_lines cb cfg ls = Ok cfg' -> sys_in_range cfg'.
Proof.
  intros Hcb. induction ls as [|l r IH]; intros cfg cfg' Hr H; simpl in H; [inversion H; subst; exact Hr|].
  destruct (cb cfg l) as [c1| |] eqn:E; simpl in H; try discriminate.
  eapply IH; [eapply Hcb; eassumption|exact H].
Qed.

Lemma process_file_range cb :
  (forall c l c', sys_in_range c -> cb c l = Ok c' -> sys_in_range c') ->
  forall f cfg cfg', sys_in_range cfg -> process_file cb cfg f = Ok cfg' -> sys_in_range cfg'.
Proof.
  intros Hcb [content|] cfg cfg' Hr H; simpl in H; [|inversion H; subst; exact Hr].
  eapply process_lines_range; eassumption.
Qed.

Theorem read_sysconfig_range ifs e s : read_sysconfig nf ifs e = Ok s -> sys_in_range s.
Proof.
  unfold read_sysconfig, init_sysconfig_files. intros H.
  destruct (process_file (parse_resolv_line nf ifs) sys_init (f_resolv (e_files e))) as [c1| |] eqn:E1; simpl in H; try discriminate.
  destruct (process_file parse_nsswitch_line c1 (f_nsswitch (e_files e))) as [c2| |] eqn:E2; simpl in H; try discriminate.
  destruct (process_file parse_svcconf_line c2 (f_netsvc (e_files e))) as [c3| |] eqn:E3; simpl in H; try discriminate.
  destruct (process_file parse_svcconf_line c3 (f_svc (e_files e))) as [c4| |] eqn:E4; simpl in H; try discriminate.
  assert (sys_in_range c1) as R1.
  { eapply process_file_range; [|apply sys_init_in_range|exact E1]. intros; eapply parse_resolv_line_range; eassumption. }
  assert (sys_in_range c2) as R2.
  { eapply process_file_range; [|exact R1|exact E2]. intros; eapply parse_db_line_range; eassumption. }
  assert (sys_in_range c3) as R3.
  { eapply process_file_range; [|exact R2|exact E3]. intros; eapply parse_db_line_range; eassumption. }
  assert (sys_in_range c4) as R4.
  { eapply process_file_range; [|exact R3|exact E4]. intros; eapply parse_db_line_range; eassumption. }
  unfold init_by_environment in H.
  destruct (e_localdomain e) as [d|].
  - destruct (config_search c4 d 1) as [c5| |] eqn:E5; simpl in H; try discriminate.
    assert (sys_in_range c5) as R5 by (eapply same_numeric_range; [eapply config_search_numeric; exact E5|exact R4]).
    destruct (e_res_options e); [eapply set_options_range; eassumption|inversion H; subst; exact R5].
  - simpl in H. destruct (e_res_options e); [eapply set_options_range; eassumption|inversion H; subst; exact R4].
Qed.

(* ------------------------------------------------------------------ frame: a line touches only its own group *)
Definition cur_servers (c : sysconfig) : list sconf := match s_sconfig c with Some x => x | None => [] end.

Inductive line_effect (c c' : sysconfig) : Prop :=
| E_none : c' = c -> line_effect c c'
| E_domains d : c' = set_domains c d -> line_effect c c'
| E_lookups l : c' = set_lookups c l -> line_effect c c'
| E_servers ext : c' = set_sconfig c (Some (cur_servers c ++ ext)) -> line_effect c c'
| E_sortlist sl : c' = set_sortlist c sl -> line_effect c c'
| E_options nd tr ro tm uv :
    c' = mkSys (s_sconfig c) (s_sortlist c) (s_domains c) (s_lookups c) nd tr ro tm uv -> line_effect c c'.

Lemma sconfig_append_ext ifs l a u t i l' :
  sconfig_append ifs l a u t i = Ok l' ->
  l' = l \/ exists ext, l' = Some ((match l with Some x => x | None => [] end) ++ ext).
Proof.
  unfold sconfig_append. destruct (addr_blacklisted a); [intros H; inversion H; auto|].
  destruct (addr_is_linklocal a).
  - destruct i.
    + intros H; inversion H. auto.
    + destruct (sconfig_linklocal ifs (n :: i)) as [[[nm sc]|]| |]; simpl; try discriminate; intros H; inversion H; [right|auto].
      eexists. reflexivity.
  - intros H; inversion H. right. eexists. reflexivity.
Qed.

Lemma append_entries_ext ifs ign es : forall l l',
  append_entries nf ifs ign es l = Ok l' ->
  l' = l \/ exists ext, l' = Some ((match l with Some x => x | None => [] end) ++ ext).
Proof.
  induction es as [|e r IH]; intros l l' H; simpl in H; [inversion H; auto|].
  assert (forall s, (do l1 <- sconfig_append ifs l (sc_addr s) (sc_udp s) (sc_tcp s) (sc_iface s);
                     append_entries nf ifs ign r l1) = Ok l' ->
                    l' = l \/ exists ext, l' = Some ((match l with Some x => x | None => [] end) ++ ext)) as Hstep.
  { intros s Hs. destruct (sconfig_append ifs l (sc_addr s) (sc_udp s) (sc_tcp s) (sc_iface s)) as [l1| |] eqn:E; simpl in Hs; try discriminate.
    apply sconfig_append_ext in E. apply IH in Hs.
    destruct E as [->|[e1 ->]]; [exact Hs|].
    destruct Hs as [->|[e2 ->]]; right; [eexists; reflexivity|].
    exists (e1 ++ e2). rewrite app_assoc. reflexivity. }
  destruct (parse_nameserver_uri nf e) as [s| | |k]; try discriminate; [apply (Hstep s); exact H|].
  destruct (parse_nameserver nf e) as [s|st|k]; try discriminate; [apply (Hstep s); exact H|].
  destruct ign; [apply IH; exact H|discriminate].
Qed.

Lemma process_option_frame cfg o cfg' :
  process_option cfg o = Ok cfg' ->
  s_sconfig cfg' = s_sconfig cfg /\ s_sortlist cfg' = s_sortlist cfg /\ s_domains cfg' = s_domains cfg /\ s_lookups cfg' = s_lookups cfg.
Proof.
  unfold process_option. destruct (buf_split_str [ch_colon] true false false 2 o) as [kv| |]; simpl; try discriminate.
  destruct kv as [|key vr]; [discriminate|].
  destruct (option_value vr);
    repeat match goal with |- context [if ?b then _ else _] => destruct b end; intros H; inversion H; subst; simpl; auto.
Qed.

Lemma set_options_loop_frame opts : forall cfg cfg',
  set_options_loop cfg opts = Ok cfg' ->
  s_sconfig cfg' = s_sconfig cfg /\ s_sortlist cfg' = s_sortlist cfg /\ s_domains cfg' = s_domains cfg /\ s_lookups cfg' = s_lookups cfg.
Proof.
  induction opts as [|o r IH]; intros cfg cfg' H; simpl in H; [inversion H; auto|].
  destruct (process_option cfg o) as [c1|s|k] eqn:E; try discriminate.
  - apply process_option_frame in E as (A & B & C & D). apply IH in H as (A' & B' & C' & D'). repeat split; congruence.
  - destruct (s =? ARES_ENOMEM); [discriminate|]. apply IH; exact H.
Qed.

(* C15_all_or_nothing: the effect of a resolv.conf line is confined to the field group of its
   keyword (or there is no effect at all); a failing line (ARES_ENOMEM) aborts the file, and
   ares_init_by_sysconfig then applies nothing (Sysconfig.init_by_sysconfig) *)
Theorem resolv_line_frame fx ifs cfg l cfg' :
  parse_resolv_line_gen nf fx ifs cfg l = Ok cfg' -> line_effect cfg cfg'.
Proof.
  unfold parse_resolv_line_gen. destruct l as [|c r]; [intros H; inversion H; apply E_none; reflexivity|].
  destruct ((c =? ch_hash) || (c =? ch_semi))%N; [intros H; inversion H; apply E_none; reflexivity|].
  cbv zeta.
  destruct (fst (span (fun c0 => negb (isspace c0)) (c :: r))) as [|k0 k]; [intros H; inversion H; apply E_none; reflexivity|].
  destruct (fetch_string 32 (k0 :: k)) as [o| |]; try (intros H; inversion H; apply E_none; reflexivity).
  destruct (fetch_string 512 _) as [v0| |]; try (intros H; inversion H; apply E_none; reflexivity).
  destruct (str_trim v0) as [|v1 vr]; [intros H; inversion H; apply E_none; reflexivity|].
  unfold resolv_dispatch.
  destruct (kw o k_domain).
  { destruct (s_domains cfg); [|intros H; inversion H; apply E_none; reflexivity].
    unfold config_search. destruct (buf_split_str s_sep_domains false true true 0 (v1 :: vr)) as [[|x l]| |];
      intros H; inversion H; [apply E_none; reflexivity|eapply E_domains; reflexivity|apply E_none; reflexivity|apply E_none; reflexivity]. }
  destruct (kw o k_lookup || kw o k_hostresorder).
  { unfold config_lookup. destruct (buf_split_str s_sep_ws true false false 0 _); try (intros H; inversion H; apply E_none; reflexivity).
    destruct (lookup_fold a []) as [ls| |]; simpl; try discriminate.
    destruct ls; intros H; inversion H; [apply E_none; reflexivity|eapply E_lookups; reflexivity]. }
  destruct (kw o k_search).
  { unfold config_search. destruct (buf_split_str s_sep_domains false true true 0 (v1 :: vr)) as [[|x l]| |];
      intros H; inversion H; [apply E_none; reflexivity|eapply E_domains; reflexivity|apply E_none; reflexivity|apply E_none; reflexivity]. }
  destruct (kw o k_nameserver).
  { unfold sconfig_append_fromstr.
    destruct (append_entries nf ifs true (buf_split s_sep_servers false false false 0 (v1 :: vr)) (s_sconfig cfg)) as [l'| |] eqn:E; try discriminate.
    intros H; inversion H. apply append_entries_ext in E as [->|[ext ->]].
    - apply E_none. destruct cfg; reflexivity.
    - eapply E_servers. reflexivity. }
  destruct (kw o k_sortlist).
  { destruct (parse_sortlist nf (v1 :: vr)) as [sl|s|k']; try discriminate.
    - destruct sl; intros H; inversion H; [destruct fx; [apply E_none; reflexivity|eapply E_sortlist; reflexivity]|eapply E_sortlist; reflexivity].
    - destruct (s =? ARES_ENOMEM); [discriminate|]. intros H; inversion H. destruct fx; [apply E_none; reflexivity|eapply E_sortlist; reflexivity]. }
  destruct (kw o k_options).
  { unfold set_options. intros H. apply set_options_loop_frame in H as (A & B & C & D).
    eapply (E_options _ _ (s_ndots cfg') (s_tries cfg') (s_rotate cfg') (s_timeout_ms cfg') (s_usevc cfg')).
    destruct cfg'; simpl in *. congruence. }
  intros H; inversion H; apply E_none; reflexivity.
Qed.

End WithNet.
