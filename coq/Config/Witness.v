(* Concrete witnesses (computed with the concrete address functions of Inet.v) for the places
   where the code as pinned does not satisfy the C15 / C16 statements.  Each is replayed on the
   real library by a corpus case (corpus/C15, corpus/C16). *)
From CAres.Config Require Import Spec Vif.
From CAres.Gen Require Import Consts.
From Coq Require Import String.
Local Open Scope string_scope.

Definition B := bytes_of_string.
Definition nf := inet_fns.

Definition cfg_with_server : sysconfig :=
  match parse_resolv_line nf None sys_init (B "nameserver 1.2.3.4") with Ok c => c | _ => sys_init end.

(* ---- inputs on which the code as pinned misbehaved; the model is of the fixed code
   (fixes/C15-empty-lists-ignored, C15-option-values-validated, C15-bounded-atoi,
   C15-no-empty-server-list) and these are now ordinary instances of the general theorems ---- *)

(* "search ," names nothing: was ARES_ENOMEM (whole file lost), now ignored *)
Lemma fixed_search_empty :
  junk_class_resolv (B "search ,") = Some JSearchEmpty /\
  parse_resolv_line nf None cfg_with_server (B "search ,") = Ok cfg_with_server /\
  process_lines (parse_resolv_line nf None) sys_init [B "nameserver 1.2.3.4"; B "search ,"] = Ok cfg_with_server.
Proof. vm_compute. repeat split; reflexivity. Qed.

(* LOCALDOMAIN="" / RES_OPTIONS="": were ARES_ENOMEM, now the same as unset *)
Lemma fixed_env_empty :
  junk_localdomain [] = true /\ junk_res_options [] = true /\
  init_by_environment cfg_with_server (Some []) (Some []) = Ok cfg_with_server.
Proof. vm_compute. repeat split; reflexivity. Qed.

(* "ndots:abc" set ndots to 0, "timeout:5x" 5 s, "ndots:-1" 4294967295: now ignored; ndots:16 is capped *)
Lemma fixed_options_numeric :
  junk_class_resolv (B "options ndots:abc") = Some JOptionsNumeric /\
  parse_resolv_line nf None sys_init (B "options ndots:abc timeout:5x ndots:-1 ndots attempts:") = Ok sys_init /\
  option_map s_ndots (match parse_resolv_line nf None sys_init (B "options ndots:16") with Ok c => Some c | _ => None end) = Some 15%Z /\
  option_map s_ndots (match parse_resolv_line nf None sys_init (B "options ndots:7") with Ok c => Some c | _ => None end) = Some 7%Z.
Proof. vm_compute. repeat split; reflexivity. Qed.

(* the pinned sortlist handler (sortlist_fixed = false) drops an earlier sortlist on a junk line;
   with fixes/C15-sortlist-keep.patch (sortlist_fixed = true) the line is the identity *)
Definition cfg_with_sortlist : sysconfig :=
  match parse_resolv_line_gen nf false None sys_init (B "sortlist 10.0.0.0/8") with Ok c => c | _ => sys_init end.
Lemma witness_sortlist_pinned :
  junk_class_resolv (B "sortlist junk") = Some JSortlistToken /\
  List.length (s_sortlist cfg_with_sortlist) = 1%nat /\
  option_map s_sortlist (match parse_resolv_line_gen nf false None cfg_with_sortlist (B "sortlist junk") with Ok c => Some c | _ => None end) = Some [] /\
  parse_resolv_line_gen nf true None cfg_with_sortlist (B "sortlist junk") = Ok cfg_with_sortlist.
Proof. vm_compute. repeat split; reflexivity. Qed.

(* over-long digit strings no longer reach atoi() *)
Lemma fixed_atoi_overflow :
  parse_sortlist nf (B "1.2.3.4/99999999999") = Err ARES_EBADSTR /\
  sconfig_append_fromstr nf None None (B "dns://1.2.3.4:53?tcpport=99999999999") true = Ok None /\
  sconfig_append_fromstr nf (Some vif) None (B "fe80::1%999999999999999") true = Ok None.
Proof. vm_compute. repeat split; reflexivity. Qed.

(* a reinit with a file whose only name server is unusable keeps the servers the channel has *)
Definition env_of_resolv (txt : string) : sysenv :=
  mkEnv (mkFiles (Some (B txt)) None None None) None None (B "localhost") None.
Definition chan_a : chan :=
  match init_options nf (env_of_resolv "nameserver 9.9.9.9") (mkOpts 0 0 0 0 0 0 0 0 [] [] None 0 [] 0 0 0 0 0 0) 0 with
  | Ok c => c | _ => mkChan 0 0 0 0 0 false 0 0 0 0 [] [] None 0 0 0 0 0 0 0 [] [] 0 [] None end.
Lemma fixed_reinit_keeps_servers :
  List.length (c_servers chan_a) = 1%nat /\
  option_map c_servers (match reinit nf (env_of_resolv "nameserver fe80::1%nope") chan_a with Ok c => Some c | _ => None end)
    = Some (c_servers chan_a).
Proof. vm_compute. repeat split; reflexivity. Qed.

(* ---- C16_csv_fixpoint / C16_dup: a server list the text form still cannot express.  With
   fixes/C16-uri-scope-charset.patch interface names made of URI-unreserved characters (br-lan,
   eth0.100) are accepted; a name with ':' (alias interface "eth0:1"), '{', '}' or a backslash is
   not a valid URI authority, so a link-local server on it with differing ports still cannot be
   rendered: ares_get_servers_csv returns NULL and ares_dup fails *)
Definition srv_alias : server :=
  mkServer (A6 [254; 128; 0; 0; 0; 0; 0; 0; 0; 0; 0; 0; 0; 0; 0; 2]%N) 5353 53 (B "eth0:1") 3.
Lemma witness_csv_unrenderable : get_servers_csv nf [srv_alias] = Err ARES_EBADNAME.
Proof. vm_compute. reflexivity. Qed.

Definition srv_brlan : server :=
  mkServer (A6 [254; 128; 0; 0; 0; 0; 0; 0; 0; 0; 0; 0; 0; 0; 0; 2]%N) 5353 53 (B "br-lan") 3.
Lemma fixed_brlan_roundtrip :
  set_servers_csv nf (Some vif) 0 5353 0 [] (B "fe80::2%br-lan") = Ok [srv_brlan] /\
  get_servers_csv nf [srv_brlan] = Ok (B "dns://[fe80::2%br-lan]:5353?tcpport=53") /\
  set_servers_csv nf (Some vif) 0 0 0 [] (B "dns://[fe80::2%br-lan]:5353?tcpport=53") = Ok [srv_brlan].
Proof. vm_compute. repeat split; reflexivity. Qed.

(* the dns:// form itself round-trips when the interface name is alphanumeric *)
Definition srv_eth0 : server :=
  mkServer (A6 [254; 128; 0; 0; 0; 0; 0; 0; 0; 0; 0; 0; 0; 0; 0; 2]%N) 5353 53 (B "eth0") 2.
Lemma witness_uri_roundtrip :
  get_servers_csv nf [srv_eth0] = Ok (B "dns://[fe80::2%eth0]:5353?tcpport=53") /\
  set_servers_csv nf (Some vif) 0 0 0 [] (B "dns://[fe80::2%eth0]:5353?tcpport=53") = Ok [srv_eth0].
Proof. vm_compute. split; reflexivity. Qed.
