(* Concrete witnesses (computed with the concrete address functions of Inet.v) for the places
   where the code as pinned does not satisfy the C15 / C16 statements.  Each is replayed on the
   real library by a corpus case (corpus/C15, corpus/C16). *)
From CAres.Config Require Import Spec Vif.
From CAres.Gen Require Import Consts.
From Coq Require Import String.
Local Open Scope string_scope.

Definition B := bytes_of_string.
Definition nf := inet_fns.

Definition cfg_with_server : sysconfig :=
  match parse_resolv_line nf None sys_init (B "nameserver 1.2.3.4") with Ok c => c | _ => sys_init end.

(* ---- C15_junk_independent: classes where the pinned code misbehaves ---- *)

(* "search ," is junk by the grammar (no name between the separators) but aborts the whole file
   with ARES_ENOMEM: every directive before and after it is lost *)
Lemma witness_search_empty :
  junk_class_resolv (B "search ,") = Some JSearchEmpty /\
  parse_resolv_line nf None cfg_with_server (B "search ,") = Err ARES_ENOMEM /\
  process_lines (parse_resolv_line nf None) sys_init [B "nameserver 1.2.3.4"; B "search ,"] = Err ARES_ENOMEM /\
  process_lines (parse_resolv_line nf None) sys_init [B "nameserver 1.2.3.4"] = Ok cfg_with_server.
Proof. vm_compute. repeat split; reflexivity. Qed.

(* the same through the environment: LOCALDOMAIN="" or RES_OPTIONS="" *)
Lemma witness_env_empty :
  junk_localdomain [] = true /\ junk_res_options [] = true /\
  init_by_environment cfg_with_server (Some []) None = Err ARES_ENOMEM /\
  init_by_environment cfg_with_server None (Some []) = Err ARES_ENOMEM /\
  init_by_environment cfg_with_server None None = Ok cfg_with_server.
Proof. vm_compute. repeat split; reflexivity. Qed.

(* numeric option values are not validated: "ndots:abc" (junk) sets ndots to 0, "timeout:5x" to 5 s,
   "ndots:-1" to 4294967295 *)
Lemma witness_options_numeric :
  junk_class_resolv (B "options ndots:abc") = Some JOptionsNumeric /\
  option_map s_ndots (match parse_resolv_line nf None sys_init (B "options ndots:abc") with Ok c => Some c | _ => None end) = Some 0%Z /\
  s_ndots sys_init = 1%Z /\
  junk_class_resolv (B "options timeout:5x") = Some JOptionsNumeric /\
  option_map s_timeout_ms (match parse_resolv_line nf None sys_init (B "options timeout:5x") with Ok c => Some c | _ => None end) = Some 5000%Z /\
  option_map s_ndots (match parse_resolv_line nf None sys_init (B "options ndots:-1") with Ok c => Some c | _ => None end) = Some 4294967295%Z.
Proof. vm_compute. repeat split; reflexivity. Qed.

(* the pinned sortlist handler (sortlist_fixed = false) drops an earlier sortlist on a junk line;
   with fixes/C15-sortlist-keep.patch (sortlist_fixed = true) the line is the identity *)
Definition cfg_with_sortlist : sysconfig :=
  match parse_resolv_line_gen nf false None sys_init (B "sortlist 10.0.0.0/8") with Ok c => c | _ => sys_init end.
Lemma witness_sortlist_pinned :
  junk_class_resolv (B "sortlist junk") = Some JSortlistToken /\
  List.length (s_sortlist cfg_with_sortlist) = 1%nat /\
  option_map s_sortlist (match parse_resolv_line_gen nf false None cfg_with_sortlist (B "sortlist junk") with Ok c => Some c | _ => None end) = Some [] /\
  parse_resolv_line_gen nf true None cfg_with_sortlist (B "sortlist junk") = Ok cfg_with_sortlist.
Proof. vm_compute. repeat split; reflexivity. Qed.

(* ---- C15_total: atoi() on digit strings of unbounded length ---- *)
Lemma witness_atoi_overflow :
  parse_sortlist nf (B "1.2.3.4/99999999999") = UB SignedOverflow /\
  sconfig_append_fromstr nf None None (B "dns://1.2.3.4:53?tcpport=99999999999") true = UB SignedOverflow /\
  sconfig_append_fromstr nf (Some vif) None (B "fe80::1%999999999999999") true = UB SignedOverflow.
Proof. vm_compute. repeat split; reflexivity. Qed.

(* ---- C15_ranges: ndots is documented as 0..15 ---- *)
Lemma witness_ndots_range :
  option_map s_ndots (match parse_resolv_line nf None sys_init (B "options ndots:16") with Ok c => Some c | _ => None end) = Some 16%Z /\
  (16 > ndots_documented_max)%Z.
Proof. vm_compute. repeat split; reflexivity. Qed.

(* ---- reinit with a file whose only name server is unusable (link-local without a known
   interface) empties the server list: the list object is created before the entry is dropped *)
Definition env_of_resolv (txt : string) : sysenv :=
  mkEnv (mkFiles (Some (B txt)) None None None) None None (B "localhost") None.
Definition chan_a : chan :=
  match init_options nf (env_of_resolv "nameserver 9.9.9.9") (mkOpts 0 0 0 0 0 0 0 0 [] [] None 0 [] 0 0 0 0 0 0) 0 with
  | Ok c => c | _ => mkChan 0 0 0 0 0 false 0 0 0 0 [] [] None 0 0 0 0 0 0 0 [] [] 0 [] None end.
Lemma witness_reinit_no_servers :
  List.length (c_servers chan_a) = 1%nat /\
  option_map (fun c => List.length (c_servers c))
    (match reinit nf (env_of_resolv "nameserver fe80::1%nope") chan_a with Ok c => Some c | _ => None end) = Some 0%nat /\
  option_map (fun c => List.length (c_servers c))
    (match reinit nf (env_of_resolv "# nothing") chan_a with Ok c => Some c | _ => None end) = Some 1%nat.
Proof. vm_compute. repeat split; reflexivity. Qed.

(* ---- C16_csv_fixpoint / C16_dup: a server list the text form cannot express.  A link-local
   server on the interface "br-lan" (not purely alphanumeric) given without port on a channel whose
   default UDP port differs from the TCP port needs the dns:// form, whose host part rejects the
   interface name: ares_get_servers_csv returns NULL and ares_dup fails *)
Definition srv_brlan : server :=
  mkServer (A6 [254; 128; 0; 0; 0; 0; 0; 0; 0; 0; 0; 0; 0; 0; 0; 2]%N) 5353 53 (B "br-lan") 3.
Lemma witness_csv_unrenderable :
  set_servers_csv nf (Some vif) 0 5353 0 [] (B "fe80::2%br-lan") = Ok [srv_brlan] /\
  get_servers_csv nf [srv_brlan] = Err ARES_EBADNAME.
Proof. vm_compute. split; reflexivity. Qed.

(* the dns:// form itself round-trips when the interface name is alphanumeric *)
Definition srv_eth0 : server :=
  mkServer (A6 [254; 128; 0; 0; 0; 0; 0; 0; 0; 0; 0; 0; 0; 0; 0; 2]%N) 5353 53 (B "eth0") 2.
Lemma witness_uri_roundtrip :
  get_servers_csv nf [srv_eth0] = Ok (B "dns://[fe80::2%eth0]:5353?tcpport=53") /\
  set_servers_csv nf (Some vif) 0 0 0 [] (B "dns://[fe80::2%eth0]:5353?tcpport=53") = Ok [srv_eth0].
Proof. vm_compute. split; reflexivity. Qed.
