(* Property-level definitions for C15 / C16 (the oracle side; nothing here is shaped after the
   parser's control flow).

   C15: which lines of resolv.conf / nsswitch.conf / netsvc.conf / svc.conf are JUNK by the
   documented grammar of those files - a comment, a blank line, an unknown keyword, a keyword
   without argument, bytes outside printable ASCII, an argument that cannot be a value of the
   keyword.  A junk line must not change the resulting configuration.

   resolv.conf grammar used here (resolv.conf(5), and the comment block in
   ares_sysconfig_files.c):
     line      := comment | keyword WS+ argument
     comment   := ('#' | ';') anything
     keyword   := domain | search | nameserver | sortlist | options | lookup | hostresorder
     nameserver argument: tokens separated by ' ' or ','; a token that can be a server starts
                with a hex digit, ':', '.', or '['
     sortlist argument: at least one token between ' ' and ';'; each token starts with one of
                "ABCDEFabcdef0123456789.:"; a numeric prefix length has at most three digits and is
                at most 128
     options argument: tokens separated by blanks; token := name | name ':' number
                names: ndots timeout retrans attempts retry rotate use-vc usevc;
                number := decimal digits (timeout/retrans/attempts/retry: not zero)
     search / domain argument: at least one name between ' ' and ','
     lookup argument: at least one of bind dns resolv resolve file files local *)
From CAres.Config Require Export Options.
Local Open Scope N_scope.

Definition keyword_of (l : bytes) : bytes := fst (span (fun c => negb (isspace c)) l).
Definition rest_of (l : bytes) : bytes := dropwhile isspace (snd (span (fun c => negb (isspace c)) l)).
Definition arg_of (l : bytes) : bytes := str_trim (rest_of l).

Definition known_keywords : list bytes :=
  [k_domain; k_lookup; k_hostresorder; k_search; k_nameserver; k_sortlist; k_options].

Definition known_option_names : list bytes :=
  [on_ndots; on_retrans; on_timeout; on_retry; on_attempts; on_rotate; on_usevc1; on_usevc2].

Definition is_number (v : bytes) : bool := negb (bytes_eqb v []) && forallb isdigit v && (length v <=? 9)%nat.
Definition is_positive_number (v : bytes) : bool := is_number v && negb (forallb (N.eqb 48) v).

(* name[:value], both without surrounding blanks *)
Definition opt_name (t : bytes) : bytes := rtrim (ltrim (fst (span (fun c => negb (c =? ch_colon)) t))).
Definition opt_value (t : bytes) : option bytes :=
  match snd (span (fun c => negb (c =? ch_colon)) t) with
  | [] => None
  | _ :: v => Some (rtrim (ltrim v))
  end.

(* junk option token by the grammar *)
Definition junk_option (t : bytes) : bool :=
  let n := opt_name t in
  if bytes_eqb n [] then false                      (* ":x" is not classified *)
  else if negb (existsb (bytes_eqb n) known_option_names) then true
  else if bytes_eqb n on_ndots then
    match opt_value t with Some v => negb (is_number v) | None => true end
  else if bytes_eqb n on_timeout || bytes_eqb n on_retrans || bytes_eqb n on_attempts || bytes_eqb n on_retry then
    match opt_value t with Some v => negb (is_positive_number v) | None => true end
  else false.

(* the sub-class the proof covers: an unknown name without value *)
Definition junk_option_plain (t : bytes) : bool :=
  negb (mem ch_colon t) && negb (existsb (bytes_eqb (rtrim (ltrim t))) known_option_names).

Definition tokens (seps : bytes) (s : bytes) : list bytes := buf_split seps false false false 0 s.

Definition cannot_start_server (t : bytes) : bool :=
  match t with
  | [] => true
  | c :: _ => negb (mem c s_ipcharset || (c =? ch_lbr) || isspace c) &&
              match find_seq s_scheme_sep t with None => true | Some _ => false end
  end.
Definition cannot_start_pattern (t : bytes) : bool :=
  match t with [] => true | c :: _ => negb (mem c s_ipcharset || isspace c) end.

(* a sortlist entry  address "/" digits  whose prefix length is not one for any address family:
   more than three digits, or a value above 128 (numeric extremes: 129, 255, 256, 264, 999, 2^32+8 ...) *)
Definition bad_mask_token (t : bytes) : bool :=
  let sp := span (fun c => mem c s_ipcharset) (dropwhile isspace t) in
  match snd sp with
  | c :: r =>
    if c =? ch_slash then
      let m := fst (span (fun c => mem c s_digits_dot) r) in
      forallb isdigit m && negb (length m =? 0)%nat && ((3 <? length m)%nat || (128 <? digits_value m)%Z)
    else false
  | [] => false
  end.

(* a sortlist string (resolv.conf value or ares_set_sortlist argument) with such an entry *)
Definition sortlist_has_bad_mask (s : bytes) : bool := existsb bad_mask_token (tokens s_sep_sortlist s).

(* junk classes of a (trimmed, non-empty) resolv.conf line; None: not junk *)
Inductive jclass := JComment | JUnknownKeyword | JNoArgument | JUnprintable | JOverlong
                  | JNameserverTokens | JSortlistToken | JOptionsPlain | JOptionsNumeric
                  | JSearchEmpty | JLookupNoWord | JSortlistMask.

Definition junk_class_resolv (l : bytes) : option jclass :=
  match l with
  | [] => Some JComment
  | c :: _ =>
    if (c =? ch_hash) || (c =? ch_semi) then Some JComment
    else
      let k := keyword_of l in
      if negb (forallb isprint k) || negb (forallb isprint (rest_of l)) then Some JUnprintable
      else if negb (existsb (bytes_eqb k) known_keywords) then Some JUnknownKeyword
      else if (512 <=? length (rest_of l))%nat then Some JOverlong
      else
        let a := arg_of l in
        match a with
        | [] => Some JNoArgument
        | _ =>
          if bytes_eqb k k_nameserver then
            if forallb cannot_start_server (tokens s_sep_servers a) then Some JNameserverTokens else None
          else if bytes_eqb k k_sortlist then
            match tokens s_sep_sortlist a with
            | t :: ts => if cannot_start_pattern t then Some JSortlistToken
                         else if existsb bad_mask_token (t :: ts) then Some JSortlistMask else None
            | [] => Some JSortlistToken              (* nothing but separators *)
            end
          else if bytes_eqb k k_options then
            let ts := buf_split s_sep_ws true false false 0 a in
            if forallb junk_option_plain ts then Some JOptionsPlain
            else if forallb junk_option ts then Some JOptionsNumeric else None
          else if bytes_eqb k k_search || bytes_eqb k k_domain then
            match buf_split s_sep_domains false true true 0 a with [] => Some JSearchEmpty | _ => None end
          else (* lookup / hostresorder *)
            if forallb (fun v => match lookup_char v with None => true | Some _ => false end)
                       (buf_split s_sep_ws true false false 0 (rest_of l)) then Some JLookupNoWord else None
        end
  end.

(* a raw file line (before trimming): junk when blank or junk after trimming *)
Definition junk_class_raw (raw : bytes) : option jclass :=
  if mem ch_nl raw then None else junk_class_resolv (rtrim (ltrim raw)).

(* nsswitch.conf ("db: values") and netsvc.conf / svc.conf ("db = values"): junk when a comment,
   when there is no delimiter, when the database is not "hosts", or when no value is a known
   source *)
Definition junk_db_line (delim : N) (seps : bytes) (raw : bytes) : bool :=
  if mem ch_nl raw then false else
  match rtrim (ltrim raw) with
  | [] => true
  | (c :: _) as l =>
    if c =? ch_hash then true
    else
      let (db, r) := span (fun c => negb (c =? delim)) l in
      match r with
      | [] => true
      | _ :: vals =>
        negb (bytes_eqb (rtrim (ltrim db)) k_hosts) ||
        forallb (fun v => match lookup_char v with None => true | Some _ => false end)
                (buf_split seps true false false 0 vals)
      end
  end.

(* environment: LOCALDOMAIN is a list of names, RES_OPTIONS a list of option tokens *)
Definition junk_localdomain (v : bytes) : bool :=
  match buf_split s_sep_domains false true true 0 v with
  | [] => true                                                  (* names nothing *)
  | names => negb (forallb (forallb isprint) names)            (* a name with bytes outside printable ASCII *)
  end.
Definition junk_res_options (v : bytes) : bool :=
  forallb junk_option (buf_split s_sep_ws true false false 0 v).

Definition jclass_id (j : jclass) : N :=
  match j with
  | JComment => 0 | JUnknownKeyword => 1 | JNoArgument => 2 | JUnprintable => 3 | JOverlong => 4
  | JNameserverTokens => 5 | JSortlistToken => 6 | JOptionsPlain => 7 | JOptionsNumeric => 8
  | JSearchEmpty => 9 | JLookupNoWord => 10 | JSortlistMask => 11
  end.

(* The HOSTALIASES file (hostname(7)): one "alias target" pair per line.  A line defines the alias
   [name] when its first word (at most 63 printable characters) is the name, ignoring case, and its
   second word is a host name: 1..255 characters of the host-name character set.  Every other line
   - another alias, no target, a target with other characters, an over-long word - is junk for
   this lookup, wherever it stands. *)
Definition alias_word1 (l : bytes) : bytes := fst (span (fun c => negb (isspace c)) l).
Definition alias_word2 (l : bytes) : bytes :=
  fst (span (fun c => negb (isspace c)) (dropwhile isspace (snd (span (fun c => negb (isspace c)) l)))).
Definition alias_line_usable (name l : bytes) : bool :=
  (length (alias_word1 l) <=? 63)%nat && forallb isprint (alias_word1 l) && bytes_caseeq (alias_word1 l) name &&
  negb (length (alias_word2 l) =? 0)%nat && (length (alias_word2 l) <=? 255)%nat && forallb is_hostnamech (alias_word2 l).
Definition junk_alias_line (name raw : bytes) : bool :=
  if mem ch_nl raw then false else negb (alias_line_usable name (rtrim (ltrim raw))).

(* C15 ranges as documented (docs/ares_init_options.3: ndots valid range 0-15) and as needed by
   the rest of the library (timeout and tries are never 0 once a channel exists) *)
Definition ndots_documented_max : Z := 15%Z.
