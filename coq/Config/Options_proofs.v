(* Proofs about option handling (C16): user settings win over system configuration, and
   init (save c) reproduces every field the option mask covers. *)
From CAres.Config Require Import Spec.
From CAres.Gen Require Import Consts.
Local Open Scope Z_scope.

Lemma Ok_inj {A} (a b : A) : Ok a = Ok b -> a = b.
Proof. intros H; inversion H; reflexivity. Qed.

(* ------------------------------------------------------------------ mask bits *)
Lemma has_clrb_neq m b b' : b <> b' -> has (clrb m b) b' = has m b'.
Proof. intros H. unfold has, clrb. apply Z.clearbit_neq. exact H. Qed.
Lemma has_clrb_eq m b : has (clrb m b) b = false.
Proof. unfold has, clrb. apply Z.clearbit_eq. Qed.
Lemma has_setb_neq m b b' : 0 <= b -> b <> b' -> has (setb m b) b' = has m b'.
Proof. intros H0 H. unfold has, setb. apply Z.setbit_neq; assumption. Qed.
Lemma has_setb_eq m b : 0 <= b -> has (setb m b) b = true.
Proof. intros H. unfold has, setb. apply Z.setbit_eq. exact H. Qed.
Lemma has_u32 m b : 0 <= b < 32 -> has (u32 m) b = has m b.
Proof. intros H. unfold has, u32. apply Z.mod_pow2_bits_low. lia. Qed.

#[local] Opaque has setb clrb.

(* ------------------------------------------------------------------ C16_user_wins *)
(* every field ares_sysconfig_apply may write is guarded by the mask bit the application set;
   all other fields are not written at all *)
Record guarded_same (c c' : chan) : Prop := {
  gs_mask : c_optmask c' = c_optmask c;
  gs_flags : has (c_optmask c) B_FLAGS = true -> c_flags c' = c_flags c;
  gs_timeout : has (c_optmask c) B_TIMEOUTMS = true -> c_timeout c' = c_timeout c;
  gs_tries : has (c_optmask c) B_TRIES = true -> c_tries c' = c_tries c;
  gs_ndots : has (c_optmask c) B_NDOTS = true -> c_ndots c' = c_ndots c;
  gs_rotate : has (c_optmask c) B_ROTATE || has (c_optmask c) B_NOROTATE = true -> c_rotate c' = c_rotate c;
  gs_domains : has (c_optmask c) B_DOMAINS = true -> c_domains c' = c_domains c;
  gs_lookups : has (c_optmask c) B_LOOKUPS = true -> c_lookups c' = c_lookups c;
  gs_sortlist : has (c_optmask c) B_SORTLIST = true -> c_sortlist c' = c_sortlist c;
  gs_servers : has (c_optmask c) B_SERVERS = true -> c_servers c' = c_servers c;
  gs_rest : c_maxtimeout c' = c_maxtimeout c /\ c_udp c' = c_udp c /\ c_tcp c' = c_tcp c /\
            c_sndbuf c' = c_sndbuf c /\ c_rcvbuf c' = c_rcvbuf c /\ c_ednspsz c' = c_ednspsz c /\
            c_qcache c' = c_qcache c /\ c_udpmaxq c' = c_udpmaxq c /\ c_retry_chance c' = c_retry_chance c /\
            c_retry_delay c' = c_retry_delay c /\ c_sscb c' = c_sscb c /\ c_ldev c' = c_ldev c /\
            c_lip4 c' = c_lip4 c /\ c_lip6 c' = c_lip6 c /\ c_ifs c' = c_ifs c }.

Lemma guarded_same_refl c : guarded_same c c.
Proof. constructor; auto. repeat split. Qed.

Theorem sysconfig_apply_user_wins c s : guarded_same c (sysconfig_apply c s).
Proof.
  unfold sysconfig_apply, sysconfig_apply_gen, usevc_fixed.
  constructor; cbn [c_optmask c_flags c_timeout c_tries c_ndots c_rotate c_domains c_lookups c_sortlist c_servers
                    c_maxtimeout c_udp c_tcp c_sndbuf c_rcvbuf c_ednspsz c_qcache c_udpmaxq c_retry_chance
                    c_retry_delay c_sscb c_ldev c_lip4 c_lip6 c_ifs]; try reflexivity.
  - intros H. rewrite H. cbn [andb negb]. rewrite andb_false_r. reflexivity.
  - intros H. rewrite H. cbn [negb]. rewrite andb_false_r. reflexivity.
  - intros H. rewrite H. cbn [negb]. rewrite andb_false_r. reflexivity.
  - intros H. rewrite H. reflexivity.
  - intros H. rewrite H. reflexivity.
  - intros H. rewrite H. destruct (s_domains s); reflexivity.
  - intros H. rewrite H. destruct (s_lookups s); reflexivity.
  - intros H. rewrite H. destruct (s_sortlist s); reflexivity.
  - intros H. rewrite H. destruct (s_sconfig s); reflexivity.
  - repeat split.
Qed.

(* the code as pinned (usevc_fixed = false) overrides flags the application set *)
Lemma sysconfig_apply_pinned_overrides_flags :
  exists c s, has (c_optmask c) B_FLAGS = true /\ c_flags (sysconfig_apply_gen false c s) <> c_flags c.
Proof.
  exists (mkChan 256 0 0 1 0 false 0 0 0 0 [] [] None 0 0 0 1 0 0 0 [] [] 0 [] None),
         (mkSys None [] [] None 1 0 false 0 true).
  split; [reflexivity|]. vm_compute. discriminate.
Qed.

Section WithNet.
Variable nf : netfns.

(* at every reinit *)
Theorem reinit_user_wins e c c' : reinit nf e c = Ok c' -> guarded_same c c'.
Proof.
  unfold reinit, init_by_sysconfig.
  destruct (read_sysconfig nf (c_ifs c) e) as [s|st|k]; try discriminate.
  - intros H; inversion H. apply sysconfig_apply_user_wins.
  - destruct (st =? NotModelled); [discriminate|]. intros H; inversion H; subst. apply guarded_same_refl.
Qed.

(* ------------------------------------------------------------------ option steps *)
Lemma opt_pos_other m b v d b' : b <> b' -> has (fst (opt_pos m b v d)) b' = has m b'.
Proof. intros H. unfold opt_pos. destruct (has m b); [|reflexivity]. destruct (v <=? 0); [apply has_clrb_neq; exact H|reflexivity]. Qed.
Lemma opt_ndots_other m v b' : B_NDOTS <> b' -> has (fst (opt_ndots m v)) b' = has m b'.
Proof. intros H. unfold opt_ndots. destruct (has m B_NDOTS); [|reflexivity]. destruct (v <? 0); [apply has_clrb_neq; exact H|reflexivity]. Qed.
Lemma opt_timeout_other m v b' : B_TIMEOUTMS <> b' -> B_TIMEOUT <> b' -> has (fst (opt_timeout m v)) b' = has m b'.
Proof.
  intros H1 H2. unfold opt_timeout. destruct (has m B_TIMEOUTMS).
  - destruct (v <=? 0); [apply has_clrb_neq; exact H1|reflexivity].
  - destruct (has m B_TIMEOUT); [|reflexivity].
    destruct (0 <? v); simpl; [rewrite has_setb_neq by (try exact H1; unfold B_TIMEOUTMS; lia)|]; apply has_clrb_neq; exact H2.
Qed.
Lemma opt_lookups_other m l b' : B_LOOKUPS <> b' -> has (fst (opt_lookups m l)) b' = has m b'.
Proof. intros H. unfold opt_lookups. destruct (has m B_LOOKUPS); [|reflexivity]. destruct l; [reflexivity|apply has_clrb_neq; exact H]. Qed.
Lemma opt_qcache_other m v b' : B_QUERY_CACHE <> b' -> has (fst (opt_qcache m v)) b' = has m b'.
Proof. intros H. unfold opt_qcache. destruct (has m B_QUERY_CACHE); [reflexivity|apply has_setb_neq; [unfold B_QUERY_CACHE; lia|exact H]]. Qed.
Lemma opt_servers_other m f u t l b' : B_SERVERS <> b' -> has (fst (opt_servers m f u t l)) b' = has m b'.
Proof. intros H. unfold opt_servers. destruct (has m B_SERVERS); [|reflexivity]. destruct l; [apply has_clrb_neq; exact H|reflexivity]. Qed.

Ltac bits_neq := unfold B_FLAGS, B_TIMEOUT, B_TRIES, B_NDOTS, B_UDP_PORT, B_TCP_PORT, B_SERVERS, B_DOMAINS, B_LOOKUPS,
  B_SOCK_STATE_CB, B_SORTLIST, B_SOCK_SNDBUF, B_SOCK_RCVBUF, B_TIMEOUTMS, B_ROTATE, B_EDNSPSZ, B_NOROTATE, B_RESOLVCONF,
  B_HOSTS_FILE, B_UDP_MAX_QUERIES, B_MAXTIMEOUTMS, B_QUERY_CACHE, B_EVENT_THREAD, B_SERVER_FAILOVER; lia.

(* a bit none of whose own conditions clears it is still set when the system configuration is applied *)
Ltac mask_chain :=
  repeat first [ rewrite opt_servers_other by bits_neq | rewrite opt_qcache_other by bits_neq
               | rewrite opt_pos_other by bits_neq | rewrite opt_lookups_other by bits_neq
               | rewrite opt_ndots_other by bits_neq | rewrite opt_timeout_other by bits_neq ].

(* the value the application passed reaches the channel and survives ares_init_options.
   (ARES_OPT_DOMAINS with an empty list is the documented way to ask for the defaults, hence the
   side condition; see docs/C16.md) *)
Theorem init_user_wins e o m c :
  init_options nf e o m = Ok c ->
  (has m B_FLAGS = true -> c_flags c = u32 (o_flags o)) /\
  (has m B_TRIES = true -> 0 < o_tries o -> c_tries c = o_tries o) /\
  (has m B_NDOTS = true -> 0 <= o_ndots o -> c_ndots c = o_ndots o) /\
  (has m B_TIMEOUTMS = true -> 0 < o_timeout o < 2 ^ 32 -> c_timeout c = o_timeout o) /\
  (has m B_DOMAINS = true -> o_domains o <> [] -> c_domains c = o_domains o) /\
  (has m B_LOOKUPS = true -> forall l, o_lookups o = Some l -> c_lookups c = Some l) /\
  (has m B_SORTLIST = true -> c_sortlist c = o_sortlist o) /\
  (has m B_NOROTATE = true -> c_rotate c = false) /\
  (has m B_ROTATE = true -> has m B_NOROTATE = false -> c_rotate c = true).
Proof.
  unfold init_options. intros H.
  destruct (init_by_options o m) as [c0| |] eqn:E0; simpl in H; try discriminate.
  destruct (init_by_sysconfig nf e c0) as [c1| |] eqn:E1; simpl in H; try discriminate.
  destruct (init_by_defaults e c1) as [c2| |] eqn:E2; simpl in H; try discriminate.
  inversion H; subst c; clear H.
  cbn [c_flags c_tries c_ndots c_timeout c_domains c_lookups c_sortlist c_rotate].
  (* stage 2: the system configuration respects the mask *)
  assert (guarded_same c0 c1) as G.
  { unfold init_by_sysconfig in E1. destruct (read_sysconfig nf (c_ifs c0) e) as [s|st|k]; try discriminate.
    - inversion E1. apply sysconfig_apply_user_wins.
    - destruct (st =? NotModelled); [discriminate|]. inversion E1; subst. apply guarded_same_refl. }
  (* stage 3: defaults fill only what is still unset *)
  unfold init_by_defaults in E2.
  destruct (match c_servers c1 with [] => _ | _ => _ end) as [srv| |]; simpl in E2; try discriminate.
  apply Ok_inj in E2; subst c2.
  cbn [c_flags c_tries c_ndots c_timeout c_domains c_lookups c_sortlist c_rotate].
  rewrite (gs_mask _ _ G).
  (* stage 1 *)
  unfold init_by_options in E0. cbv zeta in E0. apply Ok_inj in E0; subst c0.
  cbn [c_optmask c_flags c_tries c_ndots c_timeout c_domains c_lookups c_sortlist c_rotate] in *.
  repeat split.
  - intros Hb. rewrite has_u32 by bits_neq. mask_chain. rewrite Hb.
    rewrite (gs_flags _ _ G); cbn [c_optmask c_flags]; [rewrite Hb; reflexivity|].
    rewrite has_u32 by bits_neq. mask_chain. exact Hb.
  - intros Hb Hv.
    assert (opt_pos (fst (opt_timeout m (o_timeout o))) B_TRIES (o_tries o) 0 = (fst (opt_timeout m (o_timeout o)), o_tries o)) as Ep.
    { unfold opt_pos. rewrite opt_timeout_other by bits_neq. rewrite Hb. destruct (Z.leb_spec (o_tries o) 0); [lia|reflexivity]. }
    rewrite (gs_tries _ _ G); cbn [c_optmask c_tries].
    + rewrite Ep. cbn [snd]. destruct (Z.eqb_spec (o_tries o) 0); [lia|reflexivity].
    + rewrite has_u32 by bits_neq. mask_chain. rewrite Ep. cbn [fst]. rewrite opt_timeout_other by bits_neq. exact Hb.
  - intros Hb Hv.
    assert (has (fst (opt_pos (fst (opt_timeout m (o_timeout o))) B_TRIES (o_tries o) 0)) B_NDOTS = true) as Hb'.
    { rewrite opt_pos_other by bits_neq. rewrite opt_timeout_other by bits_neq. exact Hb. }
    assert (forall mm, has mm B_NDOTS = true -> opt_ndots mm (o_ndots o) = (mm, o_ndots o)) as Ep.
    { intros mm Hm. unfold opt_ndots. rewrite Hm. destruct (Z.ltb_spec (o_ndots o) 0); [lia|reflexivity]. }
    rewrite (gs_ndots _ _ G); cbn [c_optmask c_ndots].
    + rewrite (Ep _ Hb'). reflexivity.
    + rewrite has_u32 by bits_neq. mask_chain. rewrite (Ep _ Hb'). cbn [fst]. exact Hb'.
  - intros Hb Hv.
    assert (opt_timeout m (o_timeout o) = (m, o_timeout o)) as Ep.
    { unfold opt_timeout. rewrite Hb. destruct (Z.leb_spec (o_timeout o) 0); [lia|]. unfold u32. rewrite Z.mod_small by lia. reflexivity. }
    rewrite (gs_timeout _ _ G); cbn [c_optmask c_timeout].
    + rewrite Ep. cbn [snd]. destruct (Z.eqb_spec (o_timeout o) 0); [lia|reflexivity].
    + rewrite has_u32 by bits_neq. mask_chain. rewrite Ep. cbn [fst]. exact Hb.
  - intros Hb Hne.
    assert (has (fst (opt_pos (fst (opt_pos (fst (opt_pos (fst (opt_pos (fst (opt_ndots (fst (opt_pos (fst (opt_timeout m (o_timeout o))) B_TRIES (o_tries o) 0)) (o_ndots o))) B_MAXTIMEOUTMS (o_maxtimeout o) 0)) B_SOCK_SNDBUF (o_sndbuf o) 0)) B_SOCK_RCVBUF (o_rcvbuf o) 0)) B_EDNSPSZ (o_ednspsz o) 0)) B_DOMAINS = true) as Hb'.
    { mask_chain. exact Hb. }
    rewrite (gs_domains _ _ G); cbn [c_optmask c_domains].
    + rewrite Hb'. destruct (o_domains o); [congruence|reflexivity].
    + rewrite has_u32 by bits_neq. mask_chain. exact Hb.
  - intros Hb l Hl.
    assert (forall mm, has mm B_LOOKUPS = true -> opt_lookups mm (o_lookups o) = (mm, Some l)) as Ep.
    { intros mm Hm. unfold opt_lookups. rewrite Hm, Hl. reflexivity. }
    rewrite (gs_lookups _ _ G); cbn [c_optmask c_lookups].
    + match goal with |- context [opt_lookups ?mm (o_lookups o)] =>
        assert (has mm B_LOOKUPS = true) as Hb' by (mask_chain; exact Hb); rewrite (Ep _ Hb') end. reflexivity.
    + rewrite has_u32 by bits_neq. mask_chain.
      match goal with |- context [opt_lookups ?mm (o_lookups o)] =>
        assert (has mm B_LOOKUPS = true) as Hb' by (mask_chain; exact Hb); rewrite (Ep _ Hb') end. cbn [fst]. exact Hb'.
  - intros Hb.
    rewrite (gs_sortlist _ _ G); cbn [c_optmask c_sortlist].
    + match goal with |- context [if has ?mm B_SORTLIST then _ else _] =>
        assert (has mm B_SORTLIST = true) as Hb' by (mask_chain; exact Hb); rewrite Hb' end. reflexivity.
    + rewrite has_u32 by bits_neq. mask_chain. exact Hb.
  - intros Hb.
    rewrite (gs_rotate _ _ G); cbn [c_optmask c_rotate].
    + match goal with |- context [if has ?mm B_NOROTATE then _ else _] =>
        assert (has mm B_NOROTATE = true) as Hb' by (mask_chain; exact Hb); rewrite Hb' end. reflexivity.
    + rewrite !has_u32 by bits_neq. mask_chain. rewrite Hb. apply orb_true_r.
  - intros Hb Hn.
    rewrite (gs_rotate _ _ G); cbn [c_optmask c_rotate].
    + match goal with |- context [if has ?mm B_NOROTATE then _ else has ?mm B_ROTATE] =>
        assert (has mm B_NOROTATE = false) as Hn' by (mask_chain; exact Hn);
        assert (has mm B_ROTATE = true) as Hb' by (mask_chain; exact Hb); rewrite Hn', Hb' end. reflexivity.
    + rewrite !has_u32 by bits_neq. mask_chain. rewrite Hb. reflexivity.
Qed.

End WithNet.
