(* Proofs about option handling (C16): user settings win over system configuration, and
   init (save c) reproduces every field the option mask covers. *)
From CAres.Config Require Import Spec.
From CAres.Gen Require Import Consts.
Local Open Scope Z_scope.

Lemma Ok_inj {A} (a b : A) : Ok a = Ok b -> a = b.
Proof. intros H; inversion H; reflexivity. Qed.

(* ------------------------------------------------------------------ mask bits *)
Lemma has_clrb_neq m b b' : b <> b' -> has (clrb m b) b' = has m b'.
Proof. intros H. unfold has, clrb. apply Z.clearbit_neq. exact H. Qed.
Lemma has_clrb_eq m b : has (clrb m b) b = false.
Proof. unfold has, clrb. apply Z.clearbit_eq. Qed.
Lemma has_setb_neq m b b' : 0 <= b -> b <> b' -> has (setb m b) b' = has m b'.
Proof. intros H0 H. unfold has, setb. apply Z.setbit_neq; assumption. Qed.
Lemma has_setb_eq m b : 0 <= b -> has (setb m b) b = true.
Proof. intros H. unfold has, setb. apply Z.setbit_eq. exact H. Qed.
Lemma has_u32 m b : 0 <= b < 32 -> has (u32 m) b = has m b.
Proof. intros H. unfold has, u32. apply Z.mod_pow2_bits_low. lia. Qed.

Lemma u32_range_flags z : 0 <= u32 z < 2 ^ 32.
Proof. unfold u32. apply Z.mod_pos_bound. reflexivity. Qed.

Lemma clrb_noop m b : has m b = false -> clrb m b = m.
Proof.
  unfold has, clrb. intros H. apply Z.bits_inj'. intros n Hn.
  destruct (Z.eq_dec b n) as [<-|Hne]; [rewrite Z.clearbit_eq; symmetry; exact H|apply Z.clearbit_neq; exact Hne].
Qed.

#[local] Opaque has setb clrb.

(* ------------------------------------------------------------------ C16_user_wins *)
(* every field ares_sysconfig_apply may write is guarded by the mask bit the application set;
   all other fields are not written at all *)
Record guarded_same (c c' : chan) : Prop := {
  gs_mask : c_optmask c' = c_optmask c;
  gs_flags : has (c_optmask c) B_FLAGS = true -> c_flags c' = c_flags c;
  gs_timeout : has (c_optmask c) B_TIMEOUTMS = true -> c_timeout c' = c_timeout c;
  gs_tries : has (c_optmask c) B_TRIES = true -> c_tries c' = c_tries c;
  gs_ndots : has (c_optmask c) B_NDOTS = true -> c_ndots c' = c_ndots c;
  gs_rotate : has (c_optmask c) B_ROTATE || has (c_optmask c) B_NOROTATE = true -> c_rotate c' = c_rotate c;
  gs_domains : has (c_optmask c) B_DOMAINS = true -> c_domains c' = c_domains c;
  gs_lookups : has (c_optmask c) B_LOOKUPS = true -> c_lookups c' = c_lookups c;
  gs_sortlist : has (c_optmask c) B_SORTLIST = true -> c_sortlist c' = c_sortlist c;
  gs_servers : has (c_optmask c) B_SERVERS = true -> c_servers c' = c_servers c;
  gs_rest : c_maxtimeout c' = c_maxtimeout c /\ c_udp c' = c_udp c /\ c_tcp c' = c_tcp c /\
            c_sndbuf c' = c_sndbuf c /\ c_rcvbuf c' = c_rcvbuf c /\ c_ednspsz c' = c_ednspsz c /\
            c_qcache c' = c_qcache c /\ c_udpmaxq c' = c_udpmaxq c /\ c_retry_chance c' = c_retry_chance c /\
            c_retry_delay c' = c_retry_delay c /\ c_sscb c' = c_sscb c /\ c_ldev c' = c_ldev c /\
            c_lip4 c' = c_lip4 c /\ c_lip6 c' = c_lip6 c }.

Lemma guarded_same_refl c : guarded_same c c.
Proof. constructor; auto. repeat split. Qed.

(* installing the socket functions first changes no configuration field *)
Lemma guarded_same_set_ifs c i c' : guarded_same (chan_set_ifs c i) c' -> guarded_same c c'.
Proof. intros [H1 H2 H3 H4 H5 H6 H7 H8 H9 H10 H11]. constructor; assumption. Qed.

Theorem sysconfig_apply_user_wins c s : guarded_same c (sysconfig_apply c s).
Proof.
  unfold sysconfig_apply, sysconfig_apply_gen, usevc_fixed.
  constructor; cbn [c_optmask c_flags c_timeout c_tries c_ndots c_rotate c_domains c_lookups c_sortlist c_servers
                    c_maxtimeout c_udp c_tcp c_sndbuf c_rcvbuf c_ednspsz c_qcache c_udpmaxq c_retry_chance
                    c_retry_delay c_sscb c_ldev c_lip4 c_lip6 c_ifs]; try reflexivity.
  - intros H. rewrite H. cbn [andb negb]. rewrite andb_false_r. reflexivity.
  - intros H. rewrite H. cbn [negb]. rewrite andb_false_r. reflexivity.
  - intros H. rewrite H. cbn [negb]. rewrite andb_false_r. reflexivity.
  - intros H. rewrite H. reflexivity.
  - intros H. rewrite H. reflexivity.
  - intros H. rewrite H. destruct (s_domains s); reflexivity.
  - intros H. rewrite H. destruct (s_lookups s); reflexivity.
  - intros H. rewrite H. destruct (s_sortlist s); reflexivity.
  - intros H. rewrite H. destruct (s_sconfig s); reflexivity.
  - repeat split.
Qed.

(* the code as pinned (usevc_fixed = false) overrides flags the application set *)
Lemma sysconfig_apply_pinned_overrides_flags :
  exists c s, has (c_optmask c) B_FLAGS = true /\ c_flags (sysconfig_apply_gen false c s) <> c_flags c.
Proof.
  exists (mkChan 256 0 0 1 0 false 0 0 0 0 [] [] None 0 0 0 1 0 0 0 [] [] 0 [] None),
         (mkSys None [] [] None 1 0 false 0 true).
  split; [reflexivity|]. vm_compute. discriminate.
Qed.

(* ------------------------------------------------------------------ option steps *)
Lemma opt_pos_other m b v d b' : b <> b' -> has (fst (opt_pos m b v d)) b' = has m b'.
Proof. intros H. unfold opt_pos. destruct (has m b); [|reflexivity]. destruct (v <=? 0); [apply has_clrb_neq; exact H|reflexivity]. Qed.
Lemma opt_ndots_other m v b' : B_NDOTS <> b' -> has (fst (opt_ndots m v)) b' = has m b'.
Proof. intros H. unfold opt_ndots. destruct (has m B_NDOTS); [|reflexivity]. destruct (v <? 0); [apply has_clrb_neq; exact H|reflexivity]. Qed.
Lemma opt_timeout_other m v b' : B_TIMEOUTMS <> b' -> B_TIMEOUT <> b' -> has (fst (opt_timeout m v)) b' = has m b'.
Proof.
  intros H1 H2. unfold opt_timeout. destruct (has m B_TIMEOUTMS).
  - destruct (v <=? 0); cbn [fst]; rewrite ?(has_clrb_neq _ _ _ H1); apply has_clrb_neq; exact H2.
  - destruct (has m B_TIMEOUT); [|reflexivity].
    destruct (0 <? v); cbn [fst]; [rewrite has_setb_neq by (try exact H1; unfold B_TIMEOUTMS; lia)|]; apply has_clrb_neq; exact H2.
Qed.
Lemma opt_lookups_other m l b' : B_LOOKUPS <> b' -> has (fst (opt_lookups m l)) b' = has m b'.
Proof. intros H. unfold opt_lookups. destruct (has m B_LOOKUPS); [|reflexivity]. destruct l; [reflexivity|apply has_clrb_neq; exact H]. Qed.
Lemma opt_qcache_other m v b' : B_QUERY_CACHE <> b' -> has (fst (opt_qcache m v)) b' = has m b'.
Proof. intros H. unfold opt_qcache. destruct (has m B_QUERY_CACHE); [reflexivity|apply has_setb_neq; [unfold B_QUERY_CACHE; lia|exact H]]. Qed.
Lemma opt_servers_other m f u t l b' : B_SERVERS <> b' -> has (fst (opt_servers m f u t l)) b' = has m b'.
Proof. intros H. unfold opt_servers. destruct (has m B_SERVERS); [|reflexivity]. destruct l; [apply has_clrb_neq; exact H|reflexivity]. Qed.

Ltac bits_neq := unfold B_FLAGS, B_TIMEOUT, B_TRIES, B_NDOTS, B_UDP_PORT, B_TCP_PORT, B_SERVERS, B_DOMAINS, B_LOOKUPS,
  B_SOCK_STATE_CB, B_SORTLIST, B_SOCK_SNDBUF, B_SOCK_RCVBUF, B_TIMEOUTMS, B_ROTATE, B_EDNSPSZ, B_NOROTATE, B_RESOLVCONF,
  B_HOSTS_FILE, B_UDP_MAX_QUERIES, B_MAXTIMEOUTMS, B_QUERY_CACHE, B_EVENT_THREAD, B_SERVER_FAILOVER; lia.

(* a bit none of whose own conditions clears it is still set when the system configuration is applied *)
Ltac mask_chain :=
  repeat first [ rewrite opt_servers_other by bits_neq | rewrite opt_qcache_other by bits_neq
               | rewrite opt_pos_other by bits_neq | rewrite opt_lookups_other by bits_neq
               | rewrite opt_ndots_other by bits_neq | rewrite opt_timeout_other by bits_neq ].

Section WithNet.
Variable nf : netfns.

(* at every reinit *)
Theorem reinit_user_wins e c c' : reinit nf e c = Ok c' -> guarded_same c c'.
Proof.
  unfold reinit, init_by_sysconfig.
  destruct (read_sysconfig nf (c_ifs c) e) as [s|st|k]; try discriminate.
  - intros H; inversion H. apply sysconfig_apply_user_wins.
  - destruct (st =? NotModelled); [discriminate|]. intros H; inversion H; subst. apply guarded_same_refl.
Qed.

(* the value the application passed reaches the channel and survives ares_init_options.
   (ARES_OPT_DOMAINS with an empty list is the documented way to ask for the defaults, hence the
   side condition; see docs/C16.md) *)
Theorem init_user_wins e o m c :
  init_options nf e o m = Ok c ->
  (has m B_FLAGS = true -> c_flags c = u32 (o_flags o)) /\
  (has m B_TRIES = true -> 0 < o_tries o -> c_tries c = o_tries o) /\
  (has m B_NDOTS = true -> 0 <= o_ndots o -> c_ndots c = o_ndots o) /\
  (has m B_TIMEOUTMS = true -> 0 < o_timeout o < 2 ^ 32 -> c_timeout c = o_timeout o) /\
  (has m B_DOMAINS = true -> o_domains o <> [] -> c_domains c = o_domains o) /\
  (has m B_LOOKUPS = true -> forall l, o_lookups o = Some l -> c_lookups c = Some l) /\
  (has m B_SORTLIST = true -> c_sortlist c = o_sortlist o) /\
  (has m B_NOROTATE = true -> c_rotate c = false) /\
  (has m B_ROTATE = true -> has m B_NOROTATE = false -> c_rotate c = true).
Proof.
  unfold init_options. intros H.
  destruct (init_by_options o m) as [c0| |] eqn:E0; simpl in H; try discriminate.
  destruct (init_by_sysconfig nf e (chan_set_ifs c0 (e_defifs e))) as [c1| |] eqn:E1; simpl in H; try discriminate.
  destruct (init_by_defaults e c1) as [c2| |] eqn:E2; simpl in H; try discriminate.
  inversion H; subst c; clear H.
  cbn [c_flags c_tries c_ndots c_timeout c_domains c_lookups c_sortlist c_rotate].
  (* stage 2: the system configuration respects the mask *)
  assert (guarded_same c0 c1) as G.
  { apply (guarded_same_set_ifs c0 (e_defifs e)). unfold init_by_sysconfig in E1. destruct (read_sysconfig nf (c_ifs (chan_set_ifs c0 (e_defifs e))) e) as [s|st|k]; try discriminate.
    - inversion E1. apply sysconfig_apply_user_wins.
    - destruct (st =? NotModelled); [discriminate|]. inversion E1; subst. apply guarded_same_refl. }
  (* stage 3: defaults fill only what is still unset *)
  unfold init_by_defaults in E2.
  destruct (match c_servers c1 with [] => _ | _ => _ end) as [srv| |]; simpl in E2; try discriminate.
  apply Ok_inj in E2; subst c2.
  cbn [c_flags c_tries c_ndots c_timeout c_domains c_lookups c_sortlist c_rotate].
  rewrite (gs_mask _ _ G).
  (* stage 1 *)
  unfold init_by_options in E0. cbv zeta in E0. apply Ok_inj in E0; subst c0.
  cbn [chan_set_ifs c_optmask c_flags c_tries c_ndots c_timeout c_domains c_lookups c_sortlist c_rotate] in *.
  repeat split.
  - intros Hb. rewrite has_u32 by bits_neq. mask_chain. rewrite Hb.
    rewrite (gs_flags _ _ G); cbn [chan_set_ifs c_optmask c_flags]; [rewrite Hb; reflexivity|].
    rewrite has_u32 by bits_neq. mask_chain. exact Hb.
  - intros Hb Hv.
    assert (opt_pos (fst (opt_timeout m (o_timeout o))) B_TRIES (o_tries o) 0 = (fst (opt_timeout m (o_timeout o)), o_tries o)) as Ep.
    { unfold opt_pos. rewrite opt_timeout_other by bits_neq. rewrite Hb. destruct (Z.leb_spec (o_tries o) 0); [lia|reflexivity]. }
    rewrite (gs_tries _ _ G); cbn [chan_set_ifs c_optmask c_tries].
    + rewrite Ep. cbn [snd]. destruct (Z.eqb_spec (o_tries o) 0); [lia|reflexivity].
    + rewrite has_u32 by bits_neq. mask_chain. rewrite Ep. cbn [fst]. rewrite opt_timeout_other by bits_neq. exact Hb.
  - intros Hb Hv.
    assert (has (fst (opt_pos (fst (opt_timeout m (o_timeout o))) B_TRIES (o_tries o) 0)) B_NDOTS = true) as Hb'.
    { rewrite opt_pos_other by bits_neq. rewrite opt_timeout_other by bits_neq. exact Hb. }
    assert (forall mm, has mm B_NDOTS = true -> opt_ndots mm (o_ndots o) = (mm, o_ndots o)) as Ep.
    { intros mm Hm. unfold opt_ndots. rewrite Hm. destruct (Z.ltb_spec (o_ndots o) 0); [lia|reflexivity]. }
    rewrite (gs_ndots _ _ G); cbn [chan_set_ifs c_optmask c_ndots].
    + rewrite (Ep _ Hb'). reflexivity.
    + rewrite has_u32 by bits_neq. mask_chain. rewrite (Ep _ Hb'). cbn [fst]. exact Hb'.
  - intros Hb Hv.
    assert (opt_timeout m (o_timeout o) = (clrb m B_TIMEOUT, o_timeout o)) as Ep.
    { unfold opt_timeout. rewrite Hb. destruct (Z.leb_spec (o_timeout o) 0); [lia|]. unfold u32. rewrite Z.mod_small by lia. reflexivity. }
    rewrite (gs_timeout _ _ G); cbn [chan_set_ifs c_optmask c_timeout].
    + rewrite Ep. cbn [snd]. destruct (Z.eqb_spec (o_timeout o) 0); [lia|reflexivity].
    + rewrite has_u32 by bits_neq. mask_chain. rewrite Ep. cbn [fst]. rewrite has_clrb_neq by bits_neq. exact Hb.
  - intros Hb Hne.
    assert (has (fst (opt_pos (fst (opt_pos (fst (opt_pos (fst (opt_pos (fst (opt_ndots (fst (opt_pos (fst (opt_timeout m (o_timeout o))) B_TRIES (o_tries o) 0)) (o_ndots o))) B_MAXTIMEOUTMS (o_maxtimeout o) 0)) B_SOCK_SNDBUF (o_sndbuf o) 0)) B_SOCK_RCVBUF (o_rcvbuf o) 0)) B_EDNSPSZ (o_ednspsz o) 0)) B_DOMAINS = true) as Hb'.
    { mask_chain. exact Hb. }
    rewrite (gs_domains _ _ G); cbn [chan_set_ifs c_optmask c_domains].
    + rewrite Hb'. destruct (o_domains o); [congruence|reflexivity].
    + rewrite has_u32 by bits_neq. mask_chain. exact Hb.
  - intros Hb l Hl.
    assert (forall mm, has mm B_LOOKUPS = true -> opt_lookups mm (o_lookups o) = (mm, Some l)) as Ep.
    { intros mm Hm. unfold opt_lookups. rewrite Hm, Hl. reflexivity. }
    rewrite (gs_lookups _ _ G); cbn [chan_set_ifs c_optmask c_lookups].
    + match goal with |- context [opt_lookups ?mm (o_lookups o)] =>
        assert (has mm B_LOOKUPS = true) as Hb' by (mask_chain; exact Hb); rewrite (Ep _ Hb') end. reflexivity.
    + rewrite has_u32 by bits_neq. mask_chain.
      match goal with |- context [opt_lookups ?mm (o_lookups o)] =>
        assert (has mm B_LOOKUPS = true) as Hb' by (mask_chain; exact Hb); rewrite (Ep _ Hb') end. cbn [fst]. exact Hb'.
  - intros Hb.
    rewrite (gs_sortlist _ _ G); cbn [chan_set_ifs c_optmask c_sortlist].
    + match goal with |- context [if has ?mm B_SORTLIST then _ else _] =>
        assert (has mm B_SORTLIST = true) as Hb' by (mask_chain; exact Hb); rewrite Hb' end. reflexivity.
    + rewrite has_u32 by bits_neq. mask_chain. exact Hb.
  - intros Hb.
    rewrite (gs_rotate _ _ G); cbn [chan_set_ifs c_optmask c_rotate].
    + match goal with |- context [if has ?mm B_NOROTATE then _ else _] =>
        assert (has mm B_NOROTATE = true) as Hb' by (mask_chain; exact Hb); rewrite Hb' end. reflexivity.
    + rewrite !has_u32 by bits_neq. mask_chain. rewrite Hb. apply orb_true_r.
  - intros Hb Hn.
    rewrite (gs_rotate _ _ G); cbn [chan_set_ifs c_optmask c_rotate].
    + match goal with |- context [if has ?mm B_NOROTATE then _ else has ?mm B_ROTATE] =>
        assert (has mm B_NOROTATE = false) as Hn' by (mask_chain; exact Hn);
        assert (has mm B_ROTATE = true) as Hb' by (mask_chain; exact Hb); rewrite Hn', Hb' end. reflexivity.
    + rewrite !has_u32 by bits_neq. mask_chain. rewrite Hb. reflexivity.
Qed.

End WithNet.

(* ------------------------------------------------------------------ C16_save_init_id *)
Definition int_pos (z : Z) : Prop := 0 < z < 2 ^ 31.

(* what every channel produced by ares_init_options from int-sized option values satisfies,
   except for ARES_OPT_TIMEOUT (seconds) above 2147483 (see save_init_timeout_refuted) *)
Record chan_wf (c : chan) : Prop := {
  wf_mask : 0 <= c_optmask c < 2 ^ 31;
  wf_no_timeout_bit : has (c_optmask c) B_TIMEOUT = false;
  wf_qcache_bit : has (c_optmask c) B_QUERY_CACHE = true;
  wf_flags : 0 <= c_flags c < 2 ^ 32;
  wf_timeout : has (c_optmask c) B_TIMEOUTMS = true -> int_pos (c_timeout c);
  wf_tries : has (c_optmask c) B_TRIES = true -> int_pos (c_tries c);
  wf_ndots : has (c_optmask c) B_NDOTS = true -> 0 <= c_ndots c < 2 ^ 31;
  wf_maxtimeout : has (c_optmask c) B_MAXTIMEOUTMS = true -> int_pos (c_maxtimeout c);
  wf_sndbuf : has (c_optmask c) B_SOCK_SNDBUF = true -> int_pos (c_sndbuf c);
  wf_rcvbuf : has (c_optmask c) B_SOCK_RCVBUF = true -> int_pos (c_rcvbuf c);
  wf_ednspsz : has (c_optmask c) B_EDNSPSZ = true -> int_pos (c_ednspsz c);
  wf_udpmaxq : has (c_optmask c) B_UDP_MAX_QUERIES = true -> int_pos (c_udpmaxq c);
  wf_lookups : has (c_optmask c) B_LOOKUPS = true -> c_lookups c <> None;
  wf_norotate : has (c_optmask c) B_NOROTATE = true -> c_rotate c = false;
  wf_rotate : has (c_optmask c) B_ROTATE = true -> has (c_optmask c) B_NOROTATE = false -> c_rotate c = true }.

(* agreement on every field the option mask covers (servers: see C16_csv_fixpoint / C16_dup) *)
Record covered_same (c c0 : chan) : Prop := {
  cs_mask : forall b, 0 <= b < 32 -> b <> B_SERVERS -> has (c_optmask c0) b = has (c_optmask c) b;
  cs_flags : has (c_optmask c) B_FLAGS = true -> c_flags c0 = c_flags c;
  cs_timeout : has (c_optmask c) B_TIMEOUTMS = true -> c_timeout c0 = c_timeout c;
  cs_tries : has (c_optmask c) B_TRIES = true -> c_tries c0 = c_tries c;
  cs_ndots : has (c_optmask c) B_NDOTS = true -> c_ndots c0 = c_ndots c;
  cs_maxtimeout : has (c_optmask c) B_MAXTIMEOUTMS = true -> c_maxtimeout c0 = c_maxtimeout c;
  cs_rotate : has (c_optmask c) B_ROTATE || has (c_optmask c) B_NOROTATE = true -> c_rotate c0 = c_rotate c;
  cs_udp : has (c_optmask c) B_UDP_PORT = true -> c_udp c0 = c_udp c;
  cs_tcp : has (c_optmask c) B_TCP_PORT = true -> c_tcp c0 = c_tcp c;
  cs_sndbuf : has (c_optmask c) B_SOCK_SNDBUF = true -> c_sndbuf c0 = c_sndbuf c;
  cs_rcvbuf : has (c_optmask c) B_SOCK_RCVBUF = true -> c_rcvbuf c0 = c_rcvbuf c;
  cs_ednspsz : has (c_optmask c) B_EDNSPSZ = true -> c_ednspsz c0 = c_ednspsz c;
  cs_udpmaxq : has (c_optmask c) B_UDP_MAX_QUERIES = true -> c_udpmaxq c0 = c_udpmaxq c;
  cs_qcache : has (c_optmask c) B_QUERY_CACHE = true -> c_qcache c0 = c_qcache c;
  cs_domains : has (c_optmask c) B_DOMAINS = true -> c_domains c0 = c_domains c;
  cs_lookups : has (c_optmask c) B_LOOKUPS = true -> c_lookups c0 = c_lookups c;
  cs_sortlist : has (c_optmask c) B_SORTLIST = true -> c_sortlist c0 = c_sortlist c;
  cs_sscb : has (c_optmask c) B_SOCK_STATE_CB = true -> c_sscb c0 = c_sscb c;
  cs_failover : has (c_optmask c) B_SERVER_FAILOVER = true ->
                c_retry_chance c0 = c_retry_chance c /\ c_retry_delay c0 = c_retry_delay c }.

Lemma i32_small z : 0 <= z < 2 ^ 31 -> i32 z = z.
Proof. intros H. unfold i32. apply swrap_small; lia. Qed.

Lemma u32_i32 z : 0 <= z < 2 ^ 32 -> u32 (i32 z) = z.
Proof.
  intros H. unfold u32, i32, swrap. rewrite (Z.mod_small z) by lia.
  change (2 ^ (32 - 1)) with 2147483648. change (2 ^ 32) with 4294967296 in *.
  destruct (Z.ltb_spec z 2147483648).
  - apply Z.mod_small. lia.
  - replace (z - 4294967296) with (z + (-1) * 4294967296) by lia. rewrite Z.mod_add by lia. apply Z.mod_small. lia.
Qed.

Lemma opt_pos_saved m b v g : (has m b = true -> int_pos v) ->
  opt_pos m b (if has m b then i32 v else g) 0 = (m, if has m b then v else 0).
Proof.
  intros H. unfold opt_pos. destruct (has m b) eqn:E; [|reflexivity].
  destruct (H eq_refl) as [H1 H2]. rewrite i32_small by lia. destruct (Z.leb_spec v 0); [lia|reflexivity].
Qed.

(* stage 1: ares_init_by_options applied to what ares_save_options wrote *)
Theorem save_init_by_options g c o m' :
  chan_wf c -> save_options g c = Ok (o, m') ->
  exists c0, init_by_options o m' = Ok c0 /\ covered_same c c0.
Proof.
  intros W H. unfold save_options in H.
  destruct (_ || _ || _ || _); [discriminate|].
  apply Ok_inj in H. injection H as Ho Hm. 
  set (m := c_optmask c) in *.
  assert (m' = m) as -> by (subst m'; apply i32_small; exact (wf_mask c W)).
  eexists. split; [reflexivity|].
  subst o. cbn [o_flags o_timeout o_tries o_ndots o_udp o_tcp o_sndbuf o_rcvbuf o_servers o_domains o_lookups
               o_sscb o_sortlist o_ednspsz o_udpmaxq o_maxtimeout o_qcache o_retry_chance o_retry_delay].
  (* every step leaves the mask alone (the servers step may clear its own bit) *)
  assert (opt_timeout m (if has m B_TIMEOUTMS then i32 (c_timeout c) else g) = (m, if has m B_TIMEOUTMS then c_timeout c else 0)) as E1.
  { unfold opt_timeout. destruct (has m B_TIMEOUTMS) eqn:E.
    - destruct (wf_timeout c W E) as [A B0]. rewrite i32_small by lia. destruct (Z.leb_spec (c_timeout c) 0); [lia|].
      unfold u32. rewrite Z.mod_small by lia.
      pose proof (wf_no_timeout_bit c W) as Hnt. fold m in Hnt. rewrite (clrb_noop m B_TIMEOUT Hnt). reflexivity.
    - pose proof (wf_no_timeout_bit c W) as Hnt. fold m in Hnt. rewrite Hnt. reflexivity. }
  rewrite E1. cbn [fst snd].
  rewrite (opt_pos_saved m B_TRIES (c_tries c) g (wf_tries c W)). cbn [fst snd].
  assert (opt_ndots m (if has m B_NDOTS then i32 (c_ndots c) else g) = (m, if has m B_NDOTS then c_ndots c else 1)) as E3.
  { unfold opt_ndots. destruct (has m B_NDOTS) eqn:E; [|reflexivity].
    pose proof (wf_ndots c W E). rewrite i32_small by lia. destruct (Z.ltb_spec (c_ndots c) 0); [lia|reflexivity]. }
  rewrite E3. cbn [fst snd].
  rewrite (opt_pos_saved m B_MAXTIMEOUTMS (c_maxtimeout c) g (wf_maxtimeout c W)). cbn [fst snd].
  assert (opt_pos m B_SOCK_SNDBUF (if has m B_SOCK_SNDBUF && (0 <? c_sndbuf c) then c_sndbuf c else g) 0 = (m, if has m B_SOCK_SNDBUF then c_sndbuf c else 0)) as E5.
  { unfold opt_pos. destruct (has m B_SOCK_SNDBUF) eqn:E; [|reflexivity]. destruct (wf_sndbuf c W E) as [A B0].
    cbn [andb]. destruct (Z.ltb_spec 0 (c_sndbuf c)); [|lia]. destruct (Z.leb_spec (c_sndbuf c) 0); [lia|reflexivity]. }
  rewrite E5. cbn [fst snd].
  assert (opt_pos m B_SOCK_RCVBUF (if has m B_SOCK_RCVBUF && (0 <? c_rcvbuf c) then c_rcvbuf c else g) 0 = (m, if has m B_SOCK_RCVBUF then c_rcvbuf c else 0)) as E6.
  { unfold opt_pos. destruct (has m B_SOCK_RCVBUF) eqn:E; [|reflexivity]. destruct (wf_rcvbuf c W E) as [A B0].
    cbn [andb]. destruct (Z.ltb_spec 0 (c_rcvbuf c)); [|lia]. destruct (Z.leb_spec (c_rcvbuf c) 0); [lia|reflexivity]. }
  rewrite E6. cbn [fst snd].
  rewrite (opt_pos_saved m B_EDNSPSZ (c_ednspsz c) g (wf_ednspsz c W)). cbn [fst snd].
  assert (opt_lookups m (if has m B_LOOKUPS then c_lookups c else None) = (m, if has m B_LOOKUPS then c_lookups c else None)) as E8.
  { unfold opt_lookups. destruct (has m B_LOOKUPS) eqn:E; [|reflexivity].
    pose proof (wf_lookups c W E). destruct (c_lookups c); [reflexivity|congruence]. }
  rewrite E8. cbn [fst snd].
  rewrite (opt_pos_saved m B_UDP_MAX_QUERIES (c_udpmaxq c) g (wf_udpmaxq c W)). cbn [fst snd].
  assert (forall v, opt_qcache m v = (m, v)) as E10.
  { intros v. unfold opt_qcache. pose proof (wf_qcache_bit c W) as Hq. fold m in Hq. rewrite Hq. reflexivity. }
  rewrite E10. cbn [fst snd].
  assert (forall b, b <> B_SERVERS -> forall f u t l, has (fst (opt_servers m f u t l)) b = has m b) as E11.
  { intros b Hb f u t l. apply opt_servers_other. congruence. }
  subst m.
  constructor; cbn [c_optmask c_flags c_timeout c_tries c_ndots c_maxtimeout c_rotate c_udp c_tcp c_sndbuf c_rcvbuf
                    c_ednspsz c_udpmaxq c_qcache c_domains c_lookups c_sortlist c_sscb c_retry_chance c_retry_delay].
  - intros b Hb Hne. rewrite has_u32 by exact Hb. apply E11. exact Hne.
  - intros Hb. rewrite Hb. apply u32_i32. exact (wf_flags c W).
  - intros Hb. rewrite Hb. reflexivity.
  - intros Hb. rewrite Hb. reflexivity.
  - intros Hb. rewrite Hb. reflexivity.
  - intros Hb. rewrite Hb. reflexivity.
  - intros Hb. destruct (has (c_optmask c) B_NOROTATE) eqn:En.
    + symmetry. apply (wf_norotate c W En).
    + cbn [orb] in Hb. rewrite orb_false_r in Hb. rewrite Hb. symmetry. apply (wf_rotate c W Hb En).
  - intros Hb. rewrite Hb. reflexivity.
  - intros Hb. rewrite Hb. reflexivity.
  - intros Hb. rewrite Hb. reflexivity.
  - intros Hb. rewrite Hb. reflexivity.
  - intros Hb. rewrite Hb. reflexivity.
  - intros Hb. rewrite Hb. reflexivity.
  - intros Hb. rewrite Hb. reflexivity.
  - intros Hb. rewrite Hb. reflexivity.
  - intros Hb. rewrite Hb. reflexivity.
  - intros Hb. rewrite Hb. reflexivity.
  - intros Hb. rewrite Hb. reflexivity.
  - intros Hb. rewrite E11 by bits_neq. rewrite Hb. split; reflexivity.
Qed.

(* stage 2 and 3 of ares_init_options keep every covered field *)
Section Effective.
Variable nf : netfns.

Theorem save_init_effective g e c o m' c1 :
  chan_wf c -> (has (c_optmask c) B_DOMAINS = true -> c_domains c <> []) ->
  save_options g c = Ok (o, m') -> init_options nf e o m' = Ok c1 ->
  covered_same c c1.
Proof.
  intros W Hdom Hs Hi.
  destruct (save_init_by_options g c o m' W Hs) as (c0 & E0 & CS).
  unfold init_options in Hi. rewrite E0 in Hi. simpl in Hi.
  destruct (init_by_sysconfig nf e (chan_set_ifs c0 (e_defifs e))) as [c0'| |] eqn:E1; simpl in Hi; try discriminate.
  assert (guarded_same c0 c0') as G.
  { apply (guarded_same_set_ifs c0 (e_defifs e)). unfold init_by_sysconfig in E1. destruct (read_sysconfig nf (c_ifs (chan_set_ifs c0 (e_defifs e))) e) as [s|st|k]; try discriminate.
    - apply Ok_inj in E1. subst c0'. apply sysconfig_apply_user_wins.
    - destruct (st =? NotModelled); [discriminate|]. apply Ok_inj in E1. subst c0'. apply guarded_same_refl. }
  unfold init_by_defaults in Hi.
  destruct (match c_servers c0' with [] => _ | _ => _ end) as [srv| |]; simpl in Hi; try discriminate.
  apply Ok_inj in Hi. subst c1.
  destruct (gs_rest _ _ G) as (R1 & R2 & R3 & R4 & R5 & R6 & R7 & R8 & R9 & R10 & R11 & _).
  assert (forall b, 0 <= b < 32 -> b <> B_SERVERS -> has (c_optmask c) b = true -> has (c_optmask c0) b = true) as Hbit.
  { intros b Hb Hne Hc. rewrite (cs_mask _ _ CS b Hb Hne). exact Hc. }
  constructor; cbn [c_optmask c_flags c_timeout c_tries c_ndots c_maxtimeout c_rotate c_udp c_tcp c_sndbuf c_rcvbuf
                    c_ednspsz c_udpmaxq c_qcache c_domains c_lookups c_sortlist c_sscb c_retry_chance c_retry_delay].
  - intros b Hb Hne. rewrite (gs_mask _ _ G). apply (cs_mask _ _ CS b Hb Hne).
  - intros Hb. rewrite (gs_mask _ _ G). rewrite (Hbit B_FLAGS) by (try exact Hb; bits_neq).
    rewrite (gs_flags _ _ G) by (apply Hbit; [bits_neq|bits_neq|exact Hb]). apply (cs_flags _ _ CS Hb).
  - intros Hb. rewrite (gs_timeout _ _ G) by (apply Hbit; [bits_neq|bits_neq|exact Hb]). rewrite (cs_timeout _ _ CS Hb).
    destruct (wf_timeout c W Hb). destruct (Z.eqb_spec (c_timeout c) 0); [lia|reflexivity].
  - intros Hb. rewrite (gs_tries _ _ G) by (apply Hbit; [bits_neq|bits_neq|exact Hb]). rewrite (cs_tries _ _ CS Hb).
    destruct (wf_tries c W Hb). destruct (Z.eqb_spec (c_tries c) 0); [lia|reflexivity].
  - intros Hb. rewrite (gs_ndots _ _ G) by (apply Hbit; [bits_neq|bits_neq|exact Hb]). apply (cs_ndots _ _ CS Hb).
  - intros Hb. rewrite R1. apply (cs_maxtimeout _ _ CS Hb).
  - intros Hb. rewrite (gs_rotate _ _ G); [apply (cs_rotate _ _ CS Hb)|].
    rewrite (cs_mask _ _ CS B_ROTATE) by bits_neq. rewrite (cs_mask _ _ CS B_NOROTATE) by bits_neq. exact Hb.
  - intros Hb. rewrite R2. apply (cs_udp _ _ CS Hb).
  - intros Hb. rewrite R3. apply (cs_tcp _ _ CS Hb).
  - intros Hb. rewrite R4. apply (cs_sndbuf _ _ CS Hb).
  - intros Hb. rewrite R5. apply (cs_rcvbuf _ _ CS Hb).
  - intros Hb. rewrite R6. rewrite (cs_ednspsz _ _ CS Hb).
    destruct (wf_ednspsz c W Hb). destruct (Z.eqb_spec (c_ednspsz c) 0); [lia|reflexivity].
  - intros Hb. rewrite R8. apply (cs_udpmaxq _ _ CS Hb).
  - intros Hb. rewrite R7. apply (cs_qcache _ _ CS Hb).
  - intros Hb. rewrite (gs_domains _ _ G) by (apply Hbit; [bits_neq|bits_neq|exact Hb]). rewrite (cs_domains _ _ CS Hb).
    destruct (c_domains c) eqn:Ed; [exfalso; apply (Hdom Hb); reflexivity|reflexivity].
  - intros Hb. rewrite (gs_lookups _ _ G) by (apply Hbit; [bits_neq|bits_neq|exact Hb]). rewrite (cs_lookups _ _ CS Hb).
    pose proof (wf_lookups c W Hb). destruct (c_lookups c); [reflexivity|congruence].
  - intros Hb. rewrite (gs_sortlist _ _ G) by (apply Hbit; [bits_neq|bits_neq|exact Hb]). apply (cs_sortlist _ _ CS Hb).
  - intros Hb. rewrite R11. apply (cs_sscb _ _ CS Hb).
  - intros Hb. rewrite (gs_mask _ _ G). rewrite (Hbit B_SERVER_FAILOVER) by (try exact Hb; bits_neq).
    rewrite R9, R10. apply (cs_failover _ _ CS Hb).
Qed.

End Effective.

(* ARES_OPT_TIMEOUT in seconds above 2147483 s is clamped to INT_MAX ms
   (fixes/C16-timeout-seconds-clamp.patch); before the fix 3000000 s became 3 000 000 000 ms, which
   ares_save_options could not represent, and init (save c) lost it *)
Definition wt_chan : chan :=
  mkChan 256 2147483647 3 1 0 false 0 0 0 0 [] [] (Some s_fb) 1232 3600 0 (2 ^ 13 + 2 ^ 21) 10 5000 0
         [mkServer loopback 53 53 [] 0] [] 0 [] None.

Lemma save_init_timeout_clamped :
  option_map c_timeout (match init_by_options (mkOpts 0 3000000 0 0 0 0 0 0 [] [] None 0 [] 0 0 0 0 0 0) 2 with Ok c => Some c | _ => None end)
    = Some (c_timeout wt_chan) /\
  c_timeout wt_chan = 2147483647 /\
  match save_options 0 wt_chan with
  | Ok (o', m') => match init_by_options o' m' with
                   | Ok c0 => Z.testbit (c_optmask c0) B_TIMEOUTMS = true /\ c_timeout c0 = 2147483647
                   | _ => False
                   end
  | _ => False
  end.
Proof. vm_compute. repeat split; reflexivity. Qed.

(* the hypotheses of save_init_effective are satisfiable by a channel with most option bits set *)
Definition ex_chan : chan :=
  mkChan 272 1234 5 2 9000 false 5353 53 4096 8192 [[97%N]; [98%N]] [mkApat (A4 [10%N; 0%N; 0%N; 0%N]) 8] (Some s_fb)
         1232 3600 100 (2 ^ 0 + 2 ^ 2 + 2 ^ 3 + 2 ^ 4 + 2 ^ 5 + 2 ^ 7 + 2 ^ 8 + 2 ^ 10 + 2 ^ 11 + 2 ^ 12 + 2 ^ 13 + 2 ^ 15
                        + 2 ^ 16 + 2 ^ 19 + 2 ^ 20 + 2 ^ 21 + 2 ^ 23) 7 3000 0
         [mkServer loopback 5353 53 [] 0] [] 0 [] None.

Example chan_wf_example :
  chan_wf ex_chan /\ (has (c_optmask ex_chan) B_DOMAINS = true -> c_domains ex_chan <> []) /\
  exists o m, save_options 0 ex_chan = Ok (o, m).
Proof.
  split; [|split].
  - constructor; try (intros _); try (vm_compute; repeat split; congruence).
  - intros _. discriminate.
  - eexists. eexists. vm_compute. reflexivity.
Qed.
