(* Byte strings and the C character / number helpers used by the configuration code
   (src/lib/include/ares_str.h macros, strtoul, atoi, decimal / hex printing).
   Bytes are N (0..255); text is list N. *)
From Coq Require Export List ZArith NArith Lia Bool.
From Coq Require Import Ascii String.
From CAres.Base Require Export Outcome CInt.
Export ListNotations.
Local Open Scope N_scope.

Definition bytes := list N.

Definition bytes_of_string (s : string) : bytes := map N_of_ascii (list_ascii_of_string s).

Fixpoint bytes_eqb (a b : bytes) : bool :=
  match a, b with
  | [], [] => true
  | x :: a', y :: b' => N.eqb x y && bytes_eqb a' b'
  | _, _ => false
  end.

Lemma bytes_eqb_eq a b : bytes_eqb a b = true <-> a = b.
Proof.
  revert b; induction a as [|x a IH]; intros [|y b]; simpl; split; intros H; try discriminate; auto.
  - apply andb_true_iff in H as [H1 H2]. apply N.eqb_eq in H1. apply IH in H2. congruence.
  - inversion H; subst. rewrite N.eqb_refl. simpl. apply IH. reflexivity.
Qed.

Lemma bytes_eqb_refl a : bytes_eqb a a = true.
Proof. apply bytes_eqb_eq. reflexivity. Qed.

Definition mem (c : N) (set : bytes) : bool := existsb (N.eqb c) set.

(* ---- ares_str.h character classes ---- *)
Definition isdigit (c : N) : bool := (48 <=? c) && (c <=? 57).
Definition islower (c : N) : bool := (97 <=? c) && (c <=? 122).
Definition isupper (c : N) : bool := (65 <=? c) && (c <=? 90).
Definition isalpha (c : N) : bool := islower c || isupper c.
Definition isxdigit (c : N) : bool :=
  isdigit c || ((97 <=? c) && (c <=? 102)) || ((65 <=? c) && (c <=? 70)).
(* ares_isspace == ares_is_whitespace(c, ARES_TRUE): \r \t space \v \f \n *)
Definition isspace (c : N) : bool :=
  (c =? 13) || (c =? 9) || (c =? 32) || (c =? 11) || (c =? 12) || (c =? 10).
Definition isprint (c : N) : bool := (32 <=? c) && (c <=? 126).
Definition tolower (c : N) : N := if isupper c then c + 32 else c.
Definition is_hostnamech (c : N) : bool :=
  isalpha c || isdigit c || (c =? 45) || (c =? 46) || (c =? 95) || (c =? 47) || (c =? 42).

Definition str_isnum (s : bytes) : bool := negb (bytes_eqb s []) && forallb isdigit s.
Definition str_isalnum (s : bytes) : bool :=
  negb (bytes_eqb s []) && forallb (fun c => isdigit c || isalpha c) s.

Definition bytes_caseeq (a b : bytes) : bool := bytes_eqb (map tolower a) (map tolower b).

(* ---- spans ---- *)
Fixpoint span (p : N -> bool) (l : bytes) : bytes * bytes :=
  match l with
  | [] => ([], [])
  | c :: r => if p c then let (a, b) := span p r in (c :: a, b) else ([], l)
  end.

Definition takewhile (p : N -> bool) (l : bytes) : bytes := fst (span p l).
Definition dropwhile (p : N -> bool) (l : bytes) : bytes := snd (span p l).

Lemma span_app p l : fst (span p l) ++ snd (span p l) = l.
Proof. induction l as [|c r IH]; simpl; auto. destruct (p c); simpl; auto. destruct (span p r); simpl in *. congruence. Qed.

Lemma span_all p a c b : forallb p a = true -> p c = false -> span p (a ++ c :: b) = (a, c :: b).
Proof.
  induction a as [|x a IH]; simpl; intros Ha Hc.
  - rewrite Hc. reflexivity.
  - apply andb_true_iff in Ha as [Hx Ha]. rewrite Hx, IH; auto.
Qed.

Lemma span_all_end p a : forallb p a = true -> span p a = (a, []).
Proof.
  induction a as [|x a IH]; simpl; intros Ha; auto.
  apply andb_true_iff in Ha as [Hx Ha]. rewrite Hx, IH; auto.
Qed.

(* linear-time list reversal (List.rev extracts to a quadratic function) *)
Definition frev (l : bytes) : bytes := rev_append l [].
Lemma frev_rev l : frev l = rev l.
Proof. unfold frev. symmetry. apply rev_alt. Qed.

(* ares_str_trim (ltrim then rtrim, ares_isspace) *)
Definition ltrim (s : bytes) : bytes := dropwhile isspace s.
Definition rtrim (s : bytes) : bytes := frev (dropwhile isspace (frev s)).
Definition str_trim (s : bytes) : bytes := rtrim (ltrim s).

(* position of the first occurrence of [c] (memchr) *)
Fixpoint index_of (c : N) (l : bytes) : option nat :=
  match l with
  | [] => None
  | x :: r => if N.eqb x c then Some O else option_map S (index_of c r)
  end.

Fixpoint is_prefix (p l : bytes) : bool :=
  match p, l with
  | [], _ => true
  | x :: p', y :: l' => N.eqb x y && is_prefix p' l'
  | _, [] => false
  end.

(* ares_memmem position of the first occurrence of [seq] *)
Fixpoint find_seq (seq l : bytes) : option nat :=
  if is_prefix seq l then Some O
  else match l with
       | [] => None
       | _ :: r => option_map S (find_seq seq r)
       end.

(* ---- numbers ---- *)
Definition digit_val (c : N) : Z := Z.of_N c - 48.

Definition digits_value (ds : bytes) : Z := fold_left (fun a d => 10 * a + digit_val d)%Z ds 0%Z.

(* sign and digits after optional white space: the common front end of strtoul / strtol *)
Definition num_front (s : bytes) : bool * bytes :=
  let s1 := dropwhile isspace s in
  match s1 with
  | c :: r => if c =? 45 then (true, takewhile isdigit r)
              else if c =? 43 then (false, takewhile isdigit r)
              else (false, takewhile isdigit s1)
  | [] => (false, [])
  end.

(* (unsigned int)strtoul(s, NULL, 10) on an LP64 system: the value saturates at ULONG_MAX, a
   leading '-' negates modulo 2^64, the conversion to unsigned int is modulo 2^32 *)
Definition strtoul10_u32 (s : bytes) : Z :=
  let (neg, ds) := num_front s in
  let v := digits_value ds in
  let ul := (if v >? 2 ^ 64 - 1 then 2 ^ 64 - 1 else if neg then (2 ^ 64 - v) mod 2 ^ 64 else v)%Z in
  (ul mod 2 ^ 32)%Z.

(* atoi: ISO C leaves the result undefined when it is not representable as int *)
Definition atoi (s : bytes) : outcome Z :=
  let (neg, ds) := num_front s in
  let v := digits_value ds in
  let r := (if neg then - v else v)%Z in
  if ((- 2 ^ 31 <=? r) && (r <=? 2 ^ 31 - 1))%Z then Ok r else UB SignedOverflow.

(* decimal text of a non-negative number (ares_buf_append_num_dec with len 0, snprintf %u / %d) *)
Fixpoint dec_digits (fuel : nat) (n : N) (acc : bytes) : bytes :=
  match fuel with
  | O => acc
  | S f => if n <? 10 then (48 + n) :: acc else dec_digits f (n / 10) ((48 + n mod 10) :: acc)
  end.
Definition dec_of_N (n : N) : bytes := dec_digits 40 n [].
Definition dec_of_Z (z : Z) : bytes := dec_of_N (Z.to_N z).

Definition hex_digit (n : N) : N := if n <? 10 then 48 + n else 87 + n.
Fixpoint hex_digits (fuel : nat) (n : N) (acc : bytes) : bytes :=
  match fuel with
  | O => acc
  | S f => if n <? 16 then hex_digit n :: acc else hex_digits f (n / 16) (hex_digit (n mod 16) :: acc)
  end.
(* snprintf "%x" *)
Definition hex_of_N (n : N) : bytes := hex_digits 40 n [].

Definition u16 (z : Z) : Z := (z mod 65536)%Z.
Definition u32 (z : Z) : Z := (z mod 2 ^ 32)%Z.

(* ---- constants of the text formats ---- *)
Definition ch_hash : N := 35.      Definition ch_semi : N := 59.     Definition ch_colon : N := 58.
Definition ch_lbr : N := 91.       Definition ch_rbr : N := 93.      Definition ch_pct : N := 37.
Definition ch_slash : N := 47.     Definition ch_dot : N := 46.      Definition ch_comma : N := 44.
Definition ch_space : N := 32.     Definition ch_tab : N := 9.       Definition ch_nl : N := 10.
Definition ch_eq : N := 61.        Definition ch_qm : N := 63.       Definition ch_at : N := 64.
Definition ch_amp : N := 38.

Definition s_digits : bytes := Eval compute in bytes_of_string "0123456789".
Definition s_digits_dot : bytes := Eval compute in bytes_of_string "0123456789.".
Definition s_ipcharset : bytes := Eval compute in bytes_of_string "ABCDEFabcdef0123456789.:".
Definition s_ifacecharset : bytes :=
  Eval compute in bytes_of_string "ABCDEFGHIJKLMNOPQRSTUVWXYZabcdefghijklmnopqrstuvwxyz0123456789.-_\:{}".

(* exhaustive check of a boolean predicate below a bound, by binary iteration *)
Definition check_below (chk : N -> bool) (k : N) : bool :=
  snd (N.iter k (fun st => (fst st + 1, snd st && chk (fst st))) (0, true)).

Lemma check_below_sound chk k : check_below chk k = true -> forall m, m < k -> chk m = true.
Proof.
  unfold check_below.
  set (f := fun st : N * bool => (fst st + 1, snd st && chk (fst st))).
  assert (forall k, fst (N.iter k f (0, true)) = k /\ (snd (N.iter k f (0, true)) = true -> forall m, m < k -> chk m = true)) as H.
  { intros k0. induction k0 as [|k0 [IH1 IH2]] using N.peano_ind.
    - simpl. split; [reflexivity|]. intros _ m Hm. lia.
    - rewrite N.iter_succ. unfold f at 1. simpl. rewrite IH1. split; [lia|].
      intros Hb m Hm. apply andb_true_iff in Hb as [Hb1 Hb2].
      destruct (N.eq_dec m k0) as [->|Hne]; [exact Hb2|]. apply IH2; [exact Hb1|lia]. }
  intros Hk. apply (proj2 (H k)). exact Hk.
Qed.

(* atoi (dec p) = p for every 16-bit value: exhaustive check by computation *)
Lemma atoi_dec_u16_all :
  check_below (fun n => match atoi (dec_of_N n) with Ok z => Z.eqb z (Z.of_N n) | _ => false end) 65536 = true.
Proof. vm_compute. reflexivity. Qed.

Lemma atoi_dec_u16 p : (0 <= p < 65536)%Z -> atoi (dec_of_Z p) = Ok p.
Proof.
  intros Hp. pose proof (check_below_sound _ _ atoi_dec_u16_all (Z.to_N p)) as H.
  cbv beta in H. unfold dec_of_Z.
  assert (Z.to_N p < 65536) as Hlt by lia. specialize (H Hlt).
  destruct (atoi (dec_of_N (Z.to_N p))) as [z| |]; try discriminate.
  apply Z.eqb_eq in H. rewrite H. f_equal. lia.
Qed.

Lemma dec_digits_all :
  check_below (fun n => forallb isdigit (dec_of_N n) && negb (bytes_eqb (dec_of_N n) []) && (length (dec_of_N n) <=? 5)%nat)
          65536 = true.
Proof. vm_compute. reflexivity. Qed.

Lemma dec_u16_digits p : (0 <= p < 65536)%Z ->
  forallb isdigit (dec_of_Z p) = true /\ dec_of_Z p <> [] /\ (length (dec_of_Z p) <= 5)%nat.
Proof.
  intros Hp. pose proof (check_below_sound _ _ dec_digits_all (Z.to_N p)) as H.
  cbv beta in H. unfold dec_of_Z.
  assert (Z.to_N p < 65536) as Hlt by lia. specialize (H Hlt).
  apply andb_true_iff in H as [H H3]. apply andb_true_iff in H as [H1 H2].
  split; [exact H1|]. split.
  - intros E. rewrite E in H2. discriminate.
  - apply Nat.leb_le. exact H3.
Qed.

(* ---- digit strings of bounded length never overflow atoi ---- *)
Lemma digit_val_range c : isdigit c = true -> (0 <= digit_val c <= 9)%Z.
Proof. unfold isdigit, digit_val. intros H. apply andb_true_iff in H as [H1 H2]. apply N.leb_le in H1, H2. lia. Qed.

Lemma digits_fold_range ds : forall a, forallb isdigit ds = true -> (0 <= a)%Z ->
  (0 <= fold_left (fun a d => 10 * a + digit_val d) ds a < (a + 1) * 10 ^ Z.of_nat (length ds))%Z.
Proof.
  induction ds as [|d r IH]; intros a H Ha; cbn [fold_left].
  - cbn [length]. change (Z.of_nat 0) with 0%Z. rewrite Z.pow_0_r. lia.
  - cbn [forallb] in H. apply andb_true_iff in H as [Hd Hr]. pose proof (digit_val_range d Hd) as Hv.
    specialize (IH (10 * a + digit_val d)%Z Hr ltac:(lia)).
    change (length (d :: r)) with (S (length r)). rewrite Nat2Z.inj_succ. rewrite Z.pow_succ_r by lia.
    destruct IH as [I1 I2]. split; [exact I1|].
    eapply Z.lt_le_trans; [exact I2|]. 
    assert (0 < 10 ^ Z.of_nat (length r))%Z by (apply Z.pow_pos_nonneg; lia). nia.
Qed.

Lemma digits_value_range ds : forallb isdigit ds = true -> (0 <= digits_value ds < 10 ^ Z.of_nat (length ds))%Z.
Proof. intros H. pose proof (digits_fold_range ds 0%Z H ltac:(lia)) as R. unfold digits_value. lia. Qed.

Lemma digit_not_space c : isdigit c = true -> isspace c = false /\ (c =? 45) = false /\ (c =? 43) = false.
Proof.
  unfold isdigit, isspace. intros H. apply andb_true_iff in H as [H1 H2]. apply N.leb_le in H1, H2.
  repeat split; repeat (apply orb_false_iff; split); apply N.eqb_neq; lia.
Qed.

Lemma num_front_digits s : forallb isdigit s = true -> num_front s = (false, s).
Proof.
  intros H. unfold num_front. destruct s as [|c r]; [reflexivity|].
  simpl in H. apply andb_true_iff in H as [Hc Hr]. destruct (digit_not_space c Hc) as (A & B & C).
  unfold dropwhile. cbn [span]. rewrite A. cbn [snd]. rewrite B, C.
  unfold takewhile. cbn [span]. rewrite Hc. rewrite (span_all_end isdigit r Hr). reflexivity.
Qed.

Lemma atoi_digits s : forallb isdigit s = true -> (length s <= 9)%nat -> atoi s = Ok (digits_value s) /\ (0 <= digits_value s < 10 ^ 9)%Z.
Proof.
  intros H L. pose proof (digits_value_range s H) as R.
  assert (10 ^ Z.of_nat (length s) <= 10 ^ 9)%Z as P by (apply Z.pow_le_mono_r; lia).
  split; [|lia]. unfold atoi. rewrite (num_front_digits s H).
  destruct ((- 2 ^ 31 <=? digits_value s) && (digits_value s <=? 2 ^ 31 - 1))%Z eqn:E; [reflexivity|].
  exfalso. apply andb_false_iff in E as [E|E]; [apply Z.leb_gt in E|apply Z.leb_gt in E]; change (2 ^ 31)%Z with 2147483648%Z in E; change (10 ^ 9)%Z with 1000000000%Z in *; lia.
Qed.
